(* C19_Inv.v — the structural inductive invariant of the ObjectCache model and the frame lemma. *)
From Coq Require Import ZArith List Bool Arith Lia.
From PV Require Import Base.U64 C19.C19_Model C19.C19_Lib.
Import ListNotations.
Local Open Scope Z_scope.

Record Inv (s : state) : Prop := mkInv {
  inv_bad : s_bad s = false;
  (* _refcnt = number of reference holders (handles not yet released + threads between refcnt++ and the
     handle / between release() and refcnt--) *)
  inv_ref : forall i, Z.of_nat (total_holds s i) = refz s i;
  inv_set_live : forall i, In i (s_set s) -> exists it, nth_error (s_items s) i = Some it /\ i_live it = true;
  inv_set_key : forall i j it jt, In i (s_set s) -> In j (s_set s) ->
      nth_error (s_items s) i = Some it -> nth_error (s_items s) j = Some jt -> i_key it = i_key jt -> i = j;
  inv_set_nodup : NoDup (s_set s);
  inv_list : forall i, In i (s_list s) ->
      In i (s_set s) /\ exists it, nth_error (s_items s) i = Some it /\ i_ref it = 0 /\ i_recycle it = None;
  inv_list_nodup : NoDup (s_list s);
  (* a live item is either indexed by _set, or unlinked and owned by exactly one deleter; a dead one by nobody *)
  inv_own : forall i it, nth_error (s_items s) i = Some it ->
      if i_live it then (In i (s_set s) /\ total_owns s i = O) \/ (~ In i (s_set s) /\ total_owns s i = 1%nat /\ i_ref it = 0)
      else (~ In i (s_set s) /\ total_owns s i = O /\ i_ref it = 0);
  inv_own_oob : forall i, (length (s_items s) <= i)%nat -> total_owns s i = O;
  inv_recycler : forall t th i, nth_error (s_thr s) t = Some th -> pc_recycler (t_pc th) i = true ->
      exists it, nth_error (s_items s) i = Some it /\ i_live it = true /\ i_recycle it = Some t /\ In i (s_set s);
  inv_erase_ref : forall t th i ds, nth_error (s_thr s) t = Some th -> t_pc th = PRelErase i ds -> refz s i = 0;
  inv_sem : forall i it, nth_error (s_items s) i = Some it -> i_live it = true ->
      0 <= i_sem it /\ (1 <= i_sem it -> i_ref it = 0 /\ i_recycle it <> None)
}.

(* ---------------------------------------------------------------- consequences *)
Lemma holds_pos_alloc s i : Inv s -> (0 < total_holds s i)%nat ->
  exists it, nth_error (s_items s) i = Some it /\ i_live it = true /\ In i (s_set s) /\ 0 < i_ref it.
Proof.
  intros I H. pose proof (inv_ref s I i) as R. unfold refz in R.
  destruct (nth_error (s_items s) i) as [it|] eqn:E; [|lia].
  exists it. pose proof (inv_own s I i it E) as O.
  destruct (i_live it).
  - destruct O as [[? ?]|[? [? ?]]]; [repeat split; auto; lia | lia].
  - lia.
Qed.

Lemma thr_holds_pos s t th i : Inv s -> nth_error (s_thr s) t = Some th -> (0 < holds th i)%nat ->
  exists it, nth_error (s_items s) i = Some it /\ i_live it = true /\ In i (s_set s) /\ 0 < i_ref it.
Proof.
  intros I Ht H. apply holds_pos_alloc; auto.
  pose proof (sumf_ge (fun th => holds th i) (s_thr s) t th Ht). unfold total_holds. simpl in H0. lia.
Qed.

Lemma owns_pos_alloc s i : Inv s -> (0 < total_owns s i)%nat ->
  exists it, nth_error (s_items s) i = Some it /\ i_live it = true /\ ~ In i (s_set s) /\ total_owns s i = 1%nat /\ i_ref it = 0.
Proof.
  intros I H. destruct (nth_error (s_items s) i) as [it|] eqn:E.
  - exists it. pose proof (inv_own s I i it E) as O. destruct (i_live it).
    + destruct O as [[? ?]|[? [? ?]]]; [lia | auto].
    + lia.
  - apply nth_error_None in E. pose proof (inv_own_oob s I i E). lia.
Qed.

Lemma thr_owns_pos s t th i : Inv s -> nth_error (s_thr s) t = Some th -> (0 < pc_owns (t_pc th) i)%nat ->
  exists it, nth_error (s_items s) i = Some it /\ i_live it = true /\ ~ In i (s_set s) /\ total_owns s i = 1%nat /\ i_ref it = 0.
Proof.
  intros I Ht H. apply owns_pos_alloc; auto.
  pose proof (sumf_ge (fun th => pc_owns (t_pc th) i) (s_thr s) t th Ht). unfold total_owns. simpl in H0. lia.
Qed.

(* ---------------------------------------------------------------- frame lemma *)
(* items related pointwise: same key / refcnt / recycler / liveness / semaphore *)
Definition sem_ok (b : item) : Prop := 0 <= i_sem b /\ (1 <= i_sem b -> i_ref b = 0 /\ i_recycle b <> None).
Definition item_eqv (a b : item) : Prop :=
  i_key b = i_key a /\ i_ref b = i_ref a /\ i_recycle b = i_recycle a /\ i_live b = i_live a /\ (i_sem b = i_sem a \/ sem_ok b).
Definition items_eqv (a b : list item) : Prop :=
  length a = length b /\ forall i x, nth_error a i = Some x -> exists y, nth_error b i = Some y /\ item_eqv x y.

Lemma items_eqv_refl a : items_eqv a a.
Proof. split; auto. intros i x H. exists x. unfold item_eqv. repeat split; auto. Qed.
Lemma item_eqv_refl x : item_eqv x x.
Proof. unfold item_eqv; repeat split; auto. Qed.

Lemma items_eqv_upd a i x y : nth_error a i = Some x -> item_eqv x y -> items_eqv a (upd a i y).
Proof.
  intros H E. split. { rewrite upd_length; auto. }
  intros j z Hj. rewrite (nth_upd _ _ _ _ _ H). destruct (Nat.eqb_spec i j).
  - subst. exists y. split; auto. congruence.
  - exists z. split; auto. unfold item_eqv; repeat split; auto.
Qed.

Lemma items_eqv_back a b i y : items_eqv a b -> nth_error b i = Some y -> exists x, nth_error a i = Some x /\ item_eqv x y.
Proof.
  intros [L E] H. destruct (nth_error a i) as [x|] eqn:Ea.
  - destruct (E _ _ Ea) as [y' [Hy Ev]]. exists x. split; auto. congruence.
  - apply nth_error_None in Ea. assert (nth_error b i = None) by (apply nth_error_None; lia). congruence.
Qed.

Lemma frame s s' t th th' :
  Inv s -> nth_error (s_thr s) t = Some th ->
  s_thr s' = upd (s_thr s) t th' ->
  (forall i, holds th' i = holds th i) ->
  (forall i, pc_owns (t_pc th') i = pc_owns (t_pc th) i) ->
  (forall i, pc_recycler (t_pc th') i = pc_recycler (t_pc th) i) ->
  (forall i ds, t_pc th' = PRelErase i ds -> t_pc th = PRelErase i ds \/ refz s i = 0) ->
  items_eqv (s_items s) (s_items s') -> s_set s' = s_set s ->
  (forall j, In j (s_list s') -> In j (s_list s)) -> NoDup (s_list s') -> s_bad s' = s_bad s ->
  Inv s'.
Proof.
  intros I Ht Hthr Hh Ho Hr He [Hlen Hit] Hset Hlist Hnd Hbad.
  assert (TH : forall i, total_holds s' i = total_holds s i).
  { intros i. unfold total_holds. rewrite Hthr.
    pose proof (sumf_upd (fun th => holds th i) _ _ th' _ Ht). simpl in H. rewrite Hh in H. lia. }
  assert (TO : forall i, total_owns s' i = total_owns s i).
  { intros i. unfold total_owns. rewrite Hthr.
    pose proof (sumf_upd (fun th => pc_owns (t_pc th) i) _ _ th' _ Ht). simpl in H. rewrite Ho in H. lia. }
  assert (RZ : forall i, refz s' i = refz s i).
  { intros i. unfold refz. destruct (nth_error (s_items s) i) as [x|] eqn:E.
    - destruct (Hit _ _ E) as [y [Hy [_ [Hr' _]]]]. rewrite Hy; auto.
    - apply nth_error_None in E. assert (nth_error (s_items s') i = None) by (apply nth_error_None; lia). rewrite H; auto. }
  assert (BK : forall i y, nth_error (s_items s') i = Some y -> exists x, nth_error (s_items s) i = Some x /\ item_eqv x y).
  { intros. eapply items_eqv_back; eauto. split; auto. }
  constructor.
  - rewrite Hbad. apply I.
  - intros i. rewrite TH, RZ. apply I.
  - intros i Hi. rewrite Hset in Hi. destruct (inv_set_live s I i Hi) as [x [Hx Lx]].
    destruct (Hit _ _ Hx) as [y [Hy [_ [_ [_ [Hl _]]]]]]. exists y. split; auto. congruence.
  - intros i j it jt Hi Hj Hni Hnj Hk. rewrite Hset in Hi, Hj.
    destruct (BK _ _ Hni) as [x [Hx [Kx _]]]. destruct (BK _ _ Hnj) as [y [Hy [Ky _]]].
    eapply (inv_set_key s I i j x y); eauto. congruence.
  - rewrite Hset. apply I.
  - intros i Hi. apply Hlist in Hi. rewrite Hset. destruct (inv_list s I i Hi) as [Hs [x [Hx [Rx Cx]]]].
    split; auto. destruct (Hit _ _ Hx) as [y [Hy [_ [Hr' [Hc _]]]]]. exists y. repeat split; auto; congruence.
  - exact Hnd.
  - intros i y Hy. destruct (BK _ _ Hy) as [x [Hx [_ [Hr' [_ [Hl _]]]]]].
    pose proof (inv_own s I i x Hx) as O. rewrite Hl, Hset, TO, Hr'. exact O.
  - intros i Hi. rewrite TO. apply I. lia.
  - intros t' th'' i Hn Hp. rewrite Hthr in Hn. rewrite (nth_upd _ _ _ _ _ Ht) in Hn.
    assert (exists th0, nth_error (s_thr s) t' = Some th0 /\ pc_recycler (t_pc th0) i = true) as [th0 [Hn0 Hp0]].
    { destruct (Nat.eqb_spec t t').
      - subst. inversion Hn; subst. exists th. split; auto. rewrite <- Hr; auto.
      - exists th''. split; auto. }
    destruct (inv_recycler s I t' th0 i Hn0 Hp0) as [x [Hx [Lx [Cx Sx]]]].
    destruct (Hit _ _ Hx) as [y [Hy [_ [_ [Hc [Hl _]]]]]]. exists y. rewrite Hset. repeat split; auto; congruence.
  - intros t' th'' i ds Hn Hp. rewrite RZ. rewrite Hthr in Hn. rewrite (nth_upd _ _ _ _ _ Ht) in Hn.
    destruct (Nat.eqb_spec t t').
    + subst. inversion Hn; subst. destruct (He _ _ Hp) as [Hp'|Hp']; auto. eapply (inv_erase_ref s I t' th); eauto.
    + eapply (inv_erase_ref s I t' th''); eauto.
  - intros i y Hy Ly. destruct (BK _ _ Hy) as [x [Hx [_ [Hr' [Hc [Hl [Hs|Hs]]]]]]]; [|exact Hs].
    rewrite Hs, Hr', Hc. apply (inv_sem s I i x Hx). congruence.
Qed.
