(* C19_Gen.v — preservation lemmas for the kinds of transitions that are not pure frame steps. *)
From Coq Require Import ZArith List Bool Arith Lia.
From PV Require Import Base.U64 C19.C19_Model C19.C19_Lib C19.C19_Inv.
Import ListNotations.
Local Open Scope Z_scope.

Lemma th_holds_upd s s' t th th' i : nth_error (s_thr s) t = Some th -> s_thr s' = upd (s_thr s) t th' ->
  (total_holds s' i + holds th i = total_holds s i + holds th' i)%nat.
Proof. intros H E. unfold total_holds. rewrite E. apply (sumf_upd (fun th => holds th i) _ _ th' _ H). Qed.
Lemma th_owns_upd s s' t th th' i : nth_error (s_thr s) t = Some th -> s_thr s' = upd (s_thr s) t th' ->
  (total_owns s' i + pc_owns (t_pc th) i = total_owns s i + pc_owns (t_pc th') i)%nat.
Proof. intros H E. unfold total_owns. rewrite E. apply (sumf_upd (fun th => pc_owns (t_pc th) i) _ _ th' _ H). Qed.
Lemma nth_thr_upd s s' t th th' t' x : nth_error (s_thr s) t = Some th -> s_thr s' = upd (s_thr s) t th' ->
  nth_error (s_thr s') t' = Some x -> (t' = t /\ x = th') \/ (t' <> t /\ nth_error (s_thr s) t' = Some x).
Proof.
  intros H E Hn. rewrite E, (nth_upd _ _ _ _ _ H) in Hn. destruct (Nat.eqb_spec t t').
  - left. split; congruence.
  - right. split; auto.
Qed.
Lemma refz_upd s s' i it it' j : nth_error (s_items s) i = Some it -> s_items s' = upd (s_items s) i it' ->
  refz s' j = if Nat.eqb i j then i_ref it' else refz s j.
Proof. intros H E. unfold refz. rewrite E, (nth_upd _ _ _ _ _ H). destruct (Nat.eqb i j); auto. Qed.

(* ---- one item changes (key and liveness kept, it stays in the set), the acting thread changes ---- *)
Lemma gen_inv s s' t th th' i it it' :
  Inv s -> nth_error (s_thr s) t = Some th -> s_thr s' = upd (s_thr s) t th' ->
  nth_error (s_items s) i = Some it -> s_items s' = upd (s_items s) i it' ->
  i_key it' = i_key it -> i_live it' = true -> i_live it = true -> In i (s_set s) ->
  s_set s' = s_set s -> s_bad s' = false ->
  (forall j, j <> i -> holds th' j = holds th j) ->
  Z.of_nat (holds th' i) - Z.of_nat (holds th i) = i_ref it' - i_ref it ->
  (forall j, pc_owns (t_pc th') j = pc_owns (t_pc th) j) ->
  NoDup (s_list s') ->
  (forall j, In j (s_list s') -> (In j (s_list s) /\ j <> i) \/ (j = i /\ i_ref it' = 0 /\ i_recycle it' = None)) ->
  (forall j, pc_recycler (t_pc th') j = true ->
     (pc_recycler (t_pc th) j = true /\ (j = i -> i_recycle it' = i_recycle it)) \/ (j = i /\ i_recycle it' = Some t)) ->
  (forall t' th0, t' <> t -> nth_error (s_thr s) t' = Some th0 -> pc_recycler (t_pc th0) i = true -> i_recycle it' = i_recycle it) ->
  (forall j ds, t_pc th' = PRelErase j ds -> (t_pc th = PRelErase j ds /\ j <> i) \/ (j = i /\ i_ref it' = 0)) ->
  (forall t' th0 ds, t' <> t -> nth_error (s_thr s) t' = Some th0 -> t_pc th0 = PRelErase i ds -> i_ref it' = 0) ->
  sem_ok it' ->
  Inv s'.
Proof.
  intros I Ht Hthr Hi Hitems Hkey Hlive' Hlive Hin Hset Hbad Hh Hhi Ho Hnd Hlist Hrec Hrec' Her Her' Hsem.
  assert (NTH : forall j, nth_error (s_items s') j = if Nat.eqb i j then Some it' else nth_error (s_items s) j).
  { intros j. rewrite Hitems. apply (nth_upd _ _ _ _ _ Hi). }
  assert (TO : forall j, total_owns s' j = total_owns s j).
  { intros j. pose proof (th_owns_upd s s' t th th' j Ht Hthr). rewrite Ho in H. lia. }
  assert (LEN : length (s_items s') = length (s_items s)) by (rewrite Hitems; apply upd_length).
  constructor.
  - exact Hbad.
  - intros j. rewrite (refz_upd s s' i it it' j Hi Hitems).
    pose proof (th_holds_upd s s' t th th' j Ht Hthr) as E. pose proof (inv_ref s I j) as R.
    destruct (Nat.eqb_spec i j).
    + subst j. unfold refz in R. rewrite Hi in R. lia.
    + rewrite Hh in E by congruence. lia.
  - intros j Hj. rewrite Hset in Hj. rewrite NTH. destruct (Nat.eqb_spec i j); eauto. apply I; auto.
  - intros a b ia ib Ha Hb Hna Hnb Hk. rewrite Hset in Ha, Hb. rewrite NTH in Hna, Hnb.
    destruct (inv_set_live s I a Ha) as [xa [Hxa _]]. destruct (inv_set_live s I b Hb) as [xb [Hxb _]].
    apply (inv_set_key s I a b xa xb); auto.
    destruct (Nat.eqb_spec i a), (Nat.eqb_spec i b); subst; congruence.
  - rewrite Hset; apply I.
  - intros j Hj. rewrite Hset, NTH. destruct (Hlist j Hj) as [[Hl Hne]|[-> [Hr Hc]]].
    + destruct (Nat.eqb_spec i j); [congruence|]. apply I; auto.
    + rewrite Nat.eqb_refl. split; auto. eauto.
  - exact Hnd.
  - intros j y Hy. rewrite NTH in Hy. rewrite Hset, TO. destruct (Nat.eqb_spec i j).
    + subst j. inversion Hy; subst y. rewrite Hlive'. left. split; auto.
      pose proof (inv_own s I i it Hi) as O. rewrite Hlive in O. destruct O as [[_ ?]|[? _]]; tauto.
    + apply (inv_own s I j y Hy).
  - intros j Hj. rewrite TO. apply I. lia.
  - intros t' x j Hn Hp. destruct (nth_thr_upd s s' t th th' t' x Ht Hthr Hn) as [[-> ->]|[Hne Hn0]].
    + destruct (Hrec j Hp) as [[Hp0 Hc]|[-> Hc]].
      * destruct (inv_recycler s I t th j Ht Hp0) as [y [Hy [Ly [Cy Sy]]]]. rewrite NTH, Hset.
        destruct (Nat.eqb_spec i j).
        -- subst j. exists it'. assert (y = it) by congruence. subst y. repeat split; auto. rewrite Hc; auto.
        -- exists y. auto.
      * exists it'. rewrite NTH, Nat.eqb_refl, Hset. auto.
    + destruct (inv_recycler s I t' x j Hn0 Hp) as [y [Hy [Ly [Cy Sy]]]]. rewrite NTH, Hset.
      destruct (Nat.eqb_spec i j).
      * subst j. exists it'. assert (y = it) by congruence. subst y. repeat split; auto.
        rewrite (Hrec' t' x Hne Hn0 Hp); auto.
      * exists y. auto.
  - intros t' x j ds Hn Hp. rewrite (refz_upd s s' i it it' j Hi Hitems).
    destruct (nth_thr_upd s s' t th th' t' x Ht Hthr Hn) as [[-> ->]|[Hne Hn0]].
    + destruct (Her j ds Hp) as [[Hp0 Hne]|[-> Hr]].
      * destruct (Nat.eqb_spec i j); [congruence|]. eapply (inv_erase_ref s I t th); eauto.
      * rewrite Nat.eqb_refl. auto.
    + destruct (Nat.eqb_spec i j).
      * subst j. eapply Her'; eauto.
      * eapply (inv_erase_ref s I t' x); eauto.
  - intros j y Hy Ly. rewrite NTH in Hy. destruct (Nat.eqb_spec i j).
    + inversion Hy; subst. exact Hsem.
    + apply (inv_sem s I j y Hy Ly).
Qed.

(* ---- ref_acquire inserts a new item (no thread changes) ---- *)
Lemma alloc_inv s k :
  Inv s -> find_key (s_items s) (s_set s) k = None ->
  Inv (set_set (set_items s (s_items s ++ [new_item k])) (s_set s ++ [length (s_items s)])).
Proof.
  intros I F.
  assert (OLD : forall j x, nth_error (s_items s) j = Some x -> nth_error (s_items s ++ [new_item k]) j = Some x).
  { intros. apply nth_app_some; auto. }
  assert (NOTIN : ~ In (length (s_items s)) (s_set s)).
  { intros H. destruct (inv_set_live s I _ H) as [x [Hx _]]. assert (length (s_items s) < length (s_items s))%nat by (apply nth_error_Some; congruence). lia. }
  assert (H0 : total_holds s (length (s_items s)) = O).
  { pose proof (inv_ref s I (length (s_items s))) as R. unfold refz in R.
    assert (E : nth_error (s_items s) (length (s_items s)) = None) by (apply nth_error_None; lia). rewrite E in R. lia. }
  constructor; simpl.
  - apply I.
  - intros i. unfold refz, total_holds; simpl. pose proof (inv_ref s I i) as R. unfold refz, total_holds in R.
    destruct (nth_error (s_items s) i) as [x|] eqn:E.
    + rewrite (OLD _ _ E). exact R.
    + apply nth_error_None in E. destruct (Nat.eq_dec i (length (s_items s))).
      * subst i. rewrite nth_app_new. simpl. exact R.
      * assert (nth_error (s_items s ++ [new_item k]) i = None) as ->; auto.
        apply nth_error_None. rewrite app_length; simpl. lia.
  - intros i Hi. apply in_app_or in Hi. destruct Hi as [Hi|[<-|[]]].
    + destruct (inv_set_live s I i Hi) as [x [Hx Lx]]. exists x. split; auto.
    + exists (new_item k). split; auto. apply nth_app_new.
  - intros i j it jt Hi Hj Hni Hnj Hk.
    apply in_app_or in Hi. apply in_app_or in Hj.
    destruct Hi as [Hi|[<-|[]]]; destruct Hj as [Hj|[<-|[]]]; auto.
    + destruct (inv_set_live s I i Hi) as [x [Hx _]]. destruct (inv_set_live s I j Hj) as [y [Hy _]].
      rewrite (OLD _ _ Hx) in Hni. rewrite (OLD _ _ Hy) in Hnj.
      apply (inv_set_key s I i j x y); auto; congruence.
    + destruct (inv_set_live s I i Hi) as [x [Hx _]]. rewrite (OLD _ _ Hx) in Hni.
      rewrite nth_app_new in Hnj. inversion Hni; inversion Hnj; subst.
      exfalso. eapply (find_key_none _ _ _ F i it); eauto.
    + destruct (inv_set_live s I j Hj) as [x [Hx _]]. rewrite (OLD _ _ Hx) in Hnj.
      rewrite nth_app_new in Hni. inversion Hni; inversion Hnj; subst.
      exfalso. eapply (find_key_none _ _ _ F j jt); eauto.
  - apply nodup_snoc; auto. apply I.
  - intros i Hi. destruct (inv_list s I i Hi) as [Hs [x [Hx [Rx Cx]]]]. split.
    + apply in_or_app; auto.
    + exists x. split; auto.
  - apply I.
  - intros i it Hit. unfold total_owns; simpl. apply nth_app_inv in Hit. destruct Hit as [[Hit Hlt]|[-> ->]].
    + pose proof (inv_own s I i it Hit) as O. unfold total_owns in O. destruct (i_live it).
      * destruct O as [[? ?]|[? ?]]; [left|right]; split; auto.
        -- apply in_or_app; auto.
        -- intros H'. apply in_app_or in H'. destruct H' as [?|[<-|[]]]; auto. lia.
      * destruct O as [? ?]. split; auto.
        intros H'. apply in_app_or in H'. destruct H' as [?|[<-|[]]]; auto. lia.
    + simpl. left. split. { apply in_or_app; right; left; auto. }
      apply (inv_own_oob s I). lia.
  - intros i Hi. rewrite app_length in Hi; simpl in Hi. apply (inv_own_oob s I). lia.
  - intros t th i Hn Hp. destruct (inv_recycler s I t th i Hn Hp) as [x [Hx [Lx [Cx Sx]]]].
    exists x. repeat split; auto. apply in_or_app; auto.
  - intros t th i ds Hn Hp. pose proof (inv_erase_ref s I t th i ds Hn Hp) as R.
    destruct (inv_recycler s I t th i Hn) as [x [Hx _]]. { rewrite Hp; simpl. apply Nat.eqb_refl. }
    unfold refz in *; simpl. rewrite (OLD _ _ Hx). rewrite Hx in R. exact R.
  - intros i it Hit Lit. apply nth_app_inv in Hit. destruct Hit as [[Hit _]|[-> ->]].
    + apply (inv_sem s I i it Hit Lit).
    + simpl. split; lia.
Qed.

(* ---- the recycler unlinks its item from _set (:146-148) ---- *)
Lemma erase_inv s s' t th th' i ds it :
  Inv s -> nth_error (s_thr s) t = Some th -> t_pc th = PRelErase i ds ->
  nth_error (s_items s) i = Some it ->
  s_thr s' = upd (s_thr s) t th' -> t_pc th' = PRelDelete i ds -> t_h th' = t_h th ->
  s_items s' = s_items s -> s_set s' = erase_key (s_items s) (s_set s) (i_key it) ->
  s_list s' = s_list s -> s_bad s' = s_bad s ->
  Inv s'.
Proof.
  intros I Ht Hpc Hi Hthr Hpc' Hh' Hitems Hset Hlist Hbad.
  destruct (inv_recycler s I t th i Ht) as [it0 [Hi0 [Li [Ci Si]]]]. { rewrite Hpc; simpl; apply Nat.eqb_refl. }
  assert (it0 = it) by congruence. subst it0.
  pose proof (inv_erase_ref s I t th i ds Ht Hpc) as Rz. unfold refz in Rz. rewrite Hi in Rz.
  assert (SET : forall j, In j (s_set s') <-> In j (s_set s) /\ j <> i).
  { intros j. rewrite Hset, in_erase_key. split.
    - intros [Hj Hk]. split; auto. intros ->. apply (Hk it Hi); auto.
    - intros [Hj Hne]. split; auto. intros jt Hjt Hk. apply Hne. apply (inv_set_key s I j i jt it); auto. }
  assert (TH : forall j, total_holds s' j = total_holds s j).
  { intros j. pose proof (th_holds_upd s s' t th th' j Ht Hthr). unfold holds, handles_on in H. rewrite Hh', Hpc, Hpc' in H. simpl in H. lia. }
  assert (TO : forall j, total_owns s' j = (total_owns s j + if Nat.eqb j i then 1 else 0)%nat).
  { intros j. pose proof (th_owns_upd s s' t th th' j Ht Hthr). rewrite Hpc, Hpc' in H. simpl in H. lia. }
  assert (RZ : forall j, refz s' j = refz s j) by (intros; unfold refz; rewrite Hitems; auto).
  constructor.
  - rewrite Hbad; apply I.
  - intros j. rewrite TH, RZ. apply I.
  - intros j Hj. rewrite Hitems. apply SET in Hj. apply I; tauto.
  - intros a b ia ib Ha Hb. rewrite Hitems. apply SET in Ha. apply SET in Hb. apply I; tauto.
  - rewrite Hset. apply nodup_erase_key. apply I.
  - intros j Hj. rewrite Hlist in Hj. rewrite Hitems. destruct (inv_list s I j Hj) as [Hs [x [Hx [Rx Cx]]]].
    split; eauto. apply SET. split; auto. intros ->. congruence.
  - rewrite Hlist; apply I.
  - intros j y Hy. rewrite Hitems in Hy. pose proof (inv_own s I j y Hy) as O. rewrite TO.
    destruct (Nat.eqb_spec j i).
    + subst j. assert (y = it) by congruence. subst y. rewrite Li in *. right.
      destruct O as [[_ O]|[O _]]; [|tauto]. split; [|split; auto; lia]. intros H. apply SET in H. tauto.
    + rewrite Nat.add_0_r. destruct (i_live y).
      * destruct O as [[? ?]|[? ?]]; [left|right]; split; auto. { apply SET; auto. } intros H'. apply SET in H'. tauto.
      * destruct O as [? ?]. split; auto. intros H'. apply SET in H'. tauto.
  - intros j Hj. rewrite Hitems in Hj. rewrite TO. rewrite (inv_own_oob s I j Hj).
    destruct (Nat.eqb_spec j i); auto. subst. assert (i < length (s_items s))%nat by (apply nth_error_Some; congruence). lia.
  - intros t' x j Hn Hp. destruct (nth_thr_upd s s' t th th' t' x Ht Hthr Hn) as [[-> ->]|[Hne Hn0]].
    + rewrite Hpc' in Hp. simpl in Hp. discriminate.
    + destruct (inv_recycler s I t' x j Hn0 Hp) as [y [Hy [Ly [Cy Sy]]]]. exists y. rewrite Hitems.
      repeat split; auto. apply SET. split; auto. intros ->. assert (y = it) by congruence. subst. congruence.
  - intros t' x j ds' Hn Hp. rewrite RZ. destruct (nth_thr_upd s s' t th th' t' x Ht Hthr Hn) as [[-> ->]|[Hne Hn0]].
    + congruence.
    + eapply (inv_erase_ref s I t' x); eauto.
  - intros j y Hy Ly. rewrite Hitems in Hy. apply (inv_sem s I j y Hy Ly).
Qed.

(* ---- `delete` of an unlinked item by the thread that owns it (:153 and delete_all() :64) ---- *)
Lemma delete_inv s s' t th th' z it d :
  Inv s -> nth_error (s_thr s) t = Some th ->
  (pc_owns (t_pc th) z = S (pc_owns (t_pc th') z)) ->
  (forall j, j <> z -> pc_owns (t_pc th') j = pc_owns (t_pc th) j) ->
  (forall j, holds th' j = holds th j) ->
  (forall j, pc_recycler (t_pc th') j = false) ->
  nth_error (s_items s) z = Some it ->
  s_thr s' = upd (s_thr s) t th' ->
  s_items s' = upd (s_items s) z d -> i_live d = false -> i_ref d = i_ref it -> i_key d = i_key it ->
  s_set s' = s_set s -> s_list s' = s_list s -> s_bad s' = s_bad s ->
  Inv s'.
Proof.
  intros I Ht Hoz Ho Hh Hr Hz Hthr Hitems Ld Rd Kd Hset Hlist Hbad.
  destruct (thr_owns_pos s t th z I Ht) as [it0 [Hz0 [Lz [Nz [Oz Rz]]]]]. { lia. }
  assert (it0 = it) by congruence. subst it0.
  assert (NTH : forall j, nth_error (s_items s') j = if Nat.eqb z j then Some d else nth_error (s_items s) j).
  { intros j. rewrite Hitems. apply (nth_upd _ _ _ _ _ Hz). }
  assert (TH : forall j, total_holds s' j = total_holds s j).
  { intros j. pose proof (th_holds_upd s s' t th th' j Ht Hthr). rewrite Hh in H. lia. }
  assert (RZ : forall j, refz s' j = refz s j).
  { intros j. rewrite (refz_upd s s' z it d j Hz Hitems). destruct (Nat.eqb_spec z j); auto. subst. unfold refz. rewrite Hz. auto. }
  assert (INZ : forall j, In j (s_set s) -> z <> j) by (intros j Hj ->; tauto).
  constructor.
  - rewrite Hbad; apply I.
  - intros j. rewrite TH, RZ. apply I.
  - intros j Hj. rewrite Hset in Hj. rewrite NTH. destruct (Nat.eqb_spec z j). { exfalso. apply (INZ j); auto. } apply I; auto.
  - intros a b ia ib Ha Hb. rewrite Hset in Ha, Hb. rewrite !NTH.
    destruct (Nat.eqb_spec z a). { exfalso. apply (INZ a); auto. } destruct (Nat.eqb_spec z b). { exfalso. apply (INZ b); auto. }
    apply I; auto.
  - rewrite Hset; apply I.
  - intros j Hj. rewrite Hlist in Hj. rewrite Hset, NTH. destruct (inv_list s I j Hj) as [Hs ?].
    destruct (Nat.eqb_spec z j). { exfalso. apply (INZ j); auto. } split; auto.
  - rewrite Hlist; apply I.
  - intros j y Hy. rewrite NTH in Hy. rewrite Hset. pose proof (th_owns_upd s s' t th th' j Ht Hthr) as E.
    destruct (Nat.eqb_spec z j).
    + subst j. inversion Hy; subst y. rewrite Ld. split; auto. split; [lia|congruence].
    + rewrite Ho in E by congruence. replace (total_owns s' j) with (total_owns s j) by lia. apply (inv_own s I j y Hy).
  - intros j Hj. rewrite Hitems, upd_length in Hj. pose proof (th_owns_upd s s' t th th' j Ht Hthr) as E.
    assert (j <> z). { intros ->. assert (z < length (s_items s))%nat by (apply nth_error_Some; congruence). lia. }
    rewrite Ho in E by auto. pose proof (inv_own_oob s I j Hj). lia.
  - intros t' x j Hn Hp. destruct (nth_thr_upd s s' t th th' t' x Ht Hthr Hn) as [[-> ->]|[Hne Hn0]].
    + rewrite Hr in Hp. discriminate.
    + destruct (inv_recycler s I t' x j Hn0 Hp) as [y [Hy [Ly [Cy Sy]]]]. exists y. rewrite NTH, Hset.
      destruct (Nat.eqb_spec z j). { exfalso. apply (INZ j); auto. } auto.
  - intros t' x j ds' Hn Hp. rewrite RZ. destruct (nth_thr_upd s s' t th th' t' x Ht Hthr Hn) as [[-> ->]|[Hne Hn0]].
    + pose proof (Hr j) as Hrj. rewrite Hp in Hrj. simpl in Hrj. rewrite Nat.eqb_refl in Hrj. discriminate.
    + eapply (inv_erase_ref s I t' x); eauto.
  - intros j y Hy Ly. rewrite NTH in Hy. destruct (Nat.eqb_spec z j).
    + inversion Hy; subst. congruence.
    + apply (inv_sem s I j y Hy Ly).
Qed.

(* ---- expire() :55-63 ---- *)
Lemma exp_split_spec its now lim : forall lst set zs l' set',
  (forall j, In j lst -> In j set) -> NoDup lst -> NoDup set ->
  (forall j, In j set -> exists it, nth_error its j = Some it) ->
  (forall a b ia ib, In a set -> In b set -> nth_error its a = Some ia -> nth_error its b = Some ib -> i_key ia = i_key ib -> a = b) ->
  exp_split its now lim lst set = (zs, l', set') ->
  lst = zs ++ l' /\ (forall j, In j set' <-> In j set /\ ~ In j zs) /\ NoDup set'.
Proof.
  induction lst as [|x r IH]; intros set zs l' set' Hsub Hnd Hnds Hal Hk E; simpl in E.
  - inversion E; subst. simpl. repeat split; auto; tauto.
  - destruct (Hal x (Hsub x (or_introl eq_refl))) as [it Hx]. rewrite Hx in E.
    match type of E with context [if ?c then _ else _] => destruct c eqn:Ec end.
    + destruct (exp_split its now lim r (erase_key its set (i_key it))) as [[zs0 l0] set0] eqn:E0.
      inversion E; subst.
      assert (NDr : NoDup r) by (inversion Hnd; auto). assert (Nx : ~ In x r) by (inversion Hnd; auto).
      assert (S1 : forall j, In j (erase_key its set (i_key it)) <-> In j set /\ j <> x).
      { intros j. rewrite in_erase_key. split.
        - intros [Hj Hkj]. split; auto. intros ->. apply (Hkj it Hx); auto.
        - intros [Hj Hne]. split; auto. intros jt Hjt Hkk. apply Hne. apply (Hk j x jt it); auto. apply Hsub; left; auto. }
      assert (P1 : forall j, In j r -> In j (erase_key its set (i_key it))).
      { intros j Hj. apply S1. split. { apply Hsub; right; auto. } intros ->. tauto. }
      assert (P2 : NoDup (erase_key its set (i_key it))) by (apply nodup_erase_key; auto).
      assert (P3 : forall j, In j (erase_key its set (i_key it)) -> exists it, nth_error its j = Some it).
      { intros j Hj. apply S1 in Hj. apply Hal; tauto. }
      assert (P4 : forall a b ia ib, In a (erase_key its set (i_key it)) -> In b (erase_key its set (i_key it)) ->
                   nth_error its a = Some ia -> nth_error its b = Some ib -> i_key ia = i_key ib -> a = b).
      { intros a b ia ib Ha Hb. apply S1 in Ha. apply S1 in Hb. apply Hk; tauto. }
      destruct (IH _ _ _ _ P1 NDr P2 P3 P4 E0) as [A [B C]].
      simpl. split; [rewrite A; reflexivity|]. split; [|exact C]. intros j. split.
      * intros Hj. apply B in Hj. destruct Hj as [Hj Hn]. apply S1 in Hj. destruct Hj as [Hj1 Hj2]. split; [exact Hj1|]. intros [Hq|Hq]; [congruence|tauto].
      * intros [Hj Hn]. apply B. split. { apply S1. split; [exact Hj|]. intros Hq. apply Hn. left. auto. } intros Hq. apply Hn. right. exact Hq.
    + inversion E; subst. simpl. repeat split; auto; tauto.
Qed.

Lemma exp_inv s s' t th th' kt zs l' set' :
  Inv s -> nth_error (s_thr s) t = Some th -> t_pc th = PExp kt ->
  exp_split (s_items s) (s_now s) (s_numlimit s) (s_list s) (s_set s) = (zs, l', set') ->
  s_thr s' = upd (s_thr s) t th' -> t_pc th' = PExpDel zs kt -> t_h th' = t_h th ->
  s_items s' = s_items s -> s_set s' = set' -> s_list s' = l' -> s_bad s' = s_bad s ->
  Inv s'.
Proof.
  intros I Ht Hpc E Hthr Hpc' Hh' Hitems Hset Hlist Hbad.
  destruct (exp_split_spec _ _ _ _ _ _ _ _ (fun j H => proj1 (inv_list s I j H)) (inv_list_nodup s I) (inv_set_nodup s I)
              (fun j H => let '(ex_intro _ it (conj a _)) := inv_set_live s I j H in ex_intro _ it a) (inv_set_key s I) E) as [A [B C]].
  assert (NDz : NoDup zs /\ NoDup l' /\ forall j, In j zs -> ~ In j l').
  { pose proof (inv_list_nodup s I) as N. rewrite A in N. apply nodup_app_inv; auto. }
  destruct NDz as [NDz [NDl DJ]].
  assert (ZL : forall j, In j zs -> In j (s_list s)) by (intros; rewrite A; apply in_or_app; auto).
  assert (TH : forall j, total_holds s' j = total_holds s j).
  { intros j. pose proof (th_holds_upd s s' t th th' j Ht Hthr). unfold holds, handles_on in H. rewrite Hh', Hpc, Hpc' in H.
    destruct kt as [[?|]| |]; simpl in H; lia. }
  assert (TO : forall j, total_owns s' j = (total_owns s j + count_occ Nat.eq_dec zs j)%nat).
  { intros j. pose proof (th_owns_upd s s' t th th' j Ht Hthr). rewrite Hpc, Hpc' in H. simpl in H. lia. }
  assert (RZ : forall j, refz s' j = refz s j) by (intros; unfold refz; rewrite Hitems; auto).
  constructor.
  - rewrite Hbad; apply I.
  - intros j. rewrite TH, RZ. apply I.
  - intros j Hj. rewrite Hitems. rewrite Hset in Hj. apply B in Hj. apply I; tauto.
  - intros a b ia ib Ha Hb. rewrite Hitems. rewrite Hset in Ha, Hb. apply B in Ha. apply B in Hb. apply I; tauto.
  - rewrite Hset; auto.
  - intros j Hj. rewrite Hlist in Hj. rewrite Hitems, Hset.
    assert (Hjl : In j (s_list s)) by (rewrite A; apply in_or_app; auto).
    destruct (inv_list s I j Hjl) as [Hs Hx]. split; auto. apply B. split; auto. intros Hz. apply (DJ j Hz Hj).
  - rewrite Hlist; auto.
  - intros j y Hy. rewrite Hitems in Hy. pose proof (inv_own s I j y Hy) as O. rewrite TO, Hset.
    destruct (in_dec Nat.eq_dec j zs) as [Hz|Hz].
    + destruct (inv_list s I j (ZL j Hz)) as [Hs [x [Hx [Rx Cx]]]]. assert (x = y) by congruence. subst x.
      destruct (inv_set_live s I j Hs) as [x [Hx' Lx]]. assert (x = y) by congruence. subst x. rewrite Lx in *.
      destruct O as [[_ O]|[O _]]; [|tauto]. right. split. { intros H. apply B in H. tauto. }
      split; auto. rewrite O. simpl. apply NoDup_count_occ'; auto.
    + rewrite (proj1 (count_occ_not_In Nat.eq_dec zs j) Hz), Nat.add_0_r.
      destruct (i_live y).
      * destruct O as [[? ?]|[? ?]]; [left|right]; split; auto. { apply B; auto. } intros H'. apply B in H'. tauto.
      * destruct O as [? ?]. split; auto. intros H'. apply B in H'. tauto.
  - intros j Hj. rewrite Hitems in Hj. rewrite TO, (inv_own_oob s I j Hj).
    destruct (in_dec Nat.eq_dec j zs) as [Hz|Hz].
    + destruct (inv_list s I j (ZL j Hz)) as [_ [x [Hx _]]]. assert (j < length (s_items s))%nat by (apply nth_error_Some; congruence). lia.
    + rewrite (proj1 (count_occ_not_In Nat.eq_dec zs j) Hz). auto.
  - intros t' x j Hn Hp. destruct (nth_thr_upd s s' t th th' t' x Ht Hthr Hn) as [[-> ->]|[Hne Hn0]].
    + rewrite Hpc' in Hp. discriminate.
    + destruct (inv_recycler s I t' x j Hn0 Hp) as [y [Hy [Ly [Cy Sy]]]]. exists y. rewrite Hitems, Hset.
      repeat split; auto. apply B. split; auto. intros Hz. destruct (inv_list s I j (ZL j Hz)) as [_ [y' [Hy' [_ Cy']]]]. congruence.
  - intros t' x j ds' Hn Hp. rewrite RZ. destruct (nth_thr_upd s s' t th th' t' x Ht Hthr Hn) as [[-> ->]|[Hne Hn0]].
    + congruence.
    + eapply (inv_erase_ref s I t' x); eauto.
  - intros j y Hy Ly. rewrite Hitems in Hy. apply (inv_sem s I j y Hy Ly).
Qed.
