(* Extraction of the C19 model: ExtrOcamlBasic only; Z, positive, nat stay Coq's datatypes. *)
From Coq Require Import ZArith List.
From PV Require Import Base.U64 C19.C19_Model.
Require Extraction.
Require Import ExtrOcamlBasic.
Extraction "c19_model.ml" run_case.
