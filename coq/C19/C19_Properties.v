From Coq Require Import ZArith List.
From PV Require Import Base.U64 C19.C19_Model C19.C19_Proofs.
Theorem c19_placeholder : True. Proof. exact placeholder. Qed.
Print Assumptions c19_placeholder.
