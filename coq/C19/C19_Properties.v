From Coq Require Import ZArith List.
From PV Require Import Base.U64 C19.C19_Model C19.C19_Lib C19.C19_Inv C19.C19_Proofs C19.C19_Mtx C19.C19_Time C19.C19_V2.
Theorem oc_invariant : forall now life lim progs s, reachable (init_state now life lim progs) s -> Inv s.
Proof. exact reachable_inv. Qed.
Print Assumptions oc_invariant.
Theorem oc_coop_run_is_a_run : forall s0 fuel s rq, reachable s0 s -> reachable s0 (fst (fst (coop_run fuel s rq))).
Proof. exact coop_run_reachable. Qed.
Print Assumptions oc_coop_run_is_a_run.
Theorem oc_no_use_after_free : forall now life lim progs s, reachable (init_state now life lim progs) s -> s_bad s = false.
Proof. exact no_use_after_free. Qed.
Print Assumptions oc_no_use_after_free.
Theorem oc_refcount_exact : forall now life lim progs s i it, reachable (init_state now life lim progs) s ->
  nth_error (s_items s) i = Some it -> i_ref it = Z.of_nat (total_holds s i).
Proof. exact refcount_exact. Qed.
Print Assumptions oc_refcount_exact.
Theorem oc_one_object_per_key : forall now life lim progs s t1 t2 i1 i2 it1 it2,
  reachable (init_state now life lim progs) s -> holder s t1 i1 -> holder s t2 i2 ->
  nth_error (s_items s) i1 = Some it1 -> nth_error (s_items s) i2 = Some it2 -> i_key it1 = i_key it2 -> i1 = i2.
Proof. exact one_object_per_key. Qed.
Print Assumptions oc_one_object_per_key.
Theorem oc_no_destroy_while_borrowed : forall now life lim progs s t i,
  reachable (init_state now life lim progs) s -> holder s t i ->
  (exists it, nth_error (s_items s) i = Some it /\ i_live it = true /\ (0 < i_ref it)%Z) /\
  In i (s_set s) /\ ~ In i (s_list s) /\
  (forall t' th', nth_error (s_thr s) t' = Some th' -> pc_owns (t_pc th') i = O).
Proof. exact no_destroy_while_borrowed. Qed.
Print Assumptions oc_no_destroy_while_borrowed.
Theorem oc_expire_only_unreferenced : forall now life lim progs s t th zs kt z,
  reachable (init_state now life lim progs) s -> nth_error (s_thr s) t = Some th ->
  t_pc th = PExpDel zs kt -> In z zs ->
  total_holds s z = O /\ exists it, nth_error (s_items s) z = Some it /\ i_live it = true /\ i_ref it = 0%Z /\ ~ In z (s_set s).
Proof. exact expire_only_unreferenced. Qed.
Print Assumptions oc_expire_only_unreferenced.
Theorem oc_recycle_waits_all : forall now life lim progs s t th i ds,
  reachable (init_state now life lim progs) s -> nth_error (s_thr s) t = Some th ->
  (t_pc th = PRelErase i ds \/ t_pc th = PRelDelete i ds) -> total_holds s i = O.
Proof. exact recycle_waits_all. Qed.
Print Assumptions oc_recycle_waits_all.
Theorem oc_recycler_unique : forall now life lim progs s t1 t2 th1 th2 i,
  reachable (init_state now life lim progs) s ->
  nth_error (s_thr s) t1 = Some th1 -> nth_error (s_thr s) t2 = Some th2 ->
  pc_recycler (t_pc th1) i = true -> pc_recycler (t_pc th2) i = true -> t1 = t2.
Proof. exact recycler_unique. Qed.
Print Assumptions oc_recycler_unique.
Theorem oc_ctor_exclusive : forall now life lim progs s t1 t2 th1 th2 i1 i2 it1 it2,
  reachable (init_state now life lim progs) s ->
  nth_error (s_thr s) t1 = Some th1 -> nth_error (s_thr s) t2 = Some th2 ->
  pc_in_mtx (t_pc th1) i1 = true -> pc_in_mtx (t_pc th2) i2 = true ->
  nth_error (s_items s) i1 = Some it1 -> nth_error (s_items s) i2 = Some it2 -> i_key it1 = i_key it2 -> t1 = t2.
Proof. exact ctor_exclusive. Qed.
Print Assumptions oc_ctor_exclusive.
Theorem oc_expire_only_old : forall now life lim progs s i it, (0 <= now <= MAX64)%Z ->
  reachable (init_state now life lim progs) s -> In i (s_list s) -> nth_error (s_items s) i = Some it ->
  i_expire it = sat_add (i_relt it) (s_lifespan s) /\ (i_relt it <= s_now s)%Z.
Proof. exact expire_only_old. Qed.
Print Assumptions oc_expire_only_old.
Theorem oc_expire_predicate : forall its now lim lst set zs l' set', exp_split its now lim lst set = (zs, l', set') ->
  forall z, In z zs -> exists it, nth_error its z = Some it /\ ((i_expire it < now)%Z \/ exists n : nat, (lim < Z.of_nat n)%Z).
Proof. exact exp_split_pred. Qed.
Print Assumptions oc_expire_predicate.
Theorem oc_failure_not_poisoning : forall now life lim progs s i it, (0 <= now <= MAX64)%Z ->
  reachable (init_state now life lim progs) s -> nth_error (s_items s) i = Some it ->
  (0 <= i_failure it <= s_now s)%Z /\ (In i (s_list s) -> i_failure it = 0%Z).
Proof. exact failure_not_poisoning. Qed.
Print Assumptions oc_failure_not_poisoning.
Theorem oc_cooldown_elapsed_constructs : forall s t th i ok y cd it,
  nth_error (s_thr s) t = Some th -> t_pc th = PAcqCheck i ok y cd ->
  nth_error (s_items s) i = Some it -> i_live it = true -> i_obj it = None ->
  (i_failure it <= sat_sub (s_now s) cd)%Z ->
  exists r th', step s t = Some r /\ nth_error (s_thr (r_st r)) t = Some th' /\ t_pc th' = PAcqCtor i ok y.
Proof. exact cooldown_elapsed_constructs. Qed.
Print Assumptions oc_cooldown_elapsed_constructs.
Theorem v2_borrow_touches_box_after_release_refuted : exists life sched, v_uaf (vrun (vinit 1000 life 2) sched) = true.
Proof. exact v2_borrow_dtor_uaf_refuted. Qed.
Print Assumptions v2_borrow_touches_box_after_release_refuted.
Theorem v2_no_use_after_free_on_one_vcpu : forall now life n sched, v_uaf (fold_left coop_act sched (vinit now life n)) = false.
Proof. exact v2_single_vcpu_no_uaf. Qed.
Print Assumptions v2_no_use_after_free_on_one_vcpu.
