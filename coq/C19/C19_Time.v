(* C19_Time.v — the time-stamped fields of an Item (_failure, _timeout) : expiry takes only old items, a failed
   construction does not poison later attempts. *)
From Coq Require Import ZArith List Bool Arith Lia.
From PV Require Import Base.U64 C19.C19_Model C19.C19_Lib C19.C19_Inv C19.C19_Gen C19.C19_Proofs C19.C19_Mtx.
Import ListNotations.
Local Open Scope Z_scope.

Inductive tchg (s : state) (t : tid) (i : iid) (x y : item) : Prop :=
| TSame : i_failure y = i_failure x -> i_relt y = i_relt x -> i_expire y = i_expire x -> tchg s t i x y
| TFail : i_failure y = s_now s -> i_relt y = i_relt x -> i_expire y = i_expire x ->
          (exists th, nth_error (s_thr s) t = Some th /\ pc_holds (t_pc th) i = 1%nat) -> tchg s t i x y
| TEnq : i_failure y = 0 -> i_relt y = s_now s -> i_expire y = sat_add (s_now s) (s_lifespan s) -> tchg s t i x y.

Definition time_rel (s : state) (t : tid) (s' : state) : Prop :=
  s_lifespan s' = s_lifespan s /\
  (s_now s' = s_now s \/ exists d, s_now s' = sat_add (s_now s) (Z.abs d)) /\
  ((s_items s' = s_items s /\ forall j, In j (s_list s') -> In j (s_list s))
   \/ (exists i x y, nth_error (s_items s) i = Some x /\ s_items s' = upd (s_items s) i y /\ tchg s t i x y /\
         forall j, In j (s_list s') -> In j (s_list s) \/ (j = i /\ i_failure y = 0 /\ i_expire y = sat_add (i_relt y) (s_lifespan s)))
   \/ (exists k y, s_items s' = upd (s_items s ++ [new_item k]) (length (s_items s)) y /\
         tchg s t (length (s_items s)) (new_item k) y /\
         forall j, In j (s_list s') -> In j (s_list s) /\ j <> length (s_items s))).

Lemma exp_split_sub its now lim : forall lst set zs l' set', exp_split its now lim lst set = (zs, l', set') ->
  forall j, In j l' -> In j lst.
Proof.
  induction lst as [|x r IH]; intros set zs l' set' E j Hj; simpl in E.
  - inversion E; subst. auto.
  - destruct (nth_error its x) as [it|]; [|inversion E; subst; auto].
    match type of E with context [if ?c then _ else _] => destruct c end; [|inversion E; subst; auto].
    destruct (exp_split its now lim r (erase_key its set (i_key it))) as [[zs0 l0] set0] eqn:E0.
    inversion E; subst. right. eapply IH; eauto.
Qed.

Ltac t_same := split; [reflexivity | split; [left; reflexivity | left; split; [reflexivity | solve [simpl; auto]]]].
Ltac t_upd Hn := split; [reflexivity | split; [left; reflexivity | right; left; do 3 eexists; split; [exact Hn | split; [reflexivity | split; [apply TSame; reflexivity | solve [simpl; auto]]]]]].
Ltac t_leaf Hn := first [t_same | t_upd Hn].

Lemma step_time s t r : step s t = Some r -> time_rel s t (r_st r).
Proof.
  intros E. unfold time_rel. unfold step, get_thr in E.
  destruct (nth_error (s_thr s) t) as [th|] eqn:Ht; [|discriminate].
  destruct (t_pc th) eqn:Hpc.
  - (* PIdle *) destruct (t_prog th) as [|o rest]; [discriminate|]. destruct o.
    + injection E as <-. t_same.
    + destruct (nth_error (t_h th) h) as [[[?|] [|]]|]; injection E as <-; t_same.
    + injection E as <-. t_same.
    + injection E as <-. t_same.
    + injection E as <-. split; [reflexivity|]. split; [right; exists d; reflexivity|]. left. split; [reflexivity|simpl; auto].
  - (* PAcqFind *)
    destruct (find_key (s_items s) (s_set s) k) as [i|] eqn:F; cbv beta iota zeta in E; unfold with_item in E; simpl in E.
    + destruct (nth_error (s_items s) i) as [it|] eqn:Hn; [destruct (i_live it)|]; try (injection E as <-; t_same).
      * destruct (i_recycle it); injection E as <-.
        -- split; [reflexivity|]. split; [left; reflexivity|]. left. split; [reflexivity|]. simpl. intros j Hj. apply in_remove_id in Hj. tauto.
        -- split; [reflexivity|]. split; [left; reflexivity|]. right. left. do 3 eexists. split; [exact Hn|]. split; [reflexivity|].
           split; [apply TSame; reflexivity|]. simpl. intros j Hj. apply in_remove_id in Hj. tauto.
      * injection E as <-. split; [reflexivity|]. split; [left; reflexivity|]. left. split; [reflexivity|]. simpl. intros j Hj. apply in_remove_id in Hj. tauto.
      * injection E as <-. split; [reflexivity|]. split; [left; reflexivity|]. left. split; [reflexivity|]. simpl. intros j Hj. apply in_remove_id in Hj. tauto.
    + rewrite nth_app_new in E. simpl in E. injection E as <-.
      split; [reflexivity|]. split; [left; reflexivity|]. right. right. do 2 eexists. split; [reflexivity|].
      split; [apply TSame; reflexivity|]. simpl. intros j Hj. apply in_remove_id in Hj. split; [tauto|]. intros ->. tauto.
  - destruct (mem_id t (s_blockq s)); [discriminate|]. injection E as <-. t_same.
  - unfold with_item in E. destruct (nth_error (s_items s) i) as [it|] eqn:Hn; [destruct (i_live it)|]; try (injection E as <-; t_same).
    destruct (i_mtx it) eqn:Em; [destruct n|]; injection E as <-; t_leaf Hn.
  - unfold with_item in E. destruct (nth_error (s_items s) i) as [it|] eqn:Hn; [destruct (i_live it)|]; try (injection E as <-; t_same).
    destruct (i_mtx it) eqn:Em; injection E as <-; t_leaf Hn.
  - unfold with_item in E. destruct (nth_error (s_items s) i) as [it|] eqn:Hn; [destruct (i_live it)|]; try (injection E as <-; t_same).
    destruct (i_mtx it); [|discriminate]. destruct (Nat.eqb t0 t); [|discriminate]. injection E as <-. t_same.
  - unfold with_item in E. destruct (nth_error (s_items s) i) as [it|] eqn:Hn; [destruct (i_live it)|]; try (injection E as <-; t_same).
    destruct (i_obj it); [|destruct (i_failure it <=? sat_sub (s_now s) cd)]; injection E as <-; t_same.
  - destruct y.
    + unfold with_item in E. destruct (nth_error (s_items s) i) as [it|] eqn:Hn; [destruct (i_live it)|]; try (injection E as <-; t_same).
      destruct ok; injection E as <-.
      * t_upd Hn.
      * split; [reflexivity|]. split; [left; reflexivity|]. right. left. do 3 eexists. split; [exact Hn|]. split; [reflexivity|].
        split; [|simpl; auto]. apply TFail; try reflexivity. exists th. split; auto. rewrite Hpc. simpl. rewrite Nat.eqb_refl. reflexivity.
    + injection E as <-. t_same.
  - unfold with_item in E. destruct (nth_error (s_items s) i) as [it|] eqn:Hn; [destruct (i_live it)|]; try (injection E as <-; t_same).
    destruct (i_mq it); injection E as <-; t_leaf Hn.
  - unfold with_item in E. destruct (nth_error (s_items s) i) as [it|] eqn:Hn; [destruct (i_live it)|]; try (injection E as <-; t_same).
    destruct (i_obj it); injection E as <-; t_same.
  - (* PRel1 *) unfold with_item in E. destruct (nth_error (s_items s) i) as [it|] eqn:Hn; [destruct (i_live it)|]; try (injection E as <-; t_same).
    cbv beta iota zeta in E.
    destruct (i_recycle it) eqn:Ci; [|destruct recycle]; simpl in E;
      destruct (i_ref it - 1 =? 0); rewrite ?Ci in E; simpl in E; try destruct (i_semwait it); injection E as <-; try (t_upd Hn).
    (* the enqueue *)
    all: split; [reflexivity|]; split; [left; reflexivity|]; right; left; do 3 eexists; split; [exact Hn|]; split; [reflexivity|];
      split; [apply TEnq; reflexivity|]; simpl; intros j Hj; apply in_app_or in Hj; destruct Hj as [Hj|[<-|[]]];
      [apply in_remove_id in Hj; tauto | right; auto].
  - unfold with_item in E. destruct (nth_error (s_items s) i) as [it|] eqn:Hn; [destruct (i_live it)|]; try (injection E as <-; t_same).
    destruct (1 <=? i_sem it); injection E as <-; t_leaf Hn.
  - unfold with_item in E. destruct (nth_error (s_items s) i) as [it|] eqn:Hn; [destruct (i_live it)|]; try (injection E as <-; t_same).
    destruct (i_semwait it); [discriminate|]. injection E as <-. t_same.
  - unfold with_item in E. destruct (nth_error (s_items s) i) as [it|] eqn:Hn; [destruct (i_live it)|]; injection E as <-; t_same.
  - (* PRelDelete *) unfold with_item in E. destruct (nth_error (s_items s) i) as [it|] eqn:Hn; [destruct (i_live it)|]; try (injection E as <-; t_same).
    destruct destroy; injection E as <-.
    + destruct (delete_item_fields s t i it) as [F1 [F2 [F3 [F4 F5]]]].
      split; [cbn [r_st]; unfold set_pc, set_thr, delete_item; destruct (i_obj it); reflexivity|].
      split; [left; cbn [r_st]; unfold set_pc, set_thr, delete_item; destruct (i_obj it); reflexivity|].
      right. left. exists i, it, (it_dead it). split; [exact Hn|]. split; [cbn [r_st]; rewrite set_pc_items; exact F1|].
      split; [apply TSame; reflexivity|]. intros j Hj. left. cbn [r_st] in Hj. unfold set_pc, set_thr in Hj. cbn [s_list] in Hj. rewrite F3 in Hj. exact Hj.
    + set (s1 := match i_obj it with Some o => set_objs s (obj_set (s_objs s) o OHanded) | None => s end).
      assert (Q : s_items s1 = s_items s /\ s_list s1 = s_list s /\ s_lifespan s1 = s_lifespan s /\ s_now s1 = s_now s) by (unfold s1; destruct (i_obj it); simpl; auto).
      destruct Q as [Q1 [Q2 [Q3 Q4]]].
      destruct (delete_item_fields s1 t i (it_obj it None)) as [F1 [F2 [F3 [F4 F5]]]].
      assert (G1 : s_lifespan (delete_item s1 t i (it_obj it None)) = s_lifespan s) by (unfold delete_item; simpl; exact Q3).
      assert (G2 : s_now (delete_item s1 t i (it_obj it None)) = s_now s) by (unfold delete_item; simpl; exact Q4).
      split; [exact G1|]. split; [left; exact G2|].
      right. left. exists i, it, (it_dead (it_obj it None)). split; [exact Hn|].
      split; [cbn [r_st]; rewrite set_pc_items, F1, Q1; reflexivity|].
      split; [apply TSame; reflexivity|]. intros j Hj. left. cbn [r_st] in Hj. unfold set_pc, set_thr in Hj. cbn [s_list] in Hj. rewrite F3, Q2 in Hj. exact Hj.
  - destruct (s_blockq s); injection E as <-; t_same.
  - destruct (exp_split (s_items s) (s_now s) (s_numlimit s) (s_list s) (s_set s)) as [[zs l'] set'] eqn:Ex.
    injection E as <-. split; [reflexivity|]. split; [left; reflexivity|]. left. split; [reflexivity|]. simpl.
    eapply exp_split_sub; eauto.
  - destruct zs as [|z zs'].
    + unfold finish in E. destruct kt as [r0|ret [|]|]; injection E as <-; t_same.
    + unfold with_item in E. destruct (nth_error (s_items s) z) as [it|] eqn:Hn; [destruct (i_live it)|]; try (injection E as <-; t_same).
      injection E as <-. destruct (delete_item_fields s t z it) as [F1 [F2 [F3 [F4 F5]]]].
      split; [cbn [r_st]; unfold set_pc, set_thr, delete_item; destruct (i_obj it); reflexivity|].
      split; [left; cbn [r_st]; unfold set_pc, set_thr, delete_item; destruct (i_obj it); reflexivity|].
      right. left. exists z, it, (it_dead it). split; [exact Hn|]. split; [cbn [r_st]; rewrite set_pc_items; exact F1|].
      split; [apply TSame; reflexivity|]. intros j Hj. left. cbn [r_st] in Hj. unfold set_pc, set_thr in Hj. cbn [s_list] in Hj. rewrite F3 in Hj. exact Hj.
Qed.

Definition TInv (s : state) : Prop :=
  0 <= s_now s <= MAX64 /\
  forall i it, nth_error (s_items s) i = Some it ->
    0 <= i_failure it <= s_now s /\ i_relt it <= s_now s /\
    (In i (s_list s) -> i_failure it = 0 /\ i_expire it = sat_add (i_relt it) (s_lifespan s)).

Lemma sat_add_mono x d : 0 <= x <= MAX64 -> x <= sat_add x (Z.abs d) <= MAX64.
Proof. intros H. unfold sat_add. pose proof (Z.abs_nonneg d). destruct (Z.ltb_spec MAX64 (x + Z.abs d)); lia. Qed.

Lemma tinv_step s t r : Inv s -> TInv s -> step s t = Some r -> TInv (r_st r).
Proof.
  intros I [Hnow T] E. destruct (step_time s t r E) as [Hl [Hn Hsh]].
  assert (NOW : s_now s <= s_now (r_st r) /\ 0 <= s_now (r_st r) <= MAX64).
  { destruct Hn as [->|[d ->]]. { lia. } pose proof (sat_add_mono (s_now s) d Hnow). lia. }
  destruct NOW as [N1 N2]. split; [exact N2|].
  assert (OLD : forall j it, nth_error (s_items s) j = Some it -> (In j (s_list (r_st r)) -> In j (s_list s)) ->
            0 <= i_failure it <= s_now (r_st r) /\ i_relt it <= s_now (r_st r) /\
            (In j (s_list (r_st r)) -> i_failure it = 0 /\ i_expire it = sat_add (i_relt it) (s_lifespan (r_st r)))).
  { intros j it Hj Hs. destruct (T j it Hj) as [A [B C]]. rewrite Hl. repeat split; try lia; apply C; auto. }
  intros j y Hy. destruct Hsh as [[Hit Hls]|[[i [x [y0 [Hx [Hit [Hc Hls]]]]]]|[k [y0 [Hit [Hc Hls]]]]]].
  - rewrite Hit in Hy. apply OLD; auto.
  - rewrite Hit, (nth_upd _ _ _ _ _ Hx) in Hy. destruct (Nat.eqb_spec i j).
    + subst j. inversion Hy; subst y0. destruct (T i x Hx) as [A [B C]].
      destruct Hc as [F1 F2 F3|F1 F2 F3 [th [Ht Hh]]|F1 F2 F3].
      * split; [rewrite F1; lia|]. split; [rewrite F2; lia|]. intros H. rewrite Hl. destruct (Hls i H) as [Hi|[_ [G1 G2]]].
        -- destruct (C Hi) as [C1 C2]. rewrite F1, F3, F2. auto.
        -- auto.
      * split; [rewrite F1; lia|]. split; [rewrite F2; lia|]. intros H. rewrite Hl. destruct (Hls i H) as [Hi|[_ [G1 G2]]].
        -- exfalso. destruct (holder_pc s t th i I Ht Hh) as [it [Hi' [_ [_ Ri]]]].
           destruct (inv_list s I i Hi) as [_ [x' [Hx' [Rx _]]]]. assert (x' = it) by congruence. subst. lia.
        -- auto.
      * split; [rewrite F1; lia|]. split; [rewrite F2; lia|]. intros H. rewrite Hl. split; [exact F1|]. rewrite F3, F2. reflexivity.
    + apply OLD; auto. intros H. destruct (Hls j H) as [?|[? _]]; [auto|congruence].
  - rewrite Hit in Hy. destruct (Nat.eqb_spec (length (s_items s)) j).
    + subst j. rewrite nth_upd_same with (y := new_item k) in Hy by apply nth_app_new. inversion Hy; subst y0.
      split; [|split].
      * destruct Hc as [F1 _ _|F1 _ _ _|F1 _ _]; rewrite F1; simpl; lia.
      * destruct Hc as [_ F2 _|_ F2 _ _|_ F2 _]; rewrite F2; simpl; lia.
      * intros H. destruct (Hls _ H) as [_ H']. congruence.
    + rewrite nth_upd_neq in Hy by auto. apply nth_app_inv in Hy. destruct Hy as [[Hy _]|[Hy _]]; [|congruence].
      apply OLD; auto. intros H. apply Hls; auto.
Qed.

Lemma tinv_init now life lim progs : 0 <= now <= MAX64 -> TInv (init_state now life lim progs).
Proof. intros H. split; [exact H|]. intros i it Hi. destruct i; discriminate. Qed.

Lemma reachable_tinv now life lim progs s : 0 <= now <= MAX64 -> reachable (init_state now life lim progs) s -> TInv s.
Proof.
  intros H R. induction R.
  - apply tinv_init; auto.
  - eapply tinv_step; eauto. eapply reachable_inv; eauto.
Qed.

(* expiry by time takes only items whose lifespan has passed since their last release: for an item of the expiry list
   _timeout = sat_add(time of the last release, lifespan), and expire():57 unlinks x only if that is < now (or the set
   is over its size limit) *)
Lemma expire_only_old now life lim progs s i it : 0 <= now <= MAX64 ->
  reachable (init_state now life lim progs) s -> In i (s_list s) -> nth_error (s_items s) i = Some it ->
  i_expire it = sat_add (i_relt it) (s_lifespan s) /\ i_relt it <= s_now s.
Proof. intros H R Hl Hi. destruct (reachable_tinv _ _ _ _ _ H R) as [_ T]. destruct (T i it Hi) as [_ [B C]]. split; auto. apply C; auto. Qed.

Lemma exp_split_pred its now lim : forall lst set zs l' set', exp_split its now lim lst set = (zs, l', set') ->
  forall z, In z zs -> exists it, nth_error its z = Some it /\ (i_expire it < now \/ exists n : nat, lim < Z.of_nat n).
Proof.
  induction lst as [|x r IH]; intros set zs l' set' E z Hz; simpl in E.
  - inversion E; subst. contradiction.
  - destruct (nth_error its x) as [it|] eqn:Hx; [|inversion E; subst; contradiction].
    match type of E with context [if ?c then _ else _] => destruct c eqn:Ec end; [|inversion E; subst; contradiction].
    destruct (exp_split its now lim r (erase_key its set (i_key it))) as [[zs0 l0] set0] eqn:E0.
    inversion E; subst. destruct Hz as [<-|Hz].
    + exists it. split; auto. apply orb_true_iff in Ec. destruct Ec as [Ec|Ec]; apply Z.ltb_lt in Ec; eauto.
    + eapply IH; eauto.
Qed.

(* a failed construction does not poison: _failure never lies in the future, and an item in the expiry list
   (nobody references it) carries _failure = 0 *)
Lemma failure_not_poisoning now life lim progs s i it : 0 <= now <= MAX64 ->
  reachable (init_state now life lim progs) s -> nth_error (s_items s) i = Some it ->
  0 <= i_failure it <= s_now s /\ (In i (s_list s) -> i_failure it = 0).
Proof. intros H R Hi. destruct (reachable_tinv _ _ _ _ _ H R) as [_ T]. destruct (T i it Hi) as [A [_ C]]. split; auto. intros Hl. apply C; auto. Qed.

(* hence: whenever the cooldown has elapsed since the last failure (or the item was unreferenced), the acquirer that
   reaches the test :111 with no object present runs the constructor *)
Lemma cooldown_elapsed_constructs s t th i ok y cd it :
  nth_error (s_thr s) t = Some th -> t_pc th = PAcqCheck i ok y cd ->
  nth_error (s_items s) i = Some it -> i_live it = true -> i_obj it = None ->
  i_failure it <= sat_sub (s_now s) cd ->
  exists r th', step s t = Some r /\ nth_error (s_thr (r_st r)) t = Some th' /\ t_pc th' = PAcqCtor i ok y.
Proof.
  intros Ht Hpc Hi Li Oi F. unfold step, get_thr. rewrite Ht, Hpc, (with_item_ok _ _ _ _ Hi Li), Oi.
  apply Z.leb_le in F. rewrite F. eexists. eexists. split; [reflexivity|]. simpl. split; [eapply nth_upd_same; eauto|reflexivity].
Qed.

Definition ex2_state (fuel : nat) : state :=
  fst (fst (coop_run fuel (init_state 1000 50 MAX64 [[OpAcquire 3%nat false 0%nat 0; OpAcquire 3%nat true 0%nat 5; OpRelease 1%nat false true]]) [0%nat])).
(* after the run the item sits in the expiry list, stamped with the time of its release *)
Example ex_in_list : exists it, In 0%nat (s_list (ex2_state 60)) /\ nth_error (s_items (ex2_state 60)) 0%nat = Some it /\
  i_expire it = 1050 /\ i_failure it = 0.
Proof. vm_compute. eexists. split; [left; reflexivity|]. split; [reflexivity|]. split; reflexivity. Qed.
