From Coq Require Import ZArith List.
From PV Require Import Base.U64 C19.C19_Model.
Lemma placeholder : True. Proof. exact I. Qed.
