(* C19_Proofs.v — every transition of the ObjectCache model preserves the invariant; consequences. *)
From Coq Require Import ZArith List Bool Arith Lia.
From PV Require Import Base.U64 C19.C19_Model C19.C19_Lib C19.C19_Inv C19.C19_Gen.
Import ListNotations.
Local Open Scope Z_scope.

Lemma placeholder : True. Proof. exact I. Qed.

Lemma with_item_ok s i f it : nth_error (s_items s) i = Some it -> i_live it = true -> with_item s i f = f it.
Proof. intros H L. unfold with_item. rewrite H, L. reflexivity. Qed.

Lemma upd_id {A} (l : list A) n x : nth_error l n = Some x -> upd l n x = l.
Proof. revert n; induction l; destruct n; simpl; intros H; try discriminate; auto. - inversion H; auto. - f_equal; auto. Qed.

Lemma holder_pc s t th i : Inv s -> nth_error (s_thr s) t = Some th -> pc_holds (t_pc th) i = 1%nat ->
  exists it, nth_error (s_items s) i = Some it /\ i_live it = true /\ In i (s_set s) /\ 0 < i_ref it.
Proof. intros I Ht H. apply (thr_holds_pos s t th i I Ht). unfold holds. lia. Qed.

Lemma delete_item_fields s t i it :
  s_items (delete_item s t i it) = upd (s_items s) i (it_dead it) /\ s_set (delete_item s t i it) = s_set s /\
  s_list (delete_item s t i it) = s_list s /\ s_thr (delete_item s t i it) = s_thr s /\ s_bad (delete_item s t i it) = s_bad s.
Proof. unfold delete_item. destruct (i_obj it); simpl; auto. Qed.

(* frame steps: the proof obligations that are the same every time *)
Ltac fr I Ht Hpc th' :=
  eapply (frame _ _ _ _ th' I Ht);
  [ try reflexivity
  | intros; unfold holds, handles_on; rewrite ?Hpc; simpl; try reflexivity; try lia
  | intros; rewrite ?Hpc; simpl; try reflexivity
  | intros; rewrite ?Hpc; simpl; try reflexivity
  | let Hq := fresh in intros ? ? Hq; simpl in Hq; try discriminate Hq
  | try apply items_eqv_refl
  | try reflexivity
  | simpl; try (intros; assumption)
  | simpl; try apply I
  | try reflexivity ].

Lemma step_PIdle s t th r : Inv s -> nth_error (s_thr s) t = Some th -> t_pc th = PIdle ->
  step s t = Some r -> Inv (r_st r).
Proof.
  intros I Ht Hpc E. unfold step, get_thr in E. rewrite Ht, Hpc in E.
  destruct (t_prog th) as [|o rest]; [discriminate|].
  destruct o as [k ok y cd|h rc ds| | |d].
  - inversion E; subst; simpl. fr I Ht Hpc (mkThr (PAcqFind k ok y cd) rest (t_idx th) (t_h th)).
  - destruct (nth_error (t_h th) h) as [[[i|] [|]]|] eqn:Eh; inversion E; subst; simpl.
    + fr I Ht Hpc (mkThr PIdle rest (S (t_idx th)) (t_h th)).
    + fr I Ht Hpc (mkThr (PRel1 i rc ds false) rest (t_idx th) (upd (t_h th) h (Some i, true))).
      rewrite Nat.add_0_r. exact (handles_upd_release (t_h th) h i i0 Eh).
    + fr I Ht Hpc (mkThr PIdle rest (S (t_idx th)) (t_h th)).
    + fr I Ht Hpc (mkThr PIdle rest (S (t_idx th)) (t_h th)).
    + fr I Ht Hpc (mkThr PIdle rest (S (t_idx th)) (t_h th)).
  - inversion E; subst; simpl. fr I Ht Hpc (mkThr (PExp KExp) rest (t_idx th) (t_h th)).
  - inversion E; subst; simpl. fr I Ht Hpc (mkThr PIdle rest (S (t_idx th)) (t_h th)).
  - inversion E; subst; simpl. fr I Ht Hpc (mkThr PIdle rest (S (t_idx th)) (t_h th)).
Qed.

Ltac ieqv Hi := simpl; apply (items_eqv_upd _ _ _ _ Hi); unfold item_eqv; simpl; repeat split; auto.

Lemma step_mutex s t th r : Inv s -> nth_error (s_thr s) t = Some th ->
  match t_pc th with
  | PAcqParked _ _ _ _ | PAcqLock _ _ _ _ _ | PAcqSlow _ _ _ _ | PAcqSleepM _ _ _ _ | PAcqCheck _ _ _ _
  | PAcqCtor _ _ _ | PAcqUnlock _ | PAcqRead _ => True | _ => False end ->
  step s t = Some r -> Inv (r_st r).
Proof.
  intros I Ht P E. unfold step, get_thr in E. rewrite Ht in E.
  destruct (t_pc th) eqn:Hpc; try contradiction.
  - (* PAcqParked *) destruct (mem_id t (s_blockq s)); [discriminate|]. inversion E; subst; simpl.
    fr I Ht Hpc (th_pc th (PAcqFind k ok y cd)).
  - (* PAcqLock *)
    destruct (holder_pc s t th i I Ht) as [it [Hi [Li [Si Ri]]]]. { rewrite Hpc; simpl. rewrite Nat.eqb_refl; auto. }
    rewrite (with_item_ok _ _ _ _ Hi Li) in E. destruct (i_mtx it).
    + destruct n; inversion E; subst; simpl.
      * fr I Ht Hpc (th_pc th (PAcqSlow i ok y cd)).
      * fr I Ht Hpc (th_pc th (PAcqLock i ok y cd n)).
    + inversion E; subst; simpl. fr I Ht Hpc (th_pc th (PAcqCheck i ok y cd)). ieqv Hi.
  - (* PAcqSlow *)
    destruct (holder_pc s t th i I Ht) as [it [Hi [Li [Si Ri]]]]. { rewrite Hpc; simpl. rewrite Nat.eqb_refl; auto. }
    rewrite (with_item_ok _ _ _ _ Hi Li) in E. destruct (i_mtx it); inversion E; subst; simpl.
    + fr I Ht Hpc (th_pc th (PAcqSleepM i ok y cd)). ieqv Hi.
    + fr I Ht Hpc (th_pc th (PAcqCheck i ok y cd)). ieqv Hi.
  - (* PAcqSleepM *)
    destruct (holder_pc s t th i I Ht) as [it [Hi [Li [Si Ri]]]]. { rewrite Hpc; simpl. rewrite Nat.eqb_refl; auto. }
    rewrite (with_item_ok _ _ _ _ Hi Li) in E. destruct (i_mtx it); [|discriminate].
    destruct (Nat.eqb t0 t); [|discriminate]. inversion E; subst; simpl.
    fr I Ht Hpc (th_pc th (PAcqCheck i ok y cd)).
  - (* PAcqCheck *)
    destruct (holder_pc s t th i I Ht) as [it [Hi [Li [Si Ri]]]]. { rewrite Hpc; simpl. rewrite Nat.eqb_refl; auto. }
    rewrite (with_item_ok _ _ _ _ Hi Li) in E. destruct (i_obj it).
    + inversion E; subst; simpl. fr I Ht Hpc (th_pc th (PAcqUnlock i)).
    + destruct (i_failure it <=? sat_sub (s_now s) cd); inversion E; subst; simpl.
      * fr I Ht Hpc (th_pc th (PAcqCtor i ok y)).
      * fr I Ht Hpc (th_pc th (PAcqUnlock i)).
  - (* PAcqCtor *)
    destruct y.
    + destruct (holder_pc s t th i I Ht) as [it [Hi [Li [Si Ri]]]]. { rewrite Hpc; simpl. rewrite Nat.eqb_refl; auto. }
      rewrite (with_item_ok _ _ _ _ Hi Li) in E. destruct ok; inversion E; subst; simpl.
      * fr I Ht Hpc (th_pc th (PAcqUnlock i)). ieqv Hi.
      * fr I Ht Hpc (th_pc th (PAcqUnlock i)). ieqv Hi.
    + inversion E; subst; simpl. fr I Ht Hpc (th_pc th (PAcqCtor i ok y)).
  - (* PAcqUnlock *)
    destruct (holder_pc s t th i I Ht) as [it [Hi [Li [Si Ri]]]]. { rewrite Hpc; simpl. rewrite Nat.eqb_refl; auto. }
    rewrite (with_item_ok _ _ _ _ Hi Li) in E. destruct (i_mq it); inversion E; subst; simpl.
    + fr I Ht Hpc (th_pc th (PAcqRead i)). ieqv Hi.
    + fr I Ht Hpc (th_pc th (PAcqRead i)). ieqv Hi.
  - (* PAcqRead *)
    destruct (holder_pc s t th i I Ht) as [it [Hi [Li [Si Ri]]]]. { rewrite Hpc; simpl. rewrite Nat.eqb_refl; auto. }
    rewrite (with_item_ok _ _ _ _ Hi Li) in E. destruct (i_obj it); inversion E; subst; simpl.
    + fr I Ht Hpc (th_pc th (PExp (KAcq (Some i)))).
    + fr I Ht Hpc (th_pc th (PRel1 i false true true)).
Qed.

(* ref_acquire takes its reference on an item of the set that has no recycler pending *)
Lemma acq_inv s t th i it k ok y cd :
  Inv s -> nth_error (s_thr s) t = Some th -> t_pc th = PAcqFind k ok y cd ->
  nth_error (s_items s) i = Some it -> i_live it = true -> In i (s_set s) -> i_recycle it = None ->
  Inv (set_pc (set_item (set_list s (remove_id i (s_list s))) i (it_ref it (i_ref it + 1))) t th (PAcqLock i ok y cd MUTEX_RETRIES)).
Proof.
  intros I Ht Hpc Hi Li Si Ci.
  set (th' := th_pc th (PAcqLock i ok y cd MUTEX_RETRIES)).
  set (it' := it_ref it (i_ref it + 1)).
  assert (G1 : forall j, j <> i -> holds th' j = holds th j).
  { intros j Hj. unfold holds, handles_on. rewrite Hpc. simpl. destruct (Nat.eqb_spec j i); congruence. }
  assert (G2 : Z.of_nat (holds th' i) - Z.of_nat (holds th i) = i_ref it' - i_ref it).
  { unfold holds, handles_on. rewrite Hpc. simpl. rewrite Nat.eqb_refl. lia. }
  assert (G3 : forall j, pc_owns (t_pc th') j = pc_owns (t_pc th) j) by (intros j; rewrite Hpc; reflexivity).
  assert (G4 : NoDup (remove_id i (s_list s))) by (apply nodup_remove_id; apply I).
  assert (G5 : forall j, In j (remove_id i (s_list s)) -> (In j (s_list s) /\ j <> i) \/ (j = i /\ i_ref it' = 0 /\ i_recycle it' = None)).
  { intros j Hj. apply in_remove_id in Hj. left. split; [tauto|]. intros ->. tauto. }
  assert (G6 : forall j, pc_recycler (t_pc th') j = true ->
     (pc_recycler (t_pc th) j = true /\ (j = i -> i_recycle it' = i_recycle it)) \/ (j = i /\ i_recycle it' = Some t)).
  { intros j Hj. discriminate. }
  assert (G7 : forall t' th0, t' <> t -> nth_error (s_thr s) t' = Some th0 -> pc_recycler (t_pc th0) i = true -> i_recycle it' = i_recycle it) by reflexivity.
  assert (G8 : forall j ds, t_pc th' = PRelErase j ds -> (t_pc th = PRelErase j ds /\ j <> i) \/ (j = i /\ i_ref it' = 0)).
  { intros j ds Hq. discriminate. }
  assert (G9 : forall t' th0 ds, t' <> t -> nth_error (s_thr s) t' = Some th0 -> t_pc th0 = PRelErase i ds -> i_ref it' = 0).
  { intros t' th0 ds Hne Hn Hp. destruct (inv_recycler s I t' th0 i Hn) as [x [Hx [_ [Cx _]]]].
    { rewrite Hp. simpl. apply Nat.eqb_refl. } congruence. }
  assert (G10 : sem_ok it').
  { pose proof (inv_sem s I i it Hi Li) as [S0 S1]. unfold sem_ok. simpl. split; auto.
    intros H1. destruct (S1 H1) as [_ ?]. congruence. }
  match goal with |- Inv ?x => refine (gen_inv s x t th th' i it it' I Ht _ Hi _ _ Li Li Si _ _ G1 G2 G3 G4 G5 G6 G7 G8 G9 G10) end; try reflexivity; apply I.
Qed.

Lemma step_PAcqFind s t th r k ok y cd : Inv s -> nth_error (s_thr s) t = Some th -> t_pc th = PAcqFind k ok y cd ->
  step s t = Some r -> Inv (r_st r).
Proof.
  intros I Ht Hpc E. unfold step, get_thr in E. rewrite Ht, Hpc in E.
  destruct (find_key (s_items s) (s_set s) k) as [i|] eqn:F.
  - destruct (find_key_some _ _ _ _ F) as [Si [it [Hi Ki]]].
    destruct (inv_set_live s I i Si) as [it0 [Hi0 Li]]. assert (it0 = it) by congruence. subst it0.
    cbv beta iota zeta in E.
    rewrite (with_item_ok (set_list s (remove_id i (s_list s))) i _ it Hi Li) in E. destruct (i_recycle it) eqn:Ci.
    + injection E as <-; simpl. fr I Ht Hpc (th_pc th (PAcqParked k ok y cd)).
      * intros j Hj. apply in_remove_id in Hj. tauto.
      * apply nodup_remove_id. apply I.
    + injection E as <-; simpl. apply (acq_inv s t th i it k ok y cd); auto.
  - pose proof (alloc_inv s k I F) as I1.
    set (s1 := set_set (set_items s (s_items s ++ [new_item k])) (s_set s ++ [length (s_items s)])) in *.
    assert (Hi : nth_error (s_items s1) (length (s_items s)) = Some (new_item k)) by (simpl; apply nth_app_new).
    cbv beta iota zeta in E. fold s1 in E.
    rewrite (with_item_ok (set_list s1 (remove_id (length (s_items s)) (s_list s1))) _ _ _ Hi eq_refl) in E.
    simpl in E. injection E as <-; simpl.
    apply (acq_inv s1 t th (length (s_items s)) (new_item k) k ok y cd); auto.
    simpl. apply in_or_app. right. left. auto.
Qed.

(* ref_release drops its reference (:128-142) *)
Lemma rel1_inv s t th i it it' p' l' rc ds inacq :
  Inv s -> nth_error (s_thr s) t = Some th -> t_pc th = PRel1 i rc ds inacq ->
  nth_error (s_items s) i = Some it -> i_live it = true -> In i (s_set s) -> 0 < i_ref it ->
  i_key it' = i_key it -> i_live it' = true -> i_ref it' = i_ref it - 1 ->
  (i_recycle it' = i_recycle it \/ i_recycle it = None) ->
  (forall j, pc_holds p' j = O) -> (forall j, pc_owns p' j = O) -> (forall j ds', p' <> PRelErase j ds') ->
  (forall j, pc_recycler p' j = true -> j = i /\ i_recycle it' = Some t) ->
  (l' = s_list s \/ (l' = remove_id i (s_list s) ++ [i] /\ i_ref it' = 0 /\ i_recycle it' = None)) ->
  sem_ok it' ->
  Inv (set_pc (set_list (set_item s i it') l') t th p').
Proof.
  intros I Ht Hpc Hi Li Si Ri Hk Hl Hr Hc Hh Ho He Hrec Hlist Hsem.
  assert (NL : ~ In i (s_list s)).
  { intros H. destruct (inv_list s I i H) as [_ [x [Hx [Rx _]]]]. assert (x = it) by congruence. subst. lia. }
  set (th' := th_pc th p').
  assert (G1 : forall j, j <> i -> holds th' j = holds th j).
  { intros j Hj. unfold holds, handles_on. rewrite Hpc. simpl. rewrite Hh. destruct (Nat.eqb_spec j i); congruence. }
  assert (G2 : Z.of_nat (holds th' i) - Z.of_nat (holds th i) = i_ref it' - i_ref it).
  { unfold holds, handles_on. rewrite Hpc. simpl. rewrite Hh, Nat.eqb_refl. lia. }
  assert (G3 : forall j, pc_owns (t_pc th') j = pc_owns (t_pc th) j) by (intros j; rewrite Hpc; simpl; apply Ho).
  assert (G4 : NoDup l').
  { destruct Hlist as [->|[-> _]]. { apply I. } apply nodup_snoc. { apply nodup_remove_id. apply I. }
    intros H. apply in_remove_id in H. tauto. }
  assert (G5 : forall j, In j l' -> (In j (s_list s) /\ j <> i) \/ (j = i /\ i_ref it' = 0 /\ i_recycle it' = None)).
  { intros j Hj. destruct Hlist as [->|[-> [R0 C0]]].
    + left. split; auto. intros ->. tauto.
    + apply in_app_or in Hj. destruct Hj as [Hj|[<-|[]]].
      * apply in_remove_id in Hj. left. split; [tauto|]. intros ->. tauto.
      * right. auto. }
  assert (G6 : forall j, pc_recycler (t_pc th') j = true ->
     (pc_recycler (t_pc th) j = true /\ (j = i -> i_recycle it' = i_recycle it)) \/ (j = i /\ i_recycle it' = Some t)).
  { intros j Hj. right. apply Hrec; auto. }
  assert (G7 : forall t' th0, t' <> t -> nth_error (s_thr s) t' = Some th0 -> pc_recycler (t_pc th0) i = true -> i_recycle it' = i_recycle it).
  { intros t' th0 Hne Hn Hp. destruct Hc as [Hc|Hc]; auto.
    destruct (inv_recycler s I t' th0 i Hn Hp) as [x [Hx [_ [Cx _]]]]. congruence. }
  assert (G8 : forall j ds, t_pc th' = PRelErase j ds -> (t_pc th = PRelErase j ds /\ j <> i) \/ (j = i /\ i_ref it' = 0)).
  { intros j ds' Hp. exfalso. eapply He; eauto. }
  assert (G9 : forall t' th0 ds, t' <> t -> nth_error (s_thr s) t' = Some th0 -> t_pc th0 = PRelErase i ds -> i_ref it' = 0).
  { intros t' th0 ds' Hne Hn Hp. pose proof (inv_erase_ref s I t' th0 i ds' Hn Hp) as Z. unfold refz in Z. rewrite Hi in Z. lia. }
  match goal with |- Inv ?x => refine (gen_inv s x t th th' i it it' I Ht _ Hi _ Hk Hl Li Si _ _ G1 G2 G3 G4 G5 G6 G7 G8 G9 Hsem) end; try reflexivity; apply I.
Qed.

Lemma step_PRel1 s t th r i rc ds inacq : Inv s -> nth_error (s_thr s) t = Some th -> t_pc th = PRel1 i rc ds inacq ->
  step s t = Some r -> Inv (r_st r).
Proof.
  intros I Ht Hpc E. unfold step, get_thr in E. rewrite Ht, Hpc in E.
  destruct (holder_pc s t th i I Ht) as [it [Hi [Li [Si Ri]]]]. { rewrite Hpc; simpl. rewrite Nat.eqb_refl; auto. }
  rewrite (with_item_ok _ _ _ _ Hi Li) in E.
  pose proof (inv_sem s I i it Hi Li) as [S0 S1].
  assert (S2 : i_sem it < 1). { destruct (Z.lt_ge_cases (i_sem it) 1); auto. destruct S1; lia. }
  destruct (i_recycle it) as [r0|] eqn:Ci.
  - (* a recycler is already pending: this release is a plain one *)
    cbv beta iota zeta in E. simpl in E. destruct (i_ref it - 1 =? 0) eqn:Ez.
    + apply Z.eqb_eq in Ez. rewrite Ci in E. injection E as <-. simpl.
      apply (rel1_inv s t th i it _ (PExp (KRel None inacq)) (s_list s) rc ds inacq I Ht Hpc Hi Li Si Ri); simpl; auto; try discriminate.
      unfold sem_ok; simpl. rewrite Ci. split; [lia|]. intros _. split; [lia|discriminate].
    + apply Z.eqb_neq in Ez. injection E as <-. simpl.
      replace (set_pc (set_item s i (it_ref it (i_ref it - 1))) t th (PExp (KRel None inacq)))
        with (set_pc (set_list (set_item s i (it_ref it (i_ref it - 1))) (s_list s)) t th (PExp (KRel None inacq))) by reflexivity.
      apply (rel1_inv s t th i it _ (PExp (KRel None inacq)) (s_list s) rc ds inacq I Ht Hpc Hi Li Si Ri); simpl; auto; try discriminate.
      unfold sem_ok; simpl. split; [lia|]. intros; lia.
  - destruct rc; cbv beta iota zeta in E; simpl in E; destruct (i_ref it - 1 =? 0) eqn:Ez.
    + (* recycling release, last reference: signal own semaphore *)
      apply Z.eqb_eq in Ez. injection E as <-. simpl.
      apply (rel1_inv s t th i it _ (PRelSem i ds) (s_list s) true ds inacq I Ht Hpc Hi Li Si Ri); simpl; auto; try discriminate.
      * intros j Hj. apply Nat.eqb_eq in Hj. auto.
      * unfold sem_ok; simpl. split; [lia|]. intros _. split; [lia|discriminate].
    + apply Z.eqb_neq in Ez. injection E as <-. simpl.
      replace (set_pc (set_item s i (it_ref (it_recycle it (Some t)) (i_ref it - 1))) t th (PRelSem i ds))
        with (set_pc (set_list (set_item s i (it_ref (it_recycle it (Some t)) (i_ref it - 1))) (s_list s)) t th (PRelSem i ds)) by reflexivity.
      apply (rel1_inv s t th i it _ (PRelSem i ds) (s_list s) true ds inacq I Ht Hpc Hi Li Si Ri); simpl; auto; try discriminate.
      * intros j Hj. apply Nat.eqb_eq in Hj. auto.
      * unfold sem_ok; simpl. split; [lia|]. intros; lia.
    + (* plain release, last reference: _failure = 0; enqueue *)
      apply Z.eqb_eq in Ez. rewrite Ci in E. injection E as <-. simpl.
      apply (rel1_inv s t th i it _ (PExp (KRel None inacq)) (remove_id i (s_list s) ++ [i]) false ds inacq I Ht Hpc Hi Li Si Ri); simpl; auto; try discriminate.
      unfold sem_ok; simpl. split; [lia|]. intros; lia.
    + apply Z.eqb_neq in Ez. injection E as <-. simpl.
      replace (set_pc (set_item s i (it_ref it (i_ref it - 1))) t th (PExp (KRel None inacq)))
        with (set_pc (set_list (set_item s i (it_ref it (i_ref it - 1))) (s_list s)) t th (PExp (KRel None inacq))) by reflexivity.
      apply (rel1_inv s t th i it _ (PExp (KRel None inacq)) (s_list s) false ds inacq I Ht Hpc Hi Li Si Ri); simpl; auto; try discriminate.
      unfold sem_ok; simpl. split; [lia|]. intros; lia.
Qed.

Lemma recycler_pc s t th i : Inv s -> nth_error (s_thr s) t = Some th -> pc_recycler (t_pc th) i = true ->
  exists it, nth_error (s_items s) i = Some it /\ i_live it = true /\ i_recycle it = Some t /\ In i (s_set s).
Proof. intros I Ht H. apply (inv_recycler s I t th i Ht H). Qed.

Lemma step_PRelSem s t th r i ds : Inv s -> nth_error (s_thr s) t = Some th -> t_pc th = PRelSem i ds ->
  step s t = Some r -> Inv (r_st r).
Proof.
  intros I Ht Hpc E. unfold step, get_thr in E. rewrite Ht, Hpc in E.
  destruct (recycler_pc s t th i I Ht) as [it [Hi [Li [Ci Si]]]]. { rewrite Hpc; simpl. apply Nat.eqb_refl. }
  rewrite (with_item_ok _ _ _ _ Hi Li) in E.
  pose proof (inv_sem s I i it Hi Li) as [S0 S1].
  destruct (1 <=? i_sem it) eqn:Es.
  - apply Z.leb_le in Es. destruct (S1 Es) as [R0 _]. injection E as <-. simpl.
    set (th' := th_pc th (PRelErase i ds)). set (it' := it_sem it (i_sem it - 1) false).
    assert (NL : ~ In i (s_list s)).
    { intros H. destruct (inv_list s I i H) as [_ [x [Hx [_ Cx]]]]. congruence. }
    assert (G1 : forall j, j <> i -> holds th' j = holds th j) by (intros; unfold holds, handles_on; rewrite Hpc; reflexivity).
    assert (G2 : Z.of_nat (holds th' i) - Z.of_nat (holds th i) = i_ref it' - i_ref it) by (unfold holds, handles_on; rewrite Hpc; simpl; lia).
    assert (G3 : forall j, pc_owns (t_pc th') j = pc_owns (t_pc th) j) by (intros; rewrite Hpc; reflexivity).
    assert (G5 : forall j, In j (s_list s) -> (In j (s_list s) /\ j <> i) \/ (j = i /\ i_ref it' = 0 /\ i_recycle it' = None)).
    { intros j Hj. left. split; auto. intros ->. tauto. }
    assert (G6 : forall j, pc_recycler (t_pc th') j = true ->
       (pc_recycler (t_pc th) j = true /\ (j = i -> i_recycle it' = i_recycle it)) \/ (j = i /\ i_recycle it' = Some t)).
    { intros j Hj. left. rewrite Hpc. simpl in *. auto. }
    assert (G7 : forall t' th0, t' <> t -> nth_error (s_thr s) t' = Some th0 -> pc_recycler (t_pc th0) i = true -> i_recycle it' = i_recycle it) by reflexivity.
    assert (G8 : forall j ds0, t_pc th' = PRelErase j ds0 -> (t_pc th = PRelErase j ds0 /\ j <> i) \/ (j = i /\ i_ref it' = 0)).
    { intros j ds0 Hq. simpl in Hq. inversion Hq; subst. right. auto. }
    assert (G9 : forall t' th0 ds0, t' <> t -> nth_error (s_thr s) t' = Some th0 -> t_pc th0 = PRelErase i ds0 -> i_ref it' = 0) by (intros; exact R0).
    assert (G10 : sem_ok it').
    { unfold sem_ok; simpl. split; [lia|]. intros. apply S1. lia. }
    match goal with |- Inv ?x => refine (gen_inv s x t th th' i it it' I Ht _ Hi _ _ Li Li Si _ _ G1 G2 G3 (inv_list_nodup s I) G5 G6 G7 G8 G9 G10) end; try reflexivity; apply I.
  - injection E as <-. simpl. fr I Ht Hpc (th_pc th (PRelSemSleep i ds)). ieqv Hi.
Qed.

Lemma delete_step_inv s s1 t th p' z it it0 :
  Inv s -> nth_error (s_thr s) t = Some th ->
  pc_owns (t_pc th) z = S (pc_owns p' z) -> (forall j, j <> z -> pc_owns p' j = pc_owns (t_pc th) j) ->
  (forall j, pc_holds p' j = pc_holds (t_pc th) j) -> (forall j, pc_recycler p' j = false) ->
  nth_error (s_items s) z = Some it ->
  s_items s1 = s_items s -> s_set s1 = s_set s -> s_list s1 = s_list s -> s_thr s1 = s_thr s -> s_bad s1 = s_bad s ->
  i_ref it0 = i_ref it -> i_key it0 = i_key it ->
  Inv (set_pc (delete_item s1 t z it0) t th p').
Proof.
  intros I Ht O1 O2 H1 R1 Hz Q1 Q2 Q3 Q4 Q5 E1 E2.
  destruct (delete_item_fields s1 t z it0) as [F1 [F2 [F3 [F4 F5]]]].
  assert (A1 : forall j, holds (th_pc th p') j = holds th j) by (intros j; unfold holds, handles_on; simpl; rewrite H1; auto).
  assert (A2 : s_thr (set_pc (delete_item s1 t z it0) t th p') = upd (s_thr s) t (th_pc th p')) by (change (upd (s_thr (delete_item s1 t z it0)) t (th_pc th p') = upd (s_thr s) t (th_pc th p')); rewrite F4, Q4; reflexivity).
  assert (A3 : s_items (set_pc (delete_item s1 t z it0) t th p') = upd (s_items s) z (it_dead it0)) by (change (s_items (delete_item s1 t z it0) = upd (s_items s) z (it_dead it0)); rewrite F1, Q1; reflexivity).
  assert (A4 : s_set (set_pc (delete_item s1 t z it0) t th p') = s_set s) by (change (s_set (delete_item s1 t z it0) = s_set s); rewrite F2, Q2; reflexivity).
  assert (A5 : s_list (set_pc (delete_item s1 t z it0) t th p') = s_list s) by (change (s_list (delete_item s1 t z it0) = s_list s); rewrite F3, Q3; reflexivity).
  assert (A6 : s_bad (set_pc (delete_item s1 t z it0) t th p') = s_bad s) by (change (s_bad (delete_item s1 t z it0) = s_bad s); rewrite F5, Q5; reflexivity).
  exact (delete_inv s _ t th (th_pc th p') z it (it_dead it0) I Ht O1 O2 A1 R1 Hz A2 A3 eq_refl E1 E2 A4 A5 A6).
Qed.

Lemma step_rest s t th r : Inv s -> nth_error (s_thr s) t = Some th ->
  match t_pc th with
  | PRelSemSleep _ _ | PRelErase _ _ | PRelDelete _ _ | PRelNotify _ | PExp _ | PExpDel _ _ => True | _ => False end ->
  step s t = Some r -> Inv (r_st r).
Proof.
  intros I Ht P E. unfold step, get_thr in E. rewrite Ht in E.
  destruct (t_pc th) eqn:Hpc; try contradiction.
  - (* PRelSemSleep *)
    destruct (recycler_pc s t th i I Ht) as [it [Hi [Li [Ci Si]]]]. { rewrite Hpc; simpl. apply Nat.eqb_refl. }
    rewrite (with_item_ok _ _ _ _ Hi Li) in E. destruct (i_semwait it); [discriminate|]. injection E as <-. simpl.
    fr I Ht Hpc (th_pc th (PRelSem i destroy)).
  - (* PRelErase *)
    destruct (recycler_pc s t th i I Ht) as [it [Hi [Li [Ci Si]]]]. { rewrite Hpc; simpl. apply Nat.eqb_refl. }
    rewrite (with_item_ok _ _ _ _ Hi Li) in E. injection E as <-. simpl.
    eapply (erase_inv s _ t th (th_pc th (PRelDelete i destroy)) i destroy it I Ht Hpc Hi); reflexivity.
  - (* PRelDelete *)
    destruct (thr_owns_pos s t th i I Ht) as [it [Hi [Li [Ni [Oi Ri]]]]]. { rewrite Hpc; simpl. rewrite Nat.eqb_refl. lia. }
    rewrite (with_item_ok _ _ _ _ Hi Li) in E.
    assert (O1 : forall p', pc_owns p' i = O -> pc_owns (t_pc th) i = S (pc_owns p' i)) by (intros p' H; rewrite H, Hpc; simpl; rewrite Nat.eqb_refl; auto).
    assert (O2 : forall j, j <> i -> O = pc_owns (t_pc th) j) by (intros j Hj; rewrite Hpc; simpl; destruct (Nat.eqb_spec j i); congruence).
    assert (H1 : forall j, O = pc_holds (t_pc th) j) by (intros; rewrite Hpc; reflexivity).
    destruct destroy; injection E as <-; simpl.
    + apply (delete_step_inv s s t th (PRelNotify None) i it it I Ht); auto.
    + apply (delete_step_inv s _ t th (PRelNotify _) i it (it_obj it None) I Ht); auto; destruct (i_obj it); reflexivity.
  - (* PRelNotify *)
    destruct (s_blockq s); injection E as <-; simpl.
    + fr I Ht Hpc (th_pc th (PExp (KRel ret false))).
    + eapply (frame s _ t th th I Ht); simpl; auto; try apply I; try apply items_eqv_refl.
      symmetry. apply upd_id; auto.
  - (* PExp *)
    destruct (exp_split (s_items s) (s_now s) (s_numlimit s) (s_list s) (s_set s)) as [[zs l'] set'] eqn:Ex.
    injection E as <-. simpl.
    eapply (exp_inv s _ t th (th_pc th (PExpDel zs kt)) kt zs l' set' I Ht Hpc Ex); reflexivity.
  - (* PExpDel *)
    destruct zs as [|z zs'].
    + unfold finish in E. destruct kt as [r0|ret [|]|].
      * injection E as <-. simpl.
        assert (HH : forall j, holds (mkThr PIdle (t_prog th) (S (t_idx th)) (t_h th ++ [(r0, false)])) j = holds th j).
        { intros j. unfold holds. rewrite Hpc. rewrite !handles_on_eq. simpl t_h. rewrite handles_app. simpl.
          destruct r0; simpl; lia. }
        eapply (frame s _ t th _ I Ht);
          [reflexivity | exact HH | intros; rewrite Hpc; reflexivity | intros; rewrite Hpc; reflexivity
          | intros ? ? Hq; discriminate Hq | apply items_eqv_refl | reflexivity | auto | apply I | reflexivity].
      * injection E as <-. simpl. fr I Ht Hpc (th_pc th (PExp (KAcq None))).
      * injection E as <-. simpl. fr I Ht Hpc (mkThr PIdle (t_prog th) (S (t_idx th)) (t_h th)).
      * injection E as <-. simpl. fr I Ht Hpc (mkThr PIdle (t_prog th) (S (t_idx th)) (t_h th)).
    + destruct (thr_owns_pos s t th z I Ht) as [it [Hi [Li [Ni [Oi Ri]]]]].
      { rewrite Hpc; simpl. destruct (Nat.eq_dec z z); [lia|congruence]. }
      rewrite (with_item_ok _ _ _ _ Hi Li) in E. injection E as <-. simpl.
      apply (delete_step_inv s s t th (PExpDel zs' kt) z it it I Ht); auto.
      * rewrite Hpc; simpl. destruct (Nat.eq_dec z z); [auto|congruence].
      * intros j Hj. rewrite Hpc; simpl. destruct (Nat.eq_dec z j); [congruence|auto].
      * intros j. rewrite Hpc. simpl. destruct kt as [[?|]| |]; reflexivity.
Qed.

Theorem step_inv s t r : Inv s -> step s t = Some r -> Inv (r_st r).
Proof.
  intros I E. destruct (nth_error (s_thr s) t) as [th|] eqn:Ht.
  - destruct (t_pc th) eqn:Hpc.
    + eapply step_PIdle; eauto.
    + eapply step_PAcqFind; eauto.
    + eapply step_mutex; eauto. rewrite Hpc; exact Logic.I.
    + eapply step_mutex; eauto. rewrite Hpc; exact Logic.I.
    + eapply step_mutex; eauto. rewrite Hpc; exact Logic.I.
    + eapply step_mutex; eauto. rewrite Hpc; exact Logic.I.
    + eapply step_mutex; eauto. rewrite Hpc; exact Logic.I.
    + eapply step_mutex; eauto. rewrite Hpc; exact Logic.I.
    + eapply step_mutex; eauto. rewrite Hpc; exact Logic.I.
    + eapply step_mutex; eauto. rewrite Hpc; exact Logic.I.
    + eapply step_PRel1; eauto.
    + eapply step_PRelSem; eauto.
    + eapply step_rest; eauto. rewrite Hpc; exact Logic.I.
    + eapply step_rest; eauto. rewrite Hpc; exact Logic.I.
    + eapply step_rest; eauto. rewrite Hpc; exact Logic.I.
    + eapply step_rest; eauto. rewrite Hpc; exact Logic.I.
    + eapply step_rest; eauto. rewrite Hpc; exact Logic.I.
    + eapply step_rest; eauto. rewrite Hpc; exact Logic.I.
  - unfold step, get_thr in E. rewrite Ht in E. discriminate.
Qed.

(* ================================================================ reachability *)
Inductive reachable (s0 : state) : state -> Prop :=
| reach_init : reachable s0 s0
| reach_step s t r : reachable s0 s -> step s t = Some r -> reachable s0 (r_st r).

Lemma sumf_zero_all f l : (forall th, In th l -> f th = O) -> sumf f l = O.
Proof. induction l; simpl; intros H; auto. rewrite (H a), IHl; auto. Qed.

Lemma init_inv now life lim progs : Inv (init_state now life lim progs).
Proof.
  assert (Z0 : forall f, (forall p, f (init_thr p) = O) -> sumf f (map init_thr progs) = O).
  { intros f H. apply sumf_zero_all. intros th Hin. apply in_map_iff in Hin. destruct Hin as [p [<- _]]. apply H. }
  constructor; simpl.
  - reflexivity.
  - intros i. unfold total_holds, refz; simpl. rewrite Z0; [|reflexivity]. destruct i; reflexivity.
  - intros i H; contradiction.
  - intros i j it jt H; contradiction.
  - constructor.
  - intros i H; contradiction.
  - constructor.
  - intros i it H. destruct i; discriminate.
  - intros i _. unfold total_owns; simpl. apply Z0. reflexivity.
  - intros t th i Hn Hp. apply nth_error_In in Hn. apply in_map_iff in Hn. destruct Hn as [p [<- _]]. discriminate.
  - intros t th i ds Hn Hp. apply nth_error_In in Hn. apply in_map_iff in Hn. destruct Hn as [p [<- _]]. discriminate.
  - intros i it H. destruct i; discriminate.
Qed.

Theorem reachable_inv now life lim progs s : reachable (init_state now life lim progs) s -> Inv s.
Proof. induction 1. - apply init_inv. - eapply step_inv; eauto. Qed.

(* the cooperative single-vCPU run is a run of the same transition system *)
Lemma coop_run_reachable s0 : forall fuel s rq, reachable s0 s -> reachable s0 (fst (fst (coop_run fuel s rq))).
Proof.
  induction fuel; simpl; intros s rq R; auto.
  destruct rq as [|t rest]; simpl; auto.
  destruct (step s t) as [r|] eqn:E; auto.
  destruct (r_eff r); apply IHfuel; eapply reach_step; eauto.
Qed.

(* ================================================================ the property's clauses *)
Section Clauses.
Variables (now life lim : Z) (progs : list (list op)).
Let s0 := init_state now life lim progs.

(* a thread "holds a reference to item i": it has a handle on i whose release has not been called, or it is
   inside ref_acquire after refcnt++ (constructing / waiting for the constructor), or inside ref_release before refcnt-- *)
Definition holder (s : state) (t : tid) (i : iid) : Prop :=
  exists th, nth_error (s_thr s) t = Some th /\ (0 < holds th i)%nat.

(* no access to a deleted Item ever happens *)
Lemma no_use_after_free s : reachable s0 s -> s_bad s = false.
Proof. intros R. apply (reachable_inv _ _ _ _ _ R). Qed.

(* _refcnt is exactly the number of holders *)
Lemma refcount_exact s i it : reachable s0 s -> nth_error (s_items s) i = Some it -> i_ref it = Z.of_nat (total_holds s i).
Proof. intros R H. pose proof (inv_ref s (reachable_inv _ _ _ _ _ R) i) as E. unfold refz in E. rewrite H in E. lia. Qed.

(* all holders of one key share one Item (hence one object) *)
Lemma one_object_per_key s t1 t2 i1 i2 it1 it2 : reachable s0 s -> holder s t1 i1 -> holder s t2 i2 ->
  nth_error (s_items s) i1 = Some it1 -> nth_error (s_items s) i2 = Some it2 -> i_key it1 = i_key it2 -> i1 = i2.
Proof.
  intros R [th1 [H1 P1]] [th2 [H2 P2]] N1 N2 K. pose proof (reachable_inv _ _ _ _ _ R) as I.
  destruct (thr_holds_pos s t1 th1 i1 I H1 P1) as [x1 [X1 [_ [S1 _]]]].
  destruct (thr_holds_pos s t2 th2 i2 I H2 P2) as [x2 [X2 [_ [S2 _]]]].
  eapply (inv_set_key s I i1 i2 it1 it2); eauto.
Qed.

(* an item with a holder is alive, indexed, NOT in the expiry list, and no thread is in a position to delete it
   (the two delete transitions PRelDelete / PExpDel need pc_owns > 0) *)
Lemma no_destroy_while_borrowed s t i : reachable s0 s -> holder s t i ->
  (exists it, nth_error (s_items s) i = Some it /\ i_live it = true /\ 0 < i_ref it) /\
  In i (s_set s) /\ ~ In i (s_list s) /\
  (forall t' th', nth_error (s_thr s) t' = Some th' -> pc_owns (t_pc th') i = O).
Proof.
  intros R [th [H P]]. pose proof (reachable_inv _ _ _ _ _ R) as I.
  destruct (thr_holds_pos s t th i I H P) as [it [Hi [Li [Si Ri]]]].
  split; [eauto|]. split; auto. split.
  - intros HL. destruct (inv_list s I i HL) as [_ [x [Hx [Rx _]]]]. assert (x = it) by congruence. subst. lia.
  - intros t' th' Hn. pose proof (inv_own s I i it Hi) as O. rewrite Li in O. destruct O as [[_ O]|[O _]]; [|tauto].
    eapply (sumf_zero (fun th => pc_owns (t_pc th) i)); eauto.
Qed.

(* whatever is unlinked by expire() (and is waiting for its delete) has no holder and no recycler *)
Lemma expire_only_unreferenced s t th zs kt z : reachable s0 s -> nth_error (s_thr s) t = Some th ->
  t_pc th = PExpDel zs kt -> In z zs ->
  total_holds s z = O /\ exists it, nth_error (s_items s) z = Some it /\ i_live it = true /\ i_ref it = 0 /\ ~ In z (s_set s).
Proof.
  intros R H P Hz. pose proof (reachable_inv _ _ _ _ _ R) as I.
  destruct (thr_owns_pos s t th z I H) as [it [Hi [Li [Ni [Oi Ri]]]]].
  { rewrite P. simpl. apply count_occ_In. auto. }
  split. { pose proof (inv_ref s I z) as E. unfold refz in E. rewrite Hi in E. lia. }
  exists it. auto.
Qed.

(* a recycling release that has got past sem.wait (it is about to unlink / delete / hand over the object)
   is alone: every other holder has released, and nobody can acquire the item any more *)
Lemma recycle_waits_all s t th i ds : reachable s0 s -> nth_error (s_thr s) t = Some th ->
  (t_pc th = PRelErase i ds \/ t_pc th = PRelDelete i ds) -> total_holds s i = O.
Proof.
  intros R H [P|P]; pose proof (reachable_inv _ _ _ _ _ R) as I.
  - pose proof (inv_erase_ref s I t th i ds H P) as E. pose proof (inv_ref s I i). lia.
  - destruct (thr_owns_pos s t th i I H) as [it [Hi [Li [Ni [Oi Ri]]]]].
    { rewrite P. simpl. rewrite Nat.eqb_refl. lia. }
    pose proof (inv_ref s I i) as E. unfold refz in E. rewrite Hi in E. lia.
Qed.

(* while a recycler is pending on an item, it is the only one and the item stays indexed (so new acquirers find it
   and park on `blocker` instead of creating a second object for the key) *)
Lemma recycler_unique s t1 t2 th1 th2 i : reachable s0 s ->
  nth_error (s_thr s) t1 = Some th1 -> nth_error (s_thr s) t2 = Some th2 ->
  pc_recycler (t_pc th1) i = true -> pc_recycler (t_pc th2) i = true -> t1 = t2.
Proof.
  intros R H1 H2 P1 P2. pose proof (reachable_inv _ _ _ _ _ R) as I.
  destruct (inv_recycler s I t1 th1 i H1 P1) as [x [Hx [_ [Cx _]]]].
  destruct (inv_recycler s I t2 th2 i H2 P2) as [y [Hy [_ [Cy _]]]]. congruence.
Qed.
End Clauses.

(* ---- the hypotheses of the clauses are met by concrete reachable states ---- *)
Definition ex_progs : list (list op) :=
  [[OpAcquire 7%nat true 1%nat 0; OpYield; OpRelease 0%nat true false]; [OpAcquire 7%nat true 0%nat 0; OpRelease 0%nat false true]].
Definition ex_state (fuel : nat) : state := fst (fst (coop_run fuel (init_state 1000 50 MAX64 ex_progs) [0%nat; 1%nat])).
Lemma ex_reachable fuel : reachable (init_state 1000 50 MAX64 ex_progs) (ex_state fuel).
Proof. apply coop_run_reachable. constructor. Qed.
(* after 14 steps both threads hold item 0 (thread 1 is waiting for thread 0's constructor) *)
Example ex_two_holders : holder (ex_state 14) 0%nat 0%nat /\ holder (ex_state 14) 1%nat 0%nat.
Proof. split; eexists; (split; [vm_compute; reflexivity | vm_compute; lia]). Qed.
(* later thread 0 is the pending recycler of item 0 *)
Example ex_recycler : exists fuel th ds, nth_error (s_thr (ex_state fuel)) 0%nat = Some th /\ t_pc th = PRelErase 0%nat ds.
Proof. exists 28%nat. vm_compute. eexists; eexists; split; reflexivity. Qed.

(* oc_ctor_exclusive: C19_Mtx.v.  oc_expire_only_old, oc_failure_not_poisoning: C19_Time.v. *)
