(* C19_V2.v — ObjectCacheV2 (common/objectcachev2.h): one Box (one key), any number of borrowers, the reclaimer.
   Granularity: one transition per block under `maplock` (__find_or_create_box 98-112, __expire 117-135, the
   LRU push of ~Borrow 191-194) and one per access to the Box outside it (Box::acquire 66-69, Box::release 71-75,
   the `_box->rc == 0` test 190).  Sequentially consistent.  The constructor / shared_ptr part is left out:
   the question examined here (DESIGN.md §6 F16) is whether ~Borrow can touch a Box that the reclaimer has erased.

   A Box has a generation number: `map.erase(x)` destroys it, a later emplace creates a NEW box (gen+1).
   A borrower remembers the generation of the box its `_box` pointer refers to; touching a box whose generation
   is gone is a use-after-free (flag v_uaf). *)
From Coq Require Import ZArith List Bool Arith Lia.
From PV Require Import Base.U64.
Import ListNotations.
Local Open Scope Z_scope.

Inductive vpc :=
| VIdle                 (* no Borrow *)
| VCtor (g : nat)       (* after __find_or_create_box: about to run Borrow(oc, box, r): _box->acquire() *)
| VDefer (g : nat)      (* about to run DEFER(box.release()) of borrow() *)
| VHeld (g : nat)       (* the caller owns a Borrow *)
| VDtorRead (g : nat)   (* ~Borrow after _box->release(): about to evaluate `_box->rc == 0` *)
| VDtorPush (g : nat).  (* rc was 0: about to lock maplock and pop/push_back the box *)

Record vbox := mkBox { b_gen : nat; b_rc : Z; b_ts : Z; b_lru : bool }.
Record vstate := mkV {
  v_now : Z; v_life : Z;
  v_box : option vbox;     (* the box of the key in `map`, if any *)
  v_nextgen : nat;
  v_pcs : list vpc;
  v_uaf : bool
}.

Inductive vact := VStep (t : nat) | VReclaim | VTick (d : Z).

Fixpoint vupd (l : list vpc) (n : nat) (x : vpc) : list vpc :=
  match l, n with [], _ => [] | _ :: r, O => x :: r | a :: r, S m => a :: vupd r m x end.

Definition touch (s : vstate) (g : nat) (f : vbox -> vstate) : vstate :=
  match v_box s with
  | Some b => if Nat.eqb (b_gen b) g then f b else mkV (v_now s) (v_life s) (v_box s) (v_nextgen s) (v_pcs s) true
  | None => mkV (v_now s) (v_life s) (v_box s) (v_nextgen s) (v_pcs s) true
  end.
Definition setb s b pcs := mkV (v_now s) (v_life s) (Some b) (v_nextgen s) pcs (v_uaf s).

Definition vstep (s : vstate) (a : vact) : vstate :=
  match a with
  | VTick d => mkV (sat_add (v_now s) (Z.abs d)) (v_life s) (v_box s) (v_nextgen s) (v_pcs s) (v_uaf s)
  | VReclaim =>                                   (* __expire, one box: 119-134 *)
      match v_box s with
      | Some b =>
          if b_lru b && (b_ts b <? sat_sub (v_now s) (v_life s)) then
            if b_rc b =? 0 then mkV (v_now s) (v_life s) None (v_nextgen s) (v_pcs s) (v_uaf s)      (* map.erase(x) *)
            else setb s (mkBox (b_gen b) (b_rc b) (b_ts b) false) (v_pcs s)                           (* only popped *)
          else s
      | None => s
      end
  | VStep t =>
      match nth_error (v_pcs s) t with
      | None => s
      | Some VIdle =>                             (* __find_or_create_box under maplock: find/emplace, pop, acquire *)
          match v_box s with
          | Some b => setb s (mkBox (b_gen b) (b_rc b + 1) (v_now s) false) (vupd (v_pcs s) t (VCtor (b_gen b)))
          | None => mkV (v_now s) (v_life s) (Some (mkBox (v_nextgen s) 1 (v_now s) false)) (S (v_nextgen s))
                        (vupd (v_pcs s) t (VCtor (v_nextgen s))) (v_uaf s)
          end
      | Some (VCtor g) => touch s g (fun b => setb s (mkBox g (b_rc b + 1) (v_now s) (b_lru b)) (vupd (v_pcs s) t (VDefer g)))
      | Some (VDefer g) => touch s g (fun b => setb s (mkBox g (b_rc b - 1) (v_now s) (b_lru b)) (vupd (v_pcs s) t (VHeld g)))
      | Some (VHeld g) =>                         (* ~Borrow 189: _box->release() *)
          touch s g (fun b => setb s (mkBox g (b_rc b - 1) (v_now s) (b_lru b)) (vupd (v_pcs s) t (VDtorRead g)))
      | Some (VDtorRead g) =>                     (* 190: if (_box->rc == 0) *)
          touch s g (fun b => setb s b (vupd (v_pcs s) t (if b_rc b =? 0 then VDtorPush g else VIdle)))
      | Some (VDtorPush g) =>                     (* 191-193 under maplock *)
          touch s g (fun b => setb s (mkBox g (b_rc b) (b_ts b) true) (vupd (v_pcs s) t VIdle))
      end
  end.

Definition vrun (s : vstate) (sched : list vact) : vstate := fold_left vstep sched s.
Definition vinit (now life : Z) (n : nat) : vstate := mkV now life None O (repeat VIdle n) false.

(* F16: ~Borrow of thread 0 touches its box after its own release(); in between thread 1 completes a whole
   borrow cycle (which puts the box into the LRU), `lifespan` passes, and the reclaimer erases the box. *)
Definition f16_schedule (life : Z) : list vact :=
  [VStep 0; VStep 0; VStep 0;             (* thread 0 borrows *)
   VStep 0;                               (* ~Borrow: release(), rc = 0 — and is then delayed *)
   VStep 1; VStep 1; VStep 1;             (* thread 1 borrows the same key *)
   VStep 1; VStep 1; VStep 1;             (* and drops it: release, rc == 0, push to the LRU *)
   VTick (life + 1); VReclaim;            (* more than `lifespan` later the reclaimer erases the box *)
   VStep 0].                              (* thread 0 resumes: reads _box->rc of the erased box *)

Lemma v2_borrow_dtor_uaf_refuted :
  exists life sched, v_uaf (vrun (vinit 1000 life 2) sched) = true.
Proof. exists 10, (f16_schedule 10). vm_compute. reflexivity. Qed.

(* the same schedule for other lifespans (the stall needed between the two instructions of ~Borrow is lifespan+1 us) *)
Lemma v2_borrow_dtor_uaf_lifespans :
  forallb (fun life => v_uaf (vrun (vinit 1000 life 2) (f16_schedule life))) [0; 1; 1000; 1000000; 60000000; 3600000000] = true.
Proof. vm_compute. reflexivity. Qed.

(* On ONE vCPU ~Borrow runs release(), the rc test and the LRU push without a context switch (neither
   Box::release nor the atomic load yields, and `maplock` is never held across a yield, so locking it does not
   block): the three steps VHeld, VDtorRead, VDtorPush of a thread are then consecutive.  Under such schedules
   the box a thread touches always exists: *)
Definition dtor_atomic_step (s : vstate) (t : nat) : vstate :=
  match nth_error (v_pcs s) t with
  | Some (VHeld _) =>
      let s2 := vstep (vstep s (VStep t)) (VStep t) in           (* release(); rc test *)
      match nth_error (v_pcs s2) t with
      | Some (VDtorPush _) => vstep s2 (VStep t)                  (* rc was 0: LRU push *)
      | _ => s2
      end
  | Some (VDtorRead _) | Some (VDtorPush _) => s
  | _ => vstep s (VStep t)
  end.
Definition coop_act (s : vstate) (a : vact) : vstate :=
  match a with VStep t => dtor_atomic_step s t | _ => vstep s a end.

(* references: a thread between __find_or_create_box and its ~Borrow::release counts on its box *)
Definition vholds (p : vpc) (g : nat) : Z :=
  match p with
  | VCtor g' => if Nat.eqb g g' then 1 else 0
  | VDefer g' => if Nat.eqb g g' then 2 else 0
  | VHeld g' => if Nat.eqb g g' then 1 else 0
  | _ => 0 end.
Definition vsum (g : nat) (l : list vpc) : Z := fold_right (fun p a => vholds p g + a) 0 l.
Definition no_dtor_pc (p : vpc) : bool := match p with VDtorRead _ | VDtorPush _ => false | _ => true end.
Definition pc_gen (p : vpc) : option nat :=
  match p with VIdle => None | VCtor g | VDefer g | VHeld g | VDtorRead g | VDtorPush g => Some g end.

Definition VInv (s : vstate) : Prop :=
  v_uaf s = false /\ forallb no_dtor_pc (v_pcs s) = true /\
  match v_box s with
  | Some b => b_rc b = vsum (b_gen b) (v_pcs s) /\ (b_gen b < v_nextgen s)%nat /\
              (forall p, In p (v_pcs s) -> match pc_gen p with Some g => g = b_gen b | None => True end)
  | None => forall p, In p (v_pcs s) -> pc_gen p = None
  end.

(* ---------------------------------------------------------------- the single-vCPU invariant *)
Lemma vsum_upd g l t x old : nth_error l t = Some old -> vsum g (vupd l t x) = vsum g l - vholds old g + vholds x g.
Proof.
  revert t; induction l; destruct t; simpl; intros H; try discriminate.
  - inversion H; subst. lia.
  - rewrite (IHl _ H). lia.
Qed.
Lemma in_vupd l t x p : In p (vupd l t x) -> p = x \/ In p l.
Proof.
  revert t; induction l; destruct t; simpl; intros H; auto.
  - destruct H; auto.
  - destruct H as [H|H]; auto. destruct (IHl _ H); auto.
Qed.
Lemma forallb_vupd f l t x : forallb f l = true -> f x = true -> forallb f (vupd l t x) = true.
Proof.
  revert t; induction l; destruct t; simpl; intros H Hx; auto.
  - apply andb_true_iff in H. destruct H. rewrite Hx; auto.
  - apply andb_true_iff in H. destruct H as [H1 H2]. rewrite H1. simpl. auto.
Qed.
Lemma vholds_nonneg p g : 0 <= vholds p g.
Proof. destruct p; simpl; try lia; destruct (Nat.eqb g g0); lia. Qed.
Lemma vsum_zero g l : vsum g l = 0 -> forall p, In p l -> vholds p g = 0.
Proof.
  induction l; simpl; intros H p Hp; [contradiction|].
  pose proof (vholds_nonneg a g).
  assert (0 <= vsum g l). { clear. induction l; simpl; [lia|]. pose proof (vholds_nonneg a g). lia. }
  destruct Hp as [<-|Hp]; [lia|]. apply IHl; auto. lia.
Qed.
Lemma nth_in (l : list vpc) t p : nth_error l t = Some p -> In p l.
Proof. apply nth_error_In. Qed.

Theorem v2_single_vcpu_safe s a : VInv s -> VInv (coop_act s a).
Proof.
  intros [U [D B]]. destruct a as [t| |d]; simpl.
  - (* a borrower's step *)
    unfold dtor_atomic_step. destruct (nth_error (v_pcs s) t) as [p|] eqn:Ht; [|simpl; rewrite Ht; repeat split; auto].
    assert (Dp : no_dtor_pc p = true). { rewrite forallb_forall in D. apply D. eapply nth_in; eauto. }
    destruct p; try discriminate Dp; [simpl; rewrite Ht | simpl; rewrite Ht | simpl; rewrite Ht | ].
    + (* VIdle: __find_or_create_box *)
      destruct (v_box s) as [b|] eqn:Eb.
      * destruct B as [R [G P]]. split; [exact U|]. split; [apply forallb_vupd; auto|]. simpl. split; [|split; auto].
        -- rewrite (vsum_upd _ _ _ _ _ Ht). simpl. rewrite Nat.eqb_refl. lia.
        -- intros p Hp. apply in_vupd in Hp. destruct Hp as [->|Hp]; [reflexivity|]. apply P; auto.
      * split; [exact U|]. split; [apply forallb_vupd; auto|]. simpl. split; [|split; [lia|]].
        -- rewrite (vsum_upd _ _ _ _ _ Ht). simpl. rewrite Nat.eqb_refl.
           assert (vsum (v_nextgen s) (v_pcs s) = 0).
           { clear -B. induction (v_pcs s); simpl; auto. rewrite IHl by (intros; apply B; right; auto).
             specialize (B a (or_introl eq_refl)). destruct a; simpl in B; try discriminate. reflexivity. }
           lia.
        -- intros p Hp. apply in_vupd in Hp. destruct Hp as [->|Hp]; [reflexivity|]. rewrite (B p Hp). auto.
    + (* VCtor *)
      destruct (v_box s) as [b|] eqn:Eb; [|specialize (B _ (nth_in _ _ _ Ht)); discriminate].
      destruct B as [R [G P]]. pose proof (P _ (nth_in _ _ _ Ht)) as Pg. simpl in Pg. subst g.
      unfold touch. rewrite Eb, Nat.eqb_refl. split; [exact U|]. split; [apply forallb_vupd; auto|]. simpl. split; [|split; auto].
      * rewrite (vsum_upd _ _ _ _ _ Ht). simpl. rewrite Nat.eqb_refl. lia.
      * intros p Hp. apply in_vupd in Hp. destruct Hp as [->|Hp]; [reflexivity|]. apply P; auto.
    + (* VDefer *)
      destruct (v_box s) as [b|] eqn:Eb; [|specialize (B _ (nth_in _ _ _ Ht)); discriminate].
      destruct B as [R [G P]]. pose proof (P _ (nth_in _ _ _ Ht)) as Pg. simpl in Pg. subst g.
      unfold touch. rewrite Eb, Nat.eqb_refl. split; [exact U|]. split; [apply forallb_vupd; auto|]. simpl. split; [|split; auto].
      * rewrite (vsum_upd _ _ _ _ _ Ht). simpl. rewrite Nat.eqb_refl. lia.
      * intros p Hp. apply in_vupd in Hp. destruct Hp as [->|Hp]; [reflexivity|]. apply P; auto.
    + (* VHeld: the whole of ~Borrow *)
      change (VInv (let s2 := vstep (vstep s (VStep t)) (VStep t) in match nth_error (v_pcs s2) t with Some (VDtorPush _) => vstep s2 (VStep t) | _ => s2 end)).
      destruct (v_box s) as [b|] eqn:Eb; [|specialize (B _ (nth_in _ _ _ Ht)); discriminate].
      destruct B as [R [G P]]. pose proof (P _ (nth_in _ _ _ Ht)) as Pg. simpl in Pg. subst g.
      assert (NT : forall x, nth_error (vupd (v_pcs s) t x) t = Some x).
      { intros x. clear -Ht. revert t Ht. induction (v_pcs s); destruct t; simpl; intros; try discriminate; auto. }
      assert (UU : forall x y, vupd (vupd (v_pcs s) t x) t y = vupd (v_pcs s) t y).
      { intros x y. clear. revert t. induction (v_pcs s); destruct t; simpl; auto. f_equal; auto. }
      assert (E1 : vstep s (VStep t) = setb s (mkBox (b_gen b) (b_rc b - 1) (v_now s) (b_lru b)) (vupd (v_pcs s) t (VDtorRead (b_gen b)))).
      { simpl. rewrite Ht. unfold touch. rewrite Eb, Nat.eqb_refl. reflexivity. }
      rewrite E1.
      set (b1 := mkBox (b_gen b) (b_rc b - 1) (v_now s) (b_lru b)).
      assert (E2 : vstep (setb s b1 (vupd (v_pcs s) t (VDtorRead (b_gen b)))) (VStep t) =
                   setb s b1 (vupd (v_pcs s) t (if b_rc b - 1 =? 0 then VDtorPush (b_gen b) else VIdle))).
      { simpl. rewrite NT. unfold touch. simpl. rewrite Nat.eqb_refl. unfold setb. simpl. rewrite UU. reflexivity. }
      rewrite E2. cbv zeta. unfold setb at 1. cbn [v_pcs]. rewrite NT. destruct (b_rc b - 1 =? 0) eqn:Ez.
      * assert (E3 : vstep (setb s b1 (vupd (v_pcs s) t (VDtorPush (b_gen b)))) (VStep t) =
                     setb s (mkBox (b_gen b) (b_rc b - 1) (v_now s) true) (vupd (v_pcs s) t VIdle)).
        { simpl. rewrite NT. unfold touch. simpl. rewrite Nat.eqb_refl. unfold setb. simpl. rewrite UU. reflexivity. }
        rewrite E3. split; [exact U|]. split; [apply forallb_vupd; auto|]. simpl. split; [|split; auto].
        -- rewrite (vsum_upd _ _ _ _ _ Ht). simpl. rewrite Nat.eqb_refl. lia.
        -- intros p Hp. apply in_vupd in Hp. destruct Hp as [->|Hp]; [exact Logic.I|]. apply P; auto.
      * split; [exact U|]. split; [apply forallb_vupd; auto|]. simpl. split; [|split; auto].
        -- rewrite (vsum_upd _ _ _ _ _ Ht). simpl. rewrite Nat.eqb_refl. lia.
        -- intros p Hp. apply in_vupd in Hp. destruct Hp as [->|Hp]; [exact Logic.I|]. apply P; auto.
  - (* the reclaimer *)
    destruct (v_box s) as [b|] eqn:Eb; [|repeat split; auto; rewrite Eb; auto].
    destruct B as [R [G P]].
    destruct (b_lru b && (b_ts b <? sat_sub (v_now s) (v_life s))); [|repeat split; auto; rewrite Eb; auto].
    destruct (b_rc b =? 0) eqn:Ez.
    + apply Z.eqb_eq in Ez. split; [exact U|]. split; [exact D|]. simpl.
      intros p Hp. rewrite Ez in R. symmetry in R. pose proof (vsum_zero _ _ R p Hp) as Z0.
      pose proof (P p Hp) as Pg. rewrite forallb_forall in D. pose proof (D p Hp) as Dp.
      destruct p; simpl in *; try discriminate; auto; subst; rewrite Nat.eqb_refl in Z0; lia.
    + split; [exact U|]. split; [exact D|]. simpl. auto.
  - (* time *) split; [exact U|]. split; [exact D|]. simpl. exact B.
Qed.

Lemma v2_init_inv now life n : VInv (vinit now life n).
Proof.
  split; [reflexivity|]. split.
  - simpl. induction n; simpl; auto.
  - simpl. intros p Hp. apply repeat_spec in Hp. subst. reflexivity.
Qed.

(* every single-vCPU schedule (each ~Borrow runs without a context switch) is free of use-after-free *)
Theorem v2_single_vcpu_no_uaf now life n sched : v_uaf (fold_left coop_act sched (vinit now life n)) = false.
Proof.
  assert (H : forall s, VInv s -> VInv (fold_left coop_act sched s)).
  { induction sched; simpl; intros s I; auto. apply IHsched. apply v2_single_vcpu_safe; auto. }
  apply (H _ (v2_init_inv now life n)).
Qed.
