(* C19_Model.v — ObjectCache (common/expirecontainer.{h,cpp}) at lock granularity.
   EXECUTABLE DEFINITIONS ONLY.

   One transition = one block under `_lock` (ExpireContainerBase::_lock, a spinlock that protects
   _set, _list and every Item's _refcnt/_recycle/_timeout), one operation of the item's photon::mutex
   `_mtx` (try_lock / slow-path enqueue under mutex::splock / unlock with hand-off, thread.cpp
   1765-1807), one operation of the recycler's semaphore, one resume_one of `blocker`, one access to
   Item::_obj/_failure (these are protected by `_mtx`, except the read at expirecontainer.cpp:116 and
   the write `_failure = 0` at :138, which are modelled as the separate steps they are), or one
   `delete` of an unlinked item.  Sequentially consistent.  Any number of threads (length s_thr);
   which OS thread (vCPU) a photon thread runs on is immaterial at this granularity: `step s t` is
   the next transition of thread t, and the theorems quantify over every sequence of t's.

   The SAME step function is run cooperatively (`coop_run`): the current thread steps until its step
   says EYield/EBlock, woken threads are appended to the run queue (AtomicRunQ::insert_tail,
   thread.cpp 690/1473), a yield rotates (goto_next, 674) — that run is compared with the real
   library on one vCPU by harness/C19.

   refcnt is a uint32_t in the C++; the model uses unbounded Z (fewer than 2^32 simultaneous
   references is an assumption).  Times are uint64 (photon::now), sat_add/sat_sub as in utility.h. *)
From Coq Require Import ZArith List Bool Arith Lia.
From PV Require Import Base.U64.
Import ListNotations.
Local Open Scope Z_scope.

Definition tid := nat.
Definition iid := nat.   (* item identity = allocation number (`new Item`) *)
Definition oid := nat.   (* object identity = construction number *)
Definition key := nat.

(* ---------------------------------------------------------------- programs *)
Inductive op :=
| OpAcquire (k : key) (ok : bool) (yields : nat) (cooldown : Z)
    (* ref_acquire(k, ctor, cooldown) [or borrow()]; if the constructor runs it yields `yields`
       times and then succeeds (ok) or fails (leaves _obj null); result pushed as a new handle *)
| OpRelease (h : nat) (recycle destroy : bool)   (* ref_release(handle h, recycle, destroy) [or ~Borrow] *)
| OpExpire                                       (* expire() — what the Timer calls *)
| OpYield
| OpTick (d : Z).                                (* photon::now += |d| *)

Inductive kont :=
| KAcq (r : option iid)          (* ref_acquire is about to return r (after its DEFER(expire())) *)
| KRel (ret : option (oid * nat)) (inacq : bool)
    (* ref_release about to return ret (object handed over, ghost: outstanding handles on it then);
       inacq: it was called from ref_acquire:117 *)
| KExp.

Inductive pc :=
| PIdle
| PAcqFind (k : key) (ok : bool) (y : nat) (cd : Z)          (* :90-106 one block under _lock *)
| PAcqParked (k : key) (ok : bool) (y : nat) (cd : Z)        (* inside blocker.wait(_lock) :103 *)
| PAcqLock (i : iid) (ok : bool) (y : nat) (cd : Z) (n : nat) (* mutex::lock fast path, n yields left *)
| PAcqSlow (i : iid) (ok : bool) (y : nat) (cd : Z)          (* mutex::lock slow path under splock *)
| PAcqSleepM (i : iid) (ok : bool) (y : nat) (cd : Z)        (* asleep in the mutex's wait queue *)
| PAcqCheck (i : iid) (ok : bool) (y : nat) (cd : Z)         (* :110-111 holds _mtx *)
| PAcqCtor (i : iid) (ok : bool) (y : nat)                   (* :112-113 inside ctor *)
| PAcqUnlock (i : iid)                                       (* :115 *)
| PAcqRead (i : iid)                                         (* :116 read _obj, no lock *)
| PRel1 (i : iid) (recycle destroy inacq : bool)             (* :128-142 one block under _lock *)
| PRelSem (i : iid) (destroy : bool)                         (* :144 sem.wait(1): try_subtract *)
| PRelSemSleep (i : iid) (destroy : bool)                    (* asleep in the semaphore's queue *)
| PRelErase (i : iid) (destroy : bool)                       (* :146-148 under _lock *)
| PRelDelete (i : iid) (destroy : bool)                      (* :150-153 *)
| PRelNotify (ret : option (oid * nat))                            (* :154 blocker.notify_all(), one resume_one per step *)
| PExp (kt : kont)                                           (* expire() :55-63 under _lock *)
| PExpDel (zs : list iid) (kt : kont).                       (* :64 delete_all(), one delete per step *)

Record item := mkItem {
  i_key : key;
  i_obj : option oid;        (* _obj *)
  i_ref : Z;                 (* _refcnt *)
  i_recycle : option tid;    (* _recycle: whose stack semaphore *)
  i_failure : Z;             (* _failure *)
  i_expire : Z;              (* _timeout.expiration() *)
  i_mtx : option tid;        (* _mtx.owner *)
  i_mq : list tid;           (* _mtx wait queue (FIFO) *)
  i_sem : Z;                 (* m_count of the pending recycler's semaphore *)
  i_semwait : bool;          (* the recycler sleeps in that semaphore's queue *)
  i_live : bool;             (* ghost: not yet `delete`d *)
  i_relt : Z                 (* ghost: photon::now at the last enqueue() *)
}.

Inductive ostate := OLive | OHanded | ODead.   (* ghost state of a constructed object *)

Inductive event :=
| EvCtorBegin (t : tid) (k : key)
| EvCtorEnd (t : tid) (k : key) (r : option oid)
| EvDtor (t : tid) (o : oid) (refs : nat)      (* refs = outstanding handles on the object's item *)
| EvAcq (t : tid) (idx : nat) (r : option oid)
| EvRel (t : tid) (idx : nat) (ret : option (oid * nat)) (* ret = object handed to the recycler, outstanding handles *)
| EvRelCall (t : tid) (idx : nat)            (* ref_release called: the caller's reference is given up *)
| EvSkip (t : tid) (idx : nat)
| EvExp (t : tid) (idx : nat)
| EvYield (t : tid) (idx : nat)
| EvTick (t : tid) (idx : nat).

Record thr := mkThr {
  t_pc : pc;
  t_prog : list op;
  t_idx : nat;                          (* index of the current / next op *)
  t_h : list (option iid * bool)        (* handles: result of each acquire, released? *)
}.

Record state := mkState {
  s_now : Z;
  s_lifespan : Z;
  s_numlimit : Z;
  s_items : list item;     (* heap of Items, by iid; deleted ones stay with i_live = false *)
  s_set : list iid;        (* _set *)
  s_list : list iid;       (* _list, front first *)
  s_blockq : list tid;     (* blocker's wait queue *)
  s_thr : list thr;
  s_objs : list (key * ostate);  (* ghost: constructed objects by oid *)
  s_log : list event;      (* ghost: newest first *)
  s_bad : bool             (* ghost: an access to a deleted / unallocated Item happened *)
}.

Inductive eff := ECont | EYield | EBlock.
Record res := mkRes { r_st : state; r_eff : eff; r_wake : list tid }.

(* ---------------------------------------------------------------- helpers *)
Fixpoint upd {A} (l : list A) (n : nat) (x : A) : list A :=
  match l, n with
  | [], _ => []
  | _ :: r, O => x :: r
  | a :: r, S m => a :: upd r m x
  end.

Definition remove_id (x : nat) (l : list nat) : list nat := filter (fun y => negb (Nat.eqb x y)) l.
Definition mem_id (x : nat) (l : list nat) : bool := existsb (Nat.eqb x) l.

Definition key_of (its : list item) (i : iid) : option key :=
  match nth_error its i with Some it => Some (i_key it) | None => None end.

(* _set.find(key): the element whose key_equal holds *)
Fixpoint find_key (its : list item) (set : list iid) (k : key) : option iid :=
  match set with
  | [] => None
  | i :: r => match nth_error its i with
              | Some it => if Nat.eqb (i_key it) k then Some i else find_key its r k
              | None => find_key its r k
              end
  end.
(* _set.erase(x): erases the element that key_equal()s x *)
Definition erase_key (its : list item) (set : list iid) (k : key) : list iid :=
  filter (fun j => match nth_error its j with Some it => negb (Nat.eqb (i_key it) k) | None => true end) set.

Definition set_now s v := mkState v (s_lifespan s) (s_numlimit s) (s_items s) (s_set s) (s_list s) (s_blockq s) (s_thr s) (s_objs s) (s_log s) (s_bad s).
Definition set_items s v := mkState (s_now s) (s_lifespan s) (s_numlimit s) v (s_set s) (s_list s) (s_blockq s) (s_thr s) (s_objs s) (s_log s) (s_bad s).
Definition set_set s v := mkState (s_now s) (s_lifespan s) (s_numlimit s) (s_items s) v (s_list s) (s_blockq s) (s_thr s) (s_objs s) (s_log s) (s_bad s).
Definition set_list s v := mkState (s_now s) (s_lifespan s) (s_numlimit s) (s_items s) (s_set s) v (s_blockq s) (s_thr s) (s_objs s) (s_log s) (s_bad s).
Definition set_blockq s v := mkState (s_now s) (s_lifespan s) (s_numlimit s) (s_items s) (s_set s) (s_list s) v (s_thr s) (s_objs s) (s_log s) (s_bad s).
Definition set_thr s v := mkState (s_now s) (s_lifespan s) (s_numlimit s) (s_items s) (s_set s) (s_list s) (s_blockq s) v (s_objs s) (s_log s) (s_bad s).
Definition set_objs s v := mkState (s_now s) (s_lifespan s) (s_numlimit s) (s_items s) (s_set s) (s_list s) (s_blockq s) (s_thr s) v (s_log s) (s_bad s).
Definition add_log s e := mkState (s_now s) (s_lifespan s) (s_numlimit s) (s_items s) (s_set s) (s_list s) (s_blockq s) (s_thr s) (s_objs s) (e :: s_log s) (s_bad s).
Definition set_bad s := mkState (s_now s) (s_lifespan s) (s_numlimit s) (s_items s) (s_set s) (s_list s) (s_blockq s) (s_thr s) (s_objs s) (s_log s) true.

Definition set_item s i it := set_items s (upd (s_items s) i it).

Definition it_obj it v := mkItem (i_key it) v (i_ref it) (i_recycle it) (i_failure it) (i_expire it) (i_mtx it) (i_mq it) (i_sem it) (i_semwait it) (i_live it) (i_relt it).
Definition it_ref it v := mkItem (i_key it) (i_obj it) v (i_recycle it) (i_failure it) (i_expire it) (i_mtx it) (i_mq it) (i_sem it) (i_semwait it) (i_live it) (i_relt it).
Definition it_recycle it v := mkItem (i_key it) (i_obj it) (i_ref it) v (i_failure it) (i_expire it) (i_mtx it) (i_mq it) (i_sem it) (i_semwait it) (i_live it) (i_relt it).
Definition it_failure it v := mkItem (i_key it) (i_obj it) (i_ref it) (i_recycle it) v (i_expire it) (i_mtx it) (i_mq it) (i_sem it) (i_semwait it) (i_live it) (i_relt it).
Definition it_enq it e n := mkItem (i_key it) (i_obj it) (i_ref it) (i_recycle it) (i_failure it) e (i_mtx it) (i_mq it) (i_sem it) (i_semwait it) (i_live it) n.
Definition it_mtx it o q := mkItem (i_key it) (i_obj it) (i_ref it) (i_recycle it) (i_failure it) (i_expire it) o q (i_sem it) (i_semwait it) (i_live it) (i_relt it).
Definition it_sem it c w := mkItem (i_key it) (i_obj it) (i_ref it) (i_recycle it) (i_failure it) (i_expire it) (i_mtx it) (i_mq it) c w (i_live it) (i_relt it).
Definition it_dead it := mkItem (i_key it) None (i_ref it) (i_recycle it) (i_failure it) (i_expire it) (i_mtx it) (i_mq it) (i_sem it) (i_semwait it) false (i_relt it).

Definition new_item (k : key) : item :=       (* PtrItem::construct(); Item() : _timeout(0) *)
  mkItem k None 0 None 0 0 None [] 0 false true 0.

Definition th_pc th p := mkThr p (t_prog th) (t_idx th) (t_h th).

Definition get_thr s t := nth_error (s_thr s) t.
Definition set_pc s t th p := set_thr s (upd (s_thr s) t (th_pc th p)).

Definition cont s := Some (mkRes s ECont []).
Definition bad s := Some (mkRes (set_bad s) ECont []).

(* dereference Item* i: a dead or unallocated item is a use-after-free, flagged *)
Definition with_item (s : state) (i : iid) (f : item -> option res) : option res :=
  match nth_error (s_items s) i with
  | Some it => if i_live it then f it else bad s
  | None => bad s
  end.

(* outstanding handles (acquired, release not yet called) on item i — the harness keeps the same ledger *)
Definition handles_on (th : thr) (i : iid) : nat :=
  length (filter (fun h => match h with (Some j, false) => Nat.eqb i j | _ => false end) (t_h th)).
Definition refs_on (s : state) (i : iid) : nat :=
  fold_right (fun th a => (handles_on th i + a)%nat) O (s_thr s).

Definition obj_set (objs : list (key * ostate)) (o : oid) (st : ostate) : list (key * ostate) :=
  match nth_error objs o with Some (k, _) => upd objs o (k, st) | None => objs end.

(* `delete item` for an item already unlinked from _set/_list: ~PtrItem deletes _obj *)
Definition delete_item (s : state) (t : tid) (i : iid) (it : item) : state :=
  let s1 := match i_obj it with
            | Some o => add_log (set_objs s (obj_set (s_objs s) o ODead)) (EvDtor t o (refs_on s i))
            | None => s
            end in
  set_item s1 i (it_dead it).

(* expire() :56-63: the longest prefix of _list whose elements satisfy the predicate, evaluated
   front to back with _set shrinking as it goes; those are unlinked and erased *)
Fixpoint exp_split (its : list item) (now lim : Z) (lst set : list iid) : list iid * list iid * list iid :=
  match lst with
  | [] => ([], [], set)
  | x :: r =>
      match nth_error its x with
      | Some it =>
          if (i_expire it <? now) || (lim <? Z.of_nat (length set)) then
            let '(zs, l', set') := exp_split its now lim r (erase_key its set (i_key it)) in
            (x :: zs, l', set')
          else ([], lst, set)
      | None => ([], lst, set)
      end
  end.

Definition finish (s : state) (t : tid) (th : thr) (kt : kont) : option res :=
  match kt with
  | KAcq r =>
      let o := match r with
               | Some i => match nth_error (s_items s) i with Some it => i_obj it | None => None end
               | None => None end in
      let th' := mkThr PIdle (t_prog th) (S (t_idx th)) (t_h th ++ [(r, false)]) in
      cont (add_log (set_thr s (upd (s_thr s) t th')) (EvAcq t (t_idx th) o))
  | KRel ret true => cont (set_pc s t th (PExp (KAcq None)))     (* :118 return nullptr, then DEFER(expire()) of ref_acquire *)
  | KRel ret false =>
      let th' := mkThr PIdle (t_prog th) (S (t_idx th)) (t_h th) in
      cont (add_log (set_thr s (upd (s_thr s) t th')) (EvRel t (t_idx th) ret))
  | KExp =>
      let th' := mkThr PIdle (t_prog th) (S (t_idx th)) (t_h th) in
      cont (add_log (set_thr s (upd (s_thr s) t th')) (EvExp t (t_idx th)))
  end.

Definition MUTEX_RETRIES : nat := 100.   (* photon::mutex(max_retries = 100), thread.h:315 *)

(* ---------------------------------------------------------------- the step function *)
Definition step (s : state) (t : tid) : option res :=
  match get_thr s t with
  | None => None
  | Some th =>
    match t_pc th with
    | PIdle =>
        match t_prog th with
        | [] => None                                   (* thread finished *)
        | o :: rest =>
            let nexti p := mkThr p rest (t_idx th) (t_h th) in
            let done_ := mkThr PIdle rest (S (t_idx th)) (t_h th) in
            match o with
            | OpAcquire k ok y cd => cont (set_thr s (upd (s_thr s) t (nexti (PAcqFind k ok y cd))))
            | OpRelease h rc ds =>
                match nth_error (t_h th) h with
                | Some (Some i, false) =>
                    let th' := mkThr (PRel1 i rc ds false) rest (t_idx th) (upd (t_h th) h (Some i, true)) in
                    cont (add_log (set_thr s (upd (s_thr s) t th')) (EvRelCall t (t_idx th)))
                | _ => cont (add_log (set_thr s (upd (s_thr s) t done_)) (EvSkip t (t_idx th)))
                end
            | OpExpire => cont (set_thr s (upd (s_thr s) t (nexti (PExp KExp))))
            | OpYield => Some (mkRes (add_log (set_thr s (upd (s_thr s) t done_)) (EvYield t (t_idx th))) EYield [])
            | OpTick d =>
                cont (add_log (set_now (set_thr s (upd (s_thr s) t done_)) (sat_add (s_now s) (Z.abs d))) (EvTick t (t_idx th)))
            end
        end

    (* ---- ref_acquire, expirecontainer.cpp:89-107 ---- *)
    | PAcqFind k ok y cd =>
        let '(s1, i) := match find_key (s_items s) (s_set s) k with
                        | Some i => (s, i)
                        | None => let i := length (s_items s) in
                                  (set_set (set_items s (s_items s ++ [new_item k])) (s_set s ++ [i]), i)
                        end in
        let s2 := set_list s1 (remove_id i (s_list s1)) in                       (* _list.pop(holder) *)
        with_item s2 i (fun it =>
          match i_recycle it with
          | Some _ => Some (mkRes (set_pc (set_blockq s2 (s_blockq s2 ++ [t])) t th (PAcqParked k ok y cd)) EBlock [])
          | None => cont (set_pc (set_item s2 i (it_ref it (i_ref it + 1))) t th (PAcqLock i ok y cd MUTEX_RETRIES))
          end)
    | PAcqParked k ok y cd =>
        if mem_id t (s_blockq s) then None                 (* still parked *)
        else cont (set_pc s t th (PAcqFind k ok y cd))      (* re-lock _lock, leave scope, loop *)

    (* ---- SCOPED_LOCK(item->_mtx), thread.cpp:1765-1792 ---- *)
    | PAcqLock i ok y cd n =>
        with_item s i (fun it =>
          match i_mtx it with
          | None => cont (set_pc (set_item s i (it_mtx it (Some t) (i_mq it))) t th (PAcqCheck i ok y cd))
          | Some _ =>
              match n with
              | S m => Some (mkRes (set_pc s t th (PAcqLock i ok y cd m)) EYield [])
              | O => cont (set_pc s t th (PAcqSlow i ok y cd))
              end
          end)
    | PAcqSlow i ok y cd =>
        with_item s i (fun it =>
          match i_mtx it with
          | None => cont (set_pc (set_item s i (it_mtx it (Some t) (i_mq it))) t th (PAcqCheck i ok y cd))
          | Some _ => Some (mkRes (set_pc (set_item s i (it_mtx it (i_mtx it) (i_mq it ++ [t]))) t th (PAcqSleepM i ok y cd)) EBlock [])
          end)
    | PAcqSleepM i ok y cd =>
        with_item s i (fun it =>
          match i_mtx it with
          | Some o => if Nat.eqb o t then cont (set_pc s t th (PAcqCheck i ok y cd)) else None
          | None => None
          end)

    (* ---- :110-114 under _mtx ---- *)
    | PAcqCheck i ok y cd =>
        with_item s i (fun it =>
          let ts := sat_sub (s_now s) cd in
          match i_obj it with
          | None => if i_failure it <=? ts
                    then cont (add_log (set_pc s t th (PAcqCtor i ok y)) (EvCtorBegin t (i_key it)))
                    else cont (set_pc s t th (PAcqUnlock i))
          | Some _ => cont (set_pc s t th (PAcqUnlock i))
          end)
    | PAcqCtor i ok y =>
        match y with
        | S m => Some (mkRes (set_pc s t th (PAcqCtor i ok m)) EYield [])
        | O =>
            with_item s i (fun it =>
              if ok then
                let o := length (s_objs s) in
                let s1 := set_objs (set_item s i (it_obj it (Some o))) (s_objs s ++ [(i_key it, OLive)]) in
                cont (add_log (set_pc s1 t th (PAcqUnlock i)) (EvCtorEnd t (i_key it) (Some o)))
              else
                let s1 := set_item s i (it_failure it (s_now s)) in
                cont (add_log (set_pc s1 t th (PAcqUnlock i)) (EvCtorEnd t (i_key it) None)))
        end
    | PAcqUnlock i =>                                   (* do_mutex_unlock: owner := head waiter *)
        with_item s i (fun it =>
          match i_mq it with
          | h :: q => Some (mkRes (set_pc (set_item s i (it_mtx it (Some h) q)) t th (PAcqRead i)) ECont [h])
          | [] => cont (set_pc (set_item s i (it_mtx it None [])) t th (PAcqRead i))
          end)
    | PAcqRead i =>                                     (* :116 *)
        with_item s i (fun it =>
          match i_obj it with
          | Some _ => cont (set_pc s t th (PExp (KAcq (Some i))))
          | None => cont (set_pc s t th (PRel1 i false true true))
          end)

    (* ---- ref_release, :123-157 ---- *)
    | PRel1 i rc ds inacq =>
        with_item s i (fun it =>
          let rc' := match i_recycle it with Some _ => false | None => rc end in
          let it1 := if rc' then it_recycle it (Some t) else it in
          let it2 := it_ref it1 (i_ref it1 - 1) in
          let next := if rc' then PRelSem i ds else PExp (KRel None inacq) in
          if i_ref it2 =? 0 then
            match i_recycle it2 with
            | Some r =>                                  (* item->_recycle->signal(1) *)
                let it3 := it_sem it2 (i_sem it2 + 1) false in
                Some (mkRes (set_pc (set_item s i it3) t th next) ECont (if i_semwait it2 then [r] else []))
            | None =>                                    (* _failure = 0; enqueue(item) *)
                let it3 := it_enq (it_failure it2 0) (sat_add (s_now s) (s_lifespan s)) (s_now s) in
                let s1 := set_list (set_item s i it3) (remove_id i (s_list s) ++ [i]) in
                cont (set_pc s1 t th next)
            end
          else cont (set_pc (set_item s i it2) t th next))
    | PRelSem i ds =>
        with_item s i (fun it =>
          if 1 <=? i_sem it then cont (set_pc (set_item s i (it_sem it (i_sem it - 1) false)) t th (PRelErase i ds))
          else Some (mkRes (set_pc (set_item s i (it_sem it (i_sem it) true)) t th (PRelSemSleep i ds)) EBlock []))
    | PRelSemSleep i ds =>
        with_item s i (fun it =>
          if i_semwait it then None else cont (set_pc s t th (PRelSem i ds)))
    | PRelErase i ds =>
        with_item s i (fun it =>
          cont (set_pc (set_set s (erase_key (s_items s) (s_set s) (i_key it))) t th (PRelDelete i ds)))
    | PRelDelete i ds =>
        with_item s i (fun it =>
          if ds then cont (set_pc (delete_item s t i it) t th (PRelNotify None))
          else
            let s1 := match i_obj it with
                      | Some o => set_objs s (obj_set (s_objs s) o OHanded)
                      | None => s end in
            let ret := match i_obj it with Some o => Some (o, refs_on s i) | None => None end in
            cont (set_pc (delete_item s1 t i (it_obj it None)) t th (PRelNotify ret)))
    | PRelNotify ret =>
        match s_blockq s with
        | h :: q => Some (mkRes (set_blockq s q) ECont [h])
        | [] => cont (set_pc s t th (PExp (KRel ret false)))
        end

    (* ---- expire(), :53-66 ---- *)
    | PExp kt =>
        let '(zs, l', set') := exp_split (s_items s) (s_now s) (s_numlimit s) (s_list s) (s_set s) in
        cont (set_pc (set_set (set_list s l') set') t th (PExpDel zs kt))
    | PExpDel zs kt =>
        match zs with
        | z :: r => with_item s z (fun it => cont (set_pc (delete_item s t z it) t th (PExpDel r kt)))
        | [] => finish s t th kt
        end
    end
  end.

(* ---------------------------------------------------------------- cooperative single-vCPU run *)
(* run queue: current thread first.  wake-ups append (insert_tail = insert before current);
   a yield rotates; a blocking step or the end of the program removes the current thread. *)
Fixpoint coop_run (fuel : nat) (s : state) (rq : list tid) : state * list tid * bool :=
  match fuel with
  | O => (s, rq, false)
  | S f =>
      match rq with
      | [] => (s, [], true)
      | t :: rest =>
          match step s t with
          | None => coop_run f s rest
          | Some r =>
              match r_eff r with
              | ECont => coop_run f (r_st r) (t :: rest ++ r_wake r)
              | EYield => coop_run f (r_st r) (rest ++ r_wake r ++ [t])
              | EBlock => coop_run f (r_st r) (rest ++ r_wake r)
              end
          end
      end
  end.

Definition init_thr (p : list op) : thr := mkThr PIdle p O [].
Definition init_state (now lifespan numlimit : Z) (progs : list (list op)) : state :=
  mkState now lifespan numlimit [] [] [] [] (map init_thr progs) [] [] false.

Definition run_case (fuel : nat) (now lifespan numlimit : Z) (progs : list (list op)) : state * list tid * bool :=
  coop_run fuel (init_state now lifespan numlimit progs) (seq 0 (length progs)).
