(* C19_Mtx.v — the item's mutex: a thread inside the `_mtx` section of item i is its owner; hence the
   constructor is never running twice at once for one key. *)
From Coq Require Import ZArith List Bool Arith Lia.
From PV Require Import Base.U64 C19.C19_Model C19.C19_Lib C19.C19_Inv C19.C19_Gen C19.C19_Proofs.
Import ListNotations.
Local Open Scope Z_scope.

(* how one transition of thread t may change the owner field of the items' mutexes *)
Definition mtx_rel (s : state) (t : tid) (s' : state) : Prop :=
  forall j it, nth_error (s_items s) j = Some it ->
    exists it', nth_error (s_items s') j = Some it' /\
      (i_mtx it' = i_mtx it \/ i_mtx it = None \/
       exists th, nth_error (s_thr s) t = Some th /\ t_pc th = PAcqUnlock j).

Lemma mtx_rel_same s t s' : s_items s' = s_items s -> mtx_rel s t s'.
Proof. intros E j it H. exists it. rewrite E. auto. Qed.

Lemma mtx_rel_upd s t s' i x y : nth_error (s_items s) i = Some x -> s_items s' = upd (s_items s) i y ->
  (i_mtx y = i_mtx x \/ i_mtx x = None \/ exists th, nth_error (s_thr s) t = Some th /\ t_pc th = PAcqUnlock i) ->
  mtx_rel s t s'.
Proof.
  intros Hx E C j it H. rewrite E, (nth_upd _ _ _ _ _ Hx). destruct (Nat.eqb_spec i j).
  - subst j. exists y. split; auto. assert (it = x) by congruence. subst. exact C.
  - exists it. auto.
Qed.

Lemma mtx_rel_app_upd s t s' x y : s_items s' = upd (s_items s ++ [x]) (length (s_items s)) y -> mtx_rel s t s'.
Proof.
  intros E j it H. exists it. split; auto. rewrite E.
  assert (j < length (s_items s))%nat by (apply nth_error_Some; congruence).
  rewrite nth_upd_neq by lia. apply nth_app_some; auto.
Qed.

Lemma delete_item_items s t i it : s_items (delete_item s t i it) = upd (s_items s) i (it_dead it).
Proof. apply delete_item_fields. Qed.

Lemma set_pc_items s t th p : s_items (set_pc s t th p) = s_items s.
Proof. reflexivity. Qed.

Ltac mtx_leaf :=
  match goal with
  | |- mtx_rel _ _ _ => first
      [ apply mtx_rel_same; reflexivity
      | eapply mtx_rel_upd; [eassumption | reflexivity | simpl; auto; fail]
      | eapply mtx_rel_upd; [eassumption | reflexivity | simpl; right; right; eexists; split; [eassumption|assumption]] ]
  end.

Lemma step_mtx s t r : step s t = Some r -> mtx_rel s t (r_st r).
Proof.
  intros E. unfold step, get_thr in E.
  destruct (nth_error (s_thr s) t) as [th|] eqn:Ht; [|discriminate].
  destruct (t_pc th) eqn:Hpc.
  - (* PIdle *) destruct (t_prog th) as [|o rest]; [discriminate|]. destruct o.
    + injection E as <-. mtx_leaf.
    + destruct (nth_error (t_h th) h) as [[[?|] [|]]|]; injection E as <-; mtx_leaf.
    + injection E as <-. mtx_leaf.
    + injection E as <-. mtx_leaf.
    + injection E as <-. mtx_leaf.
  - (* PAcqFind *)
    destruct (find_key (s_items s) (s_set s) k) as [i|] eqn:F; cbv beta iota zeta in E; unfold with_item in E; simpl in E.
    + destruct (nth_error (s_items s) i) as [it|] eqn:Hn; [destruct (i_live it)|]; try (injection E as <-; mtx_leaf).
      destruct (i_recycle it); injection E as <-; mtx_leaf.
    + rewrite nth_app_new in E. simpl in E. injection E as <-. eapply mtx_rel_app_upd. reflexivity.
  - (* PAcqParked *) destruct (mem_id t (s_blockq s)); [discriminate|]. injection E as <-. mtx_leaf.
  - (* PAcqLock *) unfold with_item in E. destruct (nth_error (s_items s) i) as [it|] eqn:Hn; [destruct (i_live it)|]; try (injection E as <-; mtx_leaf).
    destruct (i_mtx it) eqn:Em; [destruct n|]; injection E as <-; mtx_leaf.
  - (* PAcqSlow *) unfold with_item in E. destruct (nth_error (s_items s) i) as [it|] eqn:Hn; [destruct (i_live it)|]; try (injection E as <-; mtx_leaf).
    destruct (i_mtx it) eqn:Em; injection E as <-.
    + eapply mtx_rel_upd; [eassumption|reflexivity|simpl; left; congruence].
    + mtx_leaf.
  - (* PAcqSleepM *) unfold with_item in E. destruct (nth_error (s_items s) i) as [it|] eqn:Hn; [destruct (i_live it)|]; try (injection E as <-; mtx_leaf).
    destruct (i_mtx it); [|discriminate]. destruct (Nat.eqb t0 t); [|discriminate]. injection E as <-. mtx_leaf.
  - (* PAcqCheck *) unfold with_item in E. destruct (nth_error (s_items s) i) as [it|] eqn:Hn; [destruct (i_live it)|]; try (injection E as <-; mtx_leaf).
    destruct (i_obj it); [|destruct (i_failure it <=? sat_sub (s_now s) cd)]; injection E as <-; mtx_leaf.
  - (* PAcqCtor *) destruct y.
    + unfold with_item in E. destruct (nth_error (s_items s) i) as [it|] eqn:Hn; [destruct (i_live it)|]; try (injection E as <-; mtx_leaf).
      destruct ok; injection E as <-; mtx_leaf.
    + injection E as <-. mtx_leaf.
  - (* PAcqUnlock *) unfold with_item in E. destruct (nth_error (s_items s) i) as [it|] eqn:Hn; [destruct (i_live it)|]; try (injection E as <-; mtx_leaf).
    destruct (i_mq it); injection E as <-; mtx_leaf.
  - (* PAcqRead *) unfold with_item in E. destruct (nth_error (s_items s) i) as [it|] eqn:Hn; [destruct (i_live it)|]; try (injection E as <-; mtx_leaf).
    destruct (i_obj it); injection E as <-; mtx_leaf.
  - (* PRel1 *) unfold with_item in E. destruct (nth_error (s_items s) i) as [it|] eqn:Hn; [destruct (i_live it)|]; try (injection E as <-; mtx_leaf).
    cbv beta iota zeta in E.
    destruct (i_recycle it) eqn:Ci; [|destruct recycle]; simpl in E;
      destruct (i_ref it - 1 =? 0); rewrite ?Ci in E; simpl in E; try destruct (i_semwait it); injection E as <-; mtx_leaf.
  - (* PRelSem *) unfold with_item in E. destruct (nth_error (s_items s) i) as [it|] eqn:Hn; [destruct (i_live it)|]; try (injection E as <-; mtx_leaf).
    destruct (1 <=? i_sem it); injection E as <-; mtx_leaf.
  - (* PRelSemSleep *) unfold with_item in E. destruct (nth_error (s_items s) i) as [it|] eqn:Hn; [destruct (i_live it)|]; try (injection E as <-; mtx_leaf).
    destruct (i_semwait it); [discriminate|]. injection E as <-. mtx_leaf.
  - (* PRelErase *) unfold with_item in E. destruct (nth_error (s_items s) i) as [it|] eqn:Hn; [destruct (i_live it)|]; injection E as <-; mtx_leaf.
  - (* PRelDelete *) unfold with_item in E. destruct (nth_error (s_items s) i) as [it|] eqn:Hn; [destruct (i_live it)|]; try (injection E as <-; mtx_leaf).
    destruct destroy; injection E as <-.
    + eapply mtx_rel_upd; [eassumption | cbn [r_st]; rewrite set_pc_items; apply delete_item_items | auto].
    + eapply mtx_rel_upd; [eassumption | cbn [r_st]; rewrite set_pc_items, delete_item_items; destruct (i_obj it); reflexivity | auto].
  - (* PRelNotify *) destruct (s_blockq s); injection E as <-; mtx_leaf.
  - (* PExp *) destruct (exp_split (s_items s) (s_now s) (s_numlimit s) (s_list s) (s_set s)) as [[zs l'] set'].
    injection E as <-. mtx_leaf.
  - (* PExpDel *) destruct zs as [|z zs'].
    + unfold finish in E. destruct kt as [r0|ret [|]|]; injection E as <-; mtx_leaf.
    + unfold with_item in E. destruct (nth_error (s_items s) z) as [it|] eqn:Hn; [destruct (i_live it)|]; try (injection E as <-; mtx_leaf).
      injection E as <-. eapply mtx_rel_upd; [eassumption | cbn [r_st]; rewrite set_pc_items; apply delete_item_items | auto].
Qed.
