(* C19_Mtx.v — the item's mutex: a thread inside the `_mtx` section of item i is its owner; hence the
   constructor is never running twice at once for one key. *)
From Coq Require Import ZArith List Bool Arith Lia.
From PV Require Import Base.U64 C19.C19_Model C19.C19_Lib C19.C19_Inv C19.C19_Gen C19.C19_Proofs.
Import ListNotations.
Local Open Scope Z_scope.

(* how one transition of thread t may change the owner field of the items' mutexes *)
Definition mtx_rel (s : state) (t : tid) (s' : state) : Prop :=
  forall j it, nth_error (s_items s) j = Some it ->
    exists it', nth_error (s_items s') j = Some it' /\
      (i_mtx it' = i_mtx it \/ i_mtx it = None \/
       exists th, nth_error (s_thr s) t = Some th /\ t_pc th = PAcqUnlock j).

Lemma mtx_rel_same s t s' : s_items s' = s_items s -> mtx_rel s t s'.
Proof. intros E j it H. exists it. rewrite E. auto. Qed.

Lemma mtx_rel_upd s t s' i x y : nth_error (s_items s) i = Some x -> s_items s' = upd (s_items s) i y ->
  (i_mtx y = i_mtx x \/ i_mtx x = None \/ exists th, nth_error (s_thr s) t = Some th /\ t_pc th = PAcqUnlock i) ->
  mtx_rel s t s'.
Proof.
  intros Hx E C j it H. rewrite E, (nth_upd _ _ _ _ _ Hx). destruct (Nat.eqb_spec i j).
  - subst j. exists y. split; auto. assert (it = x) by congruence. subst. exact C.
  - exists it. auto.
Qed.

Lemma mtx_rel_app_upd s t s' x y : s_items s' = upd (s_items s ++ [x]) (length (s_items s)) y -> mtx_rel s t s'.
Proof.
  intros E j it H. exists it. split; auto. rewrite E.
  assert (j < length (s_items s))%nat by (apply nth_error_Some; congruence).
  rewrite nth_upd_neq by lia. apply nth_app_some; auto.
Qed.

Lemma delete_item_items s t i it : s_items (delete_item s t i it) = upd (s_items s) i (it_dead it).
Proof. apply delete_item_fields. Qed.

Lemma set_pc_items s t th p : s_items (set_pc s t th p) = s_items s.
Proof. reflexivity. Qed.

Ltac mtx_leaf :=
  match goal with
  | |- mtx_rel _ _ _ => first
      [ apply mtx_rel_same; reflexivity
      | eapply mtx_rel_upd; [eassumption | reflexivity | simpl; auto; fail]
      | eapply mtx_rel_upd; [eassumption | reflexivity | simpl; right; right; eexists; split; [eassumption|assumption]] ]
  end.

Lemma step_mtx s t r : step s t = Some r -> mtx_rel s t (r_st r).
Proof.
  intros E. unfold step, get_thr in E.
  destruct (nth_error (s_thr s) t) as [th|] eqn:Ht; [|discriminate].
  destruct (t_pc th) eqn:Hpc.
  - (* PIdle *) destruct (t_prog th) as [|o rest]; [discriminate|]. destruct o.
    + injection E as <-. mtx_leaf.
    + destruct (nth_error (t_h th) h) as [[[?|] [|]]|]; injection E as <-; mtx_leaf.
    + injection E as <-. mtx_leaf.
    + injection E as <-. mtx_leaf.
    + injection E as <-. mtx_leaf.
  - (* PAcqFind *)
    destruct (find_key (s_items s) (s_set s) k) as [i|] eqn:F; cbv beta iota zeta in E; unfold with_item in E; simpl in E.
    + destruct (nth_error (s_items s) i) as [it|] eqn:Hn; [destruct (i_live it)|]; try (injection E as <-; mtx_leaf).
      destruct (i_recycle it); injection E as <-; mtx_leaf.
    + rewrite nth_app_new in E. simpl in E. injection E as <-. eapply mtx_rel_app_upd. reflexivity.
  - (* PAcqParked *) destruct (mem_id t (s_blockq s)); [discriminate|]. injection E as <-. mtx_leaf.
  - (* PAcqLock *) unfold with_item in E. destruct (nth_error (s_items s) i) as [it|] eqn:Hn; [destruct (i_live it)|]; try (injection E as <-; mtx_leaf).
    destruct (i_mtx it) eqn:Em; [destruct n|]; injection E as <-; mtx_leaf.
  - (* PAcqSlow *) unfold with_item in E. destruct (nth_error (s_items s) i) as [it|] eqn:Hn; [destruct (i_live it)|]; try (injection E as <-; mtx_leaf).
    destruct (i_mtx it) eqn:Em; injection E as <-.
    + eapply mtx_rel_upd; [eassumption|reflexivity|simpl; left; congruence].
    + mtx_leaf.
  - (* PAcqSleepM *) unfold with_item in E. destruct (nth_error (s_items s) i) as [it|] eqn:Hn; [destruct (i_live it)|]; try (injection E as <-; mtx_leaf).
    destruct (i_mtx it); [|discriminate]. destruct (Nat.eqb t0 t); [|discriminate]. injection E as <-. mtx_leaf.
  - (* PAcqCheck *) unfold with_item in E. destruct (nth_error (s_items s) i) as [it|] eqn:Hn; [destruct (i_live it)|]; try (injection E as <-; mtx_leaf).
    destruct (i_obj it); [|destruct (i_failure it <=? sat_sub (s_now s) cd)]; injection E as <-; mtx_leaf.
  - (* PAcqCtor *) destruct y.
    + unfold with_item in E. destruct (nth_error (s_items s) i) as [it|] eqn:Hn; [destruct (i_live it)|]; try (injection E as <-; mtx_leaf).
      destruct ok; injection E as <-; mtx_leaf.
    + injection E as <-. mtx_leaf.
  - (* PAcqUnlock *) unfold with_item in E. destruct (nth_error (s_items s) i) as [it|] eqn:Hn; [destruct (i_live it)|]; try (injection E as <-; mtx_leaf).
    destruct (i_mq it); injection E as <-; mtx_leaf.
  - (* PAcqRead *) unfold with_item in E. destruct (nth_error (s_items s) i) as [it|] eqn:Hn; [destruct (i_live it)|]; try (injection E as <-; mtx_leaf).
    destruct (i_obj it); injection E as <-; mtx_leaf.
  - (* PRel1 *) unfold with_item in E. destruct (nth_error (s_items s) i) as [it|] eqn:Hn; [destruct (i_live it)|]; try (injection E as <-; mtx_leaf).
    cbv beta iota zeta in E.
    destruct (i_recycle it) eqn:Ci; [|destruct recycle]; simpl in E;
      destruct (i_ref it - 1 =? 0); rewrite ?Ci in E; simpl in E; try destruct (i_semwait it); injection E as <-; mtx_leaf.
  - (* PRelSem *) unfold with_item in E. destruct (nth_error (s_items s) i) as [it|] eqn:Hn; [destruct (i_live it)|]; try (injection E as <-; mtx_leaf).
    destruct (1 <=? i_sem it); injection E as <-; mtx_leaf.
  - (* PRelSemSleep *) unfold with_item in E. destruct (nth_error (s_items s) i) as [it|] eqn:Hn; [destruct (i_live it)|]; try (injection E as <-; mtx_leaf).
    destruct (i_semwait it); [discriminate|]. injection E as <-. mtx_leaf.
  - (* PRelErase *) unfold with_item in E. destruct (nth_error (s_items s) i) as [it|] eqn:Hn; [destruct (i_live it)|]; injection E as <-; mtx_leaf.
  - (* PRelDelete *) unfold with_item in E. destruct (nth_error (s_items s) i) as [it|] eqn:Hn; [destruct (i_live it)|]; try (injection E as <-; mtx_leaf).
    destruct destroy; injection E as <-.
    + eapply mtx_rel_upd; [eassumption | cbn [r_st]; rewrite set_pc_items; apply delete_item_items | auto].
    + eapply mtx_rel_upd; [eassumption | cbn [r_st]; rewrite set_pc_items, delete_item_items; destruct (i_obj it); reflexivity | auto].
  - (* PRelNotify *) destruct (s_blockq s); injection E as <-; mtx_leaf.
  - (* PExp *) destruct (exp_split (s_items s) (s_now s) (s_numlimit s) (s_list s) (s_set s)) as [[zs l'] set'].
    injection E as <-. mtx_leaf.
  - (* PExpDel *) destruct zs as [|z zs'].
    + unfold finish in E. destruct kt as [r0|ret [|]|]; injection E as <-; mtx_leaf.
    + unfold with_item in E. destruct (nth_error (s_items s) z) as [it|] eqn:Hn; [destruct (i_live it)|]; try (injection E as <-; mtx_leaf).
      injection E as <-. eapply mtx_rel_upd; [eassumption | cbn [r_st]; rewrite set_pc_items; apply delete_item_items | auto].
Qed.

Definition pc_in_mtx (p : pc) (i : iid) : bool :=
  match p with PAcqCheck j _ _ _ | PAcqCtor j _ _ | PAcqUnlock j => Nat.eqb i j | _ => false end.

Definition MInv (s : state) : Prop :=
  forall t th i, nth_error (s_thr s) t = Some th -> pc_in_mtx (t_pc th) i = true ->
    exists it, nth_error (s_items s) i = Some it /\ i_mtx it = Some t.

Ltac self_leaf Ht Hpc :=
  eexists; split;
  [ first [reflexivity | symmetry; apply upd_id; exact Ht]
  | let i0 := fresh "i0" in let Hm := fresh "Hm" in intros i0 Hm; simpl in Hm; try discriminate Hm;
    try (exfalso; rewrite Hpc in Hm; simpl in Hm; discriminate Hm);
    try (left; split; [rewrite Hpc in Hm; exact Hm | right; reflexivity]) ].

Ltac stay Hpc := try (left; split; [simpl; assumption | left; intros ?; discriminate]).

Lemma step_self s t r th : step s t = Some r -> nth_error (s_thr s) t = Some th ->
  exists th', s_thr (r_st r) = upd (s_thr s) t th' /\
    forall i, pc_in_mtx (t_pc th') i = true ->
      (pc_in_mtx (t_pc th) i = true /\ ((forall j, t_pc th <> PAcqUnlock j) \/ s_items (r_st r) = s_items s)) \/
      (exists it', nth_error (s_items (r_st r)) i = Some it' /\ i_mtx it' = Some t).
Proof.
  intros E Ht. unfold step, get_thr in E. rewrite Ht in E.
  destruct (t_pc th) eqn:Hpc.
  - destruct (t_prog th) as [|o rest]; [discriminate|]. destruct o.
    + injection E as <-. self_leaf Ht Hpc.
    + destruct (nth_error (t_h th) h) as [[[?|] [|]]|]; injection E as <-; self_leaf Ht Hpc.
    + injection E as <-. self_leaf Ht Hpc.
    + injection E as <-. self_leaf Ht Hpc.
    + injection E as <-. self_leaf Ht Hpc.
  - destruct (find_key (s_items s) (s_set s) k) as [i|] eqn:F; cbv beta iota zeta in E; unfold with_item in E; simpl in E.
    + destruct (nth_error (s_items s) i) as [it|] eqn:Hn; [destruct (i_live it)|]; try (injection E as <-; self_leaf Ht Hpc).
      destruct (i_recycle it); injection E as <-; self_leaf Ht Hpc.
    + rewrite nth_app_new in E. simpl in E. injection E as <-. self_leaf Ht Hpc.
  - destruct (mem_id t (s_blockq s)); [discriminate|]. injection E as <-. self_leaf Ht Hpc.
  - unfold with_item in E. destruct (nth_error (s_items s) i) as [it|] eqn:Hn; [destruct (i_live it)|]; try (injection E as <-; self_leaf Ht Hpc).
    destruct (i_mtx it) eqn:Em; [destruct n|]; injection E as <-; self_leaf Ht Hpc.
    right. apply Nat.eqb_eq in Hm. subst i0. eexists. split; [simpl; eapply nth_upd_same; eauto | reflexivity].
  - unfold with_item in E. destruct (nth_error (s_items s) i) as [it|] eqn:Hn; [destruct (i_live it)|]; try (injection E as <-; self_leaf Ht Hpc).
    destruct (i_mtx it) eqn:Em; injection E as <-; self_leaf Ht Hpc.
    right. apply Nat.eqb_eq in Hm. subst i0. eexists. split; [simpl; eapply nth_upd_same; eauto | reflexivity].
  - unfold with_item in E. destruct (nth_error (s_items s) i) as [it|] eqn:Hn; [destruct (i_live it)|]; try (injection E as <-; self_leaf Ht Hpc).
    destruct (i_mtx it) eqn:Em; [|discriminate]. destruct (Nat.eqb_spec t0 t); [|discriminate]. injection E as <-. self_leaf Ht Hpc.
    right. apply Nat.eqb_eq in Hm. subst i0. exists it. split; [exact Hn | congruence].
  - unfold with_item in E. destruct (nth_error (s_items s) i) as [it|] eqn:Hn; [destruct (i_live it)|]; try (injection E as <-; self_leaf Ht Hpc; stay Hpc).
    destruct (i_obj it); [|destruct (i_failure it <=? sat_sub (s_now s) cd)]; injection E as <-; self_leaf Ht Hpc; stay Hpc.
  - destruct y.
    + unfold with_item in E. destruct (nth_error (s_items s) i) as [it|] eqn:Hn; [destruct (i_live it)|]; try (injection E as <-; self_leaf Ht Hpc; stay Hpc).
      destruct ok; injection E as <-; self_leaf Ht Hpc; stay Hpc.
    + injection E as <-. self_leaf Ht Hpc. stay Hpc.
  - unfold with_item in E. destruct (nth_error (s_items s) i) as [it|] eqn:Hn; [destruct (i_live it)|]; try (injection E as <-; self_leaf Ht Hpc).
    destruct (i_mq it); injection E as <-; self_leaf Ht Hpc.
  - unfold with_item in E. destruct (nth_error (s_items s) i) as [it|] eqn:Hn; [destruct (i_live it)|]; try (injection E as <-; self_leaf Ht Hpc).
    destruct (i_obj it); injection E as <-; self_leaf Ht Hpc.
  - unfold with_item in E. destruct (nth_error (s_items s) i) as [it|] eqn:Hn; [destruct (i_live it)|]; try (injection E as <-; self_leaf Ht Hpc).
    cbv beta iota zeta in E.
    destruct (i_recycle it) eqn:Ci; [|destruct recycle]; simpl in E;
      destruct (i_ref it - 1 =? 0); rewrite ?Ci in E; simpl in E; try destruct (i_semwait it); injection E as <-; self_leaf Ht Hpc.
  - unfold with_item in E. destruct (nth_error (s_items s) i) as [it|] eqn:Hn; [destruct (i_live it)|]; try (injection E as <-; self_leaf Ht Hpc).
    destruct (1 <=? i_sem it); injection E as <-; self_leaf Ht Hpc.
  - unfold with_item in E. destruct (nth_error (s_items s) i) as [it|] eqn:Hn; [destruct (i_live it)|]; try (injection E as <-; self_leaf Ht Hpc).
    destruct (i_semwait it); [discriminate|]. injection E as <-. self_leaf Ht Hpc.
  - unfold with_item in E. destruct (nth_error (s_items s) i) as [it|] eqn:Hn; [destruct (i_live it)|]; injection E as <-; self_leaf Ht Hpc.
  - unfold with_item in E. destruct (nth_error (s_items s) i) as [it|] eqn:Hn; [destruct (i_live it)|]; try (injection E as <-; self_leaf Ht Hpc).
    destruct destroy; injection E as <-.
    + eexists. split. { cbn [r_st]. unfold set_pc, set_thr. cbn [s_thr]. rewrite (proj1 (proj2 (proj2 (proj2 (delete_item_fields s t i it))))). reflexivity. }
      intros i0 Hm; simpl in Hm; discriminate Hm.
    + destruct (i_obj it) eqn:Eo;
        (eexists; split; [cbn [r_st]; unfold set_pc, set_thr; cbn [s_thr];
                          rewrite (proj1 (proj2 (proj2 (proj2 (delete_item_fields _ t i (it_obj it None)))))); reflexivity
                         | intros i0 Hm; simpl in Hm; discriminate Hm]).
  - destruct (s_blockq s); injection E as <-; self_leaf Ht Hpc.
  - destruct (exp_split (s_items s) (s_now s) (s_numlimit s) (s_list s) (s_set s)) as [[zs l'] set'].
    injection E as <-. self_leaf Ht Hpc.
  - destruct zs as [|z zs'].
    + unfold finish in E. destruct kt as [r0|ret [|]|]; injection E as <-; self_leaf Ht Hpc.
    + unfold with_item in E. destruct (nth_error (s_items s) z) as [it|] eqn:Hn; [destruct (i_live it)|]; try (injection E as <-; self_leaf Ht Hpc).
      injection E as <-. eexists. split. { cbn [r_st]. unfold set_pc, set_thr. cbn [s_thr]. rewrite (proj1 (proj2 (proj2 (proj2 (delete_item_fields s t z it))))). reflexivity. }
      intros i0 Hm; simpl in Hm; discriminate Hm.
Qed.

Lemma minv_step s t r : MInv s -> step s t = Some r -> MInv (r_st r).
Proof.
  intros M E. pose proof (step_mtx s t r E) as MR.
  destruct (nth_error (s_thr s) t) as [th|] eqn:Ht.
  2:{ unfold step, get_thr in E. rewrite Ht in E. discriminate. }
  destruct (step_self s t r th E Ht) as [th' [Hthr Hself]].
  intros t' x i Hn Hp. rewrite Hthr, (nth_upd _ _ _ _ _ Ht) in Hn. destruct (Nat.eqb_spec t t').
  - subst t'. inversion Hn; subst x. destruct (Hself i Hp) as [[Hp0 Hc]|Hr]; auto.
    destruct (M t th i Ht Hp0) as [it [Hi Hm]]. destruct (MR i it Hi) as [it' [Hi' [Hs|[Hs|[th0 [Ht0 Hu]]]]]].
    + exists it'. split; auto. congruence.
    + congruence.
    + destruct Hc as [Hc|Hc].
      * exfalso. assert (th0 = th) by congruence. subst. eapply Hc; eauto.
      * exists it. rewrite Hc. auto.
  - destruct (M t' x i Hn Hp) as [it [Hi Hm]]. destruct (MR i it Hi) as [it' [Hi' [Hs|[Hs|[th0 [Ht0 Hu]]]]]].
    + exists it'. split; auto. congruence.
    + congruence.
    + exfalso. destruct (M t th0 i Ht0) as [it2 [Hi2 Hm2]]. { rewrite Hu. simpl. apply Nat.eqb_refl. }
      congruence.
Qed.

Lemma minv_init now life lim progs : MInv (init_state now life lim progs).
Proof.
  intros t th i Hn Hp. simpl in Hn. apply nth_error_In in Hn. apply in_map_iff in Hn. destruct Hn as [p [<- _]]. discriminate.
Qed.

Lemma reachable_minv now life lim progs s : reachable (init_state now life lim progs) s -> MInv s.
Proof. induction 1. - apply minv_init. - eapply minv_step; eauto. Qed.

(* the constructor (and the whole `_mtx` section :109-115) of one key is executed by at most one thread at a time *)
Lemma ctor_exclusive now life lim progs s t1 t2 th1 th2 i1 i2 it1 it2 :
  reachable (init_state now life lim progs) s ->
  nth_error (s_thr s) t1 = Some th1 -> nth_error (s_thr s) t2 = Some th2 ->
  pc_in_mtx (t_pc th1) i1 = true -> pc_in_mtx (t_pc th2) i2 = true ->
  nth_error (s_items s) i1 = Some it1 -> nth_error (s_items s) i2 = Some it2 -> i_key it1 = i_key it2 -> t1 = t2.
Proof.
  intros R H1 H2 P1 P2 N1 N2 K.
  assert (i1 = i2).
  { eapply (one_object_per_key now life lim progs s t1 t2 i1 i2 it1 it2 R); eauto.
    - exists th1. split; auto. unfold holds. destruct (t_pc th1); simpl in P1; try discriminate; simpl; rewrite P1; lia.
    - exists th2. split; auto. unfold holds. destruct (t_pc th2); simpl in P2; try discriminate; simpl; rewrite P2; lia. }
  subst i2. pose proof (reachable_minv _ _ _ _ _ R) as M.
  destruct (M t1 th1 i1 H1 P1) as [x [Hx Mx]]. destruct (M t2 th2 i1 H2 P2) as [y [Hy My]]. congruence.
Qed.

Example ex_in_ctor : exists th, nth_error (s_thr (ex_state 6)) 0%nat = Some th /\ pc_in_mtx (t_pc th) 0%nat = true.
Proof. vm_compute. eexists. split; reflexivity. Qed.
