(* C12_RtC.v — CheckedMessage against the flat string (towards ser_roundtrip for checked shapes):
   the running checksum kept in m_checksum while Crc32Hasher::extend_hash walks an iovec list is
   the fold of the hash step over the FLAT byte string — whatever the fragmentation — provided no
   element overlaps the checksum word; validate_checksum compares the stored word against
   fold(fold(0, fields wire), body with the running value in its checksum field).
   The hash step is uninterpreted (Section variable) with the only assumption that it maps
   32-bit values and bytes to 32-bit values. *)
From Coq Require Import ZArith List Bool Lia.
From PV Require Import Base.U64 C12.C12_Model C12.C12_Mem C12.C12_MemC C12.C12_Iov C12.C12_Flat C12.C12_Deser C12.C12_Sep.
Import ListNotations.
Local Open Scope Z_scope.

Definition W32 : Z := 4294967296.

Lemma load_join m a n k x y : Forall (fun L => L <= STRIDE) (lens m) -> validb (lens m) a n = true -> 0 <= a -> 0 <= k <= n ->
  load m a k = Ok x -> load m (a + k) (n - k) = Ok y -> load m a n = Ok (x ++ y).
Proof.
  intros Hwf Hv Ha Hk Lx Ly. destruct (load_valid _ _ _ Hv) as [bs Lb].
  rewrite (load_prefix m a n bs k Lb Hk) in Lx. rewrite (load_suffix m a n bs k Hwf Lb Hk Ha) in Ly.
  inversion Lx. inversion Ly. rewrite Lb, firstn_skipn. reflexivity.
Qed.

Section HC.
  Variable hstep : Z -> byte -> Z.
  Hypothesis hstep_range : forall h b, 0 <= h < W32 -> 0 <= b < 256 -> 0 <= hstep h b < W32.

  Lemma hash_ext_range : forall bs h, bytes_ok bs -> 0 <= h < W32 -> 0 <= hash_ext hstep h bs < W32.
  Proof.
    induction bs as [|b r IH]; intros h Hb Hh; [exact Hh|]. inversion Hb; subst. unfold hash_ext. cbn [fold_left].
    apply IH; [assumption|]. apply hstep_range; assumption.
  Qed.

  Lemma hash_ext_app h a b : hash_ext hstep h (a ++ b) = hash_ext hstep (hash_ext hstep h a) b.
  Proof. unfold hash_ext. apply fold_left_app. Qed.

  Lemma le_dec_enc4 v : 0 <= v < W32 -> le_dec (le_enc 4 v) = v.
  Proof. intros H. apply le_dec_enc. exact H. Qed.

  (* the accumulator in memory after hashing an iovec list = fold over the flat string *)
  Lemma hash_iov_flat x : forall el m w h0, mem_bytes m -> (forall e, In e el -> sep e (x, 4)) ->
    load m x 4 = Ok (le_enc 4 h0) -> 0 <= h0 < W32 -> flat m el = Ok w ->
    exists m', hash_iov hstep m x el = Ok m' /\ load m' x 4 = Ok (le_enc 4 (hash_ext hstep h0 w)) /\
               0 <= hash_ext hstep h0 w < W32 /\ lens m' = lens m /\ mem_bytes m' /\
               (forall a k, sep (a, k) (x, 4) -> load m' a k = load m a k).
  Proof.
    induction el as [|[b l] r IH]; intros m w h0 Hbm Hs Lx Hh Hf.
    - cbn in Hf. inversion Hf. subst w. exists m. cbn [hash_iov hash_ext fold_left]. auto 10.
    - cbn [flat] in Hf. destruct (load m b l) as [d|] eqn:Ld; cbn [bind] in Hf; [|discriminate].
      destruct (flat m r) as [wr|] eqn:Fr; cbn [bind] in Hf; [|discriminate]. inversion Hf. subst w. clear Hf.
      cbn [hash_iov]. unfold load32 at 1. rewrite Lx. cbn [bind]. rewrite (le_dec_enc4 _ Hh), Ld. cbn [bind].
      pose proof (load_bytes_ok _ _ _ _ Hbm Ld) as Hd.
      pose proof (hash_ext_range d h0 Hd Hh) as Hh1. set (h1 := hash_ext hstep h0 d) in *.
      destruct (store_valid m x (le_enc 4 h1)) as [m1 [Hst Hl1]].
      { rewrite le_enc_len. apply (load_valid_inv _ _ _ _ Lx). }
      unfold store32. rewrite Hst. cbn [bind].
      assert (Hlen4 : len (le_enc 4 h1) = 4) by (rewrite le_enc_len; reflexivity).
      destruct (IH m1 wr h1) as [m' [A [B [C [D [E F]]]]]].
      + apply (store_bytes_ok m x (le_enc 4 h1) m1 Hbm (le_enc_bytes_ok 4 h1) Hst).
      + intros e He. apply Hs. right. exact He.
      + rewrite <- Hlen4 at 1. apply (load_store_same _ _ _ _ Hst). lia.
      + exact Hh1.
      + rewrite (flat_store_sep _ _ _ _ _ Hst); [exact Fr|]. rewrite Hlen4. intros e He. apply Hs. right. exact He.
      + exists m'. split; [exact A|]. rewrite hash_ext_app. fold h1. split; [exact B|]. split; [exact C|].
        split; [congruence|]. split; [exact E|].
        intros a k Hak. rewrite (F a k Hak). apply (load_store_sep _ _ _ _ _ _ Hst). rewrite Hlen4. exact Hak.
  Qed.

  (* the checksum does not depend on the fragmentation *)
  Corollary hash_iov_fragmentation_independent x1 x2 el1 el2 m1 m2 w h0 m1' m2' :
    mem_bytes m1 -> mem_bytes m2 -> (forall e, In e el1 -> sep e (x1, 4)) -> (forall e, In e el2 -> sep e (x2, 4)) ->
    load m1 x1 4 = Ok (le_enc 4 h0) -> load m2 x2 4 = Ok (le_enc 4 h0) -> 0 <= h0 < W32 ->
    flat m1 el1 = Ok w -> flat m2 el2 = Ok w ->
    hash_iov hstep m1 x1 el1 = Ok m1' -> hash_iov hstep m2 x2 el2 = Ok m2' ->
    load m1' x1 4 = load m2' x2 4 /\ load32 m1' x1 = Ok (hash_ext hstep h0 w).
  Proof.
    intros B1 B2 S1 S2 L1 L2 Hh F1 F2 H1 H2.
    destruct (hash_iov_flat x1 el1 m1 w h0 B1 S1 L1 Hh F1) as [n1 [A1 [C1 [R1 _]]]].
    destruct (hash_iov_flat x2 el2 m2 w h0 B2 S2 L2 Hh F2) as [n2 [A2 [C2 _]]].
    rewrite A1 in H1. rewrite A2 in H2. inversion H1. inversion H2. subst. rewrite C1, C2. split; [reflexivity|].
    unfold load32. rewrite C1. cbn [bind]. rewrite le_dec_enc4; auto.
  Qed.

  (* validate_checksum on any fragmentation of the field bytes *)
  Lemma validate_flat m v t size wf body : inv m v -> 4 <= size -> validb (lens m) t size = true -> 0 <= t ->
    (forall e, In e (i_el v) -> sep e (t, 4)) -> flat m (i_el v) = Ok wf -> load m t size = Ok body ->
    let h1 := hash_ext hstep 0 wf in
    let H := hash_ext hstep h1 (le_enc 4 h1 ++ skipn 4 body) in
    exists m3, validate_checksum hstep m v t size = Ok (le_dec (firstn 4 body) =? H, m3) /\
      lens m3 = lens m /\ inv m3 v /\ flat m3 (i_el v) = Ok wf /\
      load m3 t size = Ok (le_enc 4 H ++ skipn 4 body) /\
      (forall a k, sep (a, k) (t, 4) -> load m3 a k = load m a k).
  Proof.
    intros Hinv Hsz Hv Ht Hs Hf Lb h1 H. pose proof (inv_wf _ _ Hinv) as Hwf. pose proof (inv_bytes _ _ Hinv) as Hbm.
    assert (Hv4 : validb (lens m) t 4 = true) by (apply (validb_sub' _ t size); auto; lia).
    pose proof (load_prefix m t size body 4 Lb ltac:(lia)) as L4. change (Z.to_nat 4) with 4%nat in L4.
    pose proof (load_suffix m t size body 4 Hwf Lb ltac:(lia) Ht) as Lr. change (Z.to_nat 4) with 4%nat in Lr.
    unfold validate_checksum. unfold load32 at 1. rewrite L4. cbn [bind].
    destruct (store32_ok m v t 0 Hinv Hv4) as [m1 [Hs1 [Hi1 Hl1]]]. rewrite Hs1. cbn [bind].
    assert (Hz : 0 <= 0 < W32) by (unfold W32; lia).
    assert (L1 : load m1 t 4 = Ok (le_enc 4 0)).
    { unfold store32 in Hs1. pose proof (load_store_same _ _ _ _ Hs1) as Q. rewrite le_enc_len in Q. apply Q. change (Z.of_nat 4) with 4. lia. }
    assert (F1 : flat m1 (i_el v) = Ok wf).
    { unfold store32 in Hs1. rewrite (flat_store_sep _ _ _ _ _ Hs1); [exact Hf|]. rewrite le_enc_len. exact Hs. }
    destruct (hash_iov_flat t (i_el v) m1 wf 0 (inv_bytes _ _ Hi1) Hs L1 Hz F1) as [m2 [A [B [C [D [E F]]]]]].
    rewrite A. cbn [bind]. fold h1 in B, C. unfold load32. rewrite B. cbn [bind]. rewrite (le_dec_enc4 _ C).
    assert (Lr2 : load m2 (t + 4) (size - 4) = Ok (skipn 4 body)).
    { rewrite F by (unfold sep; cbn [fst snd]; lia). unfold store32 in Hs1.
      rewrite (load_store_sep _ _ _ _ _ _ Hs1); [exact Lr|]. rewrite le_enc_len. unfold sep. cbn [fst snd]. change (Z.of_nat 4) with 4. lia. }
    assert (Wf2 : Forall (fun L => L <= STRIDE) (lens m2)) by (rewrite D, Hl1; exact Hwf).
    assert (V2 : validb (lens m2) t size = true) by (rewrite D, Hl1; exact Hv).
    rewrite (load_join m2 t size 4 _ _ Wf2 V2 Ht ltac:(lia) B Lr2). cbn [bind]. fold H.
    assert (HH : 0 <= H < W32).
    { apply hash_ext_range; [|exact C]. apply bytes_ok_app; [apply le_enc_bytes_ok|].
      apply bytes_ok_skipn. apply (load_bytes_ok m t size body Hbm Lb). }
    assert (Hi2 : inv m2 v).
    { destruct Hi1 as [_ [W [El [Su [Nb [Ro Cn]]]]]]. unfold inv. rewrite D. split; [exact E|]. split; [exact W|]. split; [exact El|].
      split; [exact Su|]. split; [exact Nb|]. split; [|exact Cn]. assert (len m2 = len m1) by (rewrite <- !len_lens, D; reflexivity). lia. }
    destruct (store32_ok m2 v t H Hi2 ltac:(rewrite D, Hl1; exact Hv4)) as [m3 [Hs3 [Hi3 Hl3]]]. rewrite Hs3. cbn [bind].
    exists m3. split; [reflexivity|]. split; [congruence|]. split; [exact Hi3|].
    assert (Hl4 : len (le_enc 4 H) = 4) by (rewrite le_enc_len; reflexivity).
    unfold store32 in Hs3, Hs1.
    split.
    { rewrite (flat_store_sep _ _ _ _ _ Hs3); [|rewrite Hl4; exact Hs].
      assert (Q : forall el, (forall e, In e el -> sep e (t, 4)) -> flat m2 el = flat m1 el).
      { induction el as [|[b l] r IHr]; intros Hse; [reflexivity|]. cbn [flat]. rewrite (F b l) by (apply (Hse (b, l)); left; reflexivity).
        rewrite IHr; [reflexivity|]. intros e He. apply Hse. right. exact He. }
      rewrite (Q _ Hs). exact F1. }
    split.
    { apply (load_join m3 t size 4); [rewrite Hl3; exact Wf2|rewrite Hl3; exact V2|exact Ht|lia| |].
      - rewrite <- Hl4 at 1. apply (load_store_same _ _ _ _ Hs3). lia.
      - rewrite (load_store_sep _ _ _ _ _ _ Hs3); [exact Lr2|]. rewrite Hl4. unfold sep. cbn [fst snd]. lia. }
    intros a k Hak. rewrite (load_store_sep _ _ _ _ _ _ Hs3) by (rewrite Hl4; exact Hak). rewrite (F a k Hak).
    apply (load_store_sep _ _ _ _ _ _ Hs1). rewrite le_enc_len. exact Hak.
  Qed.
End HC.
