(* C12_View.v — iovector::extract_front(bytes, OUT view) against the flat byte string:
   the recording extraction vef_view never reports "view full" when the view has as many entries as
   the vector has elements; the recorded pieces denote the first n bytes, lie inside input elements,
   are pairwise separated and separated from what remains; store_iovecs followed by rd_iovecs on the
   fresh slot reads back exactly the recorded pieces and their bytes. *)
From Coq Require Import ZArith List Bool Lia.
From PV Require Import Base.U64 C12.C12_Model C12.C12_Mem C12.C12_MemC C12.C12_Iov C12.C12_Flat C12.C12_Deser C12.C12_Sep C12.C12_Wire C12.C12_RtD C12.C12_Hx.
Import ListNotations.
Local Open Scope Z_scope.

Lemma vef_view_ret ls : forall el bytes room, Forall (el_ok ls) el -> 0 < bytes -> len el <= room ->
  forall ret out el', vef_view el bytes room = (ret, out, el') -> ret = Z.min bytes (sum_el el).
Proof.
  induction el as [|[b l] rest IH]; intros bytes room Hel Hb Hroom ret out el' H.
  - cbn in H. inversion H. rewrite sum_el_nil. lia.
  - inversion Hel as [|? ? He Hrest]; subst. destruct He as [Hl _]. cbn [snd] in Hl.
    pose proof (sum_el_nonneg _ _ Hrest) as Hsr. rewrite len_cons in Hroom. pose proof (len_nonneg rest) as Hlr.
    rewrite sum_el_cons. cbn [snd]. cbn [vef_view] in H.
    destruct (room <=? 0) eqn:Er; [apply Z.leb_le in Er; lia|].
    destruct (bytes <=? l) eqn:Eb.
    + apply Z.leb_le in Eb. inversion H. lia.
    + apply Z.leb_gt in Eb. destruct (vef_view rest (bytes - l) (room - 1)) as [[r o] e'] eqn:Erec.
      pose proof (IH (bytes - l) (room - 1) Hrest ltac:(lia) ltac:(lia) _ _ _ Erec) as Hr.
      inversion H. destruct (r <? 0) eqn:E0; [apply Z.ltb_lt in E0; lia|]. lia.
Qed.

(* when the input suffices, the recording extraction leaves what the copying one leaves, and records
   pieces that denote the copied bytes *)
Lemma vef_view_copy m : Forall (fun L => L <= STRIDE) (lens m) ->
  forall el bytes room, Forall (el_ok (lens m)) el -> psep el -> 0 < bytes <= sum_el el -> len el <= room ->
  forall ret out el', vef_view el bytes room = (ret, out, el') ->
  exists d, vef_copy m el bytes = Ok (d, el') /\ flat m out = Ok d /\
    Forall (el_ok (lens m)) out /\ psep out /\ prov out el /\ 0 < len out <= len el /\
    (forall o e, In o out -> In e el' -> sep o e).
Proof.
  intros Hwf. induction el as [|[b l] rest IH]; intros bytes room Hel Hp Hb Hroom ret out el' H.
  - rewrite sum_el_nil in Hb. lia.
  - inversion Hel as [|? ? He Hrest]; subst. pose proof He as [Hl [Hv [Hb0 Hbw]]]. cbn [fst snd] in *.
    destruct Hp as [Hp1 Hp2].
    pose proof (sum_el_nonneg _ _ Hrest) as Hsr. rewrite len_cons in Hroom. pose proof (len_nonneg rest) as Hlr.
    rewrite sum_el_cons in Hb. cbn [snd] in Hb. cbn [vef_view] in H. cbn [vef_copy].
    destruct (room <=? 0) eqn:Er; [apply Z.leb_le in Er; lia|].
    destruct (bytes <=? l) eqn:Eb.
    + apply Z.leb_le in Eb. injection H as _ Ho He'. subst out el'.
      assert (Hvn : validb (lens m) b bytes = true) by (apply (validb_sub' _ b l); auto; lia).
      destruct (load_valid _ _ _ Hvn) as [d Hd]. rewrite Hd. cbn [bind]. exists d. split; [reflexivity|].
      split; [cbn [flat]; rewrite Hd; cbn [bind]; rewrite app_nil_r; reflexivity|].
      split; [constructor; [|constructor]; split; cbn [fst snd]; [lia|split; [exact Hvn|lia]]|].
      split; [split; [intros y []|exact I]|].
      split; [intros e [<-|[]]; exists (b, l); split; [left; reflexivity|unfold within; cbn [fst snd]; lia]|].
      split; [rewrite (len_cons (b, bytes) []), (len_cons (b, l) rest); change (len (@nil (Z * Z))) with 0; lia|].
      intros o e [<-|[]] He'. destruct (l - bytes =? 0) eqn:E0.
      * apply (within_sep _ (b, l)); [unfold within; cbn [fst snd]; lia|auto].
      * apply Z.eqb_neq in E0. destruct He' as [<-|He'].
        { rewrite wrap_small by lia. unfold sep. cbn [fst snd]. lia. }
        apply (within_sep _ (b, l)); [unfold within; cbn [fst snd]; lia|auto].
    + apply Z.leb_gt in Eb. destruct (vef_view rest (bytes - l) (room - 1)) as [[r o] e'] eqn:Erec.
      injection H as _ Ho He'. subst out el'.
      destruct (IH (bytes - l) (room - 1) Hrest Hp2 ltac:(lia) ltac:(lia) _ _ _ Erec) as [d' [Hc [Hfo [Helo [Hpo [Hpv [Hlen Hsep]]]]]]].
      destruct (load_valid _ _ _ Hv) as [d Hd]. rewrite Hd. cbn [bind]. rewrite Hc. cbn [bind].
      exists (d ++ d'). split; [reflexivity|].
      split; [cbn [flat]; rewrite Hd; cbn [bind]; rewrite Hfo; reflexivity|].
      split; [constructor; [exact He|exact Helo]|].
      split.
      { split; [|exact Hpo]. intros y Hy. destruct (Hpv y Hy) as [e0 [H0 W0]]. apply sep_sym. eapply within_sep; [exact W0|]. apply sep_sym. auto. }
      split.
      { intros e [<-|He0]; [exists (b, l); split; [left; reflexivity|apply within_refl]|].
        destruct (Hpv e He0) as [e0 [H0 W0]]. exists e0. split; [right; exact H0|exact W0]. }
      split; [rewrite !len_cons; lia|].
      destruct (vef_copy_sub m rest (bytes - l) d' e' Hrest ltac:(lia) Hc Hp2) as [_ Hpe].
      intros x e [<-|Hx] He0; [|apply Hsep; auto].
      destruct (Hpe e He0) as [e0 [H0 W0]]. apply sep_sym. eapply within_sep; [exact W0|]. apply sep_sym. auto.
Qed.

(* ---- store_iovecs, then reading the iovec array back ---- *)
Lemma store_two m a x y m1 : Forall (fun L => L <= STRIDE) (lens m) -> 0 <= a -> 0 < len x -> 0 < len y ->
  store m a (x ++ y) = Ok m1 -> load m1 a (len x) = Ok x /\ load m1 (a + len x) (len y) = Ok y.
Proof.
  intros Hwf Ha Hx Hy Hs.
  pose proof (load_store_same _ _ _ _ Hs ltac:(rewrite len_app; lia)) as L. rewrite len_app in L.
  assert (Hwf1 : Forall (fun L => L <= STRIDE) (lens m1)) by (rewrite (store_lens _ _ _ _ Hs); exact Hwf).
  split.
  - rewrite (load_prefix m1 a (len x + len y) (x ++ y) (len x) L ltac:(lia)). f_equal.
    rewrite firstn_app. replace (Z.to_nat (len x) - length x)%nat with 0%nat by (unfold len; lia).
    cbn [firstn]. rewrite app_nil_r. apply firstn_all2. unfold len. lia.
  - pose proof (load_suffix m1 a (len x + len y) (x ++ y) (len x) Hwf1 L ltac:(lia) Ha) as S.
    replace (len x + len y - len x) with (len y) in S by lia. rewrite S. f_equal.
    rewrite skipn_app. replace (Z.to_nat (len x) - length x)%nat with 0%nat by (unfold len; lia).
    cbn [skipn]. rewrite skipn_all2 by (unfold len; lia). reflexivity.
Qed.

Lemma sep_split x k a n1 n2 : 0 <= n1 -> 0 <= n2 -> sep (x, k) (a, n1 + n2) -> sep (x, k) (a, n1) /\ sep (x, k) (a + n1, n2).
Proof. unfold sep. cbn [fst snd]. intros. lia. Qed.

Lemma store_iovecs_rd : forall out m a m', Forall (fun L => L <= STRIDE) (lens m) -> 0 <= a ->
  store_iovecs m a out = Ok m' -> Forall (el_ok (lens m)) out ->
  (forall o, In o out -> sep o (a, 16 * len out)) ->
  lens m' = lens m /\
  (forall x k, sep (x, k) (a, 16 * len out) -> load m' x k = load m x k) /\
  exists bs, flat m out = Ok bs /\ rd_iovecs m' a (length out) = Ok (bs, out).
Proof.
  induction out as [|[b n] r IH]; intros m a m' Hwf Ha Hs Hel Hsep.
  - cbn in Hs. inversion Hs. subst m'. split; [reflexivity|]. split; [auto|]. exists []. split; reflexivity.
  - cbn [store_iovecs] in Hs. destruct (store m a (le_enc 8 b ++ le_enc 8 n)) as [m1|] eqn:Hs1; cbn [bind] in Hs; [|discriminate].
    inversion Hel as [|? ? He Hr]; subst. destruct He as [Hn [Hv [Hb0 Hbw]]]. cbn [fst snd] in *.
    pose proof (store_lens _ _ _ _ Hs1) as Hl1. pose proof (len_nonneg r) as Hlr.
    assert (H16 : len (le_enc 8 b ++ le_enc 8 n) = 16) by (rewrite len_app, !le_enc_len; reflexivity).
    rewrite len_cons in *.
    destruct (IH m1 (a + 16) m') as [Hl' [Fr' [bs [Hfb Hrd]]]]; [rewrite Hl1; exact Hwf|lia|exact Hs|rewrite Hl1; exact Hr| |].
    { intros o Ho. specialize (Hsep o (or_intror Ho)). destruct o as [ob on]. replace (16 * (1 + len r)) with (16 + 16 * len r) in Hsep by lia.
      apply (sep_split ob on a 16 (16 * len r)); [lia|lia|exact Hsep]. }
    split; [congruence|]. split.
    { intros x k Hxk. replace (16 * (1 + len r)) with (16 + 16 * len r) in Hxk by lia.
      destruct (sep_split x k a 16 (16 * len r) ltac:(lia) ltac:(lia) Hxk) as [S1 S2].
      rewrite (Fr' x k S2). apply (load_store_sep _ _ _ _ _ _ Hs1). rewrite H16. exact S1. }
    destruct (store_two m a (le_enc 8 b) (le_enc 8 n) m1 Hwf Ha) as [L1 L2]; [rewrite le_enc_len; reflexivity|rewrite le_enc_len; reflexivity|exact Hs1|].
    rewrite (le_enc_len 8 b) in L1. rewrite (le_enc_len 8 b), (le_enc_len 8 n) in L2. change (Z.of_nat 8) with 8 in L1, L2.
    assert (Sb : sep (b, n) (a, 16 + 16 * len r)).
    { specialize (Hsep (b, n) (or_introl eq_refl)). replace (16 * (1 + len r)) with (16 + 16 * len r) in Hsep by lia. exact Hsep. }
    destruct (sep_split b n a 16 (16 * len r) ltac:(lia) ltac:(lia) Sb) as [Sb1 Sb2].
    destruct (load_valid _ _ _ Hv) as [d Hd].
    assert (Hd' : load m' b n = Ok d).
    { rewrite (Fr' b n Sb2). rewrite (load_store_sep _ _ _ _ _ _ Hs1); [exact Hd|]. rewrite H16. exact Sb1. }
    assert (Hfr : flat m1 r = flat m r).
    { apply (flat_store_sep _ _ _ _ _ Hs1). intros e He. rewrite H16. specialize (Hsep e (or_intror He)).
      destruct e as [eb en]. replace (16 * (1 + len r)) with (16 + 16 * len r) in Hsep by lia.
      apply (sep_split eb en a 16 (16 * len r)); [lia|lia|exact Hsep]. }
    exists (d ++ bs). split; [cbn [flat]; rewrite Hd; cbn [bind]; rewrite <- Hfr, Hfb; reflexivity|].
    cbn [length rd_iovecs]. unfold load64.
    rewrite (Fr' a 8) by (unfold sep; cbn [fst snd]; lia). rewrite L1. cbn [bind].
    rewrite (Fr' (a + 8) 8) by (unfold sep; cbn [fst snd]; lia). rewrite L2. cbn [bind].
    rewrite !le_dec_enc by (change (256 ^ Z.of_nat 8) with W64; unfold W64 in *; lia).
    rewrite Hd'. cbn [bind]. rewrite Hrd. reflexivity.
Qed.

(* ---- extract_front(bytes, OUT view) as a whole ---- *)
Definition vpost (m : mem) (v : iovs) (n : Z) (w : list byte) (ptr cnt : Z) (m' : mem) (v' : iovs) : Prop :=
  exists out, cnt = len out /\ 0 < cnt /\ lens m' = lens m ++ [16 * len (i_el v)] /\ inv m' v' /\
    i_cap v' = i_cap v /\ i_nb v' = i_nb v + 1 /\
    (forall a k, validb (lens m) a k = true -> load m' a k = load m a k) /\
    Forall (el_ok (lens m)) out /\ psep out /\ prov out (i_el v) /\
    psep (i_el v') /\ prov (i_el v') (i_el v) /\ (forall o e, In o out -> In e (i_el v') -> sep o e) /\
    rd_iovecs m' ptr (length out) = Ok (firstn (Z.to_nat n) w, out) /\
    flat m' (i_el v') = Ok (skipn (Z.to_nat n) w) /\ len out <= len (i_el v) /\ i_nb v < i_cap v.

Lemma efv_spec m v n w : inv m v -> 0 < n -> psep (i_el v) -> flat m (i_el v) = Ok w ->
  exists ret ptr cnt m' v', extract_front_view m v n = Ok (ret, ptr, cnt, m', v') /\
    inv m' v' /\ ext (lens m) (lens m') /\
    ((ret = -1 /\ cnt = 0 /\ ptr = 0 /\ m' = m /\ v' = v /\ i_cap v <= i_nb v) \/
     (ret = Z.min n (len w) /\ ptr = region_base (len m) /\ (n <= len w -> vpost m v n w ptr cnt m' v'))).
Proof.
  intros Hinv Hn Hp Hf. pose proof Hinv as [Hbm [Hwf [Hel [Hsum [Hnb [Hroom Hcnt]]]]]].
  pose proof (flat_len _ _ _ Hel Hf) as Hlw.
  destruct (extract_front_view_ok m v n Hinv ltac:(lia)) as [ret [ptr [cnt [m' [v' [He [Hi' [Hx' _]]]]]]]].
  exists ret, ptr, cnt, m', v'. split; [exact He|]. split; [exact Hi'|]. split; [exact Hx'|].
  revert He. unfold extract_front_view. destruct (n =? 0) eqn:E0; [apply Z.eqb_eq in E0; lia|].
  pose proof (len_nonneg (i_el v)) as Hc0. unfold do_malloc.
  destruct (INT_MAX <? len (i_el v) * 16) eqn:EH; [apply Z.ltb_lt in EH; unfold INT_MAX in *; lia|].
  destruct (i_cap v <=? i_nb v) eqn:EC.
  { apply Z.leb_le in EC. cbn [bind]. rewrite Z.eqb_refl. intros H. inversion H. subst. left. repeat split; auto. }
  apply Z.leb_gt in EC. cbn [bind].
  pose proof (len_nonneg m) as Hlm.
  destruct (region_base_bound (len m) ltac:(lia)) as [B1 B2].
  destruct (region_base (len m) =? 0) eqn:Ez; [apply Z.eqb_eq in Ez; lia|].
  cbn [i_el]. set (sz := len (i_el v) * 16). set (m1 := m ++ [zeros sz]).
  assert (Hsz : 0 <= sz) by (unfold sz; lia).
  assert (Hlens1 : lens m1 = lens m ++ [sz]) by (unfold m1; rewrite lens_app; cbn; rewrite len_zeros by lia; reflexivity).
  assert (Hext1 : ext (lens m) (lens m1)) by (exists [sz]; exact Hlens1).
  assert (Hwf1 : Forall (fun L => L <= STRIDE) (lens m1)).
  { rewrite Hlens1. apply Forall_app. split; [exact Hwf|]. constructor; [unfold sz, STRIDE in *; lia|constructor]. }
  destruct (vef_view (i_el v) n (len (i_el v))) as [[r out] el'] eqn:Ev.
  destruct (store_iovecs m1 (region_base (len m)) out) as [m2|] eqn:Hst; cbn [bind]; [|discriminate].
  intros H. injection H as <- <- <- <- <-. right.
  split; [rewrite (vef_view_ret (lens m) (i_el v) n (len (i_el v)) Hel Hn (Z.le_refl _) _ _ _ Ev); lia|]. split; [reflexivity|].
  intros Hle.
  destruct (vef_view_copy m Hwf (i_el v) n (len (i_el v)) Hel Hp ltac:(lia) ltac:(lia) _ _ _ Ev)
    as [d [Hc [Hfo [Helo [Hpo [Hpv [Hlen Hsep]]]]]]].
  destruct (vef_copy_flat m Hwf (i_el v) n w d el' Hel Hf ltac:(lia) Hc) as [Hd Hfl].
  destruct (vef_copy_sub m (i_el v) n d el' Hel ltac:(lia) Hc Hp) as [Hps' Hpv'].
  destruct (vef_copy_ok m (i_el v) n Hbm Hwf Hel ltac:(lia)) as [d2 [el2 [H1 [_ [_ [H4 _]]]]]].
  rewrite Hc in H1. inversion H1. subst d2 el2. clear H1.
  assert (Helo1 : Forall (el_ok (lens m1)) out) by (eapply Forall_impl; [|exact Helo]; intros e He; eapply el_ok_ext; eauto).
  assert (Hsl : forall a k, validb (lens m) a k = true -> sep (a, k) (region_base (len m), 16 * len out)).
  { intros a k Hv. rewrite <- (len_lens m). apply fresh_sep; auto. }
  destruct (store_iovecs_rd out m1 (region_base (len m)) m2 Hwf1 ltac:(lia) Hst Helo1) as [Hl2 [Fr2 [bs [Hfb Hrd]]]].
  { intros o Ho. destruct o as [ob on]. apply Hsl. rewrite Forall_forall in Helo. destruct (Helo _ Ho) as [_ [Hv _]]. exact Hv. }
  assert (Hfo1 : flat m1 out = Ok d) by (unfold m1; rewrite (flat_app_mem m _ out Helo); exact Hfo).
  rewrite Hfo1 in Hfb. inversion Hfb. subst bs. clear Hfb.
  exists out. split; [reflexivity|]. split; [lia|].
  split; [rewrite Hl2, Hlens1; unfold sz; do 2 f_equal; lia|]. split; [exact Hi'|].
  unfold set_el. cbn [i_el i_nb i_cap]. split; [reflexivity|]. split; [reflexivity|].
  split.
  { intros a k Hv. rewrite (Fr2 a k (Hsl a k Hv)). unfold m1. apply load_app. exact Hv. }
  split; [exact Helo|]. split; [exact Hpo|]. split; [exact Hpv|]. split; [exact Hps'|]. split; [exact Hpv'|].
  split; [exact Hsep|]. split; [rewrite Hrd, Hd; reflexivity|].
  split; [|split; lia].
  assert (Q : forall el, Forall (el_ok (lens m)) el -> flat m2 el = flat m el).
  { induction 1 as [|[eb l] rr Hee _ IHr]; [reflexivity|]. cbn [flat]. destruct Hee as [_ [Hv _]]. cbn [fst snd] in Hv.
    rewrite (Fr2 eb l (Hsl eb l Hv)). unfold m1. rewrite (load_app m _ eb l Hv), IHr. reflexivity. }
  rewrite (Q el' H4). exact Hfl.
Qed.
