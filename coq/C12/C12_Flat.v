(* C12_Flat.v — refinement of the front extraction to the flat byte string: whatever the
   fragmentation, copying n bytes from the front of an iovec list yields the first n bytes of
   the concatenation and leaves a list denoting the rest (first step towards ser_roundtrip). *)
From Coq Require Import ZArith List Bool Lia.
From PV Require Import Base.U64 C12.C12_Model C12.C12_Mem C12.C12_MemC C12.C12_Iov.
Import ListNotations.
Local Open Scope Z_scope.

(* the byte string an iovec list denotes *)
Fixpoint flat (m : mem) (el : list (Z * Z)) : res (list byte) :=
  match el with
  | [] => Ok []
  | (b, l) :: r => d <- load m b l ;; rest <- flat m r ;; Ok (d ++ rest)
  end.

Lemma load_inv m a n bs : load m a n = Ok bs -> 0 < n ->
  exists r, ARENA <= a /\ nth_z m ((a - ARENA) / STRIDE) = Some r /\ (a - ARENA) mod STRIDE + n <= len r /\
            bs = firstn (Z.to_nat n) (skipn (Z.to_nat ((a - ARENA) mod STRIDE)) r).
Proof.
  unfold load. intros H Hn. destruct (n <=? 0) eqn:E; [apply Z.leb_le in E; lia|].
  destruct (a <? ARENA) eqn:EA; [discriminate|]. apply Z.ltb_ge in EA.
  destruct (nth_z m ((a - ARENA) / STRIDE)) as [r|] eqn:Hr; [|discriminate].
  destruct ((a - ARENA) mod STRIDE + n <=? len r) eqn:El; [|discriminate]. apply Z.leb_le in El.
  inversion H. exists r. auto.
Qed.

Lemma load_prefix m b l d k : load m b l = Ok d -> 0 <= k <= l -> load m b k = Ok (firstn (Z.to_nat k) d).
Proof.
  intros H Hk. destruct (Z.eq_dec k 0) as [->|Hk0]; [reflexivity|].
  destruct (load_inv _ _ _ _ H ltac:(lia)) as [r [HA [Hr [Hl ->]]]].
  unfold load. destruct (k <=? 0) eqn:E; [apply Z.leb_le in E; lia|].
  destruct (b <? ARENA) eqn:EA; [apply Z.ltb_lt in EA; lia|]. rewrite Hr.
  destruct ((b - ARENA) mod STRIDE + k <=? len r) eqn:El; [|apply Z.leb_gt in El; lia].
  f_equal. rewrite firstn_firstn. f_equal. lia.
Qed.

Lemma load_suffix m b l d k : Forall (fun L => L <= STRIDE) (lens m) -> load m b l = Ok d -> 0 <= k <= l -> 0 <= b ->
  load m (b + k) (l - k) = Ok (skipn (Z.to_nat k) d).
Proof.
  intros Hwf H Hk Hb. destruct (Z.eq_dec k l) as [->|Hkl].
  { rewrite Z.sub_diag. pose proof (load_len _ _ _ _ H) as HL. cbn.
    rewrite skipn_all2; [reflexivity|]. unfold len in HL. lia. }
  destruct (load_inv _ _ _ _ H ltac:(lia)) as [r [HA [Hr [Hl ->]]]].
  pose proof (nth_z_In _ _ _ Hr) as Hin.
  assert (HLr : len r <= STRIDE).
  { unfold lens in Hwf. rewrite Forall_forall in Hwf. apply Hwf. apply in_map. exact Hin. }
  pose proof (Z.mod_pos_bound (b - ARENA) STRIDE STRIDE_pos) as Hm.
  pose proof (Z.div_mod (b - ARENA) STRIDE ltac:(pose proof STRIDE_pos; lia)) as Eb.
  assert (Hq : (b + k - ARENA) / STRIDE = (b - ARENA) / STRIDE /\ (b + k - ARENA) mod STRIDE = (b - ARENA) mod STRIDE + k).
  { split.
    - symmetry. apply (Z.div_unique_pos _ _ _ ((b - ARENA) mod STRIDE + k)); lia.
    - symmetry. apply (Z.mod_unique_pos _ _ ((b - ARENA) / STRIDE)); lia. }
  destruct Hq as [Hq1 Hq2].
  unfold load. destruct (l - k <=? 0) eqn:E; [apply Z.leb_le in E; lia|].
  destruct (b + k <? ARENA) eqn:EA; [apply Z.ltb_lt in EA; lia|]. rewrite Hq1, Hq2, Hr.
  destruct ((b - ARENA) mod STRIDE + k + (l - k) <=? len r) eqn:El; [|apply Z.leb_gt in El; lia].
  f_equal. rewrite skipn_firstn_comm, skipn_skipn'. f_equal; [lia|]. f_equal. lia.
Qed.

Lemma firstn_app_le {A} (a b : list A) n : (n <= length a)%nat -> firstn n (a ++ b) = firstn n a.
Proof. intros H. rewrite firstn_app. replace (n - length a)%nat with 0%nat by lia. cbn. apply app_nil_r. Qed.
Lemma skipn_app_le {A} (a b : list A) n : (n <= length a)%nat -> skipn n (a ++ b) = skipn n a ++ b.
Proof. intros H. rewrite skipn_app. replace (n - length a)%nat with 0%nat by lia. reflexivity. Qed.
Lemma firstn_app_ge {A} (a b : list A) n : (length a <= n)%nat -> firstn n (a ++ b) = a ++ firstn (n - length a) b.
Proof. intros H. rewrite firstn_app. rewrite firstn_all2 by lia. reflexivity. Qed.
Lemma skipn_app_ge {A} (a b : list A) n : (length a <= n)%nat -> skipn n (a ++ b) = skipn (n - length a) b.
Proof. intros H. rewrite skipn_app. rewrite skipn_all2 by lia. reflexivity. Qed.

(* the copying extraction refines firstn / skipn on the flat string, for every fragmentation *)
Theorem vef_copy_flat m : Forall (fun L => L <= STRIDE) (lens m) ->
  forall el bytes bs d el', Forall (el_ok (lens m)) el -> flat m el = Ok bs -> 0 < bytes <= sum_el el ->
  vef_copy m el bytes = Ok (d, el') ->
  d = firstn (Z.to_nat bytes) bs /\ flat m el' = Ok (skipn (Z.to_nat bytes) bs).
Proof.
  intros Hwf. induction el as [|[b l] rest IH]; intros bytes bs d el' Hel Hf Hb Hc.
  - rewrite sum_el_nil in Hb. lia.
  - inversion Hel as [|? ? He Hrest]; subst. destruct He as [Hl [Hv [Hb0 Hbw]]]. cbn [fst snd] in *.
    rewrite sum_el_cons in Hb. cbn [snd] in Hb.
    cbn [flat] in Hf. destruct (load m b l) as [d0|] eqn:Ed0; cbn [bind] in Hf; [|discriminate].
    destruct (flat m rest) as [rb|] eqn:Er; cbn [bind] in Hf; [|discriminate]. inversion Hf. subst bs. clear Hf.
    pose proof (load_len _ _ _ _ Ed0) as HL0. rewrite Z.max_r in HL0 by lia.
    cbn [vef_copy] in Hc. destruct (bytes <=? l) eqn:E.
    + apply Z.leb_le in E. rewrite (load_prefix _ _ _ _ bytes Ed0 ltac:(lia)) in Hc. cbn [bind] in Hc.
      injection Hc as Hd He'. subst d. split; [rewrite firstn_app_le; [reflexivity|unfold len in HL0; lia]|].
      rewrite skipn_app_le by (unfold len in HL0; lia). subst el'.
      destruct (l - bytes =? 0) eqn:E0.
      * apply Z.eqb_eq in E0. rewrite skipn_all2 by (unfold len in HL0; lia). cbn [app]. exact Er.
      * apply Z.eqb_neq in E0. rewrite wrap_small by lia. cbn [flat].
        rewrite (load_suffix _ _ _ _ bytes Hwf Ed0 ltac:(lia) Hb0). cbn [bind]. rewrite Er. reflexivity.
    + apply Z.leb_gt in E. rewrite Ed0 in Hc. cbn [bind] in Hc.
      destruct (vef_copy m rest (bytes - l)) as [[d' e']|] eqn:Erec; cbn [bind] in Hc; [|discriminate].
      injection Hc as Hd He'. subst d el'.
      destruct (IH (bytes - l) rb d' e' Hrest eq_refl ltac:(lia) Erec) as [A B].
      assert (HLn : length d0 = Z.to_nat l) by (unfold len in HL0; lia).
      split.
      * rewrite firstn_app_ge by lia. rewrite A. f_equal. f_equal. lia.
      * rewrite skipn_app_ge by lia. rewrite B. f_equal. f_equal. lia.
Qed.
