(* C12_Rt.v — ser_roundtrip: serialize, refragment arbitrarily, deserialize = the same value. *)
From Coq Require Import ZArith List Bool Lia Permutation.
From PV Require Import Base.U64 C12.C12_Model C12.C12_Mem C12.C12_MemC C12.C12_Iov C12.C12_Flat C12.C12_Deser C12.C12_Sep C12.C12_Wire C12.C12_RtD C12.C12_RtS.
Import ListNotations.
Local Open Scope Z_scope.

(* ---- the archive order keeps well-formedness, support and layout ---- *)
Lemma filt_wf al : forall fs sz, fields_wf sz fs -> fields_wf sz (filt al fs).
Proof. induction fs as [|off f r IH]; intros sz H; [exact I|]. destruct H as [A [B C]]. cbn [filt]. destruct (sel al f); cbn [fields_wf]; auto. Qed.
Lemma fapp_wf a : forall b sz, fields_wf sz a -> fields_wf sz b -> fields_wf sz (fapp a b).
Proof. induction a as [|off f r IH]; intros b sz H1 H2; [exact H2|]. destruct H1 as [A [B C]]. cbn [fapp fields_wf]. auto. Qed.
Lemma filt_sup al : forall fs, sup_fs fs -> sup_fs (filt al fs).
Proof. induction fs as [|off f r IH]; intros H; [exact I|]. destruct H as [A B]. cbn [filt]. destruct (sel al f); cbn [sup_fs]; auto. Qed.
Lemma fapp_sup a : forall b, sup_fs a -> sup_fs b -> sup_fs (fapp a b).
Proof. induction a as [|off f r IH]; intros b H1 H2; [exact H2|]. destruct H1 as [A B]. cbn [fapp sup_fs]. auto. Qed.
Lemma filt_lay al : forall fs, lay_fs fs -> lay_fs (filt al fs).
Proof. induction fs as [|off f r IH]; intros H; [exact I|]. destruct H as [A B]. cbn [filt]. destruct (sel al f); cbn [lay_fs]; auto. Qed.
Lemma fapp_lay a : forall b, lay_fs a -> lay_fs b -> lay_fs (fapp a b).
Proof. induction a as [|off f r IH]; intros b H1 H2; [exact H2|]. destruct H1 as [A B]. cbn [fapp lay_fs]. auto. Qed.

Lemma psep_perm l l' : Permutation l l' -> psep l -> psep l'.
Proof.
  induction 1 as [|x l l' HP IH|x y l|l l' l'' _ IH1 _ IH2]; intros H; auto.
  - destruct H as [H1 H2]. split; [|auto]. intros y Hy. apply H1. eapply Permutation_in; [apply Permutation_sym; exact HP|exact Hy].
  - destruct H as [H1 [H2 H3]]. split; [|split; [|exact H3]].
    + intros z [<-|Hz]; [apply sep_sym; apply H1; left; reflexivity|apply H2; exact Hz].
    + intros z Hz. apply H1. right. exact Hz.
Qed.

Lemma aranges_fapp a : forall b base, aranges_fs (fapp a b) base = aranges_fs a base ++ aranges_fs b base.
Proof. induction a as [|off f r IH]; intros b base; [reflexivity|]. cbn [fapp aranges_fs]. rewrite IH, app_assoc. reflexivity. Qed.

Lemma aranges_perm fs base : Permutation (aranges_fs fs base) (aranges_fs (perm fs) base).
Proof.
  unfold perm. rewrite aranges_fapp. induction fs as [|off f r IH]; [constructor|]. cbn [filt aranges_fs].
  assert (Hc : sel true f = negb (sel false f)) by (destruct f; reflexivity).
  destruct (sel false f); cbn [negb] in Hc; rewrite Hc; cbn [aranges_fs].
  - eapply Permutation_trans; [apply Permutation_app_head; exact IH|].
    rewrite !app_assoc. apply Permutation_app_tail. apply Permutation_app_comm.
  - rewrite <- app_assoc. apply Permutation_app_head. exact IH.
Qed.

Section RT.
  Variable hstep : Z -> byte -> Z.

  (* (d) the serializer emits the wire string: aligned fields, other fields, body *)
  Theorem serialize_wire sh ms x sst vals wf Fs body :
    sh_checked sh = false -> sup_fs (sh_fields sh) ->
    serialize hstep cfg_final sh ms x = Ok sst -> s_full sst = false ->
    rd_fs (perm (sh_fields sh)) ms x = Ok (vals, wf, Fs) -> load ms x (sh_size sh) = Ok body ->
    s_mem sst = ms /\ flat ms (i_el (s_iov sst)) = Ok (wf ++ body).
  Proof.
    intros Hck Hsup H Hf Hrd Lb. unfold serialize in H. rewrite Hck in H. rewrite !s_pass_filt in H.
    set (st0 := mkS ms (mkIov 4 [] 0 32) false) in *.
    assert (H2 : exists st2, s_fields cfg_final (perm (sh_fields sh)) st0 x = Ok st2 /\ sst = s_push st2 x (sh_size sh)).
    { unfold perm. rewrite s_fields_app. destruct (s_fields cfg_final (filt true (sh_fields sh)) st0 x) as [st1|]; cbn [bind] in *; [|discriminate H].
      rewrite s_pass_filt in H.
      destruct (s_fields cfg_final (filt false (sh_fields sh)) st1 x) as [st2|]; cbn [bind] in *; [|discriminate H].
      inversion H. eauto. }
    destruct H2 as [st2 [H2 ->]].
    assert (Hf2 : s_full st2 = false).
    { apply not_true_false. intros Ht. rewrite (s_push_mono _ _ _ Ht) in Hf. discriminate. }
    assert (Hsp : sup_fs (perm (sh_fields sh))) by (apply fapp_sup; apply filt_sup; exact Hsup).
    destruct (proj2 s_all (perm (sh_fields sh)) st0 x st2 vals wf Fs [] Hsp H2 Hf2 Hrd eq_refl) as [Hm2 Fl2].
    cbn [s_mem st0] in Hm2, Fl2. cbn [app] in Fl2.
    destruct (s_push_flat st2 x (sh_size sh) body wf Hf) as [Hm3 Fl3]; [rewrite Hm2; exact Lb|rewrite Hm2; exact Fl2|].
    rewrite Hm2 in *. split; [exact Hm3|exact Fl3].
  Qed.

  (* (c) the deserializer, on ANY fragmentation of the wire string *)
  Theorem deserialize_rt sh ms x mr v vals wf Fs body :
    shape_wf sh -> sh_checked sh = false ->
    sup_fs (sh_fields sh) -> lay_fs (sh_fields sh) -> (forall b, psep (aranges_fs (sh_fields sh) b)) ->
    Forall (fun L => L <= STRIDE) (lens ms) ->
    rd_fs (perm (sh_fields sh)) ms x = Ok (vals, wf, Fs) -> load ms x (sh_size sh) = Ok body ->
    inv mr v -> flat mr (i_el v) = Ok (wf ++ body) -> psep (i_el v) ->
    i_nb v + 1 + len Fs <= i_cap v ->
    exists t st w2 F, deserialize hstep cfg_final sh mr v = Ok (t, st) /\ t <> 0 /\
      ptr_ok (lens (d_mem st)) t (sh_size sh) /\
      rd_fs (perm (sh_fields sh)) (d_mem st) t = Ok (vals, w2, F) /\
      flat (d_mem st) (i_el (d_iov st)) = Ok [] /\
      (* provenance of every range the value occupies: the body, a static member of the body, or a claimed
         range (each claimed range was inside an input element or is a fresh allocation slot) *)
      inv (d_mem st) (d_iov st).
  Proof.
    intros [Hsz [Hwf Hck0]] Hck Hsup Hlay Hps Hmswf Hrd Lb Hinv Hfl Hpe Hnb.
    pose proof (len_nonneg Fs) as HFs.
    pose proof (load_len _ _ _ _ Lb) as Hlb. rewrite Z.max_r in Hlb by lia.
    assert (Hlw : len (wf ++ body) - sh_size sh = len wf) by (rewrite len_app; lia).
    destruct (ebc_flat mr v (sh_size sh) (wf ++ body) Hinv Hsz Hfl ltac:(rewrite len_app; pose proof (len_nonneg wf); lia) Hpe ltac:(lia))
      as [t [m1 [v1 [He X]]]].
    rewrite Hlw in X. rewrite (skipn_app_exact wf body (len wf)), (firstn_app_exact wf body (len wf)) in X by (unfold len; lia).
    pose proof X as [Hi1 [Hx1 [Hc1 [Hn1 [[Pv [Pp Pw]] [Lp [Fl1 [Ps1 [Pr1 [Sp1 [Fr1 _]]]]]]]]]]].
    unfold deserialize. rewrite He. cbn [bind]. destruct (t =? 0) eqn:Et; [apply Z.eqb_eq in Et; lia|].
    rewrite Hck. cbn [bind negb]. rewrite !d_pass_filt.
    set (st0 := mkD m1 v1 false).
    assert (Hwfp : fields_wf (sh_size sh) (perm (sh_fields sh))) by (apply fapp_wf; apply filt_wf; exact Hwf).
    assert (Hsp : sup_fs (perm (sh_fields sh))) by (apply fapp_sup; apply filt_sup; exact Hsup).
    assert (Hlp : lay_fs (perm (sh_fields sh))) by (apply fapp_lay; apply filt_lay; exact Hlay).
    assert (Hpp : psep (aranges_fs (perm (sh_fields sh)) t)) by (eapply psep_perm; [apply aranges_perm|apply Hps]).
    destruct (proj2 (rt_all ms Hmswf) (perm (sh_fields sh)) (sh_size sh) st0 t x [(t, sh_size sh)] (t, sh_size sh) vals wf Fs []
                Hwfp Hsp Hlp Hpp) as [st2 [new [Hd [SP [w2 [F [Hr Hf]]]]]]].
    { rewrite app_nil_r. cbn [st0 d_mem d_iov]. split; [exact Hi1|]. split; [exact Fl1|]. split; [exact Ps1|].
      split; [split; [intros y []|exact I]|]. split; [intros e c He' [<-|[]]; apply Sp1; exact He'|].
      intros c [<-|[]]. exact Pv. }
    { left. reflexivity. }
    { apply within_refl. }
    { exact Hrd. }
    { apply (proj2 (blk_eq _ _) _ (sh_size sh) t x Hwfp). cbn [st0 d_mem].
      apply (blk_of_loads _ _ _ _ _ body (inv_wf _ _ Hi1) Hmswf Lp Lb). }
    { cbn [st0 d_iov]. lia. }
    destruct SP as [Hfl2 [HR2 [Hx2 [Hc2 [Hn2 Hfr2]]]]]. cbn [st0 d_failed] in Hfl2.
    unfold perm in Hd. rewrite d_fields_app in Hd.
    destruct (d_fields cfg_final (filt true (sh_fields sh)) st0 t) as [st1|]; cbn [bind] in Hd |- *; [|discriminate Hd].
    rewrite d_pass_filt, Hd. cbn [bind]. rewrite Hfl2.
    exists t, st2, w2, F. split; [reflexivity|]. split; [lia|].
    destruct HR2 as [Hi2 [Fl2 _]].
    split; [split; [eapply validb_ext; [exact Hx2|exact Pv]|lia]|]. split; [exact Hr|]. split; [exact Fl2|exact Hi2].
  Qed.

  (* ser_roundtrip, for shapes without iovec_array fields and without checksum *)
  Theorem ser_roundtrip_noiov_unchecked sh ms x sst vals wf Fs body mr v :
    shape_wf sh -> sh_checked sh = false ->
    sup_fs (sh_fields sh) -> lay_fs (sh_fields sh) -> (forall b, psep (aranges_fs (sh_fields sh) b)) ->
    (* the sender: any memory image in which the value is readable; the archive did not run out of its 28 pieces *)
    Forall (fun L => L <= STRIDE) (lens ms) ->
    rd_fs (perm (sh_fields sh)) ms x = Ok (vals, wf, Fs) -> load ms x (sh_size sh) = Ok body ->
    serialize hstep cfg_final sh ms x = Ok sst -> s_full sst = false ->
    (* the receiver: any memory, any vector whose elements are pairwise separated and denote the
       same byte string as the sender's pieces; enough allocation slots *)
    inv mr v -> psep (i_el v) -> flat mr (i_el v) = flat (s_mem sst) (i_el (s_iov sst)) ->
    i_nb v + 1 + len Fs <= i_cap v ->
    exists t st w2 F, deserialize hstep cfg_final sh mr v = Ok (t, st) /\ t <> 0 /\
      ptr_ok (lens (d_mem st)) t (sh_size sh) /\
      rd_fs (perm (sh_fields sh)) (d_mem st) t = Ok (vals, w2, F) /\
      flat (d_mem st) (i_el (d_iov st)) = Ok [].
  Proof.
    intros Hsh Hck Hsup Hlay Hps Hmswf Hrd Lb Hser Hfull Hinv Hpe Hfl Hnb.
    destruct (serialize_wire sh ms x sst vals wf Fs body Hck Hsup Hser Hfull Hrd Lb) as [Hm Hw].
    rewrite Hm, Hw in Hfl.
    destruct (deserialize_rt sh ms x mr v vals wf Fs body Hsh Hck Hsup Hlay Hps Hmswf Hrd Lb Hinv Hfl Hpe Hnb)
      as [t [st [w2 [F [H1 [H2 [H3 [H4 [H5 _]]]]]]]]].
    exists t, st, w2, F. auto.
  Qed.
End RT.

(* ---- the hypotheses are inhabited: struct { uint64 a; string s; aligned_buffer b; } with
   s = "hi\0", b = {7,9}; the 45 wire bytes cut into elements of 1, 19 and 25 bytes, so that the
   aligned buffer and the body both straddle elements (copy fallback on both extractions) ---- *)
Definition ex_rt_sh : shape := mkShape 40 false (FCons 0 (FFixed 8) (FCons 8 FStr (FCons 24 FABuf FNil))).
Definition ex_rt_body : list byte :=
  [1; 2; 3; 4; 5; 6; 7; 8] ++ [0; 0; 0; 0; 1; 48; 0; 0] ++ [3; 0; 0; 0; 0; 0; 0; 0] ++
  [0; 0; 0; 0; 2; 48; 0; 0] ++ [2; 0; 0; 0; 0; 0; 0; 0].
Definition ex_rt_ms : mem := [ex_rt_body; [104; 105; 0]; [7; 9]].
Definition ex_rt_wire : list byte := [7; 9] ++ [104; 105; 0] ++ ex_rt_body.
Definition ex_rt_mr : mem := [firstn 1 ex_rt_wire; firstn 19 (skipn 1 ex_rt_wire); skipn 20 ex_rt_wire].
Definition ex_rt_v : iovs := mkIov 4 [(region_base 0, 1); (region_base 1, 19); (region_base 2, 25)] 0 32.

Fixpoint bytes_okb' (bs : list byte) : bool :=
  match bs with [] => true | b :: r => (0 <=? b) && (b <? 256) && bytes_okb' r end.
Lemma bytes_okb'_ok bs : bytes_okb' bs = true -> bytes_ok bs.
Proof.
  induction bs as [|b r IH]; intros H; [constructor|]. cbn [bytes_okb'] in H.
  apply andb_true_iff in H. destruct H as [H1 H2]. apply andb_true_iff in H1. destruct H1 as [H0 H1].
  apply Z.leb_le in H0. apply Z.ltb_lt in H1. constructor; [lia|exact (IH H2)].
Qed.

Example ser_roundtrip_hyps_inhabited :
  let hs := (fun (h : Z) (_ : byte) => h) in
  exists vals wf Fs sst,
    shape_wf ex_rt_sh /\ sh_checked ex_rt_sh = false /\
    sup_fs (sh_fields ex_rt_sh) /\ lay_fs (sh_fields ex_rt_sh) /\ (forall b, psep (aranges_fs (sh_fields ex_rt_sh) b)) /\
    Forall (fun L => L <= STRIDE) (lens ex_rt_ms) /\
    rd_fs (perm (sh_fields ex_rt_sh)) ex_rt_ms (region_base 0) = Ok (vals, wf, Fs) /\
    load ex_rt_ms (region_base 0) (sh_size ex_rt_sh) = Ok ex_rt_body /\
    serialize hs cfg_final ex_rt_sh ex_rt_ms (region_base 0) = Ok sst /\ s_full sst = false /\
    inv ex_rt_mr ex_rt_v /\ psep (i_el ex_rt_v) /\
    flat ex_rt_mr (i_el ex_rt_v) = flat (s_mem sst) (i_el (s_iov sst)) /\
    i_nb ex_rt_v + 1 + len Fs <= i_cap ex_rt_v /\
    vals = [VBuf [7; 9]; VFix [1; 2; 3; 4; 5; 6; 7; 8]; VBuf [104; 105; 0]] /\
    exists t st w2 F, deserialize hs cfg_final ex_rt_sh ex_rt_mr ex_rt_v = Ok (t, st) /\ t <> 0 /\
      rd_fs (perm (sh_fields ex_rt_sh)) (d_mem st) t = Ok (vals, w2, F).
Proof.
  cbv zeta. do 4 eexists.
  split; [unfold shape_wf; cbn; repeat split; try lia; discriminate|].
  split; [reflexivity|]. split; [cbn; tauto|]. split; [cbn; tauto|].
  split.
  { intros b. cbn. repeat split; try tauto; intros y Hy; cbn in Hy;
      repeat (destruct Hy as [<-|Hy]; [unfold sep; cbn [fst snd]; lia|]); destruct Hy. }
  split; [change (lens ex_rt_ms) with [40; 3; 2]; repeat constructor; unfold STRIDE; lia|].
  split; [vm_compute; reflexivity|].
  split; [vm_compute; reflexivity|].
  split; [vm_compute; reflexivity|].
  split; [reflexivity|].
  split.
  { unfold inv. split.
    { unfold mem_bytes, ex_rt_mr. repeat (apply Forall_cons; [apply bytes_okb'_ok; vm_compute; reflexivity|]). apply Forall_nil. }
    split; [change (lens ex_rt_mr) with [1; 19; 25]; repeat constructor; unfold STRIDE; lia|].
    split.
    { change (lens ex_rt_mr) with [1; 19; 25]. unfold ex_rt_v. cbn [i_el].
      repeat (apply Forall_cons; [unfold el_ok; cbn [fst snd]; split; [lia|]; split; [vm_compute; reflexivity|]; split; vm_compute; congruence|]).
      apply Forall_nil. }
    split; [vm_compute; congruence|]. split; [vm_compute; congruence|]. split; vm_compute; congruence. }
  split.
  { cbn. repeat split; try tauto; intros y Hy; cbn in Hy;
      repeat (destruct Hy as [<-|Hy]; [unfold sep, region_base, ARENA, STRIDE; cbn [fst snd]; lia|]); destruct Hy. }
  split; [vm_compute; reflexivity|].
  split; [vm_compute; congruence|].
  split; [reflexivity|].
  do 4 eexists. split; [vm_compute; reflexivity|]. split; [vm_compute; congruence|]. vm_compute. reflexivity.
Qed.
