(* C12_RtF.v — ser_roundtrip for EVERY shape (all ten field kinds incl. iovec_array / aligned_iovec_array,
   arrays of messages holding them, nested messages, maps), values in DECLARED order.
   The sender's value is the one readable in its memory AFTER serialize (SerializerIOV writes summed_size
   into the struct; writev sends that memory): serialize, cut the emitted bytes into any pairwise separated
   iovec elements, deserialize = the same value. *)
From Coq Require Import ZArith List Bool Lia.
From PV Require Import Base.U64 C12.C12_Model C12.C12_Mem C12.C12_MemC C12.C12_Iov C12.C12_Flat C12.C12_Deser C12.C12_Sep C12.C12_Wire C12.C12_RtD C12.C12_RtS C12.C12_Rt C12.C12_RtC C12.C12_RtC2 C12.C12_RtC3 C12.C12_Hx C12.C12_View C12.C12_Hb C12.C12_Hb2 C12.C12_RtI C12.C12_Dyn C12.C12_RtSI C12.C12_Ord.
Import ListNotations.
Local Open Scope Z_scope.

Lemma agree_refl m r : agree m m r.
Proof. intros x k _. reflexivity. Qed.

(* archive order -> declared order, existence *)
Lemma rd_declared_exists fs m b pv w F : rd_fs (perm fs) m b = Ok (pv, w, F) ->
  exists vals w' F', rd_fs fs m b = Ok (vals, w', F') /\ pv = vsel true fs vals ++ vsel false fs vals.
Proof.
  intros H. unfold perm in H. rewrite rd_fs_app in H.
  destruct (rd_fs (filt true fs) m b) as [[[v1 w1] F1]|] eqn:E1; cbn [bind] in H; [|discriminate].
  destruct (rd_fs (filt false fs) m b) as [[[v2 w2] F2]|] eqn:E2; cbn [bind] in H; [|discriminate].
  injection H as Hv _ _. destruct (rd_merge fs m b _ _ _ _ _ _ E1 E2) as [vals [w' [F' [Hr [A B]]]]].
  exists vals, w', F'. split; [exact Hr|]. rewrite <- Hv, A, B. reflexivity.
Qed.

Section F.
  Variable hstep : Z -> byte -> Z.

  (* the two passes over the fields, for every shape *)
  Lemma s_fields_perm_iov sh ms x st2 vals0 wf0 Fs0 D :
    shape_wf sh -> lay_fs (sh_fields sh) -> (forall b, psep (aranges_fs (sh_fields sh) b)) ->
    mem_bytes ms ->
    s_fields cfg_final (perm (sh_fields sh)) (mkS ms (mkIov 4 [] 0 32) false) x = Ok st2 -> s_full st2 = false ->
    rd_fs (perm (sh_fields sh)) ms x = Ok (vals0, wf0, Fs0) -> dn_fs (perm (sh_fields sh)) ms x = Ok D ->
    psep D -> (forall d, In d D -> sep (x, sh_size sh) d) -> len wf0 < W64 ->
    lens (s_mem st2) = lens ms /\ mem_bytes (s_mem st2) /\
    (forall y k, (forall r, In r (aranges_fs (perm (sh_fields sh)) x) \/ In r D -> sep (y, k) r) -> load (s_mem st2) y k = load ms y k) /\
    exists vals wf Fs, rd_fs (perm (sh_fields sh)) (s_mem st2) x = Ok (vals, wf, Fs) /\ vsums vals /\
      len wf = len wf0 /\ len Fs = len Fs0 /\ fpok Fs (aranges_fs (perm (sh_fields sh)) x) D /\
      flat (s_mem st2) (i_el (s_iov st2)) = Ok wf.
  Proof.
    intros [Hsz [Hwf _]] Hlay Hps Hbm H2 Hfull Hrd Hdn HpD HsD Hw.
    set (st0 := mkS ms (mkIov 4 [] 0 32) false) in *.
    assert (Hwfp : fields_wf (sh_size sh) (perm (sh_fields sh))) by (apply fapp_wf; apply filt_wf; exact Hwf).
    assert (Hlp : lay_fs (perm (sh_fields sh))) by (apply fapp_lay; apply filt_lay; exact Hlay).
    assert (Hpp : psep (aranges_fs (perm (sh_fields sh)) x)) by (eapply psep_perm; [apply aranges_perm|apply Hps]).
    destruct (proj2 ss_all (perm (sh_fields sh)) (sh_size sh) st0 x st2 ms vals0 wf0 Fs0 D Hwfp Hlp Hpp H2 Hbm eq_refl Hbm Hrd Hdn) as [SP Fin].
    { intros r _. apply agree_refl. }
    { exact HpD. }
    { intros s d Hs Hd. eapply within_sep; [apply (proj2 aranges_within _ _ _ Hwfp s Hs)|]. apply HsD. exact Hd. }
    { exact Hw. }
    destruct SP as [Hl2 [Hb2 Fr2]]. cbn [st0 s_mem] in Hl2, Fr2.
    split; [exact Hl2|]. split; [exact Hb2|]. split; [exact Fr2|].
    destruct (Fin Hfull) as [_ HmF].
    destruct (HmF (s_mem st2) [] Hl2 ltac:(intros r _; apply agree_refl) eq_refl) as [vals [wf [Fs [Q1 [Q2 [Q3 [Q4 [Q6 Q5]]]]]]]].
    exists vals, wf, Fs. cbn [app] in Q5. auto 10.
  Qed.

  (* (d) for every shape: what the serializer leaves and emits *)
  Theorem serialize_wire_iov sh ms x sst vals0 wf0 Fs0 D body0 :
    sh_checked sh = false -> shape_wf sh -> lay_fs (sh_fields sh) -> (forall b, psep (aranges_fs (sh_fields sh) b)) ->
    mem_bytes ms ->
    serialize hstep cfg_final sh ms x = Ok sst -> s_full sst = false ->
    rd_fs (perm (sh_fields sh)) ms x = Ok (vals0, wf0, Fs0) -> dn_fs (perm (sh_fields sh)) ms x = Ok D ->
    psep D -> (forall d, In d D -> sep (x, sh_size sh) d) -> len wf0 < W64 ->
    load ms x (sh_size sh) = Ok body0 ->
    lens (s_mem sst) = lens ms /\ mem_bytes (s_mem sst) /\
    exists vals wf Fs body, rd_fs (perm (sh_fields sh)) (s_mem sst) x = Ok (vals, wf, Fs) /\ vsums vals /\
      len wf = len wf0 /\ len Fs = len Fs0 /\
      load (s_mem sst) x (sh_size sh) = Ok body /\ flat (s_mem sst) (i_el (s_iov sst)) = Ok (wf ++ body).
  Proof.
    intros Hck Hsh Hlay Hps Hbm Hser Hfull Hrd Hdn HpD HsD Hw Lb.
    unfold serialize in Hser. rewrite Hck in Hser. rewrite !s_pass_filt in Hser.
    set (st0 := mkS ms (mkIov 4 [] 0 32) false) in *.
    assert (H2 : exists st2, s_fields cfg_final (perm (sh_fields sh)) st0 x = Ok st2 /\ sst = s_push st2 x (sh_size sh)).
    { unfold perm. rewrite s_fields_app. destruct (s_fields cfg_final (filt true (sh_fields sh)) st0 x) as [st1|]; cbn [bind] in *; [|discriminate Hser].
      rewrite s_pass_filt in Hser.
      destruct (s_fields cfg_final (filt false (sh_fields sh)) st1 x) as [st2|]; cbn [bind] in *; [|discriminate Hser].
      inversion Hser. eauto. }
    destruct H2 as [st2 [H2 ->]].
    destruct (s_fields_perm_iov sh ms x st2 vals0 wf0 Fs0 D Hsh Hlay Hps Hbm H2 (s_push_full _ _ _ Hfull) Hrd Hdn HpD HsD Hw)
      as [Hl2 [Hb2 [_ [vals [wf [Fs [Q1 [Q2 [Q3 [Q4 [_ Q5]]]]]]]]]]].
    rewrite s_push_mem. split; [exact Hl2|]. split; [exact Hb2|].
    destruct (load_lens _ (s_mem st2) _ _ _ Lb Hl2) as [body [Hb _]].
    exists vals, wf, Fs, body. split; [exact Q1|]. split; [exact Q2|]. split; [exact Q3|]. split; [exact Q4|]. split; [exact Hb|].
    apply s_push_flat2; auto.
  Qed.

  (* ser_roundtrip, every shape, unchecked, archive order *)
  Theorem ser_roundtrip_unchecked_perm sh ms x sst vals0 wf0 Fs0 D body0 mr v :
    shape_wf sh -> sh_checked sh = false ->
    lay_fs (sh_fields sh) -> (forall b, psep (aranges_fs (sh_fields sh) b)) ->
    mem_bytes ms -> Forall (fun L => L <= STRIDE) (lens ms) ->
    rd_fs (perm (sh_fields sh)) ms x = Ok (vals0, wf0, Fs0) -> dn_fs (perm (sh_fields sh)) ms x = Ok D ->
    psep D -> (forall d, In d D -> sep (x, sh_size sh) d) -> len wf0 < W64 ->
    load ms x (sh_size sh) = Ok body0 ->
    serialize hstep cfg_final sh ms x = Ok sst -> s_full sst = false ->
    inv mr v -> psep (i_el v) -> flat mr (i_el v) = flat (s_mem sst) (i_el (s_iov sst)) ->
    i_nb v + 1 + len Fs0 <= i_cap v ->
    exists vals ws Fss t st w2 F,
      rd_fs (perm (sh_fields sh)) (s_mem sst) x = Ok (vals, ws, Fss) /\
      deserialize hstep cfg_final sh mr v = Ok (t, st) /\ t <> 0 /\
      ptr_ok (lens (d_mem st)) t (sh_size sh) /\
      rd_fs (perm (sh_fields sh)) (d_mem st) t = Ok (vals, w2, F) /\
      flat (d_mem st) (i_el (d_iov st)) = Ok [].
  Proof.
    intros Hsh Hck Hlay Hps Hbm Hmswf Hrd Hdn HpD HsD Hw Lb Hser Hfull Hinv Hpe Hfl Hnb.
    destruct (serialize_wire_iov sh ms x sst vals0 wf0 Fs0 D body0 Hck Hsh Hlay Hps Hbm Hser Hfull Hrd Hdn HpD HsD Hw Lb)
      as [Hl [Hb [vals [wf [Fs [body [Q1 [Q2 [Q3 [Q4 [Q5 Q6]]]]]]]]]]].
    rewrite Q6 in Hfl.
    destruct (deserialize_rt_iov hstep sh (s_mem sst) x mr v vals wf Fs body Hsh Hck Hlay Hps ltac:(rewrite Hl; exact Hmswf) Q1 Q2 Q5 Hinv Hfl Hpe ltac:(lia))
      as [t [st [w2 [F [H1 [H2 [H3 [H4 [H5 _]]]]]]]]].
    exists vals, wf, Fs, t, st, w2, F. auto 10.
  Qed.

  (* ser_roundtrip: every shape, unchecked, values in declared order *)
  Theorem ser_roundtrip_unchecked sh ms x sst vals0 wf0 Fs0 D body0 mr v :
    shape_wf sh -> sh_checked sh = false ->
    lay_fs (sh_fields sh) -> (forall b, psep (aranges_fs (sh_fields sh) b)) ->
    mem_bytes ms -> Forall (fun L => L <= STRIDE) (lens ms) ->
    rd_fs (perm (sh_fields sh)) ms x = Ok (vals0, wf0, Fs0) -> dn_fs (perm (sh_fields sh)) ms x = Ok D ->
    psep D -> (forall d, In d D -> sep (x, sh_size sh) d) -> len wf0 < W64 ->
    load ms x (sh_size sh) = Ok body0 ->
    serialize hstep cfg_final sh ms x = Ok sst -> s_full sst = false ->
    inv mr v -> psep (i_el v) -> flat mr (i_el v) = flat (s_mem sst) (i_el (s_iov sst)) ->
    i_nb v + 1 + len Fs0 <= i_cap v ->
    exists vals ws Fss t st w2 F,
      rd_fs (sh_fields sh) (s_mem sst) x = Ok (vals, ws, Fss) /\
      deserialize hstep cfg_final sh mr v = Ok (t, st) /\ t <> 0 /\
      ptr_ok (lens (d_mem st)) t (sh_size sh) /\
      rd_fs (sh_fields sh) (d_mem st) t = Ok (vals, w2, F) /\
      flat (d_mem st) (i_el (d_iov st)) = Ok [].
  Proof.
    intros Hsh Hck Hlay Hps Hbm Hmswf Hrd Hdn HpD HsD Hw Lb Hser Hfull Hinv Hpe Hfl Hnb.
    destruct (ser_roundtrip_unchecked_perm sh ms x sst vals0 wf0 Fs0 D body0 mr v Hsh Hck Hlay Hps Hbm Hmswf Hrd Hdn HpD HsD Hw Lb Hser Hfull Hinv Hpe Hfl Hnb)
      as [pv [ws [Fss [t [st [w2 [F [H0 [H1 [H2 [H3 [H4 H5]]]]]]]]]]]].
    destruct (rd_declared_exists _ _ _ _ _ _ H0) as [vals [ws' [Fss' [Hd ->]]]].
    destruct (rd_declared_of_perm _ _ _ _ _ _ (rd_len _ _ _ _ _ _ Hd) H4) as [w3 [F3 H6]].
    exists vals, ws', Fss', t, st, w3, F3. auto 10.
  Qed.
End F.

(* ---- checked shapes ---- *)
Section FC.
  Variable hstep : Z -> byte -> Z.
  Hypothesis hstep_range : forall h b, 0 <= h < W32 -> 0 <= b < 256 -> 0 <= hstep h b < W32.

  (* add_checksum over pieces el followed by the body, in a memory whose checksum word is 0 *)
  Lemma checksum_tail m2 x size el wf body2 m' :
    4 <= size -> mem_bytes m2 -> Forall (fun L => L <= STRIDE) (lens m2) -> 0 <= x ->
    flat m2 el = Ok wf -> load m2 x size = Ok body2 -> load m2 x 4 = Ok (le_enc 4 0) ->
    (forall e, In e el -> sep e (x, 4)) ->
    hash_iov hstep m2 x (el ++ [(x, size)]) = Ok m' ->
    let h := hash_ext hstep 0 wf in
    let H := hash_ext hstep h (le_enc 4 h ++ skipn 4 body2) in
    lens m' = lens m2 /\ flat m' (el ++ [(x, size)]) = Ok (wf ++ (le_enc 4 H ++ skipn 4 body2)) /\
    load m' x size = Ok (le_enc 4 H ++ skipn 4 body2) /\ 0 <= H < W32 /\
    (forall a k, sep (a, k) (x, 4) -> load m' a k = load m2 a k).
  Proof.
    intros Hsz Hbm Hwf Hx Fl2 Lb L0 Hsep Hh h H.
    rewrite hash_iov_app in Hh.
    assert (Hz : 0 <= 0 < W32) by (unfold W32; lia).
    destruct (hash_iov_flat hstep hstep_range x el m2 wf 0 Hbm Hsep L0 Hz Fl2) as [m1 [A [B [C [D [E F]]]]]].
    rewrite A in Hh. cbn [bind hash_iov] in Hh. fold h in B, C.
    unfold load32 in Hh. rewrite B in Hh. cbn [bind] in Hh. rewrite (le_dec_enc4 _ C) in Hh.
    assert (Hv : validb (lens m2) x size = true) by (eapply load_valid_inv; eauto).
    assert (Lr : load m1 (x + 4) (size - 4) = Ok (skipn 4 body2)).
    { rewrite F by (unfold sep; cbn [fst snd]; lia). pose proof (load_suffix m2 x size body2 4 Hwf Lb ltac:(lia) Hx) as Q. exact Q. }
    assert (Wf1 : Forall (fun L => L <= STRIDE) (lens m1)) by (rewrite D; exact Hwf).
    assert (V1 : validb (lens m1) x size = true) by (rewrite D; exact Hv).
    rewrite (load_join m1 x size 4 _ _ Wf1 V1 Hx ltac:(lia) B Lr) in Hh. cbn [bind] in Hh. fold H in Hh.
    destruct (store32 m1 x H) as [m3|] eqn:Hst; cbn [bind] in Hh; [|discriminate Hh]. inversion Hh. subst m'. clear Hh.
    unfold store32 in Hst.
    assert (Hl4 : len (le_enc 4 H) = 4) by (rewrite le_enc_len; reflexivity).
    assert (HH : 0 <= H < W32).
    { apply hash_ext_range; [exact hstep_range| |exact C]. apply bytes_ok_app; [apply le_enc_bytes_ok|].
      apply bytes_ok_skipn. apply (load_bytes_ok m2 x size body2 Hbm Lb). }
    assert (Hl2 : lens m3 = lens m2) by (rewrite (store_lens _ _ _ _ Hst); exact D).
    assert (Lb2 : load m3 x size = Ok (le_enc 4 H ++ skipn 4 body2)).
    { apply (load_join m3 x size 4); [rewrite Hl2; exact Hwf|rewrite Hl2; exact Hv|exact Hx|lia| |].
      - rewrite <- Hl4 at 1. apply (load_store_same _ _ _ _ Hst). lia.
      - rewrite (load_store_sep _ _ _ _ _ _ Hst); [exact Lr|]. rewrite Hl4. unfold sep. cbn [fst snd]. lia. }
    assert (Fr2 : forall a k, sep (a, k) (x, 4) -> load m3 a k = load m2 a k).
    { intros a k Hak. rewrite (load_store_sep _ _ _ _ _ _ Hst) by (rewrite Hl4; exact Hak). apply F. exact Hak. }
    split; [exact Hl2|]. split.
    { rewrite flat_snoc. rewrite (flat_frame m2 m3 (x, 4) el Fr2 Hsep), Fl2. cbn [bind]. rewrite Lb2. reflexivity. }
    split; [exact Lb2|]. split; [exact HH|exact Fr2].
  Qed.

  Theorem serialize_wire_checked_iov sh ms x sst vals0 wf0 Fs0 D body0 :
    sh_checked sh = true -> shape_wf sh -> lay_fs (sh_fields sh) -> (forall b, psep (aranges_fs (sh_fields sh) b)) ->
    mem_bytes ms -> Forall (fun L => L <= STRIDE) (lens ms) -> 0 <= x ->
    serialize hstep cfg_final sh ms x = Ok sst -> s_full sst = false ->
    rd_fs (perm (sh_fields sh)) ms x = Ok (vals0, wf0, Fs0) -> dn_fs (perm (sh_fields sh)) ms x = Ok D ->
    psep D -> (forall d, In d D -> sep (x, sh_size sh) d) -> len wf0 < W64 ->
    load ms x (sh_size sh) = Ok body0 -> load ms x 4 = Ok (le_enc 4 0) ->
    (forall r, In r (aranges_fs (perm (sh_fields sh)) x) -> sep r (x, 4)) ->
    (forall e, In e (removelast (i_el (s_iov sst))) -> sep e (x, 4)) ->
    exists vals wf Fs body,
      lens (s_mem sst) = lens ms /\
      rd_fs (perm (sh_fields sh)) (s_mem sst) x = Ok (vals, wf, Fs) /\ vsums vals /\ len Fs = len Fs0 /\
      load (s_mem sst) x (sh_size sh) = Ok body /\ flat (s_mem sst) (i_el (s_iov sst)) = Ok (wf ++ body) /\
      le_dec (firstn 4 body) = hash_ext hstep (hash_ext hstep 0 wf) (le_enc 4 (hash_ext hstep 0 wf) ++ skipn 4 body).
  Proof.
    intros Hck Hsh Hlay Hps Hbm Hmswf Hx Hser Hf Hrd Hdn HpD HsD Hw Lb L0 Hst4 Hsep.
    pose proof Hsh as [Hsz [_ Hck4]]. specialize (Hck4 Hck).
    unfold serialize in Hser. rewrite Hck in Hser. rewrite s_pass_filt in Hser.
    set (st0 := mkS ms (mkIov 4 [] 0 32) false) in *.
    assert (H2 : exists st2 m', s_fields cfg_final (perm (sh_fields sh)) st0 x = Ok st2 /\
                 hash_iov hstep (s_mem (s_push st2 x (sh_size sh))) x (i_el (s_iov (s_push st2 x (sh_size sh)))) = Ok m' /\
                 sst = mkS m' (s_iov (s_push st2 x (sh_size sh))) (s_full (s_push st2 x (sh_size sh)))).
    { unfold perm. rewrite s_fields_app. destruct (s_fields cfg_final (filt true (sh_fields sh)) st0 x) as [st1|]; cbn [bind] in *; [|discriminate Hser].
      rewrite s_pass_filt in Hser.
      destruct (s_fields cfg_final (filt false (sh_fields sh)) st1 x) as [st2|]; cbn [bind] in *; [|discriminate Hser].
      destruct (hash_iov hstep (s_mem (s_push st2 x (sh_size sh))) x (i_el (s_iov (s_push st2 x (sh_size sh))))) as [m'|] eqn:Eh; cbn [bind] in Hser; [|discriminate Hser].
      inversion Hser. eauto. }
    destruct H2 as [st2 [m' [H2 [Hh ->]]]]. cbn [s_full s_mem s_iov] in *.
    assert (Hf2 : s_full st2 = false) by (eapply s_push_full; eauto).
    destruct (s_fields_perm_iov sh ms x st2 vals0 wf0 Fs0 D Hsh Hlay Hps Hbm H2 Hf2 Hrd Hdn HpD HsD Hw)
      as [Hl2 [Hb2 [Fr2 [vals [wf [Fs [Q1 [Q2 [Q3 [Q4 [Q6 Q5]]]]]]]]]]].
    assert (E3 : i_el (s_iov (s_push st2 x (sh_size sh))) = i_el (s_iov st2) ++ [(x, sh_size sh)]).
    { revert Hf. unfold s_push. destruct (0 <? i_cap (s_iov st2) - i_end (s_iov st2)); [|cbn; discriminate].
      destruct (0 <? sh_size sh) eqn:E; [|apply Z.ltb_ge in E; lia]. cbn. auto. }
    rewrite s_push_mem, E3 in Hh. rewrite E3 in Hsep |- *. rewrite removelast_last in Hsep.
    assert (L02 : load (s_mem st2) x 4 = Ok (le_enc 4 0)).
    { rewrite Fr2; [exact L0|]. intros r [Hr|Hr]; [apply sep_sym; apply Hst4; exact Hr|].
      apply sep_sym. eapply sep_sub_r; [apply sep_sym; apply HsD; exact Hr|]. unfold within. cbn [fst snd]. lia. }
    destruct (load_lens _ (s_mem st2) _ _ _ Lb Hl2) as [body2 [Lb2 _]].
    destruct (checksum_tail (s_mem st2) x (sh_size sh) (i_el (s_iov st2)) wf body2 m' Hck4 Hb2 ltac:(rewrite Hl2; exact Hmswf) Hx Q5 Lb2 L02 Hsep Hh)
      as [Hl' [Fl' [Lb' [HH Fr']]]].
    set (h := hash_ext hstep 0 wf) in *. set (H := hash_ext hstep h (le_enc 4 h ++ skipn 4 body2)) in *.
    exists vals, wf, Fs, (le_enc 4 H ++ skipn 4 body2).
    split; [congruence|]. split.
    { apply (proj2 (rd_stable (s_mem st2) m') _ _ _ Q1). cbn [snd]. intros r Hr y k Wk. apply Fr'.
      eapply within_sep; [exact Wk|].
      destruct (Q6 r Hr) as [Hz|[[s [Hs W]]|[c [Hc W]]]].
      - unfold sep. left. cbn [snd]. exact Hz.
      - eapply within_sep; [exact W|]. apply Hst4. exact Hs.
      - eapply within_sep; [exact W|]. eapply sep_sub_r; [apply sep_sym; apply HsD; exact Hc|]. unfold within. cbn [fst snd]. lia. }
    split; [exact Q2|]. split; [exact Q4|]. split; [exact Lb'|]. split; [exact Fl'|].
    assert (Hl4 : length (le_enc 4 H) = 4%nat) by reflexivity.
    rewrite firstn_app, <- Hl4, firstn_all, Nat.sub_diag. cbn [firstn]. rewrite app_nil_r.
    rewrite skipn_app, <- Hl4 at 1. rewrite skipn_all, Nat.sub_diag. cbn [skipn app].
    fold h. apply le_dec_enc4. exact HH.
  Qed.

  (* ser_roundtrip: every shape, CheckedMessage, values in declared order *)
  Theorem ser_roundtrip_checked sh ms x sst vals0 wf0 Fs0 D body0 mr v :
    shape_wf sh -> sh_checked sh = true ->
    lay_fs (sh_fields sh) -> (forall b, psep (aranges_fs (sh_fields sh) b)) ->
    mem_bytes ms -> Forall (fun L => L <= STRIDE) (lens ms) -> 0 <= x ->
    rd_fs (perm (sh_fields sh)) ms x = Ok (vals0, wf0, Fs0) -> dn_fs (perm (sh_fields sh)) ms x = Ok D ->
    psep D -> (forall d, In d D -> sep (x, sh_size sh) d) -> len wf0 < W64 ->
    load ms x (sh_size sh) = Ok body0 -> load ms x 4 = Ok (le_enc 4 0) ->
    (forall r, In r (aranges_fs (perm (sh_fields sh)) x) -> sep r (x, 4)) ->
    serialize hstep cfg_final sh ms x = Ok sst -> s_full sst = false ->
    (forall e, In e (removelast (i_el (s_iov sst))) -> sep e (x, 4)) ->
    inv mr v -> psep (i_el v) -> flat mr (i_el v) = flat (s_mem sst) (i_el (s_iov sst)) ->
    i_nb v + 1 + len Fs0 <= i_cap v ->
    exists vals ws Fss t st w2 F,
      rd_fs (sh_fields sh) (s_mem sst) x = Ok (vals, ws, Fss) /\
      deserialize hstep cfg_final sh mr v = Ok (t, st) /\ t <> 0 /\
      ptr_ok (lens (d_mem st)) t (sh_size sh) /\
      rd_fs (sh_fields sh) (d_mem st) t = Ok (vals, w2, F) /\
      flat (d_mem st) (i_el (d_iov st)) = Ok [].
  Proof.
    intros Hsh Hck Hlay Hps Hbm Hmswf Hx Hrd Hdn HpD HsD Hw Lb L0 Hst4 Hser Hfull Hsep Hinv Hpe Hfl Hnb.
    destruct (serialize_wire_checked_iov sh ms x sst vals0 wf0 Fs0 D body0 Hck Hsh Hlay Hps Hbm Hmswf Hx Hser Hfull Hrd Hdn HpD HsD Hw Lb L0 Hst4 Hsep)
      as [pv [wf [Fs [body [Hl [Q1 [Q2 [Q4 [Q5 [Q6 Q7]]]]]]]]]].
    rewrite Q6 in Hfl.
    destruct (deserialize_rt_checked_iov hstep hstep_range sh (s_mem sst) x mr v pv wf Fs body Hsh Hck Hlay Hps ltac:(rewrite Hl; exact Hmswf) Q1 Q2 Q5 Q7 Hinv Hfl Hpe ltac:(lia))
      as [t [st [w2 [F [H1 [H2 [H3 [H4 H5]]]]]]]].
    destruct (rd_declared_exists _ _ _ _ _ _ Q1) as [vals [ws' [Fss' [Hd ->]]]].
    destruct (rd_declared_of_perm _ _ _ _ _ _ (rd_len _ _ _ _ _ _ Hd) H4) as [w3 [F3 H6]].
    exists vals, ws', Fss', t, st, w3, F3. auto 10.
  Qed.
End FC.

(* ---- ser_roundtrip as ONE statement: every shape, with or without CheckedMessage ---- *)
Theorem ser_roundtrip_all hstep sh ms x sst vals0 wf0 Fs0 D body0 mr v :
  (forall h b, 0 <= h < W32 -> 0 <= b < 256 -> 0 <= hstep h b < W32) ->
  shape_wf sh -> lay_fs (sh_fields sh) -> (forall b, psep (aranges_fs (sh_fields sh) b)) ->
  (* the sender: a byte memory in which the value is readable, whose buffers (dn_fs: every range a slot
     points to, to any depth) do not alias each other or the message struct *)
  mem_bytes ms -> Forall (fun L => L <= STRIDE) (lens ms) ->
  rd_fs (perm (sh_fields sh)) ms x = Ok (vals0, wf0, Fs0) -> dn_fs (perm (sh_fields sh)) ms x = Ok D ->
  psep D -> (forall d, In d D -> sep (x, sh_size sh) d) -> len wf0 < W64 ->
  load ms x (sh_size sh) = Ok body0 ->
  (* CheckedMessage: m_checksum starts at 0 and is not overlapped by a field or an emitted piece *)
  (sh_checked sh = true -> 0 <= x /\ load ms x 4 = Ok (le_enc 4 0) /\
     (forall r, In r (aranges_fs (perm (sh_fields sh)) x) -> sep r (x, 4)) /\
     (forall e, In e (removelast (i_el (s_iov sst))) -> sep e (x, 4))) ->
  serialize hstep cfg_final sh ms x = Ok sst -> s_full sst = false ->
  (* the receiver: any memory, any vector of pairwise separated elements denoting the emitted bytes *)
  inv mr v -> psep (i_el v) -> flat mr (i_el v) = flat (s_mem sst) (i_el (s_iov sst)) ->
  i_nb v + 1 + len Fs0 <= i_cap v ->
  exists vals ws Fss t st w2 F,
    rd_fs (sh_fields sh) (s_mem sst) x = Ok (vals, ws, Fss) /\
    deserialize hstep cfg_final sh mr v = Ok (t, st) /\ t <> 0 /\
    ptr_ok (lens (d_mem st)) t (sh_size sh) /\
    rd_fs (sh_fields sh) (d_mem st) t = Ok (vals, w2, F) /\
    flat (d_mem st) (i_el (d_iov st)) = Ok [].
Proof.
  intros Hr Hsh Hlay Hps Hbm Hmswf Hrd Hdn HpD HsD Hw Lb Hchk Hser Hfull Hinv Hpe Hfl Hnb.
  destruct (sh_checked sh) eqn:Hck.
  - destruct (Hchk eq_refl) as [Hx [L0 [Hst4 Hsep]]].
    exact (ser_roundtrip_checked hstep Hr sh ms x sst vals0 wf0 Fs0 D body0 mr v Hsh Hck Hlay Hps Hbm Hmswf Hx Hrd Hdn HpD HsD Hw Lb L0 Hst4 Hser Hfull Hsep Hinv Hpe Hfl Hnb).
  - exact (ser_roundtrip_unchecked hstep sh ms x sst vals0 wf0 Fs0 D body0 mr v Hsh Hck Hlay Hps Hbm Hmswf Hrd Hdn HpD HsD Hw Lb Hser Hfull Hinv Hpe Hfl Hnb).
Qed.

(* ---- the hypotheses are inhabited: struct { uint64 a; iovec_array v; } (harness type T7) whose array names two
   pieces "\n\v\f" and "\r\016" and carries a STALE summed_size 0; 37 wire bytes cut 2 + 10 + 25, so that the
   iovec array is recorded as two pieces and the body takes the copy fallback ---- *)
Definition ex_i_sh : shape := mkShape 32 false (FCons 0 (FFixed 8) (FCons 8 FIov FNil)).
Definition ex_i_body : list byte :=
  [1; 2; 3; 4; 5; 6; 7; 8] ++ [0; 0; 0; 0; 1; 48; 0; 0] ++ [32; 0; 0; 0; 0; 0; 0; 0] ++ [0; 0; 0; 0; 0; 0; 0; 0].
Definition ex_i_ents : list byte :=
  [0; 0; 0; 0; 2; 48; 0; 0] ++ [3; 0; 0; 0; 0; 0; 0; 0] ++ [0; 0; 0; 0; 3; 48; 0; 0] ++ [2; 0; 0; 0; 0; 0; 0; 0].
Definition ex_i_ms : mem := [ex_i_body; ex_i_ents; [10; 11; 12]; [13; 14]].
Definition ex_i_hs : Z -> byte -> Z := fun h _ => h.
Definition ex_i_wire : list byte :=
  match serialize ex_i_hs cfg_final ex_i_sh ex_i_ms (region_base 0) with
  | Ok sst => match flat (s_mem sst) (i_el (s_iov sst)) with Ok w => w | Err _ => [] end
  | Err _ => []
  end.
Definition ex_i_mr : mem := [firstn 2 ex_i_wire; firstn 10 (skipn 2 ex_i_wire); skipn 12 ex_i_wire].
Definition ex_i_v : iovs := mkIov 4 [(region_base 0, 2); (region_base 1, 10); (region_base 2, 25)] 0 32.

Example ser_roundtrip_hyps_inhabited_iov :
  exists sst vals ws Fss t st w2 F,
    serialize ex_i_hs cfg_final ex_i_sh ex_i_ms (region_base 0) = Ok sst /\
    rd_fs (sh_fields ex_i_sh) (s_mem sst) (region_base 0) = Ok (vals, ws, Fss) /\
    vals = [VFix [1; 2; 3; 4; 5; 6; 7; 8]; VIov 5 [10; 11; 12; 13; 14]] /\
    deserialize ex_i_hs cfg_final ex_i_sh ex_i_mr ex_i_v = Ok (t, st) /\ t <> 0 /\
    rd_fs (sh_fields ex_i_sh) (d_mem st) t = Ok (vals, w2, F).
Proof.
  destruct (serialize ex_i_hs cfg_final ex_i_sh ex_i_ms (region_base 0)) as [sst|] eqn:Hser; [|vm_compute in Hser; discriminate].
  edestruct (ser_roundtrip_unchecked ex_i_hs ex_i_sh ex_i_ms (region_base 0) sst) as [vals [ws [Fss [t [st [w2 [F [H0 [H1 [H2 [_ [H4 _]]]]]]]]]]]].
  - unfold shape_wf. cbn. repeat split; lia.
  - reflexivity.
  - cbn. tauto.
  - intros b. cbn. repeat split; try tauto; intros y Hy; cbn in Hy;
      repeat (destruct Hy as [<-|Hy]; [unfold sep; cbn [fst snd]; lia|]); destruct Hy.
  - unfold mem_bytes, ex_i_ms. repeat (apply Forall_cons; [apply bytes_okb'_ok; vm_compute; reflexivity|]). apply Forall_nil.
  - change (lens ex_i_ms) with [32; 32; 3; 2]. repeat constructor; unfold STRIDE; lia.
  - vm_compute. reflexivity.
  - vm_compute. reflexivity.
  - cbn. repeat split; try tauto; intros y Hy; cbn in Hy;
      repeat (destruct Hy as [<-|Hy]; [unfold sep; cbn [fst snd]; lia|]); destruct Hy.
  - intros d Hd. cbn in Hd. repeat (destruct Hd as [<-|Hd]; [unfold sep, region_base, ARENA, STRIDE, ex_i_sh; cbn [fst snd sh_size]; lia|]). destruct Hd.
  - vm_compute. reflexivity.
  - vm_compute. reflexivity.
  - exact Hser.
  - vm_compute in Hser. inversion Hser. reflexivity.
  - instantiate (1 := ex_i_v). instantiate (1 := ex_i_mr). unfold inv. split.
    { unfold mem_bytes, ex_i_mr. repeat (apply Forall_cons; [apply bytes_okb'_ok; vm_compute; reflexivity|]). apply Forall_nil. }
    split; [change (lens ex_i_mr) with [2; 10; 25]; repeat constructor; unfold STRIDE; lia|].
    split.
    { change (lens ex_i_mr) with [2; 10; 25]. unfold ex_i_v. cbn [i_el].
      repeat (apply Forall_cons; [unfold el_ok; cbn [fst snd]; split; [lia|]; split; [vm_compute; reflexivity|]; split; vm_compute; congruence|]).
      apply Forall_nil. }
    split; [vm_compute; congruence|]. split; [vm_compute; congruence|]. split; vm_compute; congruence.
  - cbn. repeat split; try tauto; intros y Hy; cbn in Hy;
      repeat (destruct Hy as [<-|Hy]; [unfold sep, region_base, ARENA, STRIDE; cbn [fst snd]; lia|]); destruct Hy.
  - vm_compute in Hser. inversion Hser. subst sst. vm_compute. reflexivity.
  - vm_compute. congruence.
  - exists sst, vals, ws, Fss, t, st, w2, F. split; [reflexivity|]. split; [exact H0|]. split; [|auto].
    vm_compute in Hser. inversion Hser. subst sst. vm_compute in H0. inversion H0. reflexivity.
Qed.
