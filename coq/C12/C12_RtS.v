(* C12_RtS.v — route (d) of ser_roundtrip: the serializer side.  The iovec list SerializerIOV
   builds denotes exactly the flat wire string of C12_Wire.v: for every field the pieces pushed
   are, in order, wire(f); the whole message is  wire(aligned fields) ++ wire(other fields) ++ body. *)
From Coq Require Import ZArith List Bool Lia.
From PV Require Import Base.U64 C12.C12_Model C12.C12_Mem C12.C12_MemC C12.C12_Iov C12.C12_Flat C12.C12_Deser C12.C12_Sep C12.C12_Wire C12.C12_RtD.
Import ListNotations.
Local Open Scope Z_scope.

Definition s_loop (efs : fields) (esz : Z) := fix loop (k : nat) (st : sst) (e : Z) {struct k} : res sst :=
  match k with O => Ok st | S k' => st' <- s_fields cfg_final efs st e ;; loop k' st' (e + esz) end.

Lemma s_loop_S efs esz k st e : s_loop efs esz (S k) st e = (st' <- s_fields cfg_final efs st e ;; s_loop efs esz k st' (e + esz)).
Proof. reflexivity. Qed.

Lemma s_field_arr esz efs st a : s_field cfg_final (FArr esz efs) st a =
  (st1 <- s_buffer st a ;;
   if fields_active efs then
     p <- load64 (s_mem st1) a ;; n <- load64 (s_mem st1) (a + 8) ;; s_loop efs esz (Z.to_nat (n / esz)) st1 p
   else Ok st1).
Proof. reflexivity. Qed.

(* ---- s_full is sticky ---- *)
Lemma s_push_mono st p n : s_full st = true -> s_full (s_push st p n) = true.
Proof. intros H. unfold s_push. destruct (0 <? i_cap (s_iov st) - i_end (s_iov st)); [destruct (0 <? n); cbn; auto|reflexivity]. Qed.

Lemma s_buffer_mono st a st' : s_buffer st a = Ok st' -> s_full st = true -> s_full st' = true.
Proof.
  unfold s_buffer. destruct (load64 (s_mem st) a); cbn [bind]; [|discriminate].
  destruct (load64 (s_mem st) (a + 8)); cbn [bind]; [|discriminate]. intros H. inversion H. apply s_push_mono.
Qed.

Lemma s_mono :
  (forall f st a st', sup_f f -> s_field cfg_final f st a = Ok st' -> s_full st = true -> s_full st' = true) /\
  (forall fs st base st', sup_fs fs -> s_fields cfg_final fs st base = Ok st' -> s_full st = true -> s_full st' = true).
Proof.
  apply field_fields_mut.
  - intros n st a st' _ H. cbn in H. inversion H. auto.
  - intros st a st' _ H. cbn [s_field] in H. eapply s_buffer_mono; eauto.
  - intros st a st' _ H. cbn [s_field] in H. eapply s_buffer_mono; eauto.
  - intros n st a st' _ H. cbn [s_field] in H. eapply s_buffer_mono; eauto.
  - intros st a st' _ H. cbn [s_field fix_nested_al cfg_final] in H. eapply s_buffer_mono; eauto.
  - intros esz efs IH st a st' Hs H Hf. rewrite s_field_arr in H. cbn [sup_f] in Hs.
    destruct (s_buffer st a) as [st1|] eqn:E1; cbn [bind] in H; [|discriminate].
    pose proof (s_buffer_mono _ _ _ E1 Hf) as Hf1. destruct (fields_active efs); [|inversion H; subst; exact Hf1].
    destruct (load64 (s_mem st1) a) as [p|]; cbn [bind] in H; [|discriminate].
    destruct (load64 (s_mem st1) (a + 8)) as [n|]; cbn [bind] in H; [|discriminate].
    assert (Hm : forall k st e st', s_loop efs esz k st e = Ok st' -> s_full st = true -> s_full st' = true).
    { clear - IH Hs. induction k as [|k IHk]; intros st e st' H Hf; [inversion H; subst; exact Hf|].
      rewrite s_loop_S in H. destruct (s_fields cfg_final efs st e) as [st2|] eqn:E2; cbn [bind] in H; [|discriminate].
      eapply IHk; [exact H|]. eapply IH; eauto. }
    eapply Hm; eauto.
  - intros st a st' [].
  - intros st a st' [].
  - intros fs IH st a st' Hs H. cbn [s_field sup_f] in *. eapply IH; eauto.
  - intros vsz vfs _ st a st' _ H Hf. cbn [s_field] in H.
    destruct (s_buffer st a) as [st1|] eqn:E1; cbn [bind] in H; [|discriminate].
    eapply s_buffer_mono; [exact H|]. eapply s_buffer_mono; eauto.
  - intros st base st' _ H. cbn in H. inversion H. auto.
  - intros off f IHf r IHr st base st' [Hsf Hsr] H Hf. rewrite s_fields_cons in H.
    destruct (s_field cfg_final f st (base + off)) as [st1|] eqn:E1; cbn [bind] in H; [|discriminate].
    eapply IHr; [exact Hsr|exact H|]. eapply IHf; eauto.
Qed.

Lemma not_true_false b : (b = true -> False) -> b = false.
Proof. destruct b; [intros H; exfalso; auto|reflexivity]. Qed.

(* ---- what the pieces denote ---- *)
Definition spost (st st' : sst) (w0 w : list byte) : Prop :=
  s_mem st' = s_mem st /\ flat (s_mem st) (i_el (s_iov st')) = Ok (w0 ++ w).

Lemma s_push_flat st p n bs w0 : s_full (s_push st p n) = false -> load (s_mem st) p n = Ok bs ->
  flat (s_mem st) (i_el (s_iov st)) = Ok w0 -> spost st (s_push st p n) w0 bs.
Proof.
  unfold s_push, spost. intros Hf Lb Fl. destruct (0 <? i_cap (s_iov st) - i_end (s_iov st)); [|discriminate].
  destruct (0 <? n) eqn:En; cbn [s_mem s_iov i_el].
  - split; [reflexivity|]. rewrite flat_snoc, Fl. cbn [bind]. rewrite Lb. reflexivity.
  - apply Z.ltb_ge in En. rewrite load_nonpos in Lb by lia. inversion Lb. rewrite app_nil_r. auto.
Qed.

Lemma s_buffer_flat st a st' p n bs w0 : s_buffer st a = Ok st' -> s_full st' = false ->
  load64 (s_mem st) a = Ok p -> load64 (s_mem st) (a + 8) = Ok n -> load (s_mem st) p n = Ok bs ->
  flat (s_mem st) (i_el (s_iov st)) = Ok w0 -> spost st st' w0 bs.
Proof.
  unfold s_buffer. intros H Hf L1 L2 L3 Fl. rewrite L1, L2 in H. cbn [bind] in H. inversion H. subst st'.
  apply s_push_flat; auto.
Qed.

Definition Sf (f : field) : Prop := forall st a st' val w F w0,
  sup_f f -> s_field cfg_final f st a = Ok st' -> s_full st' = false ->
  rd_f f (s_mem st) a = Ok (val, w, F) -> flat (s_mem st) (i_el (s_iov st)) = Ok w0 -> spost st st' w0 w.
Definition Sfs (fs : fields) : Prop := forall st base st' vals w F w0,
  sup_fs fs -> s_fields cfg_final fs st base = Ok st' -> s_full st' = false ->
  rd_fs fs (s_mem st) base = Ok (vals, w, F) -> flat (s_mem st) (i_el (s_iov st)) = Ok w0 -> spost st st' w0 w.

Lemma s_leaf f : (forall st a, s_field cfg_final f st a = s_buffer st a) -> (forall m a, rd_f f m a = rd_f FBuf m a) -> Sf f.
Proof.
  intros Hd Hr st a st' val w F w0 _ H Hf Hrd Fl. rewrite Hd in H. rewrite Hr in Hrd. cbn [rd_f] in Hrd.
  destruct (load64 (s_mem st) a) as [p|] eqn:L1; cbn [bind] in Hrd; [|discriminate].
  destruct (load64 (s_mem st) (a + 8)) as [n|] eqn:L2; cbn [bind] in Hrd; [|discriminate].
  destruct (load (s_mem st) p n) as [bs|] eqn:L3; cbn [bind] in Hrd; [|discriminate].
  inversion Hrd. subst. eapply s_buffer_flat; eauto.
Qed.

Lemma s_all : (forall f, Sf f) /\ (forall fs, Sfs fs).
Proof.
  apply field_fields_mut.
  - intros n st a st' val w F w0 _ H _ Hrd Fl. cbn in H. inversion H. subst st'. cbn [rd_f] in Hrd.
    destruct (load (s_mem st) a n); cbn [bind] in Hrd; [|discriminate]. inversion Hrd. split; [reflexivity|]. rewrite app_nil_r. exact Fl.
  - apply s_leaf; reflexivity.
  - apply s_leaf; reflexivity.
  - intros n. apply s_leaf; reflexivity.
  - apply s_leaf; reflexivity.
  - (* FArr *) intros esz efs IH st a st' val w F w0 Hs H Hf Hrd Fl. cbn [sup_f] in Hs. rewrite s_field_arr in H. cbn [rd_f] in Hrd.
    destruct (load64 (s_mem st) a) as [p|] eqn:L1; cbn [bind] in Hrd; [|discriminate].
    destruct (load64 (s_mem st) (a + 8)) as [n|] eqn:L2; cbn [bind] in Hrd; [|discriminate].
    destruct (load (s_mem st) p n) as [bs|] eqn:L3; cbn [bind] in Hrd; [|discriminate].
    destruct (s_buffer st a) as [st1|] eqn:E1; cbn [bind] in H; [|discriminate].
    destruct (fields_active efs) eqn:Ea.
    2:{ inversion H. subst st1. inversion Hrd. subst. eapply s_buffer_flat; eauto. }
    destruct (rd_elems (rd_fs efs (s_mem st)) (Z.to_nat (n / esz)) p esz) as [[[vs we] Fe]|] eqn:Ee; cbn [bind] in Hrd; [|discriminate].
    inversion Hrd. subst val w F. clear Hrd.
    assert (Hloop : forall k st1 e st' vs we Fe w1, s_loop efs esz k st1 e = Ok st' -> s_full st' = false ->
              rd_elems (rd_fs efs (s_mem st1)) k e esz = Ok (vs, we, Fe) -> flat (s_mem st1) (i_el (s_iov st1)) = Ok w1 ->
              s_full st1 = false /\ spost st1 st' w1 we).
    { clear - IH Hs. induction k as [|k IHk]; intros st1 e st' vs we Fe w1 H Hf Hrd Fl.
      - cbn in H. inversion H. subst st'. cbn in Hrd. inversion Hrd. split; [exact Hf|]. split; [reflexivity|]. rewrite app_nil_r. exact Fl.
      - rewrite s_loop_S in H. destruct (s_fields cfg_final efs st1 e) as [st2|] eqn:E2; cbn [bind] in H; [|discriminate].
        cbn [rd_elems] in Hrd.
        destruct (rd_fs efs (s_mem st1) e) as [[[v1 w1'] F1]|] eqn:R1; cbn [bind] in Hrd; [|discriminate].
        destruct (rd_elems (rd_fs efs (s_mem st1)) k (e + esz) esz) as [[[vs' w2] F2]|] eqn:R2; cbn [bind] in Hrd; [|discriminate].
        inversion Hrd. subst vs we Fe.
        assert (Hf2 : s_full st2 = false).
        { apply not_true_false. intros Ht.
          assert (Hm : forall k st e st', s_loop efs esz k st e = Ok st' -> s_full st = true -> s_full st' = true).
          { clear - Hs. induction k as [|k IHk]; intros st e st' H Hf; [inversion H; subst; exact Hf|].
            rewrite s_loop_S in H. destruct (s_fields cfg_final efs st e) as [st2|] eqn:E2; cbn [bind] in H; [|discriminate].
            eapply IHk; [exact H|]. eapply (proj2 s_mono); eauto. }
          rewrite (Hm _ _ _ _ H Ht) in Hf. discriminate. }
        destruct (IH st1 e st2 v1 w1' F1 w1 Hs E2 Hf2 R1 Fl) as [Hm2 Fl2].
        rewrite <- Hm2 in R2, Fl2.
        destruct (IHk st2 (e + esz) st' vs' w2 F2 (w1 ++ w1') H Hf R2 Fl2) as [_ [Hm3 Fl3]].
        split.
        { apply not_true_false. intros Ht. rewrite (proj2 s_mono efs st1 e st2 Hs E2 Ht) in Hf2. discriminate. }
        split; [congruence|]. rewrite <- Hm2. rewrite Fl3, app_assoc. reflexivity. }
    destruct (load64 (s_mem st1) a) as [p'|] eqn:L1'; cbn [bind] in H; [|discriminate].
    destruct (load64 (s_mem st1) (a + 8)) as [n'|] eqn:L2'; cbn [bind] in H; [|discriminate].
    assert (Hf1 : s_full st1 = false /\ spost st st1 w0 bs /\ p' = p /\ n' = n).
    { assert (Hm1 : s_mem st1 = s_mem st).
      { revert E1. unfold s_buffer. rewrite L1, L2. cbn [bind]. intros E. inversion E. unfold s_push.
        destruct (0 <? i_cap (s_iov st) - i_end (s_iov st)); [destruct (0 <? n)|]; reflexivity. }
      rewrite Hm1 in L1', L2'. rewrite L1 in L1'. rewrite L2 in L2'. inversion L1'. inversion L2'. subst p' n'.
      assert (Hf1 : s_full st1 = false).
      { destruct (s_full st1) eqn:Et; [|reflexivity]. exfalso.
        assert (Hm : forall k st e st', s_loop efs esz k st e = Ok st' -> s_full st = true -> s_full st' = true).
        { clear - Hs. induction k as [|k IHk]; intros st e st' H Hf; [inversion H; subst; exact Hf|].
          rewrite s_loop_S in H. destruct (s_fields cfg_final efs st e) as [st2|] eqn:E2; cbn [bind] in H; [|discriminate].
          eapply IHk; [exact H|]. eapply (proj2 s_mono); eauto. }
        rewrite (Hm _ _ _ _ H Et) in Hf. discriminate. }
      split; [exact Hf1|]. split; [eapply s_buffer_flat; eauto|auto]. }
    destruct Hf1 as [Hf1 [[Hm1 Fl1] [-> ->]]].
    rewrite <- Hm1 in Ee, Fl1.
    destruct (Hloop _ _ _ _ _ _ _ _ H Hf Ee Fl1) as [_ [Hm2 Fl2]].
    split; [congruence|]. rewrite <- Hm1, Fl2, app_assoc. reflexivity.
  - intros st a st' val w F w0 [].
  - intros st a st' val w F w0 [].
  - (* FNest *) intros fs IH st a st' val w F w0 Hs H Hf Hrd Fl. cbn [s_field sup_f rd_f] in *.
    destruct (rd_fs fs (s_mem st) a) as [[[vs w1] F1]|] eqn:E1; cbn [bind] in Hrd; [|discriminate]. inversion Hrd. subst.
    eapply IH; eauto.
  - (* FMap *) intros vsz vfs _ st a st' val w F w0 _ H Hf Hrd Fl. cbn [s_field rd_f] in *.
    destruct (load64 (s_mem st) a) as [ip|] eqn:L1; cbn [bind] in Hrd; [|discriminate].
    destruct (load64 (s_mem st) (a + 8)) as [inn|] eqn:L2; cbn [bind] in Hrd; [|discriminate].
    destruct (load (s_mem st) ip inn) as [ibs|] eqn:L3; cbn [bind] in Hrd; [|discriminate].
    destruct (load64 (s_mem st) (a + 16)) as [bp|] eqn:L4; cbn [bind] in Hrd; [|discriminate].
    destruct (load64 (s_mem st) (a + 24)) as [bn|] eqn:L5; cbn [bind] in Hrd; [|discriminate].
    destruct (load (s_mem st) bp bn) as [bbs|] eqn:L6; cbn [bind] in Hrd; [|discriminate].
    inversion Hrd. subst val w F. clear Hrd.
    destruct (s_buffer st a) as [st1|] eqn:E1; cbn [bind] in H; [|discriminate].
    assert (Hf1 : s_full st1 = false).
    { apply not_true_false. intros Ht. rewrite (s_buffer_mono _ _ _ H Ht) in Hf. discriminate. }
    destruct (s_buffer_flat st a st1 ip inn ibs w0 E1 Hf1 L1 L2 L3 Fl) as [Hm1 Fl1].
    rewrite <- Hm1 in L4, L5, L6, Fl1. replace (a + 24) with (a + 16 + 8) in L5 by lia.
    destruct (s_buffer_flat st1 (a + 16) st' bp bn bbs (w0 ++ ibs) H Hf L4 L5 L6 Fl1) as [Hm2 Fl2].
    split; [congruence|]. rewrite <- Hm1, Fl2, app_assoc. reflexivity.
  - intros st base st' vals w F w0 _ H _ Hrd Fl. cbn in H. inversion H. subst st'. cbn in Hrd. inversion Hrd.
    split; [reflexivity|]. rewrite app_nil_r. exact Fl.
  - intros off f IHf r IHr st base st' vals w F w0 [Hsf Hsr] H Hf Hrd Fl. rewrite s_fields_cons in H. cbn [rd_fs] in Hrd.
    destruct (s_field cfg_final f st (base + off)) as [st1|] eqn:E1; cbn [bind] in H; [|discriminate].
    destruct (rd_f f (s_mem st) (base + off)) as [[[v1 w1] F1]|] eqn:R1; cbn [bind] in Hrd; [|discriminate].
    destruct (rd_fs r (s_mem st) base) as [[[vs w2] F2]|] eqn:R2; cbn [bind] in Hrd; [|discriminate].
    inversion Hrd. subst vals w F. clear Hrd.
    assert (Hf1 : s_full st1 = false).
    { apply not_true_false. intros Ht. rewrite (proj2 s_mono r st1 base st' Hsr H Ht) in Hf. discriminate. }
    destruct (IHf st (base + off) st1 v1 w1 F1 w0 Hsf E1 Hf1 R1 Fl) as [Hm1 Fl1].
    rewrite <- Hm1 in R2, Fl1.
    destruct (IHr st1 base st' vs w2 F2 (w0 ++ w1) Hsr H Hf R2 Fl1) as [Hm2 Fl2].
    split; [congruence|]. rewrite <- Hm1, Fl2, app_assoc. reflexivity.
Qed.
