(* C12_Deser.v — DeserializerIOV::deserialize never accesses memory out of range:
   for every byte memory, every well-formed iovector over it (any fragmentation), every
   well-formed shape, the run of the model returns Ok (no Err EOOB / EHUGE). *)
From Coq Require Import ZArith List Bool Lia.
From PV Require Import Base.U64 C12.C12_Model C12.C12_Mem C12.C12_MemC C12.C12_Iov.
Import ListNotations.
Local Open Scope Z_scope.

(* every slot lies inside its enclosing struct; array elements have a positive size *)
Fixpoint field_wf (avail : Z) (f : field) : Prop :=
  match f with
  | FFixed n => 0 <= n <= avail
  | FBuf | FStr | FFixBuf _ | FABuf => 16 <= avail
  | FArr esz efs => 16 <= avail /\ 0 < esz /\ fields_wf esz efs
  | FIov | FAIov => 24 <= avail
  | FNest fs => fields_wf avail fs
  | FMap _ _ => 32 <= avail
  end
with fields_wf (sz : Z) (fs : fields) : Prop :=
  match fs with
  | FNil => True
  | FCons off f r => 0 <= off /\ field_wf (sz - off) f /\ fields_wf sz r
  end.

Definition shape_wf (sh : shape) : Prop :=
  0 < sh_size sh /\ fields_wf (sh_size sh) (sh_fields sh) /\ (sh_checked sh = true -> 4 <= sh_size sh).

Definition dpost (st st' : dst) : Prop :=
  inv (d_mem st') (d_iov st') /\ ext (lens (d_mem st)) (lens (d_mem st')).

Lemma dpost_refl st : inv (d_mem st) (d_iov st) -> dpost st st.
Proof. intros H. split; [exact H|apply ext_refl]. Qed.
Lemma dpost_trans a b c : dpost a b -> dpost b c -> dpost a c.
Proof. intros [_ E1] [I2 E2]. split; [exact I2|eapply ext_trans; eauto]. Qed.

Lemma inv_wf m v : inv m v -> Forall (fun L => L <= STRIDE) (lens m).
Proof. intros [_ [H _]]. exact H. Qed.
Lemma inv_bytes m v : inv m v -> mem_bytes m.
Proof. intros [H _]. exact H. Qed.

Lemma store64_ok m v a x : inv m v -> validb (lens m) a 8 = true ->
  exists m', store64 m a x = Ok m' /\ inv m' v /\ lens m' = lens m.
Proof.
  intros Hinv Hv. unfold store64.
  destruct (store_valid m a (le_enc 8 x)) as [m' [Hs Hl]]; [rewrite le_enc_len; exact Hv|].
  exists m'. split; [exact Hs|]. eapply inv_store; eauto. apply le_enc_bytes_ok.
Qed.

Lemma store32_ok m v a x : inv m v -> validb (lens m) a 4 = true ->
  exists m', store32 m a x = Ok m' /\ inv m' v /\ lens m' = lens m.
Proof.
  intros Hinv Hv. unfold store32.
  destruct (store_valid m a (le_enc 4 x)) as [m' [Hs Hl]]; [rewrite le_enc_len; exact Hv|].
  exists m'. split; [exact Hs|]. eapply inv_store; eauto. apply le_enc_bytes_ok.
Qed.

(* what d_buffer leaves in the slot it processed *)
Definition slot_post (m : mem) (a : Z) : Prop :=
  exists p n, load64 m a = Ok p /\ load64 m (a + 8) = Ok n /\ 0 <= n < W64 /\
              (p = 0 -> n = 0) /\ (n <> 0 -> ptr_ok (lens m) p n).

(* loads of ranges that were readable before and do not touch [a, a+w) are unchanged *)
Definition frame (m m' : mem) (a w : Z) : Prop :=
  forall x k, validb (lens m) x k = true -> (x + k <= a \/ a + w <= x) -> load m' x k = load m x k.

Lemma d_buffer_ok2 st a : inv (d_mem st) (d_iov st) -> validb (lens (d_mem st)) a 16 = true ->
  exists st', d_buffer cfg_final st a = Ok st' /\ dpost st st' /\ slot_post (d_mem st') a /\
              frame (d_mem st) (d_mem st') a 16.
Proof.
  intros Hinv Hv. destruct st as [m v fl]. cbn [d_mem d_iov d_failed] in *.
  pose proof (inv_wf _ _ Hinv) as Hwf. pose proof (inv_bytes _ _ Hinv) as Hbm.
  assert (Hva : validb (lens m) a 8 = true) by (apply (validb_sub' _ a 16); auto; lia).
  assert (Hvb : validb (lens m) (a + 8) 8 = true) by (apply (validb_sub' _ a 16); auto; lia).
  unfold d_buffer. cbn [d_mem d_iov d_failed fix_zero_ptr fix_fail_len cfg_final].
  destruct (load64_ok m (a + 8) Hbm Hvb) as [n [En Rn]]. rewrite En. cbn [bind].
  destruct (n =? 0) eqn:E0.
  - apply Z.eqb_eq in E0. subst n.
    destruct (store64_ok m v a 0 Hinv Hva) as [m1 [Hs [Hi1 Hl1]]]. rewrite Hs. cbn [bind].
    eexists. split; [reflexivity|]. unfold dpost. cbn [d_mem d_iov]. split; [split; [exact Hi1|rewrite Hl1; apply ext_refl]|].
    split.
    { exists 0, 0. split; [eapply load64_store64_same; eauto; unfold W64; lia|].
      split; [|split; [unfold W64; lia|split; [auto|intros H; congruence]]].
      rewrite (load64_store_other _ _ _ _ _ Hs); [exact En|]. rewrite le_enc_len. right. lia. }
    intros x k Hxk Hd. apply (load_store_other _ _ _ _ _ _ Hs). rewrite le_enc_len. change (Z.of_nat 8) with 8. lia.
  - apply Z.eqb_neq in E0.
    destruct (efc_ok m v n Hinv ltac:(lia)) as [p [m1 [v1 [He [Hi1 [Hx1 [_ [Hp Hfr]]]]]]]].
    rewrite He. cbn [bind].
    assert (Hva1 : validb (lens m1) a 8 = true) by (eapply validb_ext; eauto).
    assert (Hvb1 : validb (lens m1) (a + 8) 8 = true) by (eapply validb_ext; eauto).
    destruct (store64_ok m1 v1 a p Hi1 Hva1) as [m2 [Hs2 [Hi2 Hl2]]]. rewrite Hs2. cbn [bind].
    assert (En2 : load64 m2 (a + 8) = Ok n).
    { rewrite (load64_store_other _ _ _ _ _ Hs2); [|rewrite le_enc_len; right; lia].
      unfold load64. rewrite (Hfr _ _ Hvb). exact En. }
    destruct (p =? 0) eqn:Ep.
    + apply Z.eqb_eq in Ep. subst p.
      assert (Hvb2 : validb (lens m2) (a + 8) 8 = true) by (rewrite Hl2; exact Hvb1).
      destruct (store64_ok m2 v1 (a + 8) 0 Hi2 Hvb2) as [m3 [Hs3 [Hi3 Hl3]]]. rewrite Hs3. cbn [bind].
      eexists. split; [reflexivity|]. unfold dpost. cbn [d_mem d_iov].
      split; [split; [exact Hi3|rewrite Hl3, Hl2; exact Hx1]|].
      split.
      { exists 0, 0. split.
        { rewrite (load64_store_other _ _ _ _ _ Hs3); [|rewrite le_enc_len; left; lia].
          eapply load64_store64_same; eauto. unfold W64; lia. }
        split; [eapply load64_store64_same; eauto; unfold W64; lia|].
        split; [unfold W64; lia|]. split; [auto|intros H; congruence]. }
      intros x k Hxk Hd.
      rewrite (load_store_other _ _ _ _ _ _ Hs3) by (rewrite le_enc_len; change (Z.of_nat 8) with 8; lia).
      rewrite (load_store_other _ _ _ _ _ _ Hs2) by (rewrite le_enc_len; change (Z.of_nat 8) with 8; lia).
      apply Hfr. exact Hxk.
    + apply Z.eqb_neq in Ep. destruct Hp as [Hp|Hp]; [congruence|].
      eexists. split; [reflexivity|]. unfold dpost. cbn [d_mem d_iov].
      split; [split; [exact Hi2|rewrite Hl2; exact Hx1]|].
      destruct Hp as [P1 [P2 P3]].
      split.
      { exists p, n. split; [eapply load64_store64_same; eauto; lia|].
        split; [exact En2|]. split; [exact Rn|]. split; [intros H; congruence|].
        intros _. rewrite Hl2. split; [exact P1|]. split; [exact P2|exact P3]. }
      intros x k Hxk Hd.
      rewrite (load_store_other _ _ _ _ _ _ Hs2) by (rewrite le_enc_len; change (Z.of_nat 8) with 8; lia).
      apply Hfr. exact Hxk.
Qed.

Lemma d_buffer_ok st a : inv (d_mem st) (d_iov st) -> validb (lens (d_mem st)) a 16 = true ->
  exists st', d_buffer cfg_final st a = Ok st' /\ dpost st st' /\ slot_post (d_mem st') a.
Proof.
  intros H1 H2. destruct (d_buffer_ok2 st a H1 H2) as [st' [A [B [C _]]]]. eauto.
Qed.


(* process_field(iovec_array&) *)
Lemma d_iovarr_ok st a avail : 24 <= avail -> inv (d_mem st) (d_iov st) -> validb (lens (d_mem st)) a avail = true ->
  exists st', d_iovarr st a = Ok st' /\ dpost st st'.
Proof.
  intros Hav Hinv Hv. destruct st as [m v fl]. cbn [d_mem d_iov d_failed] in *.
  pose proof (inv_wf _ _ Hinv) as Hwf. pose proof (inv_bytes _ _ Hinv) as Hbm.
  assert (Hv0 : validb (lens m) a 8 = true) by (apply (validb_sub' _ a avail); auto; lia).
  assert (Hv1 : validb (lens m) (a + 8) 8 = true) by (apply (validb_sub' _ a avail); auto; lia).
  assert (Hv2 : validb (lens m) (a + 16) 8 = true) by (apply (validb_sub' _ a avail); auto; lia).
  unfold d_iovarr. cbn [d_mem d_iov d_failed].
  destruct (load64_ok m (a + 16) Hbm Hv2) as [summed [Es Rs]]. rewrite Es. cbn [bind].
  destruct (extract_front_view_ok m v summed Hinv ltac:(lia)) as [ret [ptr [cnt [m1 [v1 [He [Hi1 [Hx1 [Hc0 Hpv]]]]]]]]].
  rewrite He. cbn [bind].
  destruct (wrap ret =? summed).
  2:{ eexists. split; [reflexivity|]. unfold dpost. cbn [d_mem d_iov]. split; auto. }
  assert (Hld : exists pieces, load m1 ptr (cnt * 16) = Ok pieces).
  { destruct Hpv as [->|Hpv]; [|apply load_valid; exact Hpv]. cbn. eauto. }
  destruct Hld as [pieces Hld]. rewrite Hld. cbn [bind].
  destruct (store64_ok m1 v1 a ptr Hi1 ltac:(eapply validb_ext; eauto)) as [m2 [H2 [Hi2 Hl2]]]. rewrite H2. cbn [bind].
  destruct (store64_ok m2 v1 (a + 8) (cnt * 16) Hi2 ltac:(rewrite Hl2; eapply validb_ext; eauto)) as [m3 [H3 [Hi3 Hl3]]]. rewrite H3. cbn [bind].
  destruct (store64_ok m3 v1 (a + 16) (if cnt =? 0 then 0 else summed) Hi3 ltac:(rewrite Hl3, Hl2; eapply validb_ext; eauto)) as [m4 [H4 [Hi4 Hl4]]].
  rewrite H4. cbn [bind]. eexists. split; [reflexivity|]. unfold dpost. cbn [d_mem d_iov].
  split; [exact Hi4|]. rewrite Hl4, Hl3, Hl2. exact Hx1.
Qed.

(* ---- the field recursion ---- *)
Scheme field_mut := Induction for field Sort Prop
  with fields_mut := Induction for fields Sort Prop.
Combined Scheme field_fields_mut from field_mut, fields_mut.

Definition Pfield (f : field) : Prop :=
  forall avail, field_wf avail f ->
  forall st a, inv (d_mem st) (d_iov st) -> validb (lens (d_mem st)) a avail = true ->
  exists st', d_field cfg_final f st a = Ok st' /\ dpost st st'.
Definition Pfields (fs : fields) : Prop :=
  forall sz, fields_wf sz fs ->
  forall st base, inv (d_mem st) (d_iov st) -> validb (lens (d_mem st)) base sz = true ->
  exists st', d_fields cfg_final fs st base = Ok st' /\ dpost st st'.

Lemma d_buffer_ok' st a avail : 16 <= avail -> inv (d_mem st) (d_iov st) -> validb (lens (d_mem st)) a avail = true ->
  exists st', d_buffer cfg_final st a = Ok st' /\ dpost st st' /\ slot_post (d_mem st') a.
Proof.
  intros Ha Hinv Hv. apply d_buffer_ok; [exact Hinv|].
  apply (validb_sub' _ a avail); [eapply inv_wf; eauto|exact Hv|lia|lia].
Qed.

Lemma d_fields_cons c off f r st base :
  d_fields c (FCons off f r) st base = (st1 <- d_field c f st (base + off) ;; d_fields c r st1 base).
Proof. reflexivity. Qed.

Lemma d_fields_all : (forall f, Pfield f) /\ (forall fs, Pfields fs).
Proof.
  apply field_fields_mut; unfold Pfield, Pfields.
  - (* FFixed *) intros n avail _ st a Hinv _. cbn. eexists. split; [reflexivity|apply dpost_refl; auto].
  - (* FBuf *) intros avail Hw st a Hinv Hv. cbn [d_field field_wf] in *.
    destruct (d_buffer_ok' st a avail Hw Hinv Hv) as [st' [H1 [H2 _]]]. eauto.
  - (* FStr *) intros avail Hw st a Hinv Hv. cbn [d_field field_wf] in *.
    destruct (d_buffer_ok' st a avail Hw Hinv Hv) as [st' [H1 [H2 _]]]. eauto.
  - (* FFixBuf *) intros n avail Hw st a Hinv Hv. cbn [d_field field_wf] in *.
    destruct (d_buffer_ok' st a avail Hw Hinv Hv) as [st' [H1 [H2 _]]]. eauto.
  - (* FABuf *) intros avail Hw st a Hinv Hv. cbn [d_field field_wf fix_nested_al cfg_final] in *.
    destruct (d_buffer_ok' st a avail Hw Hinv Hv) as [st' [H1 [H2 _]]]. eauto.
  - (* FArr *) intros esz efs IH avail [Hw [Hesz Hwe]] st a Hinv Hv.
    cbn [d_field].
    destruct (d_buffer_ok' st a avail Hw Hinv Hv) as [st1 [H1 [[Hi1 Hx1] [p [n [Lp [Ln [Rn [Hp0 Hpn]]]]]]]]].
    rewrite H1. cbn [bind]. rewrite Lp, Ln. cbn [bind].
    destruct (n / esz =? 0) eqn:Ec.
    { eexists. split; [reflexivity|]. split; auto. }
    apply Z.eqb_neq in Ec.
    assert (Hn0 : n <> 0) by (intros ->; apply Ec; apply Z.div_0_l; lia).
    destruct (p =? 0) eqn:Ep; [apply Z.eqb_eq in Ep; specialize (Hp0 Ep); congruence|].
    destruct (Hpn Hn0) as [P1 [P2 P3]].
    destruct (fields_active efs).
    2:{ eexists. split; [reflexivity|]. split; auto. }
    (* the element loop: every element lies inside the extracted array buffer *)
    assert (Hloop : forall k st2 e,
      inv (d_mem st2) (d_iov st2) -> ext (lens (d_mem st1)) (lens (d_mem st2)) ->
      p <= e -> e + Z.of_nat k * esz <= p + n ->
      exists st', (fix loop (k : nat) (st : dst) (e : Z) {struct k} : res dst :=
                     match k with
                     | O => Ok st
                     | S k' => st' <- d_fields cfg_final efs st e ;; loop k' st' (e + esz)
                     end) k st2 e = Ok st' /\ dpost st2 st').
    { induction k as [|k IHk]; intros st2 e Hi2 Hx2 He1 He2.
      - eexists. split; [reflexivity|apply dpost_refl; auto].
      - rewrite Nat2Z.inj_succ in He2.
        destruct (IH esz Hwe st2 e Hi2) as [st3 [H3 [Hi3 Hx3]]].
        { apply (validb_sub' _ p n); [eapply inv_wf; eauto|eapply validb_ext; eauto|lia|nia]. }
        rewrite H3. cbn [bind].
        destruct (IHk st3 (e + esz) Hi3 ltac:(eapply ext_trans; eauto) ltac:(lia) ltac:(nia)) as [st4 [H4 D4]].
        exists st4. split; [exact H4|]. eapply dpost_trans; [split; [exact Hi3|exact Hx3]|exact D4]. }
    destruct (Hloop (Z.to_nat (n / esz)) st1 p Hi1 (ext_refl _) ltac:(lia)) as [st' [H' D']].
    { rewrite Z2Nat.id by (apply Z.div_pos; lia). pose proof (Z.mul_div_le n esz Hesz). lia. }
    exists st'. split; [exact H'|]. eapply dpost_trans; [split; [exact Hi1|exact Hx1]|exact D'].
  - (* FIov *) intros avail Hw st a Hinv Hv. cbn [d_field field_wf] in *. eapply d_iovarr_ok; eauto.
  - (* FAIov *) intros avail Hw st a Hinv Hv. cbn [d_field field_wf fix_nested_al cfg_final] in *. eapply d_iovarr_ok; eauto.
  - (* FNest *) intros fs IH avail Hw st a Hinv Hv. cbn [d_field field_wf] in *. eapply IH; eauto.
  - (* FMap *) intros vsz vfs _ avail Hw st a Hinv Hv. cbn [d_field field_wf] in *.
    destruct (d_buffer_ok' st a avail ltac:(lia) Hinv Hv) as [st1 [H1 [[Hi1 Hx1] _]]]. rewrite H1. cbn [bind].
    destruct (d_buffer_ok st1 (a + 16) Hi1) as [st2 [H2 [D2 _]]].
    { apply (validb_sub' _ a avail); [eapply inv_wf; eauto|eapply validb_ext; eauto|lia|lia]. }
    exists st2. split; [exact H2|]. eapply dpost_trans; [split; [exact Hi1|exact Hx1]|exact D2].
  - (* FNil *) intros sz _ st base Hinv _. cbn. eexists. split; [reflexivity|apply dpost_refl; auto].
  - (* FCons *) intros off f IHf r IHr sz [Ho [Hwf Hwr]] st base Hinv Hv. rewrite d_fields_cons.
    destruct (IHf (sz - off) Hwf st (base + off) Hinv) as [st1 [H1 [Hi1 Hx1]]].
    { apply (validb_sub' _ base sz); [eapply inv_wf; eauto|exact Hv|lia|lia]. }
    rewrite H1. cbn [bind].
    destruct (IHr sz Hwr st1 base Hi1 ltac:(eapply validb_ext; eauto)) as [st2 [H2 D2]].
    exists st2. split; [exact H2|]. eapply dpost_trans; [split; [exact Hi1|exact Hx1]|exact D2].
Qed.

Lemma d_pass_ok aligned : forall fs sz, fields_wf sz fs ->
  forall st base, inv (d_mem st) (d_iov st) -> validb (lens (d_mem st)) base sz = true ->
  exists st', d_pass cfg_final aligned fs st base = Ok st' /\ dpost st st'.
Proof.
  induction fs as [|off f r IH]; intros sz Hw st base Hinv Hv.
  - cbn. eexists. split; [reflexivity|apply dpost_refl; auto].
  - destruct Hw as [Ho [Hwf Hwr]]. cbn [d_pass].
    assert (Hva : validb (lens (d_mem st)) (base + off) (sz - off) = true).
    { apply (validb_sub' _ base sz); [eapply inv_wf; eauto|exact Hv|lia|lia]. }
    assert (Hstep : exists st1,
      match f with
      | FABuf => if aligned then d_buffer cfg_final st (base + off) else Ok st
      | FAIov => if aligned then d_iovarr st (base + off) else Ok st
      | _ => if aligned then Ok st else d_field cfg_final f st (base + off)
      end = Ok st1 /\ dpost st st1).
    { destruct (proj1 d_fields_all f (sz - off) Hwf st (base + off) Hinv Hva) as [stf [Hf Df]].
      destruct f; try (destruct aligned; [eexists; split; [reflexivity|apply dpost_refl; auto]|exists stf; split; [exact Hf|exact Df]]).
      - (* FABuf *) destruct aligned; [|eexists; split; [reflexivity|apply dpost_refl; auto]].
        cbn [field_wf] in Hwf. destruct (d_buffer_ok' st (base + off) (sz - off) Hwf Hinv Hva) as [s' [A [B _]]]. eauto.
      - (* FAIov *) destruct aligned; [|eexists; split; [reflexivity|apply dpost_refl; auto]].
        cbn [field_wf] in Hwf. eapply d_iovarr_ok; eauto. }
    destruct Hstep as [st1 [H1 [Hi1 Hx1]]]. rewrite H1. cbn [bind].
    destruct (IH sz Hwr st1 base Hi1 ltac:(eapply validb_ext; eauto)) as [st2 [H2 D2]].
    exists st2. split; [exact H2|]. eapply dpost_trans; [split; [exact Hi1|exact Hx1]|exact D2].
Qed.

(* ---- checksum ---- *)
Section H.
  Variable hstep : Z -> byte -> Z.

  Lemma load32_ok m v a : inv m v -> validb (lens m) a 4 = true -> exists x, load32 m a = Ok x.
  Proof. intros _ Hv. destruct (load_valid _ _ _ Hv) as [bs Hb]. unfold load32. rewrite Hb. cbn. eauto. Qed.

  Lemma hash_iov_ok x : forall el m v, inv m v -> validb (lens m) x 4 = true -> Forall (el_ok (lens m)) el ->
    exists m', hash_iov hstep m x el = Ok m' /\ inv m' v /\ lens m' = lens m.
  Proof.
    induction el as [|[b l] r IH]; intros m v Hinv Hx Hel.
    - cbn. eauto.
    - inversion Hel as [|? ? He Hr]; subst. destruct He as [_ [Hv _]]. cbn [fst snd] in Hv. cbn [hash_iov].
      destruct (load32_ok m v x Hinv Hx) as [h Hh]. rewrite Hh. cbn [bind].
      destruct (load_valid _ _ _ Hv) as [d Hd]. rewrite Hd. cbn [bind].
      destruct (store32_ok m v x (hash_ext hstep h d) Hinv Hx) as [m1 [Hs [Hi1 Hl1]]]. rewrite Hs. cbn [bind].
      destruct (IH m1 v Hi1 ltac:(rewrite Hl1; exact Hx) ltac:(rewrite Hl1; exact Hr)) as [m2 [H2 [Hi2 Hl2]]].
      exists m2. split; [exact H2|]. split; [exact Hi2|congruence].
  Qed.

  Lemma validate_checksum_ok m v t size : inv m v -> 4 <= size -> validb (lens m) t size = true ->
    exists okc m', validate_checksum hstep m v t size = Ok (okc, m') /\ inv m' v /\ lens m' = lens m.
  Proof.
    intros Hinv Hs Hv. pose proof (inv_wf _ _ Hinv) as Hwf.
    assert (Hv4 : validb (lens m) t 4 = true) by (apply (validb_sub' _ t size); auto; lia).
    unfold validate_checksum.
    destruct (load32_ok m v t Hinv Hv4) as [d0 Hd0]. rewrite Hd0. cbn [bind].
    destruct (store32_ok m v t 0 Hinv Hv4) as [m1 [Hs1 [Hi1 Hl1]]]. rewrite Hs1. cbn [bind].
    destruct Hinv as [? [? [Hel ?]]].
    destruct (hash_iov_ok t (i_el v) m1 v Hi1 ltac:(rewrite Hl1; exact Hv4) ltac:(rewrite Hl1; exact Hel)) as [m2 [H2 [Hi2 Hl2]]].
    rewrite H2. cbn [bind].
    destruct (load32_ok m2 v t Hi2 ltac:(rewrite Hl2, Hl1; exact Hv4)) as [h1 Hh1]. rewrite Hh1. cbn [bind].
    destruct (load_valid m2 t size ltac:(rewrite Hl2, Hl1; exact Hv)) as [body Hb]. rewrite Hb. cbn [bind].
    destruct (store32_ok m2 v t (hash_ext hstep h1 body) Hi2 ltac:(rewrite Hl2, Hl1; exact Hv4)) as [m3 [Hs3 [Hi3 Hl3]]].
    rewrite Hs3. cbn [bind]. eexists. exists m3. split; [reflexivity|]. split; [exact Hi3|congruence].
  Qed.

  (* deserialize never traps: any byte memory, any fragmentation, any well-formed shape *)
  Theorem deserialize_no_trap sh m v :
    shape_wf sh -> inv m v ->
    exists t st, deserialize hstep cfg_final sh m v = Ok (t, st) /\ inv (d_mem st) (d_iov st) /\
                 ext (lens m) (lens (d_mem st)) /\ (t <> 0 -> ptr_ok (lens (d_mem st)) t (sh_size sh)).
  Proof.
    intros [Hsz [Hwf Hck]] Hinv. unfold deserialize.
    destruct (ebc_ok m v (sh_size sh) Hinv Hsz) as [t [m1 [v1 [He [Hi1 [Hx1 [_ [Hp _]]]]]]]].
    rewrite He. cbn [bind].
    destruct (t =? 0) eqn:Et.
    { eexists. eexists. split; [reflexivity|]. cbn [d_mem d_iov]. split; [exact Hi1|]. split; [exact Hx1|congruence]. }
    apply Z.eqb_neq in Et. destruct Hp as [Hp|[P1 [P2 P3]]]; [congruence|].
    assert (Hval : exists okc m2, (if sh_checked sh then validate_checksum hstep m1 v1 t (sh_size sh) else Ok (true, m1)) = Ok (okc, m2)
                                  /\ inv m2 v1 /\ lens m2 = lens m1).
    { destruct (sh_checked sh) eqn:Ec.
      - destruct (validate_checksum_ok m1 v1 t (sh_size sh) Hi1 (Hck eq_refl) P1) as [okc [m2 [A [B C]]]]. eauto.
      - eauto. }
    destruct Hval as [okc [m2 [Hv [Hi2 Hl2]]]]. rewrite Hv. cbn [bind].
    destruct okc; cbn [negb].
    2:{ eexists. eexists. split; [reflexivity|]. cbn [d_mem d_iov]. split; [exact Hi2|]. split; [rewrite Hl2; exact Hx1|congruence]. }
    destruct (d_pass_ok true (sh_fields sh) (sh_size sh) Hwf (mkD m2 v1 false) t Hi2 ltac:(cbn [d_mem]; rewrite Hl2; exact P1))
      as [st1 [H1 [Hi3 Hx3]]].
    rewrite H1. cbn [bind]. cbn [d_mem] in Hx3.
    destruct (d_pass_ok false (sh_fields sh) (sh_size sh) Hwf st1 t Hi3 ltac:(eapply validb_ext; [exact Hx3|rewrite Hl2; exact P1]))
      as [st2 [H2 [Hi4 Hx4]]].
    rewrite H2. cbn [bind].
    eexists. eexists. split; [reflexivity|]. split; [exact Hi4|].
    assert (Hx : ext (lens m) (lens (d_mem st2))).
    { eapply ext_trans; [exact Hx1|]. rewrite <- Hl2. eapply ext_trans; eauto. }
    split; [exact Hx|]. destruct (d_failed st2); [congruence|]. intros _. split; [|auto].
    apply (validb_ext (lens m1)); [|exact P1]. rewrite <- Hl2. eapply ext_trans; eauto.
  Qed.
End H.
