(* C12_MemC.v — content lemmas for the byte memory: what a load returns after a store. *)
From Coq Require Import ZArith List Bool Lia.
From PV Require Import Base.U64 C12.C12_Model C12.C12_Mem.
Import ListNotations.
Local Open Scope Z_scope.

Lemma upd_nth_length {A} (l : list A) k x : length (upd_nth l k x) = length l.
Proof. revert k. induction l as [|h t IH]; intros [|k]; cbn; auto. Qed.

Lemma nth_error_upd_same {A} (l : list A) k x : (k < length l)%nat -> nth_error (upd_nth l k x) k = Some x.
Proof. revert k. induction l as [|h t IH]; intros [|k] H; cbn in *; try lia; auto. apply IH. lia. Qed.

Lemma nth_error_upd_other {A} (l : list A) k k' x : k <> k' -> nth_error (upd_nth l k x) k' = nth_error l k'.
Proof. revert k k'. induction l as [|h t IH]; intros [|k] [|k'] H; cbn; auto; try congruence. Qed.

Lemma nth_z_some_range {A} (l : list A) i r : nth_z l i = Some r -> 0 <= i < len l.
Proof.
  unfold nth_z. destruct (i <? 0) eqn:E1; [discriminate|]. destruct (len l <=? i) eqn:E2; [discriminate|].
  apply Z.ltb_ge in E1. apply Z.leb_gt in E2. lia.
Qed.

Lemma nth_z_upd_same {A} (l : list A) i x r : nth_z l i = Some r -> nth_z (upd_nth l (Z.to_nat i) x) i = Some x.
Proof.
  intros H. pose proof (nth_z_some_range _ _ _ H) as R. unfold nth_z, len in *. rewrite upd_nth_length.
  destruct ((i <? 0) || (Z.of_nat (length l) <=? i)); [discriminate|].
  apply nth_error_upd_same. lia.
Qed.

Lemma nth_z_upd_other {A} (l : list A) i j x : 0 <= i -> i <> j -> nth_z (upd_nth l (Z.to_nat i) x) j = nth_z l j.
Proof.
  intros Hi Hij. unfold nth_z, len. rewrite upd_nth_length.
  destruct (j <? 0) eqn:E1; [reflexivity|]. cbn [orb]. destruct (Z.of_nat (length l) <=? j); [reflexivity|].
  apply Z.ltb_ge in E1. apply nth_error_upd_other. lia.
Qed.

Lemma skipn_skipn' {A} (x y : nat) (l : list A) : skipn x (skipn y l) = skipn (y + x) l.
Proof. revert l. induction y as [|y IH]; intros l; [reflexivity|]. destruct l; [destruct x; reflexivity|]. cbn. apply IH. Qed.

(* ---- splice on nat offsets ---- *)
Lemma splice_read_inside (bs v : list byte) o : (o + length v <= length bs)%nat ->
  firstn (length v) (skipn o (firstn o bs ++ v ++ skipn (o + length v) bs)) = v.
Proof.
  intros H. rewrite skipn_app. rewrite firstn_length, Nat.min_l by lia.
  rewrite skipn_all2 by (rewrite firstn_length; lia). rewrite Nat.sub_diag. cbn [skipn app].
  rewrite firstn_app, firstn_all, Nat.sub_diag. cbn [firstn]. apply app_nil_r.
Qed.

Lemma splice_read_before (bs v : list byte) o oa n : (oa + n <= o)%nat -> (o + length v <= length bs)%nat ->
  firstn n (skipn oa (firstn o bs ++ v ++ skipn (o + length v) bs)) = firstn n (skipn oa bs).
Proof.
  intros H1 H2. rewrite skipn_app. rewrite firstn_length, Nat.min_l by lia.
  replace (oa - o)%nat with 0%nat by lia. cbn [skipn].
  rewrite firstn_app. rewrite skipn_length, firstn_length, Nat.min_l by lia.
  replace (n - (o - oa))%nat with 0%nat by lia. cbn [firstn]. rewrite app_nil_r.
  rewrite skipn_firstn_comm, firstn_firstn. rewrite Nat.min_l by lia. reflexivity.
Qed.

Lemma splice_read_after (bs v : list byte) o oa : (o + length v <= oa)%nat -> (o + length v <= length bs)%nat ->
  skipn oa (firstn o bs ++ v ++ skipn (o + length v) bs) = skipn oa bs.
Proof.
  intros H1 H2. rewrite skipn_app. rewrite firstn_length, Nat.min_l by lia.
  rewrite skipn_all2 by (rewrite firstn_length; lia). cbn [app].
  rewrite skipn_app. rewrite skipn_all2 by lia. cbn [app].
  rewrite skipn_skipn'. f_equal. lia.
Qed.

Lemma splice_nat bs off v : 0 <= off ->
  splice bs off v = firstn (Z.to_nat off) bs ++ v ++ skipn (Z.to_nat off + length v) bs.
Proof. intros H. unfold splice, len. do 3 f_equal. lia. Qed.

(* ---- load after store ---- *)
Lemma store_inv m a v m' : store m a v = Ok m' -> 0 < len v ->
  exists bs, ARENA <= a /\ nth_z m ((a - ARENA) / STRIDE) = Some bs /\
             (a - ARENA) mod STRIDE + len v <= len bs /\
             m' = upd_nth m (Z.to_nat ((a - ARENA) / STRIDE)) (splice bs ((a - ARENA) mod STRIDE) v).
Proof.
  unfold store. intros H Hv. destruct (len v <=? 0) eqn:E; [apply Z.leb_le in E; lia|].
  destruct (a <? ARENA) eqn:EA; [discriminate|]. apply Z.ltb_ge in EA.
  destruct (nth_z m ((a - ARENA) / STRIDE)) as [bs|] eqn:Hb; [|discriminate].
  destruct ((a - ARENA) mod STRIDE + len v <=? len bs) eqn:El; [|discriminate].
  apply Z.leb_le in El. inversion H. exists bs. auto.
Qed.

Lemma load_store_same m a v m' : store m a v = Ok m' -> 0 < len v -> load m' a (len v) = Ok v.
Proof.
  intros H Hv. destruct (store_inv _ _ _ _ H Hv) as [bs [HA [Hb [Hl ->]]]].
  pose proof (Z.mod_pos_bound (a - ARENA) STRIDE STRIDE_pos) as Hm.
  unfold load. destruct (len v <=? 0) eqn:E; [apply Z.leb_le in E; lia|].
  destruct (a <? ARENA) eqn:EA; [apply Z.ltb_lt in EA; lia|].
  rewrite (nth_z_upd_same _ _ _ _ Hb).
  rewrite len_splice by lia.
  destruct ((a - ARENA) mod STRIDE + len v <=? len bs) eqn:El; [|apply Z.leb_gt in El; lia].
  f_equal. rewrite splice_nat by lia.
  replace (Z.to_nat (len v)) with (length v) by (unfold len; lia).
  apply splice_read_inside. unfold len in *. lia.
Qed.

(* a store does not change what a load of a disjoint address range returns *)
Lemma load_store_other m b v m' a n : store m b v = Ok m' -> (a + n <= b \/ b + len v <= a) ->
  load m' a n = load m a n.
Proof.
  intros H Hd. destruct (Z_le_gt_dec (len v) 0) as [Hv|Hv].
  { unfold store in H. apply Z.leb_le in Hv. rewrite Hv in H. inversion H. reflexivity. }
  destruct (store_inv _ _ _ _ H ltac:(lia)) as [bs [HA [Hb [Hl ->]]]].
  pose proof (Z.mod_pos_bound (b - ARENA) STRIDE STRIDE_pos) as Hmb.
  pose proof (Z.mod_pos_bound (a - ARENA) STRIDE STRIDE_pos) as Hma.
  pose proof (Z.div_mod (b - ARENA) STRIDE ltac:(pose proof STRIDE_pos; lia)) as Eb.
  pose proof (Z.div_mod (a - ARENA) STRIDE ltac:(pose proof STRIDE_pos; lia)) as Ea.
  pose proof (nth_z_some_range _ _ _ Hb) as Rb.
  unfold load. destruct (n <=? 0) eqn:En; [reflexivity|]. apply Z.leb_gt in En.
  destruct (a <? ARENA) eqn:EA; [reflexivity|]. apply Z.ltb_ge in EA.
  destruct (Z.eq_dec ((b - ARENA) / STRIDE) ((a - ARENA) / STRIDE)) as [Eq|Ne].
  - rewrite <- Eq. rewrite (nth_z_upd_same _ _ _ _ Hb), Hb. rewrite len_splice by lia.
    destruct ((a - ARENA) mod STRIDE + n <=? len bs) eqn:El; [|reflexivity]. apply Z.leb_le in El.
    f_equal. rewrite splice_nat by lia.
    set (ob := (b - ARENA) mod STRIDE) in *. set (oa := (a - ARENA) mod STRIDE) in *.
    assert (Hoff : oa + n <= ob \/ ob + len v <= oa) by (rewrite Eq in Eb; lia).
    destruct Hoff as [Hbef|Haft].
    + apply splice_read_before; unfold len in *; lia.
    + rewrite splice_read_after; [reflexivity| |]; unfold len in *; lia.
  - rewrite nth_z_upd_other by lia. reflexivity.
Qed.

Lemma load64_store64_same m a v m' : store64 m a v = Ok m' -> 0 <= v < W64 -> load64 m' a = Ok v.
Proof.
  unfold store64, load64. intros H Hv.
  pose proof (load_store_same _ _ _ _ H) as L. rewrite le_enc_len in L. change (Z.of_nat 8) with 8 in L.
  rewrite L by lia. cbn [bind]. f_equal. apply le_dec_enc. exact Hv.
Qed.

Lemma load64_store_other m b v m' a : store m b v = Ok m' -> (a + 8 <= b \/ b + len v <= a) ->
  load64 m' a = load64 m a.
Proof. intros H Hd. unfold load64. rewrite (load_store_other _ _ _ _ _ _ H Hd). reflexivity. Qed.

(* ---- appended regions ---- *)
Lemma load_app m extra a n : validb (lens m) a n = true -> load (m ++ extra) a n = load m a n.
Proof.
  unfold validb, load, lens. destruct (n <=? 0); [reflexivity|]. destruct (a <? ARENA); [discriminate|].
  rewrite nth_z_map. destruct (nth_z m ((a - ARENA) / STRIDE)) as [bs|] eqn:Hb; cbn [option_map]; [|discriminate].
  rewrite (nth_z_app_l _ _ _ _ Hb). reflexivity.
Qed.

Lemma lens_app m extra : lens (m ++ extra) = lens m ++ lens extra.
Proof. unfold lens. apply map_app. Qed.

Lemma region_base_decode r off : 0 <= r -> 0 <= off < STRIDE ->
  ARENA <= region_base r + off /\ (region_base r + off - ARENA) / STRIDE = r /\ (region_base r + off - ARENA) mod STRIDE = off.
Proof.
  intros Hr Ho. unfold region_base. pose proof STRIDE_pos. pose proof (Z.mul_nonneg_nonneg r STRIDE Hr ltac:(lia)). split; [lia|]. split.
  - symmetry. apply (Z.div_unique_pos _ _ _ off); lia.
  - symmetry. apply (Z.mod_unique_pos _ _ r); lia.
Qed.

Lemma nth_z_app_last {A} (l : list A) x : nth_z (l ++ [x]) (len l) = Some x.
Proof.
  unfold nth_z, len. rewrite app_length. cbn [length].
  destruct (Z.of_nat (length l) <? 0) eqn:E1; [apply Z.ltb_lt in E1; lia|].
  destruct (Z.of_nat (length l + 1) <=? Z.of_nat (length l)) eqn:E2; [apply Z.leb_le in E2; lia|]. cbn [orb].
  rewrite Nat2Z.id. rewrite nth_error_app2 by lia. rewrite Nat.sub_diag. reflexivity.
Qed.

Lemma upd_nth_app_last {A} (l : list A) x y : upd_nth (l ++ [x]) (length l) y = l ++ [y].
Proof. induction l as [|h t IH]; cbn; [reflexivity|]. rewrite IH. reflexivity. Qed.

(* filling a fresh slot completely *)
Lemma store_fresh m d : 0 < len d -> len d <= STRIDE ->
  store (m ++ [zeros (len d)]) (region_base (len m)) d = Ok (m ++ [d]).
Proof.
  intros Hd Hs. pose proof (len_nonneg m) as Hm.
  destruct (region_base_decode (len m) 0 Hm ltac:(pose proof STRIDE_pos; lia)) as [HA [Hq Ho]].
  rewrite Z.add_0_r in *. unfold store.
  destruct (len d <=? 0) eqn:E; [apply Z.leb_le in E; lia|].
  destruct (region_base (len m) <? ARENA) eqn:EA; [apply Z.ltb_lt in EA; lia|].
  rewrite Hq, Ho, nth_z_app_last.
  assert (Hz : len (zeros (len d)) = len d) by (unfold zeros, len; rewrite repeat_length; lia).
  rewrite Hz. destruct (0 + len d <=? len d) eqn:El; [|apply Z.leb_gt in El; lia].
  f_equal. replace (Z.to_nat (len m)) with (length m) by (unfold len; lia). rewrite upd_nth_app_last. f_equal. f_equal.
  unfold splice. cbn [Z.to_nat firstn app]. rewrite skipn_all2; [apply app_nil_r|].
  unfold zeros, len. rewrite repeat_length. lia.
Qed.
