(* C12_RtD.v — route (c) of ser_roundtrip: the field recursion of the deserializer against the
   flat byte string.  If the remaining input denotes  wire(f) ++ rest  (whatever its
   fragmentation; elements pairwise separated), processing field f consumes exactly wire(f),
   leaves a vector denoting rest, and the value read back from the receiver's memory equals the
   sender's value.  Carried invariant (Rinv): the claimed ranges (body, extracted buffers: each
   inside an input element or a fresh allocation slot) are pairwise separated and separated from
   every remaining element. *)
From Coq Require Import ZArith List Bool Lia.
From PV Require Import Base.U64 C12.C12_Model C12.C12_Mem C12.C12_MemC C12.C12_Iov C12.C12_Flat C12.C12_Deser C12.C12_Sep C12.C12_Wire.
Import ListNotations.
Local Open Scope Z_scope.

Definition Rinv (m : mem) (v : iovs) (w : list byte) (Own : list (Z * Z)) : Prop :=
  inv m v /\ flat m (i_el v) = Ok w /\ psep (i_el v) /\ psep Own /\
  (forall e c, In e (i_el v) -> In c Own -> sep e c) /\
  (forall c, In c Own -> validb (lens m) (fst c) (snd c) = true).

(* loads inside a claimed range and separated from the written ranges W are unchanged *)
Definition frameO (m m' : mem) (Own W : list (Z * Z)) : Prop :=
  forall x k, (exists c, In c Own /\ within (x, k) c) -> (forall r, In r W -> sep (x, k) r) -> load m' x k = load m x k.

(* every range of a footprint is empty, or inside a static range of S, or inside a newly claimed range *)
Definition fpok (F S new : list (Z * Z)) : Prop :=
  forall r, In r F -> snd r <= 0 \/ (exists s, In s S /\ within r s) \/ (exists c, In c new /\ within r c).

Lemma load_nonpos m x k : k <= 0 -> load m x k = Ok [].
Proof. intros H. unfold load. apply Z.leb_le in H. rewrite H. reflexivity. Qed.

Lemma agree_nonpos m m' r : snd r <= 0 -> agree m m' r.
Proof. intros H x k [W1 W2]. cbn [fst snd] in *. rewrite !load_nonpos by lia. reflexivity. Qed.

Lemma frame_agree m m' Own W r : frameO m m' Own W -> (exists c, In c Own /\ within r c) -> (forall q, In q W -> sep r q) -> agree m m' r.
Proof.
  intros F [c [Hc Wc]] Hs x k Hw. apply F.
  - exists c. split; [exact Hc|eapply within_trans; eauto].
  - intros q Hq. eapply within_sep; eauto.
Qed.

Lemma frameO_refl m Own W : frameO m m Own W.
Proof. intros x k _ _. reflexivity. Qed.

(* a footprint established while Own ++ new1 was claimed survives a later step that writes S2 inside c0 *)
Lemma stab m1 m2 Own new1 F S1 S2 c0 :
  fpok F S1 new1 -> frameO m1 m2 (Own ++ new1) S2 -> psep (Own ++ new1) -> In c0 Own ->
  (forall s, In s S1 -> within s c0) -> (forall s, In s S2 -> within s c0) ->
  (forall s1 s2, In s1 S1 -> In s2 S2 -> sep s1 s2) ->
  forall r, In r F -> agree m1 m2 r.
Proof.
  intros HF Fr Hp Hc0 H1 H2 H12 r Hr. apply psep_app in Hp. destruct Hp as [_ [_ Hx]].
  destruct (HF r Hr) as [H|[[s [Hs Ws]]|[c [Hc Wc]]]].
  - apply agree_nonpos. exact H.
  - eapply frame_agree; [exact Fr| |].
    + exists c0. split; [apply in_or_app; left; exact Hc0|eapply within_trans; eauto].
    + intros q Hq. eapply within_sep; [exact Ws|]. apply H12; auto.
  - eapply frame_agree; [exact Fr| |].
    + exists c. split; [apply in_or_app; right; exact Hc|exact Wc].
    + intros q Hq. apply (within_sep2 _ c _ c0 Wc (H2 q Hq)). apply sep_sym. apply Hx; auto.
Qed.

Lemma firstn_app_exact {A} (a b : list A) n : Z.to_nat n = length a -> firstn (Z.to_nat n) (a ++ b) = a.
Proof. intros ->. rewrite firstn_app, Nat.sub_diag, firstn_all. cbn. apply app_nil_r. Qed.
Lemma skipn_app_exact {A} (a b : list A) n : Z.to_nat n = length a -> skipn (Z.to_nat n) (a ++ b) = b.
Proof. intros ->. rewrite skipn_app, Nat.sub_diag, skipn_all. reflexivity. Qed.

Lemma len_zero_nil {A} (l : list A) : len l = 0 -> l = [].
Proof. destruct l; [reflexivity|]. rewrite len_cons. pose proof (len_nonneg l). lia. Qed.

(* ---- what the receiver must find in a struct before it processes it: the length words ---- *)
Fixpoint eq_f (f : field) (mr : mem) (a : Z) (ms : mem) (sa : Z) : Prop :=
  match f with
  | FFixed n => load mr a n = load ms sa n
  | FBuf | FStr | FFixBuf _ | FABuf | FArr _ _ => load64 mr (a + 8) = load64 ms (sa + 8)
  | FIov | FAIov => load64 mr (a + 16) = load64 ms (sa + 16)
  | FNest fs => eq_fs fs mr a ms sa
  | FMap _ _ => load64 mr (a + 8) = load64 ms (sa + 8) /\ load64 mr (a + 24) = load64 ms (sa + 24)
  end
with eq_fs (fs : fields) (mr : mem) (base : Z) (ms : mem) (sbase : Z) : Prop :=
  match fs with FNil => True | FCons off f r => eq_f f mr (base + off) ms (sbase + off) /\ eq_fs r mr base ms sbase end.

(* the two structs hold the same bytes *)
Definition blk (mr : mem) (a : Z) (ms : mem) (sa sz : Z) : Prop :=
  forall o k, 0 <= o -> 0 <= k -> o + k <= sz -> load mr (a + o) k = load ms (sa + o) k.

Lemma blk_shift mr a ms sa sz d : blk mr a ms sa sz -> 0 <= d -> blk mr (a + d) ms (sa + d) (sz - d).
Proof.
  intros B Hd o k Ho Hk Hok. replace (a + d + o) with (a + (d + o)) by lia. replace (sa + d + o) with (sa + (d + o)) by lia.
  apply B; lia.
Qed.

Lemma blk_sub mr a ms sa sz sz' : blk mr a ms sa sz -> sz' <= sz -> blk mr a ms sa sz'.
Proof. intros B H o k Ho Hk Hok. apply B; lia. Qed.

Lemma blk_load64 mr a ms sa sz o : blk mr a ms sa sz -> 0 <= o -> o + 8 <= sz -> load64 mr (a + o) = load64 ms (sa + o).
Proof. intros B Ho H. unfold load64. rewrite (B o 8) by lia. reflexivity. Qed.

Lemma blk_eq mr ms :
  (forall f avail a sa, field_wf avail f -> blk mr a ms sa avail -> eq_f f mr a ms sa) /\
  (forall fs sz base sbase, fields_wf sz fs -> blk mr base ms sbase sz -> eq_fs fs mr base ms sbase).
Proof.
  apply field_fields_mut; cbn [eq_f eq_fs field_wf fields_wf].
  - intros n avail a sa H B. specialize (B 0 n). rewrite !Z.add_0_r in B. apply B; lia.
  - intros avail a sa H B. apply (blk_load64 _ _ _ _ _ 8 B); lia.
  - intros avail a sa H B. apply (blk_load64 _ _ _ _ _ 8 B); lia.
  - intros n avail a sa H B. apply (blk_load64 _ _ _ _ _ 8 B); lia.
  - intros avail a sa H B. apply (blk_load64 _ _ _ _ _ 8 B); lia.
  - intros esz efs _ avail a sa [H _] B. apply (blk_load64 _ _ _ _ _ 8 B); lia.
  - intros avail a sa H B. apply (blk_load64 _ _ _ _ _ 16 B); lia.
  - intros avail a sa H B. apply (blk_load64 _ _ _ _ _ 16 B); lia.
  - intros fs IH avail a sa H B. eapply IH; eauto.
  - intros vsz vfs _ avail a sa H B. split; [apply (blk_load64 _ _ _ _ _ 8 B); lia|apply (blk_load64 _ _ _ _ _ 24 B); lia].
  - intros. exact I.
  - intros off f IHf r IHr sz base sbase [Ho [Hf Hr]] B. split.
    + apply (IHf (sz - off)); [exact Hf|]. apply blk_shift; auto.
    + eapply IHr; eauto.
Qed.

Lemma blk_of_loads mr a ms sa sz bs : Forall (fun L => L <= STRIDE) (lens mr) -> Forall (fun L => L <= STRIDE) (lens ms) ->
  load mr a sz = Ok bs -> load ms sa sz = Ok bs -> blk mr a ms sa sz.
Proof.
  intros W1 W2 L1 L2 o k Ho Hk Hok. destruct (Z.eq_dec k 0) as [->|Hk0]; [rewrite !load_nonpos by lia; reflexivity|].
  destruct (load_inv _ _ _ _ L1 ltac:(lia)) as [_ [A1 _]]. destruct (load_inv _ _ _ _ L2 ltac:(lia)) as [_ [A2 _]].
  pose proof ARENA_pos.
  rewrite (load_sub mr a sz bs o k W1 L1) by lia. rewrite (load_sub ms sa sz bs o k W2 L2) by lia. reflexivity.
Qed.

(* the length words of fields not yet processed survive a step that leaves their ranges alone *)
Lemma eq_stable mr mr' ms :
  (forall f a sa, (forall r, In r (aranges_f f a) -> agree mr mr' r) -> eq_f f mr a ms sa -> eq_f f mr' a ms sa) /\
  (forall fs base sbase, (forall r, In r (aranges_fs fs base) -> agree mr mr' r) -> eq_fs fs mr base ms sbase -> eq_fs fs mr' base ms sbase).
Proof.
  apply field_fields_mut; cbn [eq_f eq_fs aranges_f aranges_fs].
  - intros n a sa A E. rewrite (A (a, n) (or_introl eq_refl) a n (within_refl _)). exact E.
  - intros a sa A E. rewrite (agree_load64 mr mr' (a, 16)); [exact E|apply A; left; reflexivity|unfold within; cbn; lia].
  - intros a sa A E. rewrite (agree_load64 mr mr' (a, 16)); [exact E|apply A; left; reflexivity|unfold within; cbn; lia].
  - intros n a sa A E. rewrite (agree_load64 mr mr' (a, 16)); [exact E|apply A; left; reflexivity|unfold within; cbn; lia].
  - intros a sa A E. rewrite (agree_load64 mr mr' (a, 16)); [exact E|apply A; left; reflexivity|unfold within; cbn; lia].
  - intros esz efs _ a sa A E. rewrite (agree_load64 mr mr' (a, 16)); [exact E|apply A; left; reflexivity|unfold within; cbn; lia].
  - intros a sa A E. rewrite (agree_load64 mr mr' (a, 24)); [exact E|apply A; left; reflexivity|unfold within; cbn; lia].
  - intros a sa A E. rewrite (agree_load64 mr mr' (a, 24)); [exact E|apply A; left; reflexivity|unfold within; cbn; lia].
  - intros fs IH a sa A E. apply IH; auto.
  - intros vsz vfs _ a sa A [E1 E2]. split.
    + rewrite (agree_load64 mr mr' (a, 16)); [exact E1|apply A; left; reflexivity|unfold within; cbn; lia].
    + rewrite (agree_load64 mr mr' (a + 16, 16)); [exact E2|apply A; right; left; reflexivity|unfold within; cbn; lia].
  - intros. exact I.
  - intros off f IHf r IHr base sbase A [E1 E2]. split.
    + apply IHf; [|exact E1]. intros x Hx. apply A. apply in_or_app. auto.
    + apply IHr; [|exact E2]. intros x Hx. apply A. apply in_or_app. auto.
Qed.

(* ---- process_field(buffer&) against the flat string ---- *)
Lemma sep_sub_r a b c : sep a c -> within b c -> sep a b.
Proof. intros S W. apply sep_sym. eapply within_sep; [exact W|apply sep_sym; exact S]. Qed.

Lemma d_buffer_rt st a Own c0 ms sa ps ns bs w' :
  Rinv (d_mem st) (d_iov st) (bs ++ w') Own -> In c0 Own -> within (a, 16) c0 ->
  load64 ms sa = Ok ps -> load64 ms (sa + 8) = Ok ns -> load ms ps ns = Ok bs ->
  load64 (d_mem st) (a + 8) = load64 ms (sa + 8) ->
  i_nb (d_iov st) < i_cap (d_iov st) ->
  exists st' new p, d_buffer cfg_final st a = Ok st' /\ d_failed st' = d_failed st /\
    Rinv (d_mem st') (d_iov st') w' (Own ++ new) /\ ext (lens (d_mem st)) (lens (d_mem st')) /\
    i_cap (d_iov st') = i_cap (d_iov st) /\ i_nb (d_iov st') <= i_nb (d_iov st) + 1 /\
    load64 (d_mem st') a = Ok p /\ load64 (d_mem st') (a + 8) = Ok ns /\ load (d_mem st') p ns = Ok bs /\
    (ns = 0 /\ new = [] \/ new = [(p, ns)] /\ p <> 0 /\ ns <> 0) /\
    frameO (d_mem st) (d_mem st') Own [(a, 16)].
Proof.
  destruct st as [m v fl]. cbn [d_mem d_iov d_failed].
  intros [Hinv [Hf [Hpe [HpO [HeO HvO]]]]] Hc0 Wa Lps Lns Lbs Heq Hcap.
  pose proof (inv_wf _ _ Hinv) as Hwf. pose proof (inv_bytes _ _ Hinv) as Hbm.
  assert (Hv16 : validb (lens m) a 16 = true).
  { apply (validb_sub' _ (fst c0) (snd c0)); [exact Hwf|apply HvO; exact Hc0| |]; unfold within in Wa; cbn [fst snd] in Wa; lia. }
  assert (Hva : validb (lens m) a 8 = true) by (apply (validb_sub' _ a 16); auto; lia).
  assert (Hvb : validb (lens m) (a + 8) 8 = true) by (apply (validb_sub' _ a 16); auto; lia).
  assert (Wa8 : within (a, 8) c0) by (unfold within in *; cbn [fst snd] in *; lia).
  destruct (load64_ok m (a + 8) Hbm Hvb) as [n' [En Rn]]. rewrite Heq, Lns in En. inversion En. subst n'. clear En.
  assert (En : load64 m (a + 8) = Ok ns) by (rewrite Heq; exact Lns).
  pose proof (load_len _ _ _ _ Lbs) as Hlb. rewrite Z.max_r in Hlb by lia.
  unfold d_buffer. cbn [d_mem d_iov d_failed fix_zero_ptr fix_fail_len cfg_final]. rewrite En. cbn [bind].
  destruct (ns =? 0) eqn:E0.
  - apply Z.eqb_eq in E0. rewrite E0 in Hlb. apply len_zero_nil in Hlb. subst bs. subst ns. cbn [app] in Hf.
    destruct (store64_ok m v a 0 Hinv Hva) as [m1 [Hs [Hi1 Hl1]]]. rewrite Hs. cbn [bind].
    assert (Hsep8 : forall x k, sep (x, k) (a, 16) -> sep (x, k) (a, len (le_enc 8 0))).
    { intros x k S. rewrite le_enc_len. eapply sep_sub_r; [exact S|]. unfold within. cbn. lia. }
    exists (mkD m1 v fl), [], 0. cbn [d_mem d_iov d_failed]. rewrite app_nil_r.
    split; [reflexivity|]. split; [reflexivity|]. split.
    { split; [exact Hi1|]. split.
      { unfold store64 in Hs. rewrite (flat_store_sep _ _ _ _ _ Hs); [exact Hf|].
        intros e He. apply Hsep8. eapply sep_sub_r; [apply (HeO e c0 He Hc0)|]. unfold within in *. cbn [fst snd] in *. lia. }
      split; [exact Hpe|]. split; [exact HpO|]. split; [exact HeO|]. rewrite Hl1. exact HvO. }
    split; [rewrite Hl1; apply ext_refl|]. split; [reflexivity|]. split; [lia|].
    split; [eapply load64_store64_same; eauto; unfold W64; lia|].
    split; [rewrite (load64_store_other _ _ _ _ _ Hs); [exact En|rewrite le_enc_len; right; lia]|].
    split; [reflexivity|]. split; [left; auto|].
    intros x k _ Hs2. unfold store64 in Hs. apply (load_store_sep _ _ _ _ _ _ Hs). apply Hsep8. apply Hs2. left. reflexivity.
  - apply Z.eqb_neq in E0.
    assert (Hnb : Z.to_nat ns = length bs) by (unfold len in Hlb; lia).
    destruct (efc_flat m v ns (bs ++ w') Hinv ltac:(lia) Hf ltac:(rewrite len_app; pose proof (len_nonneg w'); lia) Hpe Hcap)
      as [p [m1 [v1 [He X]]]].
    rewrite (firstn_app_exact _ _ _ Hnb), (skipn_app_exact _ _ _ Hnb) in X.
    pose proof X as [Hi1 [Hx1 [Hc1 [Hn1 [[Pv [Pp Pw]] [Lp [Fl1 [Ps1 [Pr1 [Sp1 [Fr1 _]]]]]]]]]]].
    rewrite He. cbn [bind].
    assert (Hva1 : validb (lens m1) a 8 = true) by (eapply validb_ext; eauto).
    destruct (store64_ok m1 v1 a p Hi1 Hva1) as [m2 [Hs2 [Hi2 Hl2]]]. rewrite Hs2. cbn [bind].
    destruct (p =? 0) eqn:Ep; [apply Z.eqb_eq in Ep; lia|].
    assert (HsepO : forall c, In c Own -> sep (p, ns) c /\ (forall e, In e (i_el v1) -> sep e c)).
    { intros c Hc. apply (xpost_sep _ _ _ _ _ _ _ _ c X Hwf (HvO c Hc)). intros e He'. apply HeO; auto. }
    assert (Hsep8 : forall r, sep r c0 -> sep r (a, len (le_enc 8 p))).
    { intros r S. rewrite le_enc_len. eapply sep_sub_r; [exact S|exact Wa8]. }
    exists (mkD m2 v1 fl), [(p, ns)], p. cbn [d_mem d_iov d_failed].
    split; [reflexivity|]. split; [reflexivity|]. split.
    { split; [exact Hi2|]. split.
      { unfold store64 in Hs2. rewrite (flat_store_sep _ _ _ _ _ Hs2); [exact Fl1|].
        intros e He'. apply Hsep8. apply (proj2 (HsepO c0 Hc0)). exact He'. }
      split; [exact Ps1|]. split.
      { apply psep_app. split; [exact HpO|]. split; [split; [intros y []|exact I]|].
        intros x y Hx [<-|[]]. apply sep_sym. apply (proj1 (HsepO x Hx)). }
      split.
      { intros e c He' Hc. apply in_app_or in Hc. destruct Hc as [Hc|[<-|[]]]; [apply (proj2 (HsepO c Hc)); exact He'|apply Sp1; exact He']. }
      intros c Hc. rewrite Hl2. apply in_app_or in Hc. destruct Hc as [Hc|[<-|[]]]; [eapply validb_ext; eauto|exact Pv]. }
    split; [rewrite Hl2; exact Hx1|]. split; [exact Hc1|]. split; [lia|].
    split; [eapply load64_store64_same; eauto; lia|].
    split.
    { rewrite (load64_store_other _ _ _ _ _ Hs2); [|rewrite le_enc_len; right; lia].
      unfold load64. rewrite (Fr1 _ _ Hvb). exact En. }
    split.
    { unfold store64 in Hs2. rewrite (load_store_sep _ _ _ _ _ _ Hs2); [exact Lp|]. apply Hsep8. apply (proj1 (HsepO c0 Hc0)). }
    split; [right; split; [reflexivity|split; [apply Z.eqb_neq in Ep; exact Ep|exact E0]]|].
    intros x k [c [Hc Wc]] Hsx. unfold store64 in Hs2. rewrite (load_store_sep _ _ _ _ _ _ Hs2).
    + apply Fr1. apply (validb_sub' _ (fst c) (snd c)); [exact Hwf|apply HvO; exact Hc| |]; unfold within in Wc; cbn [fst snd] in Wc; lia.
    + rewrite le_enc_len. eapply sep_sub_r; [apply Hsx; left; reflexivity|]. unfold within. cbn. lia.
Qed.

Lemma load64_range m a v : mem_bytes m -> load64 m a = Ok v -> 0 <= v < W64.
Proof.
  intros Hm H. unfold load64 in H. destruct (load m a 8) as [bs|] eqn:E; cbn [bind] in H; [|discriminate]. inversion H. subst v.
  pose proof (le_dec_range bs (load_bytes_ok _ _ _ _ Hm E)) as R. rewrite (load_len _ _ _ _ E) in R. exact R.
Qed.

(* ---- the field recursion ---- *)
Fixpoint sup_f (f : field) : Prop :=
  match f with FIov | FAIov => False | FArr _ efs => sup_fs efs | FNest fs => sup_fs fs | _ => True end
with sup_fs (fs : fields) : Prop := match fs with FNil => True | FCons _ f r => sup_f f /\ sup_fs r end.

Definition d_loop (efs : fields) (esz : Z) := fix loop (k : nat) (st : dst) (e : Z) {struct k} : res dst :=
  match k with O => Ok st | S k' => st' <- d_fields cfg_final efs st e ;; loop k' st' (e + esz) end.

Lemma d_loop_S efs esz k st e : d_loop efs esz (S k) st e = (st' <- d_fields cfg_final efs st e ;; d_loop efs esz k st' (e + esz)).
Proof. reflexivity. Qed.

Lemma d_field_arr esz efs st a : d_field cfg_final (FArr esz efs) st a =
  (st1 <- d_buffer cfg_final st a ;; p <- load64 (d_mem st1) a ;; n <- load64 (d_mem st1) (a + 8) ;;
   if n / esz =? 0 then Ok st1 else if p =? 0 then Err EOOB else
   if fields_active efs then d_loop efs esz (Z.to_nat (n / esz)) st1 p else Ok st1).
Proof. reflexivity. Qed.

Definition step_post (st st' : dst) (Own new : list (Z * Z)) (w' : list byte) (bound : Z) (W : list (Z * Z)) : Prop :=
  d_failed st' = d_failed st /\
  Rinv (d_mem st') (d_iov st') w' (Own ++ new) /\ ext (lens (d_mem st)) (lens (d_mem st')) /\
  i_cap (d_iov st') = i_cap (d_iov st) /\ i_nb (d_iov st') <= i_nb (d_iov st) + bound /\
  frameO (d_mem st) (d_mem st') Own W.

Lemma len2 {A} (x y : A) l : len (x :: y :: l) = 2 + len l.
Proof. rewrite !len_cons. lia. Qed.

Section RT.
Variable ms : mem.
Hypothesis ms_wf : Forall (fun L => L <= STRIDE) (lens ms).

Definition Pf (f : field) : Prop := forall avail st a sa Own c0 val wf Fs w',
  field_wf avail f -> sup_f f -> lay_f f -> psep (aranges_f f a) ->
  Rinv (d_mem st) (d_iov st) (wf ++ w') Own -> In c0 Own -> within (a, avail) c0 ->
  rd_f f ms sa = Ok (val, wf, Fs) -> eq_f f (d_mem st) a ms sa ->
  i_nb (d_iov st) + len Fs <= i_cap (d_iov st) ->
  exists st' new, d_field cfg_final f st a = Ok st' /\
    step_post st st' Own new w' (len Fs) (aranges_f f a) /\
    exists w2 F, rd_f f (d_mem st') a = Ok (val, w2, F) /\ fpok F (aranges_f f a) new.

Definition Pfs (fs : fields) : Prop := forall sz st base sbase Own c0 vals wf Fs w',
  fields_wf sz fs -> sup_fs fs -> lay_fs fs -> psep (aranges_fs fs base) ->
  Rinv (d_mem st) (d_iov st) (wf ++ w') Own -> In c0 Own -> within (base, sz) c0 ->
  rd_fs fs ms sbase = Ok (vals, wf, Fs) -> eq_fs fs (d_mem st) base ms sbase ->
  i_nb (d_iov st) + len Fs <= i_cap (d_iov st) ->
  exists st' new, d_fields cfg_final fs st base = Ok st' /\
    step_post st st' Own new w' (len Fs) (aranges_fs fs base) /\
    exists w2 F, rd_fs fs (d_mem st') base = Ok (vals, w2, F) /\ fpok F (aranges_fs fs base) new.

Lemma leaf_buf f :
  (forall st a, d_field cfg_final f st a = d_buffer cfg_final st a) ->
  (forall m a, rd_f f m a = rd_f FBuf m a) ->
  (forall a, aranges_f f a = [(a, 16)]) ->
  (forall avail, field_wf avail f -> 16 <= avail) ->
  (forall mr a sa, eq_f f mr a ms sa -> load64 mr (a + 8) = load64 ms (sa + 8)) ->
  Pf f.
Proof.
  intros Hd Hr Ha Hw He avail st a sa Own c0 val wf Fs w' Hwf _ _ _ HR Hc0 Wc Hrd Heq Hnb.
  rewrite Hr in Hrd. cbn [rd_f] in Hrd.
  destruct (load64 ms sa) as [ps|] eqn:Lps; cbn [bind] in Hrd; [|discriminate].
  destruct (load64 ms (sa + 8)) as [ns|] eqn:Lns; cbn [bind] in Hrd; [|discriminate].
  destruct (load ms ps ns) as [bs|] eqn:Lbs; cbn [bind] in Hrd; [|discriminate].
  inversion Hrd. subst val wf Fs. clear Hrd. rewrite len2, len_nil in Hnb.
  specialize (Hw _ Hwf).
  destruct (d_buffer_rt st a Own c0 ms sa ps ns bs w' HR Hc0) as [st' [new [p [Hdb [Hfl [HR' [Hx [Hc [Hn [L1 [L2 [L3 [Hnew Hfr]]]]]]]]]]]]]; auto.
  { unfold within in *. cbn [fst snd] in *. lia. }
  { lia. }
  exists st', new. split; [rewrite Hd; exact Hdb|]. split.
  { unfold step_post. rewrite Ha, len2, len_nil. split; [exact Hfl|]. split; [exact HR'|]. split; [exact Hx|]. split; [exact Hc|]. split; [lia|exact Hfr]. }
  exists bs, [(a, 16); (p, ns)]. split.
  { rewrite Hr. cbn [rd_f]. rewrite L1. cbn [bind]. rewrite L2. cbn [bind]. rewrite L3. reflexivity. }
  intros r [<-|[<-|[]]].
  - right. left. exists (a, 16). rewrite Ha. split; [left; reflexivity|apply within_refl].
  - destruct Hnew as [[-> ->]|[-> _]]; [left; cbn; lia|]. right. right. exists (p, ns). split; [left; reflexivity|apply within_refl].
Qed.

Lemma step_post_refl st Own w' bound W : Rinv (d_mem st) (d_iov st) w' Own -> 0 <= bound -> step_post st st Own [] w' bound W.
Proof.
  intros HR Hb. unfold step_post. rewrite app_nil_r. split; [reflexivity|]. split; [exact HR|]. split; [apply ext_refl|].
  split; [reflexivity|]. split; [lia|apply frameO_refl].
Qed.

Lemma loop_rt efs esz : Pfs efs -> 0 < esz -> fields_wf esz efs -> sup_fs efs -> lay_fs efs -> (forall e, psep (aranges_fs efs e)) ->
  forall k st e se Own c0 vss we Fe w',
  Rinv (d_mem st) (d_iov st) (we ++ w') Own -> In c0 Own -> within (e, Z.of_nat k * esz) c0 ->
  rd_elems (rd_fs efs ms) k se esz = Ok (vss, we, Fe) -> blk (d_mem st) e ms se (Z.of_nat k * esz) ->
  i_nb (d_iov st) + len Fe <= i_cap (d_iov st) ->
  exists st' new, d_loop efs esz k st e = Ok st' /\
    step_post st st' Own new w' (len Fe) [(e, Z.of_nat k * esz)] /\
    exists w2 F, rd_elems (rd_fs efs (d_mem st')) k e esz = Ok (vss, w2, F) /\ fpok F [(e, Z.of_nat k * esz)] new.
Proof.
  intros HP Hesz Hwf Hsup Hlay Hps. induction k as [|k IH]; intros st e se Own c0 vss we Fe w' HR Hc0 Wc Hrd B Hnb.
  - cbn [rd_elems] in Hrd. inversion Hrd. subst vss we Fe. exists st, []. split; [reflexivity|].
    split; [apply step_post_refl; [exact HR|cbn; lia]|]. exists [], []. split; [reflexivity|]. intros r [].
  - assert (HS : Z.of_nat (S k) * esz = Z.of_nat k * esz + esz) by lia. rewrite HS in Wc. rewrite HS in B. rewrite HS. clear HS. set (K := Z.of_nat k) in *. assert (HK : 0 <= K) by (unfold K; lia).
    assert (HKe : 0 <= K * esz) by nia.
    cbn [rd_elems] in Hrd.
    destruct (rd_fs efs ms se) as [[[v1 w1] F1]|] eqn:E1; cbn [bind] in Hrd; [|discriminate].
    destruct (rd_elems (rd_fs efs ms) k (se + esz) esz) as [[[vs w2] F2]|] eqn:E2; cbn [bind] in Hrd; [|discriminate].
    inversion Hrd. subst vss we Fe. clear Hrd. rewrite <- app_assoc in HR. rewrite len_app in Hnb.
    pose proof (len_nonneg F1) as HF1. pose proof (len_nonneg F2) as HF2.
    assert (W1 : within (e, esz) c0) by (unfold within in *; cbn [fst snd] in *; lia).
    assert (W2 : within (e + esz, K * esz) c0) by (unfold within in *; cbn [fst snd] in *; lia).
    destruct (HP esz st e se Own c0 v1 w1 F1 (w2 ++ w') Hwf Hsup Hlay (Hps e) HR Hc0 W1 E1) as [st1 [new1 [Hd1 [SP1 [w21 [F1' [Hr1 Hf1]]]]]]].
    { apply (proj2 (blk_eq _ _) efs esz e se Hwf). eapply blk_sub; [exact B|lia]. }
    { lia. }
    destruct SP1 as [Hfl1 [HR1 [Hx1 [Hc1 [Hn1 Hfr1]]]]].
    assert (HS1 : forall s, In s (aranges_fs efs e) -> within s (e, esz)) by (apply (proj2 aranges_within efs esz e Hwf)).
    destruct (IH st1 (e + esz) (se + esz) (Own ++ new1) c0 vs w2 F2 w' HR1 ltac:(apply in_or_app; left; exact Hc0) W2 E2) as [st2 [new2 [Hd2 [SP2 [w22 [F2' [Hr2 Hf2]]]]]]].
    { intros o j Ho Hj Hoj. rewrite Hfr1.
      - replace (K * esz) with (K * esz + esz - esz) in Hoj by lia. apply (blk_shift _ _ _ _ _ esz B ltac:(lia)); lia.
      - exists c0. split; [exact Hc0|]. unfold within in *. cbn [fst snd] in *. lia.
      - intros r Hr. eapply sep_sub_r; [|apply HS1; exact Hr]. unfold sep. cbn [fst snd]. lia. }
    { lia. }
    destruct SP2 as [Hfl2 [HR2 [Hx2 [Hc2 [Hn2 Hfr2]]]]].
    exists st2, (new1 ++ new2). split; [rewrite d_loop_S, Hd1; cbn [bind]; exact Hd2|]. split.
    { unfold step_post. split; [congruence|]. split; [rewrite app_assoc; exact HR2|]. split; [eapply ext_trans; eauto|].
      split; [congruence|]. split; [rewrite len_app; lia|].
      intros x j Hc Hs. rewrite Hfr2.
      - apply Hfr1; [exact Hc|]. intros r Hr. eapply sep_sub_r; [apply Hs; left; reflexivity|].
        eapply within_trans; [apply HS1; exact Hr|]. unfold within. cbn [fst snd]. lia.
      - destruct Hc as [c [Hc Wx]]. exists c. split; [apply in_or_app; left; exact Hc|exact Wx].
      - intros r [<-|[]]. eapply sep_sub_r; [apply Hs; left; reflexivity|]. unfold within. cbn [fst snd]. lia. }
    destruct HR1 as [_ [_ [_ [HpO1 _]]]].
    assert (St : forall r, In r F1' -> agree (d_mem st1) (d_mem st2) r).
    { apply (stab _ _ Own new1 F1' (aranges_fs efs e) [(e + esz, K * esz)] c0 Hf1 Hfr2 HpO1 Hc0).
      - intros s Hs. eapply within_trans; [apply HS1; exact Hs|exact W1].
      - intros s [<-|[]]. exact W2.
      - intros s1 s2 Hs1 [<-|[]]. eapply within_sep; [apply HS1; exact Hs1|]. unfold sep. cbn [fst snd]. lia. }
    exists (w21 ++ w22), (F1' ++ F2'). split.
    { cbn [rd_elems]. rewrite (proj2 (rd_stable _ _) efs e _ Hr1 St). cbn [bind]. rewrite Hr2. reflexivity. }
    intros r Hr. apply in_app_or in Hr. destruct Hr as [Hr|Hr].
    + destruct (Hf1 r Hr) as [H|[[s [Hs Ws]]|[c [Hc Wx]]]]; [left; exact H| |].
      * right. left. exists (e, K * esz + esz). split; [left; reflexivity|]. eapply within_trans; [exact Ws|].
        eapply within_trans; [apply HS1; exact Hs|]. unfold within. cbn [fst snd]. lia.
      * right. right. exists c. split; [apply in_or_app; left; exact Hc|exact Wx].
    + destruct (Hf2 r Hr) as [H|[[s [[<-|[]] Ws]]|[c [Hc Wx]]]]; [left; exact H| |].
      * right. left. exists (e, K * esz + esz). split; [left; reflexivity|]. eapply within_trans; [exact Ws|].
        unfold within. cbn [fst snd]. lia.
      * right. right. exists c. split; [apply in_or_app; right; exact Hc|exact Wx].
Qed.

Lemma rt_all : (forall f, Pf f) /\ (forall fs, Pfs fs).
Proof.
  apply field_fields_mut.
  - (* FFixed *) intros n avail st a sa Own c0 val wf Fs w' Hwf _ _ _ HR Hc0 Wc Hrd Heq Hnb.
    cbn [rd_f] in Hrd. destruct (load ms sa n) as [bs|] eqn:Lbs; cbn [bind] in Hrd; [|discriminate].
    inversion Hrd. subst val wf Fs. cbn [eq_f] in Heq. cbn [app] in HR.
    exists st, []. split; [reflexivity|]. split; [apply step_post_refl; [exact HR|apply len_nonneg]|].
    exists [], [(a, n)]. split; [cbn [rd_f]; rewrite Heq, Lbs; reflexivity|].
    intros r [<-|[]]. right. left. exists (a, n). split; [left; reflexivity|apply within_refl].
  - (* FBuf *) apply leaf_buf; try reflexivity; cbn [field_wf eq_f]; auto.
  - (* FStr *) apply leaf_buf; try reflexivity; cbn [field_wf eq_f]; auto.
  - (* FFixBuf *) intros n. apply leaf_buf; try reflexivity; cbn [field_wf eq_f]; auto.
  - (* FABuf *) apply leaf_buf; try reflexivity; cbn [field_wf eq_f]; auto.
  - (* FArr *) intros esz efs IH avail st a sa Own c0 val wf Fs w' [Hw16 [Hesz Hwfe]] Hsup [Hpse Hlaye] _ HR Hc0 Wc Hrd Heq Hnb.
    cbn [sup_f] in Hsup. cbn [eq_f] in Heq. cbn [rd_f] in Hrd. cbn [aranges_f].
    destruct (load64 ms sa) as [ps|] eqn:Lps; cbn [bind] in Hrd; [|discriminate].
    destruct (load64 ms (sa + 8)) as [ns|] eqn:Lns; cbn [bind] in Hrd; [|discriminate].
    destruct (load ms ps ns) as [bs|] eqn:Lbs; cbn [bind] in Hrd; [|discriminate].
    assert (Wa : within (a, 16) c0) by (unfold within in *; cbn [fst snd] in *; lia).
    destruct (fields_active efs) eqn:Ea.
    2:{ (* elements without fields: like a buffer *)
      inversion Hrd. subst val wf Fs. clear Hrd. rewrite len2, len_nil in Hnb.
      destruct (d_buffer_rt st a Own c0 ms sa ps ns bs w' HR Hc0 Wa Lps Lns Lbs ltac:(rewrite Lns; exact Heq) ltac:(lia))
        as [st' [new [p [Hdb [Hfl [HR' [Hx [Hc [Hn [L1 [L2 [L3 [Hnew Hfr]]]]]]]]]]]]].
      assert (Hdf : d_field cfg_final (FArr esz efs) st a = Ok st').
      { rewrite d_field_arr, Hdb. cbn [bind]. rewrite L1. cbn [bind]. rewrite L2. cbn [bind].
        destruct (ns / esz =? 0) eqn:Ez; [reflexivity|]. apply Z.eqb_neq in Ez.
        destruct (p =? 0) eqn:Ep; [|rewrite Ea; reflexivity]. apply Z.eqb_eq in Ep.
        destruct Hnew as [[-> _]|[_ [Hp _]]]; [rewrite Z.div_0_l in Ez by lia; congruence|congruence]. }
      exists st', new. split; [exact Hdf|]. split.
      { unfold step_post. rewrite len2, len_nil. split; [exact Hfl|]. split; [exact HR'|]. split; [exact Hx|]. split; [exact Hc|]. split; [lia|exact Hfr]. }
      exists bs, [(a, 16); (p, ns)]. split.
      { cbn [rd_f]. rewrite L1. cbn [bind]. rewrite L2. cbn [bind]. rewrite L3. cbn [bind]. rewrite Ea. reflexivity. }
      intros r [<-|[<-|[]]].
      - right. left. exists (a, 16). split; [left; reflexivity|apply within_refl].
      - destruct Hnew as [[-> ->]|[-> _]]; [left; cbn; lia|]. right. right. exists (p, ns). split; [left; reflexivity|apply within_refl]. }
    (* array of messages *)
    destruct (rd_elems (rd_fs efs ms) (Z.to_nat (ns / esz)) ps esz) as [[[vs we] Fe]|] eqn:Ee; cbn [bind] in Hrd; [|discriminate].
    inversion Hrd. subst val wf Fs. clear Hrd. rewrite len2 in Hnb. pose proof (len_nonneg Fe) as HFe.
    rewrite <- app_assoc in HR.
    destruct (d_buffer_rt st a Own c0 ms sa ps ns bs (we ++ w') HR Hc0 Wa Lps Lns Lbs ltac:(rewrite Lns; exact Heq) ltac:(lia))
      as [st1 [new [p [Hdb [Hfl [HR1 [Hx [Hc [Hn [L1 [L2 [L3 [Hnew Hfr]]]]]]]]]]]]].
    assert (Hdf : d_field cfg_final (FArr esz efs) st a = d_loop efs esz (Z.to_nat (ns / esz)) st1 p).
    { rewrite d_field_arr, Hdb. cbn [bind]. rewrite L1. cbn [bind]. rewrite L2. cbn [bind].
      destruct (ns / esz =? 0) eqn:Ez; [apply Z.eqb_eq in Ez; rewrite Ez; reflexivity|]. apply Z.eqb_neq in Ez.
      destruct (p =? 0) eqn:Ep; [|rewrite Ea; reflexivity]. apply Z.eqb_eq in Ep.
      destruct Hnew as [[-> _]|[_ [Hp _]]]; [rewrite Z.div_0_l in Ez by lia; congruence|congruence]. }
    destruct Hnew as [[Hns0 Hnew0]|[Hnew1 [Hp0 Hns0]]].
    { (* empty array *)
      subst ns new. rewrite Z.div_0_l in * by lia. cbn [Z.to_nat rd_elems] in Ee. inversion Ee. subst vs we Fe.
      exists st1, []. split; [rewrite Hdf; reflexivity|]. split.
      { unfold step_post. unfold len. cbn [length]. split; [exact Hfl|]. split; [exact HR1|]. split; [exact Hx|]. split; [exact Hc|]. split; [lia|exact Hfr]. }
      exists (bs ++ []), [(a, 16); (p, 0)]. split.
      { cbn [rd_f]. rewrite L1. cbn [bind]. rewrite L2. cbn [bind]. rewrite L3. cbn [bind]. rewrite Ea. rewrite Z.div_0_l by lia. reflexivity. }
      intros r [<-|[<-|[]]]; [|left; cbn; lia].
      right. left. exists (a, 16). split; [left; reflexivity|apply within_refl]. }
    subst new. set (k := Z.to_nat (ns / esz)) in *.
    pose proof HR1 as [Hinv1 [_ [_ [HpO1 [_ HvO1]]]]].
    pose proof (inv_wf _ _ Hinv1) as Hwf1.
    assert (Hns : 0 <= ns).
    { pose proof (load64_range _ _ _ (inv_bytes _ _ Hinv1) L2). lia. }
    assert (Hk : Z.of_nat k * esz <= ns).
    { unfold k. rewrite Z2Nat.id by (apply Z.div_pos; lia). pose proof (Z.mul_div_le ns esz Hesz). lia. }
    assert (Hin1 : In (p, ns) (Own ++ [(p, ns)])) by (apply in_or_app; right; left; reflexivity).
    assert (Wp : within (p, Z.of_nat k * esz) (p, ns)) by (unfold within; cbn [fst snd]; lia).
    destruct (loop_rt efs esz IH Hesz Hwfe Hsup Hlaye Hpse k st1 p ps (Own ++ [(p, ns)]) (p, ns) vs we Fe w' HR1 Hin1 Wp Ee)
      as [st2 [new2 [Hd2 [SP2 [w2 [F2 [Hr2 Hf2]]]]]]].
    { eapply blk_sub; [apply (blk_of_loads _ _ _ _ _ bs Hwf1 ms_wf L3 Lbs)|exact Hk]. }
    { lia. }
    destruct SP2 as [Hfl2 [HR2 [Hx2 [Hc2 [Hn2 Hfr2]]]]].
    assert (Hsp : sep c0 (p, ns)).
    { apply psep_app in HpO1. destruct HpO1 as [_ [_ Hxs]]. apply Hxs; [exact Hc0|left; reflexivity]. }
    assert (Hfr2' : forall x j, within (x, j) c0 -> load (d_mem st2) x j = load (d_mem st1) x j).
    { intros x j Wx. apply Hfr2; [exists c0; split; [apply in_or_app; left; exact Hc0|exact Wx]|].
      intros r [<-|[]]. apply (within_sep2 _ c0 _ (p, ns) Wx Wp Hsp). }
    exists st2, ((p, ns) :: new2). split; [rewrite Hdf; exact Hd2|]. split.
    { unfold step_post. split; [congruence|]. split; [rewrite <- app_assoc in HR2; exact HR2|]. split; [eapply ext_trans; eauto|].
      split; [congruence|]. split; [rewrite len2; lia|].
      intros x j Hcx Hs. destruct Hcx as [c [Hcc Wx]]. rewrite Hfr2.
      - apply Hfr; [exists c; split; [exact Hcc|exact Wx]|exact Hs].
      - exists c. split; [apply in_or_app; left; exact Hcc|exact Wx].
      - intros r [<-|[]]. apply psep_app in HpO1. destruct HpO1 as [_ [_ Hxs]].
        apply (within_sep2 _ c _ (p, ns) Wx Wp). apply Hxs; [exact Hcc|left; reflexivity]. }
    assert (Hv2 : validb (lens (d_mem st2)) p ns = true).
    { eapply validb_ext; [exact Hx2|]. apply (HvO1 (p, ns) Hin1). }
    destruct (load_valid _ _ _ Hv2) as [bs2 Lbs2].
    exists (bs2 ++ w2), ((a, 16) :: (p, ns) :: F2). split.
    { cbn [rd_f]. unfold load64. rewrite (Hfr2' a 8) by (unfold within in *; cbn [fst snd] in *; lia).
      rewrite (Hfr2' (a + 8) 8) by (unfold within in *; cbn [fst snd] in *; lia).
      fold (load64 (d_mem st1) a). fold (load64 (d_mem st1) (a + 8)). rewrite L1. cbn [bind]. rewrite L2. cbn [bind].
      rewrite Lbs2. cbn [bind]. rewrite Ea. fold k. rewrite Hr2. reflexivity. }
    intros r [<-|[<-|Hr]].
    + right. left. exists (a, 16). split; [left; reflexivity|apply within_refl].
    + right. right. exists (p, ns). split; [left; reflexivity|apply within_refl].
    + destruct (Hf2 r Hr) as [H|[[s [[<-|[]] Ws]]|[c [Hcc Wx]]]]; [left; exact H| |].
      * right. right. exists (p, ns). split; [left; reflexivity|eapply within_trans; eauto].
      * right. right. exists c. split; [right; exact Hcc|exact Wx].
  - (* FIov *) intros avail st a sa Own c0 val wf Fs w' _ [].
  - (* FAIov *) intros avail st a sa Own c0 val wf Fs w' _ [].
  - (* FNest *) intros fs IH avail st a sa Own c0 val wf Fs w' Hwf Hsup Hlay Hps HR Hc0 Wc Hrd Heq Hnb.
    cbn [field_wf sup_f lay_f aranges_f eq_f rd_f d_field] in *.
    destruct (rd_fs fs ms sa) as [[[vs w1] F1]|] eqn:E1; cbn [bind] in Hrd; [|discriminate].
    inversion Hrd. subst val wf Fs. clear Hrd.
    destruct (IH avail st a sa Own c0 vs w1 F1 w' Hwf Hsup Hlay Hps HR Hc0 Wc E1 Heq Hnb) as [st' [new [Hd [SP [w2 [F [Hr Hf]]]]]]].
    exists st', new. split; [exact Hd|]. split; [exact SP|]. exists w2, F. split; [rewrite Hr; reflexivity|exact Hf].
  - (* FMap *) intros vsz vfs _ avail st a sa Own c0 val wf Fs w' Hw32 _ _ Hps HR Hc0 Wc Hrd [Heq1 Heq2] Hnb.
    cbn [field_wf aranges_f rd_f d_field] in *.
    destruct (load64 ms sa) as [ip|] eqn:Lip; cbn [bind] in Hrd; [|discriminate].
    destruct (load64 ms (sa + 8)) as [inn|] eqn:Linn; cbn [bind] in Hrd; [|discriminate].
    destruct (load ms ip inn) as [ibs|] eqn:Libs; cbn [bind] in Hrd; [|discriminate].
    destruct (load64 ms (sa + 16)) as [bp|] eqn:Lbp; cbn [bind] in Hrd; [|discriminate].
    destruct (load64 ms (sa + 24)) as [bn|] eqn:Lbn; cbn [bind] in Hrd; [|discriminate].
    destruct (load ms bp bn) as [bbs|] eqn:Lbbs; cbn [bind] in Hrd; [|discriminate].
    inversion Hrd. subst val wf Fs. clear Hrd. rewrite !len2, len_nil in Hnb. rewrite <- app_assoc in HR.
    assert (Wa : within (a, 16) c0) by (unfold within in *; cbn [fst snd] in *; lia).
    assert (Wb : within (a + 16, 16) c0) by (unfold within in *; cbn [fst snd] in *; lia).
    destruct (d_buffer_rt st a Own c0 ms sa ip inn ibs (bbs ++ w') HR Hc0 Wa Lip Linn Libs ltac:(rewrite Linn; exact Heq1) ltac:(lia))
      as [st1 [new1 [p1 [Hdb1 [Hfl1 [HR1 [Hx1 [Hc1 [Hn1 [L1 [L2 [L3 [Hnew1 Hfr1]]]]]]]]]]]]].
    assert (Heq2' : load64 (d_mem st1) (a + 16 + 8) = load64 ms (sa + 16 + 8)).
    { replace (a + 16 + 8) with (a + 24) by lia. replace (sa + 16 + 8) with (sa + 24) by lia. rewrite Lbn, <- Heq2.
      unfold load64. rewrite Hfr1; [reflexivity| |].
      - exists c0. split; [exact Hc0|]. unfold within in *. cbn [fst snd] in *. lia.
      - intros r [<-|[]]. unfold sep. cbn [fst snd]. lia. }
    replace (sa + 24) with (sa + 16 + 8) in Lbn by lia.
    destruct (d_buffer_rt st1 (a + 16) (Own ++ new1) c0 ms (sa + 16) bp bn bbs w' HR1 ltac:(apply in_or_app; left; exact Hc0) Wb Lbp Lbn Lbbs Heq2' ltac:(lia))
      as [st2 [new2 [p2 [Hdb2 [Hfl2 [HR2 [Hx2 [Hc2 [Hn2 [M1 [M2 [M3 [Hnew2 Hfr2]]]]]]]]]]]]].
    exists st2, (new1 ++ new2). split; [rewrite Hdb1; cbn [bind]; exact Hdb2|]. split.
    { unfold step_post. rewrite !len2, len_nil. split; [congruence|]. split; [rewrite app_assoc; exact HR2|]. split; [eapply ext_trans; eauto|].
      split; [congruence|]. split; [lia|].
      intros x j Hcx Hs. destruct Hcx as [c [Hcc Wx]]. rewrite Hfr2.
      - apply Hfr1; [exists c; split; [exact Hcc|exact Wx]|]. intros r [<-|[]]. apply Hs. left. reflexivity.
      - exists c. split; [apply in_or_app; left; exact Hcc|exact Wx].
      - intros r [<-|[]]. apply Hs. right. left. reflexivity. }
    pose proof HR1 as [_ [_ [_ [HpO1 _]]]].
    assert (Hfr2' : forall x j, within (x, j) (a, 16) -> load (d_mem st2) x j = load (d_mem st1) x j).
    { intros x j Wx. apply Hfr2; [exists c0; split; [apply in_or_app; left; exact Hc0|eapply within_trans; eauto]|].
      intros r [<-|[]]. unfold within, sep in *. cbn [fst snd] in *. lia. }
    assert (L3' : load (d_mem st2) p1 inn = Ok ibs).
    { destruct Hnew1 as [[-> _]|[Hn1' _]]; [rewrite load_nonpos in * by lia; exact L3|]. rewrite <- L3. apply Hfr2.
      - exists (p1, inn). split; [apply in_or_app; right; rewrite Hn1'; left; reflexivity|apply within_refl].
      - intros r [<-|[]]. apply psep_app in HpO1. destruct HpO1 as [_ [_ Hxs]]. apply sep_sym.
        eapply within_sep; [exact Wb|]. apply Hxs; [exact Hc0|rewrite Hn1'; left; reflexivity]. }
    exists (ibs ++ bbs), [(a, 16); (p1, inn); (a + 16, 16); (p2, bn)]. split.
    { unfold load64 at 1 2. rewrite (Hfr2' a 8) by (unfold within; cbn [fst snd]; lia).
      rewrite (Hfr2' (a + 8) 8) by (unfold within; cbn [fst snd]; lia).
      fold (load64 (d_mem st1) a). fold (load64 (d_mem st1) (a + 8)). rewrite L1. cbn [bind]. rewrite L2. cbn [bind].
      rewrite L3'. cbn [bind]. rewrite M1. cbn [bind]. replace (a + 24) with (a + 16 + 8) by lia. rewrite M2. cbn [bind].
      rewrite M3. reflexivity. }
    intros r [<-|[<-|[<-|[<-|[]]]]].
    + right. left. exists (a, 16). split; [left; reflexivity|apply within_refl].
    + destruct Hnew1 as [[-> ->]|[-> _]]; [left; cbn; lia|]. right. right. exists (p1, inn). split; [left; reflexivity|apply within_refl].
    + right. left. exists (a + 16, 16). split; [right; left; reflexivity|apply within_refl].
    + destruct Hnew2 as [[-> ->]|[-> _]]; [left; cbn; lia|]. right. right. exists (p2, bn). split; [apply in_or_app; right; left; reflexivity|apply within_refl].
  - (* FNil *) intros sz st base sbase Own c0 vals wf Fs w' _ _ _ _ HR _ _ Hrd _ _.
    cbn [rd_fs] in Hrd. inversion Hrd. subst vals wf Fs. cbn [app] in HR.
    exists st, []. split; [reflexivity|]. split; [apply step_post_refl; [exact HR|cbn; lia]|].
    exists [], []. split; [reflexivity|]. intros r [].
  - (* FCons *) intros off f IHf r IHr sz st base sbase Own c0 vals wf Fs w' [Ho [Hwf Hwr]] [Hsf Hsr] [Hlf Hlr] Hps HR Hc0 Wc Hrd [Heqf Heqr] Hnb.
    cbn [aranges_fs] in *. apply psep_app in Hps. destruct Hps as [Hpf [Hpr Hpx]].
    cbn [rd_fs] in Hrd.
    destruct (rd_f f ms (sbase + off)) as [[[v1 w1] F1]|] eqn:E1; cbn [bind] in Hrd; [|discriminate].
    destruct (rd_fs r ms sbase) as [[[vs w2] F2]|] eqn:E2; cbn [bind] in Hrd; [|discriminate].
    inversion Hrd. subst vals wf Fs. clear Hrd. rewrite <- app_assoc in HR. rewrite len_app in Hnb.
    pose proof (len_nonneg F1) as HF1. pose proof (len_nonneg F2) as HF2.
    assert (W1 : within (base + off, sz - off) c0) by (unfold within in *; cbn [fst snd] in *; lia).
    destruct (IHf (sz - off) st (base + off) (sbase + off) Own c0 v1 w1 F1 (w2 ++ w') Hwf Hsf Hlf Hpf HR Hc0 W1 E1 Heqf ltac:(lia))
      as [st1 [new1 [Hd1 [SP1 [w21 [F1' [Hr1 Hf1]]]]]]].
    destruct SP1 as [Hfl1 [HR1 [Hx1 [Hc1 [Hn1 Hfr1]]]]].
    assert (HS1 : forall s, In s (aranges_f f (base + off)) -> within s c0).
    { intros s Hs. eapply within_trans; [apply (proj1 aranges_within f (sz - off) (base + off) Hwf s Hs)|exact W1]. }
    assert (HS2 : forall s, In s (aranges_fs r base) -> within s c0).
    { intros s Hs. eapply within_trans; [apply (proj2 aranges_within r sz base Hwr s Hs)|exact Wc]. }
    destruct (IHr sz st1 base sbase (Own ++ new1) c0 vs w2 F2 w' Hwr Hsr Hlr Hpr HR1 ltac:(apply in_or_app; left; exact Hc0) Wc E2)
      as [st2 [new2 [Hd2 [SP2 [w22 [F2' [Hr2 Hf2]]]]]]].
    { apply (proj2 (eq_stable (d_mem st) (d_mem st1) ms) r base sbase); [|exact Heqr].
      intros s Hs. eapply frame_agree; [exact Hfr1|exists c0; split; [exact Hc0|apply HS2; exact Hs]|].
      intros q Hq. apply sep_sym. apply Hpx; auto. }
    { lia. }
    destruct SP2 as [Hfl2 [HR2 [Hx2 [Hc2 [Hn2 Hfr2]]]]].
    exists st2, (new1 ++ new2). split; [rewrite d_fields_cons, Hd1; cbn [bind]; exact Hd2|]. split.
    { unfold step_post. split; [congruence|]. split; [rewrite app_assoc; exact HR2|]. split; [eapply ext_trans; eauto|].
      split; [congruence|]. split; [rewrite len_app; lia|].
      intros x j Hcx Hs. destruct Hcx as [c [Hcc Wx]]. rewrite Hfr2.
      - apply Hfr1; [exists c; split; [exact Hcc|exact Wx]|]. intros q Hq. apply Hs. apply in_or_app. left. exact Hq.
      - exists c. split; [apply in_or_app; left; exact Hcc|exact Wx].
      - intros q Hq. apply Hs. apply in_or_app. right. exact Hq. }
    destruct HR1 as [_ [_ [_ [HpO1 _]]]].
    assert (St : forall x, In x F1' -> agree (d_mem st1) (d_mem st2) x).
    { apply (stab _ _ Own new1 F1' (aranges_f f (base + off)) (aranges_fs r base) c0 Hf1 Hfr2 HpO1 Hc0 HS1 HS2). intros s1 s2 H1 H2. apply Hpx; auto. }
    exists (w21 ++ w22), (F1' ++ F2'). split.
    { cbn [rd_fs]. rewrite (proj1 (rd_stable _ _) f (base + off) _ Hr1 St). cbn [bind]. rewrite Hr2. reflexivity. }
    intros x Hx. apply in_app_or in Hx. destruct Hx as [Hx|Hx].
    + destruct (Hf1 x Hx) as [H|[[s [Hs Ws]]|[c [Hcc Wx]]]]; [left; exact H| |].
      * right. left. exists s. split; [apply in_or_app; left; exact Hs|exact Ws].
      * right. right. exists c. split; [apply in_or_app; left; exact Hcc|exact Wx].
    + destruct (Hf2 x Hx) as [H|[[s [Hs Ws]]|[c [Hcc Wx]]]]; [left; exact H| |].
      * right. left. exists s. split; [apply in_or_app; right; exact Hs|exact Ws].
      * right. right. exists c. split; [apply in_or_app; right; exact Hcc|exact Wx].
Qed.

End RT.
