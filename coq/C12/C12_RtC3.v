(* C12_RtC3.v — the sender half for CHECKED shapes (add_checksum) and ser_roundtrip for checked shapes. *)
From Coq Require Import ZArith List Bool Lia.
From PV Require Import Base.U64 C12.C12_Model C12.C12_Mem C12.C12_MemC C12.C12_Iov C12.C12_Flat C12.C12_Deser C12.C12_Sep C12.C12_Wire C12.C12_RtD C12.C12_RtS C12.C12_Rt C12.C12_RtC C12.C12_RtC2.
Import ListNotations.
Local Open Scope Z_scope.

Lemma hash_iov_app hstep x a : forall m b, hash_iov hstep m x (a ++ b) = (m' <- hash_iov hstep m x a ;; hash_iov hstep m' x b).
Proof.
  induction a as [|[eb l] r IH]; intros m b; [reflexivity|]. cbn [app hash_iov].
  destruct (load32 m x) as [hh|]; cbn [bind]; [|reflexivity]. destruct (load m eb l) as [dd|]; cbn [bind]; [|reflexivity].
  destruct (store32 m x (hash_ext hstep hh dd)); cbn [bind]; [apply IH|reflexivity].
Qed.

Section RTC3.
  Variable hstep : Z -> byte -> Z.
  Hypothesis hstep_range : forall h b, 0 <= h < W32 -> 0 <= b < 256 -> 0 <= hstep h b < W32.

  Theorem serialize_wire_checked sh ms x sst vals wf Fs body0 :
    sh_checked sh = true -> 4 <= sh_size sh -> sup_fs (sh_fields sh) ->
    mem_bytes ms -> Forall (fun L => L <= STRIDE) (lens ms) -> 0 <= x ->
    serialize hstep cfg_final sh ms x = Ok sst -> s_full sst = false ->
    rd_fs (perm (sh_fields sh)) ms x = Ok (vals, wf, Fs) -> load ms x (sh_size sh) = Ok body0 ->
    load ms x 4 = Ok (le_enc 4 0) ->
    (forall e, In e (removelast (i_el (s_iov sst))) -> sep e (x, 4)) ->
    let h := hash_ext hstep 0 wf in
    let H := hash_ext hstep h (le_enc 4 h ++ skipn 4 body0) in
    lens (s_mem sst) = lens ms /\
    flat (s_mem sst) (i_el (s_iov sst)) = Ok (wf ++ (le_enc 4 H ++ skipn 4 body0)) /\
    load (s_mem sst) x (sh_size sh) = Ok (le_enc 4 H ++ skipn 4 body0) /\ 0 <= H < W32 /\
    (forall a k, sep (a, k) (x, 4) -> load (s_mem sst) a k = load ms a k).
  Proof.
    intros Hck Hsz Hsup Hbm Hwf Hx Hser Hf Hrd Lb L0 Hsep h H.
    unfold serialize in Hser. rewrite Hck in Hser. rewrite s_pass_filt in Hser.
    set (st0 := mkS ms (mkIov 4 [] 0 32) false) in *.
    assert (H2 : exists st2 m', s_fields cfg_final (perm (sh_fields sh)) st0 x = Ok st2 /\
                 hash_iov hstep (s_mem (s_push st2 x (sh_size sh))) x (i_el (s_iov (s_push st2 x (sh_size sh)))) = Ok m' /\
                 sst = mkS m' (s_iov (s_push st2 x (sh_size sh))) (s_full (s_push st2 x (sh_size sh)))).
    { unfold perm. rewrite s_fields_app. destruct (s_fields cfg_final (filt true (sh_fields sh)) st0 x) as [st1|]; cbn [bind] in *; [|discriminate Hser].
      rewrite s_pass_filt in Hser.
      destruct (s_fields cfg_final (filt false (sh_fields sh)) st1 x) as [st2|]; cbn [bind] in *; [|discriminate Hser].
      destruct (hash_iov hstep (s_mem (s_push st2 x (sh_size sh))) x (i_el (s_iov (s_push st2 x (sh_size sh))))) as [m'|] eqn:Eh; cbn [bind] in Hser; [|discriminate Hser].
      inversion Hser. eauto. }
    destruct H2 as [st2 [m' [H2 [Hh ->]]]]. cbn [s_full s_mem s_iov] in *.
    assert (Hf2 : s_full st2 = false).
    { apply not_true_false. intros Ht. rewrite (s_push_mono _ _ _ Ht) in Hf. discriminate. }
    assert (Hsp : sup_fs (perm (sh_fields sh))) by (apply fapp_sup; apply filt_sup; exact Hsup).
    destruct (proj2 s_all (perm (sh_fields sh)) st0 x st2 vals wf Fs [] Hsp H2 Hf2 Hrd eq_refl) as [Hm2 Fl2].
    cbn [s_mem st0 app] in Hm2, Fl2.
    assert (E3 : s_mem (s_push st2 x (sh_size sh)) = ms /\ i_el (s_iov (s_push st2 x (sh_size sh))) = i_el (s_iov st2) ++ [(x, sh_size sh)]).
    { revert Hf. unfold s_push. destruct (0 <? i_cap (s_iov st2) - i_end (s_iov st2)); [|cbn; discriminate].
      destruct (0 <? sh_size sh) eqn:E; [|apply Z.ltb_ge in E; lia]. cbn. auto. }
    destruct E3 as [Em Ee]. rewrite Em, Ee in Hh. rewrite Ee in Hsep |- *. rewrite removelast_last in Hsep.
    rewrite hash_iov_app in Hh.
    assert (Hz : 0 <= 0 < W32) by (unfold W32; lia).
    destruct (hash_iov_flat hstep hstep_range x (i_el (s_iov st2)) ms wf 0 Hbm Hsep L0 Hz Fl2) as [m1 [A [B [C [D [E F]]]]]].
    rewrite A in Hh. cbn [bind hash_iov] in Hh. fold h in B, C.
    unfold load32 in Hh. rewrite B in Hh. cbn [bind] in Hh. rewrite (le_dec_enc4 _ C) in Hh.
    assert (Hv : validb (lens ms) x (sh_size sh) = true) by (eapply load_valid_inv; eauto).
    assert (Lr : load m1 (x + 4) (sh_size sh - 4) = Ok (skipn 4 body0)).
    { rewrite F by (unfold sep; cbn [fst snd]; lia). pose proof (load_suffix ms x (sh_size sh) body0 4 Hwf Lb ltac:(lia) Hx) as Q. exact Q. }
    assert (Wf1 : Forall (fun L => L <= STRIDE) (lens m1)) by (rewrite D; exact Hwf).
    assert (V1 : validb (lens m1) x (sh_size sh) = true) by (rewrite D; exact Hv).
    rewrite (load_join m1 x (sh_size sh) 4 _ _ Wf1 V1 Hx ltac:(lia) B Lr) in Hh. cbn [bind] in Hh. fold H in Hh.
    destruct (store32 m1 x H) as [m2|] eqn:Hst; cbn [bind] in Hh; [|discriminate Hh]. inversion Hh. subst m'. clear Hh.
    unfold store32 in Hst.
    assert (Hl4 : len (le_enc 4 H) = 4) by (rewrite le_enc_len; reflexivity).
    assert (HH : 0 <= H < W32).
    { apply hash_ext_range; [exact hstep_range| |exact C]. apply bytes_ok_app; [apply le_enc_bytes_ok|].
      apply bytes_ok_skipn. apply (load_bytes_ok ms x (sh_size sh) body0 Hbm Lb). }
    assert (Hl2 : lens m2 = lens ms) by (rewrite (store_lens _ _ _ _ Hst); exact D).
    assert (Lb2 : load m2 x (sh_size sh) = Ok (le_enc 4 H ++ skipn 4 body0)).
    { apply (load_join m2 x (sh_size sh) 4); [rewrite Hl2; exact Hwf|rewrite Hl2; exact Hv|exact Hx|lia| |].
      - rewrite <- Hl4 at 1. apply (load_store_same _ _ _ _ Hst). lia.
      - rewrite (load_store_sep _ _ _ _ _ _ Hst); [exact Lr|]. rewrite Hl4. unfold sep. cbn [fst snd]. lia. }
    assert (Fr2 : forall a k, sep (a, k) (x, 4) -> load m2 a k = load ms a k).
    { intros a k Hak. rewrite (load_store_sep _ _ _ _ _ _ Hst) by (rewrite Hl4; exact Hak). apply F. exact Hak. }
    split; [exact Hl2|]. split.
    { rewrite flat_snoc.
      assert (Q : forall el, (forall e, In e el -> sep e (x, 4)) -> flat m2 el = flat ms el).
      { induction el as [|[b l] r IHr]; intros Hse; [reflexivity|]. cbn [flat]. rewrite (Fr2 b l) by (apply (Hse (b, l)); left; reflexivity).
        rewrite IHr; [reflexivity|]. intros e He. apply Hse. right. exact He. }
      rewrite (Q _ Hsep), Fl2. cbn [bind]. rewrite Lb2. reflexivity. }
    split; [exact Lb2|]. split; [exact HH|exact Fr2].
  Qed.

  (* ser_roundtrip for checked shapes (without iovec_array fields) *)
  Theorem ser_roundtrip_noiov_checked sh ms x sst vals wf Fs body0 mr v :
    shape_wf sh -> sh_checked sh = true ->
    sup_fs (sh_fields sh) -> lay_fs (sh_fields sh) -> (forall b, psep (aranges_fs (sh_fields sh) b)) ->
    mem_bytes ms -> Forall (fun L => L <= STRIDE) (lens ms) -> 0 <= x ->
    rd_fs (perm (sh_fields sh)) ms x = Ok (vals, wf, Fs) -> load ms x (sh_size sh) = Ok body0 ->
    (* the sender starts from m_checksum = 0; neither the value nor any emitted piece overlaps the checksum word *)
    load ms x 4 = Ok (le_enc 4 0) ->
    (forall r, In r Fs -> sep r (x, 4)) ->
    serialize hstep cfg_final sh ms x = Ok sst -> s_full sst = false ->
    (forall e, In e (removelast (i_el (s_iov sst))) -> sep e (x, 4)) ->
    inv mr v -> psep (i_el v) -> flat mr (i_el v) = flat (s_mem sst) (i_el (s_iov sst)) ->
    i_nb v + 1 + len Fs <= i_cap v ->
    exists t st w2 F, deserialize hstep cfg_final sh mr v = Ok (t, st) /\ t <> 0 /\
      ptr_ok (lens (d_mem st)) t (sh_size sh) /\
      rd_fs (perm (sh_fields sh)) (d_mem st) t = Ok (vals, w2, F) /\
      flat (d_mem st) (i_el (d_iov st)) = Ok [].
  Proof.
    intros Hsh Hck Hsup Hlay Hps Hbm Hwf Hx Hrd Lb L0 HsF Hser Hfull Hsp Hinv Hpe Hfl Hnb.
    pose proof Hsh as [_ [_ Hck4]]. specialize (Hck4 Hck).
    destruct (serialize_wire_checked sh ms x sst vals wf Fs body0 Hck Hck4 Hsup Hbm Hwf Hx Hser Hfull Hrd Lb L0 Hsp)
      as [Hl [Hw [Lb' [HH Fr]]]].
    rewrite Hw in Hfl.
    set (h := hash_ext hstep 0 wf) in *. set (H := hash_ext hstep h (le_enc 4 h ++ skipn 4 body0)) in *.
    assert (Hl4 : length (le_enc 4 H) = 4%nat) by reflexivity.
    assert (Hrd' : rd_fs (perm (sh_fields sh)) (s_mem sst) x = Ok (vals, wf, Fs)).
    { apply (proj2 (rd_stable ms (s_mem sst)) _ _ _ Hrd). cbn [snd]. intros r Hr a k Wk. apply Fr.
      eapply within_sep; [exact Wk|apply HsF; exact Hr]. }
    apply (deserialize_rt_checked hstep hstep_range sh (s_mem sst) x mr v vals wf Fs (le_enc 4 H ++ skipn 4 body0)); auto.
    - rewrite Hl. exact Hwf.
    - rewrite firstn_app, <- Hl4, firstn_all, Nat.sub_diag. cbn [firstn]. rewrite app_nil_r.
      rewrite skipn_app, <- Hl4 at 1. rewrite skipn_all, Nat.sub_diag. cbn [skipn app].
      fold h. apply le_dec_enc4. exact HH.
  Qed.
End RTC3.
