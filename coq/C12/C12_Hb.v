(* C12_Hb.v — deser_in_bounds on HOSTILE input, step lemmas.  No sender: the lengths found in the body
   are arbitrary, an extraction may fail.  Invariant HR = Rinv of C12_RtD.v without the flat-string
   clause: claimed ranges (body, every extracted buffer, every recorded iovec piece, every iovec-array
   slot) pairwise separated, separated from every remaining input element, readable.  hpost adds
   PROVENANCE: every newly claimed range lies inside an element of the input vector or inside an
   allocation slot made since (orig), and the remaining elements lie inside the old ones. *)
From Coq Require Import ZArith List Bool Lia.
From PV Require Import Base.U64 C12.C12_Model C12.C12_Mem C12.C12_MemC C12.C12_Iov C12.C12_Flat C12.C12_Deser C12.C12_Sep C12.C12_Wire C12.C12_RtD C12.C12_Hx C12.C12_View.
Import ListNotations.
Local Open Scope Z_scope.

Definition HR (m : mem) (v : iovs) (Own : list (Z * Z)) : Prop :=
  inv m v /\ psep (i_el v) /\ psep Own /\
  (forall e c, In e (i_el v) -> In c Own -> sep e c) /\
  (forall c, In c Own -> validb (lens m) (fst c) (snd c) = true).

Definition hpost (st st' : dst) (Own new W : list (Z * Z)) : Prop :=
  HR (d_mem st') (d_iov st') (Own ++ new) /\ ext (lens (d_mem st)) (lens (d_mem st')) /\
  prov (i_el (d_iov st')) (i_el (d_iov st)) /\
  (forall c, In c new -> orig (i_el (d_iov st)) (len (d_mem st)) (lens (d_mem st')) c) /\
  frameO (d_mem st) (d_mem st') Own W.

Lemma hpost_refl st Own W : HR (d_mem st) (d_iov st) Own -> hpost st st Own [] W.
Proof.
  intros H. unfold hpost. rewrite app_nil_r. split; [exact H|]. split; [apply ext_refl|]. split; [apply prov_refl|].
  split; [intros c []|apply frameO_refl].
Qed.

Lemma hpost_trans st st1 st2 Own new1 new2 W1 W2 :
  hpost st st1 Own new1 W1 -> hpost st1 st2 (Own ++ new1) new2 W2 -> hpost st st2 Own (new1 ++ new2) (W1 ++ W2).
Proof.
  intros [H1 [X1 [P1 [O1 F1]]]] [H2 [X2 [P2 [O2 F2]]]]. unfold hpost.
  split; [rewrite app_assoc; exact H2|]. split; [eapply ext_trans; eauto|]. split; [eapply prov_trans; eauto|].
  split.
  { intros c Hc. apply in_app_or in Hc. destruct Hc as [Hc|Hc].
    - eapply orig_ext; [exact X2|]. apply O1. exact Hc.
    - eapply orig_prov; [exact P1| |apply O2; exact Hc]. pose proof (ext_len _ _ X1) as L. rewrite !len_lens in L. exact L. }
  intros x k [c [Hc Wc]] Hs. rewrite F2.
  - apply F1; [exists c; auto|]. intros r Hr. apply Hs. apply in_or_app. left. exact Hr.
  - exists c. split; [apply in_or_app; left; exact Hc|exact Wc].
  - intros r Hr. apply Hs. apply in_or_app. right. exact Hr.
Qed.

Lemma hpost_weaken st st' Own new W W' : hpost st st' Own new W ->
  (forall r, In r W -> exists r', In r' W' /\ within r r') -> hpost st st' Own new W'.
Proof.
  intros [H1 [X1 [P1 [O1 F1]]]] HW. unfold hpost. split; [exact H1|]. split; [exact X1|]. split; [exact P1|]. split; [exact O1|].
  intros x k Hc Hs. apply F1; [exact Hc|]. intros r Hr. destruct (HW r Hr) as [r' [Hr' Wr]].
  eapply sep_sub_r; [apply Hs; exact Hr'|exact Wr].
Qed.

(* ---- process_field(buffer&) on arbitrary bytes ---- *)
Lemma d_buffer_h st a st' Own c0 :
  HR (d_mem st) (d_iov st) Own -> In c0 Own -> within (a, 16) c0 ->
  d_buffer cfg_final st a = Ok st' -> d_failed st' = false ->
  exists new p n, hpost st st' Own new [(a, 16)] /\
    load64 (d_mem st') a = Ok p /\ load64 (d_mem st') (a + 8) = Ok n /\ 0 <= n < W64 /\
    (n = 0 /\ new = [] \/ new = [(p, n)] /\ p <> 0 /\ n <> 0).
Proof.
  destruct st as [m v fl]. cbn [d_mem d_iov d_failed].
  intros [Hinv [Hpe [HpO [HeO HvO]]]] Hc0 Wa Hrun Hnf.
  pose proof (inv_wf _ _ Hinv) as Hwf. pose proof (inv_bytes _ _ Hinv) as Hbm.
  assert (Hv16 : validb (lens m) a 16 = true).
  { apply (validb_sub' _ (fst c0) (snd c0)); [exact Hwf|apply HvO; exact Hc0| |]; unfold within in Wa; cbn [fst snd] in Wa; lia. }
  assert (Hva : validb (lens m) a 8 = true) by (apply (validb_sub' _ a 16); auto; lia).
  assert (Hvb : validb (lens m) (a + 8) 8 = true) by (apply (validb_sub' _ a 16); auto; lia).
  assert (Wa8 : within (a, 8) c0) by (unfold within in *; cbn [fst snd] in *; lia).
  destruct (load64_ok m (a + 8) Hbm Hvb) as [n [En Rn]].
  revert Hrun. unfold d_buffer. cbn [d_mem d_iov d_failed fix_zero_ptr fix_fail_len cfg_final]. rewrite En. cbn [bind].
  destruct (n =? 0) eqn:E0.
  - apply Z.eqb_eq in E0. subst n.
    destruct (store64_ok m v a 0 Hinv Hva) as [m1 [Hs [Hi1 Hl1]]]. rewrite Hs. cbn [bind].
    intros Hrun. inversion Hrun. subst st'. cbn [d_mem d_iov d_failed] in *.
    assert (Hsep8 : forall x k, sep (x, k) (a, 16) -> sep (x, k) (a, len (le_enc 8 0))).
    { intros x k S. rewrite le_enc_len. eapply sep_sub_r; [exact S|]. unfold within. cbn. lia. }
    exists [], 0, 0. split.
    { unfold hpost. cbn [d_mem d_iov]. rewrite app_nil_r. split.
      { split; [exact Hi1|]. split; [exact Hpe|]. split; [exact HpO|]. split; [exact HeO|]. rewrite Hl1. exact HvO. }
      split; [rewrite Hl1; apply ext_refl|]. split; [apply prov_refl|]. split; [intros c []|].
      intros x k _ Hs2. unfold store64 in Hs. apply (load_store_sep _ _ _ _ _ _ Hs). apply Hsep8. apply Hs2. left. reflexivity. }
    split; [eapply load64_store64_same; eauto; unfold W64; lia|].
    split; [rewrite (load64_store_other _ _ _ _ _ Hs); [exact En|rewrite le_enc_len; right; lia]|].
    split; [unfold W64; lia|]. left. auto.
  - apply Z.eqb_neq in E0.
    destruct (efc_h m v n Hinv ltac:(lia) Hpe) as [p [m1 [v1 [He X]]]]. rewrite He. cbn [bind].
    destruct X as [[-> [-> ->]]|[got [rest X]]].
    + (* the extraction failed: `failed` is set, excluded by the hypothesis *)
      destruct (store64 m a 0) as [m2|]; cbn [bind]; [|discriminate]. rewrite Z.eqb_refl.
      destruct (store64 m2 (a + 8) 0) as [m3|]; cbn [bind]; [|discriminate].
      intros Hrun. inversion Hrun. subst st'. cbn [d_failed] in Hnf. discriminate.
    + pose proof X as [Hi1 [Hx1 [Hc1 [Hn1 [[Pv [Pp Pw]] [Lp [Fl1 [Ps1 [Pr1 [Sp1 [Fr1 _]]]]]]]]]]].
      assert (Hva1 : validb (lens m1) a 8 = true) by (eapply validb_ext; eauto).
      destruct (store64_ok m1 v1 a p Hi1 Hva1) as [m2 [Hs2 [Hi2 Hl2]]]. rewrite Hs2. cbn [bind].
      destruct (p =? 0) eqn:Ep; [apply Z.eqb_eq in Ep; lia|]. apply Z.eqb_neq in Ep.
      intros Hrun. inversion Hrun. subst st'. cbn [d_mem d_iov d_failed] in *.
      assert (HsepO : forall c, In c Own -> sep (p, n) c /\ (forall e, In e (i_el v1) -> sep e c)).
      { intros c Hc. apply (xpost_sep _ _ _ _ _ _ _ _ c X Hwf (HvO c Hc)). intros e He'. apply HeO; auto. }
      assert (Hsep8 : forall r, sep r c0 -> sep r (a, len (le_enc 8 p))).
      { intros r S. rewrite le_enc_len. eapply sep_sub_r; [exact S|exact Wa8]. }
      exists [(p, n)], p, n. split.
      { unfold hpost. cbn [d_mem d_iov]. split.
        { split; [exact Hi2|]. split; [exact Ps1|]. split.
          { apply psep_app. split; [exact HpO|]. split; [split; [intros y []|exact I]|].
            intros x y Hx [<-|[]]. apply sep_sym. apply (proj1 (HsepO x Hx)). }
          split.
          { intros e c He' Hc. apply in_app_or in Hc. destruct Hc as [Hc|[<-|[]]]; [apply (proj2 (HsepO c Hc)); exact He'|apply Sp1; exact He']. }
          intros c Hc. rewrite Hl2. apply in_app_or in Hc. destruct Hc as [Hc|[<-|[]]]; [eapply validb_ext; eauto|exact Pv]. }
        split; [rewrite Hl2; exact Hx1|]. split; [exact Pr1|].
        split; [intros c [<-|[]]; rewrite Hl2; apply (xpost_orig _ _ _ _ _ _ _ _ X); lia|].
        intros x k [c [Hc Wc]] Hsx. unfold store64 in Hs2. rewrite (load_store_sep _ _ _ _ _ _ Hs2).
        + apply Fr1. apply (validb_sub' _ (fst c) (snd c)); [exact Hwf|apply HvO; exact Hc| |]; unfold within in Wc; cbn [fst snd] in Wc; lia.
        + rewrite le_enc_len. eapply sep_sub_r; [apply Hsx; left; reflexivity|]. unfold within. cbn. lia. }
      split; [eapply load64_store64_same; eauto; lia|].
      split.
      { rewrite (load64_store_other _ _ _ _ _ Hs2); [|rewrite le_enc_len; right; lia].
        unfold load64. rewrite (Fr1 _ _ Hvb). exact En. }
      split; [exact Rn|]. right. auto.
Qed.

(* ---- three consecutive words ---- *)
Lemma store3 m v a x y z : inv m v -> validb (lens m) a 24 = true -> 0 <= x < W64 -> 0 <= y < W64 -> 0 <= z < W64 ->
  exists m2 m3 m4, store64 m a x = Ok m2 /\ store64 m2 (a + 8) y = Ok m3 /\ store64 m3 (a + 16) z = Ok m4 /\
    inv m4 v /\ lens m4 = lens m /\ load64 m4 a = Ok x /\ load64 m4 (a + 8) = Ok y /\ load64 m4 (a + 16) = Ok z /\
    (forall r k, sep (r, k) (a, 24) -> load m4 r k = load m r k).
Proof.
  intros Hinv Hv Hx Hy Hz. pose proof (inv_wf _ _ Hinv) as Hwf.
  assert (Hv0 : validb (lens m) a 8 = true) by (apply (validb_sub' _ a 24); auto; lia).
  assert (Hv1 : validb (lens m) (a + 8) 8 = true) by (apply (validb_sub' _ a 24); auto; lia).
  assert (Hv2 : validb (lens m) (a + 16) 8 = true) by (apply (validb_sub' _ a 24); auto; lia).
  destruct (store64_ok m v a x Hinv Hv0) as [m2 [H2 [Hi2 Hl2]]].
  destruct (store64_ok m2 v (a + 8) y Hi2 ltac:(rewrite Hl2; exact Hv1)) as [m3 [H3 [Hi3 Hl3]]].
  destruct (store64_ok m3 v (a + 16) z Hi3 ltac:(rewrite Hl3, Hl2; exact Hv2)) as [m4 [H4 [Hi4 Hl4]]].
  exists m2, m3, m4. split; [exact H2|]. split; [exact H3|]. split; [exact H4|]. split; [exact Hi4|]. split; [congruence|].
  split.
  { rewrite (load64_store_other _ _ _ _ _ H4) by (rewrite le_enc_len; left; lia).
    rewrite (load64_store_other _ _ _ _ _ H3) by (rewrite le_enc_len; left; lia).
    eapply load64_store64_same; eauto. }
  split.
  { rewrite (load64_store_other _ _ _ _ _ H4) by (rewrite le_enc_len; left; lia).
    eapply load64_store64_same; eauto. }
  split; [eapply load64_store64_same; eauto|].
  intros r k S. unfold store64 in *.
  assert (S8 : forall o, 0 <= o <= 16 -> sep (r, k) (a + o, len (le_enc 8 0))).
  { intros o Ho. rewrite le_enc_len. unfold sep in *. cbn [fst snd] in *. change (Z.of_nat 8) with 8. lia. }
  rewrite (load_store_sep _ _ _ _ _ _ H4) by (rewrite le_enc_len; rewrite le_enc_len in S8; apply (S8 16); lia).
  rewrite (load_store_sep _ _ _ _ _ _ H3) by (rewrite le_enc_len; rewrite le_enc_len in S8; apply (S8 8); lia).
  apply (load_store_sep _ _ _ _ _ _ H2). rewrite le_enc_len. rewrite le_enc_len in S8. specialize (S8 0 ltac:(lia)). rewrite Z.add_0_r in S8. exact S8.
Qed.

(* ---- process_field(iovec_array&) on arbitrary bytes ---- *)
Lemma flat_frame m m' R el : (forall r k, sep (r, k) R -> load m' r k = load m r k) -> (forall e, In e el -> sep e R) -> flat m' el = flat m el.
Proof.
  intros Fr. induction el as [|[b l] r IH]; intros Hs; [reflexivity|]. cbn [flat].
  rewrite (Fr b l) by (apply (Hs (b, l)); left; reflexivity). rewrite IH; [reflexivity|]. intros e He. apply Hs. right. exact He.
Qed.

(* the successful outcome, relative to the byte string w0 the remaining input denotes *)
Definition iov_ok (st : dst) (a : Z) (st' : dst) (Own : list (Z * Z)) (w0 : list byte) : Prop :=
  d_failed st' = d_failed st /\ i_cap (d_iov st') = i_cap (d_iov st) /\ i_nb (d_iov st') <= i_nb (d_iov st) + 1 /\
  exists new S, hpost st st' Own new [(a, 24)] /\ 0 <= S <= len w0 /\
    (i_nb (d_iov st) < i_cap (d_iov st) -> load64 (d_mem st) (a + 16) = Ok S) /\
    flat (d_mem st') (i_el (d_iov st')) = Ok (skipn (Z.to_nat S) w0) /\
    exists F, rd_f FIov (d_mem st') a = Ok (VIov S (firstn (Z.to_nat S) w0), firstn (Z.to_nat S) w0, F) /\ fpok F [(a, 24)] new.

Lemma d_iovarr_cases st a st' Own c0 w0 :
  HR (d_mem st) (d_iov st) Own -> In c0 Own -> within (a, 24) c0 ->
  flat (d_mem st) (i_el (d_iov st)) = Ok w0 ->
  d_iovarr st a = Ok st' ->
  (d_failed st' = true /\ exists S, load64 (d_mem st) (a + 16) = Ok S /\ (len w0 < S \/ i_cap (d_iov st) <= i_nb (d_iov st))) \/
  iov_ok st a st' Own w0.
Proof.
  destruct st as [m v fl]. unfold iov_ok. cbn [d_mem d_iov d_failed].
  intros HR0 Hc0 Wa Hf Hrun. pose proof HR0 as [Hinv [Hpe [HpO [HeO HvO]]]].
  pose proof (inv_wf _ _ Hinv) as Hwf. pose proof (inv_bytes _ _ Hinv) as Hbm.
  pose proof Hinv as [_ [_ [Hel [Hsum [Hnb [Hroom Hcnt]]]]]].
  pose proof (flat_len _ _ _ Hel Hf) as Hlw. pose proof (len_nonneg w0) as Hw0.
  assert (Hv24 : validb (lens m) a 24 = true).
  { apply (validb_sub' _ (fst c0) (snd c0)); [exact Hwf|apply HvO; exact Hc0| |]; unfold within in Wa; cbn [fst snd] in Wa; lia. }
  assert (Hv2 : validb (lens m) (a + 16) 8 = true) by (apply (validb_sub' _ a 24); auto; lia).
  destruct (load64_ok m (a + 16) Hbm Hv2) as [summed [Es Rs]].
  (* the case where the slot ends up empty: (0, 0, 0), nothing claimed, nothing consumed *)
  assert (Hempty : forall m4, inv m4 v -> lens m4 = lens m -> load64 m4 a = Ok 0 -> load64 m4 (a + 8) = Ok 0 -> load64 m4 (a + 16) = Ok 0 ->
            (forall r k, sep (r, k) (a, 24) -> load m4 r k = load m r k) ->
            (i_nb v < i_cap v -> summed = 0) ->
            exists new S, hpost (mkD m v fl) (mkD m4 v fl) Own new [(a, 24)] /\ 0 <= S <= len w0 /\
              (i_nb v < i_cap v -> load64 m (a + 16) = Ok S) /\
              flat m4 (i_el v) = Ok (skipn (Z.to_nat S) w0) /\
              exists F, rd_f FIov m4 a = Ok (VIov S (firstn (Z.to_nat S) w0), firstn (Z.to_nat S) w0, F) /\ fpok F [(a, 24)] new).
  { intros m4 Hi4 Hl4 L0 L1 L2 Fr Hsz. exists [], 0. split.
    { unfold hpost. cbn [d_mem d_iov]. rewrite app_nil_r. split.
      { split; [exact Hi4|]. split; [exact Hpe|]. split; [exact HpO|]. split; [exact HeO|]. rewrite Hl4. exact HvO. }
      split; [rewrite Hl4; apply ext_refl|]. split; [apply prov_refl|]. split; [intros c []|].
      intros x k _ Hs. apply Fr. apply Hs. left. reflexivity. }
    split; [lia|]. split; [intros Hc; rewrite Es, (Hsz Hc); reflexivity|].
    split.
    { cbn [Z.to_nat skipn]. rewrite (flat_frame m m4 (a, 24) (i_el v) Fr); [exact Hf|].
      intros e He. eapply sep_sub_r; [apply (HeO e c0 He Hc0)|exact Wa]. }
    exists [(a, 24); (0, 0)]. split.
    { cbn [rd_f Z.to_nat firstn]. rewrite L0. cbn [bind]. rewrite L1. cbn [bind]. rewrite L2. cbn [bind]. reflexivity. }
    intros r [<-|[<-|[]]]; [|left; cbn; lia]. right. left. exists (a, 24). split; [left; reflexivity|apply within_refl]. }
  assert (H0 : 0 <= 0 < W64) by (unfold W64; lia).
  unfold d_iovarr in Hrun. cbn [d_mem d_iov d_failed] in Hrun. rewrite Es in Hrun. cbn [bind] in Hrun. revert Hrun.
  destruct (Z.eq_dec summed 0) as [->|Hs0].
  { unfold extract_front_view. rewrite Z.eqb_refl. cbn [bind]. rewrite wrap_small by (unfold W64; lia). rewrite Z.eqb_refl.
    change (0 * 16) with 0. rewrite (load_nonpos m 0 0) by lia. cbn [bind].
    destruct (store3 m v a 0 0 0 Hinv Hv24 H0 H0 H0) as [m2 [m3 [m4 [S2 [S3 [S4 [Hi4 [Hl4 [L0 [L1 [L2 Fr]]]]]]]]]]].
    rewrite S2. cbn [bind]. rewrite S3. cbn [bind]. rewrite S4. cbn [bind].
    intros Hrun. inversion Hrun. subst st'. cbn [d_mem d_iov d_failed]. right.
    split; [reflexivity|]. split; [reflexivity|]. split; [lia|]. apply Hempty; auto. }
  destruct (efv_spec m v summed w0 Hinv ltac:(lia) Hpe Hf) as [ret [ptr [cnt [m1 [v1 [He [Hi1 [Hx1 Hcase]]]]]]]].
  rewrite He. cbn [bind].
  destruct Hcase as [[-> [-> [-> [-> [-> Hcapf]]]]]|[Hret [Hptr Hvp]]].
  { (* allocation failure *)
    destruct (wrap (-1) =? summed).
    2:{ intros Hrun; inversion Hrun; subst st'; cbn [d_failed]. left. split; [reflexivity|]. exists summed. auto. }
    change (0 * 16) with 0. rewrite (load_nonpos m 0 0) by lia. cbn [bind]. rewrite Z.eqb_refl.
    destruct (store3 m v a 0 0 0 Hinv Hv24 H0 H0 H0) as [m2 [m3 [m4 [S2 [S3 [S4 [Hi4 [Hl4 [L0 [L1 [L2 Fr]]]]]]]]]]].
    rewrite S2. cbn [bind]. rewrite S3. cbn [bind]. rewrite S4. cbn [bind].
    intros Hrun. inversion Hrun. subst st'. cbn [d_mem d_iov d_failed]. right.
    split; [reflexivity|]. split; [reflexivity|]. split; [lia|]. apply Hempty; auto. intros Hc. lia. }
  assert (Hret2 : 0 <= ret <= INT_MAX) by lia.
  rewrite wrap_small by (unfold INT_MAX, W64 in *; lia).
  destruct (ret =? summed) eqn:Er.
  2:{ apply Z.eqb_neq in Er. intros Hrun; inversion Hrun; subst st'; cbn [d_failed]. left. split; [reflexivity|]. exists summed. split; [exact Es|]. left. lia. }
  apply Z.eqb_eq in Er.
  destruct (Hvp ltac:(lia)) as [out [Hcnt' [Hcpos [Hl1 [_ [Hcap1 [Hnb1 [Fr1 [Helo [Hpo [Hpv [Ps1 [Pr1 [Hso [Hrd [Hfl1 [Hlo Hcapnb]]]]]]]]]]]]]]]]].
  pose proof (inv_wf _ _ Hi1) as Hwf1.
  assert (Hvs : validb (lens m1) ptr (cnt * 16) = true).
  { rewrite Hl1, Hptr, <- (len_lens m). apply (validb_sub' _ (region_base (len (lens m))) (16 * len (i_el v))).
    - rewrite <- Hl1. exact Hwf1.
    - apply validb_fresh. pose proof (len_nonneg (i_el v)). lia.
    - lia.
    - lia. }
  destruct (load_valid _ _ _ Hvs) as [pcs Hpcs]. rewrite Hpcs. cbn [bind].
  pose proof (len_nonneg m) as Hlm.
  destruct (region_base_bound (len m) ltac:(lia)) as [B1 B2].
  assert (Hv24' : validb (lens m1) a 24 = true) by (eapply validb_ext; eauto).
  destruct (store3 m1 v1 a ptr (cnt * 16) (if cnt =? 0 then 0 else summed) Hi1 Hv24') as [m2 [m3 [m4 [S2 [S3 [S4 [Hi4 [Hl4 [L0 [L1 [L2 Fr4]]]]]]]]]]].
  { unfold STRIDE, W64 in *. lia. }
  { unfold W64. lia. }
  { destruct (cnt =? 0); [unfold W64; lia|exact Rs]. }
  rewrite S2. cbn [bind]. rewrite S3. cbn [bind]. rewrite S4. cbn [bind].
  intros Hrun. inversion Hrun. subst st'. cbn [d_mem d_iov d_failed] in *. right.
  split; [reflexivity|]. split; [exact Hcap1|]. split; [lia|].
  destruct (cnt =? 0) eqn:Ec0; [apply Z.eqb_eq in Ec0; lia|].
  set (slot := (ptr, cnt * 16)).
  (* separation facts *)
  assert (Hfresh : forall x k, validb (lens m) x k = true -> sep (x, k) slot).
  { intros x k Hv. unfold slot. rewrite Hptr, <- (len_lens m). apply fresh_sep; auto. }
  assert (HvEl : forall e, In e (i_el v) -> validb (lens m) (fst e) (snd e) = true).
  { intros e He'. rewrite Forall_forall in Hel. destruct (Hel e He') as [_ [Hv _]]. exact Hv. }
  assert (HvOut : forall o, In o out -> validb (lens m) (fst o) (snd o) = true).
  { intros o Ho. rewrite Forall_forall in Helo. destruct (Helo o Ho) as [_ [Hv _]]. exact Hv. }
  assert (Hsl_out : forall o, In o out -> sep slot o).
  { intros o Ho. apply sep_sym. destruct o as [ob on]. apply Hfresh. apply (HvOut (ob, on) Ho). }
  assert (Hout_own : forall o c, In o out -> In c Own -> sep o c).
  { intros o c Ho Hc. destruct (Hpv o Ho) as [e [He' We]]. eapply within_sep; [exact We|]. apply HeO; auto. }
  assert (Hel1_own : forall e c, In e (i_el v1) -> In c Own -> sep e c).
  { intros e c He' Hc. destruct (Pr1 e He') as [e0 [H0' We]]. eapply within_sep; [exact We|]. apply HeO; auto. }
  assert (Hel1_slot : forall e, In e (i_el v1) -> sep e slot).
  { intros e He'. destruct (Pr1 e He') as [e0 [H0' We]]. eapply within_sep; [exact We|]. destruct e0 as [eb en]. apply Hfresh. apply (HvEl (eb, en) H0'). }
  assert (Hslot_own : forall c, In c Own -> sep c slot).
  { intros c Hc. destruct c as [cb cn]. apply Hfresh. apply (HvO (cb, cn) Hc). }
  exists (slot :: out), summed. split.
  { unfold hpost. cbn [d_mem d_iov]. split.
    { split; [exact Hi4|]. split; [exact Ps1|]. split.
      { apply psep_app. split; [exact HpO|]. split.
        - split; [intros y Hy; apply Hsl_out; exact Hy|exact Hpo].
        - intros x y Hx [<-|Hy]; [apply Hslot_own; exact Hx|apply sep_sym; apply Hout_own; auto]. }
      split.
      { intros e c He' Hc. apply in_app_or in Hc. destruct Hc as [Hc|[<-|Hc]].
        - apply Hel1_own; auto.
        - apply Hel1_slot; auto.
        - apply sep_sym. apply Hso; auto. }
      intros c Hc. rewrite Hl4. apply in_app_or in Hc. destruct Hc as [Hc|[<-|Hc]].
      - eapply validb_ext; [exact Hx1|]. apply HvO. exact Hc.
      - exact Hvs.
      - eapply validb_ext; [exact Hx1|]. apply HvOut. exact Hc. }
    split; [rewrite Hl4; exact Hx1|]. split; [exact Pr1|].
    split.
    { intros c [<-|Hc].
      - right. exists (len m), (16 * len (i_el v)). split; [lia|]. split.
        + rewrite Hl4, Hl1, <- (len_lens m). apply nth_z_app_last.
        + unfold slot, within. cbn [fst snd]. rewrite Hptr. lia.
      - left. apply Hpv. exact Hc. }
    intros x k [c [Hc Wc]] Hsx. rewrite Fr4 by (apply Hsx; left; reflexivity).
    apply Fr1. apply (validb_sub' _ (fst c) (snd c)); [exact Hwf|apply HvO; exact Hc| |]; unfold within in Wc; cbn [fst snd] in Wc; lia. }
  split; [lia|]. split; [intros _; exact Es|].
  split.
  { rewrite (flat_frame m1 m4 (a, 24) (i_el v1) Fr4); [exact Hfl1|].
    intros e He'. eapply sep_sub_r; [apply (Hel1_own e c0 He' Hc0)|exact Wa]. }
  (* reading the iovec array back *)
  assert (Hc24 : sep slot (a, 24)).
  { apply sep_sym. eapply within_sep; [exact Wa|]. apply Hslot_own. exact Hc0. }
  assert (Hrd4 : rd_iovecs m4 ptr (length out) = Ok (firstn (Z.to_nat summed) w0, out)).
  { apply (rd_iovecs_stable m1 m4 (length out) ptr slot _ Hrd).
    - intros x k Wx. apply Fr4. eapply within_sep; [exact Wx|exact Hc24].
    - unfold slot, within. cbn [fst snd]. rewrite Hcnt'. unfold len. lia.
    - cbn [snd]. intros r Hr x k Wx. apply Fr4. eapply within_sep; [exact Wx|].
      apply sep_sym. eapply within_sep; [exact Wa|]. apply sep_sym. apply Hout_own; auto. }
  exists ((a, 24) :: slot :: out). split.
  { cbn [rd_f]. rewrite L0. cbn [bind]. rewrite L1. cbn [bind]. rewrite L2. cbn [bind].
    replace (Z.to_nat (cnt * 16 / 16)) with (length out) by (rewrite Z.div_mul by lia; rewrite Hcnt'; unfold len; lia).
    rewrite Hrd4. reflexivity. }
  intros r [<-|Hr].
  - right. left. exists (a, 24). split; [left; reflexivity|apply within_refl].
  - right. right. exists r. split; [exact Hr|apply within_refl].
Qed.

Lemma d_iovarr_h st a st' Own c0 :
  HR (d_mem st) (d_iov st) Own -> In c0 Own -> within (a, 24) c0 ->
  d_iovarr st a = Ok st' -> d_failed st' = false ->
  exists new, hpost st st' Own new [(a, 24)] /\
    exists val w F, rd_f FIov (d_mem st') a = Ok (val, w, F) /\ fpok F [(a, 24)] new.
Proof.
  intros HR0 Hc0 Wa Hrun Hnf. pose proof HR0 as [[_ [_ [Hel _]]] _].
  destruct (flat_total _ _ Hel) as [w0 Hf].
  destruct (d_iovarr_cases st a st' Own c0 w0 HR0 Hc0 Wa Hf Hrun) as [[Hft _]|[_ [_ [_ [new [S [HP [_ [_ [_ [F [Hrd Hfp]]]]]]]]]]]]; [congruence|].
  exists new. split; [exact HP|]. eauto.
Qed.
