(* Extraction of the C12 model: ExtrOcamlBasic only; Z, positive, nat stay Coq's datatypes. *)
From Coq Require Import ZArith List.
From PV Require Import Base.U64 C12.C12_Model.
Require Extraction.
Require Import ExtrOcamlBasic.
Extraction "c12_model.ml" serialize deserialize w_fields map_find map_deref crc32c_step region_base load load64 sv_of len zeros.
