(* C12_Crc.v — the hash step of the checked round trip instantiated with the REAL CRC32C step
   (C12_Model.crc32c_step, common/checksum/crc.cpp 83-117): its 32-bit range bound, the checked
   round-trip theorem specialised to it, and a concrete checked message (CheckedMessage{int; string;
   buffer}, harness type T10) whose hypotheses are discharged by computation. *)
From Coq Require Import ZArith List Bool Lia.
From PV Require Import Base.U64 C12.C12_Model C12.C12_Mem C12.C12_MemC C12.C12_Iov C12.C12_Flat C12.C12_Deser C12.C12_Sep C12.C12_Wire C12.C12_RtD C12.C12_RtS C12.C12_Rt C12.C12_RtC C12.C12_RtC2 C12.C12_RtC3.
Import ListNotations.
Local Open Scope Z_scope.

Lemma lxor_bound a b n : 0 <= n -> 0 <= a < 2 ^ n -> 0 <= b < 2 ^ n -> 0 <= Z.lxor a b < 2 ^ n.
Proof.
  intros Hn Ha Hb. assert (H0 : 0 <= Z.lxor a b) by (apply Z.lxor_nonneg; split; intros; lia). split; [exact H0|].
  destruct (Z.eq_dec (Z.lxor a b) 0) as [Hz|Hz]; [rewrite Hz; apply Z.pow_pos_nonneg; lia|].
  destruct (Z.eq_dec n 0) as [->|Hn0].
  { change (2 ^ 0) with 1 in *. assert (a = 0) by lia. assert (b = 0) by lia. subst. cbn in Hz. congruence. }
  apply Z.log2_lt_pow2; [lia|]. pose proof (Z.log2_lxor a b ltac:(lia) ltac:(lia)) as H.
  assert (La : Z.log2 a < n).
  { destruct (Z.eq_dec a 0) as [->|Ha0]; [cbn; lia|]. apply Z.log2_lt_pow2; lia. }
  assert (Lb : Z.log2 b < n).
  { destruct (Z.eq_dec b 0) as [->|Hb0]; [cbn; lia|]. apply Z.log2_lt_pow2; lia. }
  lia.
Qed.

Lemma crc_bit_range c : 0 <= c < 2 ^ 32 -> 0 <= crc_bit c < 2 ^ 32.
Proof.
  intros Hc. unfold crc_bit. apply lxor_bound; [lia| |].
  - rewrite Z.shiftr_div_pow2 by lia. change (2 ^ 1) with 2. split; [apply Z.div_pos; lia|]. apply Z.div_lt_upper_bound; lia.
  - destruct (Z.odd c); unfold CRC32C_POLY; lia.
Qed.

(* the raw CRC32C step maps a 32-bit register and a byte to a 32-bit register *)
Theorem crc32c_step_range h b : 0 <= h < W32 -> 0 <= b < 256 -> 0 <= crc32c_step h b < W32.
Proof.
  change W32 with (2 ^ 32). intros Hh Hb. unfold crc32c_step.
  do 8 apply crc_bit_range. apply lxor_bound; lia.
Qed.

(* the checked round trip with the real CRC32C as hash *)
Theorem ser_roundtrip_noiov_checked_crc32c sh ms x sst vals wf Fs body0 mr v :
  shape_wf sh -> sh_checked sh = true ->
  sup_fs (sh_fields sh) -> lay_fs (sh_fields sh) -> (forall b, psep (aranges_fs (sh_fields sh) b)) ->
  mem_bytes ms -> Forall (fun L => L <= STRIDE) (lens ms) -> 0 <= x ->
  rd_fs (perm (sh_fields sh)) ms x = Ok (vals, wf, Fs) -> load ms x (sh_size sh) = Ok body0 ->
  load ms x 4 = Ok (le_enc 4 0) ->
  (forall r, In r Fs -> sep r (x, 4)) ->
  serialize crc32c_step cfg_final sh ms x = Ok sst -> s_full sst = false ->
  (forall e, In e (removelast (i_el (s_iov sst))) -> sep e (x, 4)) ->
  inv mr v -> psep (i_el v) -> flat mr (i_el v) = flat (s_mem sst) (i_el (s_iov sst)) ->
  i_nb v + 1 + len Fs <= i_cap v ->
  exists t st w2 F, deserialize crc32c_step cfg_final sh mr v = Ok (t, st) /\ t <> 0 /\
    ptr_ok (lens (d_mem st)) t (sh_size sh) /\
    rd_fs (perm (sh_fields sh)) (d_mem st) t = Ok (vals, w2, F) /\
    flat (d_mem st) (i_el (d_iov st)) = Ok [].
Proof. exact (ser_roundtrip_noiov_checked crc32c_step crc32c_step_range sh ms x sst vals wf Fs body0 mr v). Qed.

(* ---- a concrete instance: CheckedMessage { uint32 a = 0x04030201; string s = "hi\0"; buffer b = {7,9} },
   45 wire bytes (string, buffer, 40-byte body with the CRC32C in its first word) cut 7 + 38 ---- *)
Definition ex_c_sh : shape := mkShape 40 true (FCons 4 (FFixed 4) (FCons 8 FStr (FCons 24 FBuf FNil))).
Definition ex_c_body : list byte :=
  [0; 0; 0; 0] ++ [1; 2; 3; 4] ++ [0; 0; 0; 0; 1; 48; 0; 0] ++ [3; 0; 0; 0; 0; 0; 0; 0] ++
  [0; 0; 0; 0; 2; 48; 0; 0] ++ [2; 0; 0; 0; 0; 0; 0; 0].
Definition ex_c_ms : mem := [ex_c_body; [104; 105; 0]; [7; 9]].
Definition ex_c_wire : list byte :=
  match serialize crc32c_step cfg_final ex_c_sh ex_c_ms (region_base 0) with
  | Ok sst => match flat (s_mem sst) (i_el (s_iov sst)) with Ok w => w | Err _ => [] end
  | Err _ => []
  end.
Definition ex_c_mr : mem := [firstn 7 ex_c_wire; skipn 7 ex_c_wire].
Definition ex_c_v : iovs := mkIov 4 [(region_base 0, 7); (region_base 1, 38)] 0 32.

Example ser_roundtrip_checked_crc32c_inhabited :
  exists t st w2 F,
    deserialize crc32c_step cfg_final ex_c_sh ex_c_mr ex_c_v = Ok (t, st) /\ t <> 0 /\
    ptr_ok (lens (d_mem st)) t 40 /\
    rd_fs (perm (sh_fields ex_c_sh)) (d_mem st) t = Ok ([VFix [1; 2; 3; 4]; VBuf [104; 105; 0]; VBuf [7; 9]], w2, F) /\
    flat (d_mem st) (i_el (d_iov st)) = Ok [].
Proof.
  destruct (serialize crc32c_step cfg_final ex_c_sh ex_c_ms (region_base 0)) as [sst|] eqn:Hser; [|vm_compute in Hser; discriminate].
  eapply (ser_roundtrip_noiov_checked_crc32c ex_c_sh ex_c_ms (region_base 0) sst _ _ _ ex_c_body ex_c_mr ex_c_v).
  - unfold shape_wf. cbn. repeat split; lia.
  - reflexivity.
  - cbn. tauto.
  - cbn. tauto.
  - intros b. cbn. repeat split; try tauto; intros y Hy; cbn in Hy;
      repeat (destruct Hy as [<-|Hy]; [unfold sep; cbn [fst snd]; lia|]); destruct Hy.
  - unfold mem_bytes, ex_c_ms. repeat (apply Forall_cons; [apply bytes_okb'_ok; vm_compute; reflexivity|]). apply Forall_nil.
  - change (lens ex_c_ms) with [40; 3; 2]. repeat constructor; unfold STRIDE; lia.
  - vm_compute. congruence.
  - vm_compute. reflexivity.
  - vm_compute. reflexivity.
  - vm_compute. reflexivity.
  - intros r Hr. cbn in Hr. repeat (destruct Hr as [<-|Hr]; [unfold sep, region_base, ARENA, STRIDE; cbn [fst snd]; lia|]). destruct Hr.
  - exact Hser.
  - vm_compute in Hser. inversion Hser. reflexivity.
  - vm_compute in Hser. inversion Hser. subst sst. intros e He. cbn in He.
    repeat (destruct He as [<-|He]; [unfold sep, region_base, ARENA, STRIDE; cbn [fst snd]; lia|]). destruct He.
  - unfold inv. split.
    { unfold mem_bytes, ex_c_mr. repeat (apply Forall_cons; [apply bytes_okb'_ok; vm_compute; reflexivity|]). apply Forall_nil. }
    split; [change (lens ex_c_mr) with [7; 38]; repeat constructor; unfold STRIDE; lia|].
    split.
    { change (lens ex_c_mr) with [7; 38]. unfold ex_c_v. cbn [i_el].
      repeat (apply Forall_cons; [unfold el_ok; cbn [fst snd]; split; [lia|]; split; [vm_compute; reflexivity|]; split; vm_compute; congruence|]).
      apply Forall_nil. }
    split; [vm_compute; congruence|]. split; [vm_compute; congruence|]. split; vm_compute; congruence.
  - cbn. repeat split; try tauto; intros y Hy; cbn in Hy;
      repeat (destruct Hy as [<-|Hy]; [unfold sep, region_base, ARENA, STRIDE; cbn [fst snd]; lia|]); destruct Hy.
  - vm_compute in Hser. inversion Hser. subst sst. vm_compute. reflexivity.
  - vm_compute. congruence.
Qed.
