From Coq Require Import ZArith List.
From PV Require Import Base.U64 C12.C12_Model.
Lemma placeholder : True. Proof. exact I. Qed.
