(* C12_Proofs.v — lemmas and proofs for the C12 properties. *)
From Coq Require Import ZArith List Bool Lia.
From PV Require Import Base.U64 C12.C12_Model C12.C12_Mem C12.C12_MemC C12.C12_Iov.
Import ListNotations.
Local Open Scope Z_scope.

Definition cfg_shipped : cfg := mkCfg false false false false false.
Definition mem_wf (m : mem) : Prop := Forall (fun L => L <= STRIDE) (lens m).

(* ------------------------------------------------------------------------------
   slice::anchor and string::sv (repaired code)
   ------------------------------------------------------------------------------ *)
Lemma signed64_nonneg x : 0 <= x < W64 -> (signed64 x <? 0) = false -> signed64 x = x /\ x < 9223372036854775808.
Proof.
  unfold signed64, W64. intros Hx. destruct (x <? 9223372036854775808) eqn:E.
  - apply Z.ltb_lt in E. intros _. lia.
  - apply Z.ltb_ge in E. intros H. apply Z.ltb_ge in H. lia.
Qed.

(* the string returned by the repaired anchor is empty or a sub-range of the base buffer *)
Lemma anchor_in_bounds off length bp bn p n :
  0 <= off < W64 -> 0 <= length < W64 -> 0 <= bp -> 0 <= bn -> bp + bn < W64 ->
  anchor cfg_final off length bp bn = (p, n) ->
  (p = 0 /\ n = 0) \/ (n = length /\ p = bp + off /\ bp <= p /\ p + n <= bp + bn).
Proof.
  intros Ho Hl Hbp Hbn Hsum. unfold anchor. cbn [fix_anchor cfg_final].
  destruct (signed64 off <? 0) eqn:E1; cbn [orb]; [intros H; inversion H; auto|].
  destruct (bn <? length) eqn:E2; cbn [orb]; [intros H; inversion H; auto|].
  destruct (bn - length <? off) eqn:E3; [intros H; inversion H; auto|].
  apply Z.ltb_ge in E2, E3. intros H. inversion H. subst. right.
  assert (Hw : wrap (bp + off) = bp + off) by (apply wrap_small; lia).
  rewrite Hw. lia.
Qed.

Lemma anchor_shipped_out_of_bounds :
  exists off length bp bn p n, anchor cfg_shipped off length bp bn = (p, n) /\ 0 < n /\ bp + bn < p.
Proof. exists 4098, 34, (region_base 0 + 35), 36. eexists. eexists. split; [vm_compute; reflexivity|]. split; vm_compute; reflexivity. Qed.

(* string::sv(): a prefix of the string, empty for an empty string *)
Lemma sv_in_bounds p n p' n' : 0 <= n < W64 -> sv_of cfg_final p n = (p', n') -> p' = p /\ 0 <= n' <= n.
Proof.
  intros Hn. unfold sv_of. cbn [fix_sv cfg_final]. destruct (n =? 0) eqn:E; cbn [andb].
  - apply Z.eqb_eq in E. intros H. inversion H. lia.
  - apply Z.eqb_neq in E. intros H. inversion H. subst. rewrite wrap_small by lia. lia.
Qed.

Lemma sv_shipped_empty_string p : sv_of cfg_shipped p 0 = (p, MAX64).
Proof. reflexivity. Qed.

(* ------------------------------------------------------------------------------
   sorted_map::find never reads outside the index array and the base buffer
   ------------------------------------------------------------------------------ *)

(* one comparison of lower_bound: the index entry at e and the base buffer are readable => no trap *)
Lemma entry_lt_key_ok m e bp bn k :
  mem_bytes m -> mem_wf m ->
  validb (lens m) e 16 = true -> validb (lens m) bp bn = true ->
  0 <= bp -> 0 <= bn -> bp + bn < W64 ->
  exists b, entry_lt_key cfg_final m e bp bn k = Ok b.
Proof.
  intros Hb Hwf He Hbase Hbp Hbn Hsum. unfold entry_lt_key.
  destruct (load64_ok m e Hb) as [koff [E1 R1]]; [apply (validb_sub' _ e 16); auto; lia|].
  destruct (load64_ok m (e + 8) Hb) as [klen [E2 R2]]; [apply (validb_sub' _ e 16); auto; lia|].
  rewrite E1, E2. cbn [bind].
  destruct (anchor cfg_final koff klen bp bn) as [p n] eqn:EA.
  destruct (sv_of cfg_final p n) as [sp sn] eqn:ES.
  destruct (sv_of cfg_final 1 (len k)) as [k1 kn] eqn:EK.
  destruct (anchor_in_bounds _ _ _ _ _ _ R1 R2 Hbp Hbn Hsum EA) as [[-> ->]|[-> [-> [Hlo Hhi]]]].
  - (* empty string: nothing is read *)
    cbn in ES. inversion ES. subst.
    assert (Z.min 0 kn <= 0) by lia.
    assert (HL : load m 0 (Z.min 0 kn) = Ok []) by (unfold load; destruct (Z.min 0 kn <=? 0) eqn:E; [reflexivity|apply Z.leb_gt in E; lia]).
    rewrite HL. cbn [bind]. eauto.
  - destruct (sv_in_bounds _ _ _ _ R2 ES) as [-> Hsn].
    assert (Hv : validb (lens m) (bp + koff) (Z.min sn kn) = true).
    { apply (validb_sub' _ bp bn); auto; lia. }
    destruct (load_valid _ _ _ Hv) as [da Hda]. rewrite Hda. cbn [bind]. eauto.
Qed.

(* lower_bound only probes positions inside [0, cnt) *)
Lemma lower_bound_ok fuel : forall m ip bp bn k first length cnt,
  mem_bytes m -> mem_wf m ->
  validb (lens m) ip (32 * cnt) = true -> validb (lens m) bp bn = true ->
  0 <= bp -> 0 <= bn -> bp + bn < W64 ->
  0 <= first -> first + length <= cnt ->
  exists r, lower_bound cfg_final fuel m ip bp bn k first length = Ok r /\ first <= r <= first + Z.max 0 length.
Proof.
  induction fuel as [|fuel IH]; intros m ip bp bn k first length cnt Hb Hwf Hidx Hbase Hbp Hbn Hsum Hf Hl.
  - cbn. eexists. split; [reflexivity|]. lia.
  - cbn [lower_bound]. destruct (length <=? 0) eqn:E.
    + eexists. split; [reflexivity|]. lia.
    + apply Z.leb_gt in E.
      assert (Hh : 0 <= length / 2 < length) by (split; [apply Z.div_pos; lia|apply Z.div_lt_upper_bound; lia]).
      destruct (entry_lt_key_ok m (ip + 32 * (first + length / 2)) bp bn k Hb Hwf) as [b Hbk]; auto.
      { apply (validb_sub' _ ip (32 * cnt)); auto; lia. }
      rewrite Hbk. cbn [bind]. destruct b.
      * destruct (IH m ip bp bn k (first + length / 2 + 1) (length - length / 2 - 1) cnt) as [r [Hr Hrr]]; auto; try lia.
        eexists. split; [exact Hr|]. lia.
      * destruct (IH m ip bp bn k first (length / 2) cnt) as [r [Hr Hrr]]; auto; try lia.
        eexists. split; [exact Hr|]. lia.
Qed.

(* sorted_map::find on a deserialized map: the map slot, the index array it names and the base
   buffer it names are readable => find reads nothing else, whatever the index contains *)
Lemma map_find_in_bounds m a k ip inn bp bn :
  mem_bytes m -> mem_wf m ->
  validb (lens m) a 32 = true ->
  load64 m a = Ok ip -> load64 m (a + 8) = Ok inn -> load64 m (a + 16) = Ok bp -> load64 m (a + 24) = Ok bn ->
  validb (lens m) ip inn = true -> validb (lens m) bp bn = true ->
  0 <= inn -> 0 <= bp -> 0 <= bn -> bp + bn < W64 ->
  exists pos, map_find cfg_final m a k = Ok pos /\ 0 <= pos <= inn / 32.
Proof.
  intros Hb Hwf Ha E1 E2 E3 E4 Hidx Hbase Hinn Hbp Hbn Hsum. unfold map_find. rewrite E1, E2, E3, E4. cbn [bind].
  assert (Hc : 0 <= inn / 32) by (apply Z.div_pos; lia).
  destruct (lower_bound_ok (Z.to_nat (inn / 32) + 1) m ip bp bn k 0 (inn / 32) (inn / 32)) as [r [Hr Hrr]]; auto; try lia.
  { pose proof (Z.mul_div_le inn 32 ltac:(lia)). apply (validb_sub' _ ip inn); auto; lia. }
  exists r. split; [exact Hr|]. lia.
Qed.

(* a concrete deserialized map meeting every hypothesis of map_find_in_bounds:
   region 0 = the sorted_map slot (index ptr/len, base ptr/len), region 1 = one index entry
   (key slice (0,2), value slice (2,2)), region 2 = base buffer "k\0v\0" *)
Definition ex_mem : mem :=
  [ [0; 0; 0; 0; 1; 48; 0; 0; 32; 0; 0; 0; 0; 0; 0; 0; 0; 0; 0; 0; 2; 48; 0; 0; 4; 0; 0; 0; 0; 0; 0; 0];
    [0; 0; 0; 0; 0; 0; 0; 0; 2; 0; 0; 0; 0; 0; 0; 0; 2; 0; 0; 0; 0; 0; 0; 0; 2; 0; 0; 0; 0; 0; 0; 0];
    [107; 0; 118; 0] ].
Fixpoint bytes_okb (bs : list byte) : bool :=
  match bs with [] => true | b :: r => (0 <=? b) && (b <? 256) && bytes_okb r end.
Lemma bytes_okb_ok bs : bytes_okb bs = true -> bytes_ok bs.
Proof.
  induction bs as [|b r IH]; intros H; [constructor|]. cbn [bytes_okb] in H.
  apply andb_true_iff in H. destruct H as [H1 H2]. apply andb_true_iff in H1. destruct H1 as [H0 H1].
  apply Z.leb_le in H0. apply Z.ltb_lt in H1. constructor; [lia|exact (IH H2)].
Qed.
Example map_find_hyps_inhabited :
  mem_bytes ex_mem /\ mem_wf ex_mem /\ validb (lens ex_mem) (region_base 0) 32 = true /\
  load64 ex_mem (region_base 0) = Ok (region_base 1) /\ load64 ex_mem (region_base 0 + 8) = Ok 32 /\
  load64 ex_mem (region_base 0 + 16) = Ok (region_base 2) /\ load64 ex_mem (region_base 0 + 24) = Ok 4 /\
  validb (lens ex_mem) (region_base 1) 32 = true /\ validb (lens ex_mem) (region_base 2) 4 = true /\
  map_find cfg_final ex_mem (region_base 0) [107; 0] = Ok 0 /\
  map_find cfg_final ex_mem (region_base 0) [122; 0] = Ok 1.
Proof.
  split; [|split].
  - unfold mem_bytes, ex_mem. repeat (apply Forall_cons; [apply bytes_okb_ok; vm_compute; reflexivity|]). apply Forall_nil.
  - unfold mem_wf. change (lens ex_mem) with [32; 32; 4]. repeat (apply Forall_cons; [unfold STRIDE; lia|]). apply Forall_nil.
  - repeat split; vm_compute; reflexivity.
Qed.

(* ------------------------------------------------------------------------------
   CheckedMessage: a message is only ever returned after the stored checksum has been
   compared, and found equal, to the value recomputed by validate_checksum
   (hstep = the per-byte step of the hash, uninterpreted)
   ------------------------------------------------------------------------------ *)
Section Checked.
  Variable hstep : Z -> byte -> Z.
  Variable c : cfg.

  (* what validate_checksum compares: the stored word against the fold of hstep over
     (a) the bytes of every remaining iovec element in order and (b) the body with the running
     value in its checksum field *)
  Lemma validate_checksum_spec m v t size okc m' :
    validate_checksum hstep m v t size = Ok (okc, m') ->
    exists stored m1 m2 h1 body,
      load32 m t = Ok stored /\ store32 m t 0 = Ok m1 /\ hash_iov hstep m1 t (i_el v) = Ok m2 /\
      load32 m2 t = Ok h1 /\ load m2 t size = Ok body /\
      okc = (stored =? hash_ext hstep h1 body).
  Proof.
    unfold validate_checksum. intros H.
    destruct (load32 m t) as [stored|] eqn:E0; cbn [bind] in H; [|discriminate].
    destruct (store32 m t 0) as [m1|] eqn:E1; cbn [bind] in H; [|discriminate].
    destruct (hash_iov hstep m1 t (i_el v)) as [m2|] eqn:E2; cbn [bind] in H; [|discriminate].
    destruct (load32 m2 t) as [h1|] eqn:E3; cbn [bind] in H; [|discriminate].
    destruct (load m2 t size) as [body|] eqn:E4; cbn [bind] in H; [|discriminate].
    destruct (store32 m2 t (hash_ext hstep h1 body)) as [m3|] eqn:E5; cbn [bind] in H; [|discriminate].
    inversion H. subst. exists stored, m1, m2, h1, body. repeat split; auto.
  Qed.

  Lemma checked_accept_requires_valid_checksum sh m v t st :
    sh_checked sh = true ->
    deserialize hstep c sh m v = Ok (t, st) -> t <> 0 ->
    exists t1 m1 v1 m2,
      ebc m v (sh_size sh) = Ok (t1, m1, v1) /\
      validate_checksum hstep m1 v1 t1 (sh_size sh) = Ok (true, m2).
  Proof.
    intros Hc H Ht. unfold deserialize in H. rewrite Hc in H.
    destruct (ebc m v (sh_size sh)) as [[[t1 m1] v1]|] eqn:E; cbn [bind] in H; [|discriminate].
    destruct (t1 =? 0) eqn:Et; [inversion H; subst; congruence|].
    destruct (validate_checksum hstep m1 v1 t1 (sh_size sh)) as [[okc m2]|] eqn:EV; cbn [bind] in H; [|discriminate].
    destruct okc; cbn [negb] in H; [|inversion H; subst; congruence].
    exists t1, m1, v1, m2. split; [reflexivity|exact EV].
  Qed.
End Checked.

(* FINDING F25.  "A checked message whose bytes were altered is rejected" is FALSE for the
   code as it is: the accumulator of the hash is m_checksum itself, which lies inside the body
   that is hashed last; with the real CRC32C step the word equal to the running value resets
   the register, so the result does not depend on the variable-length fields.  Witness: two
   streams that differ in a byte of the string field carry the same stored checksum and are
   both accepted by the (faithful) model; replayed on the implementation (corpus). *)
Definition ex_checked_shape : shape := mkShape 24 true (FCons 8 FStr FNil).
Definition ex_checked_good : list byte :=
  [104; 105; 0; 68; 136; 122; 8; 7; 0; 0; 0; 52; 18; 0; 0; 0; 0; 0; 0; 3; 0; 0; 0; 0; 0; 0; 0].
Definition ex_checked_bad : list byte :=
  [104; 104; 0; 68; 136; 122; 8; 7; 0; 0; 0; 52; 18; 0; 0; 0; 0; 0; 0; 3; 0; 0; 0; 0; 0; 0; 0].
Definition accepted (bs : list byte) : bool :=
  match deserialize crc32c_step cfg_final ex_checked_shape [bs] (mkIov 4 [(region_base 0, len bs)] 0 32) with
  | Ok (t, _) => negb (t =? 0)
  | Err _ => false
  end.
(* the full-strength statement, kept as a Prop: every alteration of an accepted checked
   stream (same length, different bytes) is rejected *)
Definition checked_rejects_alteration : Prop :=
  forall bs bs', accepted bs = true -> len bs' = len bs -> bs' <> bs -> accepted bs' = false.
Lemma checked_rejects_alteration_refuted : ~ checked_rejects_alteration.
Proof.
  intros H. specialize (H ex_checked_good ex_checked_bad).
  assert (A : accepted ex_checked_good = true) by (vm_compute; reflexivity).
  assert (B : accepted ex_checked_bad = true) by (vm_compute; reflexivity).
  rewrite H in B; [discriminate|exact A|reflexivity|discriminate].
Qed.

(* deser_in_bounds is proved in C12_Deser.v (deserialize_no_trap: every shape, every memory, every
   fragmentation) and C12_Walk.v (deserialize_fields_in_bounds_partial: final state of every slot and
   the walk, for shapes without iovec arrays / arrays of messages).  ser_roundtrip: see notes/C12.md. *)

(* positive part of the checksum clause (hash uninterpreted): whenever the value recomputed
   over the remaining iovec bytes and the body differs from the stored word, the message is
   rejected — deserialize returns 0 *)
Lemma checked_rejects_hash_mismatch hstep c sh m v t1 m1 v1 okc m2 :
  sh_checked sh = true ->
  ebc m v (sh_size sh) = Ok (t1, m1, v1) -> t1 <> 0 ->
  validate_checksum hstep m1 v1 t1 (sh_size sh) = Ok (okc, m2) -> okc = false ->
  exists st, deserialize hstep c sh m v = Ok (0, st).
Proof.
  intros Hc He Ht Hv Hk. unfold deserialize. rewrite He. cbn [bind].
  destruct (t1 =? 0) eqn:E; [apply Z.eqb_eq in E; contradiction|].
  rewrite Hc, Hv. cbn [bind]. subst okc. cbn [negb]. eauto.
Qed.
