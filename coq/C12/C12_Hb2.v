(* C12_Hb2.v — deser_in_bounds, field half, at FULL strength: for every well-formed shape (all ten
   field kinds, arrays of messages to any depth, iovec arrays, maps, checked), every byte memory and
   every vector of pairwise separated readable elements (= any fragmentation of ANY byte string;
   lengths in the body arbitrary, extractions may fail), if deserialize returns a message then
     - every byte of every field of it is readable (rd_fs returns a value; the walk w_fields through
       the real accessors returns Ok), and
     - every range the fields denote (every buffer / string / array / map index / map base / iovec
       array slot / iovec piece; element structs of arrays of messages) is empty or lies inside a
       CLAIMED range, and every claimed range (the body first) lies inside an element of the input
       vector or inside an allocation slot made by the extraction (`orig`), is readable, and the
       claimed ranges are pairwise separated. *)
From Coq Require Import ZArith List Bool Lia Permutation.
From PV Require Import Base.U64 C12.C12_Model C12.C12_Mem C12.C12_MemC C12.C12_Iov C12.C12_Flat C12.C12_Deser C12.C12_Sep C12.C12_Wire C12.C12_RtD C12.C12_RtS C12.C12_Rt C12.C12_Hx C12.C12_View C12.C12_Hb.
Import ListNotations.
Local Open Scope Z_scope.

Definition Hf (f : field) : Prop := forall avail st a st' Own c0,
  field_wf avail f -> lay_f f -> psep (aranges_f f a) ->
  HR (d_mem st) (d_iov st) Own -> In c0 Own -> within (a, avail) c0 ->
  d_field cfg_final f st a = Ok st' -> d_failed st' = false ->
  exists new, hpost st st' Own new (aranges_f f a) /\
    exists val w F, rd_f f (d_mem st') a = Ok (val, w, F) /\ fpok F (aranges_f f a) new.
Definition Hfs (fs : fields) : Prop := forall sz st base st' Own c0,
  fields_wf sz fs -> lay_fs fs -> psep (aranges_fs fs base) ->
  HR (d_mem st) (d_iov st) Own -> In c0 Own -> within (base, sz) c0 ->
  d_fields cfg_final fs st base = Ok st' -> d_failed st' = false ->
  exists new, hpost st st' Own new (aranges_fs fs base) /\
    exists vals w F, rd_fs fs (d_mem st') base = Ok (vals, w, F) /\ fpok F (aranges_fs fs base) new.

Lemma hpost_dropW st st' Own new W1 W2 : hpost st st' Own new (W1 ++ W2) ->
  (forall c r, In c Own -> In r W2 -> sep c r) -> hpost st st' Own new W1.
Proof.
  intros [H1 [X1 [P1 [O1 F1]]]] HW. unfold hpost. split; [exact H1|]. split; [exact X1|]. split; [exact P1|]. split; [exact O1|].
  intros x k [c [Hc Wc]] Hs. apply F1; [exists c; auto|]. intros r Hr. apply in_app_or in Hr. destruct Hr as [Hr|Hr]; [apply Hs; exact Hr|].
  eapply within_sep; [exact Wc|]. apply HW; auto.
Qed.

Lemma slot_loadable st st' Own new W p n : hpost st st' Own new W -> (n = 0 /\ new = [] \/ new = [(p, n)] /\ p <> 0 /\ n <> 0) ->
  exists bs, load (d_mem st') p n = Ok bs.
Proof.
  intros [[_ [_ [_ [_ HvO]]]] _] [[-> _]|[Hn _]]; [exists []; reflexivity|].
  apply load_valid. apply (HvO (p, n)). apply in_or_app. right. rewrite Hn. left. reflexivity.
Qed.

Lemma h_leaf f :
  (forall st a, d_field cfg_final f st a = d_buffer cfg_final st a) ->
  (forall m a, rd_f f m a = rd_f FBuf m a) ->
  (forall a, aranges_f f a = [(a, 16)]) ->
  (forall avail, field_wf avail f -> 16 <= avail) -> Hf f.
Proof.
  intros Hd Hr Ha Hw avail st a st' Own c0 Hwf _ _ HR0 Hc0 Wc Hrun Hnf.
  rewrite Hd in Hrun. specialize (Hw _ Hwf).
  assert (Wa : within (a, 16) c0) by (unfold within in *; cbn [fst snd] in *; lia).
  destruct (d_buffer_h st a st' Own c0 HR0 Hc0 Wa Hrun Hnf) as [new [p [n [HP [L1 [L2 [Rn Hnew]]]]]]].
  exists new. split; [rewrite Ha; exact HP|].
  destruct (slot_loadable _ _ _ _ _ p n HP Hnew) as [bs Hbs].
  exists (VBuf bs), bs, [(a, 16); (p, n)]. split.
  { rewrite Hr. cbn [rd_f]. rewrite L1. cbn [bind]. rewrite L2. cbn [bind]. rewrite Hbs. reflexivity. }
  rewrite Ha. intros r [<-|[<-|[]]].
  - right. left. exists (a, 16). split; [left; reflexivity|apply within_refl].
  - destruct Hnew as [[-> ->]|[-> _]]; [left; cbn; lia|]. right. right. exists (p, n). split; [left; reflexivity|apply within_refl].
Qed.

Lemma loop_h efs esz : Hfs efs -> 0 < esz -> fields_wf esz efs -> lay_fs efs -> (forall e, psep (aranges_fs efs e)) ->
  forall k st e st' Own c0,
  HR (d_mem st) (d_iov st) Own -> In c0 Own -> within (e, Z.of_nat k * esz) c0 ->
  d_loop efs esz k st e = Ok st' -> d_failed st' = false ->
  exists new, hpost st st' Own new [(e, Z.of_nat k * esz)] /\
    exists vss w F, rd_elems (rd_fs efs (d_mem st')) k e esz = Ok (vss, w, F) /\ fpok F [(e, Z.of_nat k * esz)] new.
Proof.
  intros HP Hesz Hwf Hlay Hps. induction k as [|k IH]; intros st e st' Own c0 HR0 Hc0 Wc Hrun Hnf.
  - cbn in Hrun. inversion Hrun. subst st'. exists []. split; [apply hpost_refl; exact HR0|].
    exists [], [], []. split; [reflexivity|]. intros r [].
  - assert (HS : Z.of_nat (S k) * esz = Z.of_nat k * esz + esz) by lia. rewrite HS in Wc. rewrite HS. clear HS.
    set (K := Z.of_nat k) in *. assert (HK : 0 <= K) by (unfold K; lia). assert (HKe : 0 <= K * esz) by nia.
    rewrite d_loop_S in Hrun. destruct (d_fields cfg_final efs st e) as [st1|] eqn:Hd1; cbn [bind] in Hrun; [|discriminate].
    assert (Hnf1 : d_failed st1 = false).
    { destruct (d_failed st1) eqn:Ef; [|reflexivity]. rewrite (d_loop_mono efs esz (proj2 d_mono efs) _ _ _ _ Hrun Ef) in Hnf. discriminate. }
    assert (W1 : within (e, esz) c0) by (unfold within in *; cbn [fst snd] in *; lia).
    assert (W2 : within (e + esz, K * esz) c0) by (unfold within in *; cbn [fst snd] in *; lia).
    destruct (HP esz st e st1 Own c0 Hwf Hlay (Hps e) HR0 Hc0 W1 Hd1 Hnf1) as [new1 [HP1 [v1 [w1 [F1 [Hr1 Hf1]]]]]].
    assert (HS1 : forall s, In s (aranges_fs efs e) -> within s (e, esz)) by (apply (proj2 aranges_within efs esz e Hwf)).
    pose proof HP1 as [HR1 [Hx1 [Pr1 [Or1 Fr1]]]].
    destruct (IH st1 (e + esz) st' (Own ++ new1) c0 HR1 ltac:(apply in_or_app; left; exact Hc0) W2 Hrun Hnf) as [new2 [HP2 [vs [w2 [F2 [Hr2 Hf2]]]]]].
    pose proof HP2 as [HR2 [Hx2 [Pr2 [Or2 Fr2]]]].
    exists (new1 ++ new2). split.
    { eapply hpost_weaken; [eapply hpost_trans; eauto|]. intros r Hr. exists (e, K * esz + esz). split; [left; reflexivity|].
      apply in_app_or in Hr. destruct Hr as [Hr|[<-|[]]].
      - eapply within_trans; [apply HS1; exact Hr|]. unfold within. cbn [fst snd]. lia.
      - unfold within. cbn [fst snd]. lia. }
    destruct HR1 as [_ [_ [HpO1 _]]].
    assert (St : forall r, In r F1 -> agree (d_mem st1) (d_mem st') r).
    { apply (stab _ _ Own new1 F1 (aranges_fs efs e) [(e + esz, K * esz)] c0 Hf1 Fr2 HpO1 Hc0).
      - intros s Hs. eapply within_trans; [apply HS1; exact Hs|exact W1].
      - intros s [<-|[]]. exact W2.
      - intros s1 s2 Hs1 [<-|[]]. eapply within_sep; [apply HS1; exact Hs1|]. unfold sep. cbn [fst snd]. lia. }
    exists (v1 :: vs), (w1 ++ w2), (F1 ++ F2). split.
    { cbn [rd_elems]. rewrite (proj2 (rd_stable _ _) efs e _ Hr1 St). cbn [bind]. rewrite Hr2. reflexivity. }
    intros r Hr. apply in_app_or in Hr. destruct Hr as [Hr|Hr].
    + destruct (Hf1 r Hr) as [H|[[s [Hs Ws]]|[c [Hc Wx]]]]; [left; exact H| |].
      * right. left. exists (e, K * esz + esz). split; [left; reflexivity|]. eapply within_trans; [exact Ws|].
        eapply within_trans; [apply HS1; exact Hs|]. unfold within. cbn [fst snd]. lia.
      * right. right. exists c. split; [apply in_or_app; left; exact Hc|exact Wx].
    + destruct (Hf2 r Hr) as [H|[[s [[<-|[]] Ws]]|[c [Hc Wx]]]]; [left; exact H| |].
      * right. left. exists (e, K * esz + esz). split; [left; reflexivity|]. eapply within_trans; [exact Ws|].
        unfold within. cbn [fst snd]. lia.
      * right. right. exists c. split; [apply in_or_app; right; exact Hc|exact Wx].
Qed.

Lemma h_all : (forall f, Hf f) /\ (forall fs, Hfs fs).
Proof.
  apply field_fields_mut.
  - (* FFixed *) intros n avail st a st' Own c0 Hwf _ _ HR0 Hc0 Wc Hrun Hnf. cbn [d_field] in Hrun. inversion Hrun. subst st'.
    cbn [field_wf] in Hwf. exists []. split; [apply hpost_refl; exact HR0|].
    destruct HR0 as [Hinv [_ [_ [_ HvO]]]].
    assert (Hv : validb (lens (d_mem st)) a n = true).
    { apply (validb_sub' _ (fst c0) (snd c0)); [eapply inv_wf; eauto|apply HvO; exact Hc0| |]; unfold within in Wc; cbn [fst snd] in Wc; lia. }
    destruct (load_valid _ _ _ Hv) as [bs Hbs]. exists (VFix bs), [], [(a, n)]. split; [cbn [rd_f]; rewrite Hbs; reflexivity|].
    intros r [<-|[]]. right. left. exists (a, n). split; [left; reflexivity|apply within_refl].
  - (* FBuf *) apply h_leaf; try reflexivity; cbn [field_wf]; auto.
  - (* FStr *) apply h_leaf; try reflexivity; cbn [field_wf]; auto.
  - (* FFixBuf *) intros n. apply h_leaf; try reflexivity; cbn [field_wf]; auto.
  - (* FABuf *) apply h_leaf; try reflexivity; cbn [field_wf]; auto.
  - (* FArr *) intros esz efs IH avail st a st' Own c0 [Hw16 [Hesz Hwfe]] [Hpse Hlaye] _ HR0 Hc0 Wc Hrun Hnf.
    cbn [aranges_f]. rewrite d_field_arr in Hrun.
    destruct (d_buffer cfg_final st a) as [st1|] eqn:Hdb; cbn [bind] in Hrun; [|discriminate].
    assert (Hnf1 : d_failed st1 = false).
    { destruct (d_failed st1) eqn:Ef; [|reflexivity]. exfalso. revert Hrun.
      destruct (load64 (d_mem st1) a) as [p|]; cbn [bind]; [|discriminate].
      destruct (load64 (d_mem st1) (a + 8)) as [n|]; cbn [bind]; [|discriminate].
      destruct (n / esz =? 0); [intros H; inversion H; subst; congruence|]. destruct (p =? 0); [discriminate|].
      destruct (fields_active efs); [|intros H; inversion H; subst; congruence].
      intros H. rewrite (d_loop_mono efs esz (proj2 d_mono efs) _ _ _ _ H Ef) in Hnf. discriminate. }
    assert (Wa : within (a, 16) c0) by (unfold within in *; cbn [fst snd] in *; lia).
    destruct (d_buffer_h st a st1 Own c0 HR0 Hc0 Wa Hdb Hnf1) as [new1 [p [n [HP1 [L1 [L2 [Rn Hnew]]]]]]].
    rewrite L1 in Hrun. cbn [bind] in Hrun. rewrite L2 in Hrun. cbn [bind] in Hrun.
    destruct (slot_loadable _ _ _ _ _ p n HP1 Hnew) as [bs Hbs].
    assert (Hsimple : st' = st1 -> (fields_active efs = true -> Z.to_nat (n / esz) = 0%nat) ->
      exists new, hpost st st' Own new [(a, 16)] /\
        exists val w F, rd_f (FArr esz efs) (d_mem st') a = Ok (val, w, F) /\ fpok F [(a, 16)] new).
    { intros -> Hk. exists new1. split; [exact HP1|].
      assert (Hfp : fpok [(a, 16); (p, n)] [(a, 16)] new1).
      { intros r [<-|[<-|[]]].
        - right. left. exists (a, 16). split; [left; reflexivity|apply within_refl].
        - destruct Hnew as [[-> ->]|[-> _]]; [left; cbn; lia|]. right. right. exists (p, n). split; [left; reflexivity|apply within_refl]. }
      destruct (fields_active efs) eqn:Ea.
      - exists (VArr n [] []), (bs ++ []), [(a, 16); (p, n)]. split; [|exact Hfp].
        cbn [rd_f]. rewrite L1. cbn [bind]. rewrite L2. cbn [bind]. rewrite Hbs. cbn [bind]. rewrite Ea, (Hk eq_refl). reflexivity.
      - exists (VArr n bs []), bs, [(a, 16); (p, n)]. split; [|exact Hfp].
        cbn [rd_f]. rewrite L1. cbn [bind]. rewrite L2. cbn [bind]. rewrite Hbs. cbn [bind]. rewrite Ea. reflexivity. }
    destruct (n / esz =? 0) eqn:Ez.
    { apply Z.eqb_eq in Ez. inversion Hrun. apply Hsimple; [congruence|]. intros _. rewrite Ez. reflexivity. }
    apply Z.eqb_neq in Ez.
    destruct (p =? 0) eqn:Ep; [discriminate|]. apply Z.eqb_neq in Ep.
    destruct (fields_active efs) eqn:Ea.
    2:{ inversion Hrun. apply Hsimple; [congruence|]. discriminate. }
    clear Hsimple.
    assert (Hn0 : n <> 0) by (intros ->; apply Ez; apply Z.div_0_l; lia).
    destruct Hnew as [[Hc _]|[Hnew1 _]]; [congruence|]. subst new1.
    set (k := Z.to_nat (n / esz)) in *.
    pose proof HP1 as [HR1 [Hx1 [Pr1 [Or1 Fr1]]]].
    pose proof HR1 as [Hinv1 [_ [HpO1 [_ HvO1]]]].
    assert (Hk : Z.of_nat k * esz <= n).
    { unfold k. rewrite Z2Nat.id by (apply Z.div_pos; lia). pose proof (Z.mul_div_le n esz Hesz). lia. }
    assert (Hin1 : In (p, n) (Own ++ [(p, n)])) by (apply in_or_app; right; left; reflexivity).
    assert (Wp : within (p, Z.of_nat k * esz) (p, n)) by (unfold within; cbn [fst snd]; lia).
    destruct (loop_h efs esz IH Hesz Hwfe Hlaye Hpse k st1 p st' (Own ++ [(p, n)]) (p, n) HR1 Hin1 Wp Hrun Hnf)
      as [new2 [HP2 [vss [w2 [F2 [Hr2 Hf2]]]]]].
    pose proof HP2 as [HR2 [Hx2 [Pr2 [Or2 Fr2]]]].
    assert (HsO : forall c, In c Own -> sep c (p, n)).
    { apply psep_app in HpO1. destruct HpO1 as [_ [_ Hxs]]. intros c Hc. apply Hxs; [exact Hc|left; reflexivity]. }
    exists ([(p, n)] ++ new2). split.
    { apply (hpost_dropW st st' Own _ [(a, 16)] [(p, Z.of_nat k * esz)]); [eapply hpost_trans; eauto|].
      intros c r Hc [<-|[]]. eapply sep_sub_r; [apply HsO; exact Hc|exact Wp]. }
    assert (Hfr2' : forall x j, within (x, j) c0 -> load (d_mem st') x j = load (d_mem st1) x j).
    { intros x j Wx. apply Fr2; [exists c0; split; [apply in_or_app; left; exact Hc0|exact Wx]|].
      intros r [<-|[]]. apply (within_sep2 _ c0 _ (p, n) Wx Wp). apply HsO. exact Hc0. }
    assert (Hv2 : validb (lens (d_mem st')) p n = true).
    { eapply validb_ext; [exact Hx2|]. apply (HvO1 (p, n) Hin1). }
    destruct (load_valid _ _ _ Hv2) as [bs2 Lbs2].
    exists (VArr n [] vss), (bs2 ++ w2), ((a, 16) :: (p, n) :: F2). split.
    { cbn [rd_f]. unfold load64. rewrite (Hfr2' a 8) by (unfold within in *; cbn [fst snd] in *; lia).
      rewrite (Hfr2' (a + 8) 8) by (unfold within in *; cbn [fst snd] in *; lia).
      fold (load64 (d_mem st1) a). fold (load64 (d_mem st1) (a + 8)). rewrite L1. cbn [bind]. rewrite L2. cbn [bind].
      rewrite Lbs2. cbn [bind]. rewrite Ea. fold k. rewrite Hr2. reflexivity. }
    intros r [<-|[<-|Hr]].
    + right. left. exists (a, 16). split; [left; reflexivity|apply within_refl].
    + right. right. exists (p, n). split; [left; reflexivity|apply within_refl].
    + destruct (Hf2 r Hr) as [H|[[s [[<-|[]] Ws]]|[c [Hcc Wx]]]]; [left; exact H| |].
      * right. right. exists (p, n). split; [left; reflexivity|eapply within_trans; eauto].
      * right. right. exists c. split; [right; exact Hcc|exact Wx].
  - (* FIov *) intros avail st a st' Own c0 Hwf _ _ HR0 Hc0 Wc Hrun Hnf. cbn [field_wf] in Hwf. cbn [d_field] in Hrun.
    assert (Wa : within (a, 24) c0) by (unfold within in *; cbn [fst snd] in *; lia).
    exact (d_iovarr_h st a st' Own c0 HR0 Hc0 Wa Hrun Hnf).
  - (* FAIov *) intros avail st a st' Own c0 Hwf _ _ HR0 Hc0 Wc Hrun Hnf. cbn [field_wf] in Hwf. cbn [d_field fix_nested_al cfg_final] in Hrun.
    assert (Wa : within (a, 24) c0) by (unfold within in *; cbn [fst snd] in *; lia).
    exact (d_iovarr_h st a st' Own c0 HR0 Hc0 Wa Hrun Hnf).
  - (* FNest *) intros fs IH avail st a st' Own c0 Hwf Hlay Hps HR0 Hc0 Wc Hrun Hnf.
    cbn [field_wf lay_f aranges_f d_field] in *.
    destruct (IH avail st a st' Own c0 Hwf Hlay Hps HR0 Hc0 Wc Hrun Hnf) as [new [HP [vs [w [F [Hr Hfp]]]]]].
    exists new. split; [exact HP|]. exists (VNest vs), w, F. split; [cbn [rd_f]; rewrite Hr; reflexivity|exact Hfp].
  - (* FMap *) intros vsz vfs _ avail st a st' Own c0 Hw32 _ Hps HR0 Hc0 Wc Hrun Hnf.
    cbn [field_wf aranges_f d_field] in *.
    destruct (d_buffer cfg_final st a) as [st1|] eqn:Hdb1; cbn [bind] in Hrun; [|discriminate].
    assert (Hnf1 : d_failed st1 = false).
    { destruct (d_failed st1) eqn:Ef; [|reflexivity]. rewrite (d_buffer_mono _ _ _ Hrun Ef) in Hnf. discriminate. }
    assert (Wa : within (a, 16) c0) by (unfold within in *; cbn [fst snd] in *; lia).
    assert (Wb : within (a + 16, 16) c0) by (unfold within in *; cbn [fst snd] in *; lia).
    destruct (d_buffer_h st a st1 Own c0 HR0 Hc0 Wa Hdb1 Hnf1) as [new1 [p1 [n1 [HP1 [L1 [L2 [Rn1 Hnew1]]]]]]].
    pose proof HP1 as [HR1 [Hx1 [Pr1 [Or1 Fr1]]]].
    destruct (d_buffer_h st1 (a + 16) st' (Own ++ new1) c0 HR1 ltac:(apply in_or_app; left; exact Hc0) Wb Hrun Hnf)
      as [new2 [p2 [n2 [HP2 [M1 [M2 [Rn2 Hnew2]]]]]]].
    pose proof HP2 as [HR2 [Hx2 [Pr2 [Or2 Fr2]]]].
    exists (new1 ++ new2). split; [exact (hpost_trans _ _ _ _ _ _ _ _ HP1 HP2)|].
    assert (Hfr2' : forall x j, within (x, j) (a, 16) -> load (d_mem st') x j = load (d_mem st1) x j).
    { intros x j Wx. apply Fr2; [exists c0; split; [apply in_or_app; left; exact Hc0|eapply within_trans; eauto]|].
      intros r [<-|[]]. unfold within, sep in *. cbn [fst snd] in *. lia. }
    assert (L3 : exists ibs, load (d_mem st') p1 n1 = Ok ibs).
    { destruct Hnew1 as [[-> _]|[Hn1' _]]; [exists []; reflexivity|]. destruct HR2 as [_ [_ [_ [_ HvO2]]]].
      apply load_valid. apply (HvO2 (p1, n1)). apply in_or_app. left. apply in_or_app. right. rewrite Hn1'. left. reflexivity. }
    destruct L3 as [ibs L3].
    destruct (slot_loadable _ _ _ _ _ p2 n2 HP2 Hnew2) as [bbs M3].
    exists (VMap ibs bbs), (ibs ++ bbs), [(a, 16); (p1, n1); (a + 16, 16); (p2, n2)]. split.
    { cbn [rd_f]. unfold load64 at 1 2. rewrite (Hfr2' a 8) by (unfold within; cbn [fst snd]; lia).
      rewrite (Hfr2' (a + 8) 8) by (unfold within; cbn [fst snd]; lia).
      fold (load64 (d_mem st1) a). fold (load64 (d_mem st1) (a + 8)). rewrite L1. cbn [bind]. rewrite L2. cbn [bind].
      rewrite L3. cbn [bind]. rewrite M1. cbn [bind]. replace (a + 24) with (a + 16 + 8) by lia. rewrite M2. cbn [bind].
      rewrite M3. reflexivity. }
    intros r [<-|[<-|[<-|[<-|[]]]]].
    + right. left. exists (a, 16). split; [left; reflexivity|apply within_refl].
    + destruct Hnew1 as [[-> ->]|[-> _]]; [left; cbn; lia|]. right. right. exists (p1, n1). split; [left; reflexivity|apply within_refl].
    + right. left. exists (a + 16, 16). split; [right; left; reflexivity|apply within_refl].
    + destruct Hnew2 as [[-> ->]|[-> _]]; [left; cbn; lia|]. right. right. exists (p2, n2). split; [apply in_or_app; right; left; reflexivity|apply within_refl].
  - (* FNil *) intros sz st base st' Own c0 _ _ _ HR0 _ _ Hrun _. cbn in Hrun. inversion Hrun. subst st'.
    exists []. split; [apply hpost_refl; exact HR0|]. exists [], [], []. split; [reflexivity|]. intros r [].
  - (* FCons *) intros off f IHf r IHr sz st base st' Own c0 [Ho [Hwf Hwr]] [Hlf Hlr] Hps HR0 Hc0 Wc Hrun Hnf.
    cbn [aranges_fs] in *. apply psep_app in Hps. destruct Hps as [Hpf [Hpr Hpx]].
    rewrite d_fields_cons in Hrun.
    destruct (d_field cfg_final f st (base + off)) as [st1|] eqn:Hd1; cbn [bind] in Hrun; [|discriminate].
    pose proof (not_failed_before_fs _ _ _ _ Hrun Hnf) as Hnf1.
    assert (W1 : within (base + off, sz - off) c0) by (unfold within in *; cbn [fst snd] in *; lia).
    destruct (IHf (sz - off) st (base + off) st1 Own c0 Hwf Hlf Hpf HR0 Hc0 W1 Hd1 Hnf1) as [new1 [HP1 [v1 [w1 [F1 [Hr1 Hf1]]]]]].
    pose proof HP1 as [HR1 [Hx1 [Pr1 [Or1 Fr1]]]].
    assert (HS1 : forall s, In s (aranges_f f (base + off)) -> within s c0).
    { intros s Hs. eapply within_trans; [apply (proj1 aranges_within f (sz - off) (base + off) Hwf s Hs)|exact W1]. }
    assert (HS2 : forall s, In s (aranges_fs r base) -> within s c0).
    { intros s Hs. eapply within_trans; [apply (proj2 aranges_within r sz base Hwr s Hs)|exact Wc]. }
    destruct (IHr sz st1 base st' (Own ++ new1) c0 Hwr Hlr Hpr HR1 ltac:(apply in_or_app; left; exact Hc0) Wc Hrun Hnf)
      as [new2 [HP2 [vs [w2 [F2 [Hr2 Hf2]]]]]].
    pose proof HP2 as [HR2 [Hx2 [Pr2 [Or2 Fr2]]]].
    exists (new1 ++ new2). split; [exact (hpost_trans _ _ _ _ _ _ _ _ HP1 HP2)|].
    destruct HR1 as [_ [_ [HpO1 _]]].
    assert (St : forall x, In x F1 -> agree (d_mem st1) (d_mem st') x).
    { apply (stab _ _ Own new1 F1 (aranges_f f (base + off)) (aranges_fs r base) c0 Hf1 Fr2 HpO1 Hc0 HS1 HS2). intros s1 s2 H1 H2. apply Hpx; auto. }
    exists (v1 :: vs), (w1 ++ w2), (F1 ++ F2). split.
    { cbn [rd_fs]. rewrite (proj1 (rd_stable _ _) f (base + off) _ Hr1 St). cbn [bind]. rewrite Hr2. reflexivity. }
    intros x Hx. apply in_app_or in Hx. destruct Hx as [Hx|Hx].
    + destruct (Hf1 x Hx) as [H|[[s [Hs Ws]]|[c [Hcc Wx]]]]; [left; exact H| |].
      * right. left. exists s. split; [apply in_or_app; left; exact Hs|exact Ws].
      * right. right. exists c. split; [apply in_or_app; left; exact Hcc|exact Wx].
    + destruct (Hf2 x Hx) as [H|[[s [Hs Ws]]|[c [Hcc Wx]]]]; [left; exact H| |].
      * right. left. exists s. split; [apply in_or_app; right; exact Hs|exact Ws].
      * right. right. exists c. split; [apply in_or_app; right; exact Hcc|exact Wx].
Qed.

(* ---- reading every byte through the real accessors succeeds wherever rd_f does ---- *)
Definition w_loop (efs : fields) (esz : Z) (m : mem) := fix loop (k : nat) (e : Z) {struct k} : res (list (list item)) :=
  match k with O => Ok [] | S k' => it <- w_fields cfg_final efs m e ;; r <- loop k' (e + esz) ;; Ok (it :: r) end.

Lemma w_field_arr esz efs m a : w_field cfg_final (FArr esz efs) m a =
  (p <- load64 m a ;; n <- load64 m (a + 8) ;; bs <- load m p n ;;
   if fields_active efs then es <- w_loop efs esz m (Z.to_nat (n / esz)) p ;; Ok (IArr p n bs es) else Ok (IArr p n bs [])).
Proof. reflexivity. Qed.

Lemma w_field_nest' fs m a : w_field cfg_final (FNest fs) m a = (its <- w_fields cfg_final fs m a ;; Ok (INest its)).
Proof. reflexivity. Qed.
Lemma w_fields_cons' off f r m base :
  w_fields cfg_final (FCons off f r) m base = (it <- w_field cfg_final f m (base + off) ;; its <- w_fields cfg_final r m base ;; Ok (it :: its)).
Proof. reflexivity. Qed.

Lemma load_iovecs_of_rd m : forall k p R, rd_iovecs m p k = Ok R -> exists parts, load_iovecs m p k = Ok parts.
Proof.
  induction k as [|k IH]; intros p R H; [eexists; reflexivity|]. cbn [rd_iovecs load_iovecs] in *.
  destruct (load64 m p) as [b|]; cbn [bind] in *; [|discriminate].
  destruct (load64 m (p + 8)) as [n|]; cbn [bind] in *; [|discriminate].
  destruct (load m b n) as [d|]; cbn [bind] in *; [|discriminate].
  destruct (rd_iovecs m (p + 16) k) as [[bs F]|] eqn:E; cbn [bind] in H; [|discriminate].
  destruct (IH _ _ E) as [parts Hp]. rewrite Hp. cbn [bind]. eauto.
Qed.

Lemma walk_of_rd m : mem_bytes m ->
  (forall f a R, rd_f f m a = Ok R -> exists it, w_field cfg_final f m a = Ok it) /\
  (forall fs b R, rd_fs fs m b = Ok R -> exists its, w_fields cfg_final fs m b = Ok its).
Proof.
  intros Hbm.
  assert (Hbuf : forall a R (K : Z -> Z -> list byte -> res (rd3 value)),
    (p <- load64 m a ;; n <- load64 m (a + 8) ;; bs <- load m p n ;; K p n bs) = Ok R ->
    exists p n bs, load64 m a = Ok p /\ load64 m (a + 8) = Ok n /\ load m p n = Ok bs /\ K p n bs = Ok R).
  { intros a R K H. destruct (load64 m a) as [p|] eqn:E1; cbn [bind] in H; [|discriminate].
    destruct (load64 m (a + 8)) as [n|] eqn:E2; cbn [bind] in H; [|discriminate].
    destruct (load m p n) as [bs|] eqn:E3; cbn [bind] in H; [|discriminate]. exists p, n, bs. auto. }
  apply field_fields_mut.
  - intros n a R H. cbn [rd_f w_field] in *. destruct (load m a n); cbn [bind] in *; [eauto|discriminate].
  - intros a R H. cbn [rd_f] in H. destruct (Hbuf _ _ _ H) as [p [n [bs [L1 [L2 [L3 _]]]]]].
    cbn [w_field]. rewrite L1. cbn [bind]. rewrite L2. cbn [bind]. rewrite L3. cbn [bind]. eauto.
  - (* FStr: also through sv() *)
    intros a R H. cbn [rd_f] in H. destruct (Hbuf _ _ _ H) as [p [n [bs [L1 [L2 [L3 _]]]]]].
    cbn [w_field]. rewrite L1. cbn [bind]. rewrite L2. cbn [bind]. rewrite L3. cbn [bind].
    unfold sv_of. cbn [fix_sv cfg_final]. destruct (n =? 0) eqn:E; cbn [andb].
    + cbn [load bind]. rewrite (load_nonpos m p 0) by lia. cbn [bind]. eauto.
    + apply Z.eqb_neq in E. pose proof (load64_range _ _ _ Hbm L2) as Rn. rewrite wrap_small by lia.
      rewrite (load_prefix m p n bs (n - 1) L3 ltac:(lia)). cbn [bind]. eauto.
  - intros n0 a R H. cbn [rd_f] in H. destruct (Hbuf _ _ _ H) as [p [n [bs [L1 [L2 [L3 _]]]]]].
    cbn [w_field]. rewrite L1. cbn [bind]. rewrite L2. cbn [bind]. rewrite L3. cbn [bind]. eauto.
  - intros a R H. cbn [rd_f] in H. destruct (Hbuf _ _ _ H) as [p [n [bs [L1 [L2 [L3 _]]]]]].
    cbn [w_field]. rewrite L1. cbn [bind]. rewrite L2. cbn [bind]. rewrite L3. cbn [bind]. eauto.
  - (* FArr *) intros esz efs IH a R H. cbn [rd_f] in H. destruct (Hbuf _ _ _ H) as [p [n [bs [L1 [L2 [L3 HK]]]]]].
    rewrite w_field_arr. rewrite L1. cbn [bind]. rewrite L2. cbn [bind]. rewrite L3. cbn [bind].
    destruct (fields_active efs); [|eauto].
    destruct (rd_elems (rd_fs efs m) (Z.to_nat (n / esz)) p esz) as [[[vs w] F]|] eqn:Ee; cbn [bind] in HK; [|discriminate].
    assert (Hl : forall k e R0, rd_elems (rd_fs efs m) k e esz = Ok R0 -> exists es, w_loop efs esz m k e = Ok es).
    { induction k as [|k IHk]; intros e R0 H0; [eexists; reflexivity|]. cbn [rd_elems w_loop] in *.
      destruct (rd_fs efs m e) as [[[v1 w1] F1]|] eqn:E1; cbn [bind] in H0; [|discriminate].
      destruct (rd_elems (rd_fs efs m) k (e + esz) esz) as [[[vs' w'] F']|] eqn:E2; cbn [bind] in H0; [|discriminate].
      destruct (IH _ _ E1) as [it Hit]. destruct (IHk _ _ E2) as [es Hes]. rewrite Hit. cbn [bind]. rewrite Hes. cbn [bind]. eauto. }
    destruct (Hl _ _ _ Ee) as [es Hes]. rewrite Hes. cbn [bind]. eauto.
  - (* FIov *) intros a R H. cbn [rd_f w_field] in *.
    destruct (load64 m a) as [p|]; cbn [bind] in *; [|discriminate].
    destruct (load64 m (a + 8)) as [n|]; cbn [bind] in *; [|discriminate].
    destruct (load64 m (a + 16)) as [s|]; cbn [bind] in *; [|discriminate].
    destruct (rd_iovecs m p (Z.to_nat (n / 16))) as [[bs F]|] eqn:E; cbn [bind] in H; [|discriminate].
    destruct (load_iovecs_of_rd m _ _ _ E) as [parts Hp]. rewrite Hp. cbn [bind]. eauto.
  - (* FAIov *) intros a R H. cbn [rd_f w_field] in *.
    destruct (load64 m a) as [p|]; cbn [bind] in *; [|discriminate].
    destruct (load64 m (a + 8)) as [n|]; cbn [bind] in *; [|discriminate].
    destruct (load64 m (a + 16)) as [s|]; cbn [bind] in *; [|discriminate].
    destruct (rd_iovecs m p (Z.to_nat (n / 16))) as [[bs F]|] eqn:E; cbn [bind] in H; [|discriminate].
    destruct (load_iovecs_of_rd m _ _ _ E) as [parts Hp]. rewrite Hp. cbn [bind]. eauto.
  - (* FNest *) intros fs IH a R H. cbn [rd_f] in H.
    destruct (rd_fs fs m a) as [[[vs w] F]|] eqn:E; cbn [bind] in H; [|discriminate].
    destruct (IH _ _ E) as [its Hi]. rewrite w_field_nest', Hi. cbn [bind]. eauto.
  - (* FMap *) intros vsz vfs _ a R H. cbn [rd_f w_field] in *.
    destruct (load64 m a) as [ip|]; cbn [bind] in *; [|discriminate].
    destruct (load64 m (a + 8)) as [inn|]; cbn [bind] in *; [|discriminate].
    destruct (load m ip inn) as [ibs|]; cbn [bind] in *; [|discriminate].
    destruct (load64 m (a + 16)) as [bp|]; cbn [bind] in *; [|discriminate].
    destruct (load64 m (a + 24)) as [bn|]; cbn [bind] in *; [|discriminate].
    destruct (load m bp bn) as [bbs|]; cbn [bind] in *; [|discriminate]. eauto.
  - intros b R _. cbn. eauto.
  - intros off f IHf r IHr b R H. cbn [rd_fs] in H.
    destruct (rd_f f m (b + off)) as [[[v1 w1] F1]|] eqn:E1; cbn [bind] in H; [|discriminate].
    destruct (rd_fs r m b) as [[[vs w] F]|] eqn:E2; cbn [bind] in H; [|discriminate].
    destruct (IHf _ _ E1) as [it Hit]. destruct (IHr _ _ E2) as [its Hits].
    rewrite w_fields_cons', Hit. cbn [bind]. rewrite Hits. cbn [bind]. eauto.
Qed.

(* ---- archive order and declared order ---- *)
Lemma rd_fs_app a : forall b m base, rd_fs (fapp a b) m base =
  ('(v1, w1, F1) <- rd_fs a m base ;; '(v2, w2, F2) <- rd_fs b m base ;; Ok (v1 ++ v2, w1 ++ w2, F1 ++ F2)).
Proof.
  induction a as [|off f r IH]; intros b m base.
  - cbn [fapp rd_fs bind]. destruct (rd_fs b m base) as [[[v2 w2] F2]|]; reflexivity.
  - cbn [fapp rd_fs]. destruct (rd_f f m (base + off)) as [[[v1 w1] F1]|]; cbn [bind]; [|reflexivity].
    rewrite IH. destruct (rd_fs r m base) as [[[vs w] F]|]; cbn [bind]; [|reflexivity].
    destruct (rd_fs b m base) as [[[v2 w2] F2]|]; cbn [bind]; [|reflexivity].
    rewrite <- !app_assoc. reflexivity.
Qed.

Lemma sel_compl f : sel true f = negb (sel false f).
Proof. destruct f; reflexivity. Qed.

Lemma walk_of_rd_perm m : mem_bytes m -> forall fs b R, rd_fs (perm fs) m b = Ok R -> exists its, w_fields cfg_final fs m b = Ok its.
Proof.
  intros Hbm fs b R H. unfold perm in H. rewrite rd_fs_app in H.
  destruct (rd_fs (filt true fs) m b) as [R1|] eqn:E1; cbn [bind] in H; [|discriminate].
  assert (E2 : exists R2, rd_fs (filt false fs) m b = Ok R2).
  { destruct R1 as [[v1 w1] F1]. destruct (rd_fs (filt false fs) m b) as [R2|]; [eauto|discriminate]. }
  destruct E2 as [R2 E2]. clear H. revert R1 R2 E1 E2.
  induction fs as [|off f r IH]; intros R1 R2 E1 E2; [cbn; eauto|].
  cbn [filt] in E1, E2. rewrite sel_compl in E1.
  assert (Hone : exists Rf R1' R2', rd_f f m (b + off) = Ok Rf /\ rd_fs (filt true r) m b = Ok R1' /\ rd_fs (filt false r) m b = Ok R2').
  { destruct (sel false f); cbn [negb] in E1.
    - cbn [rd_fs] in E2. destruct (rd_f f m (b + off)) as [Rf|]; cbn [bind] in E2; [|discriminate].
      destruct Rf as [[vf wf] Ff]. destruct (rd_fs (filt false r) m b) as [R2'|]; cbn [bind] in E2; [|discriminate]. eauto 10.
    - cbn [rd_fs] in E1. destruct (rd_f f m (b + off)) as [Rf|]; cbn [bind] in E1; [|discriminate].
      destruct Rf as [[vf wf] Ff]. destruct (rd_fs (filt true r) m b) as [R1'|]; cbn [bind] in E1; [|discriminate]. eauto 10. }
  destruct Hone as [Rf [R1' [R2' [Hf [H1 H2]]]]].
  destruct (proj1 (walk_of_rd m Hbm) f _ _ Hf) as [it Hit]. destruct (IH _ _ H1 H2) as [its Hits].
  rewrite w_fields_cons', Hit. cbn [bind]. rewrite Hits. cbn [bind]. eauto.
Qed.

(* ---- the theorem ---- *)
Definition claimed_ok (E0 : list (Z * Z)) (n0 : Z) (m' : mem) (C : list (Z * Z)) : Prop :=
  psep C /\ forall c, In c C -> orig E0 n0 (lens m') c /\ validb (lens m') (fst c) (snd c) = true.

Section H.
  Variable hstep : Z -> byte -> Z.

  Theorem deserialize_fields_in_bounds sh m v :
    shape_wf sh -> lay_fs (sh_fields sh) -> (forall b, psep (aranges_fs (sh_fields sh) b)) ->
    inv m v -> psep (i_el v) ->
    exists t st, deserialize hstep cfg_final sh m v = Ok (t, st) /\
      (t <> 0 -> exists C vals w F its,
         claimed_ok (i_el v) (len m) (d_mem st) C /\ In (t, sh_size sh) C /\
         rd_fs (perm (sh_fields sh)) (d_mem st) t = Ok (vals, w, F) /\
         (forall r, In r F -> snd r <= 0 \/ exists c, In c C /\ within r c) /\
         w_fields cfg_final (sh_fields sh) (d_mem st) t = Ok its).
  Proof.
    intros [Hsz [Hwf Hck]] Hlay Hps Hinv Hpe. unfold deserialize.
    destruct (ebc_h m v (sh_size sh) Hinv Hsz Hpe) as [t [m1 [v1 [He X]]]]. rewrite He. cbn [bind].
    destruct X as [[-> [-> ->]]|[got [rest X]]].
    { rewrite Z.eqb_refl. eexists. eexists. split; [reflexivity|]. congruence. }
    pose proof X as [Hi1 [Hx1 [Hc1 [Hn1 [[Pv [Pp Pw]] [Lp [Fl1 [Ps1 [Pr1 [Sp1 [Fr1 _]]]]]]]]]]].
    destruct (t =? 0) eqn:Et; [apply Z.eqb_eq in Et; lia|].
    assert (Hval : exists okc m2, (if sh_checked sh then validate_checksum hstep m1 v1 t (sh_size sh) else Ok (true, m1)) = Ok (okc, m2)
                                  /\ inv m2 v1 /\ lens m2 = lens m1).
    { destruct (sh_checked sh) eqn:Ec.
      - destruct (validate_checksum_ok hstep m1 v1 t (sh_size sh) Hi1 (Hck eq_refl) Pv) as [okc [m2 [A [B C]]]]. eauto.
      - eauto. }
    destruct Hval as [okc [m2 [Hv [Hi2 Hl2]]]]. rewrite Hv. cbn [bind].
    destruct okc; cbn [negb].
    2:{ eexists. eexists. split; [reflexivity|]. congruence. }
    set (st0 := mkD m2 v1 false).
    destruct (d_pass_ok true (sh_fields sh) (sh_size sh) Hwf st0 t Hi2 ltac:(cbn [st0 d_mem]; rewrite Hl2; exact Pv))
      as [st1 [H1 [Hi3 Hx3]]].
    rewrite H1. cbn [bind]. cbn [st0 d_mem] in Hx3.
    destruct (d_pass_ok false (sh_fields sh) (sh_size sh) Hwf st1 t Hi3 ltac:(eapply validb_ext; [exact Hx3|rewrite Hl2; exact Pv]))
      as [st2 [H2 [Hi4 Hx4]]].
    rewrite H2. cbn [bind].
    eexists. eexists. split; [reflexivity|].
    destruct (d_failed st2) eqn:Hnf; [congruence|]. intros _.
    assert (Hrun : d_fields cfg_final (perm (sh_fields sh)) st0 t = Ok st2).
    { unfold perm. rewrite d_fields_app. rewrite <- d_pass_filt, H1. cbn [bind]. rewrite <- d_pass_filt. exact H2. }
    assert (Hwfp : fields_wf (sh_size sh) (perm (sh_fields sh))) by (apply fapp_wf; apply filt_wf; exact Hwf).
    assert (Hlp : lay_fs (perm (sh_fields sh))) by (apply fapp_lay; apply filt_lay; exact Hlay).
    assert (Hpp : psep (aranges_fs (perm (sh_fields sh)) t)) by (eapply psep_perm; [apply aranges_perm|apply Hps]).
    assert (HR0 : HR (d_mem st0) (d_iov st0) [(t, sh_size sh)]).
    { cbn [st0 d_mem d_iov]. split; [exact Hi2|]. split; [exact Ps1|]. split; [split; [intros y []|exact I]|].
      split; [intros e c He' [<-|[]]; apply Sp1; exact He'|]. intros c [<-|[]]. rewrite Hl2. exact Pv. }
    destruct (proj2 h_all (perm (sh_fields sh)) (sh_size sh) st0 t st2 [(t, sh_size sh)] (t, sh_size sh) Hwfp Hlp Hpp HR0
                (or_introl eq_refl) (within_refl _) Hrun Hnf) as [new [HP [vals [w [F [Hrd Hfp]]]]]].
    destruct HP as [HR2 [Hx2 [Pr2 [Or2 Fr2]]]]. cbn [st0 d_mem d_iov] in *.
    destruct HR2 as [Hi5 [_ [HpC [_ HvC]]]].
    destruct (walk_of_rd_perm (d_mem st2) (inv_bytes _ _ Hi5) _ _ _ Hrd) as [its Hits].
    exists ([(t, sh_size sh)] ++ new), vals, w, F, its.
    split.
    { split; [exact HpC|]. intros c Hc. split; [|apply HvC; exact Hc].
      apply in_app_or in Hc. destruct Hc as [[<-|[]]|Hc].
      - eapply orig_ext; [|apply (xpost_orig _ _ _ _ _ _ _ _ X Hsz)]. rewrite <- Hl2. exact Hx2.
      - eapply orig_prov; [exact Pr1| |apply Or2; exact Hc].
        pose proof (ext_len _ _ Hx1) as L. rewrite !len_lens in L. rewrite <- (len_lens m2), Hl2, len_lens. exact L. }
    split; [left; reflexivity|]. split; [exact Hrd|]. split; [|exact Hits].
    intros r Hr. destruct (Hfp r Hr) as [H|[[s [Hs Ws]]|[c [Hc Wx]]]]; [left; exact H| |].
    - right. exists (t, sh_size sh). split; [left; reflexivity|]. eapply within_trans; [exact Ws|].
      apply (proj2 aranges_within _ _ _ Hwfp s Hs).
    - right. exists c. split; [right; exact Hc|exact Wx].
  Qed.
End H.

(* the hypotheses are met by ordinary layouts; an array of messages holding iovec arrays and a map (harness T15-like) *)
Example in_bounds_shape_ok :
  let sh := mkShape 72 true (FCons 4 (FFixed 4) (FCons 8 (FArr 40 (FCons 0 FStr (FCons 16 FIov FNil))) (FCons 24 FAIov (FCons 48 FABuf FNil)))) in
  shape_wf sh /\ lay_fs (sh_fields sh) /\ (forall b, psep (aranges_fs (sh_fields sh) b)).
Proof.
  cbv zeta. split; [|split].
  - unfold shape_wf. cbn. repeat split; lia.
  - cbn. repeat split; try tauto; intros y Hy; cbn in Hy;
      repeat (destruct Hy as [<-|Hy]; [unfold sep; cbn [fst snd]; lia|]); destruct Hy.
  - intros b. cbn. repeat split; try tauto; intros y Hy; cbn in Hy;
      repeat (destruct Hy as [<-|Hy]; [unfold sep; cbn [fst snd]; lia|]); destruct Hy.
Qed.

(* reading guide for the footprint F of the theorem: the (ptr,len) pair a buffer slot holds is a member of F *)
Lemma footprint_names_buffer m a val w F : rd_f FBuf m a = Ok (val, w, F) ->
  exists p n, load64 m a = Ok p /\ load64 m (a + 8) = Ok n /\ In (p, n) F.
Proof.
  cbn [rd_f]. destruct (load64 m a) as [p|]; cbn [bind]; [|discriminate]. destruct (load64 m (a + 8)) as [n|]; cbn [bind]; [|discriminate].
  destruct (load m p n) as [bs|]; cbn [bind]; [|discriminate]. intros H. inversion H. exists p, n. split; [reflexivity|]. split; [reflexivity|]. right. left. reflexivity.
Qed.
