(* C12_Ord.v — from the archive order (aligned fields first, `perm fields`) back to the DECLARED order of the
   fields: reading a struct in declared order succeeds iff reading it in archive order does, and the two
   value lists determine each other (vsel = the sub-list of values of the aligned / non-aligned fields).
   The round-trip theorems restated in declared order. *)
From Coq Require Import ZArith List Bool Lia.
From PV Require Import Base.U64 C12.C12_Model C12.C12_Mem C12.C12_MemC C12.C12_Iov C12.C12_Flat C12.C12_Deser C12.C12_Sep C12.C12_Wire C12.C12_RtD C12.C12_RtS C12.C12_Rt C12.C12_RtC C12.C12_RtC2 C12.C12_RtC3 C12.C12_Hx C12.C12_View C12.C12_Hb C12.C12_Hb2 C12.C12_RtI.
Import ListNotations.
Local Open Scope Z_scope.

Fixpoint vsel (al : bool) (fs : fields) (vals : list value) : list value :=
  match fs, vals with
  | FCons _ f r, v :: vs => if sel al f then v :: vsel al r vs else vsel al r vs
  | _, _ => []
  end.
Fixpoint nf (fs : fields) : nat := match fs with FNil => O | FCons _ _ r => S (nf r) end.

Lemma rd_len fs : forall m b vals w F, rd_fs fs m b = Ok (vals, w, F) -> length vals = nf fs.
Proof.
  induction fs as [|off f r IH]; intros m b vals w F H; cbn [rd_fs] in H; [inversion H; reflexivity|].
  destruct (rd_f f m (b + off)) as [[[v1 w1] F1]|]; cbn [bind] in H; [|discriminate].
  destruct (rd_fs r m b) as [[[vs w2] F2]|] eqn:E; cbn [bind] in H; [|discriminate].
  inversion H. cbn [length nf]. f_equal. eapply IH; eauto.
Qed.

(* declared order -> the two passes *)
Lemma rd_split fs : forall m b vals w F, rd_fs fs m b = Ok (vals, w, F) ->
  exists w1 F1 w2 F2, rd_fs (filt true fs) m b = Ok (vsel true fs vals, w1, F1) /\
    rd_fs (filt false fs) m b = Ok (vsel false fs vals, w2, F2) /\ len F = len F1 + len F2 /\
    (forall r, In r F1 \/ In r F2 -> In r F).
Proof.
  induction fs as [|off f r IH]; intros m b vals w F H; cbn [rd_fs] in H.
  - inversion H. exists [], [], [], []. cbn. repeat split; auto. intros r0 [[]|[]].
  - destruct (rd_f f m (b + off)) as [[[v1 w1] F1]|] eqn:E1; cbn [bind] in H; [|discriminate].
    destruct (rd_fs r m b) as [[[vs w2] F2]|] eqn:E2; cbn [bind] in H; [|discriminate].
    inversion H. subst vals w F. clear H.
    destruct (IH _ _ _ _ _ E2) as [wa [Fa [wb [Fb [Ha [Hb [Hl Hin]]]]]]].
    cbn [filt vsel]. rewrite sel_compl. destruct (sel false f); cbn [negb].
    + exists wa, Fa, (w1 ++ wb), (F1 ++ Fb). split; [exact Ha|]. split; [cbn [rd_fs]; rewrite E1; cbn [bind]; rewrite Hb; reflexivity|].
      split; [rewrite !len_app; lia|]. intros x [Hx|Hx]; apply in_or_app.
      * right. apply Hin. left. exact Hx.
      * apply in_app_or in Hx. destruct Hx as [Hx|Hx]; [left; exact Hx|right; apply Hin; right; exact Hx].
    + exists (w1 ++ wa), (F1 ++ Fa), wb, Fb. split; [cbn [rd_fs]; rewrite E1; cbn [bind]; rewrite Ha; reflexivity|]. split; [exact Hb|].
      split; [rewrite !len_app; lia|]. intros x [Hx|Hx]; apply in_or_app.
      * apply in_app_or in Hx. destruct Hx as [Hx|Hx]; [left; exact Hx|right; apply Hin; left; exact Hx].
      * right. apply Hin. right. exact Hx.
Qed.

Lemma rd_perm_of_declared fs m b vals w F : rd_fs fs m b = Ok (vals, w, F) ->
  exists w' F', rd_fs (perm fs) m b = Ok (vsel true fs vals ++ vsel false fs vals, w', F') /\ len F' = len F /\
    (forall r, In r F' -> In r F).
Proof.
  intros H. destruct (rd_split fs m b vals w F H) as [w1 [F1 [w2 [F2 [H1 [H2 [Hl Hin]]]]]]].
  exists (w1 ++ w2), (F1 ++ F2). split; [unfold perm; rewrite rd_fs_app, H1; cbn [bind]; rewrite H2; reflexivity|].
  split; [rewrite len_app; lia|]. intros r Hr. apply Hin. apply in_app_or. exact Hr.
Qed.

(* the two passes -> declared order *)
Lemma rd_merge fs : forall m b v1 w1 F1 v2 w2 F2,
  rd_fs (filt true fs) m b = Ok (v1, w1, F1) -> rd_fs (filt false fs) m b = Ok (v2, w2, F2) ->
  exists vals w F, rd_fs fs m b = Ok (vals, w, F) /\ v1 = vsel true fs vals /\ v2 = vsel false fs vals.
Proof.
  induction fs as [|off f r IH]; intros m b v1 w1 F1 v2 w2 F2 H1 H2.
  - cbn in H1, H2. inversion H1. inversion H2. exists [], [], []. auto.
  - cbn [filt] in H1, H2. rewrite sel_compl in H1. destruct (sel false f) eqn:Es; cbn [negb] in H1.
    + cbn [rd_fs] in H2. destruct (rd_f f m (b + off)) as [[[vf wf] Ff]|] eqn:Ef; cbn [bind] in H2; [|discriminate].
      destruct (rd_fs (filt false r) m b) as [[[v2' w2'] F2']|] eqn:E2; cbn [bind] in H2; [|discriminate]. inversion H2. subst v2 w2 F2.
      destruct (IH _ _ _ _ _ _ _ _ H1 E2) as [vals [w [F [Hr [A B]]]]].
      exists (vf :: vals), (wf ++ w), (Ff ++ F). split; [cbn [rd_fs]; rewrite Ef; cbn [bind]; rewrite Hr; reflexivity|].
      cbn [vsel]. rewrite sel_compl, Es. cbn [negb]. split; [exact A|f_equal; exact B].
    + cbn [rd_fs] in H1. destruct (rd_f f m (b + off)) as [[[vf wf] Ff]|] eqn:Ef; cbn [bind] in H1; [|discriminate].
      destruct (rd_fs (filt true r) m b) as [[[v1' w1'] F1']|] eqn:E1; cbn [bind] in H1; [|discriminate]. inversion H1. subst v1 w1 F1.
      destruct (IH _ _ _ _ _ _ _ _ E1 H2) as [vals [w [F [Hr [A B]]]]].
      exists (vf :: vals), (wf ++ w), (Ff ++ F). split; [cbn [rd_fs]; rewrite Ef; cbn [bind]; rewrite Hr; reflexivity|].
      cbn [vsel]. rewrite sel_compl, Es. cbn [negb]. split; [f_equal; exact A|exact B].
Qed.

Lemma vsel_inj fs : forall a b, length a = nf fs -> length b = nf fs ->
  vsel true fs a = vsel true fs b -> vsel false fs a = vsel false fs b -> a = b.
Proof.
  induction fs as [|off f r IH]; intros a b La Lb H1 H2; destruct a as [|x a]; destruct b as [|y b]; cbn [length nf] in *; try discriminate; [reflexivity|].
  cbn [vsel] in H1, H2. rewrite sel_compl in H1. destruct (sel false f); cbn [negb] in H1.
  - inversion H2. f_equal. apply IH; auto.
  - inversion H1. f_equal. apply IH; auto.
Qed.

Lemma vsel_len al fs : forall a b, length a = nf fs -> length b = nf fs -> length (vsel al fs a) = length (vsel al fs b).
Proof.
  induction fs as [|off f r IH]; intros a b La Lb; destruct a as [|x a]; destruct b as [|y b]; cbn [length nf] in *; try discriminate; [reflexivity|].
  cbn [vsel]. destruct (sel al f); cbn [length]; [f_equal|]; apply IH; lia.
Qed.

(* reading in archive order the permuted value list of `vals` = reading `vals` in declared order *)
Lemma rd_declared_of_perm fs m b vals w' F' : length vals = nf fs ->
  rd_fs (perm fs) m b = Ok (vsel true fs vals ++ vsel false fs vals, w', F') ->
  exists w F, rd_fs fs m b = Ok (vals, w, F).
Proof.
  intros Lv H. unfold perm in H. rewrite rd_fs_app in H.
  destruct (rd_fs (filt true fs) m b) as [[[v1 w1] F1]|] eqn:E1; cbn [bind] in H; [|discriminate].
  destruct (rd_fs (filt false fs) m b) as [[[v2 w2] F2]|] eqn:E2; cbn [bind] in H; [|discriminate].
  injection H as H0 Hw HF.
  destruct (rd_merge fs m b _ _ _ _ _ _ E1 E2) as [vals2 [w [F [Hr [A B]]]]].
  pose proof (rd_len _ _ _ _ _ _ Hr) as L2.
  assert (Hl : length v1 = length (vsel true fs vals)) by (rewrite A; apply vsel_len; auto).
  assert (Hs : v1 = vsel true fs vals /\ v2 = vsel false fs vals).
  { revert H0 Hl. generalize (vsel true fs vals) (vsel false fs vals). clear. revert v2.
    induction v1 as [|x v1 IH]; intros v2 l1 l2 H Hl; destruct l1 as [|y l1]; cbn [length] in Hl; try discriminate.
    - cbn in H. auto.
    - cbn [app] in H. inversion H. destruct (IH v2 l1 l2 H2 ltac:(lia)) as [-> ->]. auto. }
  destruct Hs as [S1 S2]. rewrite A in S1. rewrite B in S2.
  rewrite (vsel_inj fs vals vals2 Lv L2 (eq_sym S1) (eq_sym S2)). eauto.
Qed.

Lemma vsums_vsel al fs : forall vals, vsums vals -> vsums (vsel al fs vals).
Proof.
  induction fs as [|off f r IH]; intros vals H; destruct vals as [|x vals]; cbn [vsel]; try exact I.
  destruct H as [Hx Hr]. destruct (sel al f); [split; [exact Hx|apply IH; exact Hr]|apply IH; exact Hr].
Qed.

Section ORD.
  Variable hstep : Z -> byte -> Z.

  (* ser_roundtrip for shapes without iovec_array fields, unchecked, values in DECLARED order *)
  Theorem ser_roundtrip_noiov_unchecked_declared sh ms x sst vals wf0 Fs0 body mr v :
    shape_wf sh -> sh_checked sh = false ->
    sup_fs (sh_fields sh) -> lay_fs (sh_fields sh) -> (forall b, psep (aranges_fs (sh_fields sh) b)) ->
    Forall (fun L => L <= STRIDE) (lens ms) ->
    rd_fs (sh_fields sh) ms x = Ok (vals, wf0, Fs0) -> load ms x (sh_size sh) = Ok body ->
    serialize hstep cfg_final sh ms x = Ok sst -> s_full sst = false ->
    inv mr v -> psep (i_el v) -> flat mr (i_el v) = flat (s_mem sst) (i_el (s_iov sst)) ->
    i_nb v + 1 + len Fs0 <= i_cap v ->
    exists t st w2 F, deserialize hstep cfg_final sh mr v = Ok (t, st) /\ t <> 0 /\
      ptr_ok (lens (d_mem st)) t (sh_size sh) /\
      rd_fs (sh_fields sh) (d_mem st) t = Ok (vals, w2, F) /\
      flat (d_mem st) (i_el (d_iov st)) = Ok [].
  Proof.
    intros Hsh Hck Hsup Hlay Hps Hmswf Hrd Lb Hser Hfull Hinv Hpe Hfl Hnb.
    destruct (rd_perm_of_declared _ _ _ _ _ _ Hrd) as [w' [F' [Hp [Hl _]]]].
    destruct (ser_roundtrip_noiov_unchecked hstep sh ms x sst _ w' F' body mr v Hsh Hck Hsup Hlay Hps Hmswf Hp Lb Hser Hfull Hinv Hpe Hfl ltac:(lia))
      as [t [st [w2 [F [H1 [H2 [H3 [H4 H5]]]]]]]].
    destruct (rd_declared_of_perm _ _ _ _ _ _ (rd_len _ _ _ _ _ _ Hrd) H4) as [w3 [F3 H6]].
    exists t, st, w3, F3. auto.
  Qed.

  Hypothesis hstep_range : forall h b, 0 <= h < W32 -> 0 <= b < 256 -> 0 <= hstep h b < W32.

  Theorem ser_roundtrip_noiov_checked_declared sh ms x sst vals wf0 Fs0 body0 mr v :
    shape_wf sh -> sh_checked sh = true ->
    sup_fs (sh_fields sh) -> lay_fs (sh_fields sh) -> (forall b, psep (aranges_fs (sh_fields sh) b)) ->
    mem_bytes ms -> Forall (fun L => L <= STRIDE) (lens ms) -> 0 <= x ->
    rd_fs (sh_fields sh) ms x = Ok (vals, wf0, Fs0) -> load ms x (sh_size sh) = Ok body0 ->
    load ms x 4 = Ok (le_enc 4 0) ->
    (forall r, In r Fs0 -> sep r (x, 4)) ->
    serialize hstep cfg_final sh ms x = Ok sst -> s_full sst = false ->
    (forall e, In e (removelast (i_el (s_iov sst))) -> sep e (x, 4)) ->
    inv mr v -> psep (i_el v) -> flat mr (i_el v) = flat (s_mem sst) (i_el (s_iov sst)) ->
    i_nb v + 1 + len Fs0 <= i_cap v ->
    exists t st w2 F, deserialize hstep cfg_final sh mr v = Ok (t, st) /\ t <> 0 /\
      ptr_ok (lens (d_mem st)) t (sh_size sh) /\
      rd_fs (sh_fields sh) (d_mem st) t = Ok (vals, w2, F) /\
      flat (d_mem st) (i_el (d_iov st)) = Ok [].
  Proof.
    intros Hsh Hck Hsup Hlay Hps Hbm Hwf Hx Hrd Lb L0 HsF Hser Hfull Hsp Hinv Hpe Hfl Hnb.
    destruct (rd_perm_of_declared _ _ _ _ _ _ Hrd) as [w' [F' [Hp [Hl Hin]]]].
    destruct (ser_roundtrip_noiov_checked hstep hstep_range sh ms x sst _ w' F' body0 mr v Hsh Hck Hsup Hlay Hps Hbm Hwf Hx Hp Lb L0
                ltac:(intros r Hr; apply HsF; apply Hin; exact Hr) Hser Hfull Hsp Hinv Hpe Hfl ltac:(lia))
      as [t [st [w2 [F [H1 [H2 [H3 [H4 H5]]]]]]]].
    destruct (rd_declared_of_perm _ _ _ _ _ _ (rd_len _ _ _ _ _ _ Hrd) H4) as [w3 [F3 H6]].
    exists t, st, w3, F3. auto.
  Qed.
End ORD.
