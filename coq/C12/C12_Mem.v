(* C12_Mem.v — lemmas about the byte memory of C12_Model: whether an access traps
   depends only on the region lengths; stores keep the lengths; little-endian words. *)
From Coq Require Import ZArith List Bool Lia.
From PV Require Import Base.U64 C12.C12_Model.
Import ListNotations.
Local Open Scope Z_scope.

Lemma len_nonneg {A} (l : list A) : 0 <= len l.
Proof. unfold len. lia. Qed.
Lemma len_app {A} (a b : list A) : len (a ++ b) = len a + len b.
Proof. unfold len. rewrite app_length. lia. Qed.
Lemma len_nil {A} : len (@nil A) = 0. Proof. reflexivity. Qed.
Lemma len_cons {A} (x : A) l : len (x :: l) = 1 + len l.
Proof. unfold len. cbn [length]. lia. Qed.

Lemma len_firstn {A} (l : list A) n : 0 <= n <= len l -> len (firstn (Z.to_nat n) l) = n.
Proof. unfold len. intros H. rewrite firstn_length. lia. Qed.
Lemma len_skipn {A} (l : list A) n : 0 <= n <= len l -> len (skipn (Z.to_nat n) l) = len l - n.
Proof. unfold len. intros H. rewrite skipn_length. lia. Qed.

(* ---- region lengths decide whether an access is in range ---- *)
Definition lens (m : mem) : list Z := map len m.

Lemma nth_z_map {A B} (f : A -> B) (l : list A) i : nth_z (map f l) i = option_map f (nth_z l i).
Proof.
  unfold nth_z, len. rewrite map_length.
  destruct ((i <? 0) || (Z.of_nat (length l) <=? i)); [reflexivity|].
  rewrite nth_error_map. reflexivity.
Qed.

Definition validb (ls : list Z) (a n : Z) : bool :=
  if n <=? 0 then true else
  if a <? ARENA then false else
  match nth_z ls ((a - ARENA) / STRIDE) with
  | None => false
  | Some L => (a - ARENA) mod STRIDE + n <=? L
  end.

Lemma load_valid m a n : validb (lens m) a n = true -> exists bs, load m a n = Ok bs.
Proof.
  unfold validb, load, lens. destruct (n <=? 0); [eauto|].
  destruct (a <? ARENA); [discriminate|].
  rewrite nth_z_map. destruct (nth_z m ((a - ARENA) / STRIDE)) as [bs|]; cbn [option_map]; [|discriminate].
  intros ->. eauto.
Qed.

Lemma load_valid_inv m a n bs : load m a n = Ok bs -> validb (lens m) a n = true.
Proof.
  unfold validb, load, lens. destruct (n <=? 0); [reflexivity|].
  destruct (a <? ARENA); [discriminate|].
  rewrite nth_z_map. destruct (nth_z m ((a - ARENA) / STRIDE)) as [r|]; cbn [option_map]; [|discriminate].
  destruct ((a - ARENA) mod STRIDE + n <=? len r); [reflexivity|discriminate].
Qed.

Lemma STRIDE_pos : 0 < STRIDE. Proof. reflexivity. Qed.

Lemma load_len m a n bs : load m a n = Ok bs -> len bs = Z.max 0 n.
Proof.
  unfold load. destruct (n <=? 0) eqn:Hn.
  - intros H. inversion H. apply Z.leb_le in Hn. rewrite len_nil. lia.
  - apply Z.leb_gt in Hn. destruct (a <? ARENA); [discriminate|].
    destruct (nth_z m ((a - ARENA) / STRIDE)) as [r|]; [|discriminate].
    destruct ((a - ARENA) mod STRIDE + n <=? len r) eqn:Hle; [|discriminate].
    apply Z.leb_le in Hle. intros H. inversion H. subst bs.
    pose proof (Z.mod_pos_bound (a - ARENA) STRIDE STRIDE_pos) as Hm.
    rewrite len_firstn; [lia|]. rewrite len_skipn; lia.
Qed.

Lemma nth_z_upd_len (m : mem) i x r : nth_z m i = Some r -> len x = len r ->
  lens (upd_nth m (Z.to_nat i) x) = lens m.
Proof.
  unfold nth_z. destruct ((i <? 0) || (len m <=? i)); [discriminate|].
  generalize (Z.to_nat i) as k. clear i. unfold lens.
  induction m as [|h t IH]; intros k Hn Hl; destruct k; cbn in *; try discriminate.
  - inversion Hn. subst. rewrite Hl. reflexivity.
  - rewrite (IH k Hn Hl). reflexivity.
Qed.

Lemma len_splice bs off v : 0 <= off -> off + len v <= len bs -> len (splice bs off v) = len bs.
Proof.
  intros H0 H1. unfold splice. rewrite !len_app. pose proof (len_nonneg v).
  rewrite len_firstn by lia. rewrite len_skipn by lia. lia.
Qed.

Lemma store_valid m a v : validb (lens m) a (len v) = true -> exists m', store m a v = Ok m' /\ lens m' = lens m.
Proof.
  unfold validb, store. destruct (len v <=? 0); [eauto|].
  destruct (a <? ARENA); [discriminate|]. unfold lens at 1. rewrite nth_z_map.
  destruct (nth_z m ((a - ARENA) / STRIDE)) as [r|] eqn:Hr; cbn [option_map]; [|discriminate].
  intros H. rewrite H. eexists. split; [reflexivity|].
  apply Z.leb_le in H. eapply nth_z_upd_len; [exact Hr|].
  pose proof (Z.mod_pos_bound (a - ARENA) STRIDE STRIDE_pos). apply len_splice; lia.
Qed.

Lemma store_lens m a v m' : store m a v = Ok m' -> lens m' = lens m.
Proof.
  intros H. assert (Hv : validb (lens m) a (len v) = true).
  { revert H. unfold validb, store, lens. destruct (len v <=? 0); [reflexivity|].
    destruct (a <? ARENA); [discriminate|]. rewrite nth_z_map.
    destruct (nth_z m ((a - ARENA) / STRIDE)) as [r|]; cbn [option_map]; [|discriminate].
    destruct ((a - ARENA) mod STRIDE + len v <=? len r); [reflexivity|discriminate]. }
  destruct (store_valid m a v Hv) as [m'' [H1 H2]]. rewrite H in H1. inversion H1. subst. exact H2.
Qed.

(* validity is monotone when regions are appended *)
Lemma nth_z_app_l {A} (l r : list A) i x : nth_z l i = Some x -> nth_z (l ++ r) i = Some x.
Proof.
  unfold nth_z. rewrite len_app. pose proof (len_nonneg r).
  destruct (i <? 0) eqn:H0; [discriminate|]. destruct (len l <=? i) eqn:H1; [discriminate|].
  apply Z.ltb_ge in H0. apply Z.leb_gt in H1. cbn [orb].
  destruct (len l + len r <=? i) eqn:H2; [apply Z.leb_le in H2; lia|].
  intros Hn. rewrite nth_error_app1; [exact Hn|]. unfold len in H1. lia.
Qed.

Lemma validb_app ls extra a n : validb ls a n = true -> validb (ls ++ extra) a n = true.
Proof.
  unfold validb. destruct (n <=? 0); [reflexivity|]. destruct (a <? ARENA); [discriminate|].
  destruct (nth_z ls ((a - ARENA) / STRIDE)) as [L|] eqn:HL; [|discriminate].
  rewrite (nth_z_app_l _ _ _ _ HL). exact (fun H => H).
Qed.

(* a sub-range of a valid range is valid *)
Lemma validb_sub ls a n a' n' : validb ls a n = true -> 0 < n' -> a <= a' -> a' + n' <= a + n ->
  (a - ARENA) mod STRIDE + n <= STRIDE -> validb ls a' n' = true.
Proof.
  unfold validb. intros H Hn' Ha Hb Hs.
  destruct (n <=? 0) eqn:Hn; [apply Z.leb_le in Hn; lia|]. apply Z.leb_gt in Hn.
  destruct (n' <=? 0) eqn:Hn2; [reflexivity|].
  destruct (a <? ARENA) eqn:HA; [discriminate|]. apply Z.ltb_ge in HA.
  destruct (a' <? ARENA) eqn:HA'; [apply Z.ltb_lt in HA'; lia|].
  pose proof STRIDE_pos as HS.
  assert (Hq : (a' - ARENA) / STRIDE = (a - ARENA) / STRIDE /\ (a' - ARENA) mod STRIDE = (a - ARENA) mod STRIDE + (a' - a)).
  { pose proof (Z.div_mod (a - ARENA) STRIDE ltac:(lia)) as E.
    pose proof (Z.mod_pos_bound (a - ARENA) STRIDE HS) as B.
    assert (E2 : a' - ARENA = (a - ARENA) / STRIDE * STRIDE + ((a - ARENA) mod STRIDE + (a' - a))) by lia.
    split.
    - symmetry. apply (Z.div_unique_pos _ _ _ ((a - ARENA) mod STRIDE + (a' - a))); lia.
    - symmetry. apply (Z.mod_unique_pos _ _ ((a - ARENA) / STRIDE)); lia. }
  destruct Hq as [-> ->].
  destruct (nth_z ls ((a - ARENA) / STRIDE)) as [L|]; [|discriminate].
  apply Z.leb_le in H. apply Z.leb_le. lia.
Qed.

(* ---- little-endian words ---- *)
Lemma le_enc_len n v : len (le_enc n v) = Z.of_nat n.
Proof. revert v. induction n; intros v; [reflexivity|]. cbn [le_enc]. rewrite len_cons, IHn. lia. Qed.

Lemma le_dec_enc n v : 0 <= v < 256 ^ Z.of_nat n -> le_dec (le_enc n v) = v.
Proof.
  revert v. induction n as [|n IH]; intros v Hv.
  - cbn in *. lia.
  - cbn [le_enc le_dec]. rewrite Nat2Z.inj_succ, Z.pow_succ_r in Hv by lia.
    rewrite IH.
    + pose proof (Z.div_mod v 256 ltac:(lia)). lia.
    + split; [apply Z.div_pos; lia|]. apply Z.div_lt_upper_bound; lia.
Qed.
