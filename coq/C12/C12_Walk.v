(* C12_Walk.v — after a successful deserialize every slot of the message holds a null/empty
   pair or a pointer to a readable range, and walking the message (reading every byte of every
   field, through sv() for strings) never accesses memory out of range.
   Scope of this file (hence `_partial`): shapes without iovec_array fields and whose arrays
   have elements without fields to process (arrays of PODs, sorted_map index). *)
From Coq Require Import ZArith List Bool Lia.
From PV Require Import Base.U64 C12.C12_Model C12.C12_Mem C12.C12_MemC C12.C12_Iov C12.C12_Deser.
Import ListNotations.
Local Open Scope Z_scope.

Fixpoint field_simple (f : field) : Prop :=
  match f with
  | FIov | FAIov => False
  | FArr _ efs => fields_active efs = false
  | FNest fs => fields_simple fs
  | _ => True
  end
with fields_simple (fs : fields) : Prop :=
  match fs with FNil => True | FCons _ f r => field_simple f /\ fields_simple r end.

(* the address ranges written while a field is processed *)
Fixpoint franges (f : field) (a : Z) : list (Z * Z) :=
  match f with
  | FFixed _ => []
  | FBuf | FStr | FFixBuf _ | FABuf | FArr _ _ => [(a, 16)]
  | FIov | FAIov => [(a, 24)]
  | FNest fs => fsranges fs a
  | FMap _ _ => [(a, 16); (a + 16, 16)]
  end
with fsranges (fs : fields) (base : Z) : list (Z * Z) :=
  match fs with FNil => [] | FCons off f r => franges f (base + off) ++ fsranges r base end.

Definition disj (r1 r2 : Z * Z) : Prop := fst r1 + snd r1 <= fst r2 \/ fst r2 + snd r2 <= fst r1.
Definition inside (r1 r2 : Z * Z) : Prop := fst r2 <= fst r1 /\ fst r1 + snd r1 <= fst r2 + snd r2.
Fixpoint pairwise_disj (l : list (Z * Z)) : Prop :=
  match l with [] => True | x :: r => (forall y, In y r -> disj x y) /\ pairwise_disj r end.

Lemma pairwise_disj_app a b : pairwise_disj (a ++ b) ->
  pairwise_disj a /\ pairwise_disj b /\ (forall x y, In x a -> In y b -> disj x y).
Proof.
  induction a as [|h t IH]; cbn [app pairwise_disj]; intros H.
  - split; [exact I|]. split; [exact H|]. intros x y [].
  - destruct H as [H1 H2]. destruct (IH H2) as [A [B C]]. split; [|split; [exact B|]].
    + split; [|exact A]. intros y Hy. apply H1. apply in_or_app. auto.
    + intros x y [->|Hx] Hy; [apply H1; apply in_or_app; auto|apply C; auto].
Qed.

Lemma disj_sym a b : disj a b -> disj b a.
Proof. unfold disj. tauto. Qed.

(* loads of ranges readable before that avoid every range of R are unchanged *)
Definition frameR (m m' : mem) (R : list (Z * Z)) : Prop :=
  forall x k, validb (lens m) x k = true -> (forall r, In r R -> disj (x, k) r) -> load m' x k = load m x k.

Lemma frameR_refl m R : frameR m m R.
Proof. intros x k _ _. reflexivity. Qed.

Lemma frameR_trans m1 m2 m3 R1 R2 : ext (lens m1) (lens m2) -> frameR m1 m2 R1 -> frameR m2 m3 R2 -> frameR m1 m3 (R1 ++ R2).
Proof.
  intros Hx F1 F2 x k Hv Hd. rewrite F2; [apply F1; [exact Hv|]|eapply validb_ext; eauto|].
  - intros r Hr. apply Hd. apply in_or_app. auto.
  - intros r Hr. apply Hd. apply in_or_app. auto.
Qed.

Lemma frame_frameR m m' a w : frame m m' a w -> frameR m m' [(a, w)].
Proof.
  intros F x k Hv Hd. apply F; [exact Hv|]. specialize (Hd (a, w) (or_introl eq_refl)). unfold disj in Hd. cbn [fst snd] in Hd. lia.
Qed.

Lemma frameR_weaken m m' R R' : frameR m m' R -> (forall r, In r R -> In r R') -> frameR m m' R'.
Proof. intros F Hs x k Hv Hd. apply F; auto. Qed.

(* ---- the state of a processed field in memory ---- *)
Fixpoint wgood_f (m : mem) (f : field) (a : Z) : Prop :=
  match f with
  | FFixed n => validb (lens m) a n = true
  | FBuf | FStr | FFixBuf _ | FABuf | FArr _ _ => slot_post m a
  | FIov | FAIov => True
  | FNest fs => wgood_fs m fs a
  | FMap _ _ => slot_post m a /\ slot_post m (a + 16)
  end
with wgood_fs (m : mem) (fs : fields) (base : Z) : Prop :=
  match fs with FNil => True | FCons off f r => wgood_f m f (base + off) /\ wgood_fs m r base end.

Lemma slot_post_stable m m' a : slot_post m a -> ext (lens m) (lens m') ->
  load m' a 8 = load m a 8 -> load m' (a + 8) 8 = load m (a + 8) 8 -> slot_post m' a.
Proof.
  intros [p [n [L1 [L2 [R [Z0 P]]]]]] Hx E1 E2. exists p, n.
  unfold load64 in *. rewrite E1, E2. split; [exact L1|]. split; [exact L2|]. split; [exact R|]. split; [exact Z0|].
  intros Hn. destruct (P Hn) as [A [B C]]. split; [eapply validb_ext; eauto|auto].
Qed.

Lemma load64_valid m a p : load64 m a = Ok p -> validb (lens m) a 8 = true.
Proof. unfold load64. destruct (load m a 8) eqn:E; [|discriminate]. intros _. eapply load_valid_inv; eauto. Qed.

Lemma slot_post_frameR m m' a R : slot_post m a -> ext (lens m) (lens m') -> frameR m m' R ->
  (forall r, In r R -> disj (a, 16) r) -> slot_post m' a.
Proof.
  intros S Hx F Hd. pose proof S as [p [n [L1 [L2 _]]]].
  apply (slot_post_stable m m' a S Hx).
  - apply F; [eapply load64_valid; eauto|]. intros r Hr. specialize (Hd r Hr). unfold disj in *. cbn [fst snd] in *. lia.
  - apply F; [eapply load64_valid; eauto|]. intros r Hr. specialize (Hd r Hr). unfold disj in *. cbn [fst snd] in *. lia.
Qed.

Scheme field_mut' := Induction for field Sort Prop
  with fields_mut' := Induction for fields Sort Prop.
Combined Scheme field_fields_mut' from field_mut', fields_mut'.

(* a processed field stays good while later stores avoid its ranges *)
Lemma wgood_stable m m' R : ext (lens m) (lens m') -> frameR m m' R ->
  (forall f a, wgood_f m f a -> (forall r1 r2, In r1 (franges f a) -> In r2 R -> disj r1 r2) -> wgood_f m' f a) /\
  (forall fs base, wgood_fs m fs base -> (forall r1 r2, In r1 (fsranges fs base) -> In r2 R -> disj r1 r2) -> wgood_fs m' fs base).
Proof.
  intros Hx F. apply field_fields_mut'.
  - intros n a H _. cbn [wgood_f] in *. eapply validb_ext; eauto.
  - intros a H Hd. cbn [wgood_f franges] in *. eapply slot_post_frameR; eauto. intros r Hr. apply Hd; [left; reflexivity|exact Hr].
  - intros a H Hd. cbn [wgood_f franges] in *. eapply slot_post_frameR; eauto. intros r Hr. apply Hd; [left; reflexivity|exact Hr].
  - intros n a H Hd. cbn [wgood_f franges] in *. eapply slot_post_frameR; eauto. intros r Hr. apply Hd; [left; reflexivity|exact Hr].
  - intros a H Hd. cbn [wgood_f franges] in *. eapply slot_post_frameR; eauto. intros r Hr. apply Hd; [left; reflexivity|exact Hr].
  - intros esz efs _ a H Hd. cbn [wgood_f franges] in *. eapply slot_post_frameR; eauto. intros r Hr. apply Hd; [left; reflexivity|exact Hr].
  - intros a _ _. exact I.
  - intros a _ _. exact I.
  - intros fs IH a H Hd. cbn [wgood_f franges] in *. apply IH; auto.
  - intros vsz vfs _ a [H1 H2] Hd. cbn [wgood_f franges] in *. split.
    + eapply slot_post_frameR; eauto. intros r Hr. apply Hd; [left; reflexivity|exact Hr].
    + eapply slot_post_frameR; eauto. intros r Hr. apply Hd; [right; left; reflexivity|exact Hr].
  - intros base _ _. exact I.
  - intros off f IHf r IHr base [H1 H2] Hd. cbn [wgood_fs fsranges] in *. split.
    + apply IHf; auto. intros r1 r2 A B. apply Hd; [apply in_or_app; auto|exact B].
    + apply IHr; auto. intros r1 r2 A B. apply Hd; [apply in_or_app; auto|exact B].
Qed.

(* ---- processing a field establishes its good state and frames everything else ---- *)
Definition Qfield (f : field) : Prop :=
  forall avail st a, field_wf avail f -> field_simple f -> pairwise_disj (franges f a) ->
  inv (d_mem st) (d_iov st) -> validb (lens (d_mem st)) a avail = true ->
  exists st', d_field cfg_final f st a = Ok st' /\ dpost st st' /\ wgood_f (d_mem st') f a /\
              frameR (d_mem st) (d_mem st') (franges f a).
Definition Qfields (fs : fields) : Prop :=
  forall sz st base, fields_wf sz fs -> fields_simple fs -> pairwise_disj (fsranges fs base) ->
  inv (d_mem st) (d_iov st) -> validb (lens (d_mem st)) base sz = true ->
  exists st', d_fields cfg_final fs st base = Ok st' /\ dpost st st' /\ wgood_fs (d_mem st') fs base /\
              frameR (d_mem st) (d_mem st') (fsranges fs base).

Lemma d_buffer_ok3 st a avail : 16 <= avail -> inv (d_mem st) (d_iov st) -> validb (lens (d_mem st)) a avail = true ->
  exists st', d_buffer cfg_final st a = Ok st' /\ dpost st st' /\ slot_post (d_mem st') a /\
              frameR (d_mem st) (d_mem st') [(a, 16)].
Proof.
  intros Ha Hinv Hv. destruct (d_buffer_ok2 st a Hinv) as [st' [A [B [C D]]]].
  { apply (validb_sub' _ a avail); [eapply inv_wf; eauto|exact Hv|lia|lia]. }
  exists st'. split; [exact A|]. split; [exact B|]. split; [exact C|]. apply frame_frameR. exact D.
Qed.

Lemma q_all : (forall f, Qfield f) /\ (forall fs, Qfields fs).
Proof.
  apply field_fields_mut'; unfold Qfield, Qfields.
  - (* FFixed *) intros n avail st a Hw _ _ Hinv Hv. cbn [d_field field_wf wgood_f franges] in *.
    eexists. split; [reflexivity|]. split; [apply dpost_refl; auto|]. split; [|apply frameR_refl].
    apply (validb_sub' _ a avail); [eapply inv_wf; eauto|exact Hv|lia|lia].
  - intros avail st a Hw _ _ Hinv Hv. cbn [d_field field_wf wgood_f franges] in *. apply (d_buffer_ok3 st a avail); auto.
  - intros avail st a Hw _ _ Hinv Hv. cbn [d_field field_wf wgood_f franges] in *. apply (d_buffer_ok3 st a avail); auto.
  - intros n avail st a Hw _ _ Hinv Hv. cbn [d_field field_wf wgood_f franges] in *. apply (d_buffer_ok3 st a avail); auto.
  - intros avail st a Hw _ _ Hinv Hv. cbn [d_field field_wf wgood_f franges fix_nested_al cfg_final] in *. apply (d_buffer_ok3 st a avail); auto.
  - (* FArr, elements without fields to process *)
    intros esz efs _ avail st a [Hw [Hesz _]] Hs _ Hinv Hv. cbn [field_simple] in Hs. cbn [d_field wgood_f franges].
    destruct (d_buffer_ok3 st a avail Hw Hinv Hv) as [st1 [H1 [D1 [S1 F1]]]]. rewrite H1. cbn [bind].
    pose proof S1 as [p [n [Lp [Ln [Rn [Hp0 Hpn]]]]]]. rewrite Lp, Ln. cbn [bind].
    destruct (n / esz =? 0) eqn:Ec; [eauto 10|]. apply Z.eqb_neq in Ec.
    assert (Hn0 : n <> 0) by (intros ->; apply Ec; apply Z.div_0_l; lia).
    destruct (p =? 0) eqn:Ep; [apply Z.eqb_eq in Ep; specialize (Hp0 Ep); congruence|].
    rewrite Hs. eauto 10.
  - intros avail st a _ [].
  - intros avail st a _ [].
  - (* FNest *) intros fs IH avail st a Hw Hs Hd Hinv Hv. cbn [d_field field_wf field_simple wgood_f franges] in *. eapply IH; eauto.
  - (* FMap *) intros vsz vfs _ avail st a Hw _ _ Hinv Hv. cbn [d_field field_wf wgood_f franges] in *.
    destruct (d_buffer_ok3 st a avail ltac:(lia) Hinv Hv) as [st1 [H1 [[Hi1 Hx1] [S1 F1]]]]. rewrite H1. cbn [bind].
    destruct (d_buffer_ok3 st1 (a + 16) (avail - 16) ltac:(lia) Hi1) as [st2 [H2 [[Hi2 Hx2] [S2 F2]]]].
    { apply (validb_sub' _ a avail); [eapply inv_wf; eauto|eapply validb_ext; eauto|lia|lia]. }
    exists st2. split; [exact H2|]. split; [split; [exact Hi2|eapply ext_trans; eauto]|]. split.
    + split; [|exact S2]. eapply slot_post_frameR; eauto.
      intros r [<-|[]]. unfold disj. cbn [fst snd]. lia.
    + change [(a, 16); (a + 16, 16)] with ([(a, 16)] ++ [(a + 16, 16)]). eapply frameR_trans; eauto.
  - (* FNil *) intros sz st base _ _ _ Hinv _. cbn. eexists. split; [reflexivity|]. split; [apply dpost_refl; auto|]. split; [exact I|apply frameR_refl].
  - (* FCons *) intros off f IHf r IHr sz st base [Ho [Hwf Hwr]] [Hsf Hsr] Hd Hinv Hv.
    cbn [fsranges] in Hd. destruct (pairwise_disj_app _ _ Hd) as [Hdf [Hdr Hdfr]].
    rewrite d_fields_cons.
    destruct (IHf (sz - off) st (base + off) Hwf Hsf Hdf Hinv) as [st1 [H1 [[Hi1 Hx1] [G1 F1]]]].
    { apply (validb_sub' _ base sz); [eapply inv_wf; eauto|exact Hv|lia|lia]. }
    rewrite H1. cbn [bind].
    destruct (IHr sz st1 base Hwr Hsr Hdr Hi1 ltac:(eapply validb_ext; eauto)) as [st2 [H2 [[Hi2 Hx2] [G2 F2]]]].
    exists st2. split; [exact H2|]. split; [split; [exact Hi2|eapply ext_trans; eauto]|].
    cbn [wgood_fs fsranges]. split; [split; [|exact G2]|eapply frameR_trans; eauto].
    apply (proj1 (wgood_stable _ _ _ Hx2 F2)); [exact G1|]. intros r1 r2 A B. apply Hdfr; auto.
Qed.

(* ---- the two passes over the top-level fields ---- *)
Definition sel (aligned : bool) (f : field) : bool :=
  match f with FABuf | FAIov => aligned | _ => negb aligned end.
Fixpoint pranges (aligned : bool) (fs : fields) (base : Z) : list (Z * Z) :=
  match fs with
  | FNil => []
  | FCons off f r => (if sel aligned f then franges f (base + off) else []) ++ pranges aligned r base
  end.
Fixpoint wgood_sel (aligned : bool) (m : mem) (fs : fields) (base : Z) : Prop :=
  match fs with
  | FNil => True
  | FCons off f r => (if sel aligned f then wgood_f m f (base + off) else True) /\ wgood_sel aligned m r base
  end.

Lemma pranges_sub aligned fs base r : In r (pranges aligned fs base) -> In r (fsranges fs base).
Proof.
  induction fs as [|off f rest IH]; cbn [pranges fsranges]; [auto|]. intros H. apply in_app_or in H. apply in_or_app.
  destruct H as [H|H]; [|right; auto]. destruct (sel aligned f); [left; exact H|destruct H].
Qed.

Lemma d_pass_cons c aligned off f r st base :
  d_pass c aligned (FCons off f r) st base =
  (st1 <- (match f with
           | FABuf => if aligned then d_buffer c st (base + off) else Ok st
           | FAIov => if aligned then d_iovarr st (base + off) else Ok st
           | _ => if aligned then Ok st else d_field c f st (base + off)
           end) ;; d_pass c aligned r st1 base).
Proof. reflexivity. Qed.

Lemma d_pass_good aligned : forall fs sz st base, fields_wf sz fs -> fields_simple fs -> pairwise_disj (fsranges fs base) ->
  inv (d_mem st) (d_iov st) -> validb (lens (d_mem st)) base sz = true ->
  exists st', d_pass cfg_final aligned fs st base = Ok st' /\ dpost st st' /\ wgood_sel aligned (d_mem st') fs base /\
              frameR (d_mem st) (d_mem st') (pranges aligned fs base).
Proof.
  induction fs as [|off f r IH]; intros sz st base Hw Hs Hd Hinv Hv.
  - cbn. eexists. split; [reflexivity|]. split; [apply dpost_refl; auto|]. split; [exact I|apply frameR_refl].
  - destruct Hw as [Ho [Hwf Hwr]]. destruct Hs as [Hsf Hsr]. cbn [fsranges] in Hd.
    destruct (pairwise_disj_app _ _ Hd) as [Hdf [Hdr Hdfr]].
    assert (Hva : validb (lens (d_mem st)) (base + off) (sz - off) = true).
    { apply (validb_sub' _ base sz); [eapply inv_wf; eauto|exact Hv|lia|lia]. }
    rewrite d_pass_cons.
    assert (Hstep : exists st1,
      match f with
      | FABuf => if aligned then d_buffer cfg_final st (base + off) else Ok st
      | FAIov => if aligned then d_iovarr st (base + off) else Ok st
      | _ => if aligned then Ok st else d_field cfg_final f st (base + off)
      end = Ok st1 /\ dpost st st1 /\ (if sel aligned f then wgood_f (d_mem st1) f (base + off) else True) /\
      frameR (d_mem st) (d_mem st1) (if sel aligned f then franges f (base + off) else [])).
    { destruct (proj1 q_all f (sz - off) st (base + off) Hwf Hsf Hdf Hinv Hva) as [stf [Hf [Df [Gf Ff]]]].
      destruct f; cbn [sel]; try (destruct aligned; cbn [negb];
        [eexists; split; [reflexivity|]; split; [apply dpost_refl; auto|]; split; [exact I|apply frameR_refl]
        |exists stf; split; [exact Hf|]; split; [exact Df|]; split; [exact Gf|exact Ff]]).
      - (* FABuf *) destruct aligned.
        + cbn [field_wf] in Hwf. cbn [wgood_f franges]. apply (d_buffer_ok3 st (base + off) (sz - off)); auto.
        + eexists. split; [reflexivity|]. split; [apply dpost_refl; auto|]. split; [exact I|apply frameR_refl].
      - (* FAIov *) destruct Hsf. }
    destruct Hstep as [st1 [H1 [[Hi1 Hx1] [G1 F1]]]]. rewrite H1. cbn [bind].
    destruct (IH sz st1 base Hwr Hsr Hdr Hi1 ltac:(eapply validb_ext; eauto)) as [st2 [H2 [[Hi2 Hx2] [G2 F2]]]].
    exists st2. split; [exact H2|]. split; [split; [exact Hi2|eapply ext_trans; eauto]|].
    cbn [wgood_sel pranges]. split; [split; [|exact G2]|eapply frameR_trans; eauto].
    destruct (sel aligned f); [|exact I].
    apply (proj1 (wgood_stable _ _ _ Hx2 F2)); [exact G1|]. intros r1 r2 A B. apply Hdfr; [exact A|]. eapply pranges_sub; eauto.
Qed.

Lemma pranges_disj fs base : pairwise_disj (fsranges fs base) ->
  forall r1 r2, In r1 (pranges true fs base) -> In r2 (pranges false fs base) -> disj r1 r2.
Proof.
  induction fs as [|off f r IH]; cbn [pranges fsranges]; [intros _ r1 r2 []|].
  intros Hd r1 r2 H1 H2. destruct (pairwise_disj_app _ _ Hd) as [_ [Hdr Hdfr]].
  apply in_app_or in H1. apply in_app_or in H2.
  destruct H1 as [H1|H1], H2 as [H2|H2].
  - destruct f; cbn [sel negb] in H1, H2; try destruct H1; try destruct H2.
  - destruct (sel true f); [|destruct H1]. apply Hdfr; [exact H1|eapply pranges_sub; eauto].
  - destruct (sel false f); [|destruct H2]. apply disj_sym. apply Hdfr; [exact H2|eapply pranges_sub; eauto].
  - apply IH; auto.
Qed.

Lemma wgood_sel_stable aligned m m' R : ext (lens m) (lens m') -> frameR m m' R ->
  forall fs base, wgood_sel aligned m fs base ->
  (forall r1 r2, In r1 (pranges aligned fs base) -> In r2 R -> disj r1 r2) -> wgood_sel aligned m' fs base.
Proof.
  intros Hx F. induction fs as [|off f r IH]; intros base H Hd; [exact I|].
  cbn [wgood_sel pranges] in *. destruct H as [H1 H2]. split.
  - destruct (sel aligned f); [|exact I]. apply (proj1 (wgood_stable _ _ _ Hx F)); [exact H1|].
    intros r1 r2 A B. apply Hd; [apply in_or_app; auto|exact B].
  - apply IH; [exact H2|]. intros r1 r2 A B. apply Hd; [apply in_or_app; auto|exact B].
Qed.

Lemma wgood_sel_both m fs base : wgood_sel true m fs base -> wgood_sel false m fs base -> wgood_fs m fs base.
Proof.
  induction fs as [|off f r IH]; [auto|]. cbn [wgood_sel wgood_fs]. intros [A1 A2] [B1 B2]. split; [|auto].
  destruct f; cbn [sel negb] in A1, B1; auto.
Qed.

(* ---- walking a good message reads in range ---- *)
Lemma w_fields_cons c off f r m base :
  w_fields c (FCons off f r) m base = (it <- w_field c f m (base + off) ;; its <- w_fields c r m base ;; Ok (it :: its)).
Proof. reflexivity. Qed.

Lemma w_field_nest c fs m a : w_field c (FNest fs) m a = (its <- w_fields c fs m a ;; Ok (INest its)).
Proof. reflexivity. Qed.

Lemma slot_walk m a : Forall (fun L => L <= STRIDE) (lens m) -> slot_post m a ->
  exists p n bs, load64 m a = Ok p /\ load64 m (a + 8) = Ok n /\ load m p n = Ok bs /\ 0 <= n < W64 /\
                 (n <> 0 -> ptr_ok (lens m) p n).
Proof.
  intros Hwf [p [n [L1 [L2 [R [_ P]]]]]]. exists p, n.
  destruct (Z.eq_dec n 0) as [->|Hn].
  - exists []. split; [exact L1|]. split; [exact L2|]. split; [reflexivity|]. split; [exact R|]. intros H; congruence.
  - destruct (P Hn) as [A B]. destruct (load_valid _ _ _ A) as [bs Hb]. exists bs.
    split; [exact L1|]. split; [exact L2|]. split; [exact Hb|]. split; [exact R|]. intros _. exact (P Hn).
Qed.

Lemma walk_ok m : Forall (fun L => L <= STRIDE) (lens m) ->
  (forall f a, wgood_f m f a -> field_simple f -> exists it, w_field cfg_final f m a = Ok it) /\
  (forall fs base, wgood_fs m fs base -> fields_simple fs -> exists its, w_fields cfg_final fs m base = Ok its).
Proof.
  intros Hwf. apply field_fields_mut'.
  - intros n a H _. cbn [wgood_f w_field] in *. destruct (load_valid _ _ _ H) as [bs Hb]. rewrite Hb. cbn. eauto.
  - intros a H _. cbn [wgood_f w_field] in *. destruct (slot_walk m a Hwf H) as [p [n [bs [L1 [L2 [L3 _]]]]]].
    rewrite L1, L2. cbn [bind]. rewrite L3. cbn. eauto.
  - (* FStr: bytes, then sv() *)
    intros a H _. cbn [wgood_f w_field] in *. destruct (slot_walk m a Hwf H) as [p [n [bs [L1 [L2 [L3 [R P]]]]]]].
    rewrite L1, L2. cbn [bind]. rewrite L3. cbn [bind].
    unfold sv_of. cbn [fix_sv cfg_final]. destruct (n =? 0) eqn:E; cbn [andb].
    + cbn. eauto.
    + apply Z.eqb_neq in E. destruct (P E) as [A _]. rewrite wrap_small by lia.
      destruct (load_valid m p (n - 1)) as [sv Hsv]; [apply (validb_sub' _ p n); auto; lia|]. rewrite Hsv. cbn. eauto.
  - intros n a H _. cbn [wgood_f w_field] in *. destruct (slot_walk m a Hwf H) as [p [k [bs [L1 [L2 [L3 _]]]]]].
    rewrite L1, L2. cbn [bind]. rewrite L3. cbn. eauto.
  - intros a H _. cbn [wgood_f w_field] in *. destruct (slot_walk m a Hwf H) as [p [n [bs [L1 [L2 [L3 _]]]]]].
    rewrite L1, L2. cbn [bind]. rewrite L3. cbn. eauto.
  - intros esz efs _ a H Hs. cbn [wgood_f w_field field_simple] in *.
    destruct (slot_walk m a Hwf H) as [p [n [bs [L1 [L2 [L3 _]]]]]].
    rewrite L1, L2. cbn [bind]. rewrite L3. cbn [bind]. rewrite Hs. eauto.
  - intros a _ [].
  - intros a _ [].
  - intros fs IH a H Hs. cbn [wgood_f field_simple] in *. rewrite w_field_nest. destruct (IH a H Hs) as [its Hi]. rewrite Hi. cbn. eauto.
  - intros vsz vfs _ a [H1 H2] _. cbn [w_field].
    destruct (slot_walk m a Hwf H1) as [p [n [bs [L1 [L2 [L3 _]]]]]].
    destruct (slot_walk m (a + 16) Hwf H2) as [p2 [n2 [bs2 [M1 [M2 [M3 _]]]]]].
    replace (a + 16 + 8) with (a + 24) in M2 by lia.
    rewrite L1, L2. cbn [bind]. rewrite L3. cbn [bind]. rewrite M1, M2. cbn [bind]. rewrite M3. cbn. eauto.
  - intros base _ _. cbn. eauto.
  - intros off f IHf r IHr base [H1 H2] [S1 S2]. rewrite w_fields_cons.
    destruct (IHf _ H1 S1) as [it Hi]. destruct (IHr _ H2 S2) as [its His]. rewrite Hi. cbn [bind]. rewrite His. cbn. eauto.
Qed.

(* ---- the theorem ---- *)
Section H.
  Variable hstep : Z -> byte -> Z.

  Theorem deserialize_fields_in_bounds_partial sh m v :
    shape_wf sh -> fields_simple (sh_fields sh) -> (forall base, pairwise_disj (fsranges (sh_fields sh) base)) -> inv m v ->
    exists t st, deserialize hstep cfg_final sh m v = Ok (t, st) /\
      (t <> 0 -> ptr_ok (lens (d_mem st)) t (sh_size sh) /\
                 wgood_fs (d_mem st) (sh_fields sh) t /\
                 exists its, w_fields cfg_final (sh_fields sh) (d_mem st) t = Ok its).
  Proof.
    intros [Hsz [Hwf Hck]] Hsimple Hdisj Hinv. unfold deserialize.
    destruct (ebc_ok m v (sh_size sh) Hinv Hsz) as [t [m1 [v1 [He [Hi1 [Hx1 [_ [Hp _]]]]]]]].
    rewrite He. cbn [bind].
    destruct (t =? 0) eqn:Et.
    { eexists. eexists. split; [reflexivity|]. congruence. }
    apply Z.eqb_neq in Et. destruct Hp as [Hp|[P1 [P2 P3]]]; [congruence|].
    assert (Hval : exists okc m2, (if sh_checked sh then validate_checksum hstep m1 v1 t (sh_size sh) else Ok (true, m1)) = Ok (okc, m2)
                                  /\ inv m2 v1 /\ lens m2 = lens m1).
    { destruct (sh_checked sh) eqn:Ec.
      - destruct (validate_checksum_ok hstep m1 v1 t (sh_size sh) Hi1 (Hck eq_refl) P1) as [okc [m2 [A [B C]]]]. eauto.
      - eauto. }
    destruct Hval as [okc [m2 [Hv [Hi2 Hl2]]]]. rewrite Hv. cbn [bind].
    destruct okc; cbn [negb].
    2:{ eexists. eexists. split; [reflexivity|]. congruence. }
    destruct (d_pass_good true (sh_fields sh) (sh_size sh) (mkD m2 v1 false) t Hwf Hsimple (Hdisj t) Hi2
                ltac:(cbn [d_mem]; rewrite Hl2; exact P1)) as [st1 [H1 [[Hi3 Hx3] [G1 F1]]]].
    rewrite H1. cbn [bind]. cbn [d_mem] in Hx3, F1.
    assert (Hv3 : validb (lens (d_mem st1)) t (sh_size sh) = true) by (eapply validb_ext; [exact Hx3|rewrite Hl2; exact P1]).
    destruct (d_pass_good false (sh_fields sh) (sh_size sh) st1 t Hwf Hsimple (Hdisj t) Hi3 Hv3) as [st2 [H2 [[Hi4 Hx4] [G2 F2]]]].
    rewrite H2. cbn [bind].
    eexists. eexists. split; [reflexivity|].
    destruct (d_failed st2); [congruence|]. intros _.
    assert (Hv4 : validb (lens (d_mem st2)) t (sh_size sh) = true) by (eapply validb_ext; eauto).
    split; [split; [exact Hv4|auto]|].
    assert (G : wgood_fs (d_mem st2) (sh_fields sh) t).
    { apply wgood_sel_both; [|exact G2].
      apply (wgood_sel_stable true _ _ _ Hx4 F2); [exact G1|]. intros r1 r2 A B. eapply pranges_disj; eauto. }
    split; [exact G|]. apply (proj2 (walk_ok (d_mem st2) (inv_wf _ _ Hi4))); auto.
  Qed.
End H.

(* the hypotheses are met by ordinary layouts, e.g. CheckedMessage{int a; string s; buffer b} of the harness (T10) *)
Example t10_shape_ok :
  let sh := mkShape 40 true (FCons 4 (FFixed 4) (FCons 8 FStr (FCons 24 FBuf FNil))) in
  shape_wf sh /\ fields_simple (sh_fields sh) /\ (forall base, pairwise_disj (fsranges (sh_fields sh) base)).
Proof.
  cbn. split; [|split].
  - unfold shape_wf. cbn. repeat split; lia.
  - tauto.
  - intros base. cbn. repeat split; try tauto. intros y [<-|[]]. unfold disj. cbn. lia.
Qed.
