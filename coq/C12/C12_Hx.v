(* C12_Hx.v — the iovector extractions on HOSTILE input (no sender, lengths arbitrary): either the
   extraction fails (null pointer, state unchanged) or it satisfies the full post-condition xpost of
   C12_Sep.v (readable range, provenance: inside an input element or the fresh slot, separation kept).
   Also: `failed` is sticky, and the provenance predicate `orig` with its transport lemmas. *)
From Coq Require Import ZArith List Bool Lia.
From PV Require Import Base.U64 C12.C12_Model C12.C12_Mem C12.C12_MemC C12.C12_Iov C12.C12_Flat C12.C12_Deser C12.C12_Sep C12.C12_Wire C12.C12_RtD.
Import ListNotations.
Local Open Scope Z_scope.

Lemma flat_total m el : Forall (el_ok (lens m)) el -> exists w, flat m el = Ok w.
Proof.
  induction 1 as [|[b l] r He _ IH]; [eexists; reflexivity|]. destruct He as [_ [Hv _]]. cbn [fst snd] in Hv.
  destruct (load_valid _ _ _ Hv) as [d Hd]. destruct IH as [w Hw]. cbn [flat]. rewrite Hd, Hw. cbn. eauto.
Qed.

Definition xres (m : mem) (v : iovs) (n p : Z) (m' : mem) (v' : iovs) : Prop :=
  (p = 0 /\ m' = m /\ v' = v) \/ exists got rest, xpost m v n p m' v' got rest.

(* ---- extract_front_continuous ---- *)
Lemma efc_fast_x m v n b l rest : inv m v -> 0 < n -> psep (i_el v) -> i_el v = (b, l) :: rest -> n <= l ->
  exists got rest',
  xpost m v n b m (set_el v (if l - n =? 0 then rest else (wrap (b + n), l - n) :: rest)) got rest'.
Proof.
  intros Hinv Hn Hp Eel E. pose proof Hinv as [Hbm [Hwf [Hel [Hsum [Hnb [Hroom Hcnt]]]]]].
  destruct (flat_total m (i_el v) Hel) as [w Hf].
  destruct (efc_ok m v n Hinv Hn) as [p [m' [v' [He [Hi' [Hx' [Hc' [Hp' Hfr']]]]]]]].
  revert He. unfold efc. rewrite Eel in *.
  destruct (l <? n) eqn:E1; [apply Z.ltb_lt in E1; lia|].
  intros He. injection He as <- <- <-.
  inversion Hel as [|? ? He Hrest]; subst. destruct He as [Hl [Hv [Hb0 Hbw]]]. cbn [fst snd] in *.
  set (el' := if l - n =? 0 then rest else (wrap (b + n), l - n) :: rest) in *.
  assert (Hvn : validb (lens m) b n = true) by (apply (validb_sub' _ b l); auto; lia).
  destruct (load_valid _ _ _ Hvn) as [dd Hdd].
  assert (Hvc : vef_copy m ((b, l) :: rest) n = Ok (dd, el')).
  { cbn [vef_copy]. destruct (n <=? l) eqn:E2; [|apply Z.leb_gt in E2; lia]. rewrite Hdd. reflexivity. }
  destruct (vef_copy_flat m Hwf _ n w dd el' Hel Hf ltac:(rewrite sum_el_cons; cbn [snd]; pose proof (sum_el_nonneg _ _ Hrest); lia) Hvc) as [Hd Hfl].
  destruct (vef_copy_sub m _ n dd el' Hel ltac:(lia) Hvc Hp) as [Hps Hpv].
  exists (firstn (Z.to_nat n) w), (skipn (Z.to_nat n) w).
  unfold xpost, set_el. cbn [i_el i_nb i_cap]. rewrite !Eel.
  split; [exact Hi'|]. split; [exact Hx'|]. split; [reflexivity|]. split; [lia|].
  split; [destruct Hp' as [Hp'|Hp']; [destruct (validb_fits _ _ _ Hwf Hv ltac:(lia)); pose proof ARENA_pos; lia|exact Hp']|].
  split; [rewrite <- Hd; exact Hdd|]. split; [exact Hfl|]. split; [exact Hps|]. split; [exact Hpv|].
  split.
  { destruct Hp as [Hp1 Hp2]. intros e He. unfold el' in He. destruct (l - n =? 0) eqn:E0.
    - apply sep_sym. apply (within_sep _ (b, l)); [unfold within; cbn [fst snd]; lia|auto].
    - apply Z.eqb_neq in E0. destruct He as [<-|He].
      + rewrite wrap_small by lia. unfold sep. cbn [fst snd]. lia.
      + apply sep_sym. apply (within_sep _ (b, l)); [unfold within; cbn [fst snd]; lia|auto]. }
  split; [auto|]. left. exists (b, l). split; [left; reflexivity|unfold within; cbn [fst snd]; lia].
Qed.

Lemma efc_slow_h m v n : inv m v -> 0 < n -> psep (i_el v) ->
  exists p m' v', efc_slow m v n = Ok (p, m', v') /\ xres m v n p m' v'.
Proof.
  intros Hinv Hn Hp. pose proof Hinv as [Hbm [Hwf [Hel [Hsum [Hnb [Hroom Hcnt]]]]]].
  destruct (flat_total m (i_el v) Hel) as [w Hf]. pose proof (flat_len _ _ _ Hel Hf) as Hlw.
  destruct (Z_lt_le_dec (sum_el (i_el v)) n) as [Hs|Hs].
  { exists 0, m, v. split; [|left; auto]. unfold efc_slow. apply Z.ltb_lt in Hs. rewrite Hs. reflexivity. }
  destruct (Z_le_gt_dec (i_cap v) (i_nb v)) as [Hc|Hc].
  { exists 0, m, v. split; [|left; auto]. unfold efc_slow, do_malloc.
    destruct (sum_el (i_el v) <? n) eqn:E; [apply Z.ltb_lt in E; lia|].
    destruct (INT_MAX <? n) eqn:EH; [apply Z.ltb_lt in EH; lia|].
    apply Z.leb_le in Hc. rewrite Hc. reflexivity. }
  destruct (efc_slow_flat m v n w Hinv Hn Hf ltac:(lia) Hp ltac:(lia)) as [p [m' [v' [He X]]]].
  exists p, m', v'. split; [exact He|]. right. eauto.
Qed.

Lemma efc_h m v n : inv m v -> 0 < n -> psep (i_el v) ->
  exists p m' v', efc m v n = Ok (p, m', v') /\ xres m v n p m' v'.
Proof.
  intros Hinv Hn Hp. pose proof (efc_slow_h m v n Hinv Hn Hp) as Hslow.
  destruct (i_el v) as [|[b l] rest] eqn:Eel.
  { unfold efc. rewrite Eel. exact Hslow. }
  destruct (l <? n) eqn:E.
  { unfold efc. rewrite Eel, E. exact Hslow. }
  apply Z.ltb_ge in E.
  destruct (efc_fast_x m v n b l rest Hinv Hn ltac:(rewrite Eel; exact Hp) Eel E) as [got [rest' X]].
  exists b, m. eexists. split.
  { unfold efc. rewrite Eel. destruct (l <? n) eqn:E1; [apply Z.ltb_lt in E1; lia|]. reflexivity. }
  right. exists got, rest'. exact X.
Qed.

(* ---- extract_back_continuous ---- *)
Lemma ebc_fast_x m v n b l rrest : inv m v -> 0 < n -> psep (i_el v) -> rev (i_el v) = (b, l) :: rrest -> n <= l ->
  exists got rest',
  xpost m v n (wrap (b + (l - n))) m (set_el_back v (rev (if l - n =? 0 then rrest else (b, l - n) :: rrest))) got rest'.
Proof.
  intros Hinv Hn Hp Erev E. pose proof Hinv as [Hbm [Hwf [Hel [Hsum [Hnb [Hroom Hcnt]]]]]].
  destruct (flat_total m (i_el v) Hel) as [w Hf].
  assert (Helr : Forall (el_ok (lens m)) (rev (i_el v))) by (apply Forall_rev; exact Hel).
  assert (Hpr : psep (rev (i_el v))) by (apply psep_rev; exact Hp).
  assert (Hfr : flat m (rev (rev (i_el v))) = Ok w) by (rewrite rev_involutive; exact Hf).
  destruct (ebc_ok m v n Hinv Hn) as [p [m' [v' [He [Hi' [Hx' [Hc' [Hp' Hfr']]]]]]]].
  revert He. unfold ebc. rewrite Erev in *.
  destruct (l <? n) eqn:E1; [apply Z.ltb_lt in E1; lia|].
  intros He. injection He as <- <- <-.
  inversion Helr as [|? ? He Hrest]; subst. destruct He as [Hl [Hv [Hb0 Hbw]]]. cbn [fst snd] in *.
  set (rel' := if l - n =? 0 then rrest else (b, l - n) :: rrest) in *.
  assert (Hvn : validb (lens m) (b + l - n) n = true) by (apply (validb_sub' _ b l); auto; lia).
  destruct (load_valid _ _ _ Hvn) as [dd Hdd].
  assert (Hvc : veb_copy m ((b, l) :: rrest) n = Ok (dd, rel')).
  { cbn [veb_copy]. destruct (n <=? l) eqn:E2; [|apply Z.leb_gt in E2; lia]. rewrite wrap_small by lia. rewrite Hdd. reflexivity. }
  assert (Hsr : sum_el ((b, l) :: rrest) = sum_el (i_el v)) by (rewrite <- Erev; apply sum_el_rev).
  pose proof (flat_len _ _ _ Hel Hf) as Hlw.
  assert (Hbnd : 0 < n <= sum_el ((b, l) :: rrest)).
  { rewrite sum_el_cons. cbn [snd]. pose proof (sum_el_nonneg _ _ Hrest). lia. }
  destruct (veb_copy_flat m Hwf _ n w dd rel' Helr Hfr Hbnd Hvc) as [Hd Hfl].
  destruct (veb_copy_sub m _ n dd rel' Helr ltac:(lia) Hvc Hpr) as [Hps Hpv].
  exists (skipn (Z.to_nat (len w - n)) w), (firstn (Z.to_nat (len w - n)) w).
  replace (b + (l - n)) with (b + l - n) in * by lia. rewrite wrap_small in * by lia.
  unfold xpost, set_el_back. cbn [i_el i_nb i_cap].
  split; [exact Hi'|]. split; [exact Hx'|]. split; [reflexivity|]. split; [lia|].
  split.
  { destruct Hp' as [Hp'|Hp']; [|exact Hp'].
    destruct (validb_fits _ _ _ Hwf Hv ltac:(lia)). pose proof ARENA_pos. lia. }
  split; [rewrite <- Hd; exact Hdd|]. split; [exact Hfl|].
  split; [apply psep_rev; exact Hps|].
  split; [rewrite <- (rev_involutive (i_el v)), Erev; apply prov_rev; exact Hpv|].
  split.
  { destruct Hpr as [Hp1 Hp2]. intros e He. apply in_rev in He. unfold rel' in He. destruct (l - n =? 0) eqn:E0.
    - apply sep_sym. apply (within_sep _ (b, l)); [unfold within; cbn [fst snd]; lia|auto].
    - apply Z.eqb_neq in E0. destruct He as [<-|He].
      + unfold sep. cbn [fst snd]. lia.
      + apply sep_sym. apply (within_sep _ (b, l)); [unfold within; cbn [fst snd]; lia|auto]. }
  split; [auto|]. left. exists (b, l). split; [apply in_rev; rewrite Erev; left; reflexivity|unfold within; cbn [fst snd]; lia].
Qed.

Lemma ebc_h m v n : inv m v -> 0 < n -> psep (i_el v) ->
  exists p m' v', ebc m v n = Ok (p, m', v') /\ xres m v n p m' v'.
Proof.
  intros Hinv Hn Hp. pose proof Hinv as [Hbm [Hwf [Hel [Hsum [Hnb [Hroom Hcnt]]]]]].
  destruct (flat_total m (i_el v) Hel) as [w Hf]. pose proof (flat_len _ _ _ Hel Hf) as Hlw.
  assert (Helr : Forall (el_ok (lens m)) (rev (i_el v))) by (apply Forall_rev; exact Hel).
  destruct (Z_lt_le_dec (sum_el (i_el v)) n) as [Hs|Hs].
  { (* not enough input *)
    exists 0, m, v. split; [|left; auto]. unfold ebc.
    destruct (rev (i_el v)) as [|[b l] rrest] eqn:Erev.
    - apply Z.ltb_lt in Hs. rewrite Hs. reflexivity.
    - inversion Helr as [|? ? He Hrest]; subst. destruct He as [Hl _]. cbn [snd] in Hl.
      assert (Hs2 : sum_el (i_el v) = l + sum_el rrest) by (rewrite <- sum_el_rev, Erev, sum_el_cons; reflexivity).
      pose proof (sum_el_nonneg _ _ Hrest).
      destruct (l <? n) eqn:E; [|apply Z.ltb_ge in E; lia].
      apply Z.ltb_lt in Hs. rewrite Hs. reflexivity. }
  destruct (Z_le_gt_dec (i_cap v) (i_nb v)) as [Hc|Hc].
  2:{ destruct (ebc_flat m v n w Hinv Hn Hf ltac:(lia) Hp ltac:(lia)) as [p [m' [v' [He X]]]].
      exists p, m', v'. split; [exact He|]. right. eauto. }
  (* no free allocation slot: only the fast path can succeed *)
  assert (Hslow :
     (if sum_el (i_el v) <? n then Ok (0, m, v) else
      '(buf, m1, v1) <- do_malloc m v n ;;
      if buf =? 0 then Ok (0, m1, v1) else
      '(d, rel') <- (if n =? 0 then Ok ([], rev (i_el v1)) else veb_copy m1 (rev (i_el v1)) n) ;;
      m2 <- store m1 buf d ;;
      Ok (buf, m2, set_el_back v1 (rev rel'))) = Ok (0, m, v)).
  { destruct (sum_el (i_el v) <? n) eqn:E; [reflexivity|]. unfold do_malloc.
    destruct (INT_MAX <? n) eqn:EH; [apply Z.ltb_lt in EH; lia|].
    apply Z.leb_le in Hc. rewrite Hc. reflexivity. }
  destruct (rev (i_el v)) as [|[b l] rrest] eqn:Erev.
  { exists 0, m, v. split; [|left; auto]. unfold ebc. rewrite Erev. exact Hslow. }
  destruct (l <? n) eqn:E.
  { exists 0, m, v. split; [|left; auto]. unfold ebc. rewrite Erev, E. exact Hslow. }
  apply Z.ltb_ge in E.
  destruct (ebc_fast_x m v n b l rrest Hinv Hn Hp Erev E) as [got [rest' X]].
  do 3 eexists. split.
  { unfold ebc. rewrite Erev. destruct (l <? n) eqn:E1; [apply Z.ltb_lt in E1; lia|]. reflexivity. }
  right. exists got, rest'. exact X.
Qed.

(* ---- `failed` is sticky ---- *)
Lemma d_buffer_mono st a st' : d_buffer cfg_final st a = Ok st' -> d_failed st = true -> d_failed st' = true.
Proof.
  unfold d_buffer. cbn [fix_zero_ptr fix_fail_len cfg_final].
  destruct (load64 (d_mem st) (a + 8)) as [n|]; cbn [bind]; [|discriminate].
  destruct (n =? 0).
  - destruct (store64 (d_mem st) a 0); cbn [bind]; [|discriminate]. intros H. inversion H. auto.
  - destruct (efc (d_mem st) (d_iov st) n) as [[[p m1] v1]|]; cbn [bind]; [|discriminate].
    destruct (store64 m1 a p) as [m2|]; cbn [bind]; [|discriminate].
    destruct (p =? 0).
    + destruct (store64 m2 (a + 8) 0); cbn [bind]; [|discriminate]. intros H. inversion H. auto.
    + intros H. inversion H. auto.
Qed.

Lemma d_iovarr_mono st a st' : d_iovarr st a = Ok st' -> d_failed st = true -> d_failed st' = true.
Proof.
  unfold d_iovarr. destruct (load64 (d_mem st) (a + 16)) as [s|]; cbn [bind]; [|discriminate].
  destruct (extract_front_view (d_mem st) (d_iov st) s) as [[[[[ret ptr] cnt] m1] v1]|]; cbn [bind]; [|discriminate].
  destruct (wrap ret =? s); [|intros H; inversion H; auto].
  destruct (load m1 ptr (cnt * 16)); cbn [bind]; [|discriminate].
  destruct (store64 m1 a ptr) as [m2|]; cbn [bind]; [|discriminate].
  destruct (store64 m2 (a + 8) (cnt * 16)) as [m3|]; cbn [bind]; [|discriminate].
  destruct (store64 m3 (a + 16) (if cnt =? 0 then 0 else s)) as [m4|]; cbn [bind]; [|discriminate].
  intros H. inversion H. auto.
Qed.

Lemma d_loop_mono efs esz :
  (forall st base st', d_fields cfg_final efs st base = Ok st' -> d_failed st = true -> d_failed st' = true) ->
  forall k st e st', d_loop efs esz k st e = Ok st' -> d_failed st = true -> d_failed st' = true.
Proof.
  intros IH. induction k as [|k IHk]; intros st e st' H Hf; [inversion H; subst; exact Hf|].
  rewrite d_loop_S in H. destruct (d_fields cfg_final efs st e) as [st2|] eqn:E2; cbn [bind] in H; [|discriminate].
  eapply IHk; [exact H|]. eapply IH; eauto.
Qed.

Lemma d_mono :
  (forall f st a st', d_field cfg_final f st a = Ok st' -> d_failed st = true -> d_failed st' = true) /\
  (forall fs st base st', d_fields cfg_final fs st base = Ok st' -> d_failed st = true -> d_failed st' = true).
Proof.
  apply field_fields_mut.
  - intros n st a st' H. cbn in H. inversion H. auto.
  - intros st a st' H. cbn [d_field] in H. eapply d_buffer_mono; eauto.
  - intros st a st' H. cbn [d_field] in H. eapply d_buffer_mono; eauto.
  - intros n st a st' H. cbn [d_field] in H. eapply d_buffer_mono; eauto.
  - intros st a st' H. cbn [d_field fix_nested_al cfg_final] in H. eapply d_buffer_mono; eauto.
  - intros esz efs IH st a st' H Hf. rewrite d_field_arr in H.
    destruct (d_buffer cfg_final st a) as [st1|] eqn:E1; cbn [bind] in H; [|discriminate].
    pose proof (d_buffer_mono _ _ _ E1 Hf) as Hf1.
    destruct (load64 (d_mem st1) a) as [p|]; cbn [bind] in H; [|discriminate].
    destruct (load64 (d_mem st1) (a + 8)) as [n|]; cbn [bind] in H; [|discriminate].
    destruct (n / esz =? 0); [inversion H; subst; exact Hf1|].
    destruct (p =? 0); [discriminate|].
    destruct (fields_active efs); [|inversion H; subst; exact Hf1].
    eapply d_loop_mono; eauto.
  - intros st a st' H. cbn [d_field] in H. eapply d_iovarr_mono; eauto.
  - intros st a st' H. cbn [d_field fix_nested_al cfg_final] in H. eapply d_iovarr_mono; eauto.
  - intros fs IH st a st' H. cbn [d_field] in H. eapply IH; eauto.
  - intros vsz vfs _ st a st' H Hf. cbn [d_field] in H.
    destruct (d_buffer cfg_final st a) as [st1|] eqn:E1; cbn [bind] in H; [|discriminate].
    eapply d_buffer_mono; [exact H|]. eapply d_buffer_mono; eauto.
  - intros st base st' H. cbn in H. inversion H. auto.
  - intros off f IHf r IHr st base st' H Hf. rewrite d_fields_cons in H.
    destruct (d_field cfg_final f st (base + off)) as [st1|] eqn:E1; cbn [bind] in H; [|discriminate].
    eapply IHr; [exact H|]. eapply IHf; eauto.
Qed.

Lemma not_failed_before_fs fs st base st' : d_fields cfg_final fs st base = Ok st' -> d_failed st' = false -> d_failed st = false.
Proof. intros H Hf. destruct (d_failed st) eqn:E; [|reflexivity]. rewrite (proj2 d_mono fs st base st' H E) in Hf. discriminate. Qed.

(* ---- provenance: a claimed range lies inside an element of the ORIGINAL input vector E, or inside an
   allocation slot (a region with index >= n0, i.e. appended after the start) ---- *)
Definition orig (E : list (Z * Z)) (n0 : Z) (ls : list Z) (c : Z * Z) : Prop :=
  (exists e, In e E /\ within c e) \/
  (exists k L, n0 <= k /\ nth_z ls k = Some L /\ within c (region_base k, L)).

Lemma orig_ext E n0 ls ls' c : ext ls ls' -> orig E n0 ls c -> orig E n0 ls' c.
Proof.
  intros [x ->] [H|[k [L [Hk [Hn W]]]]]; [left; exact H|]. right. exists k, L. split; [exact Hk|]. split; [|exact W].
  apply nth_z_app_l. exact Hn.
Qed.

Lemma orig_prov E E' n0 n0' ls c : prov E' E -> n0 <= n0' -> orig E' n0' ls c -> orig E n0 ls c.
Proof.
  intros P Hn [[e [He W]]|[k [L [Hk [Hl W]]]]].
  - destruct (P e He) as [e0 [H0 W0]]. left. exists e0. split; [exact H0|eapply within_trans; eauto].
  - right. exists k, L. split; [lia|]. split; [exact Hl|exact W].
Qed.

Lemma ext_len ls ls' : ext ls ls' -> len ls <= len ls'.
Proof. intros [x ->]. rewrite len_app. pose proof (len_nonneg x). lia. Qed.

(* what xpost says about the provenance of the extracted range *)
Lemma xpost_orig m v n p m' v' got rest : xpost m v n p m' v' got rest -> 0 < n -> orig (i_el v) (len m) (lens m') (p, n).
Proof.
  intros [_ [_ [_ [_ [_ [_ [_ [_ [_ [_ [_ Pv]]]]]]]]]]] Hn.
  destruct Pv as [[e [He W]]|[-> [d [-> Hd]]]]; [left; eauto|].
  right. exists (len m), n. split; [lia|]. split; [|apply within_refl].
  rewrite lens_app. cbn [lens map]. rewrite Hd. rewrite <- (len_lens m). apply nth_z_app_last.
Qed.
