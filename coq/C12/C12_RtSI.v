(* C12_RtSI.v — route (d) of ser_roundtrip for ALL shapes: the serializer side including
   process_field(iovec_array&), which WRITES summed_size into the sender's struct while it builds the
   piece list.  Everything is evaluated in the memory AFTER serialization (that is what writev sends):
   for every memory mF that agrees with the serializer's final memory on the structs and on the dynamic
   ranges, the value is readable in mF, every summed_size in it is accurate (vsum), and the pieces pushed
   denote, in mF, exactly the wire string of that value.
   The sender's layout is given in a reference memory mI (the memory before serialization): the value
   is readable there (rd_f) and its dynamic ranges D (dn_f, C12_Dyn.v) are pairwise separated and
   separated from the static ranges — the message's buffers do not alias each other or the structs. *)
From Coq Require Import ZArith List Bool Lia.
From PV Require Import Base.U64 C12.C12_Model C12.C12_Mem C12.C12_MemC C12.C12_Iov C12.C12_Flat C12.C12_Deser C12.C12_Sep C12.C12_Wire C12.C12_RtD C12.C12_RtS C12.C12_Rt C12.C12_Hx C12.C12_View C12.C12_Hb C12.C12_Hb2 C12.C12_RtI C12.C12_Dyn.
Import ListNotations.
Local Open Scope Z_scope.

Definition SSpost (st st' : sst) (S D : list (Z * Z)) : Prop :=
  lens (s_mem st') = lens (s_mem st) /\ mem_bytes (s_mem st') /\
  (forall x k, (forall r, In r S \/ In r D -> sep (x, k) r) -> load (s_mem st') x k = load (s_mem st) x k).

Lemma SSpost_same st st' S D : s_mem st' = s_mem st -> mem_bytes (s_mem st) -> SSpost st st' S D.
Proof. intros E Hb. unfold SSpost. rewrite E. auto. Qed.

Lemma SSpost_trans st st1 st2 S1 S2 D1 D2 : SSpost st st1 S1 D1 -> SSpost st1 st2 S2 D2 -> SSpost st st2 (S1 ++ S2) (D1 ++ D2).
Proof.
  intros [L1 [B1 F1]] [L2 [B2 F2]]. split; [congruence|]. split; [exact B2|].
  intros x k Hs. rewrite F2, F1; [reflexivity| |].
  - intros r [Hr|Hr]; apply Hs; [left|right]; apply in_or_app; left; exact Hr.
  - intros r [Hr|Hr]; apply Hs; [left|right]; apply in_or_app; right; exact Hr.
Qed.

Lemma load_lens m m' a n bs : load m a n = Ok bs -> lens m' = lens m -> exists bs', load m' a n = Ok bs' /\ len bs' = len bs.
Proof.
  intros H Hl. pose proof (load_valid_inv _ _ _ _ H) as Hv. rewrite <- Hl in Hv. destruct (load_valid _ _ _ Hv) as [bs' Hb].
  exists bs'. split; [exact Hb|]. rewrite (load_len _ _ _ _ Hb), (load_len _ _ _ _ H). reflexivity.
Qed.

Lemma s_push_mem st p n : s_mem (s_push st p n) = s_mem st.
Proof. unfold s_push. destruct (0 <? i_cap (s_iov st) - i_end (s_iov st)); [destruct (0 <? n)|]; reflexivity. Qed.

Lemma s_push_flat2 mF st p n bs w0 : s_full (s_push st p n) = false -> load mF p n = Ok bs ->
  flat mF (i_el (s_iov st)) = Ok w0 -> flat mF (i_el (s_iov (s_push st p n))) = Ok (w0 ++ bs).
Proof.
  unfold s_push. intros Hf Lb Fl. destruct (0 <? i_cap (s_iov st) - i_end (s_iov st)); [|discriminate].
  destruct (0 <? n) eqn:En; cbn [s_mem s_iov i_el].
  - rewrite flat_snoc, Fl. cbn [bind]. rewrite Lb. reflexivity.
  - apply Z.ltb_ge in En. rewrite load_nonpos in Lb by lia. inversion Lb. rewrite app_nil_r. exact Fl.
Qed.

Lemma s_push_full st p n : s_full (s_push st p n) = false -> s_full st = false.
Proof. intros H. destruct (s_full st) eqn:E; [|reflexivity]. rewrite (s_push_mono _ _ _ E) in H. discriminate. Qed.

(* one process_field(buffer&): the slot is read in the run's memory, the bytes in mF *)
Lemma ss_buffer st a st' mI p n bs :
  s_buffer st a = Ok st' -> load64 mI a = Ok p -> load64 mI (a + 8) = Ok n -> load mI p n = Ok bs ->
  agree mI (s_mem st) (a, 16) ->
  s_mem st' = s_mem st /\ (s_full st' = false -> s_full st = false /\
    forall mF w0, lens mF = lens mI -> agree (s_mem st) mF (a, 16) -> flat mF (i_el (s_iov st)) = Ok w0 ->
      exists bs', load64 mF a = Ok p /\ load64 mF (a + 8) = Ok n /\ load mF p n = Ok bs' /\ len bs' = len bs /\
        flat mF (i_el (s_iov st')) = Ok (w0 ++ bs')).
Proof.
  intros H L1 L2 L3 A. unfold s_buffer in H.
  rewrite (agree_load64 mI (s_mem st) _ a A), L1 in H by (unfold within; cbn; lia). cbn [bind] in H.
  rewrite (agree_load64 mI (s_mem st) _ (a + 8) A), L2 in H by (unfold within; cbn; lia). cbn [bind] in H.
  inversion H. subst st'. split; [apply s_push_mem|]. intros Hf. split; [eapply s_push_full; eauto|].
  intros mF w0 Hl AF Fl. destruct (load_lens _ mF _ _ _ L3 Hl) as [bs' [Hb Hlen]]. exists bs'.
  split; [rewrite (agree_load64 (s_mem st) mF _ a AF), (agree_load64 mI (s_mem st) _ a A) by (unfold within; cbn; lia); exact L1|].
  split; [rewrite (agree_load64 (s_mem st) mF _ (a + 8) AF), (agree_load64 mI (s_mem st) _ (a + 8) A) by (unfold within; cbn; lia); exact L2|].
  split; [exact Hb|]. split; [exact Hlen|]. apply s_push_flat2; auto.
Qed.

(* ---- the iovec loop of process_field(iovec_array&) ---- *)
Lemma rd_iovecs_lens mI mF : lens mF = lens mI -> forall k p bs Fp, rd_iovecs mI p k = Ok (bs, Fp) ->
  agree mI mF (p, 16 * Z.of_nat k) -> exists bs', rd_iovecs mF p k = Ok (bs', Fp) /\ len bs' = len bs.
Proof.
  intros Hl. induction k as [|k IH]; intros p bs Fp H A; cbn [rd_iovecs] in *.
  - inversion H. exists []. auto.
  - rewrite Nat2Z.inj_succ in A.
    rewrite (agree_load64 mI mF _ p A) by (unfold within; cbn [fst snd]; lia).
    rewrite (agree_load64 mI mF _ (p + 8) A) by (unfold within; cbn [fst snd]; lia).
    destruct (load64 mI p) as [b|]; cbn [bind] in *; [|discriminate].
    destruct (load64 mI (p + 8)) as [n|]; cbn [bind] in *; [|discriminate].
    destruct (load mI b n) as [d|] eqn:Ed; cbn [bind] in H; [|discriminate].
    destruct (rd_iovecs mI (p + 16) k) as [[bs2 F2]|] eqn:E2; cbn [bind] in H; [|discriminate].
    inversion H. subst bs Fp.
    destruct (load_lens _ mF _ _ _ Ed Hl) as [d' [Hd' Hld]]. rewrite Hd'. cbn [bind].
    destruct (IH _ _ _ E2) as [bs2' [H2' Hl2]]; [eapply agree_within; [exact A|]; unfold within; cbn [fst snd]; lia|].
    rewrite H2'. cbn [bind]. exists (d' ++ bs2'). split; [reflexivity|]. rewrite !len_app. lia.
Qed.

Lemma ss_iov_loop : forall k st p acc st' total, s_iov_loop st p k acc = Ok (st', total) ->
  s_mem st' = s_mem st /\ (s_full st' = false -> s_full st = false /\
   forall mF bs Fp w0, rd_iovecs mF p k = Ok (bs, Fp) -> agree (s_mem st) mF (p, 16 * Z.of_nat k) -> mem_bytes (s_mem st) ->
     0 <= acc -> acc + len bs < W64 -> flat mF (i_el (s_iov st)) = Ok w0 ->
     total = acc + len bs /\ flat mF (i_el (s_iov st')) = Ok (w0 ++ bs)).
Proof.
  induction k as [|k IH]; intros st p acc st' total H; cbn [s_iov_loop] in H.
  - inversion H. subst st' total. split; [reflexivity|]. intros Hf. split; [exact Hf|].
    intros mF bs Fp w0 Hr _ _ _ _ Fl. cbn in Hr. inversion Hr. rewrite len_nil, app_nil_r. split; [lia|exact Fl].
  - destruct (load64 (s_mem st) p) as [b|] eqn:Lb; cbn [bind] in H; [|discriminate].
    destruct (load64 (s_mem st) (p + 8)) as [n|] eqn:Ln; cbn [bind] in H; [|discriminate].
    destruct (IH _ _ _ _ _ H) as [Hm Hrest]. rewrite s_push_mem in Hm. split; [exact Hm|].
    intros Hf. destruct (Hrest Hf) as [Hf1 Hmf]. split; [eapply s_push_full; eauto|].
    intros mF bs Fp w0 Hr A Hbm Hacc Hbound Fl. rewrite Nat2Z.inj_succ in A. cbn [rd_iovecs] in Hr.
    rewrite (agree_load64 (s_mem st) mF _ p A), Lb in Hr by (unfold within; cbn [fst snd]; lia). cbn [bind] in Hr.
    rewrite (agree_load64 (s_mem st) mF _ (p + 8) A), Ln in Hr by (unfold within; cbn [fst snd]; lia). cbn [bind] in Hr.
    destruct (load mF b n) as [d|] eqn:Ed; cbn [bind] in Hr; [|discriminate].
    destruct (rd_iovecs mF (p + 16) k) as [[bs2 F2]|] eqn:E2; cbn [bind] in Hr; [|discriminate].
    inversion Hr. subst bs Fp.
    pose proof (load64_range _ _ _ Hbm Ln) as Rn. pose proof (load_len _ _ _ _ Ed) as Hld. rewrite Z.max_r in Hld by lia.
    rewrite len_app in Hbound. pose proof (len_nonneg bs2) as Hb2.
    destruct (Hmf mF bs2 F2 (w0 ++ d) E2) as [Ht Hfl].
    + rewrite s_push_mem. eapply agree_within; [exact A|]. unfold within. cbn [fst snd]. lia.
    + rewrite s_push_mem. exact Hbm.
    + rewrite wrap_small by lia. lia.
    + rewrite wrap_small by lia. lia.
    + apply s_push_flat2; auto.
    + rewrite wrap_small in Ht by lia. split; [rewrite len_app; lia|]. rewrite Hfl, app_assoc. reflexivity.
Qed.

Definition FinF (f : field) (st st' : sst) (mI : mem) (a : Z) (S D : list (Z * Z)) (w : list byte) (F : list (Z * Z)) : Prop :=
  s_full st' = false -> s_full st = false /\
  forall mF w0, lens mF = lens mI -> (forall r, In r S \/ In r D -> agree (s_mem st') mF r) ->
    flat mF (i_el (s_iov st)) = Ok w0 ->
    exists val' w' F', rd_f f mF a = Ok (val', w', F') /\ vsum val' /\ len w' = len w /\ len F' = len F /\ fpok F' S D /\
      flat mF (i_el (s_iov st')) = Ok (w0 ++ w').

Definition FinFs (fs : fields) (st st' : sst) (mI : mem) (b : Z) (S D : list (Z * Z)) (w : list byte) (F : list (Z * Z)) : Prop :=
  s_full st' = false -> s_full st = false /\
  forall mF w0, lens mF = lens mI -> (forall r, In r S \/ In r D -> agree (s_mem st') mF r) ->
    flat mF (i_el (s_iov st)) = Ok w0 ->
    exists vals' w' F', rd_fs fs mF b = Ok (vals', w', F') /\ vsums vals' /\ len w' = len w /\ len F' = len F /\ fpok F' S D /\
      flat mF (i_el (s_iov st')) = Ok (w0 ++ w').

Definition SSf (f : field) : Prop := forall avail st a st' mI val w F D,
  field_wf avail f -> lay_f f -> psep (aranges_f f a) ->
  s_field cfg_final f st a = Ok st' ->
  mem_bytes (s_mem st) -> lens (s_mem st) = lens mI -> mem_bytes mI ->
  rd_f f mI a = Ok (val, w, F) -> dn_f f mI a = Ok D ->
  (forall r, In r (aranges_f f a) \/ In r D -> agree mI (s_mem st) r) ->
  psep D -> (forall s d, In s (aranges_f f a) -> In d D -> sep s d) -> len w < W64 ->
  SSpost st st' (aranges_f f a) D /\ FinF f st st' mI a (aranges_f f a) D w F.

Definition SSfs (fs : fields) : Prop := forall sz st b st' mI vals w F D,
  fields_wf sz fs -> lay_fs fs -> psep (aranges_fs fs b) ->
  s_fields cfg_final fs st b = Ok st' ->
  mem_bytes (s_mem st) -> lens (s_mem st) = lens mI -> mem_bytes mI ->
  rd_fs fs mI b = Ok (vals, w, F) -> dn_fs fs mI b = Ok D ->
  (forall r, In r (aranges_fs fs b) \/ In r D -> agree mI (s_mem st) r) ->
  psep D -> (forall s d, In s (aranges_fs fs b) -> In d D -> sep s d) -> len w < W64 ->
  SSpost st st' (aranges_fs fs b) D /\ FinFs fs st st' mI b (aranges_fs fs b) D w F.

Lemma fpok_buf a p n : fpok [(a, 16); (p, n)] [(a, 16)] [(p, n)].
Proof.
  intros r [<-|[<-|[]]]; [right; left; exists (a, 16); split; [left; reflexivity|apply within_refl]|].
  right. right. exists (p, n). split; [left; reflexivity|apply within_refl].
Qed.

(* buffer-like fields *)
Lemma ss_leaf f :
  (forall st a, s_field cfg_final f st a = s_buffer st a) ->
  (forall m a, rd_f f m a = rd_f FBuf m a) -> (forall m a, dn_f f m a = dn_f FBuf m a) ->
  (forall a, aranges_f f a = [(a, 16)]) -> SSf f.
Proof.
  intros Hd Hr Hn Ha avail st a st' mI val w F D _ _ _ Hrun Hbm Hl HbI Hrd Hdn A _ _ _.
  rewrite Hd in Hrun. rewrite Hr in Hrd. rewrite Hn in Hdn. rewrite Ha in *. cbn [rd_f dn_f] in Hrd, Hdn.
  destruct (load64 mI a) as [p|] eqn:L1; cbn [bind] in Hrd, Hdn; [|discriminate].
  destruct (load64 mI (a + 8)) as [n|] eqn:L2; cbn [bind] in Hrd, Hdn; [|discriminate].
  destruct (load mI p n) as [bs|] eqn:L3; cbn [bind] in Hrd; [|discriminate]. inversion Hrd. inversion Hdn. subst val w F D.
  destruct (ss_buffer st a st' mI p n bs Hrun L1 L2 L3 ltac:(apply A; left; left; reflexivity)) as [Hm Hfin].
  split; [apply SSpost_same; auto|]. intros Hf. destruct (Hfin Hf) as [Hf0 HmF]. split; [exact Hf0|].
  intros mF w0 HlF AF Fl.
  destruct (HmF mF w0 HlF) as [bs' [M1 [M2 [M3 [M4 M5]]]]]; [rewrite <- Hm; apply AF; left; left; reflexivity|exact Fl|].
  exists (VBuf bs'), bs', [(a, 16); (p, n)]. split; [rewrite Hr; cbn [rd_f]; rewrite M1; cbn [bind]; rewrite M2; cbn [bind]; rewrite M3; reflexivity|].
  split; [exact I|]. split; [exact M4|]. split; [reflexivity|]. split; [apply fpok_buf|exact M5].
Qed.

(* process_field(iovec_array&) *)
Lemma ss_iovarr st a st' mI val w F D :
  s_iovarr st a = Ok st' ->
  mem_bytes (s_mem st) -> lens (s_mem st) = lens mI -> mem_bytes mI ->
  rd_f FIov mI a = Ok (val, w, F) -> dn_f FIov mI a = Ok D ->
  (forall r, In r [(a, 24)] \/ In r D -> agree mI (s_mem st) r) ->
  (forall d, In d D -> sep (a, 24) d) -> len w < W64 ->
  SSpost st st' [(a, 24)] D /\ FinF FIov st st' mI a [(a, 24)] D w F.
Proof.
  destruct st as [m v fl]. cbn [s_mem s_iov s_full]. intros Hrun Hbm Hl HbI Hrd Hdn A Hsd Hw.
  cbn [rd_f dn_f] in Hrd, Hdn.
  destruct (load64 mI a) as [p|] eqn:L1; cbn [bind] in Hrd, Hdn; [|discriminate].
  destruct (load64 mI (a + 8)) as [n|] eqn:L2; cbn [bind] in Hrd, Hdn; [|discriminate].
  destruct (load64 mI (a + 16)) as [s|] eqn:L3; cbn [bind] in Hrd; [|discriminate].
  destruct (rd_iovecs mI p (Z.to_nat (n / 16))) as [[bs Fp]|] eqn:Er; cbn [bind] in Hrd; [|discriminate].
  rewrite (rd_dn_iovecs _ _ _ _ _ Er) in Hdn. cbn [bind] in Hdn. inversion Hrd. inversion Hdn. subst val w F D. clear Hrd Hdn.
  set (k := Z.to_nat (n / 16)) in *.
  pose proof (load64_range _ _ _ HbI L2) as Rn.
  assert (Hk16 : 16 * Z.of_nat k <= n).
  { unfold k. rewrite Z2Nat.id by (apply Z.div_pos; lia). pose proof (Z.mul_div_le n 16 ltac:(lia)). lia. }
  assert (A24 : agree mI m (a, 24)) by (apply A; left; left; reflexivity).
  unfold s_iovarr in Hrun. cbn [s_mem s_iov s_full] in Hrun.
  rewrite (agree_load64 mI m _ a A24), L1 in Hrun by (unfold within; cbn; lia). cbn [bind] in Hrun.
  rewrite (agree_load64 mI m _ (a + 8) A24), L2 in Hrun by (unfold within; cbn; lia). cbn [bind] in Hrun.
  destruct (store64 m (a + 16) 0) as [m0|] eqn:S0; cbn [bind] in Hrun; [|discriminate].
  fold k in Hrun.
  destruct (s_iov_loop (mkS m0 v fl) p k 0) as [[st1 total]|] eqn:EL; cbn [bind] in Hrun; [|discriminate].
  destruct (ss_iov_loop _ _ _ _ _ _ EL) as [Hm1 Hloop]. cbn [s_mem s_full s_iov] in Hm1, Hloop. rewrite Hm1 in Hrun.
  destruct (store64 m0 (a + 16) total) as [m1|] eqn:S1; cbn [bind] in Hrun; [|discriminate].
  inversion Hrun. subst st'. clear Hrun. cbn [s_mem s_iov s_full].
  unfold store64 in S0, S1.
  assert (H8 : forall x, len (le_enc 8 x) = 8) by (intros x; rewrite le_enc_len; reflexivity).
  assert (Hb0 : mem_bytes m0) by (apply (store_bytes_ok _ _ _ _ Hbm (le_enc_bytes_ok 8 0) S0)).
  assert (Hb1 : mem_bytes m1) by (apply (store_bytes_ok _ _ _ _ Hb0 (le_enc_bytes_ok 8 total) S1)).
  assert (Fr0 : forall x j, sep (x, j) (a + 16, 8) -> load m0 x j = load m x j).
  { intros x j Hs. apply (load_store_sep _ _ _ _ _ _ S0). rewrite H8. exact Hs. }
  assert (Fr1 : forall x j, sep (x, j) (a + 16, 8) -> load m1 x j = load m0 x j).
  { intros x j Hs. apply (load_store_sep _ _ _ _ _ _ S1). rewrite H8. exact Hs. }
  assert (Hsub : forall r, sep r (a, 24) -> sep r (a + 16, 8)).
  { intros r Hs. eapply sep_sub_r; [exact Hs|]. unfold within. cbn [fst snd]. lia. }
  split.
  { unfold SSpost. cbn [s_mem]. split; [rewrite (store_lens _ _ _ _ S1), (store_lens _ _ _ _ S0); reflexivity|]. split; [exact Hb1|].
    intros x j Hs. rewrite Fr1, Fr0; [reflexivity| |]; apply Hsub; apply Hs; left; left; reflexivity. }
  unfold FinF. cbn [s_mem s_iov s_full]. intros Hf. destruct (Hloop Hf) as [Hf0 HmF]. split; [exact Hf0|].
  intros mF w0 HlF AF Fl.
  assert (AF24 : agree m1 mF (a, 24)) by (apply AF; left; left; reflexivity).
  assert (Apn : agree mI m (p, n)) by (apply A; right; left; reflexivity).
  assert (Spn : sep (p, n) (a, 24)) by (apply sep_sym; apply Hsd; left; reflexivity).
  (* the entries array is the same in mI, m, m0, m1 and mF *)
  assert (AE : forall x j, within (x, j) (p, n) -> load mF x j = load mI x j /\ load m0 x j = load mI x j).
  { intros x j W. assert (Sx : sep (x, j) (a + 16, 8)) by (apply Hsub; eapply within_sep; [exact W|exact Spn]).
    split.
    - rewrite (AF (p, n) ltac:(right; left; reflexivity) x j W), (Fr1 x j Sx), (Fr0 x j Sx). apply Apn. exact W.
    - rewrite (Fr0 x j Sx). apply Apn. exact W. }
  destruct (rd_iovecs_lens mI mF HlF k p bs Fp Er) as [bs' [Er' Hlb]].
  { intros x j W. apply (proj1 (AE x j ltac:(eapply within_trans; [exact W|]; unfold within; cbn [fst snd]; lia))). }
  destruct (HmF mF bs' Fp w0 Er') as [Ht Hfl].
  { intros x j W. assert (W2 : within (x, j) (p, n)) by (eapply within_trans; [exact W|]; unfold within; cbn [fst snd]; lia).
    rewrite (proj1 (AE x j W2)), (proj2 (AE x j W2)). reflexivity. }
  { exact Hb0. }
  { lia. }
  { lia. }
  { exact Fl. }
  pose proof (len_nonneg bs') as Hbs'.
  exists (VIov total bs'), bs', ((a, 24) :: (p, n) :: Fp).
  split.
  { cbn [rd_f].
    assert (E0 : load64 mF a = Ok p).
    { rewrite (agree_load64 m1 mF _ a AF24) by (unfold within; cbn; lia). unfold load64.
      rewrite Fr1, Fr0 by (unfold sep; cbn [fst snd]; lia). fold (load64 m a). rewrite (agree_load64 mI m _ a A24) by (unfold within; cbn; lia). exact L1. }
    assert (E1 : load64 mF (a + 8) = Ok n).
    { rewrite (agree_load64 m1 mF _ (a + 8) AF24) by (unfold within; cbn; lia). unfold load64.
      rewrite Fr1, Fr0 by (unfold sep; cbn [fst snd]; lia). fold (load64 m (a + 8)). rewrite (agree_load64 mI m _ (a + 8) A24) by (unfold within; cbn; lia). exact L2. }
    assert (E2 : load64 mF (a + 16) = Ok total).
    { rewrite (agree_load64 m1 mF _ (a + 16) AF24) by (unfold within; cbn; lia).
      apply (load64_store64_same m0 (a + 16) total m1 S1). lia. }
    rewrite E0. cbn [bind]. rewrite E1. cbn [bind]. rewrite E2. cbn [bind]. fold k. rewrite Er'. reflexivity. }
  split; [cbn [vsum]; lia|]. split; [exact Hlb|]. split; [reflexivity|]. split; [|exact Hfl].
  intros r [<-|Hr]; [right; left; exists (a, 24); split; [left; reflexivity|apply within_refl]|].
  right. right. exists r. split; [exact Hr|apply within_refl].
Qed.


(* the element loop of an array of messages *)
Lemma ss_loop efs esz : SSfs efs -> 0 < esz -> fields_wf esz efs -> lay_fs efs -> (forall e, psep (aranges_fs efs e)) ->
  forall k st e st' mI vss we Fe De,
  s_loop efs esz k st e = Ok st' ->
  mem_bytes (s_mem st) -> lens (s_mem st) = lens mI -> mem_bytes mI ->
  rd_elems (rd_fs efs mI) k e esz = Ok (vss, we, Fe) -> dn_elems (dn_fs efs mI) k e esz = Ok De ->
  (forall r, In r [(e, Z.of_nat k * esz)] \/ In r De -> agree mI (s_mem st) r) ->
  psep De -> (forall d, In d De -> sep (e, Z.of_nat k * esz) d) -> len we < W64 ->
  SSpost st st' [(e, Z.of_nat k * esz)] De /\
  (s_full st' = false -> s_full st = false /\
   forall mF w0, lens mF = lens mI -> (forall r, In r [(e, Z.of_nat k * esz)] \/ In r De -> agree (s_mem st') mF r) ->
     flat mF (i_el (s_iov st)) = Ok w0 ->
     exists vss' we' Fe', rd_elems (rd_fs efs mF) k e esz = Ok (vss', we', Fe') /\ vsumss vss' /\ len we' = len we /\ len Fe' = len Fe /\
       fpok Fe' [(e, Z.of_nat k * esz)] De /\ flat mF (i_el (s_iov st')) = Ok (w0 ++ we')).
Proof.
  intros HP Hesz Hwf Hlay Hps. induction k as [|k IH]; intros st e st' mI vss we Fe De Hrun Hbm Hl HbI Hrd Hdn A HpD HsD Hw.
  - cbn in Hrun. inversion Hrun. subst st'. cbn in Hrd, Hdn. inversion Hrd. inversion Hdn. subst.
    split; [apply SSpost_same; auto|]. intros Hf. split; [exact Hf|]. intros mF w0 _ _ Fl.
    exists [], [], []. cbn. rewrite app_nil_r. repeat split; auto. intros r [].
  - assert (HS : Z.of_nat (S k) * esz = Z.of_nat k * esz + esz) by lia. rewrite HS in *. clear HS.
    set (K := Z.of_nat k) in *. assert (HK : 0 <= K) by (unfold K; lia). assert (HKe : 0 <= K * esz) by nia.
    rewrite s_loop_S in Hrun. destruct (s_fields cfg_final efs st e) as [st1|] eqn:E1; cbn [bind] in Hrun; [|discriminate].
    cbn [rd_elems dn_elems] in Hrd, Hdn.
    destruct (rd_fs efs mI e) as [[[v1 w1] F1]|] eqn:R1; cbn [bind] in Hrd; [|discriminate].
    destruct (rd_elems (rd_fs efs mI) k (e + esz) esz) as [[[vs w2] F2]|] eqn:R2; cbn [bind] in Hrd; [|discriminate].
    destruct (dn_fs efs mI e) as [D1|] eqn:N1; cbn [bind] in Hdn; [|discriminate].
    destruct (dn_elems (dn_fs efs mI) k (e + esz) esz) as [D2|] eqn:N2; cbn [bind] in Hdn; [|discriminate].
    inversion Hrd. inversion Hdn. subst vss we Fe De. clear Hrd Hdn.
    rewrite len_app in Hw. pose proof (len_nonneg w1). pose proof (len_nonneg w2).
    apply psep_app in HpD. destruct HpD as [Hp1 [Hp2 Hpx]].
    assert (HS1 : forall s, In s (aranges_fs efs e) -> within s (e, esz)) by (apply (proj2 aranges_within efs esz e Hwf)).
    assert (Hwhole : forall s, In s (aranges_fs efs e) -> within s (e, K * esz + esz)).
    { intros s Hs. eapply within_trans; [apply HS1; exact Hs|]. unfold within. cbn [fst snd]. lia. }
    assert (Aw : agree mI (s_mem st) (e, K * esz + esz)) by (apply A; left; left; reflexivity).
    destruct (HP esz st e st1 mI v1 w1 F1 D1 Hwf Hlay (Hps e) E1 Hbm Hl HbI R1 N1) as [SP1 Fin1].
    { intros r [Hr|Hr]; [eapply agree_within; [exact Aw|apply Hwhole; exact Hr]|apply A; right; apply in_or_app; left; exact Hr]. }
    { exact Hp1. }
    { intros s d Hs Hd. eapply within_sep; [apply Hwhole; exact Hs|]. apply HsD. apply in_or_app. left. exact Hd. }
    { lia. }
    pose proof SP1 as [Hl1 [Hb1 Fr1]].
    assert (Hsep2 : forall r, r = (e + esz, K * esz) \/ In r D2 -> forall q, In q (aranges_fs efs e) \/ In q D1 -> sep r q).
    { intros r [->|Hr] q [Hq|Hq].
      - apply sep_sym. eapply within_sep; [apply HS1; exact Hq|]. unfold sep. cbn [fst snd]. lia.
      - eapply within_sep; [|apply HsD; apply in_or_app; left; exact Hq]. unfold within. cbn [fst snd]. lia.
      - apply sep_sym. eapply within_sep; [apply Hwhole; exact Hq|]. apply HsD. apply in_or_app. right. exact Hr.
      - apply sep_sym. apply Hpx; auto. }
    destruct (IH st1 (e + esz) st' mI vs w2 F2 D2 Hrun Hb1 ltac:(congruence) HbI R2 N2) as [SP2 Fin2].
    { intros r Hr x j W.
      assert (Hr' : r = (e + esz, K * esz) \/ In r D2) by (destruct Hr as [[<-|[]]|Hr]; auto).
      rewrite Fr1.
      - destruct Hr as [[<-|[]]|Hr]; [apply Aw; eapply within_trans; [exact W|]; unfold within; cbn [fst snd]; lia|].
        apply (A r); [right; apply in_or_app; right; exact Hr|exact W].
      - intros q Hq. eapply within_sep; [exact W|]. apply Hsep2; auto. }
    { exact Hp2. }
    { intros d Hd. eapply within_sep; [|apply HsD; apply in_or_app; right; exact Hd]. unfold within. cbn [fst snd]. lia. }
    { lia. }
    pose proof SP2 as [Hl2 [Hb2 Fr2]].
    split.
    { split; [congruence|]. split; [exact Hb2|]. intros x j Hs. rewrite Fr2, Fr1; [reflexivity| |].
      - intros q [Hq|Hq]; [eapply sep_sub_r; [apply Hs; left; left; reflexivity|apply Hwhole; exact Hq]|apply Hs; right; apply in_or_app; left; exact Hq].
      - intros q [[<-|[]]|Hq]; [eapply sep_sub_r; [apply Hs; left; left; reflexivity|]; unfold within; cbn [fst snd]; lia|apply Hs; right; apply in_or_app; right; exact Hq]. }
    intros Hf. destruct (Fin2 Hf) as [Hf1 HmF2]. destruct (Fin1 Hf1) as [Hf0 HmF1]. split; [exact Hf0|].
    intros mF w0 HlF AF Fl.
    assert (AFw : agree (s_mem st') mF (e, K * esz + esz)) by (apply AF; left; left; reflexivity).
    destruct (HmF1 mF w0 HlF) as [v1' [w1' [F1' [Q1 [Q2 [Q3 [Q4 [Q6 Q5]]]]]]]]; [|exact Fl|].
    { intros r Hr x j W. rewrite <- Fr2.
      - destruct Hr as [Hr|Hr]; [apply AFw; eapply within_trans; [exact W|apply Hwhole; exact Hr]|apply (AF r); [right; apply in_or_app; left; exact Hr|exact W]].
      - intros q Hq. eapply within_sep; [exact W|]. apply sep_sym. apply Hsep2; [destruct Hq as [[<-|[]]|Hq]; auto|exact Hr]. }
    destruct (HmF2 mF (w0 ++ w1') HlF) as [vs' [w2' [F2' [P1 [P2 [P3 [P4 [P6 P5]]]]]]]]; [|exact Q5|].
    { intros r [[<-|[]]|Hr]; [eapply agree_within; [exact AFw|]; unfold within; cbn [fst snd]; lia|apply AF; right; apply in_or_app; right; exact Hr]. }
    exists (v1' :: vs'), (w1' ++ w2'), (F1' ++ F2'). split; [cbn [rd_elems]; rewrite Q1; cbn [bind]; rewrite P1; reflexivity|].
    split; [split; assumption|]. split; [rewrite !len_app; lia|]. split; [rewrite !len_app; lia|]. split; [|rewrite P5, app_assoc; reflexivity].
    intros r Hr. apply in_app_or in Hr. destruct Hr as [Hr|Hr].
    + destruct (Q6 r Hr) as [Hz|[[s [Hs W]]|[c [Hc W]]]]; [left; exact Hz| |right; right; exists c; split; [apply in_or_app; left; exact Hc|exact W]].
      right. left. exists (e, K * esz + esz). split; [left; reflexivity|]. eapply within_trans; [exact W|apply Hwhole; exact Hs].
    + destruct (P6 r Hr) as [Hz|[[s [[<-|[]] W]]|[c [Hc W]]]]; [left; exact Hz| |right; right; exists c; split; [apply in_or_app; right; exact Hc|exact W]].
      right. left. exists (e, K * esz + esz). split; [left; reflexivity|]. eapply within_trans; [exact W|]. unfold within. cbn [fst snd]. lia.
Qed.

Lemma ss_all : (forall f, SSf f) /\ (forall fs, SSfs fs).
Proof.
  apply field_fields_mut.
  - (* FFixed *) intros n avail st a st' mI val w F D Hwf _ _ Hrun Hbm Hl HbI Hrd Hdn A _ _ _.
    cbn [s_field] in Hrun. inversion Hrun. subst st'. cbn [rd_f dn_f aranges_f] in *.
    destruct (load mI a n) as [bs|] eqn:Lb; cbn [bind] in Hrd; [|discriminate]. inversion Hrd. inversion Hdn. subst.
    split; [apply SSpost_same; auto|]. intros Hf. split; [exact Hf|]. intros mF w0 HlF _ Fl.
    destruct (load_lens _ mF _ _ _ Lb HlF) as [bs' [Hb' _]]. exists (VFix bs'), [], [(a, n)]. cbn [rd_f vsum]. rewrite Hb'. cbn [bind]. rewrite app_nil_r. repeat split; auto.
    intros r [<-|[]]. right. left. exists (a, n). split; [left; reflexivity|apply within_refl].
  - (* FBuf *) apply ss_leaf; reflexivity.
  - (* FStr *) apply ss_leaf; reflexivity.
  - (* FFixBuf *) intros n. apply ss_leaf; reflexivity.
  - (* FABuf *) apply ss_leaf; reflexivity.
  - (* FArr *) intros esz efs IH avail st a st' mI val w F D [Hw16 [Hesz Hwfe]] [Hpse Hlaye] _ Hrun Hbm Hl HbI Hrd Hdn A HpD HsD Hw.
    cbn [aranges_f] in *. rewrite s_field_arr in Hrun. cbn [rd_f dn_f] in Hrd, Hdn.
    destruct (load64 mI a) as [p|] eqn:L1; cbn [bind] in Hrd, Hdn; [|discriminate].
    destruct (load64 mI (a + 8)) as [n|] eqn:L2; cbn [bind] in Hrd, Hdn; [|discriminate].
    destruct (load mI p n) as [bs|] eqn:L3; cbn [bind] in Hrd; [|discriminate].
    pose proof (load64_range _ _ _ HbI L2) as Rn.
    assert (A16 : agree mI (s_mem st) (a, 16)) by (apply A; left; left; reflexivity).
    destruct (s_buffer st a) as [st1|] eqn:E1; cbn [bind] in Hrun; [|discriminate].
    destruct (ss_buffer st a st1 mI p n bs E1 L1 L2 L3 A16) as [Hm1 Hfin1].
    destruct (fields_active efs) eqn:Ea.
    2:{ inversion Hrun. subst st1. inversion Hrd. inversion Hdn. subst val w F D.
        split; [apply SSpost_same; auto|]. intros Hf. destruct (Hfin1 Hf) as [Hf0 HmF]. split; [exact Hf0|].
        intros mF w0 HlF AF Fl.
        destruct (HmF mF w0 HlF) as [bs' [M1 [M2 [M3 [M4 M5]]]]]; [rewrite <- Hm1; apply AF; left; left; reflexivity|exact Fl|].
        exists (VArr n bs' []), bs', [(a, 16); (p, n)]. split; [cbn [rd_f]; rewrite M1; cbn [bind]; rewrite M2; cbn [bind]; rewrite M3; cbn [bind]; rewrite Ea; reflexivity|].
        split; [exact I|]. split; [exact M4|]. split; [reflexivity|]. split; [apply fpok_buf|exact M5]. }
    set (k := Z.to_nat (n / esz)) in *.
    destruct (rd_elems (rd_fs efs mI) k p esz) as [[[vs we] Fe]|] eqn:Re; cbn [bind] in Hrd; [|discriminate].
    destruct (dn_elems (dn_fs efs mI) k p esz) as [De|] eqn:Ne; cbn [bind] in Hdn; [|discriminate].
    inversion Hrd. inversion Hdn. subst val w F D. clear Hrd Hdn.
    rewrite len_app in Hw. pose proof (len_nonneg bs). pose proof (len_nonneg we).
    rewrite Hm1 in Hrun. rewrite (agree_load64 mI (s_mem st) _ a A16), L1 in Hrun by (unfold within; cbn; lia). cbn [bind] in Hrun.
    rewrite (agree_load64 mI (s_mem st) _ (a + 8) A16), L2 in Hrun by (unfold within; cbn; lia). cbn [bind] in Hrun. fold k in Hrun.
    assert (Hk : Z.of_nat k * esz <= n).
    { unfold k. rewrite Z2Nat.id by (apply Z.div_pos; lia). pose proof (Z.mul_div_le n esz Hesz). lia. }
    assert (Wp : within (p, Z.of_nat k * esz) (p, n)) by (unfold within; cbn [fst snd]; lia).
    destruct HpD as [HpD1 HpD2].
    assert (Apn : agree mI (s_mem st) (p, n)) by (apply A; right; left; reflexivity).
    destruct (ss_loop efs esz IH Hesz Hwfe Hlaye Hpse k st1 p st' mI vs we Fe De Hrun ltac:(rewrite Hm1; exact Hbm) ltac:(rewrite Hm1; exact Hl) HbI Re Ne)
      as [SP2 Fin2].
    { rewrite Hm1. intros r [[<-|[]]|Hr]; [eapply agree_within; [exact Apn|exact Wp]|apply A; right; right; exact Hr]. }
    { exact HpD2. }
    { intros d Hd. eapply within_sep; [exact Wp|]. apply HpD1. exact Hd. }
    { lia. }
    pose proof SP2 as [Hl2 [Hb2 Fr2]].
    split.
    { split; [rewrite Hl2, Hm1; reflexivity|]. split; [exact Hb2|]. intros x j Hs. rewrite Fr2, Hm1; [reflexivity|].
      intros q [[<-|[]]|Hq]; [eapply sep_sub_r; [apply Hs; right; left; reflexivity|exact Wp]|apply Hs; right; right; exact Hq]. }
    intros Hf. destruct (Fin2 Hf) as [Hf1 HmF2]. destruct (Hfin1 Hf1) as [Hf0 HmF1]. split; [exact Hf0|].
    intros mF w0 HlF AF Fl.
    assert (Sa : sep (a, 16) (p, n)) by (apply HsD; [left; reflexivity|left; reflexivity]).
    assert (AF16 : agree (s_mem st) mF (a, 16)).
    { intros x j W. rewrite (AF (a, 16) ltac:(left; left; reflexivity) x j W). rewrite Fr2, Hm1; [reflexivity|].
      intros q [[<-|[]]|Hq]; [eapply within_sep; [exact W|]; eapply sep_sub_r; [exact Sa|exact Wp]|].
      eapply within_sep; [exact W|]. apply HsD; [left; reflexivity|right; exact Hq]. }
    destruct (HmF1 mF w0 HlF AF16 Fl) as [bs' [M1 [M2 [M3 [M4 M5]]]]].
    destruct (HmF2 mF (w0 ++ bs') HlF) as [vs' [we' [Fe' [P1 [P2 [P3 [P4 [P6 P5]]]]]]]]; [|exact M5|].
    { intros r [[<-|[]]|Hr]; [eapply agree_within; [apply AF; right; left; reflexivity|exact Wp]|apply AF; right; right; exact Hr]. }
    exists (VArr n [] vs'), (bs' ++ we'), ((a, 16) :: (p, n) :: Fe').
    split; [cbn [rd_f]; rewrite M1; cbn [bind]; rewrite M2; cbn [bind]; rewrite M3; cbn [bind]; rewrite Ea; fold k; rewrite P1; reflexivity|].
    split; [rewrite vsum_arr; exact P2|]. split; [rewrite !len_app; lia|]. split; [rewrite !len_cons; lia|]. split; [|rewrite P5, app_assoc; reflexivity].
    intros r [<-|[<-|Hr]].
    + right. left. exists (a, 16). split; [left; reflexivity|apply within_refl].
    + right. right. exists (p, n). split; [left; reflexivity|apply within_refl].
    + destruct (P6 r Hr) as [Hz|[[s [[<-|[]] W]]|[c [Hc W]]]]; [left; exact Hz| |right; right; exists c; split; [right; exact Hc|exact W]].
      right. right. exists (p, n). split; [left; reflexivity|eapply within_trans; eauto].
  - (* FIov *) intros avail st a st' mI val w F D _ _ _ Hrun Hbm Hl HbI Hrd Hdn A _ HsD Hw. cbn [s_field aranges_f] in *.
    apply (ss_iovarr st a st' mI val w F D Hrun Hbm Hl HbI Hrd Hdn A); [|exact Hw]. intros d Hd. apply HsD; [left; reflexivity|exact Hd].
  - (* FAIov *) intros avail st a st' mI val w F D _ _ _ Hrun Hbm Hl HbI Hrd Hdn A _ HsD Hw. cbn [s_field aranges_f fix_nested_al cfg_final] in *.
    apply (ss_iovarr st a st' mI val w F D Hrun Hbm Hl HbI Hrd Hdn A); [|exact Hw]. intros d Hd. apply HsD; [left; reflexivity|exact Hd].
  - (* FNest *) intros fs IH avail st a st' mI val w F D Hwf Hlay Hps Hrun Hbm Hl HbI Hrd Hdn A HpD HsD Hw.
    cbn [field_wf lay_f aranges_f s_field rd_f dn_f] in *.
    destruct (rd_fs fs mI a) as [[[vs w1] F1]|] eqn:E; cbn [bind] in Hrd; [|discriminate]. inversion Hrd. subst val w F.
    destruct (IH avail st a st' mI vs w1 F1 D Hwf Hlay Hps Hrun Hbm Hl HbI E Hdn A HpD HsD Hw) as [SP Fin].
    split; [exact SP|]. intros Hf. destruct (Fin Hf) as [Hf0 HmF]. split; [exact Hf0|]. intros mF w0 HlF AF Fl.
    destruct (HmF mF w0 HlF AF Fl) as [vs' [w' [F' [P1 [P2 [P3 [P4 [P6 P5]]]]]]]].
    exists (VNest vs'), w', F'. split; [cbn [rd_f]; rewrite P1; reflexivity|]. split; [rewrite vsum_nest; exact P2|]. auto.
  - (* FMap *) intros vsz vfs _ avail st a st' mI val w F D _ _ _ Hrun Hbm Hl HbI Hrd Hdn A _ _ _.
    cbn [aranges_f s_field rd_f dn_f] in *.
    destruct (load64 mI a) as [ip|] eqn:L1; cbn [bind] in Hrd, Hdn; [|discriminate].
    destruct (load64 mI (a + 8)) as [inn|] eqn:L2; cbn [bind] in Hrd, Hdn; [|discriminate].
    destruct (load mI ip inn) as [ibs|] eqn:L3; cbn [bind] in Hrd; [|discriminate].
    destruct (load64 mI (a + 16)) as [bp|] eqn:L4; cbn [bind] in Hrd, Hdn; [|discriminate].
    destruct (load64 mI (a + 24)) as [bn|] eqn:L5; cbn [bind] in Hrd, Hdn; [|discriminate].
    destruct (load mI bp bn) as [bbs|] eqn:L6; cbn [bind] in Hrd; [|discriminate].
    inversion Hrd. inversion Hdn. subst val w F D. clear Hrd Hdn.
    destruct (s_buffer st a) as [st1|] eqn:E1; cbn [bind] in Hrun; [|discriminate].
    assert (A1 : agree mI (s_mem st) (a, 16)) by (apply A; left; left; reflexivity).
    assert (A2 : agree mI (s_mem st) (a + 16, 16)) by (apply A; left; right; left; reflexivity).
    destruct (ss_buffer st a st1 mI ip inn ibs E1 L1 L2 L3 A1) as [Hm1 Hfin1].
    replace (a + 24) with (a + 16 + 8) in L5 by lia.
    destruct (ss_buffer st1 (a + 16) st' mI bp bn bbs Hrun L4 L5 L6 ltac:(rewrite Hm1; exact A2)) as [Hm2 Hfin2].
    split; [apply SSpost_same; [congruence|exact Hbm]|].
    intros Hf. destruct (Hfin2 Hf) as [Hf1 HmF2]. destruct (Hfin1 Hf1) as [Hf0 HmF1]. split; [exact Hf0|].
    intros mF w0 HlF AF Fl.
    destruct (HmF1 mF w0 HlF) as [ibs' [M1 [M2 [M3 [M4 M5]]]]]; [rewrite <- Hm1, <- Hm2; apply AF; left; left; reflexivity|exact Fl|].
    destruct (HmF2 mF (w0 ++ ibs') HlF) as [bbs' [N1 [N2 [N3 [N4 N5]]]]]; [rewrite <- Hm2; apply AF; left; right; left; reflexivity|exact M5|].
    exists (VMap ibs' bbs'), (ibs' ++ bbs'), [(a, 16); (ip, inn); (a + 16, 16); (bp, bn)].
    split.
    { cbn [rd_f]. rewrite M1. cbn [bind]. rewrite M2. cbn [bind]. rewrite M3. cbn [bind]. rewrite N1. cbn [bind].
      replace (a + 24) with (a + 16 + 8) by lia. rewrite N2. cbn [bind]. rewrite N3. reflexivity. }
    split; [exact I|]. split; [rewrite !len_app; lia|]. split; [reflexivity|]. split; [|rewrite N5, app_assoc; reflexivity].
    intros r [<-|[<-|[<-|[<-|[]]]]].
    + right. left. exists (a, 16). split; [left; reflexivity|apply within_refl].
    + right. right. exists (ip, inn). split; [left; reflexivity|apply within_refl].
    + right. left. exists (a + 16, 16). split; [right; left; reflexivity|apply within_refl].
    + right. right. exists (bp, bn). split; [right; left; reflexivity|apply within_refl].
  - (* FNil *) intros sz st b st' mI vals w F D _ _ _ Hrun Hbm Hl HbI Hrd Hdn _ _ _ _.
    cbn in Hrun, Hrd, Hdn. inversion Hrun. inversion Hrd. inversion Hdn. subst.
    split; [apply SSpost_same; auto|]. intros Hf. split; [exact Hf|]. intros mF w0 _ _ Fl.
    exists [], [], []. cbn. rewrite app_nil_r. repeat split; auto. intros r [].
  - (* FCons *) intros off f IHf r IHr sz st b st' mI vals w F D [Ho [Hwf Hwr]] [Hlf Hlr] Hps Hrun Hbm Hl HbI Hrd Hdn A HpD HsD Hw.
    cbn [aranges_fs] in *. apply psep_app in Hps. destruct Hps as [Hpf [Hpr Hpx]].
    rewrite s_fields_cons in Hrun. destruct (s_field cfg_final f st (b + off)) as [st1|] eqn:E1; cbn [bind] in Hrun; [|discriminate].
    cbn [rd_fs dn_fs] in Hrd, Hdn.
    destruct (rd_f f mI (b + off)) as [[[v1 w1] F1]|] eqn:R1; cbn [bind] in Hrd; [|discriminate].
    destruct (rd_fs r mI b) as [[[vs w2] F2]|] eqn:R2; cbn [bind] in Hrd; [|discriminate].
    destruct (dn_f f mI (b + off)) as [D1|] eqn:N1; cbn [bind] in Hdn; [|discriminate].
    destruct (dn_fs r mI b) as [D2|] eqn:N2; cbn [bind] in Hdn; [|discriminate].
    inversion Hrd. inversion Hdn. subst vals w F D. clear Hrd Hdn.
    rewrite len_app in Hw. pose proof (len_nonneg w1). pose proof (len_nonneg w2).
    apply psep_app in HpD. destruct HpD as [Hp1 [Hp2 Hpdx]].
    destruct (IHf (sz - off) st (b + off) st1 mI v1 w1 F1 D1 Hwf Hlf Hpf E1 Hbm Hl HbI R1 N1) as [SP1 Fin1].
    { intros x [Hx|Hx]; apply A; [left|right]; apply in_or_app; left; exact Hx. }
    { exact Hp1. }
    { intros s d Hs Hd. apply HsD; apply in_or_app; left; assumption. }
    { lia. }
    pose proof SP1 as [Hl1 [Hb1 Fr1]].
    assert (Hsep2 : forall x, In x (aranges_fs r b) \/ In x D2 -> forall q, In q (aranges_f f (b + off)) \/ In q D1 -> sep x q).
    { intros x [Hx|Hx] q [Hq|Hq].
      - apply sep_sym. apply Hpx; auto.
      - apply HsD; apply in_or_app; [right|left]; assumption.
      - apply sep_sym. apply HsD; apply in_or_app; [left|right]; assumption.
      - apply sep_sym. apply Hpdx; auto. }
    destruct (IHr sz st1 b st' mI vs w2 F2 D2 Hwr Hlr Hpr Hrun Hb1 ltac:(congruence) HbI R2 N2) as [SP2 Fin2].
    { intros x Hx y j W. rewrite Fr1.
      - apply (A x); [destruct Hx as [Hx|Hx]; [left|right]; apply in_or_app; right; exact Hx|exact W].
      - intros q Hq. eapply within_sep; [exact W|]. apply Hsep2; auto. }
    { exact Hp2. }
    { intros s d Hs Hd. apply HsD; apply in_or_app; right; assumption. }
    { lia. }
    pose proof SP2 as [Hl2 [Hb2 Fr2]].
    split; [exact (SSpost_trans _ _ _ _ _ _ _ SP1 SP2)|].
    intros Hf. destruct (Fin2 Hf) as [Hf1 HmF2]. destruct (Fin1 Hf1) as [Hf0 HmF1]. split; [exact Hf0|].
    intros mF w0 HlF AF Fl.
    destruct (HmF1 mF w0 HlF) as [v1' [w1' [F1' [Q1 [Q2 [Q3 [Q4 [Q6 Q5]]]]]]]]; [|exact Fl|].
    { intros x Hx y j W. rewrite <- Fr2.
      - apply (AF x); [destruct Hx as [Hx|Hx]; [left|right]; apply in_or_app; left; exact Hx|exact W].
      - intros q Hq. eapply within_sep; [exact W|]. apply sep_sym. apply Hsep2; auto. }
    destruct (HmF2 mF (w0 ++ w1') HlF) as [vs' [w2' [F2' [P1 [P2 [P3 [P4 [P6 P5]]]]]]]]; [|exact Q5|].
    { intros x [Hx|Hx]; apply AF; [left|right]; apply in_or_app; right; exact Hx. }
    exists (v1' :: vs'), (w1' ++ w2'), (F1' ++ F2'). split; [cbn [rd_fs]; rewrite Q1; cbn [bind]; rewrite P1; reflexivity|].
    split; [split; assumption|]. split; [rewrite !len_app; lia|]. split; [rewrite !len_app; lia|]. split; [apply fpok_app; assumption|]. rewrite P5, app_assoc. reflexivity.
Qed.
