From Coq Require Import ZArith List.
From PV Require Import Base.U64 C12.C12_Model C12.C12_Mem C12.C12_MemC C12.C12_Iov C12.C12_Deser C12.C12_Walk C12.C12_Flat C12.C12_Proofs C12.C12_Sep C12.C12_Wire C12.C12_RtD C12.C12_RtS C12.C12_Rt C12.C12_RtC C12.C12_RtC2 C12.C12_RtC3 C12.C12_Hx C12.C12_View C12.C12_Hb C12.C12_Hb2 C12.C12_RtI C12.C12_Crc C12.C12_Ord C12.C12_Dyn C12.C12_RtSI C12.C12_RtF.
Theorem deser_in_bounds_no_trap : forall hstep sh m v,
  shape_wf sh -> inv m v ->
  exists t st, deserialize hstep cfg_final sh m v = Ok (t, st) /\ inv (d_mem st) (d_iov st) /\
               ext (lens m) (lens (d_mem st)) /\ (t <> 0%Z -> ptr_ok (lens (d_mem st)) t (sh_size sh)).
Proof. exact deserialize_no_trap. Qed.
Print Assumptions deser_in_bounds_no_trap.
Theorem deser_in_bounds_fields_partial : forall hstep sh m v,
  shape_wf sh -> fields_simple (sh_fields sh) -> (forall base, pairwise_disj (fsranges (sh_fields sh) base)) -> inv m v ->
  exists t st, deserialize hstep cfg_final sh m v = Ok (t, st) /\
    (t <> 0%Z -> ptr_ok (lens (d_mem st)) t (sh_size sh) /\
                 wgood_fs (d_mem st) (sh_fields sh) t /\
                 exists its, w_fields cfg_final (sh_fields sh) (d_mem st) t = Ok its).
Proof. exact deserialize_fields_in_bounds_partial. Qed.
Print Assumptions deser_in_bounds_fields_partial.
Theorem deser_in_bounds_fields : forall hstep sh m v,
  shape_wf sh -> lay_fs (sh_fields sh) -> (forall b, psep (aranges_fs (sh_fields sh) b)) ->
  inv m v -> psep (i_el v) ->
  exists t st, deserialize hstep cfg_final sh m v = Ok (t, st) /\
    (t <> 0%Z -> exists C vals w F its,
       claimed_ok (i_el v) (len m) (d_mem st) C /\ In (t, sh_size sh) C /\
       rd_fs (perm (sh_fields sh)) (d_mem st) t = Ok (vals, w, F) /\
       (forall r, In r F -> (snd r <= 0)%Z \/ exists c, In c C /\ within r c) /\
       w_fields cfg_final (sh_fields sh) (d_mem st) t = Ok its).
Proof. exact deserialize_fields_in_bounds. Qed.
Print Assumptions deser_in_bounds_fields.
Theorem ser_roundtrip_front_copy_refines_flat_partial : forall m,
  Forall (fun L => (L <= STRIDE)%Z) (lens m) ->
  forall el bytes bs d el', Forall (el_ok (lens m)) el -> flat m el = Ok bs -> (0 < bytes <= sum_el el)%Z ->
  vef_copy m el bytes = Ok (d, el') ->
  d = firstn (Z.to_nat bytes) bs /\ flat m el' = Ok (skipn (Z.to_nat bytes) bs).
Proof. exact vef_copy_flat. Qed.
Print Assumptions ser_roundtrip_front_copy_refines_flat_partial.
Theorem sorted_map_lookup_in_bounds : forall m a k ip inn bp bn,
  mem_bytes m -> mem_wf m ->
  validb (lens m) a 32 = true ->
  load64 m a = Ok ip -> load64 m (a + 8) = Ok inn -> load64 m (a + 16) = Ok bp -> load64 m (a + 24) = Ok bn ->
  validb (lens m) ip inn = true -> validb (lens m) bp bn = true ->
  (0 <= inn)%Z -> (0 <= bp)%Z -> (0 <= bn)%Z -> (bp + bn < W64)%Z ->
  exists pos, map_find cfg_final m a k = Ok pos /\ (0 <= pos <= inn / 32)%Z.
Proof. exact map_find_in_bounds. Qed.
Print Assumptions sorted_map_lookup_in_bounds.
Theorem slice_anchor_in_bounds : forall off length bp bn p n,
  (0 <= off < W64)%Z -> (0 <= length < W64)%Z -> (0 <= bp)%Z -> (0 <= bn)%Z -> (bp + bn < W64)%Z ->
  anchor cfg_final off length bp bn = (p, n) ->
  (p = 0%Z /\ n = 0%Z) \/ (n = length /\ p = (bp + off)%Z /\ (bp <= p)%Z /\ (p + n <= bp + bn)%Z).
Proof. exact anchor_in_bounds. Qed.
Print Assumptions slice_anchor_in_bounds.
Theorem slice_anchor_prefix_refuted :
  exists off length bp bn p n, anchor cfg_shipped off length bp bn = (p, n) /\ (0 < n)%Z /\ (bp + bn < p)%Z.
Proof. exact anchor_shipped_out_of_bounds. Qed.
Print Assumptions slice_anchor_prefix_refuted.
Theorem string_sv_in_bounds : forall p n p' n',
  (0 <= n < W64)%Z -> sv_of cfg_final p n = (p', n') -> p' = p /\ (0 <= n' <= n)%Z.
Proof. exact sv_in_bounds. Qed.
Print Assumptions string_sv_in_bounds.
Theorem string_sv_prefix_refuted : forall p, sv_of cfg_shipped p 0 = (p, MAX64).
Proof. exact sv_shipped_empty_string. Qed.
Print Assumptions string_sv_prefix_refuted.
Theorem checked_accept_only_after_compare : forall hstep c sh m v t st,
  sh_checked sh = true ->
  deserialize hstep c sh m v = Ok (t, st) -> t <> 0%Z ->
  exists t1 m1 v1 m2,
    ebc m v (sh_size sh) = Ok (t1, m1, v1) /\
    validate_checksum hstep m1 v1 t1 (sh_size sh) = Ok (true, m2).
Proof. exact checked_accept_requires_valid_checksum. Qed.
Print Assumptions checked_accept_only_after_compare.
Theorem checked_compare_covers : forall hstep m v t size okc m',
  validate_checksum hstep m v t size = Ok (okc, m') ->
  exists stored m1 m2 h1 body,
    load32 m t = Ok stored /\ store32 m t 0 = Ok m1 /\ hash_iov hstep m1 t (i_el v) = Ok m2 /\
    load32 m2 t = Ok h1 /\ load m2 t size = Ok body /\
    okc = (stored =? hash_ext hstep h1 body)%Z.
Proof. exact validate_checksum_spec. Qed.
Print Assumptions checked_compare_covers.
Theorem checked_rejects_alteration_is_refuted : ~ checked_rejects_alteration.
Proof. exact checked_rejects_alteration_refuted. Qed.
Print Assumptions checked_rejects_alteration_is_refuted.
Theorem checked_rejects_on_hash_mismatch : forall hstep c sh m v t1 m1 v1 okc m2,
  sh_checked sh = true ->
  ebc m v (sh_size sh) = Ok (t1, m1, v1) -> t1 <> 0%Z ->
  validate_checksum hstep m1 v1 t1 (sh_size sh) = Ok (okc, m2) -> okc = false ->
  exists st, deserialize hstep c sh m v = Ok (0%Z, st).
Proof. exact checked_rejects_hash_mismatch. Qed.
Print Assumptions checked_rejects_on_hash_mismatch.
Theorem ser_roundtrip_noiov_unchecked_partial : forall hstep sh ms x sst vals wf Fs body mr v,
  shape_wf sh -> sh_checked sh = false ->
  sup_fs (sh_fields sh) -> lay_fs (sh_fields sh) -> (forall b, psep (aranges_fs (sh_fields sh) b)) ->
  Forall (fun L => (L <= STRIDE)%Z) (lens ms) ->
  rd_fs (perm (sh_fields sh)) ms x = Ok (vals, wf, Fs) -> load ms x (sh_size sh) = Ok body ->
  serialize hstep cfg_final sh ms x = Ok sst -> s_full sst = false ->
  inv mr v -> psep (i_el v) -> flat mr (i_el v) = flat (s_mem sst) (i_el (s_iov sst)) ->
  (i_nb v + 1 + len Fs <= i_cap v)%Z ->
  exists t st w2 F, deserialize hstep cfg_final sh mr v = Ok (t, st) /\ t <> 0%Z /\
    ptr_ok (lens (d_mem st)) t (sh_size sh) /\
    rd_fs (perm (sh_fields sh)) (d_mem st) t = Ok (vals, w2, F) /\
    flat (d_mem st) (i_el (d_iov st)) = Ok nil.
Proof. exact ser_roundtrip_noiov_unchecked. Qed.
Print Assumptions ser_roundtrip_noiov_unchecked_partial.
Theorem ser_roundtrip_serialize_emits_wire_partial : forall hstep sh ms x sst vals wf Fs body,
  sh_checked sh = false -> sup_fs (sh_fields sh) ->
  serialize hstep cfg_final sh ms x = Ok sst -> s_full sst = false ->
  rd_fs (perm (sh_fields sh)) ms x = Ok (vals, wf, Fs) -> load ms x (sh_size sh) = Ok body ->
  s_mem sst = ms /\ flat ms (i_el (s_iov sst)) = Ok (wf ++ body).
Proof. exact serialize_wire. Qed.
Print Assumptions ser_roundtrip_serialize_emits_wire_partial.
Theorem ser_roundtrip_deserialize_any_fragmentation_partial : forall hstep sh ms x mr v vals wf Fs body,
  shape_wf sh -> sh_checked sh = false ->
  sup_fs (sh_fields sh) -> lay_fs (sh_fields sh) -> (forall b, psep (aranges_fs (sh_fields sh) b)) ->
  Forall (fun L => (L <= STRIDE)%Z) (lens ms) ->
  rd_fs (perm (sh_fields sh)) ms x = Ok (vals, wf, Fs) -> load ms x (sh_size sh) = Ok body ->
  inv mr v -> flat mr (i_el v) = Ok (wf ++ body) -> psep (i_el v) ->
  (i_nb v + 1 + len Fs <= i_cap v)%Z ->
  exists t st w2 F, deserialize hstep cfg_final sh mr v = Ok (t, st) /\ t <> 0%Z /\
    ptr_ok (lens (d_mem st)) t (sh_size sh) /\
    rd_fs (perm (sh_fields sh)) (d_mem st) t = Ok (vals, w2, F) /\
    flat (d_mem st) (i_el (d_iov st)) = Ok nil /\
    inv (d_mem st) (d_iov st).
Proof. exact deserialize_rt. Qed.
Print Assumptions ser_roundtrip_deserialize_any_fragmentation_partial.
Theorem ser_roundtrip_extract_front_refines_flat_partial : forall m v n w,
  inv m v -> (0 < n)%Z -> flat m (i_el v) = Ok w -> (n <= len w)%Z -> psep (i_el v) -> (i_nb v < i_cap v)%Z ->
  exists p m' v', efc m v n = Ok (p, m', v') /\ xpost m v n p m' v' (firstn (Z.to_nat n) w) (skipn (Z.to_nat n) w).
Proof. exact efc_flat. Qed.
Print Assumptions ser_roundtrip_extract_front_refines_flat_partial.
Theorem ser_roundtrip_extract_back_refines_flat_partial : forall m v n w,
  inv m v -> (0 < n)%Z -> flat m (i_el v) = Ok w -> (n <= len w)%Z -> psep (i_el v) -> (i_nb v < i_cap v)%Z ->
  exists p m' v', ebc m v n = Ok (p, m', v') /\
    xpost m v n p m' v' (skipn (Z.to_nat (len w - n)) w) (firstn (Z.to_nat (len w - n)) w).
Proof. exact ebc_flat. Qed.
Print Assumptions ser_roundtrip_extract_back_refines_flat_partial.
Theorem ser_roundtrip_noiov_checked_partial : forall hstep,
  (forall h b, (0 <= h < W32)%Z -> (0 <= b < 256)%Z -> (0 <= hstep h b < W32)%Z) ->
  forall sh ms x sst vals wf Fs body0 mr v,
  shape_wf sh -> sh_checked sh = true ->
  sup_fs (sh_fields sh) -> lay_fs (sh_fields sh) -> (forall b, psep (aranges_fs (sh_fields sh) b)) ->
  mem_bytes ms -> Forall (fun L => (L <= STRIDE)%Z) (lens ms) -> (0 <= x)%Z ->
  rd_fs (perm (sh_fields sh)) ms x = Ok (vals, wf, Fs) -> load ms x (sh_size sh) = Ok body0 ->
  load ms x 4 = Ok (le_enc 4 0) ->
  (forall r, In r Fs -> sep r (x, 4%Z)) ->
  serialize hstep cfg_final sh ms x = Ok sst -> s_full sst = false ->
  (forall e, In e (removelast (i_el (s_iov sst))) -> sep e (x, 4%Z)) ->
  inv mr v -> psep (i_el v) -> flat mr (i_el v) = flat (s_mem sst) (i_el (s_iov sst)) ->
  (i_nb v + 1 + len Fs <= i_cap v)%Z ->
  exists t st w2 F, deserialize hstep cfg_final sh mr v = Ok (t, st) /\ t <> 0%Z /\
    ptr_ok (lens (d_mem st)) t (sh_size sh) /\
    rd_fs (perm (sh_fields sh)) (d_mem st) t = Ok (vals, w2, F) /\
    flat (d_mem st) (i_el (d_iov st)) = Ok nil.
Proof. exact ser_roundtrip_noiov_checked. Qed.
Print Assumptions ser_roundtrip_noiov_checked_partial.
Theorem ser_roundtrip_checksum_fragmentation_independent_partial : forall hstep,
  (forall h b, (0 <= h < W32)%Z -> (0 <= b < 256)%Z -> (0 <= hstep h b < W32)%Z) ->
  forall x1 x2 el1 el2 m1 m2 w h0 m1' m2',
  mem_bytes m1 -> mem_bytes m2 -> (forall e, In e el1 -> sep e (x1, 4%Z)) -> (forall e, In e el2 -> sep e (x2, 4%Z)) ->
  load m1 x1 4 = Ok (le_enc 4 h0) -> load m2 x2 4 = Ok (le_enc 4 h0) -> (0 <= h0 < W32)%Z ->
  flat m1 el1 = Ok w -> flat m2 el2 = Ok w ->
  hash_iov hstep m1 x1 el1 = Ok m1' -> hash_iov hstep m2 x2 el2 = Ok m2' ->
  load m1' x1 4 = load m2' x2 4 /\ load32 m1' x1 = Ok (hash_ext hstep h0 w).
Proof. exact hash_iov_fragmentation_independent. Qed.
Print Assumptions ser_roundtrip_checksum_fragmentation_independent_partial.
Theorem ser_roundtrip_deserialize_any_fragmentation_iov_partial : forall hstep sh ms x mr v vals wf Fs body,
  shape_wf sh -> sh_checked sh = false ->
  lay_fs (sh_fields sh) -> (forall b, psep (aranges_fs (sh_fields sh) b)) ->
  Forall (fun L => (L <= STRIDE)%Z) (lens ms) ->
  rd_fs (perm (sh_fields sh)) ms x = Ok (vals, wf, Fs) -> vsums vals -> load ms x (sh_size sh) = Ok body ->
  inv mr v -> flat mr (i_el v) = Ok (wf ++ body) -> psep (i_el v) ->
  (i_nb v + 1 + len Fs <= i_cap v)%Z ->
  exists t st w2 F, deserialize hstep cfg_final sh mr v = Ok (t, st) /\ t <> 0%Z /\
    ptr_ok (lens (d_mem st)) t (sh_size sh) /\
    rd_fs (perm (sh_fields sh)) (d_mem st) t = Ok (vals, w2, F) /\
    flat (d_mem st) (i_el (d_iov st)) = Ok nil /\
    inv (d_mem st) (d_iov st).
Proof. exact deserialize_rt_iov. Qed.
Print Assumptions ser_roundtrip_deserialize_any_fragmentation_iov_partial.
Theorem ser_roundtrip_deserialize_checked_any_fragmentation_iov_partial : forall hstep,
  (forall h b, (0 <= h < W32)%Z -> (0 <= b < 256)%Z -> (0 <= hstep h b < W32)%Z) ->
  forall sh ms x mr v vals wf Fs body,
  shape_wf sh -> sh_checked sh = true ->
  lay_fs (sh_fields sh) -> (forall b, psep (aranges_fs (sh_fields sh) b)) ->
  Forall (fun L => (L <= STRIDE)%Z) (lens ms) ->
  rd_fs (perm (sh_fields sh)) ms x = Ok (vals, wf, Fs) -> vsums vals -> load ms x (sh_size sh) = Ok body ->
  le_dec (firstn 4 body) =
    hash_ext hstep (hash_ext hstep 0 wf) (le_enc 4 (hash_ext hstep 0 wf) ++ skipn 4 body) ->
  inv mr v -> flat mr (i_el v) = Ok (wf ++ body) -> psep (i_el v) ->
  (i_nb v + 1 + len Fs <= i_cap v)%Z ->
  exists t st w2 F, deserialize hstep cfg_final sh mr v = Ok (t, st) /\ t <> 0%Z /\
    ptr_ok (lens (d_mem st)) t (sh_size sh) /\
    rd_fs (perm (sh_fields sh)) (d_mem st) t = Ok (vals, w2, F) /\
    flat (d_mem st) (i_el (d_iov st)) = Ok nil.
Proof. exact deserialize_rt_checked_iov. Qed.
Print Assumptions ser_roundtrip_deserialize_checked_any_fragmentation_iov_partial.
Theorem ser_roundtrip_noiov_unchecked_declared_partial : forall hstep sh ms x sst vals wf0 Fs0 body mr v,
  shape_wf sh -> sh_checked sh = false ->
  sup_fs (sh_fields sh) -> lay_fs (sh_fields sh) -> (forall b, psep (aranges_fs (sh_fields sh) b)) ->
  Forall (fun L => (L <= STRIDE)%Z) (lens ms) ->
  rd_fs (sh_fields sh) ms x = Ok (vals, wf0, Fs0) -> load ms x (sh_size sh) = Ok body ->
  serialize hstep cfg_final sh ms x = Ok sst -> s_full sst = false ->
  inv mr v -> psep (i_el v) -> flat mr (i_el v) = flat (s_mem sst) (i_el (s_iov sst)) ->
  (i_nb v + 1 + len Fs0 <= i_cap v)%Z ->
  exists t st w2 F, deserialize hstep cfg_final sh mr v = Ok (t, st) /\ t <> 0%Z /\
    ptr_ok (lens (d_mem st)) t (sh_size sh) /\
    rd_fs (sh_fields sh) (d_mem st) t = Ok (vals, w2, F) /\
    flat (d_mem st) (i_el (d_iov st)) = Ok nil.
Proof. exact ser_roundtrip_noiov_unchecked_declared. Qed.
Print Assumptions ser_roundtrip_noiov_unchecked_declared_partial.
Theorem ser_roundtrip_noiov_checked_declared_partial : forall hstep,
  (forall h b, (0 <= h < W32)%Z -> (0 <= b < 256)%Z -> (0 <= hstep h b < W32)%Z) ->
  forall sh ms x sst vals wf0 Fs0 body0 mr v,
  shape_wf sh -> sh_checked sh = true ->
  sup_fs (sh_fields sh) -> lay_fs (sh_fields sh) -> (forall b, psep (aranges_fs (sh_fields sh) b)) ->
  mem_bytes ms -> Forall (fun L => (L <= STRIDE)%Z) (lens ms) -> (0 <= x)%Z ->
  rd_fs (sh_fields sh) ms x = Ok (vals, wf0, Fs0) -> load ms x (sh_size sh) = Ok body0 ->
  load ms x 4 = Ok (le_enc 4 0) ->
  (forall r, In r Fs0 -> sep r (x, 4%Z)) ->
  serialize hstep cfg_final sh ms x = Ok sst -> s_full sst = false ->
  (forall e, In e (removelast (i_el (s_iov sst))) -> sep e (x, 4%Z)) ->
  inv mr v -> psep (i_el v) -> flat mr (i_el v) = flat (s_mem sst) (i_el (s_iov sst)) ->
  (i_nb v + 1 + len Fs0 <= i_cap v)%Z ->
  exists t st w2 F, deserialize hstep cfg_final sh mr v = Ok (t, st) /\ t <> 0%Z /\
    ptr_ok (lens (d_mem st)) t (sh_size sh) /\
    rd_fs (sh_fields sh) (d_mem st) t = Ok (vals, w2, F) /\
    flat (d_mem st) (i_el (d_iov st)) = Ok nil.
Proof. exact ser_roundtrip_noiov_checked_declared. Qed.
Print Assumptions ser_roundtrip_noiov_checked_declared_partial.
Theorem crc32c_step_in_range : forall h b, (0 <= h < W32)%Z -> (0 <= b < 256)%Z -> (0 <= crc32c_step h b < W32)%Z.
Proof. exact crc32c_step_range. Qed.
Print Assumptions crc32c_step_in_range.
Theorem ser_roundtrip_noiov_checked_crc32c_partial : forall sh ms x sst vals wf Fs body0 mr v,
  shape_wf sh -> sh_checked sh = true ->
  sup_fs (sh_fields sh) -> lay_fs (sh_fields sh) -> (forall b, psep (aranges_fs (sh_fields sh) b)) ->
  mem_bytes ms -> Forall (fun L => (L <= STRIDE)%Z) (lens ms) -> (0 <= x)%Z ->
  rd_fs (perm (sh_fields sh)) ms x = Ok (vals, wf, Fs) -> load ms x (sh_size sh) = Ok body0 ->
  load ms x 4 = Ok (le_enc 4 0) ->
  (forall r, In r Fs -> sep r (x, 4%Z)) ->
  serialize crc32c_step cfg_final sh ms x = Ok sst -> s_full sst = false ->
  (forall e, In e (removelast (i_el (s_iov sst))) -> sep e (x, 4%Z)) ->
  inv mr v -> psep (i_el v) -> flat mr (i_el v) = flat (s_mem sst) (i_el (s_iov sst)) ->
  (i_nb v + 1 + len Fs <= i_cap v)%Z ->
  exists t st w2 F, deserialize crc32c_step cfg_final sh mr v = Ok (t, st) /\ t <> 0%Z /\
    ptr_ok (lens (d_mem st)) t (sh_size sh) /\
    rd_fs (perm (sh_fields sh)) (d_mem st) t = Ok (vals, w2, F) /\
    flat (d_mem st) (i_el (d_iov st)) = Ok nil.
Proof. exact ser_roundtrip_noiov_checked_crc32c. Qed.
Print Assumptions ser_roundtrip_noiov_checked_crc32c_partial.
Theorem ser_roundtrip : forall hstep sh ms x sst vals0 wf0 Fs0 D body0 mr v,
  (forall h b, (0 <= h < W32)%Z -> (0 <= b < 256)%Z -> (0 <= hstep h b < W32)%Z) ->
  shape_wf sh -> lay_fs (sh_fields sh) -> (forall b, psep (aranges_fs (sh_fields sh) b)) ->
  mem_bytes ms -> Forall (fun L => (L <= STRIDE)%Z) (lens ms) ->
  rd_fs (perm (sh_fields sh)) ms x = Ok (vals0, wf0, Fs0) -> dn_fs (perm (sh_fields sh)) ms x = Ok D ->
  psep D -> (forall d, In d D -> sep (x, sh_size sh) d) -> (len wf0 < W64)%Z ->
  load ms x (sh_size sh) = Ok body0 ->
  (sh_checked sh = true -> (0 <= x)%Z /\ load ms x 4 = Ok (le_enc 4 0) /\
     (forall r, In r (aranges_fs (perm (sh_fields sh)) x) -> sep r (x, 4%Z)) /\
     (forall e, In e (removelast (i_el (s_iov sst))) -> sep e (x, 4%Z))) ->
  serialize hstep cfg_final sh ms x = Ok sst -> s_full sst = false ->
  inv mr v -> psep (i_el v) -> flat mr (i_el v) = flat (s_mem sst) (i_el (s_iov sst)) ->
  (i_nb v + 1 + len Fs0 <= i_cap v)%Z ->
  exists vals ws Fss t st w2 F,
    rd_fs (sh_fields sh) (s_mem sst) x = Ok (vals, ws, Fss) /\
    deserialize hstep cfg_final sh mr v = Ok (t, st) /\ t <> 0%Z /\
    ptr_ok (lens (d_mem st)) t (sh_size sh) /\
    rd_fs (sh_fields sh) (d_mem st) t = Ok (vals, w2, F) /\
    flat (d_mem st) (i_el (d_iov st)) = Ok nil.
Proof. exact ser_roundtrip_all. Qed.
Print Assumptions ser_roundtrip.
Theorem ser_roundtrip_serialize_emits_wire : forall hstep sh ms x sst vals0 wf0 Fs0 D body0,
  sh_checked sh = false -> shape_wf sh -> lay_fs (sh_fields sh) -> (forall b, psep (aranges_fs (sh_fields sh) b)) ->
  mem_bytes ms ->
  serialize hstep cfg_final sh ms x = Ok sst -> s_full sst = false ->
  rd_fs (perm (sh_fields sh)) ms x = Ok (vals0, wf0, Fs0) -> dn_fs (perm (sh_fields sh)) ms x = Ok D ->
  psep D -> (forall d, In d D -> sep (x, sh_size sh) d) -> (len wf0 < W64)%Z ->
  load ms x (sh_size sh) = Ok body0 ->
  lens (s_mem sst) = lens ms /\ mem_bytes (s_mem sst) /\
  exists vals wf Fs body, rd_fs (perm (sh_fields sh)) (s_mem sst) x = Ok (vals, wf, Fs) /\ vsums vals /\
    len wf = len wf0 /\ len Fs = len Fs0 /\
    load (s_mem sst) x (sh_size sh) = Ok body /\ flat (s_mem sst) (i_el (s_iov sst)) = Ok (wf ++ body).
Proof. exact serialize_wire_iov. Qed.
Print Assumptions ser_roundtrip_serialize_emits_wire.
