From Coq Require Import ZArith List.
From PV Require Import Base.U64 C12.C12_Model C12.C12_Proofs.
Theorem c12_placeholder : True. Proof. exact placeholder. Qed.
Print Assumptions c12_placeholder.
