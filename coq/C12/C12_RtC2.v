(* C12_RtC2.v — the receiver half of ser_roundtrip for CHECKED shapes: on any fragmentation of
   wire(fields) ++ body whose stored checksum word equals the value validate_checksum recomputes
   (fold over the flat field bytes, then over the body with the running value in the checksum
   field), deserialize accepts and yields the sender's value. *)
From Coq Require Import ZArith List Bool Lia.
From PV Require Import Base.U64 C12.C12_Model C12.C12_Mem C12.C12_MemC C12.C12_Iov C12.C12_Flat C12.C12_Deser C12.C12_Sep C12.C12_Wire C12.C12_RtD C12.C12_RtS C12.C12_Rt C12.C12_RtC.
Import ListNotations.
Local Open Scope Z_scope.

Lemma le_enc_dec bs : bytes_ok bs -> le_enc (length bs) (le_dec bs) = bs.
Proof.
  induction bs as [|b r IH]; intros H; [reflexivity|]. inversion H; subst. cbn [length le_enc le_dec].
  rewrite (Z.mul_comm 256). rewrite Z_mod_plus_full, Z.div_add by lia.
  rewrite Z.mod_small, Z.div_small by lia. cbn [Z.add]. rewrite IH by assumption. reflexivity.
Qed.

Section RTC.
  Variable hstep : Z -> byte -> Z.
  Hypothesis hstep_range : forall h b, 0 <= h < W32 -> 0 <= b < 256 -> 0 <= hstep h b < W32.

  Theorem deserialize_rt_checked sh ms x mr v vals wf Fs body :
    shape_wf sh -> sh_checked sh = true ->
    sup_fs (sh_fields sh) -> lay_fs (sh_fields sh) -> (forall b, psep (aranges_fs (sh_fields sh) b)) ->
    Forall (fun L => L <= STRIDE) (lens ms) ->
    rd_fs (perm (sh_fields sh)) ms x = Ok (vals, wf, Fs) -> load ms x (sh_size sh) = Ok body ->
    (* the stored word is the checksum the receiver recomputes *)
    le_dec (firstn 4 body) =
      hash_ext hstep (hash_ext hstep 0 wf) (le_enc 4 (hash_ext hstep 0 wf) ++ skipn 4 body) ->
    inv mr v -> flat mr (i_el v) = Ok (wf ++ body) -> psep (i_el v) ->
    i_nb v + 1 + len Fs <= i_cap v ->
    exists t st w2 F, deserialize hstep cfg_final sh mr v = Ok (t, st) /\ t <> 0 /\
      ptr_ok (lens (d_mem st)) t (sh_size sh) /\
      rd_fs (perm (sh_fields sh)) (d_mem st) t = Ok (vals, w2, F) /\
      flat (d_mem st) (i_el (d_iov st)) = Ok [].
  Proof.
    intros [Hsz [Hwf Hck0]] Hck Hsup Hlay Hps Hmswf Hrd Lb Hsum Hinv Hfl Hpe Hnb.
    specialize (Hck0 Hck).
    pose proof (len_nonneg Fs) as HFs.
    pose proof (load_len _ _ _ _ Lb) as Hlb. rewrite Z.max_r in Hlb by lia.
    assert (Hlw : len (wf ++ body) - sh_size sh = len wf) by (rewrite len_app; lia).
    destruct (ebc_flat mr v (sh_size sh) (wf ++ body) Hinv Hsz Hfl ltac:(rewrite len_app; pose proof (len_nonneg wf); lia) Hpe ltac:(lia))
      as [t [m1 [v1 [He X]]]].
    rewrite Hlw in X. rewrite (skipn_app_exact wf body (len wf)), (firstn_app_exact wf body (len wf)) in X by (unfold len; lia).
    pose proof X as [Hi1 [Hx1 [Hc1 [Hn1 [[Pv [Pp Pw]] [Lp [Fl1 [Ps1 [Pr1 [Sp1 [Fr1 _]]]]]]]]]]].
    unfold deserialize. rewrite He. cbn [bind]. destruct (t =? 0) eqn:Et; [apply Z.eqb_eq in Et; lia|].
    rewrite Hck.
    destruct (validate_flat hstep hstep_range m1 v1 t (sh_size sh) wf body Hi1 Hck0 Pv ltac:(lia)) as [m3 [Hv [Hl3 [Hi3 [Fl3 [Lb3 Fr3]]]]]]; auto.
    { intros e He'. eapply sep_sub_r; [apply Sp1; exact He'|]. unfold within. cbn [fst snd]. lia. }
    rewrite Hv. cbn [bind]. rewrite Hsum, Z.eqb_refl. cbn [negb]. rewrite !d_pass_filt.
    (* the body the receiver holds is again the sender's body *)
    assert (Hbody : le_enc 4 (hash_ext hstep (hash_ext hstep 0 wf) (le_enc 4 (hash_ext hstep 0 wf) ++ skipn 4 body)) ++ skipn 4 body = body).
    { rewrite <- Hsum. pose proof (load_bytes_ok _ _ _ _ (inv_bytes _ _ Hi1) Lp) as Hbb.
      assert (H4 : length (firstn 4 body) = 4%nat) by (rewrite firstn_length; unfold len in Hlb; lia).
      rewrite <- H4 at 1. rewrite le_enc_dec by (apply bytes_ok_firstn; exact Hbb). apply firstn_skipn. }
    rewrite Hbody in Lb3.
    set (st0 := mkD m3 v1 false).
    assert (Hwfp : fields_wf (sh_size sh) (perm (sh_fields sh))) by (apply fapp_wf; apply filt_wf; exact Hwf).
    assert (Hsp : sup_fs (perm (sh_fields sh))) by (apply fapp_sup; apply filt_sup; exact Hsup).
    assert (Hlp : lay_fs (perm (sh_fields sh))) by (apply fapp_lay; apply filt_lay; exact Hlay).
    assert (Hpp : psep (aranges_fs (perm (sh_fields sh)) t)) by (eapply psep_perm; [apply aranges_perm|apply Hps]).
    destruct (proj2 (rt_all ms Hmswf) (perm (sh_fields sh)) (sh_size sh) st0 t x [(t, sh_size sh)] (t, sh_size sh) vals wf Fs []
                Hwfp Hsp Hlp Hpp) as [st2 [new [Hd [SP [w2 [F [Hr Hf]]]]]]].
    { rewrite app_nil_r. cbn [st0 d_mem d_iov]. split; [exact Hi3|]. split; [exact Fl3|]. split; [exact Ps1|].
      split; [split; [intros y []|exact I]|]. split; [intros e c He' [<-|[]]; apply Sp1; exact He'|].
      intros c [<-|[]]. rewrite Hl3. exact Pv. }
    { left. reflexivity. }
    { apply within_refl. }
    { exact Hrd. }
    { apply (proj2 (blk_eq _ _) _ (sh_size sh) t x Hwfp). cbn [st0 d_mem].
      apply (blk_of_loads _ _ _ _ _ body (inv_wf _ _ Hi3) Hmswf Lb3 Lb). }
    { cbn [st0 d_iov]. lia. }
    destruct SP as [Hfl2 [HR2 [Hx2 [Hc2 [Hn2 Hfr2]]]]]. cbn [st0 d_failed] in Hfl2.
    unfold perm in Hd. rewrite d_fields_app in Hd.
    destruct (d_fields cfg_final (filt true (sh_fields sh)) st0 t) as [st1|]; cbn [bind] in Hd |- *; [|discriminate Hd].
    rewrite d_pass_filt, Hd. cbn [bind]. rewrite Hfl2.
    exists t, st2, w2, F. split; [reflexivity|]. split; [lia|].
    destruct HR2 as [Hi2 [Fl2 _]].
    split; [split; [eapply validb_ext; [exact Hx2|]; cbn [st0 d_mem]; rewrite Hl3; exact Pv|lia]|]. split; [exact Hr|exact Fl2].
  Qed.
End RTC.
