(* C12_Model.v — executable model of rpc/serialize.h (SerializerIOV, DeserializerIOV,
   CheckedMessage, slice/sorted_map accessors, string::sv) and of the iovector operations
   they use (common/iovector.h 120-160, 457-497, 529-546, 623-640, 863-869;
   common/iovector.cpp 129-262).  Definitions only.

   Memory (DESIGN 4.2): a list of regions, region r lives at address ARENA + r*STRIDE.
   The harness places every buffer of a case at exactly these addresses (fixed mmap
   arena), so pointer VALUES written by the C++ and by the model are the same numbers.
   Every access goes through load/store, which return Err EOOB outside every region:
   "never reads or writes outside" = "no run returns Err".

   The record cfg selects, per delivered repair, the code as shipped (false) or as
   repaired (true); the theorems are about the repaired code (all true), the check
   asks the harness which variant the tree under test has. *)
From Coq Require Import ZArith List Bool.
From PV Require Import Base.U64.
Import ListNotations.
Local Open Scope Z_scope.

Definition byte := Z.
Definition mem := list (list byte).

Definition ARENA : Z := 52776558133248.      (* 0x300000000000 *)
Definition STRIDE : Z := 4294967296.         (* 2^32 *)
Definition INT_MAX : Z := 2147483647.

Inductive err := EOOB | EHUGE.
Inductive res (A : Type) := Ok (a : A) | Err (e : err).
Arguments Ok {A} a.
Arguments Err {A} e.
Definition bind {A B} (r : res A) (f : A -> res B) : res B :=
  match r with Ok a => f a | Err e => Err e end.
Notation "x <- e ;; k" := (bind e (fun x => k)) (at level 61, e at next level, right associativity).
Notation "' p <- e ;; k" := (bind e (fun x => match x with p => k end))
  (at level 61, p pattern, e at next level, right associativity).

Definition len {A} (l : list A) : Z := Z.of_nat (length l).
Definition nth_z {A} (l : list A) (i : Z) : option A :=
  if (i <? 0) || (len l <=? i) then None else nth_error l (Z.to_nat i).
Definition zeros (n : Z) : list byte := repeat 0 (Z.to_nat n).
Definition region_base (r : Z) : Z := ARENA + r * STRIDE.

(* ---- byte memory ---------------------------------------------------------------- *)
Definition load (m : mem) (addr n : Z) : res (list byte) :=
  if n <=? 0 then Ok [] else
  if addr <? ARENA then Err EOOB else
  let d := addr - ARENA in
  match nth_z m (d / STRIDE) with
  | None => Err EOOB
  | Some bs =>
      let off := d mod STRIDE in
      if off + n <=? len bs then Ok (firstn (Z.to_nat n) (skipn (Z.to_nat off) bs)) else Err EOOB
  end.

Fixpoint upd_nth {A} (l : list A) (i : nat) (x : A) : list A :=
  match l, i with
  | [], _ => []
  | _ :: t, O => x :: t
  | h :: t, S j => h :: upd_nth t j x
  end.

Definition splice (bs : list byte) (off : Z) (v : list byte) : list byte :=
  firstn (Z.to_nat off) bs ++ v ++ skipn (Z.to_nat (off + len v)) bs.

Definition store (m : mem) (addr : Z) (v : list byte) : res mem :=
  if len v <=? 0 then Ok m else
  if addr <? ARENA then Err EOOB else
  let d := addr - ARENA in
  match nth_z m (d / STRIDE) with
  | None => Err EOOB
  | Some bs =>
      let off := d mod STRIDE in
      if off + len v <=? len bs then Ok (upd_nth m (Z.to_nat (d / STRIDE)) (splice bs off v)) else Err EOOB
  end.

Fixpoint le_enc (n : nat) (v : Z) : list byte :=
  match n with O => [] | S k => (v mod 256) :: le_enc k (v / 256) end.
Fixpoint le_dec (bs : list byte) : Z :=
  match bs with [] => 0 | b :: r => b + 256 * le_dec r end.
Definition load64 (m : mem) (a : Z) : res Z := bs <- load m a 8 ;; Ok (le_dec bs).
Definition store64 (m : mem) (a v : Z) : res mem := store m a (le_enc 8 v).
Definition load32 (m : mem) (a : Z) : res Z := bs <- load m a 4 ;; Ok (le_dec bs).
Definition store32 (m : mem) (a v : Z) : res mem := store m a (le_enc 4 v).
(* off_t / ssize_t view of a 64-bit pattern *)
Definition signed64 (x : Z) : Z := if x <? 9223372036854775808 then x else x - W64.

(* ---- message shapes ------------------------------------------------------------- *)
(* one constructor per field type of rpc/serialize.h; offsets are byte offsets inside
   the enclosing struct (the harness derives them with offsetof) *)
Inductive field :=
| FFixed (n : Z)                       (* plain data member: never processed (serialize.h 300-303) *)
| FBuf                                 (* buffer           33-43  : slot (ptr,len)                 *)
| FStr                                 (* string           97-115 : same slot, accessors sv/c_str  *)
| FFixBuf (n : Z)                      (* fixed_buffer<T>  51-58, 310-319, n = sizeof(T)           *)
| FABuf                                (* aligned_buffer   47-49                                   *)
| FArr (esz : Z) (efs : fields)        (* array<T> 60-95, 321-327; efs = T's fields if T is a Message, else FNil *)
| FIov                                 (* iovec_array 182-205: slot (ptr,len,summed_size)          *)
| FAIov                                (* aligned_iovec_array 210-212                              *)
| FNest (fs : fields)                  (* embedded Message 345-350                                 *)
| FMap (vsz : Z) (vfs : fields)        (* sorted_map<string,V> 481-531: index array<pair<slice,slice>> at +0, base_buffer at +16 *)
with fields := FNil | FCons (off : Z) (f : field) (rest : fields).

Record shape := mkShape { sh_size : Z; sh_checked : bool; sh_fields : fields }.

Record cfg := mkCfg {
  fix_zero_ptr : bool;    (* deserializer nulls _ptr of a zero-length buffer              *)
  fix_fail_len : bool;    (* deserializer zeroes _len of a buffer whose extraction failed  *)
  fix_nested_al : bool;   (* aligned fields inside a nested message are (de)serialized     *)
  fix_anchor : bool;      (* slice::anchor returns an empty string when out of range       *)
  fix_sv : bool }.        (* string::sv() of a zero-length string is empty                 *)
Definition cfg_final : cfg := mkCfg true true true true true.

(* does processing the fields of a message touch memory at all?  (a Message made of
   plain members only compiles to nothing) *)
Fixpoint field_active (f : field) : bool :=
  match f with
  | FFixed _ => false
  | FNest fs => fields_active fs
  | _ => true
  end
with fields_active (fs : fields) : bool :=
  match fs with FNil => false | FCons _ f r => field_active f || fields_active r end.

(* ---- the iovector (common/iovector.h) ------------------------------------------- *)
(* iovs[iov_begin .. iov_end) as a list of (iov_base, iov_len); nbases; capacity *)
Record iovs := mkIov { i_beg : Z; i_el : list (Z * Z); i_nb : Z; i_cap : Z }.
Definition i_end (v : iovs) : Z := i_beg v + len (i_el v).
Definition set_el (v : iovs) (el : list (Z * Z)) : iovs :=   (* front changed: iov_begin = iov_end - iovcnt *)
  mkIov (i_end v - len el) el (i_nb v) (i_cap v).
Definition set_el_back (v : iovs) (el : list (Z * Z)) : iovs := (* back changed: iov_end = iov_begin + iovcnt *)
  mkIov (i_beg v) el (i_nb v) (i_cap v).

Definition sum_el (el : list (Z * Z)) : Z := fold_left (fun s e => s + snd e) el 0.

(* iovector::do_malloc 863-869 -> IOVAllocation_::do_allocate 822-836.  A fresh slot is a
   new region appended to the memory (the harness' allocator does the same). *)
Definition do_malloc (m : mem) (v : iovs) (size : Z) : res (Z * mem * iovs) :=
  if INT_MAX <? size then Err EHUGE else            (* (int)size would truncate; assert is off *)
  if i_cap v <=? i_nb v then Ok (0, m, v) else      (* ENOBUFS *)
  Ok (region_base (len m), m ++ [zeros size], mkIov (i_beg v) (i_el v) (i_nb v + 1) (i_cap v)).

(* ioview::do_extract_front with the copying callback (iovector.cpp 131-163, 205-213) *)
Fixpoint vef_copy (m : mem) (el : list (Z * Z)) (bytes : Z) : res (list byte * list (Z * Z)) :=
  match el with
  | [] => Ok ([], [])
  | (b, l) :: rest =>
      if bytes <=? l then
        d <- load m b bytes ;;
        Ok (d, if l - bytes =? 0 then rest else (wrap (b + bytes), l - bytes) :: rest)
      else
        d <- load m b l ;;
        '(d', el') <- vef_copy m rest (bytes - l) ;;
        Ok (d ++ d', el')
  end.
Definition view_extract_front_copy (m : mem) (el : list (Z * Z)) (bytes : Z) :=
  if bytes =? 0 then Ok ([], el) else vef_copy m el bytes.

(* ioview::do_extract_back with the copying callback (iovector.cpp 165-196, 234-243);
   the element list is passed reversed (last element first); the destination is filled
   from its end, so the bytes come out in stream order *)
Fixpoint veb_copy (m : mem) (rel : list (Z * Z)) (bytes : Z) : res (list byte * list (Z * Z)) :=
  match rel with
  | [] => Ok ([], [])
  | (b, l) :: rest =>
      if bytes <=? l then
        d <- load m (wrap (b + l - bytes)) bytes ;;
        Ok (d, if l - bytes =? 0 then rest else (b, l - bytes) :: rest)
      else
        d <- load m b l ;;
        '(d', rel') <- veb_copy m rest (bytes - l) ;;
        Ok (d' ++ d, rel')
  end.

(* do_extract_front with the callback that records the pieces in an iovector_view of
   N entries (iovector.cpp 215-227).  Returns (ret, recorded pieces, remaining elements);
   ret = -1 when the view is full. *)
Fixpoint vef_view (el : list (Z * Z)) (bytes : Z) (room : Z) : Z * list (Z * Z) * list (Z * Z) :=
  match el with
  | [] => (0, [], [])
  | (b, l) :: rest =>
      if room <=? 0 then (-1, [], el) else
      if bytes <=? l then
        (bytes, [(b, bytes)], if l - bytes =? 0 then rest else (wrap (b + bytes), l - bytes) :: rest)
      else
        match vef_view rest (bytes - l) (room - 1) with
        | (r, out, el') => ((if r <? 0 then -1 else l + r), (b, l) :: out, el')
        end
  end.

(* iovector::extract_front_continuous 529-546 over iovector_view's 120-132 *)
Definition efc_slow (m : mem) (v : iovs) (bytes : Z) : res (Z * mem * iovs) :=
  if sum_el (i_el v) <? bytes then Ok (0, m, v) else
  '(buf, m1, v1) <- do_malloc m v bytes ;;
  if buf =? 0 then Ok (0, m1, v1) else
  '(d, el') <- view_extract_front_copy m1 (i_el v1) bytes ;;
  m2 <- store m1 buf d ;;
  Ok (buf, m2, set_el v1 el').

Definition efc (m : mem) (v : iovs) (bytes : Z) : res (Z * mem * iovs) :=
  match i_el v with
  | (b, l) :: rest =>
      if l <? bytes then efc_slow m v bytes
      else Ok (b, m, set_el v (if l - bytes =? 0 then rest else (wrap (b + bytes), l - bytes) :: rest))
  | [] => efc_slow m v bytes
  end.

(* iovector::extract_back_continuous 623-640 over iovector_view's 149-160 *)
Definition ebc (m : mem) (v : iovs) (bytes : Z) : res (Z * mem * iovs) :=
  let slow :=
    if sum_el (i_el v) <? bytes then Ok (0, m, v) else
    '(buf, m1, v1) <- do_malloc m v bytes ;;
    if buf =? 0 then Ok (0, m1, v1) else
    '(d, rel') <- (if bytes =? 0 then Ok ([], rev (i_el v1)) else veb_copy m1 (rev (i_el v1)) bytes) ;;
    m2 <- store m1 buf d ;;
    Ok (buf, m2, set_el_back v1 (rev rel')) in
  match rev (i_el v) with
  | (b, l) :: rrest =>
      if l <? bytes then slow
      else Ok (wrap (b + (l - bytes)), m,
               set_el_back v (rev (if l - bytes =? 0 then rrest else (b, l - bytes) :: rrest)))
  | [] => slow
  end.

(* iovector::extract_front(bytes, OUT view) 482-497 with an empty OUT view.
   Returns (ret as ssize_t, iov pointer, iovcnt of the OUT view, memory, vector). *)
Fixpoint store_iovecs (m : mem) (a : Z) (l : list (Z * Z)) : res mem :=
  match l with
  | [] => Ok m
  | (b, n) :: r => m1 <- store m a (le_enc 8 b ++ le_enc 8 n) ;; store_iovecs m1 (a + 16) r
  end.

Definition extract_front_view (m : mem) (v : iovs) (bytes : Z) : res (Z * Z * Z * mem * iovs) :=
  if bytes =? 0 then Ok (0, 0, 0, m, v) else
  let cnt := len (i_el v) in
  '(ptr, m1, v1) <- do_malloc m v (cnt * 16) ;;
  if ptr =? 0 then Ok (-1, 0, 0, m1, v1) else
  match vef_view (i_el v1) bytes cnt with
  | (ret, out, el') =>
      m2 <- store_iovecs m1 ptr out ;;
      Ok (ret, ptr, len out, m2, set_el v1 el')
  end.

(* ---- serializer / deserializer -------------------------------------------------- *)
Section Hash.
  (* Hasher::extend_hash folds a per-byte step over the bytes; CRC32C is the instance the
     code uses (crc32c_step below); the theorems keep it uninterpreted *)
  Variable hstep : Z -> byte -> Z.
  Definition hash_ext (h : Z) (bs : list byte) : Z := fold_left hstep bs h.

  (* Crc32Hasher::extend_hash(value, iov) 244-247 with value = m_checksum, a reference INTO the
     message at address x: the accumulator is written back to memory after every element, so a
     later element that contains it (the body, last element on the sending side) is hashed
     with the running value in place *)
  Fixpoint hash_iov (m : mem) (x : Z) (el : list (Z * Z)) : res mem :=
    match el with
    | [] => Ok m
    | (b, l) :: r =>
        h <- load32 m x ;;
        d <- load m b l ;;
        m' <- store32 m x (hash_ext h d) ;;
        hash_iov m' x r
    end.

  (* ---------- SerializerIOV 382-427 ---------- *)
  Record sst := mkS { s_mem : mem; s_iov : iovs; s_full : bool }.

  (* process_field(buffer&) 390-398, on the value (ptr,n) *)
  Definition s_push (st : sst) (ptr n : Z) : sst :=
    let v := s_iov st in
    if 0 <? i_cap v - i_end v then
      if 0 <? n then mkS (s_mem st) (mkIov (i_beg v) (i_el v ++ [(ptr, n)]) (i_nb v) (i_cap v)) (s_full st)
      else st
    else mkS (s_mem st) v true.

  Definition s_buffer (st : sst) (a : Z) : res sst :=
    p <- load64 (s_mem st) a ;;
    n <- load64 (s_mem st) (a + 8) ;;
    Ok (s_push st p n).

  (* process_field(iovec_array&) 400-409 *)
  Fixpoint s_iov_loop (st : sst) (p : Z) (k : nat) (acc : Z) : res (sst * Z) :=
    match k with
    | O => Ok (st, acc)
    | S k' =>
        b <- load64 (s_mem st) p ;;
        n <- load64 (s_mem st) (p + 8) ;;
        s_iov_loop (s_push st b n) (p + 16) k' (wrap (acc + n))
    end.
  Definition s_iovarr (st : sst) (a : Z) : res sst :=
    p <- load64 (s_mem st) a ;;
    n <- load64 (s_mem st) (a + 8) ;;
    m0 <- store64 (s_mem st) (a + 16) 0 ;;
    '(st1, total) <- s_iov_loop (mkS m0 (s_iov st) (s_full st)) p (Z.to_nat (n / 16)) 0 ;;
    m1 <- store64 (s_mem st1) (a + 16) total ;;
    Ok (mkS m1 (s_iov st1) (s_full st1)).

  Section WithCfg.
  Variable c : cfg.

  (* ArchiveBase<SerializerIOV>::process_field overloads 299-350, as reached when the
     archive itself (not the aligned filter) visits a field *)
  Fixpoint s_field (f : field) (st : sst) (a : Z) {struct f} : res sst :=
    match f with
    | FFixed _ => Ok st
    | FBuf | FStr | FFixBuf _ => s_buffer st a
    | FABuf => if fix_nested_al c then s_buffer st a else Ok st     (* generic template wins: no-op *)
    | FIov => s_iovarr st a
    | FAIov => if fix_nested_al c then s_iovarr st a else Ok st
    | FArr esz efs =>
        st1 <- s_buffer st a ;;
        if fields_active efs then
          p <- load64 (s_mem st1) a ;;
          n <- load64 (s_mem st1) (a + 8) ;;
          (fix loop (k : nat) (st : sst) (e : Z) : res sst :=
             match k with
             | O => Ok st
             | S k' => st' <- s_fields efs st e ;; loop k' st' (e + esz)
             end) (Z.to_nat (n / esz)) st1 p
        else Ok st1
    | FNest fs => s_fields fs st a
    | FMap _ _ =>
        st1 <- s_buffer st a ;;          (* index: array of non-Message elements *)
        s_buffer st1 (a + 16)            (* base_buffer *)
    end
  with s_fields (fs : fields) (st : sst) (base : Z) {struct fs} : res sst :=
    match fs with
    | FNil => Ok st
    | FCons off f r => st1 <- s_field f st (base + off) ;; s_fields r st1 base
    end.

  (* _FilterAlignedFields 353-374 applied to the top-level fields *)
  Fixpoint s_pass (aligned : bool) (fs : fields) (st : sst) (base : Z) : res sst :=
    match fs with
    | FNil => Ok st
    | FCons off f r =>
        st1 <- (match f with
                | FABuf => if aligned then s_buffer st (base + off) else Ok st
                | FAIov => if aligned then s_iovarr st (base + off) else Ok st
                | _ => if aligned then Ok st else s_field f st (base + off)
                end) ;;
        s_pass aligned r st1 base
    end.

  (* SerializerIOV::serialize 411-426 + CheckedMessage::add_checksum 261-264;
     the archive's IOVector has capacity 32 and 4 reserved front slots *)
  Definition serialize (sh : shape) (m : mem) (x : Z) : res sst :=
    let st0 := mkS m (mkIov 4 [] 0 32) false in
    st1 <- s_pass true (sh_fields sh) st0 x ;;
    st2 <- s_pass false (sh_fields sh) st1 x ;;
    let st3 := s_push st2 x (sh_size sh) in
    if sh_checked sh then
      m' <- hash_iov (s_mem st3) x (i_el (s_iov st3)) ;;
      Ok (mkS m' (s_iov st3) (s_full st3))
    else Ok st3.

  (* ---------- DeserializerIOV 429-478 ---------- *)
  Record dst := mkD { d_mem : mem; d_iov : iovs; d_failed : bool }.

  (* process_field(buffer&) 437-444 *)
  Definition d_buffer (st : dst) (a : Z) : res dst :=
    n <- load64 (d_mem st) (a + 8) ;;
    if n =? 0 then
      if fix_zero_ptr c then m1 <- store64 (d_mem st) a 0 ;; Ok (mkD m1 (d_iov st) (d_failed st))
      else Ok st
    else
      '(p, m1, v1) <- efc (d_mem st) (d_iov st) n ;;
      m2 <- store64 m1 a p ;;
      if p =? 0 then
        if fix_fail_len c then m3 <- store64 m2 (a + 8) 0 ;; Ok (mkD m3 v1 true)
        else Ok (mkD m2 v1 true)
      else Ok (mkD m2 v1 (d_failed st)).

  (* process_field(iovec_array&) 446-455; x.assign + sum() 192-204 *)
  Definition d_iovarr (st : dst) (a : Z) : res dst :=
    summed <- load64 (d_mem st) (a + 16) ;;
    '(ret, ptr, cnt, m1, v1) <- extract_front_view (d_mem st) (d_iov st) summed ;;
    if wrap ret =? summed then
      pieces <- load m1 ptr (cnt * 16) ;;          (* sum() re-reads the iovec array *)
      m2 <- store64 m1 a ptr ;;
      m3 <- store64 m2 (a + 8) (cnt * 16) ;;
      m4 <- store64 m3 (a + 16) (if cnt =? 0 then 0 else summed) ;;
      Ok (mkD m4 v1 (d_failed st))
    else Ok (mkD m1 v1 true).

  Fixpoint d_field (f : field) (st : dst) (a : Z) {struct f} : res dst :=
    match f with
    | FFixed _ => Ok st
    | FBuf | FStr | FFixBuf _ => d_buffer st a
    | FABuf => if fix_nested_al c then d_buffer st a else Ok st
    | FIov => d_iovarr st a
    | FAIov => if fix_nested_al c then d_iovarr st a else Ok st
    | FArr esz efs =>
        st1 <- d_buffer st a ;;
        p <- load64 (d_mem st1) a ;;
        n <- load64 (d_mem st1) (a + 8) ;;
        if n / esz =? 0 then Ok st1 else
        (* `for (auto& i : x)` over a failed extraction (null _ptr, wire _len): element references
           at address 0 + k*esz; undefined pointer arithmetic, a 2^60-iteration spin unless the
           optimizer removes the loop, a SEGV when the element type has fields to process *)
        if p =? 0 then Err EOOB else
        if fields_active efs then
          (fix loop (k : nat) (st : dst) (e : Z) : res dst :=
             match k with
             | O => Ok st
             | S k' => st' <- d_fields efs st e ;; loop k' st' (e + esz)
             end) (Z.to_nat (n / esz)) st1 p
        else Ok st1
    | FNest fs => d_fields fs st a
    | FMap _ _ =>
        st1 <- d_buffer st a ;;
        d_buffer st1 (a + 16)
    end
  with d_fields (fs : fields) (st : dst) (base : Z) {struct fs} : res dst :=
    match fs with
    | FNil => Ok st
    | FCons off f r => st1 <- d_field f st (base + off) ;; d_fields r st1 base
    end.

  Fixpoint d_pass (aligned : bool) (fs : fields) (st : dst) (base : Z) : res dst :=
    match fs with
    | FNil => Ok st
    | FCons off f r =>
        st1 <- (match f with
                | FABuf => if aligned then d_buffer st (base + off) else Ok st
                | FAIov => if aligned then d_iovarr st (base + off) else Ok st
                | _ => if aligned then Ok st else d_field f st (base + off)
                end) ;;
        d_pass aligned r st1 base
    end.

  (* CheckedMessage::validate_checksum 266-275 *)
  Definition validate_checksum (m : mem) (v : iovs) (t size : Z) : res (bool * mem) :=
    dst0 <- load32 m t ;;
    m1 <- store32 m t 0 ;;
    m2 <- hash_iov m1 t (i_el v) ;;
    h1 <- load32 m2 t ;;
    body <- load m2 t size ;;            (* the body is hashed with the running value in its checksum field *)
    let h := hash_ext h1 body in
    m3 <- store32 m2 t h ;;
    Ok (dst0 =? h, m3).

  (* DeserializerIOV::deserialize 457-477.  Returns (T* or 0, final state). *)
  Definition deserialize (sh : shape) (m : mem) (v : iovs) : res (Z * dst) :=
    '(t, m1, v1) <- ebc m v (sh_size sh) ;;
    if t =? 0 then Ok (0, mkD m1 v1 true) else
    '(okc, m2) <- (if sh_checked sh then validate_checksum m1 v1 t (sh_size sh) else Ok (true, m1)) ;;
    if negb okc then Ok (0, mkD m2 v1 true) else
    st1 <- d_pass true (sh_fields sh) (mkD m2 v1 false) t ;;
    st2 <- d_pass false (sh_fields sh) st1 t ;;
    Ok ((if d_failed st2 then 0 else t), st2).

  (* ---------- accessors on a deserialized message ---------- *)
  (* what the harness prints while it reads every byte of every field *)
  Inductive item :=
  | IFix (bs : list byte)
  | IBuf (p n : Z) (bs : list byte)
  | IStr (p n : Z) (bs : list byte) (svn : Z) (sv : list byte)
  | IArr (p n : Z) (bs : list byte) (elems : list (list item))
  | IIov (p n summed : Z) (parts : list (Z * Z * list byte))
  | INest (its : list item)
  | IMap (ip inn : Z) (ibs : list byte) (bp bn : Z) (bbs : list byte).

  (* string::sv() 107 *)
  Definition sv_of (p n : Z) : Z * Z :=
    if (n =? 0) && fix_sv c then (p, 0) else (p, wrap (n - 1)).

  Fixpoint load_iovecs (m : mem) (p : Z) (k : nat) : res (list (Z * Z * list byte)) :=
    match k with
    | O => Ok []
    | S k' =>
        b <- load64 m p ;;
        n <- load64 m (p + 8) ;;
        d <- load m b n ;;
        r <- load_iovecs m (p + 16) k' ;;
        Ok ((b, n, d) :: r)
    end.

  Fixpoint w_field (f : field) (m : mem) (a : Z) {struct f} : res item :=
    match f with
    | FFixed n => bs <- load m a n ;; Ok (IFix bs)
    | FBuf | FFixBuf _ | FABuf =>
        p <- load64 m a ;; n <- load64 m (a + 8) ;; bs <- load m p n ;; Ok (IBuf p n bs)
    | FStr =>
        p <- load64 m a ;; n <- load64 m (a + 8) ;; bs <- load m p n ;;
        let '(sp, sn) := sv_of p n in
        sv <- load m sp sn ;;
        Ok (IStr p n bs sn sv)
    | FArr esz efs =>
        p <- load64 m a ;; n <- load64 m (a + 8) ;; bs <- load m p n ;;
        if fields_active efs then
          es <- (fix loop (k : nat) (e : Z) : res (list (list item)) :=
                   match k with
                   | O => Ok []
                   | S k' => it <- w_fields efs m e ;; r <- loop k' (e + esz) ;; Ok (it :: r)
                   end) (Z.to_nat (n / esz)) p ;;
          Ok (IArr p n bs es)
        else Ok (IArr p n bs [])
    | FIov | FAIov =>
        p <- load64 m a ;; n <- load64 m (a + 8) ;; s <- load64 m (a + 16) ;;
        parts <- load_iovecs m p (Z.to_nat (n / 16)) ;;
        Ok (IIov p n s parts)
    | FNest fs => its <- w_fields fs m a ;; Ok (INest its)
    | FMap _ _ =>
        ip <- load64 m a ;; inn <- load64 m (a + 8) ;; ibs <- load m ip inn ;;
        bp <- load64 m (a + 16) ;; bn <- load64 m (a + 24) ;; bbs <- load m bp bn ;;
        Ok (IMap ip inn ibs bp bn bbs)
    end
  with w_fields (fs : fields) (m : mem) (base : Z) {struct fs} : res (list item) :=
    match fs with
    | FNil => Ok []
    | FCons off f r => it <- w_field f m (base + off) ;; its <- w_fields r m base ;; Ok (it :: its)
    end.

  (* ---------- slice / sorted_map 126-164, 481-531 ---------- *)
  (* slice::anchor 133-136: returns the string (ptr, len) *)
  Definition anchor (off length bp bn : Z) : Z * Z :=
    if fix_anchor c then
      if (signed64 off <? 0) || (bn <? length) || (bn - length <? off) then (0, 0)
      else (wrap (bp + off), length)
    else (wrap (bp + off), length).

  (* lexicographic unsigned-byte comparison of two string_views: a < b *)
  Fixpoint bytes_lt (a b : list byte) : bool :=
    match a, b with
    | _, [] => false
    | [], _ :: _ => true
    | x :: a', y :: b' => if x <? y then true else if y <? x then false else bytes_lt a' b'
    end.

  (* (a | base) < (k | base) for an index entry at address e and the caller's key bytes k
     (k includes its terminating NUL, like every rpc::string): memcmp reads
     min(len) bytes of the anchored key *)
  Definition entry_lt_key (m : mem) (e bp bn : Z) (k : list byte) : res bool :=
    koff <- load64 m e ;; klen <- load64 m (e + 8) ;;
    let '(p, n) := anchor koff klen bp bn in
    let '(sp, sn) := sv_of p n in
    let '(_, kn) := sv_of 1 (len k) in
    let cmpn := Z.min sn kn in
    da <- load m sp cmpn ;;
    let db := firstn (Z.to_nat cmpn) k in
    Ok (if bytes_lt da db then true else if bytes_lt db da then false else sn <? kn).

  (* std::lower_bound (libstdc++ __lower_bound) over index[0..cnt) *)
  Fixpoint lower_bound (fuel : nat) (m : mem) (ip bp bn : Z) (k : list byte) (first length : Z) : res Z :=
    match fuel with
    | O => Ok first
    | S fuel' =>
        if length <=? 0 then Ok first else
        let half := length / 2 in
        let mid := first + half in
        lt <- entry_lt_key m (ip + 32 * mid) bp bn k ;;
        if lt then lower_bound fuel' m ip bp bn k (mid + 1) (length - half - 1)
        else lower_bound fuel' m ip bp bn k first half
    end.

  (* sorted_map::find 524-527: position of the returned iterator (== cnt means end()) *)
  Definition map_find (m : mem) (a : Z) (k : list byte) : res Z :=
    ip <- load64 m a ;; inn <- load64 m (a + 8) ;;
    bp <- load64 m (a + 16) ;; bn <- load64 m (a + 24) ;;
    lower_bound (Z.to_nat (inn / 32) + 1) m ip bp bn k 0 (inn / 32).

  (* Iterator::deserialize 503-513 for the entry at position i; m_pair is
     (key ptr, key len, bytes of the V copy).  Returns the new memory and pair. *)
  Definition map_deref (vsz : Z) (vfs : fields) (m : mem) (a i : Z) (pair : Z * Z * list byte)
    : res (mem * (Z * Z * list byte)) :=
    ip <- load64 m a ;;
    bp <- load64 m (a + 16) ;; bn <- load64 m (a + 24) ;;
    let e := ip + 32 * i in
    voff <- load64 m (e + 16) ;; vlen <- load64 m (e + 24) ;;
    let '(sp, sn) := anchor voff vlen bp bn in
    '(t, st) <- deserialize (mkShape vsz false vfs) m (mkIov 4 [(sp, sn)] 0 32) ;;
    if t =? 0 then Ok (d_mem st, pair) else
    koff <- load64 (d_mem st) e ;; klen <- load64 (d_mem st) (e + 8) ;;
    let '(kp, kn) := anchor koff klen bp bn in
    vb <- load (d_mem st) t vsz ;;
    Ok (d_mem st, (kp, kn, vb)).

  End WithCfg.
End Hash.

(* ---- CRC32C (common/checksum/crc.cpp 83-117: reflected, poly 0x82f63b78, no pre/post
   inversion): the per-byte step of crc32c_extend ----------------------------------- *)
Definition CRC32C_POLY : Z := 2197175160.
Definition crc_bit (c : Z) : Z := Z.lxor (Z.shiftr c 1) (if Z.odd c then CRC32C_POLY else 0).
Definition crc32c_step (crc : Z) (b : byte) : Z :=
  crc_bit (crc_bit (crc_bit (crc_bit (crc_bit (crc_bit (crc_bit (crc_bit (Z.lxor crc b)))))))).
