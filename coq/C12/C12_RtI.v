(* C12_RtI.v — ser_roundtrip, receiver half, for ALL shapes including iovec_array / aligned_iovec_array
   fields: the field recursion of C12_RtD.v redone without the restriction sup_f, with the FIov case:
   extract_front(bytes, OUT view) records pieces that denote the first summed_size bytes of the flat
   string (C12_View.v), the iovec array written into the fresh slot reads back as those pieces, and the
   value (summed_size, concatenated bytes) equals the sender's.  The sender's value must carry accurate
   summed_size fields (vsum) — SerializerIOV::process_field(iovec_array&) establishes exactly that. *)
From Coq Require Import ZArith List Bool Lia.
From PV Require Import Base.U64 C12.C12_Model C12.C12_Mem C12.C12_MemC C12.C12_Iov C12.C12_Flat C12.C12_Deser C12.C12_Sep C12.C12_Wire C12.C12_RtD C12.C12_RtS C12.C12_Rt C12.C12_RtC C12.C12_RtC2 C12.C12_Hx C12.C12_View C12.C12_Hb.
Import ListNotations.
Local Open Scope Z_scope.

(* summed_size of every iovec array in a value equals the number of its bytes *)
Fixpoint vsum (v : value) : Prop :=
  match v with
  | VIov s bs => s = len bs
  | VArr _ _ es =>
      (fix go2 (l : list (list value)) : Prop :=
         match l with
         | [] => True
         | x :: r => (fix go (l1 : list value) : Prop := match l1 with [] => True | y :: r1 => vsum y /\ go r1 end) x /\ go2 r
         end) es
  | VNest vs => (fix go (l1 : list value) : Prop := match l1 with [] => True | y :: r1 => vsum y /\ go r1 end) vs
  | _ => True
  end.
Definition vsums := fix go (l1 : list value) : Prop := match l1 with [] => True | y :: r1 => vsum y /\ go r1 end.
Definition vsumss := fix go2 (l : list (list value)) : Prop := match l with [] => True | x :: r => vsums x /\ go2 r end.
Lemma vsum_nest vs : vsum (VNest vs) = vsums vs. Proof. reflexivity. Qed.
Lemma vsum_arr n bs es : vsum (VArr n bs es) = vsumss es. Proof. reflexivity. Qed.

Lemma vsums_app a b : vsums (a ++ b) <-> vsums a /\ vsums b.
Proof. induction a as [|x r IH]; cbn [app vsums]; [tauto|]. fold vsums. rewrite IH. tauto. Qed.

(* ---- process_field(iovec_array&) against the flat string ---- *)
Lemma d_iovarr_rt st a Own c0 bs w' :
  Rinv (d_mem st) (d_iov st) (bs ++ w') Own -> In c0 Own -> within (a, 24) c0 ->
  load64 (d_mem st) (a + 16) = Ok (len bs) ->
  i_nb (d_iov st) < i_cap (d_iov st) ->
  exists st' new, d_iovarr st a = Ok st' /\ step_post st st' Own new w' 1 [(a, 24)] /\
    exists F, rd_f FIov (d_mem st') a = Ok (VIov (len bs) bs, bs, F) /\ fpok F [(a, 24)] new.
Proof.
  intros [Hinv [Hf [Hpe [HpO [HeO HvO]]]]] Hc0 Wa Ls Hcap.
  assert (HR0 : HR (d_mem st) (d_iov st) Own) by (unfold HR; auto).
  assert (Hv24 : validb (lens (d_mem st)) a 24 = true).
  { apply (validb_sub' _ (fst c0) (snd c0)); [eapply inv_wf; eauto|apply HvO; exact Hc0| |]; unfold within in Wa; cbn [fst snd] in Wa; lia. }
  destruct (d_iovarr_ok st a 24 ltac:(lia) Hinv Hv24) as [st' [Hrun _]].
  exists st'.
  destruct (d_iovarr_cases st a st' Own c0 (bs ++ w') HR0 Hc0 Wa Hf Hrun) as [[_ [S [LS Hbad]]]|Hok].
  { rewrite Ls in LS. inversion LS. subst S. rewrite len_app in Hbad. pose proof (len_nonneg w'). lia. }
  destruct Hok as [Hfl [Hc [Hn [new [S [HP [HS [HLS [Hfl' [F [Hrd Hfp]]]]]]]]]]].
  specialize (HLS Hcap). rewrite Ls in HLS. inversion HLS. subst S.
  assert (Hnb : Z.to_nat (len bs) = length bs) by (unfold len; lia).
  rewrite (firstn_app_exact _ _ _ Hnb) in Hrd. rewrite (skipn_app_exact _ _ _ Hnb) in Hfl'.
  exists new. split; [exact Hrun|]. split.
  { destruct HP as [[Hi' [Hpe' [HpO' [HeO' HvO']]]] [Hx [_ [_ Fr]]]]. unfold step_post.
    split; [exact Hfl|]. split; [unfold Rinv; auto 10|]. split; [exact Hx|]. split; [exact Hc|]. split; [lia|exact Fr]. }
  exists F. split; [exact Hrd|exact Hfp].
Qed.

Section RT.
Variable ms : mem.
Hypothesis ms_wf : Forall (fun L => L <= STRIDE) (lens ms).

Definition Pf' (f : field) : Prop := forall avail st a sa Own c0 val wf Fs w',
  field_wf avail f -> lay_f f -> psep (aranges_f f a) ->
  Rinv (d_mem st) (d_iov st) (wf ++ w') Own -> In c0 Own -> within (a, avail) c0 ->
  rd_f f ms sa = Ok (val, wf, Fs) -> vsum val -> eq_f f (d_mem st) a ms sa ->
  i_nb (d_iov st) + len Fs <= i_cap (d_iov st) ->
  exists st' new, d_field cfg_final f st a = Ok st' /\
    step_post st st' Own new w' (len Fs) (aranges_f f a) /\
    exists w2 F, rd_f f (d_mem st') a = Ok (val, w2, F) /\ fpok F (aranges_f f a) new.

Definition Pfs' (fs : fields) : Prop := forall sz st base sbase Own c0 vals wf Fs w',
  fields_wf sz fs -> lay_fs fs -> psep (aranges_fs fs base) ->
  Rinv (d_mem st) (d_iov st) (wf ++ w') Own -> In c0 Own -> within (base, sz) c0 ->
  rd_fs fs ms sbase = Ok (vals, wf, Fs) -> vsums vals -> eq_fs fs (d_mem st) base ms sbase ->
  i_nb (d_iov st) + len Fs <= i_cap (d_iov st) ->
  exists st' new, d_fields cfg_final fs st base = Ok st' /\
    step_post st st' Own new w' (len Fs) (aranges_fs fs base) /\
    exists w2 F, rd_fs fs (d_mem st') base = Ok (vals, w2, F) /\ fpok F (aranges_fs fs base) new.

Lemma iov_case avail st a sa Own c0 val wf Fs w' :
  24 <= avail ->
  Rinv (d_mem st) (d_iov st) (wf ++ w') Own -> In c0 Own -> within (a, avail) c0 ->
  rd_f FIov ms sa = Ok (val, wf, Fs) -> vsum val -> load64 (d_mem st) (a + 16) = load64 ms (sa + 16) ->
  i_nb (d_iov st) + len Fs <= i_cap (d_iov st) ->
  exists st' new, d_iovarr st a = Ok st' /\
    step_post st st' Own new w' (len Fs) [(a, 24)] /\
    exists w2 F, rd_f FIov (d_mem st') a = Ok (val, w2, F) /\ fpok F [(a, 24)] new.
Proof.
  intros Hav HR Hc0 Wc Hrd Hvs Heq Hnb. cbn [rd_f] in Hrd.
  destruct (load64 ms sa) as [ps|]; cbn [bind] in Hrd; [|discriminate].
  destruct (load64 ms (sa + 8)) as [ns|]; cbn [bind] in Hrd; [|discriminate].
  destruct (load64 ms (sa + 16)) as [s|] eqn:Ls; cbn [bind] in Hrd; [|discriminate].
  destruct (rd_iovecs ms ps (Z.to_nat (ns / 16))) as [[bs Fp]|]; cbn [bind] in Hrd; [|discriminate].
  inversion Hrd. subst val wf Fs. clear Hrd. cbn [vsum] in Hvs. subst s. rewrite len2 in Hnb. pose proof (len_nonneg Fp) as HFp.
  assert (Wa : within (a, 24) c0) by (unfold within in *; cbn [fst snd] in *; lia).
  destruct (d_iovarr_rt st a Own c0 bs w' HR Hc0 Wa Heq ltac:(lia)) as [st' [new [Hrun [SP [F [Hr Hfp]]]]]].
  exists st', new. split; [exact Hrun|]. split.
  { destruct SP as [A [B [C [D [E G]]]]]. unfold step_post. rewrite len2. repeat (split; [assumption|]). split; [lia|exact G]. }
  exists bs, F. split; [exact Hr|exact Hfp].
Qed.

Lemma loop_rt' efs esz : Pfs' efs -> 0 < esz -> fields_wf esz efs -> lay_fs efs -> (forall e, psep (aranges_fs efs e)) ->
  forall k st e se Own c0 vss we Fe w',
  Rinv (d_mem st) (d_iov st) (we ++ w') Own -> In c0 Own -> within (e, Z.of_nat k * esz) c0 ->
  rd_elems (rd_fs efs ms) k se esz = Ok (vss, we, Fe) -> vsumss vss -> blk (d_mem st) e ms se (Z.of_nat k * esz) ->
  i_nb (d_iov st) + len Fe <= i_cap (d_iov st) ->
  exists st' new, d_loop efs esz k st e = Ok st' /\
    step_post st st' Own new w' (len Fe) [(e, Z.of_nat k * esz)] /\
    exists w2 F, rd_elems (rd_fs efs (d_mem st')) k e esz = Ok (vss, w2, F) /\ fpok F [(e, Z.of_nat k * esz)] new.
Proof.
  intros HP Hesz Hwf Hlay Hps. induction k as [|k IH]; intros st e se Own c0 vss we Fe w' HR Hc0 Wc Hrd Hvs B Hnb.
  - cbn [rd_elems] in Hrd. inversion Hrd. subst vss we Fe. exists st, []. split; [reflexivity|].
    split; [apply step_post_refl; [exact HR|cbn; lia]|]. exists [], []. split; [reflexivity|]. intros r [].
  - assert (HS : Z.of_nat (S k) * esz = Z.of_nat k * esz + esz) by lia. rewrite HS in Wc. rewrite HS in B. rewrite HS. clear HS. set (K := Z.of_nat k) in *. assert (HK : 0 <= K) by (unfold K; lia).
    assert (HKe : 0 <= K * esz) by nia.
    cbn [rd_elems] in Hrd.
    destruct (rd_fs efs ms se) as [[[v1 w1] F1]|] eqn:E1; cbn [bind] in Hrd; [|discriminate].
    destruct (rd_elems (rd_fs efs ms) k (se + esz) esz) as [[[vs w2] F2]|] eqn:E2; cbn [bind] in Hrd; [|discriminate].
    inversion Hrd. subst vss we Fe. clear Hrd. rewrite <- app_assoc in HR. rewrite len_app in Hnb. destruct Hvs as [Hv1 Hvs].
    pose proof (len_nonneg F1) as HF1. pose proof (len_nonneg F2) as HF2.
    assert (W1 : within (e, esz) c0) by (unfold within in *; cbn [fst snd] in *; lia).
    assert (W2 : within (e + esz, K * esz) c0) by (unfold within in *; cbn [fst snd] in *; lia).
    destruct (HP esz st e se Own c0 v1 w1 F1 (w2 ++ w') Hwf Hlay (Hps e) HR Hc0 W1 E1 Hv1) as [st1 [new1 [Hd1 [SP1 [w21 [F1' [Hr1 Hf1]]]]]]].
    { apply (proj2 (blk_eq _ _) efs esz e se Hwf). eapply blk_sub; [exact B|lia]. }
    { lia. }
    destruct SP1 as [Hfl1 [HR1 [Hx1 [Hc1 [Hn1 Hfr1]]]]].
    assert (HS1 : forall s, In s (aranges_fs efs e) -> within s (e, esz)) by (apply (proj2 aranges_within efs esz e Hwf)).
    destruct (IH st1 (e + esz) (se + esz) (Own ++ new1) c0 vs w2 F2 w' HR1 ltac:(apply in_or_app; left; exact Hc0) W2 E2 Hvs) as [st2 [new2 [Hd2 [SP2 [w22 [F2' [Hr2 Hf2]]]]]]].
    { intros o j Ho Hj Hoj. rewrite Hfr1.
      - replace (K * esz) with (K * esz + esz - esz) in Hoj by lia. apply (blk_shift _ _ _ _ _ esz B ltac:(lia)); lia.
      - exists c0. split; [exact Hc0|]. unfold within in *. cbn [fst snd] in *. lia.
      - intros r Hr. eapply sep_sub_r; [|apply HS1; exact Hr]. unfold sep. cbn [fst snd]. lia. }
    { lia. }
    destruct SP2 as [Hfl2 [HR2 [Hx2 [Hc2 [Hn2 Hfr2]]]]].
    exists st2, (new1 ++ new2). split; [rewrite d_loop_S, Hd1; cbn [bind]; exact Hd2|]. split.
    { unfold step_post. split; [congruence|]. split; [rewrite app_assoc; exact HR2|]. split; [eapply ext_trans; eauto|].
      split; [congruence|]. split; [rewrite len_app; lia|].
      intros x j Hc Hs. rewrite Hfr2.
      - apply Hfr1; [exact Hc|]. intros r Hr. eapply sep_sub_r; [apply Hs; left; reflexivity|].
        eapply within_trans; [apply HS1; exact Hr|]. unfold within. cbn [fst snd]. lia.
      - destruct Hc as [c [Hc Wx]]. exists c. split; [apply in_or_app; left; exact Hc|exact Wx].
      - intros r [<-|[]]. eapply sep_sub_r; [apply Hs; left; reflexivity|]. unfold within. cbn [fst snd]. lia. }
    destruct HR1 as [_ [_ [_ [HpO1 _]]]].
    assert (St : forall r, In r F1' -> agree (d_mem st1) (d_mem st2) r).
    { apply (stab _ _ Own new1 F1' (aranges_fs efs e) [(e + esz, K * esz)] c0 Hf1 Hfr2 HpO1 Hc0).
      - intros s Hs. eapply within_trans; [apply HS1; exact Hs|exact W1].
      - intros s [<-|[]]. exact W2.
      - intros s1 s2 Hs1 [<-|[]]. eapply within_sep; [apply HS1; exact Hs1|]. unfold sep. cbn [fst snd]. lia. }
    exists (w21 ++ w22), (F1' ++ F2'). split.
    { cbn [rd_elems]. rewrite (proj2 (rd_stable _ _) efs e _ Hr1 St). cbn [bind]. rewrite Hr2. reflexivity. }
    intros r Hr. apply in_app_or in Hr. destruct Hr as [Hr|Hr].
    + destruct (Hf1 r Hr) as [H|[[s [Hs Ws]]|[c [Hc Wx]]]]; [left; exact H| |].
      * right. left. exists (e, K * esz + esz). split; [left; reflexivity|]. eapply within_trans; [exact Ws|].
        eapply within_trans; [apply HS1; exact Hs|]. unfold within. cbn [fst snd]. lia.
      * right. right. exists c. split; [apply in_or_app; left; exact Hc|exact Wx].
    + destruct (Hf2 r Hr) as [H|[[s [[<-|[]] Ws]]|[c [Hc Wx]]]]; [left; exact H| |].
      * right. left. exists (e, K * esz + esz). split; [left; reflexivity|]. eapply within_trans; [exact Ws|].
        unfold within. cbn [fst snd]. lia.
      * right. right. exists c. split; [apply in_or_app; right; exact Hc|exact Wx].
Qed.

Lemma rt_all' : (forall f, Pf' f) /\ (forall fs, Pfs' fs).
Proof.
  apply field_fields_mut.
  - (* FFixed *) intros n avail st a sa Own c0 val wf Fs w' Hwf _ _ HR Hc0 Wc Hrd _ Heq Hnb.
    cbn [rd_f] in Hrd. destruct (load ms sa n) as [bs|] eqn:Lbs; cbn [bind] in Hrd; [|discriminate].
    inversion Hrd. subst val wf Fs. cbn [eq_f] in Heq. cbn [app] in HR.
    exists st, []. split; [reflexivity|]. split; [apply step_post_refl; [exact HR|apply len_nonneg]|].
    exists [], [(a, n)]. split; [cbn [rd_f]; rewrite Heq, Lbs; reflexivity|].
    intros r [<-|[]]. right. left. exists (a, n). split; [left; reflexivity|apply within_refl].
  - (* FBuf *) intros avail st a sa Own c0 val wf Fs w' Hwf Hlay Hps HR Hc0 Wc Hrd _ Heq Hnb.
    exact (proj1 (rt_all ms ms_wf) FBuf avail st a sa Own c0 val wf Fs w' Hwf I Hlay Hps HR Hc0 Wc Hrd Heq Hnb).
  - (* FStr *) intros avail st a sa Own c0 val wf Fs w' Hwf Hlay Hps HR Hc0 Wc Hrd _ Heq Hnb.
    exact (proj1 (rt_all ms ms_wf) FStr avail st a sa Own c0 val wf Fs w' Hwf I Hlay Hps HR Hc0 Wc Hrd Heq Hnb).
  - (* FFixBuf *) intros n avail st a sa Own c0 val wf Fs w' Hwf Hlay Hps HR Hc0 Wc Hrd _ Heq Hnb.
    exact (proj1 (rt_all ms ms_wf) (FFixBuf n) avail st a sa Own c0 val wf Fs w' Hwf I Hlay Hps HR Hc0 Wc Hrd Heq Hnb).
  - (* FABuf *) intros avail st a sa Own c0 val wf Fs w' Hwf Hlay Hps HR Hc0 Wc Hrd _ Heq Hnb.
    exact (proj1 (rt_all ms ms_wf) FABuf avail st a sa Own c0 val wf Fs w' Hwf I Hlay Hps HR Hc0 Wc Hrd Heq Hnb).
  - (* FArr *) intros esz efs IH avail st a sa Own c0 val wf Fs w' [Hw16 [Hesz Hwfe]] [Hpse Hlaye] _ HR Hc0 Wc Hrd Hvs Heq Hnb.
    cbn [eq_f] in Heq. cbn [rd_f] in Hrd. cbn [aranges_f].
    destruct (load64 ms sa) as [ps|] eqn:Lps; cbn [bind] in Hrd; [|discriminate].
    destruct (load64 ms (sa + 8)) as [ns|] eqn:Lns; cbn [bind] in Hrd; [|discriminate].
    destruct (load ms ps ns) as [bs|] eqn:Lbs; cbn [bind] in Hrd; [|discriminate].
    assert (Wa : within (a, 16) c0) by (unfold within in *; cbn [fst snd] in *; lia).
    destruct (fields_active efs) eqn:Ea.
    2:{ (* elements without fields: like a buffer *)
      inversion Hrd. subst val wf Fs. clear Hrd. rewrite len2, len_nil in Hnb.
      destruct (d_buffer_rt st a Own c0 ms sa ps ns bs w' HR Hc0 Wa Lps Lns Lbs ltac:(rewrite Lns; exact Heq) ltac:(lia))
        as [st' [new [p [Hdb [Hfl [HR' [Hx [Hc [Hn [L1 [L2 [L3 [Hnew Hfr]]]]]]]]]]]]].
      assert (Hdf : d_field cfg_final (FArr esz efs) st a = Ok st').
      { rewrite d_field_arr, Hdb. cbn [bind]. rewrite L1. cbn [bind]. rewrite L2. cbn [bind].
        destruct (ns / esz =? 0) eqn:Ez; [reflexivity|]. apply Z.eqb_neq in Ez.
        destruct (p =? 0) eqn:Ep; [|rewrite Ea; reflexivity]. apply Z.eqb_eq in Ep.
        destruct Hnew as [[-> _]|[_ [Hp _]]]; [rewrite Z.div_0_l in Ez by lia; congruence|congruence]. }
      exists st', new. split; [exact Hdf|]. split.
      { unfold step_post. rewrite len2, len_nil. split; [exact Hfl|]. split; [exact HR'|]. split; [exact Hx|]. split; [exact Hc|]. split; [lia|exact Hfr]. }
      exists bs, [(a, 16); (p, ns)]. split.
      { cbn [rd_f]. rewrite L1. cbn [bind]. rewrite L2. cbn [bind]. rewrite L3. cbn [bind]. rewrite Ea. reflexivity. }
      intros r [<-|[<-|[]]].
      - right. left. exists (a, 16). split; [left; reflexivity|apply within_refl].
      - destruct Hnew as [[-> ->]|[-> _]]; [left; cbn; lia|]. right. right. exists (p, ns). split; [left; reflexivity|apply within_refl]. }
    (* array of messages *)
    destruct (rd_elems (rd_fs efs ms) (Z.to_nat (ns / esz)) ps esz) as [[[vs we] Fe]|] eqn:Ee; cbn [bind] in Hrd; [|discriminate].
    inversion Hrd. subst val wf Fs. clear Hrd. rewrite len2 in Hnb. pose proof (len_nonneg Fe) as HFe. rewrite vsum_arr in Hvs.
    rewrite <- app_assoc in HR.
    destruct (d_buffer_rt st a Own c0 ms sa ps ns bs (we ++ w') HR Hc0 Wa Lps Lns Lbs ltac:(rewrite Lns; exact Heq) ltac:(lia))
      as [st1 [new [p [Hdb [Hfl [HR1 [Hx [Hc [Hn [L1 [L2 [L3 [Hnew Hfr]]]]]]]]]]]]].
    assert (Hdf : d_field cfg_final (FArr esz efs) st a = d_loop efs esz (Z.to_nat (ns / esz)) st1 p).
    { rewrite d_field_arr, Hdb. cbn [bind]. rewrite L1. cbn [bind]. rewrite L2. cbn [bind].
      destruct (ns / esz =? 0) eqn:Ez; [apply Z.eqb_eq in Ez; rewrite Ez; reflexivity|]. apply Z.eqb_neq in Ez.
      destruct (p =? 0) eqn:Ep; [|rewrite Ea; reflexivity]. apply Z.eqb_eq in Ep.
      destruct Hnew as [[-> _]|[_ [Hp _]]]; [rewrite Z.div_0_l in Ez by lia; congruence|congruence]. }
    destruct Hnew as [[Hns0 Hnew0]|[Hnew1 [Hp0 Hns0]]].
    { (* empty array *)
      subst ns new. rewrite Z.div_0_l in * by lia. cbn [Z.to_nat rd_elems] in Ee. inversion Ee. subst vs we Fe.
      exists st1, []. split; [rewrite Hdf; reflexivity|]. split.
      { unfold step_post. unfold len. cbn [length]. split; [exact Hfl|]. split; [exact HR1|]. split; [exact Hx|]. split; [exact Hc|]. split; [lia|exact Hfr]. }
      exists (bs ++ []), [(a, 16); (p, 0)]. split.
      { cbn [rd_f]. rewrite L1. cbn [bind]. rewrite L2. cbn [bind]. rewrite L3. cbn [bind]. rewrite Ea. rewrite Z.div_0_l by lia. reflexivity. }
      intros r [<-|[<-|[]]]; [|left; cbn; lia].
      right. left. exists (a, 16). split; [left; reflexivity|apply within_refl]. }
    subst new. set (k := Z.to_nat (ns / esz)) in *.
    pose proof HR1 as [Hinv1 [_ [_ [HpO1 [_ HvO1]]]]].
    pose proof (inv_wf _ _ Hinv1) as Hwf1.
    assert (Hns : 0 <= ns).
    { pose proof (load64_range _ _ _ (inv_bytes _ _ Hinv1) L2). lia. }
    assert (Hk : Z.of_nat k * esz <= ns).
    { unfold k. rewrite Z2Nat.id by (apply Z.div_pos; lia). pose proof (Z.mul_div_le ns esz Hesz). lia. }
    assert (Hin1 : In (p, ns) (Own ++ [(p, ns)])) by (apply in_or_app; right; left; reflexivity).
    assert (Wp : within (p, Z.of_nat k * esz) (p, ns)) by (unfold within; cbn [fst snd]; lia).
    destruct (loop_rt' efs esz IH Hesz Hwfe Hlaye Hpse k st1 p ps (Own ++ [(p, ns)]) (p, ns) vs we Fe w' HR1 Hin1 Wp Ee Hvs)
      as [st2 [new2 [Hd2 [SP2 [w2 [F2 [Hr2 Hf2]]]]]]].
    { eapply blk_sub; [apply (blk_of_loads _ _ _ _ _ bs Hwf1 ms_wf L3 Lbs)|exact Hk]. }
    { lia. }
    destruct SP2 as [Hfl2 [HR2 [Hx2 [Hc2 [Hn2 Hfr2]]]]].
    assert (Hsp : sep c0 (p, ns)).
    { apply psep_app in HpO1. destruct HpO1 as [_ [_ Hxs]]. apply Hxs; [exact Hc0|left; reflexivity]. }
    assert (Hfr2' : forall x j, within (x, j) c0 -> load (d_mem st2) x j = load (d_mem st1) x j).
    { intros x j Wx. apply Hfr2; [exists c0; split; [apply in_or_app; left; exact Hc0|exact Wx]|].
      intros r [<-|[]]. apply (within_sep2 _ c0 _ (p, ns) Wx Wp Hsp). }
    exists st2, ((p, ns) :: new2). split; [rewrite Hdf; exact Hd2|]. split.
    { unfold step_post. split; [congruence|]. split; [rewrite <- app_assoc in HR2; exact HR2|]. split; [eapply ext_trans; eauto|].
      split; [congruence|]. split; [rewrite len2; lia|].
      intros x j Hcx Hs. destruct Hcx as [c [Hcc Wx]]. rewrite Hfr2.
      - apply Hfr; [exists c; split; [exact Hcc|exact Wx]|exact Hs].
      - exists c. split; [apply in_or_app; left; exact Hcc|exact Wx].
      - intros r [<-|[]]. apply psep_app in HpO1. destruct HpO1 as [_ [_ Hxs]].
        apply (within_sep2 _ c _ (p, ns) Wx Wp). apply Hxs; [exact Hcc|left; reflexivity]. }
    assert (Hv2 : validb (lens (d_mem st2)) p ns = true).
    { eapply validb_ext; [exact Hx2|]. apply (HvO1 (p, ns) Hin1). }
    destruct (load_valid _ _ _ Hv2) as [bs2 Lbs2].
    exists (bs2 ++ w2), ((a, 16) :: (p, ns) :: F2). split.
    { cbn [rd_f]. unfold load64. rewrite (Hfr2' a 8) by (unfold within in *; cbn [fst snd] in *; lia).
      rewrite (Hfr2' (a + 8) 8) by (unfold within in *; cbn [fst snd] in *; lia).
      fold (load64 (d_mem st1) a). fold (load64 (d_mem st1) (a + 8)). rewrite L1. cbn [bind]. rewrite L2. cbn [bind].
      rewrite Lbs2. cbn [bind]. rewrite Ea. fold k. rewrite Hr2. reflexivity. }
    intros r [<-|[<-|Hr]].
    + right. left. exists (a, 16). split; [left; reflexivity|apply within_refl].
    + right. right. exists (p, ns). split; [left; reflexivity|apply within_refl].
    + destruct (Hf2 r Hr) as [H|[[s [[<-|[]] Ws]]|[c [Hcc Wx]]]]; [left; exact H| |].
      * right. right. exists (p, ns). split; [left; reflexivity|eapply within_trans; eauto].
      * right. right. exists c. split; [right; exact Hcc|exact Wx].
  - (* FIov *) intros avail st a sa Own c0 val wf Fs w' Hwf _ _ HR Hc0 Wc Hrd Hvs Heq Hnb.
    exact (iov_case avail st a sa Own c0 val wf Fs w' Hwf HR Hc0 Wc Hrd Hvs Heq Hnb).
  - (* FAIov *) intros avail st a sa Own c0 val wf Fs w' Hwf _ _ HR Hc0 Wc Hrd Hvs Heq Hnb.
    exact (iov_case avail st a sa Own c0 val wf Fs w' Hwf HR Hc0 Wc Hrd Hvs Heq Hnb).
  - (* FNest *) intros fs IH avail st a sa Own c0 val wf Fs w' Hwf Hlay Hps HR Hc0 Wc Hrd Hvs Heq Hnb.
    cbn [field_wf lay_f aranges_f eq_f rd_f d_field] in *.
    destruct (rd_fs fs ms sa) as [[[vs w1] F1]|] eqn:E1; cbn [bind] in Hrd; [|discriminate].
    inversion Hrd. subst val wf Fs. clear Hrd. rewrite vsum_nest in Hvs.
    destruct (IH avail st a sa Own c0 vs w1 F1 w' Hwf Hlay Hps HR Hc0 Wc E1 Hvs Heq Hnb) as [st' [new [Hd [SP [w2 [F [Hr Hf]]]]]]].
    exists st', new. split; [exact Hd|]. split; [exact SP|]. exists w2, F. split; [rewrite Hr; reflexivity|exact Hf].
  - (* FMap *) intros vsz vfs _ avail st a sa Own c0 val wf Fs w' Hwf Hlay Hps HR Hc0 Wc Hrd _ Heq Hnb.
    exact (proj1 (rt_all ms ms_wf) (FMap vsz vfs) avail st a sa Own c0 val wf Fs w' Hwf I Hlay Hps HR Hc0 Wc Hrd Heq Hnb).
  - (* FNil *) intros sz st base sbase Own c0 vals wf Fs w' _ _ _ HR _ _ Hrd _ _ _.
    cbn [rd_fs] in Hrd. inversion Hrd. subst vals wf Fs. cbn [app] in HR.
    exists st, []. split; [reflexivity|]. split; [apply step_post_refl; [exact HR|cbn; lia]|].
    exists [], []. split; [reflexivity|]. intros r [].
  - (* FCons *) intros off f IHf r IHr sz st base sbase Own c0 vals wf Fs w' [Ho [Hwf Hwr]] [Hlf Hlr] Hps HR Hc0 Wc Hrd Hvs [Heqf Heqr] Hnb.
    cbn [aranges_fs] in *. apply psep_app in Hps. destruct Hps as [Hpf [Hpr Hpx]].
    cbn [rd_fs] in Hrd.
    destruct (rd_f f ms (sbase + off)) as [[[v1 w1] F1]|] eqn:E1; cbn [bind] in Hrd; [|discriminate].
    destruct (rd_fs r ms sbase) as [[[vs w2] F2]|] eqn:E2; cbn [bind] in Hrd; [|discriminate].
    inversion Hrd. subst vals wf Fs. clear Hrd. rewrite <- app_assoc in HR. rewrite len_app in Hnb. destruct Hvs as [Hv1 Hvs].
    pose proof (len_nonneg F1) as HF1. pose proof (len_nonneg F2) as HF2.
    assert (W1 : within (base + off, sz - off) c0) by (unfold within in *; cbn [fst snd] in *; lia).
    destruct (IHf (sz - off) st (base + off) (sbase + off) Own c0 v1 w1 F1 (w2 ++ w') Hwf Hlf Hpf HR Hc0 W1 E1 Hv1 Heqf ltac:(lia))
      as [st1 [new1 [Hd1 [SP1 [w21 [F1' [Hr1 Hf1]]]]]]].
    destruct SP1 as [Hfl1 [HR1 [Hx1 [Hc1 [Hn1 Hfr1]]]]].
    assert (HS1 : forall s, In s (aranges_f f (base + off)) -> within s c0).
    { intros s Hs. eapply within_trans; [apply (proj1 aranges_within f (sz - off) (base + off) Hwf s Hs)|exact W1]. }
    assert (HS2 : forall s, In s (aranges_fs r base) -> within s c0).
    { intros s Hs. eapply within_trans; [apply (proj2 aranges_within r sz base Hwr s Hs)|exact Wc]. }
    destruct (IHr sz st1 base sbase (Own ++ new1) c0 vs w2 F2 w' Hwr Hlr Hpr HR1 ltac:(apply in_or_app; left; exact Hc0) Wc E2 Hvs)
      as [st2 [new2 [Hd2 [SP2 [w22 [F2' [Hr2 Hf2]]]]]]].
    { apply (proj2 (eq_stable (d_mem st) (d_mem st1) ms) r base sbase); [|exact Heqr].
      intros s Hs. eapply frame_agree; [exact Hfr1|exists c0; split; [exact Hc0|apply HS2; exact Hs]|].
      intros q Hq. apply sep_sym. apply Hpx; auto. }
    { lia. }
    destruct SP2 as [Hfl2 [HR2 [Hx2 [Hc2 [Hn2 Hfr2]]]]].
    exists st2, (new1 ++ new2). split; [rewrite d_fields_cons, Hd1; cbn [bind]; exact Hd2|]. split.
    { unfold step_post. split; [congruence|]. split; [rewrite app_assoc; exact HR2|]. split; [eapply ext_trans; eauto|].
      split; [congruence|]. split; [rewrite len_app; lia|].
      intros x j Hcx Hs. destruct Hcx as [c [Hcc Wx]]. rewrite Hfr2.
      - apply Hfr1; [exists c; split; [exact Hcc|exact Wx]|]. intros q Hq. apply Hs. apply in_or_app. left. exact Hq.
      - exists c. split; [apply in_or_app; left; exact Hcc|exact Wx].
      - intros q Hq. apply Hs. apply in_or_app. right. exact Hq. }
    destruct HR1 as [_ [_ [_ [HpO1 _]]]].
    assert (St : forall x, In x F1' -> agree (d_mem st1) (d_mem st2) x).
    { apply (stab _ _ Own new1 F1' (aranges_f f (base + off)) (aranges_fs r base) c0 Hf1 Hfr2 HpO1 Hc0 HS1 HS2). intros s1 s2 H1 H2. apply Hpx; auto. }
    exists (w21 ++ w22), (F1' ++ F2'). split.
    { cbn [rd_fs]. rewrite (proj1 (rd_stable _ _) f (base + off) _ Hr1 St). cbn [bind]. rewrite Hr2. reflexivity. }
    intros x Hx. apply in_app_or in Hx. destruct Hx as [Hx|Hx].
    + destruct (Hf1 x Hx) as [H|[[s [Hs Ws]]|[c [Hcc Wx]]]]; [left; exact H| |].
      * right. left. exists s. split; [apply in_or_app; left; exact Hs|exact Ws].
      * right. right. exists c. split; [apply in_or_app; left; exact Hcc|exact Wx].
    + destruct (Hf2 x Hx) as [H|[[s [Hs Ws]]|[c [Hcc Wx]]]]; [left; exact H| |].
      * right. left. exists s. split; [apply in_or_app; right; exact Hs|exact Ws].
      * right. right. exists c. split; [apply in_or_app; right; exact Hcc|exact Wx].
Qed.


End RT.

Section RT2.
  Variable hstep : Z -> byte -> Z.

  (* the receiver half of ser_roundtrip for every shape (unchecked): any fragmentation of the wire string *)
  Theorem deserialize_rt_iov sh ms x mr v vals wf Fs body :
    shape_wf sh -> sh_checked sh = false ->
    lay_fs (sh_fields sh) -> (forall b, psep (aranges_fs (sh_fields sh) b)) ->
    Forall (fun L => L <= STRIDE) (lens ms) ->
    rd_fs (perm (sh_fields sh)) ms x = Ok (vals, wf, Fs) -> vsums vals -> load ms x (sh_size sh) = Ok body ->
    inv mr v -> flat mr (i_el v) = Ok (wf ++ body) -> psep (i_el v) ->
    i_nb v + 1 + len Fs <= i_cap v ->
    exists t st w2 F, deserialize hstep cfg_final sh mr v = Ok (t, st) /\ t <> 0 /\
      ptr_ok (lens (d_mem st)) t (sh_size sh) /\
      rd_fs (perm (sh_fields sh)) (d_mem st) t = Ok (vals, w2, F) /\
      flat (d_mem st) (i_el (d_iov st)) = Ok [] /\
      inv (d_mem st) (d_iov st).
  Proof.
    intros [Hsz [Hwf Hck0]] Hck Hlay Hps Hmswf Hrd Hvs Lb Hinv Hfl Hpe Hnb.
    pose proof (len_nonneg Fs) as HFs.
    pose proof (load_len _ _ _ _ Lb) as Hlb. rewrite Z.max_r in Hlb by lia.
    assert (Hlw : len (wf ++ body) - sh_size sh = len wf) by (rewrite len_app; lia).
    destruct (ebc_flat mr v (sh_size sh) (wf ++ body) Hinv Hsz Hfl ltac:(rewrite len_app; pose proof (len_nonneg wf); lia) Hpe ltac:(lia))
      as [t [m1 [v1 [He X]]]].
    rewrite Hlw in X. rewrite (skipn_app_exact wf body (len wf)), (firstn_app_exact wf body (len wf)) in X by (unfold len; lia).
    pose proof X as [Hi1 [Hx1 [Hc1 [Hn1 [[Pv [Pp Pw]] [Lp [Fl1 [Ps1 [Pr1 [Sp1 [Fr1 _]]]]]]]]]]].
    unfold deserialize. rewrite He. cbn [bind]. destruct (t =? 0) eqn:Et; [apply Z.eqb_eq in Et; lia|].
    rewrite Hck. cbn [bind negb]. rewrite !d_pass_filt.
    set (st0 := mkD m1 v1 false).
    assert (Hwfp : fields_wf (sh_size sh) (perm (sh_fields sh))) by (apply fapp_wf; apply filt_wf; exact Hwf).
    assert (Hlp : lay_fs (perm (sh_fields sh))) by (apply fapp_lay; apply filt_lay; exact Hlay).
    assert (Hpp : psep (aranges_fs (perm (sh_fields sh)) t)) by (eapply psep_perm; [apply aranges_perm|apply Hps]).
    destruct (proj2 (rt_all' ms Hmswf) (perm (sh_fields sh)) (sh_size sh) st0 t x [(t, sh_size sh)] (t, sh_size sh) vals wf Fs []
                Hwfp Hlp Hpp) as [st2 [new [Hd [SP [w2 [F [Hr Hf]]]]]]].
    { rewrite app_nil_r. cbn [st0 d_mem d_iov]. split; [exact Hi1|]. split; [exact Fl1|]. split; [exact Ps1|].
      split; [split; [intros y []|exact I]|]. split; [intros e c He' [<-|[]]; apply Sp1; exact He'|].
      intros c [<-|[]]. exact Pv. }
    { left. reflexivity. }
    { apply within_refl. }
    { exact Hrd. }
    { exact Hvs. }
    { apply (proj2 (blk_eq _ _) _ (sh_size sh) t x Hwfp). cbn [st0 d_mem].
      apply (blk_of_loads _ _ _ _ _ body (inv_wf _ _ Hi1) Hmswf Lp Lb). }
    { cbn [st0 d_iov]. lia. }
    destruct SP as [Hfl2 [HR2 [Hx2 [Hc2 [Hn2 Hfr2]]]]]. cbn [st0 d_failed] in Hfl2.
    unfold perm in Hd. rewrite d_fields_app in Hd.
    destruct (d_fields cfg_final (filt true (sh_fields sh)) st0 t) as [st1|]; cbn [bind] in Hd |- *; [|discriminate Hd].
    rewrite d_pass_filt, Hd. cbn [bind]. rewrite Hfl2.
    exists t, st2, w2, F. split; [reflexivity|]. split; [lia|].
    destruct HR2 as [Hi2 [Fl2 _]].
    split; [split; [eapply validb_ext; [exact Hx2|exact Pv]|lia]|]. split; [exact Hr|]. split; [exact Fl2|exact Hi2].
  Qed.
End RT2.

Section RTCI.
  Variable hstep : Z -> byte -> Z.
  Hypothesis hstep_range : forall h b, 0 <= h < W32 -> 0 <= b < 256 -> 0 <= hstep h b < W32.

  Theorem deserialize_rt_checked_iov sh ms x mr v vals wf Fs body :
    shape_wf sh -> sh_checked sh = true ->
    lay_fs (sh_fields sh) -> (forall b, psep (aranges_fs (sh_fields sh) b)) ->
    Forall (fun L => L <= STRIDE) (lens ms) ->
    rd_fs (perm (sh_fields sh)) ms x = Ok (vals, wf, Fs) -> vsums vals -> load ms x (sh_size sh) = Ok body ->
    (* the stored word is the checksum the receiver recomputes *)
    le_dec (firstn 4 body) =
      hash_ext hstep (hash_ext hstep 0 wf) (le_enc 4 (hash_ext hstep 0 wf) ++ skipn 4 body) ->
    inv mr v -> flat mr (i_el v) = Ok (wf ++ body) -> psep (i_el v) ->
    i_nb v + 1 + len Fs <= i_cap v ->
    exists t st w2 F, deserialize hstep cfg_final sh mr v = Ok (t, st) /\ t <> 0 /\
      ptr_ok (lens (d_mem st)) t (sh_size sh) /\
      rd_fs (perm (sh_fields sh)) (d_mem st) t = Ok (vals, w2, F) /\
      flat (d_mem st) (i_el (d_iov st)) = Ok [].
  Proof.
    intros [Hsz [Hwf Hck0]] Hck Hlay Hps Hmswf Hrd Hvs Lb Hsum Hinv Hfl Hpe Hnb.
    specialize (Hck0 Hck).
    pose proof (len_nonneg Fs) as HFs.
    pose proof (load_len _ _ _ _ Lb) as Hlb. rewrite Z.max_r in Hlb by lia.
    assert (Hlw : len (wf ++ body) - sh_size sh = len wf) by (rewrite len_app; lia).
    destruct (ebc_flat mr v (sh_size sh) (wf ++ body) Hinv Hsz Hfl ltac:(rewrite len_app; pose proof (len_nonneg wf); lia) Hpe ltac:(lia))
      as [t [m1 [v1 [He X]]]].
    rewrite Hlw in X. rewrite (skipn_app_exact wf body (len wf)), (firstn_app_exact wf body (len wf)) in X by (unfold len; lia).
    pose proof X as [Hi1 [Hx1 [Hc1 [Hn1 [[Pv [Pp Pw]] [Lp [Fl1 [Ps1 [Pr1 [Sp1 [Fr1 _]]]]]]]]]]].
    unfold deserialize. rewrite He. cbn [bind]. destruct (t =? 0) eqn:Et; [apply Z.eqb_eq in Et; lia|].
    rewrite Hck.
    destruct (validate_flat hstep hstep_range m1 v1 t (sh_size sh) wf body Hi1 Hck0 Pv ltac:(lia)) as [m3 [Hv [Hl3 [Hi3 [Fl3 [Lb3 Fr3]]]]]]; auto.
    { intros e He'. eapply sep_sub_r; [apply Sp1; exact He'|]. unfold within. cbn [fst snd]. lia. }
    rewrite Hv. cbn [bind]. rewrite Hsum, Z.eqb_refl. cbn [negb]. rewrite !d_pass_filt.
    (* the body the receiver holds is again the sender's body *)
    assert (Hbody : le_enc 4 (hash_ext hstep (hash_ext hstep 0 wf) (le_enc 4 (hash_ext hstep 0 wf) ++ skipn 4 body)) ++ skipn 4 body = body).
    { rewrite <- Hsum. pose proof (load_bytes_ok _ _ _ _ (inv_bytes _ _ Hi1) Lp) as Hbb.
      assert (H4 : length (firstn 4 body) = 4%nat) by (rewrite firstn_length; unfold len in Hlb; lia).
      rewrite <- H4 at 1. rewrite le_enc_dec by (apply bytes_ok_firstn; exact Hbb). apply firstn_skipn. }
    rewrite Hbody in Lb3.
    set (st0 := mkD m3 v1 false).
    assert (Hwfp : fields_wf (sh_size sh) (perm (sh_fields sh))) by (apply fapp_wf; apply filt_wf; exact Hwf).
    assert (Hlp : lay_fs (perm (sh_fields sh))) by (apply fapp_lay; apply filt_lay; exact Hlay).
    assert (Hpp : psep (aranges_fs (perm (sh_fields sh)) t)) by (eapply psep_perm; [apply aranges_perm|apply Hps]).
    destruct (proj2 (rt_all' ms Hmswf) (perm (sh_fields sh)) (sh_size sh) st0 t x [(t, sh_size sh)] (t, sh_size sh) vals wf Fs []
                Hwfp Hlp Hpp) as [st2 [new [Hd [SP [w2 [F [Hr Hf]]]]]]].
    { rewrite app_nil_r. cbn [st0 d_mem d_iov]. split; [exact Hi3|]. split; [exact Fl3|]. split; [exact Ps1|].
      split; [split; [intros y []|exact I]|]. split; [intros e c He' [<-|[]]; apply Sp1; exact He'|].
      intros c [<-|[]]. rewrite Hl3. exact Pv. }
    { left. reflexivity. }
    { apply within_refl. }
    { exact Hrd. }
    { exact Hvs. }
    { apply (proj2 (blk_eq _ _) _ (sh_size sh) t x Hwfp). cbn [st0 d_mem].
      apply (blk_of_loads _ _ _ _ _ body (inv_wf _ _ Hi3) Hmswf Lb3 Lb). }
    { cbn [st0 d_iov]. lia. }
    destruct SP as [Hfl2 [HR2 [Hx2 [Hc2 [Hn2 Hfr2]]]]]. cbn [st0 d_failed] in Hfl2.
    unfold perm in Hd. rewrite d_fields_app in Hd.
    destruct (d_fields cfg_final (filt true (sh_fields sh)) st0 t) as [st1|]; cbn [bind] in Hd |- *; [|discriminate Hd].
    rewrite d_pass_filt, Hd. cbn [bind]. rewrite Hfl2.
    exists t, st2, w2, F. split; [reflexivity|]. split; [lia|].
    destruct HR2 as [Hi2 [Fl2 _]].
    split; [split; [eapply validb_ext; [exact Hx2|]; cbn [st0 d_mem]; rewrite Hl3; exact Pv|lia]|]. split; [exact Hr|exact Fl2].
  Qed.
End RTCI.
