(* C12_Sep.v — separation of address ranges and the refinement of the iovector extractions
   against the flat byte string (route (a) of ser_roundtrip):
   extract_front_continuous / extract_back_continuous AS WHOLES (fast path and copying
   fallback into a fresh allocation slot) return a pointer to the first / last n bytes of
   `flat`, leave a vector denoting the rest, and carry PROVENANCE: the returned range lies
   inside an element of the input vector or is the fresh slot; every remaining element lies
   inside an element of the input vector. *)
From Coq Require Import ZArith List Bool Lia.
From PV Require Import Base.U64 C12.C12_Model C12.C12_Mem C12.C12_MemC C12.C12_Iov C12.C12_Flat.
Import ListNotations.
Local Open Scope Z_scope.

(* ---- ranges ---- *)
Definition sep (r1 r2 : Z * Z) : Prop :=
  snd r1 <= 0 \/ snd r2 <= 0 \/ fst r1 + snd r1 <= fst r2 \/ fst r2 + snd r2 <= fst r1.
Definition within (r1 r2 : Z * Z) : Prop := fst r2 <= fst r1 /\ fst r1 + snd r1 <= fst r2 + snd r2.
Fixpoint psep (l : list (Z * Z)) : Prop :=
  match l with [] => True | x :: r => (forall y, In y r -> sep x y) /\ psep r end.

Lemma sep_sym a b : sep a b -> sep b a.
Proof. unfold sep. tauto. Qed.
Lemma within_refl a : within a a.
Proof. unfold within. lia. Qed.
Lemma within_trans a b c : within a b -> within b c -> within a c.
Proof. unfold within. lia. Qed.
Lemma within_sep a b c : within a b -> sep b c -> sep a c.
Proof. unfold within, sep. lia. Qed.
Lemma within_sep2 a b c d : within a b -> within c d -> sep b d -> sep a c.
Proof. unfold within, sep. lia. Qed.

Lemma psep_app a b : psep (a ++ b) <-> psep a /\ psep b /\ (forall x y, In x a -> In y b -> sep x y).
Proof.
  induction a as [|h t IH]; cbn [app psep].
  - split; [intros H; split; [exact I|split; [exact H|intros x y []]]|tauto].
  - rewrite IH. split.
    + intros [H1 [A [B C]]]. split; [split; [intros y Hy; apply H1; apply in_or_app; auto|exact A]|].
      split; [exact B|]. intros x y [<-|Hx] Hy; [apply H1; apply in_or_app; auto|apply C; auto].
    + intros [[H1 A] [B C]]. split; [|split; [exact A|split; [exact B|intros x y Hx Hy; apply C; [right; exact Hx|exact Hy]]]].
      intros y Hy. apply in_app_or in Hy. destruct Hy as [Hy|Hy]; [apply H1; exact Hy|apply C; [left; reflexivity|exact Hy]].
Qed.

Lemma psep_rev l : psep l -> psep (rev l).
Proof.
  induction l as [|h t IH]; intros H; [exact I|]. cbn [rev]. destruct H as [H1 H2]. apply psep_app.
  split; [apply IH; exact H2|]. split; [split; [intros y []|exact I]|].
  intros x y Hx [<-|[]]. apply sep_sym. apply H1. apply in_rev. exact Hx.
Qed.

(* ---- loads and stores on separated ranges ---- *)
Lemma load_store_sep m b v m' a n : store m b v = Ok m' -> sep (a, n) (b, len v) -> load m' a n = load m a n.
Proof.
  intros H [S|[S|S]]; cbn [fst snd] in S.
  - unfold load. apply Z.leb_le in S. rewrite S. reflexivity.
  - unfold store in H. apply Z.leb_le in S. rewrite S in H. inversion H. reflexivity.
  - eapply load_store_other; eauto.
Qed.

Lemma load_sub m a n bs o k : Forall (fun L => L <= STRIDE) (lens m) -> load m a n = Ok bs -> 0 <= a ->
  0 <= o -> 0 <= k -> o + k <= n ->
  load m (a + o) k = Ok (firstn (Z.to_nat k) (skipn (Z.to_nat o) bs)).
Proof.
  intros Hwf H Ha Ho Hk Hok.
  pose proof (load_suffix m a n bs o Hwf H ltac:(lia) Ha) as S.
  exact (load_prefix m (a + o) (n - o) _ k S ltac:(lia)).
Qed.

(* ---- flat ---- *)
Lemma flat_store_sep m b v m' el : store m b v = Ok m' -> (forall e, In e el -> sep e (b, len v)) -> flat m' el = flat m el.
Proof.
  intros H. induction el as [|[eb l] r IH]; intros Hs; [reflexivity|]. cbn [flat].
  rewrite (load_store_sep _ _ _ _ eb l H); [|apply (Hs (eb, l)); left; reflexivity].
  rewrite IH; [reflexivity|]. intros e He. apply Hs. right. exact He.
Qed.

Lemma flat_app_mem m x el : Forall (el_ok (lens m)) el -> flat (m ++ x) el = flat m el.
Proof.
  induction 1 as [|[b l] r He _ IH]; [reflexivity|]. cbn [flat]. destruct He as [_ [Hv _]]. cbn [fst snd] in Hv.
  rewrite (load_app m x b l Hv), IH. reflexivity.
Qed.

Lemma flat_app m a b : flat m (a ++ b) = (da <- flat m a ;; db <- flat m b ;; Ok (da ++ db)).
Proof.
  induction a as [|[eb l] r IH]; cbn [app flat bind].
  - destruct (flat m b); reflexivity.
  - destruct (load m eb l) as [d|]; cbn [bind]; [|reflexivity]. rewrite IH.
    destruct (flat m r) as [dr|]; cbn [bind]; [|reflexivity].
    destruct (flat m b) as [db|]; cbn [bind]; [|reflexivity]. rewrite app_assoc. reflexivity.
Qed.

Lemma flat_len m el w : Forall (el_ok (lens m)) el -> flat m el = Ok w -> len w = sum_el el.
Proof.
  intros Hel. revert w. induction Hel as [|[b l] r He _ IH]; intros w H.
  - inversion H. reflexivity.
  - cbn [flat] in H. destruct (load m b l) as [d|] eqn:Ed; cbn [bind] in H; [|discriminate].
    destruct (flat m r) as [dr|]; cbn [bind] in H; [|discriminate]. inversion H. subst w.
    destruct He as [Hl _]. cbn [snd] in Hl.
    rewrite len_app, sum_el_cons, (IH dr eq_refl), (load_len _ _ _ _ Ed). cbn [snd]. lia.
Qed.

Lemma flat_bytes_ok m el w : mem_bytes m -> flat m el = Ok w -> bytes_ok w.
Proof.
  intros Hm. revert w. induction el as [|[b l] r IH]; intros w H.
  - inversion H. constructor.
  - cbn [flat] in H. destruct (load m b l) as [d|] eqn:Ed; cbn [bind] in H; [|discriminate].
    destruct (flat m r) as [dr|]; cbn [bind] in H; [|discriminate]. inversion H. subst w.
    apply bytes_ok_app; [eapply load_bytes_ok; eauto|apply IH; reflexivity].
Qed.

(* ---- the fresh allocation slot is separated from everything readable before ---- *)
Lemma fresh_sep ls a k n : Forall (fun L => L <= STRIDE) ls -> validb ls a k = true ->
  sep (a, k) (region_base (len ls), n).
Proof.
  intros Hwf H. unfold sep. cbn [fst snd]. destruct (Z_le_gt_dec k 0) as [Hk|Hk]; [left; exact Hk|].
  right. right. left. unfold validb in H. destruct (k <=? 0) eqn:E; [apply Z.leb_le in E; lia|].
  destruct (a <? ARENA) eqn:EA; [discriminate|]. apply Z.ltb_ge in EA.
  destruct (nth_z ls ((a - ARENA) / STRIDE)) as [L|] eqn:HL; [|discriminate]. apply Z.leb_le in H.
  pose proof (nth_z_some_range _ _ _ HL) as R. pose proof (nth_z_In _ _ _ HL) as Hin.
  rewrite Forall_forall in Hwf. specialize (Hwf _ Hin).
  pose proof (Z.div_mod (a - ARENA) STRIDE ltac:(pose proof STRIDE_pos; lia)) as Ed.
  pose proof (Z.mod_pos_bound (a - ARENA) STRIDE STRIDE_pos) as Hm.
  unfold region_base. pose proof STRIDE_pos. nia.
Qed.

Lemma load_fresh m d : 0 < len d -> len d <= STRIDE -> load (m ++ [d]) (region_base (len m)) (len d) = Ok d.
Proof.
  intros Hd Hs. pose proof (store_fresh m d Hd Hs) as S. exact (load_store_same _ _ _ _ S Hd).
Qed.

(* ---- the copying extractions keep separation and provenance ---- *)
Lemma vef_copy_app_mem m x : Forall (fun L => L <= STRIDE) (lens m) ->
  forall el n, Forall (el_ok (lens m)) el -> 0 <= n -> vef_copy (m ++ x) el n = vef_copy m el n.
Proof.
  intros Hwf. induction el as [|[b l] r IH]; intros n Hel Hn; [reflexivity|].
  inversion Hel as [|? ? He Hr]; subst. destruct He as [Hl [Hv _]]. cbn [fst snd] in *.
  cbn [vef_copy]. destruct (n <=? l) eqn:E.
  - apply Z.leb_le in E. rewrite (load_app m x b n); [reflexivity|]. apply (validb_sub' _ b l); auto; lia.
  - apply Z.leb_gt in E. rewrite (load_app m x b l Hv). rewrite IH by (auto; lia). reflexivity.
Qed.

Lemma veb_copy_app_mem m x : Forall (fun L => L <= STRIDE) (lens m) ->
  forall el n, Forall (el_ok (lens m)) el -> 0 <= n -> veb_copy (m ++ x) el n = veb_copy m el n.
Proof.
  intros Hwf. induction el as [|[b l] r IH]; intros n Hel Hn; [reflexivity|].
  inversion Hel as [|? ? He Hr]; subst. destruct He as [Hl [Hv [Hb0 Hbw]]]. cbn [fst snd] in *.
  cbn [veb_copy]. destruct (n <=? l) eqn:E.
  - apply Z.leb_le in E. rewrite wrap_small by lia. rewrite (load_app m x (b + l - n) n); [reflexivity|].
    apply (validb_sub' _ b l); auto; lia.
  - apply Z.leb_gt in E. rewrite (load_app m x b l Hv). rewrite IH by (auto; lia). reflexivity.
Qed.

Definition prov (el' el : list (Z * Z)) : Prop := forall e', In e' el' -> exists e, In e el /\ within e' e.

Lemma prov_sep el' el c : prov el' el -> (forall e, In e el -> sep e c) -> forall e', In e' el' -> sep e' c.
Proof. intros P H e' He'. destruct (P e' He') as [e [He W]]. eapply within_sep; eauto. Qed.

Lemma prov_refl el : prov el el.
Proof. intros e He. exists e. split; [exact He|apply within_refl]. Qed.

Lemma prov_trans a b c : prov a b -> prov b c -> prov a c.
Proof.
  intros P Q e He. destruct (P e He) as [e1 [H1 W1]]. destruct (Q e1 H1) as [e2 [H2 W2]].
  exists e2. split; [exact H2|eapply within_trans; eauto].
Qed.

Lemma vef_copy_sub m : forall el n d el', Forall (el_ok (lens m)) el -> 0 <= n ->
  vef_copy m el n = Ok (d, el') -> psep el -> psep el' /\ prov el' el.
Proof.
  induction el as [|[b l] r IH]; intros n d el' Hel Hn H Hp.
  - cbn in H. inversion H. split; [exact I|intros e []].
  - inversion Hel as [|? ? He Hr]; subst. destruct He as [Hl [Hv [Hb0 Hbw]]]. cbn [fst snd] in *.
    destruct Hp as [Hp1 Hp2]. cbn [vef_copy] in H. destruct (n <=? l) eqn:E.
    + apply Z.leb_le in E. destruct (load m b n) as [d0|]; cbn [bind] in H; [|discriminate].
      injection H as _ He'. subst el'. destruct (l - n =? 0) eqn:E0.
      * split; [exact Hp2|]. intros e He. exists e. split; [right; exact He|apply within_refl].
      * rewrite wrap_small by lia. split.
        { split; [|exact Hp2]. intros y Hy. apply (within_sep _ (b, l)); [unfold within; cbn [fst snd]; lia|auto]. }
        intros e [<-|He].
        { exists (b, l). split; [left; reflexivity|unfold within; cbn [fst snd]; lia]. }
        exists e. split; [right; exact He|apply within_refl].
    + apply Z.leb_gt in E. destruct (load m b l) as [d0|]; cbn [bind] in H; [|discriminate].
      destruct (vef_copy m r (n - l)) as [[d' e']|] eqn:Erec; cbn [bind] in H; [|discriminate].
      injection H as _ He'. subst el'.
      destruct (IH (n - l) d' e' Hr ltac:(lia) Erec Hp2) as [A B]. split; [exact A|].
      intros e He. destruct (B e He) as [e0 [H0 W]]. exists e0. split; [right; exact H0|exact W].
Qed.

Lemma veb_copy_sub m : forall el n d el', Forall (el_ok (lens m)) el -> 0 <= n ->
  veb_copy m el n = Ok (d, el') -> psep el -> psep el' /\ prov el' el.
Proof.
  induction el as [|[b l] r IH]; intros n d el' Hel Hn H Hp.
  - cbn in H. inversion H. split; [exact I|intros e []].
  - inversion Hel as [|? ? He Hr]; subst. destruct He as [Hl [Hv [Hb0 Hbw]]]. cbn [fst snd] in *.
    destruct Hp as [Hp1 Hp2]. cbn [veb_copy] in H. destruct (n <=? l) eqn:E.
    + apply Z.leb_le in E. destruct (load m (wrap (b + l - n)) n) as [d0|]; cbn [bind] in H; [|discriminate].
      injection H as _ He'. subst el'. destruct (l - n =? 0) eqn:E0.
      * split; [exact Hp2|]. intros e He. exists e. split; [right; exact He|apply within_refl].
      * split.
        { split; [|exact Hp2]. intros y Hy. apply (within_sep _ (b, l)); [unfold within; cbn [fst snd]; lia|auto]. }
        intros e [<-|He].
        { exists (b, l). split; [left; reflexivity|unfold within; cbn [fst snd]; lia]. }
        exists e. split; [right; exact He|apply within_refl].
    + apply Z.leb_gt in E. destruct (load m b l) as [d0|]; cbn [bind] in H; [|discriminate].
      destruct (veb_copy m r (n - l)) as [[d' e']|] eqn:Erec; cbn [bind] in H; [|discriminate].
      injection H as _ He'. subst el'.
      destruct (IH (n - l) d' e' Hr ltac:(lia) Erec Hp2) as [A B]. split; [exact A|].
      intros e He. destruct (B e He) as [e0 [H0 W]]. exists e0. split; [right; exact H0|exact W].
Qed.

(* ---- the copying extraction from the back refines skipn / firstn on the flat string ---- *)
Lemma flat_snoc m a b l : flat m (a ++ [(b, l)]) = (da <- flat m a ;; d <- load m b l ;; Ok (da ++ d)).
Proof.
  rewrite flat_app. destruct (flat m a) as [da|]; cbn [bind]; [|reflexivity]. cbn [flat].
  destruct (load m b l) as [d|]; cbn [bind]; [|reflexivity]. rewrite app_nil_r. reflexivity.
Qed.

Theorem veb_copy_flat m : Forall (fun L => L <= STRIDE) (lens m) ->
  forall rel bytes bs d rel', Forall (el_ok (lens m)) rel -> flat m (rev rel) = Ok bs -> 0 < bytes <= sum_el rel ->
  veb_copy m rel bytes = Ok (d, rel') ->
  d = skipn (Z.to_nat (len bs - bytes)) bs /\ flat m (rev rel') = Ok (firstn (Z.to_nat (len bs - bytes)) bs).
Proof.
  intros Hwf. induction rel as [|[b l] rest IH]; intros bytes bs d rel' Hel Hf Hb Hc.
  - rewrite sum_el_nil in Hb. lia.
  - inversion Hel as [|? ? He Hrest]; subst. destruct He as [Hl [Hv [Hb0 Hbw]]]. cbn [fst snd] in *.
    rewrite sum_el_cons in Hb. cbn [snd] in Hb.
    cbn [rev] in Hf. rewrite flat_snoc in Hf.
    destruct (flat m (rev rest)) as [rb|] eqn:Er; cbn [bind] in Hf; [|discriminate].
    destruct (load m b l) as [d0|] eqn:Ed0; cbn [bind] in Hf; [|discriminate]. inversion Hf. subst bs. clear Hf.
    pose proof (load_len _ _ _ _ Ed0) as HL0. rewrite Z.max_r in HL0 by lia.
    rewrite len_app, HL0. pose proof (len_nonneg rb) as Hrb.
    cbn [veb_copy] in Hc. destruct (bytes <=? l) eqn:E.
    + apply Z.leb_le in E. rewrite wrap_small in Hc by lia.
      pose proof (load_suffix m b l d0 (l - bytes) Hwf Ed0 ltac:(lia) Hb0) as S.
      replace (b + (l - bytes)) with (b + l - bytes) in S by lia. replace (l - (l - bytes)) with bytes in S by lia.
      rewrite S in Hc. cbn [bind] in Hc. injection Hc as Hd He'. subst d rel'. split.
      * rewrite skipn_app_ge by (unfold len in *; lia). f_equal. unfold len in *. lia.
      * destruct (l - bytes =? 0) eqn:E0.
        { apply Z.eqb_eq in E0. rewrite Er. f_equal. rewrite firstn_app_le by (unfold len in *; lia).
          rewrite firstn_all2; [reflexivity|unfold len in *; lia]. }
        apply Z.eqb_neq in E0. cbn [rev]. rewrite flat_snoc, Er. cbn [bind].
        rewrite (load_prefix m b l d0 (l - bytes) Ed0 ltac:(lia)). cbn [bind]. f_equal.
        rewrite firstn_app_ge by (unfold len in *; lia). f_equal. f_equal. unfold len in *. lia.
    + apply Z.leb_gt in E. rewrite Ed0 in Hc. cbn [bind] in Hc.
      destruct (veb_copy m rest (bytes - l)) as [[d' e']|] eqn:Erec; cbn [bind] in Hc; [|discriminate].
      injection Hc as Hd He'. subst d rel'.
      destruct (IH (bytes - l) rb d' e' Hrest eq_refl ltac:(lia) Erec) as [A B].
      assert (Hsum : len rb = sum_el rest).
      { rewrite <- sum_el_rev. apply (flat_len m); [apply Forall_rev; exact Hrest|exact Er]. }
      replace (len rb + l - bytes) with (len rb - (bytes - l)) by lia. split.
      * rewrite skipn_app_le by (unfold len in *; lia). rewrite <- A. reflexivity.
      * rewrite firstn_app_le by (unfold len in *; lia). exact B.
Qed.

Lemma prov_rev a b : prov a b -> prov (rev a) (rev b).
Proof. intros P e He. apply in_rev in He. destruct (P e He) as [e0 [H0 W]]. exists e0. split; [apply in_rev in H0; exact H0|exact W]. Qed.

(* ---- extract_front_continuous / extract_back_continuous as wholes ---- *)
Definition xpost (m : mem) (v : iovs) (n p : Z) (m' : mem) (v' : iovs) (got rest : list byte) : Prop :=
  inv m' v' /\ ext (lens m) (lens m') /\ i_cap v' = i_cap v /\ i_nb v <= i_nb v' <= i_nb v + 1 /\
  ptr_ok (lens m') p n /\ load m' p n = Ok got /\ flat m' (i_el v') = Ok rest /\
  psep (i_el v') /\ prov (i_el v') (i_el v) /\
  (forall e, In e (i_el v') -> sep e (p, n)) /\
  (forall a k, validb (lens m) a k = true -> load m' a k = load m a k) /\
  ((exists e, In e (i_el v) /\ within (p, n) e) \/ (p = region_base (len m) /\ exists d, m' = m ++ [d] /\ len d = n)).

(* anything readable before and separated from every element of the vector is separated from
   the extracted range and from every remaining element *)
Lemma xpost_sep m v n p m' v' got rest c : xpost m v n p m' v' got rest -> Forall (fun L => L <= STRIDE) (lens m) ->
  validb (lens m) (fst c) (snd c) = true -> (forall e, In e (i_el v) -> sep e c) ->
  sep (p, n) c /\ (forall e, In e (i_el v') -> sep e c).
Proof.
  intros [_ [_ [_ [_ [_ [_ [_ [_ [P [_ [_ Pv]]]]]]]]]]] Hwf Hc Hs. split; [|eapply prov_sep; eauto].
  destruct Pv as [[e [He W]]|[-> _]]; [eapply within_sep; eauto|].
  apply sep_sym. rewrite <- (len_lens m). destruct c as [ca ck]. apply fresh_sep; auto.
Qed.

Lemma efc_slow_flat m v n w : inv m v -> 0 < n -> flat m (i_el v) = Ok w -> n <= len w -> psep (i_el v) ->
  i_nb v < i_cap v ->
  exists p m' v', efc_slow m v n = Ok (p, m', v') /\ xpost m v n p m' v' (firstn (Z.to_nat n) w) (skipn (Z.to_nat n) w).
Proof.
  intros Hinv Hn Hf Hnw Hp Hcap. pose proof Hinv as [Hbm [Hwf [Hel [Hsum [Hnb [Hroom Hcnt]]]]]].
  pose proof (flat_len _ _ _ Hel Hf) as Hlw.
  destruct (efc_slow_ok m v n Hinv Hn) as [p [m' [v' [He [Hi' [Hx' [Hc' [Hp' Hfr']]]]]]]].
  exists p, m', v'. split; [exact He|]. revert He. unfold efc_slow.
  destruct (sum_el (i_el v) <? n) eqn:E; [apply Z.ltb_lt in E; lia|]. unfold do_malloc.
  destruct (INT_MAX <? n) eqn:EH; [apply Z.ltb_lt in EH; lia|].
  destruct (i_cap v <=? i_nb v) eqn:EC; [apply Z.leb_le in EC; lia|]. cbn [bind].
  pose proof (len_nonneg m) as Hlm.
  destruct (region_base_bound (len m) ltac:(lia)) as [B1 B2].
  destruct (region_base (len m) =? 0) eqn:E0; [apply Z.eqb_eq in E0; lia|].
  cbn [i_el]. unfold view_extract_front_copy. destruct (n =? 0) eqn:Eb; [apply Z.eqb_eq in Eb; lia|].
  rewrite (vef_copy_app_mem m _ Hwf (i_el v) n Hel ltac:(lia)).
  destruct (vef_copy_ok m (i_el v) n Hbm Hwf Hel ltac:(lia)) as [d [el' [H1 [H2 [H3 [H4 [H5 H6]]]]]]].
  rewrite H1. cbn [bind].
  destruct (vef_copy_flat m Hwf (i_el v) n w d el' Hel Hf ltac:(lia) H1) as [Hd Hfl].
  destruct (vef_copy_sub m (i_el v) n d el' Hel ltac:(lia) H1 Hp) as [Hps Hpv].
  assert (Hst : store (m ++ [zeros n]) (region_base (len m)) d = Ok (m ++ [d])).
  { rewrite <- H2. apply store_fresh; unfold INT_MAX, STRIDE in *; lia. }
  rewrite Hst. cbn [bind]. intros He. injection He as <- <- <-.
  unfold xpost, set_el. cbn [i_el i_nb i_cap].
  split; [exact Hi'|]. split; [exact Hx'|]. split; [reflexivity|]. split; [lia|].
  split; [destruct Hp' as [Hp'|Hp']; [lia|exact Hp']|].
  split; [rewrite <- Hd, <- H2; apply load_fresh; unfold INT_MAX, STRIDE in *; lia|].
  split; [rewrite (flat_app_mem m [d] el' H4); exact Hfl|].
  split; [exact Hps|]. split; [exact Hpv|].
  split.
  { intros e He. rewrite <- (len_lens m). destruct e as [eb ek]. apply fresh_sep; [exact Hwf|].
    rewrite Forall_forall in H4. destruct (H4 _ He) as [_ [Hv _]]. exact Hv. }
  split; [exact Hfr'|]. right. split; [reflexivity|]. exists d. split; [reflexivity|exact H2].
Qed.

Lemma efc_flat m v n w : inv m v -> 0 < n -> flat m (i_el v) = Ok w -> n <= len w -> psep (i_el v) ->
  i_nb v < i_cap v ->
  exists p m' v', efc m v n = Ok (p, m', v') /\ xpost m v n p m' v' (firstn (Z.to_nat n) w) (skipn (Z.to_nat n) w).
Proof.
  intros Hinv Hn Hf Hnw Hp Hcap. pose proof Hinv as [Hbm [Hwf [Hel [Hsum [Hnb [Hroom Hcnt]]]]]].
  destruct (efc_ok m v n Hinv Hn) as [p [m' [v' [He [Hi' [Hx' [Hc' [Hp' Hfr']]]]]]]].
  revert He. unfold efc. destruct (i_el v) as [|[b l] rest] eqn:Eel.
  { intros _. rewrite <- Eel in *. apply efc_slow_flat; auto. }
  destruct (l <? n) eqn:E.
  { intros _. rewrite <- Eel in *. apply efc_slow_flat; auto. }
  apply Z.ltb_ge in E. intros He. injection He as <- <- <-.
  exists b, m. eexists. split; [reflexivity|].
  inversion Hel as [|? ? He Hrest]; subst. destruct He as [Hl [Hv [Hb0 Hbw]]]. cbn [fst snd] in *.
  set (el' := if l - n =? 0 then rest else (wrap (b + n), l - n) :: rest) in *.
  assert (Hvn : validb (lens m) b n = true) by (apply (validb_sub' _ b l); auto; lia).
  destruct (load_valid _ _ _ Hvn) as [dd Hdd].
  assert (Hvc : vef_copy m ((b, l) :: rest) n = Ok (dd, el')).
  { cbn [vef_copy]. destruct (n <=? l) eqn:E2; [|apply Z.leb_gt in E2; lia]. rewrite Hdd. reflexivity. }
  destruct (vef_copy_flat m Hwf _ n w dd el' Hel Hf ltac:(rewrite sum_el_cons; cbn [snd]; pose proof (sum_el_nonneg _ _ Hrest); lia) Hvc) as [Hd Hfl].
  destruct (vef_copy_sub m _ n dd el' Hel ltac:(lia) Hvc Hp) as [Hps Hpv].
  unfold xpost, set_el. cbn [i_el i_nb i_cap]. fold el'. rewrite !Eel.
  split; [exact Hi'|]. split; [exact Hx'|]. split; [reflexivity|]. split; [lia|].
  split; [destruct Hp' as [Hp'|Hp']; [destruct (validb_fits _ _ _ Hwf Hv ltac:(lia)); pose proof ARENA_pos; lia|exact Hp']|].
  split; [rewrite <- Hd; exact Hdd|]. split; [exact Hfl|]. split; [exact Hps|]. split; [exact Hpv|].
  split.
  { destruct Hp as [Hp1 Hp2]. intros e He. unfold el' in He. destruct (l - n =? 0) eqn:E0.
    - apply sep_sym. apply (within_sep _ (b, l)); [unfold within; cbn [fst snd]; lia|auto].
    - apply Z.eqb_neq in E0. destruct He as [<-|He].
      + rewrite wrap_small by lia. unfold sep. cbn [fst snd]. lia.
      + apply sep_sym. apply (within_sep _ (b, l)); [unfold within; cbn [fst snd]; lia|auto]. }
  split; [auto|]. left. exists (b, l). split; [left; reflexivity|unfold within; cbn [fst snd]; lia].
Qed.

Lemma ebc_flat m v n w : inv m v -> 0 < n -> flat m (i_el v) = Ok w -> n <= len w -> psep (i_el v) ->
  i_nb v < i_cap v ->
  exists p m' v', ebc m v n = Ok (p, m', v') /\
    xpost m v n p m' v' (skipn (Z.to_nat (len w - n)) w) (firstn (Z.to_nat (len w - n)) w).
Proof.
  intros Hinv Hn Hf Hnw Hp Hcap. pose proof Hinv as [Hbm [Hwf [Hel [Hsum [Hnb [Hroom Hcnt]]]]]].
  pose proof (flat_len _ _ _ Hel Hf) as Hlw.
  assert (Helr : Forall (el_ok (lens m)) (rev (i_el v))) by (apply Forall_rev; exact Hel).
  assert (Hpr : psep (rev (i_el v))) by (apply psep_rev; exact Hp).
  assert (Hfr : flat m (rev (rev (i_el v))) = Ok w) by (rewrite rev_involutive; exact Hf).
  destruct (ebc_ok m v n Hinv Hn) as [p [m' [v' [He [Hi' [Hx' [Hc' [Hp' Hfr']]]]]]]].
  exists p, m', v'. split; [exact He|]. revert He.
  assert (Hslow :
     (if sum_el (i_el v) <? n then Ok (0, m, v) else
      '(buf, m1, v1) <- do_malloc m v n ;;
      if buf =? 0 then Ok (0, m1, v1) else
      '(d, rel') <- (if n =? 0 then Ok ([], rev (i_el v1)) else veb_copy m1 (rev (i_el v1)) n) ;;
      m2 <- store m1 buf d ;;
      Ok (buf, m2, set_el_back v1 (rev rel'))) = Ok (p, m', v') ->
      xpost m v n p m' v' (skipn (Z.to_nat (len w - n)) w) (firstn (Z.to_nat (len w - n)) w)).
  { destruct (sum_el (i_el v) <? n) eqn:E; [apply Z.ltb_lt in E; lia|]. unfold do_malloc.
    destruct (INT_MAX <? n) eqn:EH; [apply Z.ltb_lt in EH; lia|].
    destruct (i_cap v <=? i_nb v) eqn:EC; [apply Z.leb_le in EC; lia|]. cbn [bind].
    pose proof (len_nonneg m) as Hlm.
    destruct (region_base_bound (len m) ltac:(lia)) as [B1 B2].
    destruct (region_base (len m) =? 0) eqn:E0; [apply Z.eqb_eq in E0; lia|].
    cbn [i_el]. destruct (n =? 0) eqn:Eb; [apply Z.eqb_eq in Eb; lia|].
    rewrite (veb_copy_app_mem m _ Hwf (rev (i_el v)) n Helr ltac:(lia)).
    destruct (veb_copy_ok m (rev (i_el v)) n Hbm Hwf Helr ltac:(rewrite sum_el_rev; lia)) as [d [rel' [H1 [H2 [H3 [H4 [H5 H6]]]]]]].
    rewrite H1. cbn [bind].
    destruct (veb_copy_flat m Hwf (rev (i_el v)) n w d rel' Helr Hfr ltac:(rewrite sum_el_rev; lia) H1) as [Hd Hfl].
    destruct (veb_copy_sub m (rev (i_el v)) n d rel' Helr ltac:(lia) H1 Hpr) as [Hps Hpv].
    assert (Hst : store (m ++ [zeros n]) (region_base (len m)) d = Ok (m ++ [d])).
    { rewrite <- H2. apply store_fresh; unfold INT_MAX, STRIDE in *; lia. }
    rewrite Hst. cbn [bind]. intros He. injection He as <- <- <-.
    assert (H4r : Forall (el_ok (lens m)) (rev rel')) by (apply Forall_rev; exact H4).
    unfold xpost, set_el_back. cbn [i_el i_nb i_cap].
    split; [exact Hi'|]. split; [exact Hx'|]. split; [reflexivity|]. split; [lia|].
    split; [destruct Hp' as [Hp'|Hp']; [lia|exact Hp']|].
    split; [rewrite <- Hd, <- H2; apply load_fresh; unfold INT_MAX, STRIDE in *; lia|].
    split; [rewrite (flat_app_mem m [d] _ H4r); exact Hfl|].
    split; [apply psep_rev; exact Hps|].
    split; [rewrite <- (rev_involutive (i_el v)); apply prov_rev; exact Hpv|].
    split.
    { intros e He. rewrite <- (len_lens m). destruct e as [eb ek]. apply fresh_sep; [exact Hwf|].
      rewrite Forall_forall in H4r. destruct (H4r _ He) as [_ [Hv _]]. exact Hv. }
    split; [exact Hfr'|]. right. split; [reflexivity|]. exists d. split; [reflexivity|exact H2]. }
  unfold ebc. destruct (rev (i_el v)) as [|[b l] rrest] eqn:Erev; [exact Hslow|].
  destruct (l <? n) eqn:E; [exact Hslow|]. clear Hslow. apply Z.ltb_ge in E.
  intros He. injection He as <- <- <-.
  inversion Helr as [|? ? He Hrest]; subst. destruct He as [Hl [Hv [Hb0 Hbw]]]. cbn [fst snd] in *.
  set (rel' := if l - n =? 0 then rrest else (b, l - n) :: rrest) in *.
  assert (Hvn : validb (lens m) (b + l - n) n = true) by (apply (validb_sub' _ b l); auto; lia).
  destruct (load_valid _ _ _ Hvn) as [dd Hdd].
  assert (Hvc : veb_copy m ((b, l) :: rrest) n = Ok (dd, rel')).
  { cbn [veb_copy]. destruct (n <=? l) eqn:E2; [|apply Z.leb_gt in E2; lia]. rewrite wrap_small by lia. rewrite Hdd. reflexivity. }
  assert (Hsr : sum_el ((b, l) :: rrest) = sum_el (i_el v)) by (rewrite <- Erev; apply sum_el_rev).
  destruct (veb_copy_flat m Hwf _ n w dd rel' Helr Hfr ltac:(lia) Hvc) as [Hd Hfl].
  destruct (veb_copy_sub m _ n dd rel' Helr ltac:(lia) Hvc Hpr) as [Hps Hpv].
  replace (b + (l - n)) with (b + l - n) by lia. rewrite wrap_small by lia.
  unfold xpost, set_el_back. cbn [i_el i_nb i_cap]. fold rel'.
  split; [exact Hi'|]. split; [exact Hx'|]. split; [reflexivity|]. split; [lia|].
  split.
  { destruct Hp' as [Hp'|Hp']; [|replace (b + (l - n)) with (b + l - n) in Hp' by lia; rewrite wrap_small in Hp' by lia; exact Hp'].
    destruct (validb_fits _ _ _ Hwf Hv ltac:(lia)). pose proof ARENA_pos. rewrite wrap_small in Hp' by lia. lia. }
  split; [rewrite <- Hd; exact Hdd|]. split; [exact Hfl|].
  split; [apply psep_rev; exact Hps|].
  split; [rewrite <- (rev_involutive (i_el v)), Erev; apply prov_rev; exact Hpv|].
  split.
  { destruct Hpr as [Hp1 Hp2]. intros e He. apply in_rev in He. unfold rel' in He. destruct (l - n =? 0) eqn:E0.
    - apply sep_sym. apply (within_sep _ (b, l)); [unfold within; cbn [fst snd]; lia|auto].
    - apply Z.eqb_neq in E0. destruct He as [<-|He].
      + unfold sep. cbn [fst snd]. lia.
      + apply sep_sym. apply (within_sep _ (b, l)); [unfold within; cbn [fst snd]; lia|auto]. }
  split; [auto|]. left. exists (b, l). split; [apply in_rev; rewrite Erev; left; reflexivity|unfold within; cbn [fst snd]; lia].
Qed.
