(* C12_Wire.v — the pointer-free VALUE of a message laid out in memory, the flat-string
   specification of the wire format, and the footprint of both (route (b) of ser_roundtrip).

   rd_f f m a = Ok (value, wire, footprint):
     value     = what the message means, without any pointer: bytes of fixed members, bytes of
                 every buffer / string / array, element values of arrays of messages, the
                 concatenated bytes and summed_size of iovec arrays, index and base bytes of maps;
     wire      = the byte string the serializer emits for this field, in emission order
                 (buffer bytes; array bytes followed by the wires of the elements; map index then base);
     footprint = every address range the two depend on (slots, buffers, element buffers). *)
From Coq Require Import ZArith List Bool Lia.
From PV Require Import Base.U64 C12.C12_Model C12.C12_Mem C12.C12_MemC C12.C12_Iov C12.C12_Flat C12.C12_Deser C12.C12_Sep.
Import ListNotations.
Local Open Scope Z_scope.

Inductive value :=
| VFix (bs : list byte)
| VBuf (bs : list byte)
| VArr (n : Z) (bs : list byte) (elems : list (list value))   (* bs = [] when the elements are messages with fields *)
| VIov (summed : Z) (bs : list byte)
| VNest (vs : list value)
| VMap (ibs bbs : list byte).

Definition rd3 (V : Type) : Type := (V * list byte * list (Z * Z))%type.

Fixpoint rd_elems {V} (g : Z -> res (rd3 V)) (k : nat) (e esz : Z) : res (rd3 (list V)) :=
  match k with
  | O => Ok ([], [], [])
  | S k' => '(v1, w1, F1) <- g e ;; '(vs, w, F) <- rd_elems g k' (e + esz) esz ;; Ok (v1 :: vs, w1 ++ w, F1 ++ F)
  end.

Fixpoint rd_iovecs (m : mem) (p : Z) (k : nat) : res (list byte * list (Z * Z)) :=
  match k with
  | O => Ok ([], [])
  | S k' => b <- load64 m p ;; n <- load64 m (p + 8) ;; d <- load m b n ;;
            '(bs, F) <- rd_iovecs m (p + 16) k' ;; Ok (d ++ bs, (b, n) :: F)
  end.

Fixpoint rd_f (f : field) (m : mem) (a : Z) {struct f} : res (rd3 value) :=
  match f with
  | FFixed n => bs <- load m a n ;; Ok (VFix bs, [], [(a, n)])
  | FBuf | FStr | FFixBuf _ | FABuf =>
      p <- load64 m a ;; n <- load64 m (a + 8) ;; bs <- load m p n ;; Ok (VBuf bs, bs, [(a, 16); (p, n)])
  | FArr esz efs =>
      p <- load64 m a ;; n <- load64 m (a + 8) ;; bs <- load m p n ;;
      if fields_active efs then
        '(vs, w, F) <- rd_elems (rd_fs efs m) (Z.to_nat (n / esz)) p esz ;;
        Ok (VArr n [] vs, bs ++ w, (a, 16) :: (p, n) :: F)
      else Ok (VArr n bs [], bs, [(a, 16); (p, n)])
  | FIov | FAIov =>
      p <- load64 m a ;; n <- load64 m (a + 8) ;; s <- load64 m (a + 16) ;;
      '(bs, F) <- rd_iovecs m p (Z.to_nat (n / 16)) ;;
      Ok (VIov s bs, bs, (a, 24) :: (p, n) :: F)
  | FNest fs => '(vs, w, F) <- rd_fs fs m a ;; Ok (VNest vs, w, F)
  | FMap _ _ =>
      ip <- load64 m a ;; inn <- load64 m (a + 8) ;; ibs <- load m ip inn ;;
      bp <- load64 m (a + 16) ;; bn <- load64 m (a + 24) ;; bbs <- load m bp bn ;;
      Ok (VMap ibs bbs, ibs ++ bbs, [(a, 16); (ip, inn); (a + 16, 16); (bp, bn)])
  end
with rd_fs (fs : fields) (m : mem) (base : Z) {struct fs} : res (rd3 (list value)) :=
  match fs with
  | FNil => Ok ([], [], [])
  | FCons off f r =>
      '(v1, w1, F1) <- rd_f f m (base + off) ;; '(vs, w, F) <- rd_fs r m base ;; Ok (v1 :: vs, w1 ++ w, F1 ++ F)
  end.

(* ---- static ranges of a struct: every slot and every fixed member ---- *)
Fixpoint aranges_f (f : field) (a : Z) : list (Z * Z) :=
  match f with
  | FFixed n => [(a, n)]
  | FBuf | FStr | FFixBuf _ | FABuf | FArr _ _ => [(a, 16)]
  | FIov | FAIov => [(a, 24)]
  | FNest fs => aranges_fs fs a
  | FMap _ _ => [(a, 16); (a + 16, 16)]
  end
with aranges_fs (fs : fields) (base : Z) : list (Z * Z) :=
  match fs with FNil => [] | FCons off f r => aranges_f f (base + off) ++ aranges_fs r base end.

(* layout: the members of every struct (at every nesting level) do not overlap *)
Fixpoint lay_f (f : field) : Prop :=
  match f with
  | FArr _ efs => (forall e, psep (aranges_fs efs e)) /\ lay_fs efs
  | FNest fs => lay_fs fs
  | _ => True
  end
with lay_fs (fs : fields) : Prop :=
  match fs with FNil => True | FCons _ f r => lay_f f /\ lay_fs r end.

Lemma aranges_within :
  (forall f avail a, field_wf avail f -> forall r, In r (aranges_f f a) -> within r (a, avail)) /\
  (forall fs sz base, fields_wf sz fs -> forall r, In r (aranges_fs fs base) -> within r (base, sz)).
Proof.
  apply field_fields_mut; cbn [aranges_f aranges_fs field_wf fields_wf].
  - intros n avail a H r [<-|[]]. unfold within. cbn. lia.
  - intros avail a H r [<-|[]]. unfold within. cbn. lia.
  - intros avail a H r [<-|[]]. unfold within. cbn. lia.
  - intros n avail a H r [<-|[]]. unfold within. cbn. lia.
  - intros avail a H r [<-|[]]. unfold within. cbn. lia.
  - intros esz efs _ avail a [H _] r [<-|[]]. unfold within. cbn. lia.
  - intros avail a H r [<-|[]]. unfold within. cbn. lia.
  - intros avail a H r [<-|[]]. unfold within. cbn. lia.
  - intros fs IH avail a H r Hr. eapply IH; eauto.
  - intros vsz vfs _ avail a H r [<-|[<-|[]]]; unfold within; cbn; lia.
  - intros sz base _ r [].
  - intros off f IHf r IHr sz base [Ho [Hf Hr]] x Hx. apply in_app_or in Hx. destruct Hx as [Hx|Hx].
    + specialize (IHf _ (base + off) Hf x Hx). unfold within in *. cbn [fst snd] in *. lia.
    + eapply IHr; eauto.
Qed.

(* ---- the value depends on the footprint only ---- *)
Definition agree (m m' : mem) (r : Z * Z) : Prop := forall x k, within (x, k) r -> load m' x k = load m x k.

Lemma agree_load64 m m' r a : agree m m' r -> within (a, 8) r -> load64 m' a = load64 m a.
Proof. intros A W. unfold load64. rewrite (A a 8 W). reflexivity. Qed.

Lemma rd_elems_stable {V} (g g' : Z -> res (rd3 V)) (m m' : mem) esz :
  (forall e R, g e = Ok R -> (forall r, In r (snd R) -> agree m m' r) -> g' e = Ok R) ->
  forall k e R, rd_elems g k e esz = Ok R -> (forall r, In r (snd R) -> agree m m' r) -> rd_elems g' k e esz = Ok R.
Proof.
  intros Hg. induction k as [|k IH]; intros e R H HA; [exact H|]. cbn [rd_elems] in *.
  destruct (g e) as [[[v1 w1] F1]|] eqn:E1; cbn [bind] in H; [|discriminate].
  destruct (rd_elems g k (e + esz) esz) as [[[vs w] F]|] eqn:E2; cbn [bind] in H; [|discriminate].
  inversion H. subst R. cbn [snd] in HA.
  rewrite (Hg e _ E1); [|cbn [snd]; intros r Hr; apply HA; apply in_or_app; auto]. cbn [bind].
  rewrite (IH (e + esz) _ E2); [|cbn [snd]; intros r Hr; apply HA; apply in_or_app; auto]. reflexivity.
Qed.

Lemma rd_iovecs_stable m m' : forall k p P R, rd_iovecs m p k = Ok R ->
  agree m m' P -> within (p, 16 * Z.of_nat k) P -> (forall r, In r (snd R) -> agree m m' r) -> rd_iovecs m' p k = Ok R.
Proof.
  induction k as [|k IH]; intros p P R H AP WP HA; [exact H|]. cbn [rd_iovecs] in *.
  rewrite Nat2Z.inj_succ in WP.
  rewrite (agree_load64 m m' P p AP) by (unfold within in *; cbn [fst snd] in *; lia).
  rewrite (agree_load64 m m' P (p + 8) AP) by (unfold within in *; cbn [fst snd] in *; lia).
  destruct (load64 m p) as [b|]; cbn [bind] in *; [|discriminate].
  destruct (load64 m (p + 8)) as [n|]; cbn [bind] in *; [|discriminate].
  destruct (load m b n) as [d|] eqn:Ed; cbn [bind] in H; [|discriminate].
  destruct (rd_iovecs m (p + 16) k) as [[bs F]|] eqn:Er; cbn [bind] in H; [|discriminate].
  inversion H. subst R. cbn [snd] in HA.
  rewrite (HA (b, n) (or_introl eq_refl) b n (within_refl _)), Ed. cbn [bind].
  rewrite (IH (p + 16) P _ Er AP); [reflexivity| |].
  - unfold within in *. cbn [fst snd] in *. lia.
  - cbn [snd]. intros r Hr. apply HA. right. exact Hr.
Qed.

Lemma rd_stable m m' :
  (forall f a R, rd_f f m a = Ok R -> (forall r, In r (snd R) -> agree m m' r) -> rd_f f m' a = Ok R) /\
  (forall fs base R, rd_fs fs m base = Ok R -> (forall r, In r (snd R) -> agree m m' r) -> rd_fs fs m' base = Ok R).
Proof.
  assert (Hbuf : forall a (K : Z -> Z -> list byte -> res (rd3 value)) R,
    (p <- load64 m a ;; n <- load64 m (a + 8) ;; bs <- load m p n ;; K p n bs) = Ok R ->
    agree m m' (a, 16) ->
    (forall p n bs, load64 m a = Ok p -> load64 m (a + 8) = Ok n -> load m p n = Ok bs -> K p n bs = Ok R -> agree m m' (p, n)) ->
    exists p n bs, load64 m' a = Ok p /\ load64 m' (a + 8) = Ok n /\ load m' p n = Ok bs /\ K p n bs = Ok R /\
                   load64 m a = Ok p /\ load64 m (a + 8) = Ok n).
  { intros a K R H A16 AP.
    rewrite (agree_load64 m m' _ a A16) by (unfold within; cbn; lia).
    rewrite (agree_load64 m m' _ (a + 8) A16) by (unfold within; cbn; lia).
    destruct (load64 m a) as [p|]; cbn [bind] in H; [|discriminate].
    destruct (load64 m (a + 8)) as [n|]; cbn [bind] in H; [|discriminate].
    destruct (load m p n) as [bs|] eqn:Eb; cbn [bind] in H; [|discriminate].
    exists p, n, bs. rewrite (AP p n bs eq_refl eq_refl Eb H p n (within_refl _)). repeat split; auto. }
  apply field_fields_mut.
  - (* FFixed *) intros n a R H HA. cbn [rd_f] in *. destruct (load m a n) as [bs|] eqn:E; cbn [bind] in H; [|discriminate].
    inversion H. subst R. cbn [snd] in HA. rewrite (HA (a, n) (or_introl eq_refl) a n (within_refl _)), E. reflexivity.
  - (* FBuf *) intros a R H HA. cbn [rd_f] in *.
    assert (A16 : agree m m' (a, 16)).
    { refine (HA _ _). revert H. destruct (load64 m a); cbn [bind]; [|discriminate]. destruct (load64 m (a + 8)); cbn [bind]; [|discriminate].
      destruct (load m a0 a1); cbn [bind]; [|discriminate]. intros H. inversion H. left. reflexivity. }
    assert (AP : forall p n bs, load64 m a = Ok p -> load64 m (a + 8) = Ok n -> load m p n = Ok bs ->
                 Ok (VBuf bs, bs, [(a, 16); (p, n)]) = Ok R -> agree m m' (p, n)).
    { intros p n bs _ _ _ K. refine (HA _ _). inversion K. right. left. reflexivity. }
    destruct (Hbuf a (fun p n bs => Ok (VBuf bs, bs, [(a, 16); (p, n)])) R H A16 AP) as [p [n [bs [L1 [L2 [L3 [K _]]]]]]].
    rewrite L1, L2. cbn [bind]. rewrite L3. exact K.
  - (* FStr *) intros a R H HA. cbn [rd_f] in *.
    assert (A16 : agree m m' (a, 16)).
    { refine (HA _ _). revert H. destruct (load64 m a); cbn [bind]; [|discriminate]. destruct (load64 m (a + 8)); cbn [bind]; [|discriminate].
      destruct (load m a0 a1); cbn [bind]; [|discriminate]. intros H. inversion H. left. reflexivity. }
    assert (AP : forall p n bs, load64 m a = Ok p -> load64 m (a + 8) = Ok n -> load m p n = Ok bs ->
                 Ok (VBuf bs, bs, [(a, 16); (p, n)]) = Ok R -> agree m m' (p, n)).
    { intros p n bs _ _ _ K. refine (HA _ _). inversion K. right. left. reflexivity. }
    destruct (Hbuf a (fun p n bs => Ok (VBuf bs, bs, [(a, 16); (p, n)])) R H A16 AP) as [p [n [bs [L1 [L2 [L3 [K _]]]]]]].
    rewrite L1, L2. cbn [bind]. rewrite L3. exact K.
  - (* FFixBuf *) intros n0 a R H HA. cbn [rd_f] in *.
    assert (A16 : agree m m' (a, 16)).
    { refine (HA _ _). revert H. destruct (load64 m a); cbn [bind]; [|discriminate]. destruct (load64 m (a + 8)); cbn [bind]; [|discriminate].
      destruct (load m a0 a1); cbn [bind]; [|discriminate]. intros H. inversion H. left. reflexivity. }
    assert (AP : forall p n bs, load64 m a = Ok p -> load64 m (a + 8) = Ok n -> load m p n = Ok bs ->
                 Ok (VBuf bs, bs, [(a, 16); (p, n)]) = Ok R -> agree m m' (p, n)).
    { intros p n bs _ _ _ K. refine (HA _ _). inversion K. right. left. reflexivity. }
    destruct (Hbuf a (fun p n bs => Ok (VBuf bs, bs, [(a, 16); (p, n)])) R H A16 AP) as [p [n [bs [L1 [L2 [L3 [K _]]]]]]].
    rewrite L1, L2. cbn [bind]. rewrite L3. exact K.
  - (* FABuf *) intros a R H HA. cbn [rd_f] in *.
    assert (A16 : agree m m' (a, 16)).
    { refine (HA _ _). revert H. destruct (load64 m a); cbn [bind]; [|discriminate]. destruct (load64 m (a + 8)); cbn [bind]; [|discriminate].
      destruct (load m a0 a1); cbn [bind]; [|discriminate]. intros H. inversion H. left. reflexivity. }
    assert (AP : forall p n bs, load64 m a = Ok p -> load64 m (a + 8) = Ok n -> load m p n = Ok bs ->
                 Ok (VBuf bs, bs, [(a, 16); (p, n)]) = Ok R -> agree m m' (p, n)).
    { intros p n bs _ _ _ K. refine (HA _ _). inversion K. right. left. reflexivity. }
    destruct (Hbuf a (fun p n bs => Ok (VBuf bs, bs, [(a, 16); (p, n)])) R H A16 AP) as [p [n [bs [L1 [L2 [L3 [K _]]]]]]].
    rewrite L1, L2. cbn [bind]. rewrite L3. exact K.
  - (* FArr *) intros esz efs IH a R H HA. cbn [rd_f] in *.
    set (K := fun (p n : Z) (bs : list byte) =>
      if fields_active efs then
        '(vs, w, F) <- rd_elems (rd_fs efs m) (Z.to_nat (n / esz)) p esz ;;
        Ok (VArr n [] vs, bs ++ w, (a, 16) :: (p, n) :: F)
      else Ok (VArr n bs [], bs, [(a, 16); (p, n)])) in *.
    assert (HF : forall p n bs, K p n bs = Ok R -> In (a, 16) (snd R) /\ In (p, n) (snd R) /\
               (fields_active efs = true -> forall vs w F, rd_elems (rd_fs efs m) (Z.to_nat (n / esz)) p esz = Ok (vs, w, F) -> forall r, In r F -> In r (snd R))).
    { intros p n bs HK. unfold K in HK. destruct (fields_active efs).
      - destruct (rd_elems (rd_fs efs m) (Z.to_nat (n / esz)) p esz) as [[[vs w] F]|]; cbn [bind] in HK; [|discriminate].
        inversion HK. cbn [snd]. split; [left; reflexivity|]. split; [right; left; reflexivity|].
        intros _ vs' w' F' E r Hr. inversion E. subst. right. right. exact Hr.
      - inversion HK. cbn [snd]. split; [left; reflexivity|]. split; [right; left; reflexivity|]. discriminate. }
    assert (A16 : agree m m' (a, 16)).
    { revert H. destruct (load64 m a); cbn [bind]; [|discriminate]. destruct (load64 m (a + 8)); cbn [bind]; [|discriminate].
      destruct (load m a0 a1); cbn [bind]; [|discriminate]. intros H. refine (HA _ _). apply (HF _ _ _ H). }
    assert (AP : forall p n bs, load64 m a = Ok p -> load64 m (a + 8) = Ok n -> load m p n = Ok bs ->
                 K p n bs = Ok R -> agree m m' (p, n)).
    { intros p n bs _ _ _ HK. refine (HA _ _). apply (HF _ _ _ HK). }
    destruct (Hbuf a K R H A16 AP) as [p [n [bs [L1 [L2 [L3 [HK _]]]]]]].
    rewrite L1, L2. cbn [bind]. rewrite L3. cbn [bind]. unfold K in HK. destruct (fields_active efs) eqn:Ea; [|exact HK].
    destruct (rd_elems (rd_fs efs m) (Z.to_nat (n / esz)) p esz) as [[[vs w] F]|] eqn:Ee; cbn [bind] in HK; [|discriminate].
    rewrite (rd_elems_stable (rd_fs efs m) (rd_fs efs m') m m' esz (fun e R0 => IH e R0) _ _ _ Ee); [exact HK|].
    cbn [snd]. intros r Hr. refine (HA _ _). inversion HK. cbn [snd]. right. right. exact Hr.
  - (* FIov *) intros a R H HA. cbn [rd_f] in *.
    assert (A24 : agree m m' (a, 24)).
    { refine (HA _ _). revert H. destruct (load64 m a); cbn [bind]; [|discriminate]. destruct (load64 m (a + 8)); cbn [bind]; [|discriminate].
      destruct (load64 m (a + 16)); cbn [bind]; [|discriminate]. destruct (rd_iovecs m a0 (Z.to_nat (a1 / 16))) as [[? ?]|]; cbn [bind]; [|discriminate].
      intros H. inversion H. left. reflexivity. }
    rewrite (agree_load64 m m' _ a A24) by (unfold within; cbn; lia).
    rewrite (agree_load64 m m' _ (a + 8) A24) by (unfold within; cbn; lia).
    rewrite (agree_load64 m m' _ (a + 16) A24) by (unfold within; cbn; lia).
    destruct (load64 m a) as [p|]; cbn [bind] in *; [|discriminate].
    destruct (load64 m (a + 8)) as [n|] eqn:En; cbn [bind] in *; [|discriminate].
    destruct (load64 m (a + 16)) as [s|]; cbn [bind] in *; [|discriminate].
    destruct (rd_iovecs m p (Z.to_nat (n / 16))) as [[bs F]|] eqn:Er; cbn [bind] in H; [|discriminate].
    inversion H. subst R. cbn [snd] in HA.
    destruct (Z_lt_le_dec n 0) as [Hn|Hn].
    { replace (Z.to_nat (n / 16)) with 0%nat in * by (pose proof (Z.div_lt_upper_bound n 16 0 ltac:(lia) ltac:(lia)); lia).
      cbn [rd_iovecs] in *. inversion Er. subst. reflexivity. }
    rewrite (rd_iovecs_stable m m' _ p (p, n) _ Er); [reflexivity| | |].
    + refine (HA _ _). right. left. reflexivity.
    + unfold within. cbn [fst snd]. rewrite Z2Nat.id by (apply Z.div_pos; lia). pose proof (Z.mul_div_le n 16 ltac:(lia)). lia.
    + cbn [snd]. intros r Hr. refine (HA _ _). right. right. exact Hr.
  - (* FAIov *) intros a R H HA. cbn [rd_f] in *.
    assert (A24 : agree m m' (a, 24)).
    { refine (HA _ _). revert H. destruct (load64 m a); cbn [bind]; [|discriminate]. destruct (load64 m (a + 8)); cbn [bind]; [|discriminate].
      destruct (load64 m (a + 16)); cbn [bind]; [|discriminate]. destruct (rd_iovecs m a0 (Z.to_nat (a1 / 16))) as [[? ?]|]; cbn [bind]; [|discriminate].
      intros H. inversion H. left. reflexivity. }
    rewrite (agree_load64 m m' _ a A24) by (unfold within; cbn; lia).
    rewrite (agree_load64 m m' _ (a + 8) A24) by (unfold within; cbn; lia).
    rewrite (agree_load64 m m' _ (a + 16) A24) by (unfold within; cbn; lia).
    destruct (load64 m a) as [p|]; cbn [bind] in *; [|discriminate].
    destruct (load64 m (a + 8)) as [n|] eqn:En; cbn [bind] in *; [|discriminate].
    destruct (load64 m (a + 16)) as [s|]; cbn [bind] in *; [|discriminate].
    destruct (rd_iovecs m p (Z.to_nat (n / 16))) as [[bs F]|] eqn:Er; cbn [bind] in H; [|discriminate].
    inversion H. subst R. cbn [snd] in HA.
    destruct (Z_lt_le_dec n 0) as [Hn|Hn].
    { replace (Z.to_nat (n / 16)) with 0%nat in * by (pose proof (Z.div_lt_upper_bound n 16 0 ltac:(lia) ltac:(lia)); lia).
      cbn [rd_iovecs] in *. inversion Er. subst. reflexivity. }
    rewrite (rd_iovecs_stable m m' _ p (p, n) _ Er); [reflexivity| | |].
    + refine (HA _ _). right. left. reflexivity.
    + unfold within. cbn [fst snd]. rewrite Z2Nat.id by (apply Z.div_pos; lia). pose proof (Z.mul_div_le n 16 ltac:(lia)). lia.
    + cbn [snd]. intros r Hr. refine (HA _ _). right. right. exact Hr.
  - (* FNest *) intros fs IH a R H HA. cbn [rd_f] in *.
    destruct (rd_fs fs m a) as [[[vs w] F]|] eqn:E; cbn [bind] in H; [|discriminate]. inversion H. subst R. cbn [snd] in HA.
    rewrite (IH a _ E HA). reflexivity.
  - (* FMap *) intros vsz vfs _ a R H HA. cbn [rd_f] in *.
    assert (HIn : forall ip inn ibs bp bn bbs, R = (VMap ibs bbs, ibs ++ bbs, [(a, 16); (ip, inn); (a + 16, 16); (bp, bn)]) ->
                  agree m m' (a, 16) /\ agree m m' (ip, inn) /\ agree m m' (a + 16, 16) /\ agree m m' (bp, bn)).
    { intros ip inn ibs bp bn bbs ->. cbn [snd] in HA. repeat split; apply HA; cbn; auto. }
    destruct (load64 m a) as [ip|] eqn:E1; cbn [bind] in H; [|discriminate].
    destruct (load64 m (a + 8)) as [inn|] eqn:E2; cbn [bind] in H; [|discriminate].
    destruct (load m ip inn) as [ibs|] eqn:E3; cbn [bind] in H; [|discriminate].
    destruct (load64 m (a + 16)) as [bp|] eqn:E4; cbn [bind] in H; [|discriminate].
    destruct (load64 m (a + 24)) as [bn|] eqn:E5; cbn [bind] in H; [|discriminate].
    destruct (load m bp bn) as [bbs|] eqn:E6; cbn [bind] in H; [|discriminate].
    destruct (HIn ip inn ibs bp bn bbs ltac:(inversion H; reflexivity)) as [A1 [A2 [A3 A4]]].
    rewrite (agree_load64 m m' _ a A1), E1 by (unfold within; cbn; lia). cbn [bind].
    rewrite (agree_load64 m m' _ (a + 8) A1), E2 by (unfold within; cbn; lia). cbn [bind].
    rewrite (A2 ip inn (within_refl _)), E3. cbn [bind].
    rewrite (agree_load64 m m' _ (a + 16) A3), E4 by (unfold within; cbn; lia). cbn [bind].
    rewrite (agree_load64 m m' _ (a + 24) A3), E5 by (unfold within; cbn; lia). cbn [bind].
    rewrite (A4 bp bn (within_refl _)), E6. cbn [bind]. exact H.
  - (* FNil *) intros base R H _. exact H.
  - (* FCons *) intros off f IHf r IHr base R H HA. cbn [rd_fs] in *.
    destruct (rd_f f m (base + off)) as [[[v1 w1] F1]|] eqn:E1; cbn [bind] in H; [|discriminate].
    destruct (rd_fs r m base) as [[[vs w] F]|] eqn:E2; cbn [bind] in H; [|discriminate].
    inversion H. subst R. cbn [snd] in HA.
    rewrite (IHf _ _ E1); [|cbn [snd]; intros x Hx; apply HA; apply in_or_app; auto]. cbn [bind].
    rewrite (IHr _ _ E2); [|cbn [snd]; intros x Hx; apply HA; apply in_or_app; auto]. reflexivity.
Qed.

(* ---- the archive order: _FilterAlignedFields makes two passes over the top-level fields ---- *)
Definition sel (aligned : bool) (f : field) : bool :=
  match f with FABuf | FAIov => aligned | _ => negb aligned end.
Fixpoint filt (aligned : bool) (fs : fields) : fields :=
  match fs with
  | FNil => FNil
  | FCons off f r => if sel aligned f then FCons off f (filt aligned r) else filt aligned r
  end.
Fixpoint fapp (a b : fields) : fields :=
  match a with FNil => b | FCons off f r => FCons off f (fapp r b) end.
(* the top-level fields in the order the archive visits them: aligned ones first *)
Definition perm (fs : fields) : fields := fapp (filt true fs) (filt false fs).

Lemma d_pass_filt al : forall fs st base, d_pass cfg_final al fs st base = d_fields cfg_final (filt al fs) st base.
Proof.
  induction fs as [|off f r IH]; intros st base; [reflexivity|].
  destruct f; destruct al; cbn [d_pass filt sel negb d_fields d_field bind fix_nested_al cfg_final]; rewrite ?IH; try reflexivity;
    match goal with |- bind ?e _ = bind ?e _ => destruct e; cbn [bind]; [apply IH|reflexivity] end.
Qed.

Lemma s_pass_filt al : forall fs st base, s_pass cfg_final al fs st base = s_fields cfg_final (filt al fs) st base.
Proof.
  induction fs as [|off f r IH]; intros st base; [reflexivity|].
  destruct f; destruct al; cbn [s_pass filt sel negb s_fields s_field bind fix_nested_al cfg_final]; rewrite ?IH; try reflexivity;
    match goal with |- bind ?e _ = bind ?e _ => destruct e; cbn [bind]; [apply IH|reflexivity] end.
Qed.

Lemma d_fields_app a : forall b st base, d_fields cfg_final (fapp a b) st base = (st1 <- d_fields cfg_final a st base ;; d_fields cfg_final b st1 base).
Proof.
  induction a as [|off f r IH]; intros b st base; [reflexivity|]. cbn [fapp]. rewrite !d_fields_cons.
  destruct (d_field cfg_final f st (base + off)); cbn [bind]; [apply IH|reflexivity].
Qed.

Lemma s_fields_cons c off f r st base :
  s_fields c (FCons off f r) st base = (st1 <- s_field c f st (base + off) ;; s_fields c r st1 base).
Proof. reflexivity. Qed.

Lemma s_fields_app a : forall b st base, s_fields cfg_final (fapp a b) st base = (st1 <- s_fields cfg_final a st base ;; s_fields cfg_final b st1 base).
Proof.
  induction a as [|off f r IH]; intros b st base; [reflexivity|]. cbn [fapp]. rewrite !s_fields_cons.
  destruct (s_field cfg_final f st (base + off)); cbn [bind]; [apply IH|reflexivity].
Qed.
