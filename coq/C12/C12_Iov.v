(* C12_Iov.v — the iovector operations never trap on well-formed vectors, and what they
   return is readable: extract_front_continuous / extract_back_continuous incl. the copy
   fallback into a fresh allocation slot. *)
From Coq Require Import ZArith List Bool Lia.
From PV Require Import Base.U64 C12.C12_Model C12.C12_Mem C12.C12_MemC.
Import ListNotations.
Local Open Scope Z_scope.

Definition bytes_ok (bs : list byte) : Prop := Forall (fun b => 0 <= b < 256) bs.
Definition mem_bytes (m : mem) : Prop := Forall bytes_ok m.
Definition ext (ls ls' : list Z) : Prop := exists extra, ls' = ls ++ extra.

Lemma ext_refl ls : ext ls ls. Proof. exists []. symmetry. apply app_nil_r. Qed.
Lemma ext_trans a b c : ext a b -> ext b c -> ext a c.
Proof. intros [x ->] [y ->]. exists (x ++ y). symmetry. apply app_assoc. Qed.
Lemma validb_ext ls ls' a n : ext ls ls' -> validb ls a n = true -> validb ls' a n = true.
Proof. intros [x ->]. apply validb_app. Qed.

(* an iovec element: non-negative length, readable, no address wrap *)
Definition el_ok (ls : list Z) (e : Z * Z) : Prop :=
  0 <= snd e /\ validb ls (fst e) (snd e) = true /\ 0 <= fst e /\ fst e + snd e < W64.

Lemma el_ok_ext ls ls' e : ext ls ls' -> el_ok ls e -> el_ok ls' e.
Proof. intros H [A [B C]]. split; [auto|]. split; [eapply validb_ext; eauto|auto]. Qed.

Definition inv (m : mem) (v : iovs) : Prop :=
  mem_bytes m /\ Forall (fun L => L <= STRIDE) (lens m) /\ Forall (el_ok (lens m)) (i_el v) /\
  sum_el (i_el v) <= INT_MAX /\ 0 <= i_nb v /\ len m + (i_cap v - i_nb v) <= 65536 /\ len (i_el v) <= 65536.

(* ---- sum_el ---- *)
Lemma fold_sum_acc (el : list (Z * Z)) acc : fold_left (fun s e => s + snd e) el acc = acc + sum_el el.
Proof.
  unfold sum_el. revert acc. induction el as [|e r IH]; intros acc; cbn [fold_left]; [lia|].
  rewrite (IH (acc + snd e)), (IH (0 + snd e)). lia.
Qed.
Lemma sum_el_cons e r : sum_el (e :: r) = snd e + sum_el r.
Proof. unfold sum_el at 1. cbn [fold_left]. rewrite fold_sum_acc. lia. Qed.
Lemma sum_el_nil : sum_el [] = 0. Proof. reflexivity. Qed.
Lemma sum_el_app a b : sum_el (a ++ b) = sum_el a + sum_el b.
Proof. induction a as [|e r IH]; [cbn [app]; rewrite sum_el_nil; lia|]. cbn [app]. rewrite !sum_el_cons, IH. lia. Qed.
Lemma sum_el_rev a : sum_el (rev a) = sum_el a.
Proof. induction a as [|e r IH]; [reflexivity|]. cbn [rev]. rewrite sum_el_app, !sum_el_cons, sum_el_nil, IH. lia. Qed.
Lemma sum_el_nonneg ls el : Forall (el_ok ls) el -> 0 <= sum_el el.
Proof. induction 1 as [|e r He _ IH]; [rewrite sum_el_nil; lia|]. rewrite sum_el_cons. destruct He. lia. Qed.

(* ---- bytes ---- *)
Lemma bytes_ok_app a b : bytes_ok a -> bytes_ok b -> bytes_ok (a ++ b).
Proof. unfold bytes_ok. intros. apply Forall_app. auto. Qed.
Lemma bytes_ok_firstn n bs : bytes_ok bs -> bytes_ok (firstn n bs).
Proof. unfold bytes_ok. intros H. rewrite <- (firstn_skipn n bs) in H. apply Forall_app in H. tauto. Qed.
Lemma bytes_ok_skipn n bs : bytes_ok bs -> bytes_ok (skipn n bs).
Proof. unfold bytes_ok. intros H. rewrite <- (firstn_skipn n bs) in H. apply Forall_app in H. tauto. Qed.
Lemma nth_z_In {A} (l : list A) i x : nth_z l i = Some x -> In x l.
Proof. unfold nth_z. destruct ((i <? 0) || (len l <=? i)); [discriminate|]. apply nth_error_In. Qed.

Lemma load_bytes_ok m a n bs : mem_bytes m -> load m a n = Ok bs -> bytes_ok bs.
Proof.
  unfold load. intros Hm. destruct (n <=? 0); [intros H; inversion H; constructor|].
  destruct (a <? ARENA); [discriminate|].
  destruct (nth_z m ((a - ARENA) / STRIDE)) as [r|] eqn:Hr; [|discriminate].
  destruct ((a - ARENA) mod STRIDE + n <=? len r); [|discriminate].
  intros H. inversion H. apply bytes_ok_firstn, bytes_ok_skipn.
  apply nth_z_In in Hr. unfold mem_bytes in Hm. rewrite Forall_forall in Hm. auto.
Qed.

Lemma Forall_upd_nth {A} (P : A -> Prop) l k x : Forall P l -> P x -> Forall P (upd_nth l k x).
Proof. intros H Hx. revert k. induction H as [|h t Hh Ht IH]; intros [|k]; cbn; constructor; auto. Qed.

Lemma store_bytes_ok m a v m' : mem_bytes m -> bytes_ok v -> store m a v = Ok m' -> mem_bytes m'.
Proof.
  intros Hm Hv H. destruct (Z_le_gt_dec (len v) 0) as [Hl|Hl].
  - unfold store in H. apply Z.leb_le in Hl. rewrite Hl in H. inversion H. subst. exact Hm.
  - destruct (store_inv _ _ _ _ H ltac:(lia)) as [bs [_ [Hb [_ ->]]]].
    apply Forall_upd_nth; [exact Hm|]. unfold splice.
    assert (bytes_ok bs) by (apply nth_z_In in Hb; unfold mem_bytes in Hm; rewrite Forall_forall in Hm; auto).
    apply bytes_ok_app; [apply bytes_ok_firstn; auto|]. apply bytes_ok_app; [auto|apply bytes_ok_skipn; auto].
Qed.

Lemma le_enc_bytes_ok n v : bytes_ok (le_enc n v).
Proof.
  revert v. induction n as [|n IH]; intros v; [constructor|]. cbn [le_enc]. constructor; [|apply IH].
  apply Z.mod_pos_bound. lia.
Qed.

Lemma le_dec_range bs : bytes_ok bs -> 0 <= le_dec bs < 256 ^ len bs.
Proof.
  induction bs as [|b r IH]; intros H.
  - cbn. lia.
  - inversion H; subst. specialize (IH H3). cbn [le_dec]. rewrite len_cons.
    rewrite Z.pow_add_r by (pose proof (len_nonneg r); lia). change (256 ^ 1) with 256. lia.
Qed.

Lemma load64_ok m a : mem_bytes m -> validb (lens m) a 8 = true -> exists v, load64 m a = Ok v /\ 0 <= v < W64.
Proof.
  intros Hm H. destruct (load_valid _ _ _ H) as [bs Hbs]. unfold load64. rewrite Hbs. cbn [bind].
  eexists. split; [reflexivity|].
  pose proof (le_dec_range bs (load_bytes_ok _ _ _ _ Hm Hbs)) as R.
  rewrite (load_len _ _ _ _ Hbs) in R. exact R.
Qed.

(* ---- validity helpers ---- *)
Lemma validb_fits ls a n : Forall (fun L => L <= STRIDE) ls -> validb ls a n = true -> 0 < n ->
  ARENA <= a /\ (a - ARENA) mod STRIDE + n <= STRIDE.
Proof.
  unfold validb. intros Hwf H Hn. destruct (n <=? 0) eqn:E; [apply Z.leb_le in E; lia|].
  destruct (a <? ARENA) eqn:HA; [discriminate|]. apply Z.ltb_ge in HA.
  destruct (nth_z ls ((a - ARENA) / STRIDE)) as [L|] eqn:HL; [|discriminate].
  apply Z.leb_le in H. apply nth_z_In in HL. rewrite Forall_forall in Hwf. specialize (Hwf _ HL). lia.
Qed.

Lemma validb_sub' ls a n a' n' : Forall (fun L => L <= STRIDE) ls -> validb ls a n = true ->
  a <= a' -> a' + n' <= a + n -> validb ls a' n' = true.
Proof.
  intros Hwf H Ha Hb. destruct (Z_le_gt_dec n' 0) as [Hn'|Hn'].
  - unfold validb. apply Z.leb_le in Hn'. rewrite Hn'. reflexivity.
  - assert (0 < n) by lia. destruct (validb_fits _ _ _ Hwf H ltac:(lia)) as [_ Hs].
    eapply validb_sub; eauto; lia.
Qed.

Lemma ARENA_pos : 0 < ARENA. Proof. reflexivity. Qed.

(* the fresh slot is readable *)
Lemma validb_fresh ls n : 0 <= n -> validb (ls ++ [n]) (region_base (len ls)) n = true.
Proof.
  intros Hn. unfold validb. destruct (n <=? 0) eqn:E; [reflexivity|]. apply Z.leb_gt in E.
  pose proof (len_nonneg ls) as Hl.
  destruct (region_base_decode (len ls) 0 Hl ltac:(pose proof STRIDE_pos; lia)) as [HA [Hq Ho]].
  rewrite Z.add_0_r in *. destruct (region_base (len ls) <? ARENA) eqn:EA; [apply Z.ltb_lt in EA; lia|].
  rewrite Hq, Ho, nth_z_app_last. apply Z.leb_le. lia.
Qed.

Lemma len_lens m : len (lens m) = len m.
Proof. unfold lens, len. rewrite map_length. reflexivity. Qed.

Lemma len_zeros n : 0 <= n -> len (zeros n) = n.
Proof. intros. unfold zeros, len. rewrite repeat_length. lia. Qed.

Lemma region_base_bound r : 0 <= r < 65536 -> 0 < region_base r /\ region_base r + STRIDE < W64.
Proof. unfold region_base, ARENA, STRIDE, W64. lia. Qed.

(* ---- the copying extraction from the front ---- *)
Lemma vef_copy_ok m : forall el bytes, mem_bytes m -> Forall (fun L => L <= STRIDE) (lens m) ->
  Forall (el_ok (lens m)) el -> 0 < bytes <= sum_el el ->
  exists d el', vef_copy m el bytes = Ok (d, el') /\ len d = bytes /\ bytes_ok d /\
    Forall (el_ok (lens m)) el' /\ sum_el el' = sum_el el - bytes /\ len el' <= len el.
Proof.
  induction el as [|[b l] rest IH]; intros bytes Hm Hwf Hel Hb.
  - rewrite sum_el_nil in Hb. lia.
  - inversion Hel as [|? ? He Hrest]; subst. destruct He as [Hl [Hv [Hb0 Hbw]]]. cbn [fst snd] in *.
    rewrite sum_el_cons in Hb. cbn [snd] in Hb. cbn [vef_copy].
    destruct (bytes <=? l) eqn:E.
    + apply Z.leb_le in E.
      assert (Hv' : validb (lens m) b bytes = true) by (apply (validb_sub' _ b l); auto; lia).
      destruct (load_valid _ _ _ Hv') as [d Hd]. rewrite Hd. cbn [bind].
      exists d. eexists. split; [reflexivity|].
      split; [rewrite (load_len _ _ _ _ Hd); lia|]. split; [eapply load_bytes_ok; eauto|].
      destruct (l - bytes =? 0) eqn:E0.
      * apply Z.eqb_eq in E0. split; [auto|]. split; [rewrite sum_el_cons; cbn [snd]; lia|]. rewrite len_cons. lia.
      * apply Z.eqb_neq in E0. rewrite wrap_small by lia. split.
        { constructor; [|auto]. split; cbn [fst snd]; [lia|]. split; [apply (validb_sub' _ b l); auto; lia|lia]. }
        split; [rewrite !sum_el_cons; cbn [snd]; lia|]. rewrite !len_cons. lia.
    + apply Z.leb_gt in E.
      destruct (load_valid _ _ _ Hv) as [d Hd]. rewrite Hd. cbn [bind].
      destruct (IH (bytes - l) Hm Hwf Hrest ltac:(lia)) as [d' [el' [H1 [H2 [H3 [H4 [H5 H6]]]]]]].
      rewrite H1. cbn [bind]. exists (d ++ d'), el'. split; [reflexivity|].
      split; [rewrite len_app, H2, (load_len _ _ _ _ Hd); lia|].
      split; [apply bytes_ok_app; auto; eapply load_bytes_ok; eauto|].
      split; [auto|]. split; [rewrite sum_el_cons; cbn [snd]; lia|]. rewrite len_cons. lia.
Qed.

(* the same from the back (element list reversed) *)
Lemma veb_copy_ok m : forall rel bytes, mem_bytes m -> Forall (fun L => L <= STRIDE) (lens m) ->
  Forall (el_ok (lens m)) rel -> 0 < bytes <= sum_el rel ->
  exists d rel', veb_copy m rel bytes = Ok (d, rel') /\ len d = bytes /\ bytes_ok d /\
    Forall (el_ok (lens m)) rel' /\ sum_el rel' = sum_el rel - bytes /\ len rel' <= len rel.
Proof.
  induction rel as [|[b l] rest IH]; intros bytes Hm Hwf Hel Hb.
  - rewrite sum_el_nil in Hb. lia.
  - inversion Hel as [|? ? He Hrest]; subst. destruct He as [Hl [Hv [Hb0 Hbw]]]. cbn [fst snd] in *.
    rewrite sum_el_cons in Hb. cbn [snd] in Hb. cbn [veb_copy].
    destruct (bytes <=? l) eqn:E.
    + apply Z.leb_le in E. rewrite wrap_small by lia.
      assert (Hv' : validb (lens m) (b + l - bytes) bytes = true) by (apply (validb_sub' _ b l); auto; lia).
      destruct (load_valid _ _ _ Hv') as [d Hd]. rewrite Hd. cbn [bind].
      exists d. eexists. split; [reflexivity|].
      split; [rewrite (load_len _ _ _ _ Hd); lia|]. split; [eapply load_bytes_ok; eauto|].
      destruct (l - bytes =? 0) eqn:E0.
      * apply Z.eqb_eq in E0. split; [auto|]. split; [rewrite sum_el_cons; cbn [snd]; lia|]. rewrite len_cons. lia.
      * apply Z.eqb_neq in E0. split.
        { constructor; [|auto]. split; cbn [fst snd]; [lia|]. split; [apply (validb_sub' _ b l); auto; lia|lia]. }
        split; [rewrite !sum_el_cons; cbn [snd]; lia|]. rewrite !len_cons. lia.
    + apply Z.leb_gt in E.
      destruct (load_valid _ _ _ Hv) as [d Hd]. rewrite Hd. cbn [bind].
      destruct (IH (bytes - l) Hm Hwf Hrest ltac:(lia)) as [d' [el' [H1 [H2 [H3 [H4 [H5 H6]]]]]]].
      rewrite H1. cbn [bind]. exists (d' ++ d), el'. split; [reflexivity|].
      split; [rewrite len_app, H2, (load_len _ _ _ _ Hd); lia|].
      split; [apply bytes_ok_app; auto; eapply load_bytes_ok; eauto|].
      split; [auto|]. split; [rewrite sum_el_cons; cbn [snd]; lia|]. rewrite len_cons. lia.
Qed.

(* what a successful extraction guarantees about the returned pointer *)
Definition ptr_ok (ls : list Z) (p n : Z) : Prop := validb ls p n = true /\ 0 < p /\ p + n < W64.

(* result of the copy fallback, shared by the front and the back version *)
Lemma alloc_copy_ok m v d (el' : list (Z * Z)) (setter : iovs -> list (Z * Z) -> iovs) :
  inv m v -> i_nb v < i_cap v -> 0 < len d <= INT_MAX -> bytes_ok d ->
  Forall (el_ok (lens (m ++ [zeros (len d)]))) el' -> sum_el el' <= sum_el (i_el v) -> len el' <= len (i_el v) ->
  (forall v0 el0, i_el (setter v0 el0) = el0 /\ i_nb (setter v0 el0) = i_nb v0 /\ i_cap (setter v0 el0) = i_cap v0) ->
  let v1 := mkIov (i_beg v) (i_el v) (i_nb v + 1) (i_cap v) in
  let m2 := m ++ [d] in
  inv m2 (setter v1 el') /\ ext (lens m) (lens m2) /\ ptr_ok (lens m2) (region_base (len m)) (len d) /\
  (forall a n, validb (lens m) a n = true -> load m2 a n = load m a n).
Proof.
  intros [Hb [Hwf [Hel [Hsum [Hnb [Hroom Hcnt]]]]]] Hcap Hd Hdb Hel' Hs' Hc' Hset v1 m2.
  destruct (Hset v1 el') as [S1 [S2 S3]].
  assert (Hlens : lens m2 = lens m ++ [len d]) by (unfold m2; rewrite lens_app; reflexivity).
  assert (Hlens1 : lens (m ++ [zeros (len d)]) = lens m ++ [len d]).
  { rewrite lens_app. cbn. rewrite len_zeros by lia. reflexivity. }
  pose proof (len_nonneg m) as Hlm.
  split; [|split; [|split]].
  - unfold inv. rewrite S1, S2, S3. subst v1. cbn [i_nb i_cap i_el].
    split; [unfold m2, mem_bytes; apply Forall_app; split; [exact Hb|constructor; [exact Hdb|constructor]]|].
    split; [rewrite Hlens; apply Forall_app; split; [exact Hwf|constructor; [unfold INT_MAX, STRIDE in *; lia|constructor]]|].
    split; [rewrite Hlens, <- Hlens1; exact Hel'|].
    split; [lia|]. split; [lia|]. split; [unfold m2; rewrite len_app, len_cons, len_nil; lia|lia].
  - exists [len d]. exact Hlens.
  - unfold ptr_ok. rewrite Hlens. rewrite <- (len_lens m).
    split; [apply validb_fresh; lia|]. rewrite len_lens.
    destruct (region_base_bound (len m) ltac:(lia)) as [B1 B2]. unfold INT_MAX, STRIDE in *. lia.
  - intros a n Hv. unfold m2. apply load_app. exact Hv.
Qed.

Definition efc_post (m : mem) (v : iovs) (bytes p : Z) (m' : mem) (v' : iovs) : Prop :=
  inv m' v' /\ ext (lens m) (lens m') /\ i_cap v' = i_cap v /\
  (p = 0 \/ ptr_ok (lens m') p bytes) /\
  (forall a n, validb (lens m) a n = true -> load m' a n = load m a n).

Lemma efc_slow_ok m v bytes : inv m v -> 0 < bytes ->
  exists p m' v', efc_slow m v bytes = Ok (p, m', v') /\ efc_post m v bytes p m' v'.
Proof.
  intros Hinv Hb. pose proof Hinv as [Hbm [Hwf [Hel [Hsum [Hnb [Hroom Hcnt]]]]]].
  unfold efc_slow. destruct (sum_el (i_el v) <? bytes) eqn:E.
  { exists 0, m, v. split; [reflexivity|]. split; [auto|]. split; [apply ext_refl|]. split; [reflexivity|]. split; [auto|auto]. }
  apply Z.ltb_ge in E. unfold do_malloc.
  destruct (INT_MAX <? bytes) eqn:EH; [apply Z.ltb_lt in EH; lia|].
  destruct (i_cap v <=? i_nb v) eqn:EC.
  { cbn [bind]. cbn. exists 0, m, v. split; [reflexivity|]. split; [auto|]. split; [apply ext_refl|]. split; [reflexivity|]. split; [auto|auto]. }
  apply Z.leb_gt in EC. cbn [bind].
  pose proof (len_nonneg m) as Hlm.
  destruct (region_base_bound (len m) ltac:(lia)) as [B1 B2].
  destruct (region_base (len m) =? 0) eqn:E0; [apply Z.eqb_eq in E0; lia|].
  cbn [i_el]. unfold view_extract_front_copy. destruct (bytes =? 0) eqn:Eb; [apply Z.eqb_eq in Eb; lia|].
  set (m1 := m ++ [zeros bytes]).
  assert (Hlens1 : lens m1 = lens m ++ [bytes]) by (unfold m1; rewrite lens_app; cbn; rewrite len_zeros by lia; reflexivity).
  assert (Hext1 : ext (lens m) (lens m1)) by (exists [bytes]; exact Hlens1).
  assert (Hbm1 : mem_bytes m1).
  { unfold m1, mem_bytes. apply Forall_app. split; [exact Hbm|]. constructor; [|constructor].
    unfold zeros, bytes_ok. apply Forall_forall. intros x Hx. apply repeat_spec in Hx. subst. lia. }
  assert (Hwf1 : Forall (fun L => L <= STRIDE) (lens m1)).
  { rewrite Hlens1. apply Forall_app. split; [exact Hwf|]. constructor; [unfold INT_MAX, STRIDE in *; lia|constructor]. }
  assert (Hel1 : Forall (el_ok (lens m1)) (i_el v)).
  { eapply Forall_impl; [|exact Hel]. intros e He. eapply el_ok_ext; eauto. }
  destruct (vef_copy_ok m1 (i_el v) bytes Hbm1 Hwf1 Hel1 ltac:(lia)) as [d [el' [H1 [H2 [H3 [H4 [H5 H6]]]]]]].
  rewrite H1. cbn [bind].
  assert (Hst : store m1 (region_base (len m)) d = Ok (m ++ [d])).
  { unfold m1. rewrite <- H2. apply store_fresh; unfold INT_MAX, STRIDE in *; lia. }
  rewrite Hst. cbn [bind].
  exists (region_base (len m)), (m ++ [d]). eexists. split; [reflexivity|].
  assert (Hm1eq : m1 = m ++ [zeros (len d)]) by (unfold m1; rewrite H2; reflexivity).
  destruct (alloc_copy_ok m v d el' set_el Hinv ltac:(lia) ltac:(lia) H3) as [A1 [A2 [A3 A4]]].
  - rewrite <- Hm1eq. exact H4.
  - lia.
  - exact H6.
  - intros v0 el0. unfold set_el. cbn. auto.
  - unfold efc_post. split; [exact A1|]. split; [exact A2|]. split; [reflexivity|].
    split; [right; rewrite <- H2; exact A3|exact A4].
Qed.

Lemma efc_ok m v bytes : inv m v -> 0 < bytes ->
  exists p m' v', efc m v bytes = Ok (p, m', v') /\ efc_post m v bytes p m' v'.
Proof.
  intros Hinv Hb. pose proof Hinv as [Hbm [Hwf [Hel [Hsum [Hnb [Hroom Hcnt]]]]]].
  unfold efc. destruct (i_el v) as [|[b l] rest] eqn:Eel; [apply efc_slow_ok; auto|].
  destruct (l <? bytes) eqn:E; [apply efc_slow_ok; auto|]. apply Z.ltb_ge in E.
  inversion Hel as [|? ? He Hrest]; subst. destruct He as [Hl [Hv [Hb0 Hbw]]]. cbn [fst snd] in *.
  rewrite sum_el_cons in Hsum. cbn [snd] in Hsum. rewrite len_cons in Hcnt.
  pose proof (sum_el_nonneg _ _ Hrest) as Hsr.
  destruct (validb_fits _ _ _ Hwf Hv ltac:(lia)) as [HA _]. pose proof ARENA_pos.
  exists b, m. eexists. split; [reflexivity|]. unfold efc_post.
  split.
  { unfold inv, set_el. cbn [i_el i_nb i_cap]. split; [auto|]. split; [auto|].
    destruct (l - bytes =? 0) eqn:E0.
    - apply Z.eqb_eq in E0. split; [auto|]. split; [lia|]. split; [auto|]. split; [auto|lia].
    - apply Z.eqb_neq in E0. rewrite wrap_small by lia. split.
      + constructor; [|auto]. split; cbn [fst snd]; [lia|]. split; [apply (validb_sub' _ b l); auto; lia|lia].
      + rewrite sum_el_cons, len_cons. cbn [snd]. split; [lia|]. split; [auto|]. split; [auto|lia]. }
  split; [apply ext_refl|]. split; [reflexivity|].
  split; [right; split; [apply (validb_sub' _ b l); auto; lia|lia]|auto].
Qed.

Lemma len_rev {A} (l : list A) : len (rev l) = len l.
Proof. unfold len. rewrite rev_length. reflexivity. Qed.

Lemma ebc_ok m v bytes : inv m v -> 0 < bytes ->
  exists p m' v', ebc m v bytes = Ok (p, m', v') /\ efc_post m v bytes p m' v'.
Proof.
  intros Hinv Hb. pose proof Hinv as [Hbm [Hwf [Hel [Hsum [Hnb [Hroom Hcnt]]]]]].
  assert (Hslow : exists p m' v',
     (if sum_el (i_el v) <? bytes then Ok (0, m, v) else
      '(buf, m1, v1) <- do_malloc m v bytes ;;
      if buf =? 0 then Ok (0, m1, v1) else
      '(d, rel') <- (if bytes =? 0 then Ok ([], rev (i_el v1)) else veb_copy m1 (rev (i_el v1)) bytes) ;;
      m2 <- store m1 buf d ;;
      Ok (buf, m2, set_el_back v1 (rev rel'))) = Ok (p, m', v') /\ efc_post m v bytes p m' v').
  { destruct (sum_el (i_el v) <? bytes) eqn:E.
    { exists 0, m, v. split; [reflexivity|]. split; [auto|]. split; [apply ext_refl|]. split; [reflexivity|]. split; [auto|auto]. }
    apply Z.ltb_ge in E. unfold do_malloc.
    destruct (INT_MAX <? bytes) eqn:EH; [apply Z.ltb_lt in EH; lia|].
    destruct (i_cap v <=? i_nb v) eqn:EC.
    { cbn [bind]. cbn. exists 0, m, v. split; [reflexivity|]. split; [auto|]. split; [apply ext_refl|]. split; [reflexivity|]. split; [auto|auto]. }
    apply Z.leb_gt in EC. cbn [bind].
    pose proof (len_nonneg m) as Hlm.
    destruct (region_base_bound (len m) ltac:(lia)) as [B1 B2].
    destruct (region_base (len m) =? 0) eqn:E0; [apply Z.eqb_eq in E0; lia|].
    cbn [i_el]. destruct (bytes =? 0) eqn:Eb; [apply Z.eqb_eq in Eb; lia|].
    set (m1 := m ++ [zeros bytes]).
    assert (Hlens1 : lens m1 = lens m ++ [bytes]) by (unfold m1; rewrite lens_app; cbn; rewrite len_zeros by lia; reflexivity).
    assert (Hext1 : ext (lens m) (lens m1)) by (exists [bytes]; exact Hlens1).
    assert (Hbm1 : mem_bytes m1).
    { unfold m1, mem_bytes. apply Forall_app. split; [exact Hbm|]. constructor; [|constructor].
      unfold zeros, bytes_ok. apply Forall_forall. intros x Hx. apply repeat_spec in Hx. subst. lia. }
    assert (Hwf1 : Forall (fun L => L <= STRIDE) (lens m1)).
    { rewrite Hlens1. apply Forall_app. split; [exact Hwf|]. constructor; [unfold INT_MAX, STRIDE in *; lia|constructor]. }
    assert (Hel1 : Forall (el_ok (lens m1)) (rev (i_el v))).
    { apply Forall_rev. eapply Forall_impl; [|exact Hel]. intros e He. eapply el_ok_ext; eauto. }
    destruct (veb_copy_ok m1 (rev (i_el v)) bytes Hbm1 Hwf1 Hel1 ltac:(rewrite sum_el_rev; lia)) as [d [rel' [H1 [H2 [H3 [H4 [H5 H6]]]]]]].
    rewrite H1. cbn [bind].
    assert (Hst : store m1 (region_base (len m)) d = Ok (m ++ [d])).
    { unfold m1. rewrite <- H2. apply store_fresh; unfold INT_MAX, STRIDE in *; lia. }
    rewrite Hst. cbn [bind].
    exists (region_base (len m)), (m ++ [d]). eexists. split; [reflexivity|].
    assert (Hm1eq : m1 = m ++ [zeros (len d)]) by (unfold m1; rewrite H2; reflexivity).
    rewrite sum_el_rev in H5. rewrite len_rev in H6.
    destruct (alloc_copy_ok m v d (rev rel') set_el_back Hinv ltac:(lia) ltac:(lia) H3) as [A1 [A2 [A3 A4]]].
    - rewrite <- Hm1eq. apply Forall_rev. exact H4.
    - rewrite sum_el_rev. lia.
    - rewrite len_rev. exact H6.
    - intros v0 el0. unfold set_el_back. cbn. auto.
    - unfold efc_post. split; [exact A1|]. split; [exact A2|]. split; [reflexivity|].
      split; [right; rewrite <- H2; exact A3|exact A4]. }
  unfold ebc. destruct (rev (i_el v)) as [|[b l] rrest] eqn:Erev; [exact Hslow|].
  destruct (l <? bytes) eqn:E; [exact Hslow|]. apply Z.ltb_ge in E. clear Hslow.
  assert (Hrel : Forall (el_ok (lens m)) ((b, l) :: rrest)) by (rewrite <- Erev; apply Forall_rev; exact Hel).
  inversion Hrel as [|? ? He Hrest]; subst. destruct He as [Hl [Hv [Hb0 Hbw]]]. cbn [fst snd] in *.
  assert (Hs2 : sum_el (i_el v) = l + sum_el rrest) by (rewrite <- sum_el_rev, Erev, sum_el_cons; reflexivity).
  assert (Hc2 : len (i_el v) = 1 + len rrest) by (rewrite <- len_rev, Erev, len_cons; reflexivity).
  pose proof (sum_el_nonneg _ _ Hrest) as Hsr.
  destruct (validb_fits _ _ _ Hwf Hv ltac:(lia)) as [HA _]. pose proof ARENA_pos.
  rewrite wrap_small by lia.
  exists (b + (l - bytes)), m. eexists. split; [reflexivity|]. unfold efc_post.
  split.
  { unfold inv, set_el_back. cbn [i_el i_nb i_cap]. split; [auto|]. split; [auto|].
    destruct (l - bytes =? 0) eqn:E0.
    - apply Z.eqb_eq in E0. split; [apply Forall_rev; auto|]. rewrite sum_el_rev, len_rev.
      split; [lia|]. split; [auto|]. split; [auto|lia].
    - apply Z.eqb_neq in E0. split.
      + apply Forall_rev. constructor; [|auto]. split; cbn [fst snd]; [lia|]. split; [apply (validb_sub' _ b l); auto; lia|lia].
      + rewrite sum_el_rev, len_rev, sum_el_cons, len_cons. cbn [snd]. split; [lia|]. split; [auto|]. split; [auto|lia]. }
  split; [apply ext_refl|]. split; [reflexivity|].
  split; [right; split; [apply (validb_sub' _ b l); auto; lia|lia]|auto].
Qed.

(* stores preserve the invariant (it depends on the region lengths and on byte-ness only) *)
Lemma inv_store m v a x m' : inv m v -> bytes_ok x -> store m a x = Ok m' -> inv m' v /\ lens m' = lens m.
Proof.
  intros [Hbm [Hwf [Hel [Hsum [Hnb [Hroom Hcnt]]]]]] Hx H.
  pose proof (store_lens _ _ _ _ H) as HL. split; [|exact HL].
  unfold inv. rewrite HL. split; [eapply store_bytes_ok; eauto|].
  split; [auto|]. split; [auto|]. split; [auto|]. split; [auto|].
  split; [|auto]. assert (len m' = len m) by (rewrite <- !len_lens, HL; reflexivity). lia.
Qed.

(* ---- extract_front(bytes, OUT view): the pieces are recorded in a fresh slot ---- *)
Lemma vef_view_ok ls : forall el bytes room, Forall (el_ok ls) el -> Forall (fun L => L <= STRIDE) ls -> 0 <= room -> 0 < bytes ->
  forall ret out el', vef_view el bytes room = (ret, out, el') ->
  len out <= room /\ Forall (el_ok ls) el' /\ sum_el el' <= sum_el el /\ len el' <= len el.
Proof.
  induction el as [|[b l] rest IH]; intros bytes room Hel Hwf Hroom Hbytes ret out el' H.
  - cbn in H. inversion H. subst. rewrite len_nil. split; [lia|]. split; [constructor|]. split; lia.
  - inversion Hel as [|? ? He Hrest]; subst. pose proof He as [Hl [Hv [Hb0 Hbw]]]. cbn [fst snd] in *.
    pose proof (sum_el_nonneg _ _ Hrest) as Hsr.
    cbn [vef_view] in H. destruct (room <=? 0) eqn:Er.
    { inversion H. subst. rewrite len_nil. split; [lia|]. split; [exact Hel|]. split; lia. }
    apply Z.leb_gt in Er. destruct (bytes <=? l) eqn:Eb.
    + apply Z.leb_le in Eb. injection H as Hr Ho He'. subst out el'. clear Hr. rewrite len_cons, len_nil. split; [lia|].
      destruct (l - bytes =? 0) eqn:E0.
      * apply Z.eqb_eq in E0. split; [exact Hrest|]. rewrite sum_el_cons, len_cons. cbn [snd]. split; lia.
      * apply Z.eqb_neq in E0. rewrite wrap_small by lia. split.
        { constructor; [|exact Hrest]. split; cbn [fst snd]; [lia|]. split; [apply (validb_sub' _ b l); auto; lia|lia]. }
        rewrite !sum_el_cons, !len_cons. cbn [snd]. split; lia.
    + apply Z.leb_gt in Eb.
      destruct (vef_view rest (bytes - l) (room - 1)) as [[r o] e'] eqn:Erec.
      injection H as Hr Ho He'. subst out el'. clear Hr.
      destruct (IH (bytes - l) (room - 1) Hrest Hwf ltac:(lia) ltac:(lia) _ _ _ Erec) as [A [B [C D]]].
      rewrite len_cons. split; [lia|]. split; [exact B|]. rewrite sum_el_cons, len_cons. cbn [snd]. split; lia.
Qed.

Lemma store_iovecs_ok : forall out m v a, inv m v -> validb (lens m) a (16 * len out) = true ->
  exists m', store_iovecs m a out = Ok m' /\ inv m' v /\ lens m' = lens m.
Proof.
  induction out as [|[b n] r IH]; intros m v a Hinv Hv.
  - cbn. eauto.
  - cbn [store_iovecs]. rewrite len_cons in Hv. pose proof (len_nonneg r) as Hr.
    pose proof Hinv as [_ [Hwf _]].
    assert (Hv16 : validb (lens m) a 16 = true) by (apply (validb_sub' _ a (16 * (1 + len r))); auto; lia).
    destruct (store_valid m a (le_enc 8 b ++ le_enc 8 n)) as [m1 [Hs Hl]].
    { rewrite len_app, !le_enc_len. exact Hv16. }
    rewrite Hs. cbn [bind].
    destruct (inv_store m v a _ m1 Hinv ltac:(apply bytes_ok_app; apply le_enc_bytes_ok) Hs) as [Hi1 _].
    destruct (IH m1 v (a + 16) Hi1) as [m2 [H2 [Hi2 Hl2]]].
    { rewrite Hl. apply (validb_sub' _ a (16 * (1 + len r))); auto; lia. }
    exists m2. split; [exact H2|]. split; [exact Hi2|congruence].
Qed.

Lemma extract_front_view_ok m v bytes : inv m v -> 0 <= bytes ->
  exists ret ptr cnt m' v', extract_front_view m v bytes = Ok (ret, ptr, cnt, m', v') /\
    inv m' v' /\ ext (lens m) (lens m') /\ 0 <= cnt /\ (cnt = 0 \/ validb (lens m') ptr (cnt * 16) = true).
Proof.
  intros Hinv Hb. pose proof Hinv as [Hbm [Hwf [Hel [Hsum [Hnb [Hroom Hcnt]]]]]].
  unfold extract_front_view. destruct (bytes =? 0) eqn:E0.
  { do 5 eexists. split; [reflexivity|]. split; [exact Hinv|]. split; [apply ext_refl|]. split; [lia|auto]. }
  apply Z.eqb_neq in E0. pose proof (len_nonneg (i_el v)) as Hc0. unfold do_malloc.
  destruct (INT_MAX <? len (i_el v) * 16) eqn:EH; [apply Z.ltb_lt in EH; unfold INT_MAX in *; lia|].
  destruct (i_cap v <=? i_nb v) eqn:EC.
  { cbn [bind]. cbn. do 5 eexists. split; [reflexivity|]. split; [exact Hinv|]. split; [apply ext_refl|]. split; [lia|auto]. }
  apply Z.leb_gt in EC. cbn [bind].
  pose proof (len_nonneg m) as Hlm.
  destruct (region_base_bound (len m) ltac:(lia)) as [B1 B2].
  destruct (region_base (len m) =? 0) eqn:Ez; [apply Z.eqb_eq in Ez; lia|].
  cbn [i_el]. set (sz := len (i_el v) * 16). set (m1 := m ++ [zeros sz]).
  assert (Hsz : 0 <= sz) by (unfold sz; lia).
  assert (Hlens1 : lens m1 = lens m ++ [sz]) by (unfold m1; rewrite lens_app; cbn; rewrite len_zeros by lia; reflexivity).
  assert (Hext1 : ext (lens m) (lens m1)) by (exists [sz]; exact Hlens1).
  assert (Hwf1 : Forall (fun L => L <= STRIDE) (lens m1)).
  { rewrite Hlens1. apply Forall_app. split; [exact Hwf|]. constructor; [unfold sz, STRIDE in *; lia|constructor]. }
  destruct (vef_view (i_el v) bytes (len (i_el v))) as [[ret out] el'] eqn:Ev.
  assert (Hel1 : Forall (el_ok (lens m1)) (i_el v)).
  { eapply Forall_impl; [|exact Hel]. intros e He. eapply el_ok_ext; eauto. }
  destruct (vef_view_ok (lens m1) (i_el v) bytes (len (i_el v)) Hel1 Hwf1 Hc0 ltac:(lia) _ _ _ Ev) as [A [B [C D]]].
  set (v1 := set_el (mkIov (i_beg v) (i_el v) (i_nb v + 1) (i_cap v)) el').
  assert (Hi1 : inv m1 v1).
  { unfold inv, v1, set_el. cbn [i_el i_nb i_cap].
    split.
    { unfold m1, mem_bytes. apply Forall_app. split; [exact Hbm|]. constructor; [|constructor].
      unfold zeros, bytes_ok. apply Forall_forall. intros x Hx. apply repeat_spec in Hx. subst. lia. }
    split; [exact Hwf1|]. split; [exact B|]. split; [lia|]. split; [lia|].
    split; [unfold m1; rewrite len_app, len_cons, len_nil; lia|lia]. }
  assert (Hvp : validb (lens m1) (region_base (len m)) sz = true).
  { rewrite Hlens1, <- (len_lens m). apply validb_fresh. exact Hsz. }
  destruct (store_iovecs_ok out m1 v1 (region_base (len m)) Hi1) as [m2 [H2 [Hi2 Hl2]]].
  { apply (validb_sub' _ (region_base (len m)) sz); auto; unfold sz; lia. }
  rewrite H2. cbn [bind]. do 5 eexists. split; [reflexivity|].
  split; [exact Hi2|]. split; [rewrite Hl2; exact Hext1|]. pose proof (len_nonneg out). split; [lia|].
  right. rewrite Hl2. apply (validb_sub' _ (region_base (len m)) sz); auto; unfold sz; lia.
Qed.
