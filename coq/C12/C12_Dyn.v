(* C12_Dyn.v — the DYNAMIC ranges of a message laid out in memory (every buffer / string / array buffer /
   map index and base / iovec array and every piece it names — everything a slot points to, to any depth),
   as an executable reader dn_f; the footprint of rd_f is covered by the static ranges and the dynamic ones
   (rd_fpok); dn_f depends on the static and dynamic ranges only (dn_stable).  Used to state that the
   sender's buffers do not alias each other or the structs (needed because SerializerIOV writes summed_size
   into the sender's structs while it builds the piece list). *)
From Coq Require Import ZArith List Bool Lia.
From PV Require Import Base.U64 C12.C12_Model C12.C12_Mem C12.C12_MemC C12.C12_Iov C12.C12_Flat C12.C12_Deser C12.C12_Sep C12.C12_Wire C12.C12_RtD.
Import ListNotations.
Local Open Scope Z_scope.

Fixpoint dn_iovecs (m : mem) (p : Z) (k : nat) : res (list (Z * Z)) :=
  match k with
  | O => Ok []
  | S k' => b <- load64 m p ;; n <- load64 m (p + 8) ;; r <- dn_iovecs m (p + 16) k' ;; Ok ((b, n) :: r)
  end.
Fixpoint dn_elems (g : Z -> res (list (Z * Z))) (k : nat) (e esz : Z) : res (list (Z * Z)) :=
  match k with
  | O => Ok []
  | S k' => d1 <- g e ;; d2 <- dn_elems g k' (e + esz) esz ;; Ok (d1 ++ d2)
  end.
Fixpoint dn_f (f : field) (m : mem) (a : Z) {struct f} : res (list (Z * Z)) :=
  match f with
  | FFixed _ => Ok []
  | FBuf | FStr | FFixBuf _ | FABuf => p <- load64 m a ;; n <- load64 m (a + 8) ;; Ok [(p, n)]
  | FArr esz efs =>
      p <- load64 m a ;; n <- load64 m (a + 8) ;;
      if fields_active efs then d <- dn_elems (dn_fs efs m) (Z.to_nat (n / esz)) p esz ;; Ok ((p, n) :: d) else Ok [(p, n)]
  | FIov | FAIov => p <- load64 m a ;; n <- load64 m (a + 8) ;; d <- dn_iovecs m p (Z.to_nat (n / 16)) ;; Ok ((p, n) :: d)
  | FNest fs => dn_fs fs m a
  | FMap _ _ => ip <- load64 m a ;; inn <- load64 m (a + 8) ;; bp <- load64 m (a + 16) ;; bn <- load64 m (a + 24) ;; Ok [(ip, inn); (bp, bn)]
  end
with dn_fs (fs : fields) (m : mem) (base : Z) {struct fs} : res (list (Z * Z)) :=
  match fs with
  | FNil => Ok []
  | FCons off f r => d1 <- dn_f f m (base + off) ;; d2 <- dn_fs r m base ;; Ok (d1 ++ d2)
  end.

Lemma agree_within m m' c r : agree m m' c -> within r c -> agree m m' r.
Proof. intros A W x k Wx. apply A. eapply within_trans; eauto. Qed.

Lemma rd_dn_iovecs m : forall k p bs Fp, rd_iovecs m p k = Ok (bs, Fp) -> dn_iovecs m p k = Ok Fp.
Proof.
  induction k as [|k IH]; intros p bs Fp H; cbn [rd_iovecs dn_iovecs] in *; [inversion H; reflexivity|].
  destruct (load64 m p) as [b|]; cbn [bind] in *; [|discriminate].
  destruct (load64 m (p + 8)) as [n|]; cbn [bind] in *; [|discriminate].
  destruct (load m b n) as [d|]; cbn [bind] in H; [|discriminate].
  destruct (rd_iovecs m (p + 16) k) as [[bs' F']|] eqn:E; cbn [bind] in H; [|discriminate].
  inversion H. rewrite (IH _ _ _ E). reflexivity.
Qed.

(* ---- the footprint of rd_f is covered by the static ranges and the dynamic ranges ---- *)
Lemma fpok_app F1 F2 S1 S2 D1 D2 : fpok F1 S1 D1 -> fpok F2 S2 D2 -> fpok (F1 ++ F2) (S1 ++ S2) (D1 ++ D2).
Proof.
  intros H1 H2 r Hr. apply in_app_or in Hr. destruct Hr as [Hr|Hr].
  - destruct (H1 r Hr) as [H|[[s [Hs W]]|[c [Hc W]]]]; [left; exact H|right; left; exists s; split; [apply in_or_app; left; exact Hs|exact W]|right; right; exists c; split; [apply in_or_app; left; exact Hc|exact W]].
  - destruct (H2 r Hr) as [H|[[s [Hs W]]|[c [Hc W]]]]; [left; exact H|right; left; exists s; split; [apply in_or_app; right; exact Hs|exact W]|right; right; exists c; split; [apply in_or_app; right; exact Hc|exact W]].
Qed.

Lemma rd_fpok m : mem_bytes m ->
  (forall f avail a val w F, field_wf avail f -> rd_f f m a = Ok (val, w, F) -> exists D, dn_f f m a = Ok D /\ fpok F (aranges_f f a) D) /\
  (forall fs sz b vals w F, fields_wf sz fs -> rd_fs fs m b = Ok (vals, w, F) -> exists D, dn_fs fs m b = Ok D /\ fpok F (aranges_fs fs b) D).
Proof.
  intros Hbm.
  assert (Hbuf : forall a (R : rd3 value) (K : Z -> Z -> list byte -> res (rd3 value)),
    (p <- load64 m a ;; n <- load64 m (a + 8) ;; bs <- load m p n ;; K p n bs) = Ok R ->
    exists p n bs, load64 m a = Ok p /\ load64 m (a + 8) = Ok n /\ load m p n = Ok bs /\ K p n bs = Ok R).
  { intros a R K H. destruct (load64 m a) as [p|] eqn:E1; cbn [bind] in H; [|discriminate].
    destruct (load64 m (a + 8)) as [n|] eqn:E2; cbn [bind] in H; [|discriminate].
    destruct (load m p n) as [bs|] eqn:E3; cbn [bind] in H; [|discriminate]. exists p, n, bs. auto. }
  assert (Hleaf : forall a val w F, (p <- load64 m a ;; n <- load64 m (a + 8) ;; bs <- load m p n ;; Ok (VBuf bs, bs, [(a, 16); (p, n)])) = Ok (val, w, F) ->
    exists D, (p <- load64 m a ;; n <- load64 m (a + 8) ;; Ok [(p, n)]) = Ok D /\ fpok F [(a, 16)] D).
  { intros a val w F H. destruct (Hbuf _ _ _ H) as [p [n [bs [L1 [L2 [L3 HK]]]]]]. inversion HK. subst.
    rewrite L1. cbn [bind]. rewrite L2. cbn [bind]. exists [(p, n)]. split; [reflexivity|].
    intros r [<-|[<-|[]]]; [right; left; exists (a, 16); split; [left; reflexivity|apply within_refl]|].
    right. right. exists (p, n). split; [left; reflexivity|apply within_refl]. }
  apply field_fields_mut.
  - intros n avail a val w F _ H. cbn [rd_f dn_f aranges_f] in *. destruct (load m a n); cbn [bind] in H; [|discriminate]. inversion H.
    exists []. split; [reflexivity|]. intros r [<-|[]]. right. left. exists (a, n). split; [left; reflexivity|apply within_refl].
  - intros avail a val w F _ H. exact (Hleaf a val w F H).
  - intros avail a val w F _ H. exact (Hleaf a val w F H).
  - intros n avail a val w F _ H. exact (Hleaf a val w F H).
  - intros avail a val w F _ H. exact (Hleaf a val w F H).
  - (* FArr *) intros esz efs IH avail a val w F [_ [Hesz Hwfe]] H. cbn [rd_f] in H.
    destruct (Hbuf _ _ _ H) as [p [n [bs [L1 [L2 [L3 HK]]]]]]. cbn [dn_f aranges_f]. rewrite L1. cbn [bind]. rewrite L2. cbn [bind].
    pose proof (load64_range _ _ _ Hbm L2) as Rn.
    destruct (fields_active efs).
    2:{ inversion HK. subst. exists [(p, n)]. split; [reflexivity|].
        intros r [<-|[<-|[]]]; [right; left; exists (a, 16); split; [left; reflexivity|apply within_refl]|].
        right. right. exists (p, n). split; [left; reflexivity|apply within_refl]. }
    destruct (rd_elems (rd_fs efs m) (Z.to_nat (n / esz)) p esz) as [[[vs we] Fe]|] eqn:Ee; cbn [bind] in HK; [|discriminate].
    inversion HK. subst val w F. clear HK.
    assert (Hl : forall k e vs we Fe, rd_elems (rd_fs efs m) k e esz = Ok (vs, we, Fe) ->
              exists De, dn_elems (dn_fs efs m) k e esz = Ok De /\ fpok Fe [(e, Z.of_nat k * esz)] De).
    { induction k as [|k IHk]; intros e vs0 we0 Fe0 H0; cbn [rd_elems dn_elems] in *.
      - inversion H0. exists []. split; [reflexivity|]. intros r [].
      - destruct (rd_fs efs m e) as [[[v1 w1] F1]|] eqn:E1; cbn [bind] in H0; [|discriminate].
        destruct (rd_elems (rd_fs efs m) k (e + esz) esz) as [[[vs' w'] F']|] eqn:E2; cbn [bind] in H0; [|discriminate].
        inversion H0. subst. destruct (IH _ _ _ _ _ Hwfe E1) as [D1 [Hd1 Hf1]]. destruct (IHk _ _ _ _ E2) as [D2 [Hd2 Hf2]].
        rewrite Hd1. cbn [bind]. rewrite Hd2. cbn [bind]. exists (D1 ++ D2). split; [reflexivity|].
        assert (HS : Z.of_nat (S k) * esz = Z.of_nat k * esz + esz) by lia. rewrite HS.
        assert (HK : 0 <= Z.of_nat k * esz) by nia.
        intros r Hr. apply in_app_or in Hr. destruct Hr as [Hr|Hr].
        + destruct (Hf1 r Hr) as [Hz|[[s [Hs W]]|[c [Hc W]]]]; [left; exact Hz| |right; right; exists c; split; [apply in_or_app; left; exact Hc|exact W]].
          right. left. exists (e, Z.of_nat k * esz + esz). split; [left; reflexivity|]. eapply within_trans; [exact W|].
          eapply within_trans; [apply (proj2 aranges_within efs esz e Hwfe s Hs)|]. unfold within. cbn [fst snd]. lia.
        + destruct (Hf2 r Hr) as [Hz|[[s [[<-|[]] W]]|[c [Hc W]]]]; [left; exact Hz| |right; right; exists c; split; [apply in_or_app; right; exact Hc|exact W]].
          right. left. exists (e, Z.of_nat k * esz + esz). split; [left; reflexivity|]. eapply within_trans; [exact W|]. unfold within. cbn [fst snd]. lia. }
    destruct (Hl _ _ _ _ _ Ee) as [De [Hde Hfe]]. rewrite Hde. cbn [bind]. exists ((p, n) :: De). split; [reflexivity|].
    assert (Hk : Z.of_nat (Z.to_nat (n / esz)) * esz <= n).
    { rewrite Z2Nat.id by (apply Z.div_pos; lia). pose proof (Z.mul_div_le n esz Hesz). lia. }
    intros r [<-|[<-|Hr]].
    + right. left. exists (a, 16). split; [left; reflexivity|apply within_refl].
    + right. right. exists (p, n). split; [left; reflexivity|apply within_refl].
    + destruct (Hfe r Hr) as [Hz|[[s [[<-|[]] W]]|[c [Hc W]]]]; [left; exact Hz| |right; right; exists c; split; [right; exact Hc|exact W]].
      right. right. exists (p, n). split; [left; reflexivity|]. eapply within_trans; [exact W|]. unfold within. cbn [fst snd]. lia.
  - (* FIov *) intros avail a val w F _ H. cbn [rd_f dn_f aranges_f] in *.
    destruct (load64 m a) as [p|]; cbn [bind] in *; [|discriminate].
    destruct (load64 m (a + 8)) as [n|]; cbn [bind] in *; [|discriminate].
    destruct (load64 m (a + 16)) as [s|]; cbn [bind] in *; [|discriminate].
    destruct (rd_iovecs m p (Z.to_nat (n / 16))) as [[bs Fp]|] eqn:E; cbn [bind] in H; [|discriminate].
    inversion H. subst. rewrite (rd_dn_iovecs _ _ _ _ _ E). cbn [bind]. exists ((p, n) :: Fp). split; [reflexivity|].
    intros r [<-|Hr]; [right; left; exists (a, 24); split; [left; reflexivity|apply within_refl]|].
    right. right. exists r. split; [exact Hr|apply within_refl].
  - (* FAIov *) intros avail a val w F _ H. cbn [rd_f dn_f aranges_f] in *.
    destruct (load64 m a) as [p|]; cbn [bind] in *; [|discriminate].
    destruct (load64 m (a + 8)) as [n|]; cbn [bind] in *; [|discriminate].
    destruct (load64 m (a + 16)) as [s|]; cbn [bind] in *; [|discriminate].
    destruct (rd_iovecs m p (Z.to_nat (n / 16))) as [[bs Fp]|] eqn:E; cbn [bind] in H; [|discriminate].
    inversion H. subst. rewrite (rd_dn_iovecs _ _ _ _ _ E). cbn [bind]. exists ((p, n) :: Fp). split; [reflexivity|].
    intros r [<-|Hr]; [right; left; exists (a, 24); split; [left; reflexivity|apply within_refl]|].
    right. right. exists r. split; [exact Hr|apply within_refl].
  - (* FNest *) intros fs IH avail a val w F Hwf H. cbn [rd_f dn_f aranges_f field_wf] in *.
    destruct (rd_fs fs m a) as [[[vs w1] F1]|] eqn:E; cbn [bind] in H; [|discriminate]. inversion H. subst. eapply IH; eauto.
  - (* FMap *) intros vsz vfs _ avail a val w F _ H. cbn [rd_f dn_f aranges_f] in *.
    destruct (load64 m a) as [ip|]; cbn [bind] in *; [|discriminate].
    destruct (load64 m (a + 8)) as [inn|]; cbn [bind] in *; [|discriminate].
    destruct (load m ip inn) as [ibs|]; cbn [bind] in *; [|discriminate].
    destruct (load64 m (a + 16)) as [bp|]; cbn [bind] in *; [|discriminate].
    destruct (load64 m (a + 24)) as [bn|]; cbn [bind] in *; [|discriminate].
    destruct (load m bp bn) as [bbs|]; cbn [bind] in *; [|discriminate]. inversion H. subst.
    exists [(ip, inn); (bp, bn)]. split; [reflexivity|].
    intros r [<-|[<-|[<-|[<-|[]]]]].
    + right. left. exists (a, 16). split; [left; reflexivity|apply within_refl].
    + right. right. exists (ip, inn). split; [left; reflexivity|apply within_refl].
    + right. left. exists (a + 16, 16). split; [right; left; reflexivity|apply within_refl].
    + right. right. exists (bp, bn). split; [right; left; reflexivity|apply within_refl].
  - intros sz b vals w F _ H. cbn in H. inversion H. exists []. split; [reflexivity|]. intros r [].
  - intros off f IHf r IHr sz b vals w F [Ho [Hwf Hwr]] H. cbn [rd_fs] in H.
    destruct (rd_f f m (b + off)) as [[[v1 w1] F1]|] eqn:E1; cbn [bind] in H; [|discriminate].
    destruct (rd_fs r m b) as [[[vs w2] F2]|] eqn:E2; cbn [bind] in H; [|discriminate]. inversion H. subst.
    destruct (IHf _ _ _ _ _ Hwf E1) as [D1 [Hd1 Hf1]]. destruct (IHr _ _ _ _ _ Hwr E2) as [D2 [Hd2 Hf2]].
    cbn [dn_fs aranges_fs]. rewrite Hd1. cbn [bind]. rewrite Hd2. cbn [bind]. exists (D1 ++ D2). split; [reflexivity|]. apply fpok_app; assumption.
Qed.

(* ---- dn_f depends on the static and the dynamic ranges only ---- *)
Lemma dn_iovecs_stable m m' : forall k p P D, dn_iovecs m p k = Ok D -> agree m m' P -> within (p, 16 * Z.of_nat k) P -> dn_iovecs m' p k = Ok D.
Proof.
  induction k as [|k IH]; intros p P D H AP WP; [exact H|]. cbn [dn_iovecs] in *. rewrite Nat2Z.inj_succ in WP.
  rewrite (agree_load64 m m' P p AP) by (unfold within in *; cbn [fst snd] in *; lia).
  rewrite (agree_load64 m m' P (p + 8) AP) by (unfold within in *; cbn [fst snd] in *; lia).
  destruct (load64 m p) as [b|]; cbn [bind] in *; [|discriminate].
  destruct (load64 m (p + 8)) as [n|]; cbn [bind] in *; [|discriminate].
  destruct (dn_iovecs m (p + 16) k) as [r|] eqn:Er; cbn [bind] in H; [|discriminate].
  rewrite (IH (p + 16) P _ Er AP); [exact H|]. unfold within in *. cbn [fst snd] in *. lia.
Qed.

Lemma dn_stable m m' : mem_bytes m ->
  (forall f avail a D, field_wf avail f -> dn_f f m a = Ok D -> (forall r, In r (aranges_f f a) \/ In r D -> agree m m' r) -> dn_f f m' a = Ok D) /\
  (forall fs sz b D, fields_wf sz fs -> dn_fs fs m b = Ok D -> (forall r, In r (aranges_fs fs b) \/ In r D -> agree m m' r) -> dn_fs fs m' b = Ok D).
Proof.
  intros Hbm.
  assert (Hleaf : forall a D, (p <- load64 m a ;; n <- load64 m (a + 8) ;; Ok [(p, n)]) = Ok D -> agree m m' (a, 16) ->
            (p <- load64 m' a ;; n <- load64 m' (a + 8) ;; Ok [(p, n)]) = Ok D).
  { intros a D H A. rewrite (agree_load64 m m' _ a A) by (unfold within; cbn; lia).
    rewrite (agree_load64 m m' _ (a + 8) A) by (unfold within; cbn; lia). exact H. }
  apply field_fields_mut.
  - intros n avail a D _ H _. exact H.
  - intros avail a D _ H A. cbn [dn_f aranges_f] in *. apply Hleaf; [exact H|]. apply A. left. left. reflexivity.
  - intros avail a D _ H A. cbn [dn_f aranges_f] in *. apply Hleaf; [exact H|]. apply A. left. left. reflexivity.
  - intros n avail a D _ H A. cbn [dn_f aranges_f] in *. apply Hleaf; [exact H|]. apply A. left. left. reflexivity.
  - intros avail a D _ H A. cbn [dn_f aranges_f] in *. apply Hleaf; [exact H|]. apply A. left. left. reflexivity.
  - (* FArr *) intros esz efs IH avail a D [_ [Hesz Hwfe]] H A. cbn [dn_f aranges_f] in *.
    assert (A16 : agree m m' (a, 16)) by (apply A; left; left; reflexivity).
    rewrite (agree_load64 m m' _ a A16) by (unfold within; cbn; lia).
    rewrite (agree_load64 m m' _ (a + 8) A16) by (unfold within; cbn; lia).
    destruct (load64 m a) as [p|]; cbn [bind] in *; [|discriminate].
    destruct (load64 m (a + 8)) as [n|] eqn:L2; cbn [bind] in *; [|discriminate].
    pose proof (load64_range _ _ _ Hbm L2) as Rn.
    destruct (fields_active efs); [|exact H].
    destruct (dn_elems (dn_fs efs m) (Z.to_nat (n / esz)) p esz) as [De|] eqn:Ee; cbn [bind] in H; [|discriminate].
    inversion H. subst D. clear H.
    assert (Apn : agree m m' (p, n)) by (apply A; right; left; reflexivity).
    assert (Hk : Z.of_nat (Z.to_nat (n / esz)) * esz <= n).
    { rewrite Z2Nat.id by (apply Z.div_pos; lia). pose proof (Z.mul_div_le n esz Hesz). lia. }
    assert (Hl : forall k e De0, dn_elems (dn_fs efs m) k e esz = Ok De0 -> within (e, Z.of_nat k * esz) (p, n) ->
              (forall r, In r De0 -> agree m m' r) -> dn_elems (dn_fs efs m') k e esz = Ok De0).
    { induction k as [|k IHk]; intros e De0 H0 W AD; [exact H0|]. cbn [dn_elems] in *.
      assert (HS : Z.of_nat (S k) * esz = Z.of_nat k * esz + esz) by lia. rewrite HS in W. assert (HK : 0 <= Z.of_nat k * esz) by nia.
      destruct (dn_fs efs m e) as [D1|] eqn:E1; cbn [bind] in H0; [|discriminate].
      destruct (dn_elems (dn_fs efs m) k (e + esz) esz) as [D2|] eqn:E2; cbn [bind] in H0; [|discriminate].
      inversion H0. subst De0.
      rewrite (IH esz e D1 Hwfe E1).
      - cbn [bind]. rewrite (IHk _ _ E2); [reflexivity| |].
        + unfold within in *. cbn [fst snd] in *. lia.
        + intros r Hr. apply AD. apply in_or_app. right. exact Hr.
      - intros r [Hr|Hr]; [|apply AD; apply in_or_app; left; exact Hr].
        eapply agree_within; [exact Apn|]. eapply within_trans; [apply (proj2 aranges_within efs esz e Hwfe r Hr)|].
        unfold within in *. cbn [fst snd] in *. lia. }
    rewrite (Hl _ _ _ Ee); [reflexivity| |].
    + unfold within. cbn [fst snd]. lia.
    + intros r Hr. apply A. right. right. exact Hr.
  - (* FIov *) intros avail a D _ H A. cbn [dn_f aranges_f] in *.
    assert (A24 : agree m m' (a, 24)) by (apply A; left; left; reflexivity).
    rewrite (agree_load64 m m' _ a A24) by (unfold within; cbn; lia).
    rewrite (agree_load64 m m' _ (a + 8) A24) by (unfold within; cbn; lia).
    destruct (load64 m a) as [p|]; cbn [bind] in *; [|discriminate].
    destruct (load64 m (a + 8)) as [n|] eqn:L2; cbn [bind] in *; [|discriminate].
    pose proof (load64_range _ _ _ Hbm L2) as Rn.
    destruct (dn_iovecs m p (Z.to_nat (n / 16))) as [Dp|] eqn:E; cbn [bind] in H; [|discriminate]. inversion H. subst D.
    rewrite (dn_iovecs_stable m m' _ p (p, n) _ E); [reflexivity| |].
    + apply A. right. left. reflexivity.
    + unfold within. cbn [fst snd]. rewrite Z2Nat.id by (apply Z.div_pos; lia). pose proof (Z.mul_div_le n 16 ltac:(lia)). lia.
  - (* FAIov *) intros avail a D _ H A. cbn [dn_f aranges_f] in *.
    assert (A24 : agree m m' (a, 24)) by (apply A; left; left; reflexivity).
    rewrite (agree_load64 m m' _ a A24) by (unfold within; cbn; lia).
    rewrite (agree_load64 m m' _ (a + 8) A24) by (unfold within; cbn; lia).
    destruct (load64 m a) as [p|]; cbn [bind] in *; [|discriminate].
    destruct (load64 m (a + 8)) as [n|] eqn:L2; cbn [bind] in *; [|discriminate].
    pose proof (load64_range _ _ _ Hbm L2) as Rn.
    destruct (dn_iovecs m p (Z.to_nat (n / 16))) as [Dp|] eqn:E; cbn [bind] in H; [|discriminate]. inversion H. subst D.
    rewrite (dn_iovecs_stable m m' _ p (p, n) _ E); [reflexivity| |].
    + apply A. right. left. reflexivity.
    + unfold within. cbn [fst snd]. rewrite Z2Nat.id by (apply Z.div_pos; lia). pose proof (Z.mul_div_le n 16 ltac:(lia)). lia.
  - (* FNest *) intros fs IH avail a D Hwf H A. cbn [dn_f aranges_f field_wf] in *. eapply IH; eauto.
  - (* FMap *) intros vsz vfs _ avail a D _ H A. cbn [dn_f aranges_f] in *.
    assert (A1 : agree m m' (a, 16)) by (apply A; left; left; reflexivity).
    assert (A2 : agree m m' (a + 16, 16)) by (apply A; left; right; left; reflexivity).
    rewrite (agree_load64 m m' _ a A1) by (unfold within; cbn; lia).
    rewrite (agree_load64 m m' _ (a + 8) A1) by (unfold within; cbn; lia).
    rewrite (agree_load64 m m' _ (a + 16) A2) by (unfold within; cbn; lia).
    rewrite (agree_load64 m m' _ (a + 24) A2) by (unfold within; cbn; lia). exact H.
  - intros sz b D _ H _. exact H.
  - intros off f IHf r IHr sz b D [Ho [Hwf Hwr]] H A. cbn [dn_fs aranges_fs] in *.
    destruct (dn_f f m (b + off)) as [D1|] eqn:E1; cbn [bind] in H; [|discriminate].
    destruct (dn_fs r m b) as [D2|] eqn:E2; cbn [bind] in H; [|discriminate]. inversion H. subst D.
    rewrite (IHf _ _ _ Hwf E1); [cbn [bind]; rewrite (IHr _ _ _ Hwr E2); [reflexivity|]|].
    + intros x [Hx|Hx]; apply A; [left|right]; apply in_or_app; right; exact Hx.
    + intros x [Hx|Hx]; apply A; [left|right]; apply in_or_app; left; exact Hx.
Qed.
