(* C16_Model.v — executable model of the file adaptors of
     fs/aligned-file.cpp   (AlignedFileAdaptor: pread/pwrite 65-136, vectored 137-265)
     fs/xfile.cpp          (FixedSizeLinearFile / VariableSizeLinearFile / StripeFile 35-263)
     fs/virtual-file.cpp   (VirtualFile::preadv/pwritev -> piov_copy 72-79, 113-139)
   stacked on well-behaved plain files (no short I/O other than at EOF).
   Definitions only (no proofs).  The range arithmetic is the C15 model of
   fs/range-split.h / range-split-vi.h, used literally.

   A plain file is a list of bytes (bytes are Z).  The same four operations
   f_pread / f_pwrite / f_truncate / f_size are (a) the reference semantics
   the adaptors are compared with and (b) the underlay the adaptors call.
   Every underlay call is appended to a trace of events. *)
From Coq Require Import ZArith List Bool.
From PV Require Import Base.U64 C15.C15_Model.
Import ListNotations.
Local Open Scope Z_scope.

Definition byte := Z.
Definition file := list byte.

(* content of freshly allocated memory (malloc / posix_memalign / new char[]):
   unspecified in C; the harness runs under ASan, whose malloc_fill_byte is 0xbe. *)
Definition GARBAGE : byte := 190.
(* content of a caller's read buffer before the call (harness: 0xCC) *)
Definition PREFILL : byte := 204.

Definition zlen {A} (l : list A) : Z := Z.of_nat (length l).
Definition ztake {A} (n : Z) (l : list A) : list A := firstn (Z.to_nat n) l.
Definition zdrop {A} (n : Z) (l : list A) : list A := skipn (Z.to_nat n) l.
Definition zrep {A} (x : A) (n : Z) : list A := repeat x (Z.to_nat n).

(* memcpy(l + pos, d, |d|)   (pos + |d| <= |l| at every use) *)
Definition overwrite (l : list byte) (pos : Z) (d : list byte) : list byte :=
  ztake pos l ++ d ++ zdrop (pos + zlen d) l.

(* ------------------------------------------------------------------ *)
(* the plain file                                                      *)
Definition f_size (f : file) : Z := zlen f.
Definition f_pread (f : file) (count off : Z) : list byte := ztake count (zdrop off f).
Definition f_pwrite (f : file) (data : list byte) (off : Z) : file :=
  match data with
  | [] => f
  | _ => let g := f ++ zrep 0 (off - zlen f) in          (* a hole reads as zeros *)
         ztake off g ++ data ++ zdrop (off + zlen data) g
  end.
Definition f_truncate (f : file) (len : Z) : file := ztake len f ++ zrep 0 (len - zlen f).

(* ------------------------------------------------------------------ *)
(* trace of underlay calls                                             *)
Inductive opk := KPread | KPwrite | KPreadv | KPwritev | KFstat | KFtruncate.
Record event := mkEv {
  ev_file : Z;        (* index of the underlay file *)
  ev_op : opk;
  ev_off : Z;         (* offset (ftruncate: the new length) *)
  ev_len : Z;         (* byte count (vectored: sum of the element lengths) *)
  ev_mem : bool }.    (* every buffer address (vectored: and element length) is a multiple of the alignment *)

(* a caller's buffer / one iovec element: its address is (4096-aligned base) + sg_mis;
   sg_data = bytes to write, or the buffer's content before a read *)
Record seg := mkSeg { sg_mis : Z; sg_data : list byte }.

(* result of one operation on an adaptor *)
Record opres := mkRes {
  rs_ret : Z;                    (* return value; -1 = error; -99 = C++ undefined behaviour (vector index out of range) *)
  rs_errno : Z;                  (* errno when rs_ret < 0 (0 = left unchanged) *)
  rs_bufs : list (list byte);    (* caller's buffers after the call *)
  rs_files : list file;          (* underlay files after the call *)
  rs_trace : list event }.

Definition EIO : Z := 5.
Definition EINVAL : Z := 22.
Definition ENOSYS : Z := 38.

Definition sum_len (segs : list seg) : Z := fold_right (fun s a => zlen (sg_data s) + a) 0 segs.
Definition gather (segs : list seg) : list byte := concat (map sg_data segs).
(* iovector_view::memcpy_iov(dest = bufs, src = data): fill the buffers in order *)
Fixpoint scatter (bufs : list (list byte)) (data : list byte) : list (list byte) :=
  match bufs with
  | [] => []
  | b :: rest => (firstn (length b) data ++ skipn (length data) b) :: scatter rest (skipn (length b) data)
  end.

(* ------------------------------------------------------------------ *)
(* AlignedFileAdaptor                                                  *)
Section Aligned.
  Variable A : Z.          (* m_alignment (a power of two) *)
  Variable am : bool.      (* m_align_memory *)

  Definition p2split (off count : Z) : rs := init (divide_p2 A) (getlen_fixed A) off count.
  Definition is_aligned (r : rs) : bool := (r_brem r =? 0) && (r_erem r =? 0).
  (* is_aligned_ptr: divide(x) then multiply(round_down) == x, on the address; the base is
     4096-aligned and A divides 4096, so only the misalignment matters *)
  Definition ptr_aligned (mis : Z) : bool := mult_p2 A (d_down (divide_p2 A mis)) =? mis.
  (* iov_align_check 149-155 *)
  Definition iov_align_check (segs : list seg) : bool :=
    forallb (fun s => (Z.land (sg_mis s) (A - 1) =? 0) && (Z.land (zlen (sg_data s)) (A - 1) =? 0)) segs.
  Definition abo (r : rs) : Z := mult_p2 A (r_abegin r).
  Definition aeo (r : rs) : Z := mult_p2 A (r_aend r).
  Definition alen (r : rs) : Z := mult_p2 A (wrap (r_aend r - r_abegin r)).
  (* the constructor binds AlignedAlloc(max(alignment, sizeof(void* ))) when align_memory (no allocator
     given), else malloc.  (Before /repo commit 1dad76b it was AlignedAlloc(alignment), and posix_memalign
     refused every alignment < sizeof(void* ) with EINVAL: finding F30, fixed.)  posix_memalign accepts
     every power of two >= sizeof(void* ), so the allocation fails only if that bound were missed. *)
  Definition alloc_alignment : Z := if A <? 8 then 8 else A.
  Definition alloc_fails : bool := am && (alloc_alignment <? 8).

  Definition fail (en : Z) (bufs : list (list byte)) (f : file) (tr : list event) : opres :=
    mkRes (-1) en bufs [f] tr.

  (* pread 65-85 *)
  Definition al_pread (f : file) (b : seg) (off : Z) : opres :=
    let count := zlen (sg_data b) in
    if count =? 0 then mkRes 0 0 [sg_data b] [f] [] else
    let r := p2split off count in
    if is_aligned r && (negb am || ptr_aligned (sg_mis b)) then
      let d := f_pread f count off in
      mkRes (zlen d) 0 [overwrite (sg_data b) 0 d] [f] [mkEv 0 KPread off count (ptr_aligned (sg_mis b))]
    else if alloc_fails then fail EINVAL [sg_data b] f [] else
    let d := f_pread f (alen r) (abo r) in
    let bounce := overwrite (zrep GARBAGE (alen r)) 0 d in
    let ret := zlen d in
    let tr := [mkEv 0 KPread (abo r) (alen r) true] in
    if ret <? r_brem r then fail 0 [sg_data b] f tr else
    let actual := if ret - r_brem r >? count then count else ret - r_brem r in
    mkRes actual 0 [overwrite (sg_data b) 0 (ztake actual (zdrop (r_brem r) bounce))] [f] tr.

  (* the read-modify-write common to pwrite 93-135 and pwritev2_mutable 202-263:
     kr = the underlay read op used to patch the first / last block, kw = the write op.
     vec = true selects the two places where the vectored variant differs *)
  Definition al_rmw (vec : bool) (f : file) (data : list byte) (bufs : list (list byte)) (off : Z) (r : rs) : opres :=
    let kr := if vec then KPreadv else KPread in
    let kw := if vec then KPwritev else KPwrite in
    let count := zlen data in
    let filesize := f_size f in
    let tr0 := [mkEv 0 KFstat 0 0 true] in
    let suppose := if off + count >? filesize then off + count else filesize in
    if alloc_fails then fail EINVAL bufs f tr0 else
    let buf0 := zrep GARBAGE (alen r) in
    (* patch the first block 102-111 / 211-227 *)
    let '(bad1, buf1, tr1) :=
      if 0 <? r_brem r then
        let o := abo r in
        let d := f_pread f A o in
        let ret := zlen d in
        ((o + ret <? filesize) && (ret <? A),
         (if ret <? A then overwrite (overwrite buf0 0 d) ret (zrep 0 (A - ret)) else overwrite buf0 0 d),
         tr0 ++ [mkEv 0 kr o A true])
      else (false, buf0, tr0) in
    if bad1 then fail 0 bufs f tr1 else
    (* patch the last block 113-124 / 228-244 *)
    let '(bad2, buf2, tr2) :=
      if negb (sub_nonempty (r_small r)) && (0 <? r_erem r) then
        let o := aeo r - A in
        if filesize - o >? r_erem r then
          let d := f_pread f A o in
          let ret := zlen d in
          ((ret + o <? filesize) && (ret <? A), overwrite buf1 (o - abo r) d, tr1 ++ [mkEv 0 kr o A true])
        else (false, buf1, tr1)
      else (false, buf1, tr1) in
    if bad2 then fail 0 bufs f tr2 else
    let buf3 := overwrite buf2 (r_brem r) data in                         (* 126 / 246-248 *)
    let f' := f_pwrite f buf3 (abo r) in                                  (* 127 / 250 *)
    let actual_write := zlen buf3 in
    let tr3 := tr2 ++ [mkEv 0 kw (abo r) (alen r) true] in
    let current_tail := wrap (abo r + actual_write) in
    if current_tail <? off then mkRes (-1) 0 bufs [f'] tr3 else
    if vec then
      let '(f'', tr4, tail') :=
        if suppose <? current_tail
        then (f_truncate f' suppose, tr3 ++ [mkEv 0 KFtruncate suppose 0 true], suppose)
        else (f', tr3, current_tail) in
      let cw := tail' - off in
      mkRes (if cw >? count then count else cw) 0 bufs [f''] tr4
    else
      let cw := if current_tail - off >=? count then count else current_tail - off in
      if suppose <? current_tail
      then mkRes cw 0 bufs [f_truncate f' suppose] (tr3 ++ [mkEv 0 KFtruncate suppose 0 true])
      else mkRes cw 0 bufs [f'] tr3.

  (* pwrite 86-136 *)
  Definition al_pwrite (f : file) (b : seg) (off : Z) : opres :=
    let data := sg_data b in
    let count := zlen data in
    if count =? 0 then mkRes 0 0 [data] [f] [] else
    let r := p2split off count in
    if is_aligned r && (negb am || ptr_aligned (sg_mis b)) then
      mkRes count 0 [data] [f_pwrite f data off] [mkEv 0 KPwrite off count (ptr_aligned (sg_mis b))]
    else al_rmw false f data [data] off r.

  (* preadv -> preadv_mutable -> preadv2_mutable 137-180 *)
  Definition al_preadv (f : file) (segs : list seg) (off : Z) : opres :=
    let bufs := map sg_data segs in
    let count := sum_len segs in
    if count =? 0 then mkRes 0 0 bufs [f] [] else
    let r := p2split off count in
    if is_aligned r && (negb am || iov_align_check segs) then
      let d := f_pread f count off in
      mkRes (zlen d) 0 (scatter bufs d) [f] [mkEv 0 KPreadv off count (iov_align_check segs)]
    else if alloc_fails then fail EINVAL bufs f [] else
    let d := f_pread f (alen r) (abo r) in
    let bounce := overwrite (zrep GARBAGE (alen r)) 0 d in
    let ret := zlen d in
    let tr := [mkEv 0 KPreadv (abo r) (alen r) true] in
    if ret <? r_brem r then fail 0 bufs f tr else
    let actual := if ret - r_brem r >? count then count else ret - r_brem r in
    (* rbuf.extract_back(alignment - end_remainder) if end_remainder; rbuf.extract_front(begin_remainder) *)
    let back := if r_erem r =? 0 then 0 else A - r_erem r in
    let view := zdrop (r_brem r) (ztake (alen r - back) bounce) in
    mkRes actual 0 (scatter bufs (ztake actual view)) [f] tr.

  (* pwritev -> pwritev_mutable -> pwritev2_mutable 181-265 *)
  Definition al_pwritev (f : file) (segs : list seg) (off : Z) : opres :=
    let bufs := map sg_data segs in
    let count := sum_len segs in
    if count =? 0 then mkRes 0 0 bufs [f] [] else
    let r := p2split off count in
    if is_aligned r && (negb am || iov_align_check segs) then
      mkRes count 0 bufs [f_pwrite f (gather segs) off] [mkEv 0 KPwritev off count (iov_align_check segs)]
    else al_rmw true f (gather segs) bufs off r.
End Aligned.

(* ------------------------------------------------------------------ *)
(* XFile family                                                        *)
Inductive xkind :=
| XFixedP2 (unit : Z)       (* FixedSizeLinearFile<range_split_power2> *)
| XFixed (unit : Z)         (* FixedSizeLinearFile<range_split> *)
| XVar (kp : list Z)        (* VariableSizeLinearFile, m_key_points *)
| XStripe (stripe : Z).     (* StripeFile *)
Record xfile := mkX { x_kind : xkind; x_n : Z; x_size : Z }.

Definition get_file (files : list file) (i : Z) : option file :=
  if i <? 0 then None else nth_error files (Z.to_nat i).
Fixpoint set_nth {T} (l : list T) (n : nat) (x : T) : list T :=
  match l, n with
  | [], _ => []
  | _ :: t, O => x :: t
  | h :: t, S m => h :: set_nth t m x
  end.
Definition set_file (files : list file) (i : Z) (f : file) : list file := set_nth files (Z.to_nat i) f.

(* one forwarded part: (sub-file index, offset inside it, length) *)
Definition xparts (x : xfile) (off count : Z) : option (list (Z * Z * Z)) :=
  let conv (l : option (list sub)) (f : sub -> Z * Z * Z) :=
    match l with Some l => Some (map f l) | None => None end in
  let plain (s : sub) := (s_i s, s_off s, s_len s) in
  match x_kind x with
  | XFixedP2 u =>
      let r := init (divide_p2 u) (getlen_fixed u) off count in
      conv (all_parts (getlen_fixed u) r (S (Z.to_nat (wrap (r_aend r - r_abegin r))))) plain
  | XFixed u =>
      let r := init (divide_fixed u) (getlen_fixed u) off count in
      conv (all_parts (getlen_fixed u) r (S (Z.to_nat (wrap (r_aend r - r_abegin r))))) plain
  | XVar kp =>
      let r := init (divide_vi kp) (getlen_vi kp) off count in
      conv (all_parts (getlen_vi kp) r (S (Z.to_nat (wrap (r_aend r - r_abegin r))))) plain
  | XStripe s =>
      let r := init (divide_p2 s) (getlen_fixed s) off count in
      conv (all_parts (getlen_fixed s) r (S (Z.to_nat (wrap (r_aend r - r_abegin r)))))
           (fun p => (s_i p mod x_n x, wrap (mult_p2 s (s_i p / x_n x) + s_off p), s_len p))
  end.

(* the loop of pio (xfile.cpp 114-120, 155-161, 206-214); pos = progress inside buf *)
Fixpoint pio_loop (isread : bool) (files : list file) (buf : list byte) (pos : Z)
                  (parts : list (Z * Z * Z)) (tr : list event)
  : Z * list file * list byte * list event :=          (* (0 ok | -1 short | -99 UB, ...) *)
  match parts with
  | [] => (0, files, buf, tr)
  | (i, p, len) :: rest =>
    match get_file files i with
    | None => (-99, files, buf, tr)
    | Some f =>
      if isread then
        let d := f_pread f len p in
        let buf' := overwrite buf pos d in
        let tr' := tr ++ [mkEv i KPread p len true] in
        if zlen d <? len then (-1, files, buf', tr')
        else pio_loop isread files buf' (pos + len) rest tr'
      else
        let chunk := ztake len (zdrop pos buf) in
        let files' := set_file files i (f_pwrite f chunk p) in
        pio_loop isread files' buf (pos + len) rest (tr ++ [mkEv i KPwrite p len true])
    end
  end.

(* XFile::pread / pwrite -> pio (57-66 + the three overrides) on a buffer of |buf| bytes *)
Definition x_pio (x : xfile) (isread : bool) (files : list file) (buf : list byte) (off : Z) : opres :=
  let count0 := zlen buf in
  if (off <? 0) || (x_size x <=? off) then mkRes (-1) EIO [buf] files [] else
  let count := if wrap (off + count0) >? x_size x then wrap (x_size x - off) else count0 in
  match xparts x off count with
  | None => mkRes (-99) 0 [buf] files []
  | Some parts =>
    let '(st, files', buf', tr) := pio_loop isread files buf 0 parts [] in
    mkRes (if st =? 0 then count else st) 0 [buf'] files' tr
  end.

(* VirtualFile::preadv / pwritev -> piov -> piov_copy (virtual-file.cpp 72-79, 113-139) *)
Definition x_piov (x : xfile) (isread : bool) (files : list file) (segs : list seg) (off : Z) : opres :=
  match segs with
  | [] => mkRes 0 0 [] files []
  | [s] => x_pio x isread files (sg_data s) off
  | _ =>
    let bufs := map sg_data segs in
    let count := sum_len segs in
    if isread then
      let r := x_pio x true files (zrep GARBAGE count) off in     (* new char[count + 4096] *)
      if rs_ret r <=? 0 then mkRes (rs_ret r) (rs_errno r) bufs (rs_files r) (rs_trace r)
      else mkRes (rs_ret r) 0 (scatter bufs (ztake (rs_ret r) (hd [] (rs_bufs r)))) (rs_files r) (rs_trace r)
    else
      let r := x_pio x false files (gather segs) off in
      mkRes (rs_ret r) (rs_errno r) bufs (rs_files r) (rs_trace r)
  end.

(* the factories (xfile.cpp 233-263) and the init() methods: Some (adaptor, init trace) or
   None = nullptr (with the trace of the calls made before giving up) *)
Definition is_power_of_2 (x : Z) : bool := (x =? 0) || (Z.land x (x - 1) =? 0).
Definition fstat_ev (i : Z) : event := mkEv i KFstat 0 0 true.
Fixpoint fstat_all (files : list file) (i : Z) : list event :=
  match files with [] => [] | _ :: t => fstat_ev i :: fstat_all t (i + 1) end.
Fixpoint key_points (files : list file) (acc : Z) : list Z :=
  match files with [] => [MAX64] | f :: t => let a := wrap (acc + f_size f) in a :: key_points t a end.

Definition new_fixed (unit : Z) (files : list file) : option xfile * list event :=
  let n := zlen files in
  if (n =? 0) || (unit =? 0) then (None, [])
  else (Some (mkX (if is_power_of_2 unit then XFixedP2 unit else XFixed unit) n (wrap (n * unit))), []).
Definition new_linear (files : list file) : option xfile * list event :=
  let n := zlen files in
  if n =? 0 then (None, [])
  else (Some (mkX (XVar (0 :: key_points files 0)) n (fold_left (fun a f => wrap (a + f_size f)) files 0)), fstat_all files 0).
(* StripeFile::init 170-196: every file must be non-empty, a multiple of the stripe size, all equal *)
Fixpoint stripe_scan (stripe : Z) (files : list file) (i : Z) (msize : Z) (tr : list event) : option Z * list event :=
  match files with
  | [] => (Some msize, tr)
  | f :: t =>
    let tr' := tr ++ [fstat_ev i] in
    let sz := f_size f in
    if sz =? 0 then (None, tr') else
    if negb (sz mod stripe =? 0) then (None, tr') else
    if msize =? 0 then stripe_scan stripe t (i + 1) sz tr' else
    if negb (msize =? sz) then (None, tr') else stripe_scan stripe t (i + 1) msize tr'
  end.
Definition new_stripe (stripe : Z) (files : list file) : option xfile * list event :=
  let n := zlen files in
  if n =? 0 then (None, []) else
  if negb (is_power_of_2 stripe) then (None, []) else
  match stripe_scan stripe files 0 0 [] with
  | (Some m, tr) => (Some (mkX (XStripe stripe) n (wrap (m * n))), tr)
  | (None, tr) => (None, tr)
  end.

(* ------------------------------------------------------------------ *)
(* operations and sequences                                            *)
Inductive op :=
| OPread (b : seg) (off : Z)
| OPwrite (b : seg) (off : Z)
| OPreadv (segs : list seg) (off : Z)
| OPwritev (segs : list seg) (off : Z)
| OFstat
| OFtruncate (len : Z).

Inductive adaptor :=
| AdAligned (A : Z) (am : bool)
| AdX (x : xfile).

Definition file0 (files : list file) : file := hd [] files.

Definition run_op (ad : adaptor) (files : list file) (o : op) : opres :=
  match ad with
  | AdAligned A am =>
    let f := file0 files in
    match o with
    | OPread b off => al_pread A am f b off
    | OPwrite b off => al_pwrite A am f b off
    | OPreadv segs off => al_preadv A am f segs off
    | OPwritev segs off => al_pwritev A am f segs off
    | OFstat => mkRes (f_size f) 0 [] files [fstat_ev 0]                   (* ForwardFile::fstat *)
    | OFtruncate len => mkRes 0 0 [] [f_truncate f len] [mkEv 0 KFtruncate len 0 true]
    end
  | AdX x =>
    match o with
    | OPread b off => x_pio x true files (sg_data b) off
    | OPwrite b off => x_pio x false files (sg_data b) off
    | OPreadv segs off => x_piov x true files segs off
    | OPwritev segs off => x_piov x false files segs off
    | OFstat => mkRes (x_size x) 0 [] files [fstat_ev 0]                    (* XFile::fstat 79-87 *)
    | OFtruncate _ => mkRes (-1) ENOSYS [] files []                         (* UNIMPLEMENTED 91 *)
    end
  end.

Fixpoint run_ops (ad : adaptor) (files : list file) (ops : list op) : list opres * list file :=
  match ops with
  | [] => ([], files)
  | o :: rest =>
    let r := run_op ad files o in
    let '(rs, final) := run_ops ad (rs_files r) rest in
    (r :: rs, final)
  end.

(* the reference: one plain file; a fixed-size composite clips at its end and refuses requests
   that start at or after it (those are outside the property) *)
Definition ref_pread (f : file) (count off : Z) : list byte := f_pread f count off.
Definition ref_pwrite_fixed (f : file) (data : list byte) (off : Z) : file :=
  f_pwrite f (ztake (zlen f - off) data) off.
