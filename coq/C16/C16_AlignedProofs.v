(* C16_AlignedProofs.v — AlignedFileAdaptor refines the plain file, and every request it
   issues to the underlay is aligned. *)
From Coq Require Import ZArith List Bool Lia.
From PV Require Import Base.U64 C15.C15_Model C15.C15_Spec C15.C15_ProofsGeneric C15.C15_Proofs.
From PV Require Import C16.C16_Model C16.C16_Lists.
Import ListNotations.
Local Open Scope Z_scope.

(* ------------------------------------------------------------------ *)
(* 1. the power-of-two split, in / and mod                              *)

Lemma init_brem divide L o n : r_brem (init divide L o n) = d_rem (divide o).
Proof.
  unfold init.
  repeat match goal with |- context [if ?c then _ else _] => destruct c end; reflexivity.
Qed.
Lemma init_erem divide L o n : r_erem (init divide L o n) = d_rem (divide (wrap (o + n))).
Proof.
  unfold init.
  repeat match goal with |- context [if ?c then _ else _] => destruct c end; reflexivity.
Qed.

(* everything al_* reads from the split, for a non-empty request under the guard *)
Record split_facts (A off count : Z) (r : rs) (AB AE : Z) : Prop := {
  sf_AB : 0 <= AB <= off;
  sf_ABlt : off < AB + A;
  sf_AE : off + count <= AE < off + count + A;
  sf_brem : r_brem r = off - AB;
  sf_erem : 0 <= r_erem r < A;
  sf_erem0 : r_erem r = 0 -> AE = off + count;
  sf_erem1 : 0 < r_erem r -> AE = off + count + A - r_erem r;
  sf_abo : abo A r = AB;
  sf_aeo : aeo A r = AE;
  sf_alen : alen A r = AE - AB;
  sf_blocks : AB + A <= AE;
  sf_small : sub_nonempty (r_small r) = true -> AE = AB + A /\ 0 < r_brem r /\ 0 < r_erem r;
  sf_notsmall : sub_nonempty (r_small r) = false -> 0 < r_erem r -> AE = AB + A -> r_brem r = 0;
  sf_modAB : AB mod A = 0;
  sf_modAE : AE mod A = 0
}.

Lemma p2split_facts k off count : 0 <= k < 64 -> 0 <= off -> 0 < count ->
  off + count + 2 ^ k - 1 < W64 ->
  let A := 2 ^ k in
  let r := p2split A off count in
  split_facts A off count r (off / A * A) ((off + count + A - 1) / A * A).
Proof.
  intros Hk Ho Hc Hg A r.
  assert (HA : 0 < A < W64) by (apply pow2_lt_W64; exact Hk).
  assert (EA : A = 2 ^ k) by reflexivity. clearbody A. rewrite <- EA in Hg.
  assert (G : fixed_guard off count A) by (unfold fixed_guard; lia).
  assert (P2 : is_pow2_64 A) by (exists k; split; [exact Hk|exact EA]).
  pose proof (fixed_hyps _ _ _ G) as SH.
  assert (Er : r = init (divide_fixed A) (getlen_fixed A) off count).
  { unfold r, p2split. apply init_p2_fixed. exact P2. }
  pose proof (init_abegin _ _ _ _ _ _ _ SH) as IA.
  pose proof (init_aend _ _ _ _ _ _ _ SH) as IE.
  rewrite <- Er in IA, IE.
  assert (IB : r_brem r = off mod A) by (rewrite Er, init_brem; reflexivity).
  assert (IR : r_erem r = (off + count) mod A).
  { rewrite Er, init_erem. rewrite wrap_small by lia. reflexivity. }
  cbn [divide_fixed d_down d_up] in IA, IE. rewrite wrap_small in IE by lia.
  pose proof (Z.div_mod off A ltac:(lia)) as D1. pose proof (Z.mod_pos_bound off A ltac:(lia)) as M1.
  pose proof (Z.div_mod (off + count) A ltac:(lia)) as D2.
  pose proof (Z.mod_pos_bound (off + count) A ltac:(lia)) as M2.
  destruct (div_fixed_spec A (off + count) ltac:(lia) ltac:(lia) ltac:(lia)) as (_ & _ & UP).
  cbn [divide_fixed d_down d_up d_rem] in UP. rewrite wrap_small in UP by lia.
  set (q1 := off / A) in *. set (r1 := off mod A) in *.
  set (q2 := (off + count) / A) in *. set (r2 := (off + count) mod A) in *.
  set (ae := (off + count + A - 1) / A) in *.
  assert (Q1 : 0 <= q1) by (apply Z.div_pos; lia).
  assert (Q2 : 0 <= q2) by (apply Z.div_pos; lia).
  assert (Q12 : q1 <= q2) by (apply Z.div_le_mono; lia).
  assert (AEq : ae * A = if r2 =? 0 then off + count else off + count + A - r2).
  { rewrite UP. destruct (Z.eqb_spec r2 0); lia. }
  assert (AElt : q1 < ae).
  { rewrite UP. destruct (Z.eqb_spec r2 0) as [E|E]; [|lia].
    destruct (Z.eq_dec q1 q2) as [Q|Q]; [|lia]. rewrite Q in D1. lia. }
  pose proof (div_le_self off A Ho ltac:(lia)) as DL1. fold q1 in DL1.
  assert (Small : sub_nonempty (r_small r) = (q1 + 1 =? ae) && negb (r1 =? 0) && negb (r2 =? 0)).
  { rewrite Er. destruct (Z.eq_dec (wrap (q1 + 1)) ae) as [W|W].
    - destruct (init_small _ _ _ _ _ _ _ SH) as (_ & S & _).
      { cbn [divide_fixed d_down d_up]. rewrite (wrap_small (off + count + A - 1)) by lia. exact W. }
      rewrite S. cbn [divide_fixed d_rem]. fold r1 r2.
      rewrite wrap_small in W by lia. rewrite W, Z.eqb_refl.
      destruct (r1 =? 0), (r2 =? 0); cbn [negb andb sub_nonempty s_len sub0]; try reflexivity.
      apply Z.ltb_lt. exact Hc.
    - destruct (init_big _ _ _ _ _ _ _ SH) as (S & _).
      { cbn [divide_fixed d_down d_up]. rewrite (wrap_small (off + count + A - 1)) by lia. exact W. }
      rewrite S. rewrite wrap_small in W by lia.
      destruct (Z.eqb_spec (q1 + 1) ae); [contradiction|]. reflexivity. }
  clearbody q1 r1 q2 r2 ae.
  assert (Hmul1 : mult_p2 A q1 = q1 * A).
  { rewrite EA, mult_p2_fixed by exact Hk. unfold mult_fixed. rewrite <- EA. apply wrap_small. nia. }
  assert (Hmul2 : mult_p2 A ae = ae * A).
  { rewrite EA, mult_p2_fixed by exact Hk. unfold mult_fixed. rewrite <- EA. apply wrap_small.
    destruct (Z.eqb_spec r2 0); nia. }
  assert (Hmul3 : mult_p2 A (wrap (ae - q1)) = ae * A - q1 * A).
  { rewrite wrap_small by (destruct (Z.eqb_spec r2 0); nia).
    rewrite EA, mult_p2_fixed by exact Hk. unfold mult_fixed. rewrite <- EA.
    rewrite wrap_small by (destruct (Z.eqb_spec r2 0); nia). lia. }
  constructor.
  - nia.
  - nia.
  - destruct (Z.eqb_spec r2 0); lia.
  - rewrite IB. lia.
  - rewrite IR. lia.
  - rewrite IR. intros E. destruct (Z.eqb_spec r2 0); lia.
  - rewrite IR. intros E. destruct (Z.eqb_spec r2 0); lia.
  - unfold abo. rewrite IA. exact Hmul1.
  - unfold aeo. rewrite IE. exact Hmul2.
  - unfold alen. rewrite IA, IE. exact Hmul3.
  - nia.
  - rewrite Small, IB, IR. intros S.
    apply andb_true_iff in S. destruct S as (S & S3). apply andb_true_iff in S. destruct S as (S1 & S2).
    apply Z.eqb_eq in S1. apply negb_true_iff in S2, S3. apply Z.eqb_neq in S2, S3. nia.
  - rewrite Small, IB, IR. intros S E2 E.
    assert (q1 + 1 = ae) by nia.
    destruct (Z.eqb_spec (q1 + 1) ae); [|contradiction].
    destruct (Z.eqb_spec r1 0); [assumption|]. destruct (Z.eqb_spec r2 0); [lia|]. discriminate S.
  - apply Z_mod_mult.
  - apply Z_mod_mult.
Qed.

(* ------------------------------------------------------------------ *)
(* 2. alignment of the traced underlay requests                        *)
Definition is_io (e : event) : bool :=
  match ev_op e with KPread | KPwrite | KPreadv | KPwritev => true | _ => false end.
(* an I/O request is aligned: offset and length are multiples of A and, when memory
   alignment was requested, so is every buffer *)
Definition ev_aligned (A : Z) (am : bool) (e : event) : Prop :=
  is_io e = true -> ev_off e mod A = 0 /\ ev_len e mod A = 0 /\ (am = true -> ev_mem e = true).

(* ------------------------------------------------------------------ *)
(* 3. the read-modify-write                                            *)
Section RMW.
  Variables (A : Z) (am : bool).
  Variables (f : file) (data : list byte) (off : Z) (r : rs) (AB AE : Z).
  Hypothesis HA : 0 < A.
  Hypothesis Hcount : 0 < zlen data.
  Hypothesis SF : split_facts A off (zlen data) r AB AE.
  Hypothesis Halloc : alloc_fails A am = false.

  Ltac sfd := pose proof SF as SF';
    destruct SF' as [hAB hABlt hAE hbrem herem herem0 herem1 habo haeo halen hblocks hsmall hnotsmall hmodAB hmodAE].

  Local Notation count := (zlen data).
  Local Notation n := (zlen f).
  Local Notation suppose := (Z.max (off + zlen data) (zlen f)).

  Lemma short_read_ok o : 0 <= o ->
    let ret := zlen (f_pread f A o) in (o + ret <? n) && (ret <? A) = false.
  Proof.
    intros Ho ret. unfold ret. rewrite zlen_f_pread by exact Ho.
    destruct (Z.ltb_spec (Z.max 0 (Z.min A (n - o))) A); [|apply andb_false_r].
    destruct (Z.ltb_spec (o + Z.max 0 (Z.min A (n - o))) n); [lia|reflexivity].
  Qed.

  (* the first block after the patch: the file's bytes (zeros past EOF) *)
  Definition buf1 : list byte :=
    if 0 <? r_brem r then
      let d := f_pread f A AB in
      if zlen d <? A then overwrite (overwrite (zrep GARBAGE (AE - AB)) 0 d) (zlen d) (zrep (0 : byte) (A - zlen d))
      else overwrite (zrep GARBAGE (AE - AB)) 0 d
    else zrep GARBAGE (AE - AB).

  Lemma buf1_parts :
    let g := zrep GARBAGE (AE - AB) in let d := f_pread f A AB in
    zlen g = AE - AB /\ zlen d = Z.max 0 (Z.min A (n - AB)) /\
    zlen (overwrite g 0 d) = AE - AB /\ zlen (zrep (0 : byte) (A - zlen d)) = Z.max 0 (A - zlen d).
  Proof.
    sfd. intros g d.
    assert (L0 : zlen g = AE - AB) by (unfold g; rewrite zlen_zrep; lia).
    assert (LD : zlen d = Z.max 0 (Z.min A (n - AB))) by (unfold d; rewrite zlen_f_pread by lia; reflexivity).
    split; [exact L0|]. split; [exact LD|]. split; [|apply zlen_zrep].
    rewrite zlen_overwrite; lia.
  Qed.

  Lemma buf1_len : zlen buf1 = AE - AB.
  Proof.
    sfd. destruct buf1_parts as (L0 & LD & L1 & LZ).
    unfold buf1. destruct (0 <? r_brem r); [|exact L0].
    destruct (Z.ltb_spec (zlen (f_pread f A AB)) A); [|exact L1].
    rewrite zlen_overwrite; lia.
  Qed.

  Lemma buf1_get i : 0 < r_brem r -> 0 <= i < A -> get buf1 i = get f (AB + i).
  Proof.
    sfd. destruct buf1_parts as (L0 & LD & L1 & LZ).
    intros Hb Hi. unfold buf1. destruct (Z.ltb_spec 0 (r_brem r)); [|lia].
    pose proof (zlen_nonneg f) as Hn.
    set (d := f_pread f A AB) in *. set (g := zrep GARBAGE (AE - AB)) in *.
    destruct (Z.ltb_spec (zlen d) A).
    - destruct (Z_lt_dec i (zlen d)) as [I|I].
      + rewrite get_overwrite_out by lia.
        rewrite get_overwrite_in by lia.
        unfold d. rewrite get_f_pread by lia. f_equal. lia.
      + rewrite get_overwrite_in by lia.
        rewrite get_zrep0. symmetry. apply get_beyond. lia.
    - rewrite get_overwrite_in by lia.
      unfold d. rewrite get_f_pread by lia. f_equal. lia.
  Qed.

  (* the last block after the patch *)
  Definition tail_read : bool :=
    negb (sub_nonempty (r_small r)) && (0 <? r_erem r) && (n - (AE - A) >? r_erem r).
  Definition buf2 : list byte :=
    if tail_read then overwrite buf1 (AE - A - AB) (f_pread f A (AE - A)) else buf1.

  Lemma buf2_len : zlen buf2 = AE - AB.
  Proof.
    sfd. unfold buf2. destruct tail_read; [|apply buf1_len].
    pose proof (zlen_f_pread f A (AE - A) ltac:(lia)). pose proof buf1_len.
    rewrite zlen_overwrite; lia.
  Qed.

  Lemma buf2_get i : 0 <= i < AE - AB -> AB + i < suppose ->
    AB + i < off \/ off + count <= AB + i -> get buf2 i = get f (AB + i).
  Proof.
    sfd. intros Hi Hs Hout.
    pose proof buf1_len as L1. pose proof (zlen_f_pread f A (AE - A) ltac:(lia)) as LD.
    assert (In1 : 0 < r_brem r -> i < A -> get buf2 i = get f (AB + i)).
    { intros Hb HiA. unfold buf2. destruct tail_read.
      - destruct (Z_lt_dec i (AE - A - AB)) as [I|I].
        + rewrite get_overwrite_out by lia. apply buf1_get; lia.
        + destruct (Z_lt_dec i (AE - A - AB + zlen (f_pread f A (AE - A)))) as [J|J].
          * rewrite get_overwrite_in by lia. rewrite get_f_pread by lia. f_equal. lia.
          * rewrite get_overwrite_out by lia. apply buf1_get; lia.
      - apply buf1_get; lia. }
    destruct Hout as [Hlo|Hhi].
    - (* before the written range: in the first block, which was patched *)
      apply In1; lia.
    - (* after the written range: in the last block *)
      assert (E1 : 0 < r_erem r).
      { destruct (Z.eq_dec (r_erem r) 0) as [E|E]; [|lia]. specialize (herem0 E). lia. }
      specialize (herem1 E1).
      destruct (sub_nonempty (r_small r)) eqn:Sm.
      + destruct (hsmall eq_refl) as (S1 & S2 & S3). apply In1; lia.
      + assert (TR : tail_read = true).
        { unfold tail_read. rewrite Sm. cbn [negb andb].
          destruct (Z.ltb_spec 0 (r_erem r)); [|lia]. cbn [andb].
          apply Z.gtb_lt. lia. }
        unfold buf2. rewrite TR.
        assert (n > off + count) by lia.
        rewrite get_overwrite_in by lia. rewrite get_f_pread by lia. f_equal. lia.
  Qed.

  Definition buf3 : list byte := overwrite buf2 (r_brem r) data.

  Lemma buf3_len : zlen buf3 = AE - AB.
  Proof. sfd. pose proof buf2_len. unfold buf3. rewrite zlen_overwrite; lia. Qed.

  Lemma buf3_get_in i : off <= AB + i < off + count -> get buf3 i = get data (AB + i - off).
  Proof.
    sfd. intros Hi. pose proof buf2_len. unfold buf3.
    rewrite get_overwrite_in by lia. f_equal. lia.
  Qed.

  Lemma buf3_get_out i : 0 <= i < AE - AB -> AB + i < suppose ->
    AB + i < off \/ off + count <= AB + i -> get buf3 i = get f (AB + i).
  Proof.
    sfd. intros Hi Hs Ho. pose proof buf2_len. unfold buf3.
    rewrite get_overwrite_out by lia. apply buf2_get; assumption.
  Qed.

  (* write the bounce buffer, cut the overshoot: exactly the plain pwrite *)
  Lemma rmw_file :
    let f' := f_pwrite f buf3 AB in
    (if suppose <? AE then f_truncate f' suppose else f') = f_pwrite f data off.
  Proof.
    sfd. intros f'. pose proof buf3_len as L3. pose proof (zlen_nonneg f) as Hn.
   
    assert (NE3 : buf3 <> []) by (apply zlen_pos_nonnil; lia).
    assert (NEd : data <> []) by (apply zlen_pos_nonnil; exact Hcount).
    assert (Lf' : zlen f' = Z.max n AE).
    { unfold f'. rewrite zlen_f_pwrite by (try lia; exact NE3). lia. }
    assert (Gf' : forall j, 0 <= j < suppose -> get f' j =
              if (off <=? j) && (j <? off + count) then get data (j - off) else get f j).
    { intros j Hj. unfold f'.
      destruct (Z_lt_dec j AB) as [J1|J1].
      { rewrite get_f_pwrite_out by lia.
        destruct (Z.leb_spec off j); [lia|]. reflexivity. }
      destruct (Z_lt_dec j AE) as [J2|J2].
      - rewrite get_f_pwrite_in by lia.
        destruct (Z.leb_spec off j); destruct (Z.ltb_spec j (off + count)); cbn [andb].
        + rewrite buf3_get_in by lia. f_equal. lia.
        + rewrite buf3_get_out by lia. f_equal. lia.
        + rewrite buf3_get_out by lia. f_equal. lia.
        + rewrite buf3_get_out by lia. f_equal. lia.
      - rewrite get_f_pwrite_out by lia.
        destruct (Z.leb_spec off j); destruct (Z.ltb_spec j (off + count)); cbn [andb]; try reflexivity; lia. }
    apply list_ext.
    - rewrite (zlen_f_pwrite f data off) by (try lia; exact NEd).
      destruct (Z.ltb_spec suppose AE).
      + rewrite zlen_f_truncate by lia. lia.
      + rewrite Lf'. lia.
    - intros j Hj.
      assert (Hjs : 0 <= j < suppose).
      { destruct (Z.ltb_spec suppose AE).
        - rewrite zlen_f_truncate in Hj by lia. exact Hj.
        - rewrite Lf' in Hj. lia. }
      assert (E : get (if suppose <? AE then f_truncate f' suppose else f') j = get f' j).
      { destruct (suppose <? AE); [|reflexivity]. apply get_f_truncate; lia. }
      refine (eq_trans E _). rewrite Gf' by exact Hjs.
      destruct (Z.leb_spec off j); destruct (Z.ltb_spec j (off + count)); cbn [andb].
      + rewrite get_f_pwrite_in by lia. reflexivity.
      + rewrite get_f_pwrite_out by lia. reflexivity.
      + rewrite get_f_pwrite_out by lia. reflexivity.
      + rewrite get_f_pwrite_out by lia. reflexivity.
  Qed.
End RMW.
