(* C16_AlignedProofs2.v — the model's al_rmw / al_pread / al_preadv in terms of the lemmas of
   C16_AlignedProofs.v; the per-operation refinement theorems of the aligned adaptor. *)
From Coq Require Import ZArith List Bool Lia.
From PV Require Import Base.U64 C15.C15_Model C15.C15_Spec C15.C15_ProofsGeneric C15.C15_Proofs.
From PV Require Import C16.C16_Model C16.C16_Lists C16.C16_AlignedProofs.
Import ListNotations.
Local Open Scope Z_scope.

Lemma triple_if {X Y Z : Type} (c : bool) (a a' : X) (b b' : Y) (t t' : Z) :
  (if c then (a, b, t) else (a', b', t')) = (if c then a else a', if c then b else b', if c then t else t').
Proof. destruct c; reflexivity. Qed.
Lemma if_and {X : Type} (a b : bool) (x y : X) :
  (if a then (if b then x else y) else y) = if a && b then x else y.
Proof. destruct a, b; reflexivity. Qed.
Lemma if_same {X : Type} (c : bool) (x : X) : (if c then x else x) = x.
Proof. destruct c; reflexivity. Qed.
Lemma max_gtb a b : (if a >? b then a else b) = Z.max a b.
Proof. destruct (Z.gtb_spec a b); lia. Qed.

Section RMW2.
  Variables (A : Z) (am : bool).
  Variables (f : file) (data : list byte) (off : Z) (r : rs) (AB AE : Z).
  Hypothesis HA : 0 < A.
  Hypothesis Hcount : 0 < zlen data.
  Hypothesis SF : split_facts A off (zlen data) r AB AE.
  Hypothesis Halloc : alloc_fails A am = false.
  Hypothesis Hguard : AE < W64.
  Variables (vec : bool) (bufs : list (list byte)).

  Lemma al_rmw_spec :
    let res := al_rmw A am vec f data bufs off r in
    rs_ret res = zlen data /\ rs_bufs res = bufs /\ rs_files res = [f_pwrite f data off] /\
    Forall (ev_aligned A am) (rs_trace res).
  Proof.
    pose proof SF as SF'.
    destruct SF' as [hAB hABlt hAE hbrem herem herem0 herem1 habo haeo halen hblocks hsmall hnotsmall hmodAB hmodAE].
    pose proof (rmw_file A f data off r AB AE HA Hcount SF) as RF. cbv zeta in RF.
    pose proof (buf3_len A f data off r AB AE HA Hcount SF) as L3.
    pose proof (short_read_ok A f HA AB ltac:(lia)) as SR1. cbv zeta in SR1.
    pose proof (short_read_ok A f HA (AE - A) ltac:(lia)) as SR2. cbv zeta in SR2.
    cbv zeta. unfold al_rmw. rewrite Halloc, habo, haeo, halen. unfold f_size. cbv zeta.
    rewrite max_gtb. rewrite triple_if. cbv iota beta.
    rewrite SR1, if_same.
    change (if 0 <? r_brem r then if zlen (f_pread f A AB) <? A then _ else _ else zrep GARBAGE (AE - AB))
      with (buf1 A f r AB AE).
    rewrite if_and, triple_if. cbv iota beta.
    rewrite (Z.add_comm (zlen (f_pread f A (AE - A))) (AE - A)), SR2, if_same.
    change (if negb (sub_nonempty (r_small r)) && (0 <? r_erem r) && (zlen f - (AE - A) >? r_erem r)
            then overwrite (buf1 A f r AB AE) (AE - A - AB) (f_pread f A (AE - A)) else buf1 A f r AB AE)
      with (buf2 A f r AB AE).
    change (overwrite (buf2 A f r AB AE) (r_brem r) data) with (buf3 A f data r AB AE).
    rewrite L3. replace (AB + (AE - AB)) with AE by lia. rewrite (wrap_small AE) by lia.
    destruct (Z.ltb_spec AE off) as [C|_]; [lia|].
    assert (M1 : A mod A = 0) by (apply Z_mod_same_full).
    assert (M2 : (AE - A) mod A = 0).
    { replace (AE - A) with (AE + (-1) * A) by lia. rewrite Z_mod_plus_full. exact hmodAE. }
    assert (M3 : (AE - AB) mod A = 0).
    { rewrite Zminus_mod, hmodAE, hmodAB. reflexivity. }
    match goal with |- context [?t ++ [mkEv 0 (if vec then KPwritev else KPwrite) AB (AE - AB) true]] =>
      set (tr3 := t ++ [mkEv 0 (if vec then KPwritev else KPwrite) AB (AE - AB) true]) end.
    assert (T3 : Forall (ev_aligned A am) tr3).
    { unfold tr3.
      repeat match goal with |- context [if ?c then _ else _] => destruct c end; cbn [app];
        repeat constructor; unfold ev_aligned, is_io; cbn [ev_op ev_off ev_len ev_mem]; intros;
        try discriminate; repeat split; auto. }
    assert (T4 : Forall (ev_aligned A am) (tr3 ++ [mkEv 0 KFtruncate (Z.max (off + zlen data) (zlen f)) 0 true])).
    { apply Forall_app. split; [exact T3|]. repeat constructor. unfold ev_aligned, is_io. cbn [ev_op]. intros; discriminate. }
    clearbody tr3.
    destruct (Z.max (off + zlen data) (zlen f) <? AE) eqn:CT;
      apply Z.ltb_lt in CT || apply Z.ltb_ge in CT.
    - destruct vec; cbv iota beta; cbn [rs_ret rs_bufs rs_files rs_trace].
      + repeat split; [| rewrite RF; reflexivity | exact T4].
        destruct (Z.gtb_spec (Z.max (off + zlen data) (zlen f) - off) (zlen data)); lia.
      + repeat split; [| rewrite RF; reflexivity | exact T4].
        rewrite Z.geb_leb. destruct (Z.leb_spec (zlen data) (AE - off)); lia.
    - destruct vec; cbv iota beta; cbn [rs_ret rs_bufs rs_files rs_trace].
      + repeat split; [| rewrite RF; reflexivity | exact T3].
        destruct (Z.gtb_spec (AE - off) (zlen data)); lia.
      + repeat split; [| rewrite RF; reflexivity | exact T3].
        rewrite Z.geb_leb. destruct (Z.leb_spec (zlen data) (AE - off)); lia.
  Qed.
End RMW2.

(* ------------------------------------------------------------------ *)
(* reads through the bounce buffer                                     *)
Lemma overwrite_nil l : overwrite l 0 [] = l.
Proof. unfold overwrite, ztake, zdrop. cbn. reflexivity. Qed.

Lemma scatter_nil bufs : scatter bufs [] = bufs.
Proof.
  induction bufs as [|b bufs IH]; [reflexivity|]. cbn [scatter length].
  rewrite firstn_nil, skipn_nil. cbn [app skipn]. rewrite IH. reflexivity.
Qed.

Section ReadCore.
  Variables (A : Z) (f : file) (off count : Z) (r : rs) (AB AE : Z).
  Hypothesis HA : 0 < A.
  Hypothesis Hcount : 0 < count.
  Hypothesis SF : split_facts A off count r AB AE.
  Hypothesis Heof : off <= zlen f.

  Local Notation d := (f_pread f (AE - AB) AB).
  Local Notation bounce := (overwrite (zrep GARBAGE (AE - AB)) 0 d).
  Local Notation ret := (zlen d).
  Local Notation actual := (if ret - r_brem r >? count then count else ret - r_brem r).

  Lemma read_ret : (ret <? r_brem r) = false /\ actual = zlen (f_pread f count off).
  Proof.
    destruct SF as [hAB hABlt hAE hbrem herem herem0 herem1 habo haeo halen hblocks hsmall hnotsmall hmodAB hmodAE].
    rewrite zlen_f_pread by lia. rewrite zlen_f_pread by lia. rewrite hbrem. split.
    - apply Z.ltb_ge. lia.
    - destruct (Z.gtb_spec (Z.max 0 (Z.min (AE - AB) (zlen f - AB)) - (off - AB)) count); lia.
  Qed.

  Lemma read_data m : off - AB + count <= m ->
    ztake actual (zdrop (r_brem r) (ztake m bounce)) = f_pread f count off.
  Proof.
    intros Hm. destruct read_ret as (R1 & R2). rewrite R2.
    destruct SF as [hAB hABlt hAE hbrem herem herem0 herem1 habo haeo halen hblocks hsmall hnotsmall hmodAB hmodAE].
    pose proof (zlen_f_pread f (AE - AB) AB ltac:(lia)) as LD.
    pose proof (zlen_f_pread f count off ltac:(lia)) as LR.
    assert (LG : zlen (zrep GARBAGE (AE - AB)) = AE - AB) by (rewrite zlen_zrep; lia).
    assert (LB : zlen bounce = AE - AB) by (rewrite zlen_overwrite; lia).
    rewrite hbrem.
    assert (LA : zlen (f_pread f count off) <= count /\ off + zlen (f_pread f count off) <= zlen f /\
                 0 <= zlen (f_pread f count off)) by (clear - LR Heof Hcount; lia).
    assert (LD' : off - AB + zlen (f_pread f count off) <= zlen d /\ zlen d <= AE - AB)
      by (clear - LD LR Heof Hcount hAB hAE hblocks HA; lia).
    clear LD LR.
    apply list_ext.
    - rewrite zlen_ztake, zlen_zdrop, zlen_ztake, LB. clear - LA LD' Hm hAB hAE Hcount. lia.
    - intros i Hi. rewrite zlen_ztake, zlen_zdrop, zlen_ztake, LB in Hi.
      assert (Hi' : 0 <= i < zlen (f_pread f count off)) by (clear - Hi LA LD' Hm hAB hAE Hcount; lia).
      clear Hi.
      rewrite get_ztake by (clear - Hi'; lia).
      rewrite get_zdrop by (clear - Hi' hAB; lia).
      rewrite get_ztake by (clear - Hi' LA Hm; lia).
      rewrite get_overwrite_in by (clear - Hi' LA LD' LG hAB; lia).
      rewrite get_f_pread by (clear - Hi' LA LD' hAB; lia).
      rewrite (get_f_pread f count off) by (clear - Hi' LA hAB; lia). f_equal. lia.
  Qed.
End ReadCore.

Lemma ztake_all {T} (l : list T) : ztake (zlen l) l = l.
Proof. unfold ztake, zlen. rewrite Nat2Z.id. apply firstn_all. Qed.

(* ------------------------------------------------------------------ *)
(* the four data operations of the aligned adaptor                     *)
Definition aligned_guard (k off count : Z) : Prop :=
  0 <= k < 64 /\ 0 <= off /\ off + count + 2 ^ k <= 2 ^ 63.

Lemma ev_aligned_direct A am k0 off count mem :
  off mod A = 0 -> count mod A = 0 -> (am = true -> mem = true) ->
  ev_aligned A am (mkEv 0 k0 off count mem).
Proof. intros H1 H2 H3 _. cbn [ev_off ev_len ev_mem]. auto. Qed.

Lemma is_aligned_mods A off count r AB AE : 0 < A -> split_facts A off count r AB AE ->
  is_aligned r = true -> off mod A = 0 /\ count mod A = 0.
Proof.
  intros HA [hAB hABlt hAE hbrem herem herem0 herem1 habo haeo halen hblocks hsmall hnotsmall hmodAB hmodAE] H.
  unfold is_aligned in H. apply andb_true_iff in H. destruct H as (H1 & H2).
  apply Z.eqb_eq in H1, H2. specialize (herem0 H2).
  assert (E : off = AB) by lia. rewrite E. split; [exact hmodAB|].
  replace count with (AE - AB) by lia. rewrite Zminus_mod, hmodAE, hmodAB. reflexivity.
Qed.

Lemma guard_facts k off count : aligned_guard k off count -> 0 < count ->
  let A := 2 ^ k in
  0 < A /\ split_facts A off count (p2split A off count) (off / A * A) ((off + count + A - 1) / A * A) /\
  (off + count + A - 1) / A * A < W64.
Proof.
  intros (Hk & Ho & Hg) Hc A. pose proof (pow2_lt_W64 k Hk) as HA. fold A in HA.
  assert (W : W64 = 2 * 2 ^ 63) by reflexivity.
  assert (SF : split_facts A off count (p2split A off count) (off / A * A) ((off + count + A - 1) / A * A)).
  { apply p2split_facts; fold A; lia. }
  split; [lia|]. split; [exact SF|]. destruct SF. lia.
Qed.

Lemma zlen_gather segs : zlen (gather segs) = C16_Model.sum_len segs.
Proof.
  unfold gather, C16_Model.sum_len. induction segs as [|s segs IH]; [reflexivity|].
  cbn [map concat fold_right]. rewrite zlen_app, IH. reflexivity.
Qed.

Theorem al_pwrite_refines k am f b off :
  aligned_guard k off (zlen (sg_data b)) -> alloc_fails (2 ^ k) am = false ->
  let res := al_pwrite (2 ^ k) am f b off in
  rs_ret res = zlen (sg_data b) /\ rs_bufs res = [sg_data b] /\
  rs_files res = [f_pwrite f (sg_data b) off] /\ Forall (ev_aligned (2 ^ k) am) (rs_trace res).
Proof.
  intros G Hal. cbv zeta. unfold al_pwrite.
  destruct (Z.eqb_spec (zlen (sg_data b)) 0) as [E|E].
  { cbn [rs_ret rs_bufs rs_files rs_trace]. rewrite (zlen_0_nil _ E). repeat split. constructor. }
  pose proof (zlen_nonneg (sg_data b)) as Hn.
  destruct (guard_facts k off _ G ltac:(lia)) as (HA & SF & HW).
  destruct (is_aligned (p2split (2 ^ k) off (zlen (sg_data b))) && (negb am || ptr_aligned (2 ^ k) (sg_mis b))) eqn:D.
  - cbn [rs_ret rs_bufs rs_files rs_trace]. repeat split. constructor; [|constructor].
    apply andb_true_iff in D. destruct D as (D1 & D2).
    destruct (is_aligned_mods _ _ _ _ _ _ HA SF D1) as (M1 & M2).
    apply ev_aligned_direct; [exact M1|exact M2|].
    intros ->. cbn [negb orb] in D2. exact D2.
  - assert (Hpos : 0 < zlen (sg_data b)) by lia.
    apply (al_rmw_spec _ _ _ _ _ _ _ _ HA Hpos SF Hal HW).
Qed.

Theorem al_pwritev_refines k am f segs off :
  aligned_guard k off (sum_len segs) -> alloc_fails (2 ^ k) am = false ->
  let res := al_pwritev (2 ^ k) am f segs off in
  rs_ret res = sum_len segs /\ rs_bufs res = map sg_data segs /\
  rs_files res = [f_pwrite f (gather segs) off] /\ Forall (ev_aligned (2 ^ k) am) (rs_trace res).
Proof.
  intros G Hal. cbv zeta. unfold al_pwritev.
  pose proof (zlen_gather segs) as LG.
  destruct (Z.eqb_spec (sum_len segs) 0) as [E|E].
  { cbn [rs_ret rs_bufs rs_files rs_trace]. rewrite <- LG in E. rewrite (zlen_0_nil _ E). repeat split; try constructor. lia. }
  pose proof (zlen_nonneg (gather segs)) as Hn. rewrite LG in Hn.
  destruct (guard_facts k off _ G ltac:(lia)) as (HA & SF & HW).
  destruct (is_aligned (p2split (2 ^ k) off (sum_len segs)) && (negb am || iov_align_check (2 ^ k) segs)) eqn:D.
  - cbn [rs_ret rs_bufs rs_files rs_trace]. repeat split. constructor; [|constructor].
    apply andb_true_iff in D. destruct D as (D1 & D2).
    destruct (is_aligned_mods _ _ _ _ _ _ HA SF D1) as (M1 & M2).
    apply ev_aligned_direct; [exact M1|exact M2|].
    intros ->. cbn [negb orb] in D2. exact D2.
  - rewrite <- LG in SF, E, Hn, HW |- *.
    assert (Hpos : 0 < zlen (gather segs)) by lia.
    apply (al_rmw_spec _ _ _ _ _ _ _ _ HA Hpos SF Hal HW).
Qed.

Lemma f_pread_0 f off : f_pread f 0 off = [].
Proof. reflexivity. Qed.

Theorem al_pread_refines k am f b off :
  aligned_guard k off (zlen (sg_data b)) -> alloc_fails (2 ^ k) am = false -> off <= zlen f ->
  let res := al_pread (2 ^ k) am f b off in
  let d := f_pread f (zlen (sg_data b)) off in
  rs_ret res = zlen d /\ rs_bufs res = [overwrite (sg_data b) 0 d] /\
  rs_files res = [f] /\ Forall (ev_aligned (2 ^ k) am) (rs_trace res).
Proof.
  intros G Hal Heof. cbv zeta. unfold al_pread.
  destruct (Z.eqb_spec (zlen (sg_data b)) 0) as [E|E].
  { cbn [rs_ret rs_bufs rs_files rs_trace]. rewrite E, f_pread_0, overwrite_nil. repeat split. constructor. }
  pose proof (zlen_nonneg (sg_data b)) as Hn.
  assert (Hpos : 0 < zlen (sg_data b)) by lia.
  destruct (guard_facts k off _ G Hpos) as (HA & SF & HW).
  destruct (is_aligned (p2split (2 ^ k) off (zlen (sg_data b))) && (negb am || ptr_aligned (2 ^ k) (sg_mis b))) eqn:D.
  - cbn [rs_ret rs_bufs rs_files rs_trace]. repeat split. constructor; [|constructor].
    apply andb_true_iff in D. destruct D as (D1 & D2).
    destruct (is_aligned_mods _ _ _ _ _ _ HA SF D1) as (M1 & M2).
    apply ev_aligned_direct; [exact M1|exact M2|].
    intros ->. cbn [negb orb] in D2. exact D2.
  - rewrite Hal.
    pose proof SF as SF'.
    destruct SF' as [hAB hABlt hAE hbrem herem herem0 herem1 habo haeo halen hblocks hsmall hnotsmall hmodAB hmodAE].
    rewrite habo, halen.
    destruct (read_ret _ f off _ _ _ _ HA Hpos SF Heof) as (R1 & R2).
    set (AB := off / 2 ^ k * 2 ^ k) in *. set (AE := (off + zlen (sg_data b) + 2 ^ k - 1) / 2 ^ k * 2 ^ k) in *.
    assert (Hm : off - AB + zlen (sg_data b) <= AE - AB) by lia.
    pose proof (read_data _ f off _ _ _ _ HA Hpos SF Heof (AE - AB) Hm) as RD.
    set (bounce := overwrite (zrep GARBAGE (AE - AB)) 0 (f_pread f (AE - AB) AB)) in *.
    assert (LB : zlen bounce = AE - AB).
    { unfold bounce. rewrite zlen_overwrite; rewrite ?zlen_zrep, ?zlen_f_pread; lia. }
    assert (TB : ztake (AE - AB) bounce = bounce) by (rewrite <- LB; apply ztake_all).
    rewrite TB in RD.
    rewrite R1. cbn [rs_ret rs_bufs rs_files rs_trace]. rewrite RD. repeat split; [exact R2|].
    constructor; [|constructor]. apply ev_aligned_direct; [exact hmodAB| |reflexivity].
    rewrite Zminus_mod, hmodAE, hmodAB. reflexivity.
Qed.

Theorem al_preadv_refines k am f segs off :
  aligned_guard k off (sum_len segs) -> alloc_fails (2 ^ k) am = false -> off <= zlen f ->
  let res := al_preadv (2 ^ k) am f segs off in
  let d := f_pread f (sum_len segs) off in
  rs_ret res = zlen d /\ rs_bufs res = scatter (map sg_data segs) d /\
  rs_files res = [f] /\ Forall (ev_aligned (2 ^ k) am) (rs_trace res).
Proof.
  intros G Hal Heof. cbv zeta. unfold al_preadv.
  destruct (Z.eqb_spec (sum_len segs) 0) as [E|E].
  { cbn [rs_ret rs_bufs rs_files rs_trace]. rewrite E, f_pread_0, scatter_nil. repeat split. constructor. }
  pose proof (zlen_nonneg (gather segs)) as Hn. rewrite zlen_gather in Hn.
  assert (Hpos : 0 < sum_len segs) by lia.
  destruct (guard_facts k off _ G Hpos) as (HA & SF & HW).
  destruct (is_aligned (p2split (2 ^ k) off (sum_len segs)) && (negb am || iov_align_check (2 ^ k) segs)) eqn:D.
  - cbn [rs_ret rs_bufs rs_files rs_trace]. repeat split. constructor; [|constructor].
    apply andb_true_iff in D. destruct D as (D1 & D2).
    destruct (is_aligned_mods _ _ _ _ _ _ HA SF D1) as (M1 & M2).
    apply ev_aligned_direct; [exact M1|exact M2|].
    intros ->. cbn [negb orb] in D2. exact D2.
  - rewrite Hal.
    pose proof SF as SF'.
    destruct SF' as [hAB hABlt hAE hbrem herem herem0 herem1 habo haeo halen hblocks hsmall hnotsmall hmodAB hmodAE].
    rewrite habo, halen.
    destruct (read_ret _ f off _ _ _ _ HA Hpos SF Heof) as (R1 & R2).
    set (AB := off / 2 ^ k * 2 ^ k) in *. set (AE := (off + sum_len segs + 2 ^ k - 1) / 2 ^ k * 2 ^ k) in *.
    set (back := if r_erem (p2split (2 ^ k) off (sum_len segs)) =? 0 then 0
                 else 2 ^ k - r_erem (p2split (2 ^ k) off (sum_len segs))).
    assert (Hm : off - AB + sum_len segs <= AE - AB - back).
    { unfold back. destruct (Z.eqb_spec (r_erem (p2split (2 ^ k) off (sum_len segs))) 0) as [Z0|Z0].
      - specialize (herem0 Z0). lia.
      - specialize (herem1 ltac:(lia)). lia. }
    pose proof (read_data _ f off _ _ _ _ HA Hpos SF Heof (AE - AB - back) Hm) as RD.
    rewrite R1. cbn [rs_ret rs_bufs rs_files rs_trace]. fold AB AE in RD. rewrite RD.
    repeat split; [exact R2|].
    constructor; [|constructor]. apply ev_aligned_direct; [exact hmodAB| |reflexivity].
    rewrite Zminus_mod, hmodAE, hmodAB. reflexivity.
Qed.

(* ------------------------------------------------------------------ *)
(* every traced request is aligned — for EVERY request (also at/after EOF, also when the
   bounce buffer cannot be allocated)                                   *)
Lemma Forall_meta A am e : is_io e = false -> Forall (ev_aligned A am) [e].
Proof. intros H. constructor; [|constructor]. intros C. congruence. Qed.

Lemma al_rmw_calls_aligned k am vec f data bufs off :
  aligned_guard k off (zlen data) -> 0 < zlen data ->
  Forall (ev_aligned (2 ^ k) am) (rs_trace (al_rmw (2 ^ k) am vec f data bufs off (p2split (2 ^ k) off (zlen data)))).
Proof.
  intros G Hpos. destruct (guard_facts k off _ G Hpos) as (HA & SF & HW).
  destruct (alloc_fails (2 ^ k) am) eqn:Hal.
  - unfold al_rmw. rewrite Hal. cbn [fail rs_trace]. apply Forall_meta. reflexivity.
  - apply (al_rmw_spec _ _ _ _ _ _ _ _ HA Hpos SF Hal HW).
Qed.

Lemma al_pwrite_calls_aligned k am f b off : aligned_guard k off (zlen (sg_data b)) ->
  Forall (ev_aligned (2 ^ k) am) (rs_trace (al_pwrite (2 ^ k) am f b off)).
Proof.
  intros G. destruct (alloc_fails (2 ^ k) am) eqn:Hal; [|apply al_pwrite_refines; assumption].
  unfold al_pwrite. destruct (Z.eqb_spec (zlen (sg_data b)) 0) as [E|E]; [constructor|].
  pose proof (zlen_nonneg (sg_data b)) as Hn. assert (Hpos : 0 < zlen (sg_data b)) by lia.
  destruct (guard_facts k off _ G Hpos) as (HA & SF & HW).
  destruct (is_aligned _ && _) eqn:D; [|apply al_rmw_calls_aligned; assumption].
  cbn [rs_trace]. constructor; [|constructor].
  apply andb_true_iff in D. destruct D as (D1 & D2).
  destruct (is_aligned_mods _ _ _ _ _ _ HA SF D1) as (M1 & M2).
  apply ev_aligned_direct; [exact M1|exact M2|]. intros ->. cbn [negb orb] in D2. exact D2.
Qed.

Lemma al_pwritev_calls_aligned k am f segs off : aligned_guard k off (sum_len segs) ->
  Forall (ev_aligned (2 ^ k) am) (rs_trace (al_pwritev (2 ^ k) am f segs off)).
Proof.
  intros G. destruct (alloc_fails (2 ^ k) am) eqn:Hal; [|apply al_pwritev_refines; assumption].
  unfold al_pwritev. destruct (Z.eqb_spec (sum_len segs) 0) as [E|E]; [constructor|].
  pose proof (zlen_nonneg (gather segs)) as Hn. rewrite zlen_gather in Hn. assert (Hpos : 0 < sum_len segs) by lia.
  destruct (guard_facts k off _ G Hpos) as (HA & SF & HW).
  destruct (is_aligned _ && _) eqn:D.
  - cbn [rs_trace]. constructor; [|constructor].
    apply andb_true_iff in D. destruct D as (D1 & D2).
    destruct (is_aligned_mods _ _ _ _ _ _ HA SF D1) as (M1 & M2).
    apply ev_aligned_direct; [exact M1|exact M2|]. intros ->. cbn [negb orb] in D2. exact D2.
  - rewrite <- zlen_gather in *. apply al_rmw_calls_aligned; assumption.
Qed.

Lemma al_pread_calls_aligned k am f b off : aligned_guard k off (zlen (sg_data b)) ->
  Forall (ev_aligned (2 ^ k) am) (rs_trace (al_pread (2 ^ k) am f b off)).
Proof.
  intros G. unfold al_pread. destruct (Z.eqb_spec (zlen (sg_data b)) 0) as [E|E]; [constructor|].
  pose proof (zlen_nonneg (sg_data b)) as Hn. assert (Hpos : 0 < zlen (sg_data b)) by lia.
  destruct (guard_facts k off _ G Hpos) as (HA & SF & HW).
  destruct (is_aligned _ && _) eqn:D.
  - cbn [rs_trace]. constructor; [|constructor].
    apply andb_true_iff in D. destruct D as (D1 & D2).
    destruct (is_aligned_mods _ _ _ _ _ _ HA SF D1) as (M1 & M2).
    apply ev_aligned_direct; [exact M1|exact M2|]. intros ->. cbn [negb orb] in D2. exact D2.
  - destruct (alloc_fails (2 ^ k) am); [constructor|].
    destruct SF as [hAB hABlt hAE hbrem herem herem0 herem1 habo haeo halen hblocks hsmall hnotsmall hmodAB hmodAE].
    assert (T : Forall (ev_aligned (2 ^ k) am)
                  [mkEv 0 KPread (abo (2 ^ k) (p2split (2 ^ k) off (zlen (sg_data b))))
                              (alen (2 ^ k) (p2split (2 ^ k) off (zlen (sg_data b)))) true]).
    { constructor; [|constructor]. rewrite habo, halen. apply ev_aligned_direct; [exact hmodAB| |reflexivity].
      rewrite Zminus_mod, hmodAE, hmodAB. reflexivity. }
    destruct (_ <? _); exact T.
Qed.

Lemma al_preadv_calls_aligned k am f segs off : aligned_guard k off (sum_len segs) ->
  Forall (ev_aligned (2 ^ k) am) (rs_trace (al_preadv (2 ^ k) am f segs off)).
Proof.
  intros G. unfold al_preadv. destruct (Z.eqb_spec (sum_len segs) 0) as [E|E]; [constructor|].
  pose proof (zlen_nonneg (gather segs)) as Hn. rewrite zlen_gather in Hn. assert (Hpos : 0 < sum_len segs) by lia.
  destruct (guard_facts k off _ G Hpos) as (HA & SF & HW).
  destruct (is_aligned _ && _) eqn:D.
  - cbn [rs_trace]. constructor; [|constructor].
    apply andb_true_iff in D. destruct D as (D1 & D2).
    destruct (is_aligned_mods _ _ _ _ _ _ HA SF D1) as (M1 & M2).
    apply ev_aligned_direct; [exact M1|exact M2|]. intros ->. cbn [negb orb] in D2. exact D2.
  - destruct (alloc_fails (2 ^ k) am); [constructor|].
    destruct SF as [hAB hABlt hAE hbrem herem herem0 herem1 habo haeo halen hblocks hsmall hnotsmall hmodAB hmodAE].
    assert (T : Forall (ev_aligned (2 ^ k) am)
                  [mkEv 0 KPreadv (abo (2 ^ k) (p2split (2 ^ k) off (sum_len segs)))
                              (alen (2 ^ k) (p2split (2 ^ k) off (sum_len segs))) true]).
    { constructor; [|constructor]. rewrite habo, halen. apply ev_aligned_direct; [exact hmodAB| |reflexivity].
      rewrite Zminus_mod, hmodAE, hmodAB. reflexivity. }
    destruct (_ <? _); exact T.
Qed.
