(* C16_XGeneric.v — the pio loop of the composites (fs/xfile.cpp) against C15's tiling predicate,
   for an abstract block layout:
     block j of the composite = L j bytes of sub-file (fidx j) starting at (fbase j);
     B j = logical address at which block j starts.
   The logical content of the composite is the concatenation of its blocks ([whole]). *)
From Coq Require Import ZArith List Bool Lia.
From PV Require Import Base.U64 C15.C15_Model C15.C15_Spec.
From PV Require Import C16.C16_Model C16.C16_Lists.
Import ListNotations.
Local Open Scope Z_scope.

Definition nth_file (fs : list file) (i : Z) : file :=
  match get_file fs i with Some f => f | None => [] end.

(* ---- set_nth / get_file ---- *)
Lemma length_set_nth {T} (x : T) : forall l n, length (set_nth l n x) = length l.
Proof. induction l as [|h t IH]; intros [|n]; cbn; try reflexivity. rewrite IH. reflexivity. Qed.

Lemma nth_error_set_nth_eq {T} (x : T) : forall l n, (n < length l)%nat -> nth_error (set_nth l n x) n = Some x.
Proof. induction l as [|h t IH]; intros [|n] H; cbn in *; try lia; try reflexivity. apply IH. lia. Qed.

Lemma nth_error_set_nth_neq {T} (x : T) : forall l n m, m <> n -> nth_error (set_nth l n x) m = nth_error l m.
Proof.
  induction l as [|h t IH]; intros [|n] [|m] H; cbn; try reflexivity; try congruence.
  apply IH. congruence.
Qed.

Lemma zlen_set_file fs i f : zlen (set_file fs i f) = zlen fs.
Proof. unfold zlen, set_file. rewrite length_set_nth. reflexivity. Qed.

Lemma get_file_in fs i : 0 <= i < zlen fs -> get_file fs i = Some (nth_file fs i).
Proof.
  intros H. unfold nth_file, get_file. destruct (Z.ltb_spec i 0); [lia|].
  destruct (nth_error fs (Z.to_nat i)) eqn:E; [reflexivity|].
  apply nth_error_None in E. unfold zlen in H. lia.
Qed.

Lemma nth_file_set_eq fs i f : 0 <= i < zlen fs -> nth_file (set_file fs i f) i = f.
Proof.
  intros H. unfold nth_file, get_file, set_file. destruct (Z.ltb_spec i 0); [lia|].
  rewrite nth_error_set_nth_eq; [reflexivity|]. unfold zlen in H. lia.
Qed.

Lemma nth_file_set_neq fs i j f : 0 <= i -> i <> j -> nth_file (set_file fs i f) j = nth_file fs j.
Proof.
  intros Hi H. unfold nth_file, get_file, set_file. destruct (Z.ltb_spec j 0); [reflexivity|].
  rewrite nth_error_set_nth_neq; [reflexivity|]. lia.
Qed.

(* ---- more list lemmas ---- *)
Lemma overwrite_nil_at l pos : overwrite l pos [] = l.
Proof.
  unfold overwrite, ztake, zdrop. rewrite zlen_nil, Z.add_0_r. cbn [app]. apply firstn_skipn.
Qed.

Lemma overwrite_split buf pos d1 d2 : 0 <= pos -> pos + zlen d1 + zlen d2 <= zlen buf ->
  overwrite (overwrite buf pos d1) (pos + zlen d1) d2 = overwrite buf pos (d1 ++ d2).
Proof.
  intros Hp H. pose proof (zlen_nonneg d1). pose proof (zlen_nonneg d2).
  assert (L1 : zlen (overwrite buf pos d1) = zlen buf) by (apply zlen_overwrite; lia).
  apply list_ext.
  - rewrite !zlen_overwrite; rewrite ?zlen_app; lia.
  - intros i Hi. rewrite zlen_overwrite in Hi by lia. rewrite L1 in Hi.
    destruct (Z_lt_dec i pos) as [A|A].
    + rewrite !get_overwrite_out; rewrite ?zlen_app; try lia; try reflexivity.
    + destruct (Z_lt_dec i (pos + zlen d1)) as [B|B].
      * rewrite get_overwrite_out by lia. rewrite get_overwrite_in by lia.
        rewrite get_overwrite_in by (rewrite ?zlen_app; lia).
        rewrite get_app_l by lia. reflexivity.
      * destruct (Z_lt_dec i (pos + zlen d1 + zlen d2)) as [C|C].
        -- rewrite get_overwrite_in by lia. rewrite get_overwrite_in by (rewrite ?zlen_app; lia).
           rewrite get_app_r by lia. f_equal. lia.
        -- rewrite !get_overwrite_out; rewrite ?zlen_app; try lia; try reflexivity.
Qed.

Lemma f_pread_split f n1 n2 s : 0 <= s -> 0 <= n1 -> 0 <= n2 -> s + n1 + n2 <= zlen f ->
  f_pread f (n1 + n2) s = f_pread f n1 s ++ f_pread f n2 (s + n1).
Proof.
  intros Hs H1 H2 H.
  apply list_ext.
  - rewrite zlen_app, !zlen_f_pread by lia. lia.
  - intros i Hi. rewrite zlen_f_pread in Hi by lia.
    destruct (Z_lt_dec i n1) as [A|A].
    + rewrite get_app_l by (rewrite zlen_f_pread by lia; lia). rewrite !get_f_pread by lia. reflexivity.
    + rewrite get_app_r by (rewrite zlen_f_pread by lia; lia). rewrite zlen_f_pread by lia.
      rewrite !get_f_pread by lia. f_equal. lia.
Qed.

Lemma zlen_f_pwrite_inside f d off : 0 <= off -> off + zlen d <= zlen f -> zlen (f_pwrite f d off) = zlen f.
Proof.
  intros Ho H. destruct d as [|b d]; [reflexivity|].
  rewrite zlen_f_pwrite by (try lia; discriminate). lia.
Qed.

Lemma tiles_le B L : forall l start stop i, tiles B L start stop i l -> start <= stop.
Proof.
  induction l as [|p l IH]; intros start stop i H; cbn [tiles] in H.
  - lia.
  - destruct H as (_ & _ & _ & H4 & _ & H6). apply IH in H6. lia.
Qed.

Section Layout.
  Variables (B L fidx fbase : Z -> Z) (nb : Z) (fs0 : list file).
  Hypothesis Hnb : 0 <= nb.
  Hypothesis HB0 : B 0 = 0.
  Hypothesis HBS : forall i, 0 <= i < nb -> B (i + 1) = B i + L i.
  Hypothesis HLpos : forall i, 0 <= i < nb -> 0 < L i.
  Hypothesis Hshape : forall i, 0 <= i < nb ->
    0 <= fidx i < zlen fs0 /\ 0 <= fbase i /\ fbase i + L i <= zlen (nth_file fs0 (fidx i)).
  Hypothesis Hinj : forall i j, 0 <= i < nb -> 0 <= j < nb -> i <> j -> fidx i = fidx j ->
    fbase i + L i <= fbase j \/ fbase j + L j <= fbase i.

  (* same number of sub-files, each of the same size, as the initial state *)
  Definition Inv (fs : list file) : Prop :=
    zlen fs = zlen fs0 /\ forall i, zlen (nth_file fs i) = zlen (nth_file fs0 i).

  Definition fget (fs : list file) (j o : Z) : byte := get (nth_file fs (fidx j)) (fbase j + o).
  Definition block (fs : list file) (j : Z) : list byte := f_pread (nth_file fs (fidx j)) (L j) (fbase j).
  Fixpoint blocks (fs : list file) (k : nat) : list (list byte) :=
    match k with O => [] | S k' => blocks fs k' ++ [block fs (Z.of_nat k')] end.
  Definition whole (fs : list file) : file := concat (blocks fs (Z.to_nat nb)).
  Definition conv (p : sub) : Z * Z * Z := (fidx (s_i p), fbase (s_i p) + s_off p, s_len p).

  Lemma B_step_nat : forall (d : nat) i, 0 <= i -> i + Z.of_nat d <= nb -> B i <= B (i + Z.of_nat d).
  Proof.
    induction d as [|d IH]; intros i Hi H.
    - rewrite Z.add_0_r. lia.
    - specialize (IH i Hi ltac:(lia)).
      replace (i + Z.of_nat (S d)) with (i + Z.of_nat d + 1) by lia.
      rewrite HBS by lia. pose proof (HLpos (i + Z.of_nat d) ltac:(lia)). lia.
  Qed.
  Lemma B_le i j : 0 <= i <= j -> j <= nb -> B i <= B j.
  Proof. intros H1 H2. replace j with (i + Z.of_nat (Z.to_nat (j - i))) by lia. apply B_step_nat; lia. Qed.
  Lemma B_lt i j : 0 <= i < j -> j <= nb -> B i + L i <= B j.
  Proof. intros H1 H2. rewrite <- HBS by lia. apply B_le; lia. Qed.

  Lemma block_len fs j : Inv fs -> 0 <= j < nb -> zlen (block fs j) = L j.
  Proof.
    intros (_ & I) Hj. destruct (Hshape j Hj) as (S1 & S2 & S3). pose proof (HLpos j Hj).
    unfold block. rewrite zlen_f_pread by lia. rewrite I. lia.
  Qed.

  Lemma blocks_spec fs : Inv fs -> forall k : nat, Z.of_nat k <= nb ->
    zlen (concat (blocks fs k)) = B (Z.of_nat k) /\
    forall j o, 0 <= j < Z.of_nat k -> 0 <= o < L j -> get (concat (blocks fs k)) (B j + o) = fget fs j o.
  Proof.
    intros HI. induction k as [|k IH]; intros Hk.
    - cbn [blocks concat]. change (Z.of_nat 0) with 0. split; [rewrite HB0; reflexivity|]. intros j o Hj. lia.
    - destruct (IH ltac:(lia)) as (IL & IG). cbn [blocks]. rewrite concat_app. cbn [concat]. rewrite app_nil_r.
      pose proof (block_len fs (Z.of_nat k) HI ltac:(lia)) as BL.
      split.
      + rewrite zlen_app, IL, BL. rewrite <- HBS by lia. f_equal. lia.
      + intros j o Hj Ho. destruct (Z_lt_dec j (Z.of_nat k)) as [A|A].
        * pose proof (B_lt j (Z.of_nat k) ltac:(lia) ltac:(lia)).
          rewrite get_app_l by lia. apply IG; lia.
        * assert (j = Z.of_nat k) by lia. subst j.
          rewrite get_app_r by lia. rewrite IL. replace (B (Z.of_nat k) + o - B (Z.of_nat k)) with o by lia.
          unfold block, fget. destruct (Hshape (Z.of_nat k) ltac:(lia)) as (S1 & S2 & S3).
          rewrite get_f_pread by lia. reflexivity.
  Qed.

  Lemma whole_len fs : Inv fs -> zlen (whole fs) = B nb.
  Proof. intros HI. destruct (blocks_spec fs HI (Z.to_nat nb) ltac:(lia)) as (A & _). unfold whole. rewrite A. f_equal. lia. Qed.
  Lemma whole_get fs j o : Inv fs -> 0 <= j < nb -> 0 <= o < L j -> get (whole fs) (B j + o) = fget fs j o.
  Proof. intros HI Hj Ho. destruct (blocks_spec fs HI (Z.to_nat nb) ltac:(lia)) as (_ & A). apply A; lia. Qed.

  Lemma addr_block : forall k : nat, Z.of_nat k <= nb -> forall a, 0 <= a < B (Z.of_nat k) ->
    exists j o, 0 <= j < Z.of_nat k /\ 0 <= o < L j /\ a = B j + o.
  Proof.
    induction k as [|k IH]; intros Hk a Ha.
    - change (Z.of_nat 0) with 0 in Ha. rewrite HB0 in Ha. lia.
    - replace (Z.of_nat (S k)) with (Z.of_nat k + 1) in Ha by lia. rewrite HBS in Ha by lia.
      destruct (Z_lt_dec a (B (Z.of_nat k))) as [A|A].
      + destruct (IH ltac:(lia) a ltac:(lia)) as (j & o & H1 & H2 & H3). exists j, o. repeat split; lia.
      + exists (Z.of_nat k), (a - B (Z.of_nat k)). repeat split; lia.
  Qed.

  (* ------------------------------------------------------------------ *)
  (* the read loop                                                       *)
  Lemma loop_read fs : Inv fs -> forall l start stop i buf pos tr,
    tiles B L start stop i l -> 0 <= i -> i + zlen l <= nb -> stop <= B nb -> 0 <= pos ->
    pos + (stop - start) <= zlen buf ->
    let R := pio_loop true fs buf pos (map conv l) tr in
    fst (fst (fst R)) = 0 /\ snd (fst (fst R)) = fs /\
    snd (fst R) = overwrite buf pos (f_pread (whole fs) (stop - start) start).
  Proof.
    intros HI. pose proof HI as (I1 & I2).
    induction l as [|p l IH]; intros start stop i buf pos tr HT Hi Hl Hstop Hpos Hbuf R.
    - cbn in HT. subst stop. subst R. cbn [map pio_loop fst snd]. rewrite Z.sub_diag.
      repeat split. change (f_pread (whole fs) 0 start) with (@nil byte). rewrite overwrite_nil_at. reflexivity.
    - cbn [tiles] in HT. destruct HT as (T1 & T2 & T3 & T4 & T5 & T6).
      rewrite zlen_cons in Hl. pose proof (zlen_nonneg l) as Hl0.
      pose proof (tiles_le _ _ _ _ _ _ T6) as TS.
      destruct (Hshape i ltac:(lia)) as (S1 & S2 & S3).
      pose proof (B_le 0 i ltac:(lia) ltac:(lia)) as Bi0. rewrite HB0 in Bi0.
      set (f := nth_file fs (fidx i)). set (len := s_len p) in *. set (so := s_off p) in *.
      assert (Lf : zlen f = zlen (nth_file fs0 (fidx i))) by apply I2.
      assert (LD : zlen (f_pread f len (fbase i + so)) = len) by (rewrite zlen_f_pread by lia; lia).
      assert (ER : pio_loop true fs buf pos (map conv (p :: l)) tr =
                   pio_loop true fs (overwrite buf pos (f_pread f len (fbase i + so))) (pos + len) (map conv l)
                            (tr ++ [mkEv (fidx i) KPread (fbase i + so) len true])).
      { cbn [map]. unfold conv at 1. cbn [pio_loop]. rewrite T1.
        rewrite (get_file_in fs (fidx i)) by lia. cbv iota beta. fold f len so.
        rewrite LD. destruct (Z.ltb_spec len len) as [C|_]; [lia|]. reflexivity. }
      subst R. rewrite ER.
      specialize (IH (start + len) stop (i + 1) (overwrite buf pos (f_pread f len (fbase i + so))) (pos + len)
                     (tr ++ [mkEv (fidx i) KPread (fbase i + so) len true]) T6 ltac:(lia) ltac:(lia) Hstop ltac:(lia)).
      rewrite zlen_overwrite in IH by lia. specialize (IH ltac:(lia)). cbv zeta in IH.
      destruct IH as (R1 & R2 & R3). repeat split; [exact R1|exact R2|]. rewrite R3.
      assert (ED : f_pread f len (fbase i + so) = f_pread (whole fs) len start).
      { apply list_ext.
        - rewrite LD. rewrite zlen_f_pread by lia. rewrite whole_len by exact HI. lia.
        - intros t Ht. rewrite LD in Ht. rewrite !get_f_pread by lia.
          replace (start + t) with (B i + (so + t)) by lia. rewrite whole_get by (try exact HI; lia).
          unfold fget. fold f. f_equal. lia. }
      rewrite ED.
      replace (pos + len) with (pos + zlen (f_pread (whole fs) len start)) by (rewrite <- ED, LD; reflexivity).
      rewrite overwrite_split.
      + f_equal. replace (stop - start) with (len + (stop - (start + len))) by lia.
        symmetry. apply f_pread_split; try lia. rewrite whole_len by exact HI. lia.
      + lia.
      + rewrite <- ED, LD. rewrite zlen_f_pread by lia. rewrite whole_len by exact HI. lia.
  Qed.

  (* ------------------------------------------------------------------ *)
  (* the write loop                                                      *)
  Lemma loop_write buf : forall l fs start stop i pos tr, Inv fs ->
    tiles B L start stop i l -> 0 <= i -> i + zlen l <= nb -> stop <= B nb -> 0 <= pos ->
    pos + (stop - start) <= zlen buf ->
    let R := pio_loop false fs buf pos (map conv l) tr in
    fst (fst (fst R)) = 0 /\ Inv (snd (fst (fst R))) /\ snd (fst R) = buf /\
    forall j o, 0 <= j < nb -> 0 <= o < L j ->
      fget (snd (fst (fst R))) j o =
      if (start <=? B j + o) && (B j + o <? stop) then get buf (pos + (B j + o - start)) else fget fs j o.
  Proof.
    induction l as [|p l IH]; intros fs start stop i pos tr HI HT Hi Hl Hstop Hpos Hbuf R.
    - cbn in HT. subst stop. subst R. cbn [map pio_loop fst snd]. repeat split; try exact HI; try apply HI.
      intros j o Hj Ho. destruct (Z.leb_spec start (B j + o)); destruct (Z.ltb_spec (B j + o) start); cbn [andb]; try reflexivity; lia.
    - pose proof HI as (I1 & I2).
      cbn [tiles] in HT. destruct HT as (T1 & T2 & T3 & T4 & T5 & T6).
      rewrite zlen_cons in Hl. pose proof (zlen_nonneg l) as Hl0.
      pose proof (tiles_le _ _ _ _ _ _ T6) as TS.
      destruct (Hshape i ltac:(lia)) as (S1 & S2 & S3).
      pose proof (B_le 0 i ltac:(lia) ltac:(lia)) as Bi0. rewrite HB0 in Bi0.
      set (f := nth_file fs (fidx i)). set (len := s_len p) in *. set (so := s_off p) in *.
      assert (Lf : zlen f = zlen (nth_file fs0 (fidx i))) by apply I2.
      set (chunk := ztake len (zdrop pos buf)).
      assert (LC : zlen chunk = len) by (unfold chunk; rewrite zlen_ztake, zlen_zdrop; lia).
      set (f' := f_pwrite f chunk (fbase i + so)).
      assert (Lf' : zlen f' = zlen f) by (unfold f'; apply zlen_f_pwrite_inside; lia).
      set (fs1 := set_file fs (fidx i) f').
      assert (HI1 : Inv fs1).
      { split; [unfold fs1; rewrite zlen_set_file; exact I1|]. intros q.
        destruct (Z.eq_dec (fidx i) q) as [E|E].
        - subst q. unfold fs1. rewrite nth_file_set_eq by lia. rewrite Lf'. exact Lf.
        - unfold fs1. rewrite nth_file_set_neq by lia. apply I2. }
      assert (ER : pio_loop false fs buf pos (map conv (p :: l)) tr =
                   pio_loop false fs1 buf (pos + len) (map conv l)
                            (tr ++ [mkEv (fidx i) KPwrite (fbase i + so) len true])).
      { cbn [map]. unfold conv at 1. cbn [pio_loop]. rewrite T1.
        rewrite (get_file_in fs (fidx i)) by lia. cbv iota beta. reflexivity. }
      subst R. rewrite ER.
      specialize (IH fs1 (start + len) stop (i + 1) (pos + len)
                     (tr ++ [mkEv (fidx i) KPwrite (fbase i + so) len true]) HI1 T6 ltac:(lia) ltac:(lia) Hstop ltac:(lia) ltac:(lia)).
      cbv zeta in IH. destruct IH as (R1 & R2 & R3 & R4).
      split; [exact R1|]. split; [exact R2|]. split; [exact R3|].
      intros j o Hj Ho. rewrite R4 by assumption.
      (* what the single forwarded pwrite did to block j *)
      assert (G1 : fget fs1 j o =
                   if (start <=? B j + o) && (B j + o <? start + len) then get buf (pos + (B j + o - start)) else fget fs j o).
      { unfold fget, fs1. destruct (Z.eq_dec j i) as [E|E].
        - subst j. rewrite nth_file_set_eq by lia. unfold f'.
          destruct (Z.leb_spec start (B i + o)); destruct (Z.ltb_spec (B i + o) (start + len)); cbn [andb].
          + rewrite get_f_pwrite_in by lia. unfold chunk. rewrite get_ztake by lia. rewrite get_zdrop by lia. f_equal. lia.
          + rewrite get_f_pwrite_out by lia. reflexivity.
          + rewrite get_f_pwrite_out by lia. reflexivity.
          + rewrite get_f_pwrite_out by lia. reflexivity.
        - assert (OUT : (start <=? B j + o) && (B j + o <? start + len) = false).
          { destruct (Z_lt_dec j i) as [Q|Q].
            - pose proof (B_lt j i ltac:(lia) ltac:(lia)).
              destruct (Z.leb_spec start (B j + o)); [lia|reflexivity].
            - pose proof (B_lt i j ltac:(lia) ltac:(lia)).
              destruct (Z.ltb_spec (B j + o) (start + len)); [lia|apply andb_false_r]. }
          rewrite OUT. destruct (Z.eq_dec (fidx i) (fidx j)) as [F|F].
          + rewrite <- F. rewrite nth_file_set_eq by lia. unfold f'.
            destruct (Hinj i j ltac:(lia) Hj ltac:(lia) F) as [D|D].
            * rewrite get_f_pwrite_out by lia. reflexivity.
            * rewrite get_f_pwrite_out by lia. reflexivity.
          + rewrite nth_file_set_neq by lia. reflexivity. }
      rewrite G1.
      destruct (Z.leb_spec (start + len) (B j + o)); destruct (Z.ltb_spec (B j + o) stop);
        destruct (Z.leb_spec start (B j + o)); destruct (Z.ltb_spec (B j + o) (start + len)); cbn [andb];
        try reflexivity; try lia; f_equal; lia.
  Qed.

  (* the content after the write loop is the plain pwrite of the first (stop - start) bytes of buf *)
  Lemma write_whole fs fs' buf start stop : Inv fs -> Inv fs' -> 0 <= start <= stop -> stop <= B nb ->
    stop - start <= zlen buf ->
    (forall j o, 0 <= j < nb -> 0 <= o < L j ->
       fget fs' j o = if (start <=? B j + o) && (B j + o <? stop) then get buf (0 + (B j + o - start)) else fget fs j o) ->
    whole fs' = f_pwrite (whole fs) (ztake (stop - start) buf) start.
  Proof.
    intros HI HI' Hs Hstop Hbuf HG.
    assert (LT : zlen (ztake (stop - start) buf) = stop - start) by (rewrite zlen_ztake; lia).
    destruct (Z.eq_dec start stop) as [E|E].
    { subst stop. rewrite Z.sub_diag. change (ztake 0 buf) with (@nil byte). rewrite f_pwrite_nil.
      apply list_ext; [rewrite !whole_len by assumption; reflexivity|].
      intros a Ha. rewrite whole_len in Ha by assumption.
      destruct (addr_block (Z.to_nat nb) ltac:(lia) a ltac:(rewrite Z2Nat.id by lia; lia)) as (j & o & H1 & H2 & H3).
      subst a. rewrite !whole_get by (try assumption; lia). rewrite HG by lia.
      destruct (Z.leb_spec start (B j + o)); destruct (Z.ltb_spec (B j + o) start); cbn [andb]; try reflexivity; lia. }
    assert (NE : ztake (stop - start) buf <> []) by (apply zlen_pos_nonnil; lia).
    apply list_ext.
    - rewrite zlen_f_pwrite by (try lia; exact NE). rewrite !whole_len by assumption. lia.
    - intros a Ha. rewrite whole_len in Ha by assumption.
      destruct (addr_block (Z.to_nat nb) ltac:(lia) a ltac:(rewrite Z2Nat.id by lia; lia)) as (j & o & H1 & H2 & H3).
      subst a. rewrite whole_get by (try assumption; lia). rewrite HG by lia.
      destruct (Z.leb_spec start (B j + o)); destruct (Z.ltb_spec (B j + o) stop); cbn [andb].
      + rewrite get_f_pwrite_in by lia. rewrite get_ztake by lia. f_equal; lia.
      + rewrite get_f_pwrite_out by lia. rewrite whole_get by (try assumption; lia). reflexivity.
      + rewrite get_f_pwrite_out by lia. rewrite whole_get by (try assumption; lia). reflexivity.
      + rewrite get_f_pwrite_out by lia. rewrite whole_get by (try assumption; lia). reflexivity.
  Qed.
End Layout.
