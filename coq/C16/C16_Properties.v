(* C16_Properties.v — property theorems of C16 (file adaptors).  Statements only; every proof is
   `exact <lemma of the C16 proof files>`.  Vocabulary: C16_Model.v (al_pread, al_pwrite, al_preadv,
   al_pwritev, run_op, run_ops, f_pread, f_pwrite, scatter, gather, overwrite, event), C16_AlignedProofs.v
   (ev_aligned, is_io), C16_AlignedProofs2.v (aligned_guard), C16_Proofs.v (ref_op, ref_run, op_ok, ops_ok,
   op_guard, observe, trace_aligned). *)
From Coq Require Import ZArith List.
From PV Require Import Base.U64 C15.C15_Model C15.C15_Spec C16.C16_Model C16.C16_Lists C16.C16_AlignedProofs C16.C16_AlignedProofs2 C16.C16_Proofs.
From PV Require Import C16.C16_XGeneric C16.C16_XProofs C16.C16_XInst C16.C16_XOps.
Import ListNotations.
Local Open Scope Z_scope.

(* pread through the alignment adaptor = pread on the plain file: count, data, untouched rest of the
   caller's buffer, file unchanged — every alignment 2^k, every offset <= size, every length, every
   buffer mis-alignment, with or without align_memory *)
Theorem aligned_pread_refines : forall k am f b off,
  aligned_guard k off (zlen (sg_data b)) -> off <= zlen f ->
  let res := al_pread (2 ^ k) am f b off in
  let d := f_pread f (zlen (sg_data b)) off in
  rs_ret res = zlen d /\ rs_bufs res = [overwrite (sg_data b) 0 d] /\
  rs_files res = [f] /\ Forall (ev_aligned (2 ^ k) am) (rs_trace res).
Proof. exact al_pread_refines_l. Qed.
Print Assumptions aligned_pread_refines.

(* pwrite: count, resulting content AND size equal the plain file's — every offset >= 0 (inside, at
   and beyond EOF), un-aligned on either or both ends *)
Theorem aligned_pwrite_refines : forall k am f b off,
  aligned_guard k off (zlen (sg_data b)) ->
  let res := al_pwrite (2 ^ k) am f b off in
  rs_ret res = zlen (sg_data b) /\ rs_bufs res = [sg_data b] /\
  rs_files res = [f_pwrite f (sg_data b) off] /\ Forall (ev_aligned (2 ^ k) am) (rs_trace res).
Proof. exact al_pwrite_refines_l. Qed.
Print Assumptions aligned_pwrite_refines.

(* vectored variants, every iovec segmentation (zero-length elements included) *)
Theorem aligned_preadv_refines : forall k am f segs off,
  aligned_guard k off (sum_len segs) -> off <= zlen f ->
  let res := al_preadv (2 ^ k) am f segs off in
  let d := f_pread f (sum_len segs) off in
  rs_ret res = zlen d /\ rs_bufs res = scatter (map sg_data segs) d /\
  rs_files res = [f] /\ Forall (ev_aligned (2 ^ k) am) (rs_trace res).
Proof. exact al_preadv_refines_l. Qed.
Print Assumptions aligned_preadv_refines.

Theorem aligned_pwritev_refines : forall k am f segs off,
  aligned_guard k off (sum_len segs) ->
  let res := al_pwritev (2 ^ k) am f segs off in
  rs_ret res = sum_len segs /\ rs_bufs res = map sg_data segs /\
  rs_files res = [f_pwrite f (gather segs) off] /\ Forall (ev_aligned (2 ^ k) am) (rs_trace res).
Proof. exact al_pwritev_refines_l. Qed.
Print Assumptions aligned_pwritev_refines.

(* every pread/pwrite/preadv/pwritev the adaptor issues to the underlay has offset and length
   = 0 mod alignment and, with align_memory, aligned buffers — for EVERY request (also at/after EOF,
   also when the bounce buffer cannot be allocated) *)
Theorem aligned_calls_aligned : forall k am f o, op_guard k o ->
  trace_aligned k am (run_op (AdAligned (2 ^ k) am) [f] o).
Proof. exact run_op_calls_aligned. Qed.
Print Assumptions aligned_calls_aligned.

(* any sequence of pread/pwrite/preadv/pwritev/fstat/ftruncate: same observations (return values and
   buffers) and same final content and size as the same sequence on a plain file; all requests aligned *)
Theorem ops_refine_plain : forall k am ops f, ops_ok k f ops ->
  map observe (fst (run_ops (AdAligned (2 ^ k) am) [f] ops)) = fst (ref_run f ops) /\
  snd (run_ops (AdAligned (2 ^ k) am) [f] ops) = [snd (ref_run f ops)] /\
  Forall (trace_aligned k am) (fst (run_ops (AdAligned (2 ^ k) am) [f] ops)).
Proof. exact ops_refine_plain_l2. Qed.
Print Assumptions ops_refine_plain.

Example aligned_guard_nonvacuous : aligned_guard 9 1000 5000 /\ aligned_guard 2 1 2 /\ aligned_guard 0 0 1.
Proof. exact guard_ex. Qed.

Example ops_ok_nonvacuous :
  alloc_fails (2 ^ 3) true = false /\
  ops_ok 3 [1; 2; 3; 4; 5; 6; 7; 8; 9; 10]
    [OPwrite (mkSeg 4 [21; 22; 23]) 6; OPreadv [mkSeg 0 [0; 0]; mkSeg 1 [0; 0; 0]] 5; OFstat;
     OPwrite (mkSeg 0 [31; 32]) 13; OPread (mkSeg 0 [0; 0; 0; 0]) 15].
Proof. exact ops_ok_ex. Qed.


(* ------------------------------------------------------------------ composites *)
(* Vocabulary: C16_XGeneric (nth_file, Inv = same number of sub-files with unchanged sizes, whole = concatenation
   of the blocks of a layout), C16_XInst (fixed_x, fixed_content, stripe_x, stripe_content),
   C16_XOps (equal_files, ref_op_fixed, ref_run_fixed, op_ok_fixed, ops_ok_fixed). *)

(* FixedSizeLinearFile with either splitter (range_split for every unit size, range_split_power2 for 2^k) over
   sub-files of exactly one unit each: pread/pwrite starting inside the composite return the plain file's count and
   data, clipped at the composite's end; a write changes the logical content exactly like the (clipped) plain pwrite
   and no sub-file's size *)
Theorem linear_refines : forall u fs0 x fs buf off,
  0 < u -> equal_files u fs0 -> zlen fs0 * u < 2 ^ 63 -> fixed_x u fs0 x ->
  Inv fs0 fs -> 0 <= off < zlen fs0 * u -> 0 < zlen buf < 2 ^ 63 ->
  let whole := fixed_content u fs0 fs in
  (let r := x_pio x true fs buf off in
   let d := f_pread whole (zlen buf) off in
   rs_ret r = zlen d /\ rs_bufs r = [overwrite buf 0 d] /\ rs_files r = fs) /\
  (let r := x_pio x false fs buf off in
   rs_ret r = Z.min (zlen buf) (zlen fs0 * u - off) /\ rs_bufs r = [buf] /\ Inv fs0 (rs_files r) /\
   fixed_content u fs0 (rs_files r) = f_pwrite whole (ztake (zlen fs0 * u - off) buf) off).
Proof. exact linear_refines_l. Qed.
Print Assumptions linear_refines.

(* StripeFile over n equal sub-files of m stripes each *)
Theorem stripe_refines : forall S m fs0 fs buf off,
  is_pow2_64 S -> 0 < m -> equal_files (m * S) fs0 -> m * zlen fs0 * S < 2 ^ 63 ->
  Inv fs0 fs -> 0 <= off < m * zlen fs0 * S -> 0 < zlen buf < 2 ^ 63 ->
  let whole := stripe_content S m fs0 fs in
  (let r := x_pio (stripe_x S m fs0) true fs buf off in
   let d := f_pread whole (zlen buf) off in
   rs_ret r = zlen d /\ rs_bufs r = [overwrite buf 0 d] /\ rs_files r = fs) /\
  (let r := x_pio (stripe_x S m fs0) false fs buf off in
   rs_ret r = Z.min (zlen buf) (m * zlen fs0 * S - off) /\ rs_bufs r = [buf] /\ Inv fs0 (rs_files r) /\
   stripe_content S m fs0 (rs_files r) = f_pwrite whole (ztake (m * zlen fs0 * S - off) buf) off).
Proof. exact stripe_refines_l. Qed.
Print Assumptions stripe_refines.

(* sequences of pread/pwrite/preadv/pwritev (through VirtualFile::piov_copy, every segmentation)/fstat on the
   composites = the same sequence on ONE plain file of fixed size *)
Theorem ops_refine_plain_linear : forall u fs0 x ops fs,
  0 < u -> equal_files u fs0 -> zlen fs0 * u < 2 ^ 63 -> fixed_x u fs0 x ->
  Inv fs0 fs -> ops_ok_fixed (fixed_content u fs0 fs) ops ->
  map observe (fst (run_ops (AdX x) fs ops)) = fst (ref_run_fixed (fixed_content u fs0 fs) ops) /\
  Inv fs0 (snd (run_ops (AdX x) fs ops)) /\
  fixed_content u fs0 (snd (run_ops (AdX x) fs ops)) = snd (ref_run_fixed (fixed_content u fs0 fs) ops).
Proof. exact linear_ops_refine_l. Qed.
Print Assumptions ops_refine_plain_linear.

Theorem ops_refine_plain_stripe : forall S m fs0 ops fs,
  is_pow2_64 S -> 0 < m -> equal_files (m * S) fs0 -> m * zlen fs0 * S < 2 ^ 63 ->
  Inv fs0 fs -> ops_ok_fixed (stripe_content S m fs0 fs) ops ->
  map observe (fst (run_ops (AdX (stripe_x S m fs0)) fs ops)) = fst (ref_run_fixed (stripe_content S m fs0 fs) ops) /\
  Inv fs0 (snd (run_ops (AdX (stripe_x S m fs0)) fs ops)) /\
  stripe_content S m fs0 (snd (run_ops (AdX (stripe_x S m fs0)) fs ops)) =
    snd (ref_run_fixed (stripe_content S m fs0 fs) ops).
Proof. exact stripe_ops_refine_l. Qed.
Print Assumptions ops_refine_plain_stripe.

Example composites_nonvacuous :
  let fs0 := [[1; 2; 3; 4]; [5; 6; 7; 8]; [9; 10; 11; 12]] in
  equal_files 4 fs0 /\ is_pow2_64 4 /\ fixed_x 4 fs0 (mkX (XFixedP2 4) 3 12) /\ fixed_x 4 fs0 (mkX (XFixed 4) 3 12) /\
  fixed_content 4 fs0 fs0 = [1; 2; 3; 4; 5; 6; 7; 8; 9; 10; 11; 12] /\
  stripe_content 2 2 fs0 fs0 = [1; 2; 5; 6; 9; 10; 3; 4; 7; 8; 11; 12] /\ equal_files (2 * 2) fs0 /\
  ops_ok_fixed (fixed_content 4 fs0 fs0) [OPwrite (mkSeg 0 [21; 22; 23]) 10; OPreadv [mkSeg 0 [0; 0]; mkSeg 0 [0; 0; 0]] 3; OFstat].
Proof. exact composites_ex. Qed.
