From Coq Require Import ZArith List.
From PV Require Import Base.U64 C15.C15_Model C16.C16_Model C16.C16_Proofs.
Theorem c16_placeholder : True. Proof. exact placeholder. Qed.
Print Assumptions c16_placeholder.
