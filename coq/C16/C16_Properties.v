(* C16_Properties.v — property theorems of C16 (file adaptors).  Statements only; every proof is
   `exact <lemma of the C16 proof files>`.  Vocabulary: C16_Model.v (al_pread, al_pwrite, al_preadv,
   al_pwritev, run_op, run_ops, f_pread, f_pwrite, scatter, gather, overwrite, event), C16_AlignedProofs.v
   (ev_aligned, is_io), C16_AlignedProofs2.v (aligned_guard), C16_Proofs.v (ref_op, ref_run, op_ok, ops_ok,
   op_guard, observe, trace_aligned). *)
From Coq Require Import ZArith List.
From PV Require Import Base.U64 C15.C15_Model C16.C16_Model C16.C16_Lists C16.C16_AlignedProofs C16.C16_AlignedProofs2 C16.C16_Proofs.
Import ListNotations.
Local Open Scope Z_scope.

(* pread through the alignment adaptor = pread on the plain file: count, data, untouched rest of the
   caller's buffer, file unchanged — every alignment 2^k, every offset <= size, every length, every
   buffer mis-alignment, with or without align_memory *)
Theorem aligned_pread_refines : forall k am f b off,
  aligned_guard k off (zlen (sg_data b)) -> off <= zlen f ->
  let res := al_pread (2 ^ k) am f b off in
  let d := f_pread f (zlen (sg_data b)) off in
  rs_ret res = zlen d /\ rs_bufs res = [overwrite (sg_data b) 0 d] /\
  rs_files res = [f] /\ Forall (ev_aligned (2 ^ k) am) (rs_trace res).
Proof. exact al_pread_refines_l. Qed.
Print Assumptions aligned_pread_refines.

(* pwrite: count, resulting content AND size equal the plain file's — every offset >= 0 (inside, at
   and beyond EOF), un-aligned on either or both ends *)
Theorem aligned_pwrite_refines : forall k am f b off,
  aligned_guard k off (zlen (sg_data b)) ->
  let res := al_pwrite (2 ^ k) am f b off in
  rs_ret res = zlen (sg_data b) /\ rs_bufs res = [sg_data b] /\
  rs_files res = [f_pwrite f (sg_data b) off] /\ Forall (ev_aligned (2 ^ k) am) (rs_trace res).
Proof. exact al_pwrite_refines_l. Qed.
Print Assumptions aligned_pwrite_refines.

(* vectored variants, every iovec segmentation (zero-length elements included) *)
Theorem aligned_preadv_refines : forall k am f segs off,
  aligned_guard k off (sum_len segs) -> off <= zlen f ->
  let res := al_preadv (2 ^ k) am f segs off in
  let d := f_pread f (sum_len segs) off in
  rs_ret res = zlen d /\ rs_bufs res = scatter (map sg_data segs) d /\
  rs_files res = [f] /\ Forall (ev_aligned (2 ^ k) am) (rs_trace res).
Proof. exact al_preadv_refines_l. Qed.
Print Assumptions aligned_preadv_refines.

Theorem aligned_pwritev_refines : forall k am f segs off,
  aligned_guard k off (sum_len segs) ->
  let res := al_pwritev (2 ^ k) am f segs off in
  rs_ret res = sum_len segs /\ rs_bufs res = map sg_data segs /\
  rs_files res = [f_pwrite f (gather segs) off] /\ Forall (ev_aligned (2 ^ k) am) (rs_trace res).
Proof. exact al_pwritev_refines_l. Qed.
Print Assumptions aligned_pwritev_refines.

(* every pread/pwrite/preadv/pwritev the adaptor issues to the underlay has offset and length
   = 0 mod alignment and, with align_memory, aligned buffers — for EVERY request (also at/after EOF,
   also when the bounce buffer cannot be allocated) *)
Theorem aligned_calls_aligned : forall k am f o, op_guard k o ->
  trace_aligned k am (run_op (AdAligned (2 ^ k) am) [f] o).
Proof. exact run_op_calls_aligned. Qed.
Print Assumptions aligned_calls_aligned.

(* any sequence of pread/pwrite/preadv/pwritev/fstat/ftruncate: same observations (return values and
   buffers) and same final content and size as the same sequence on a plain file; all requests aligned *)
Theorem ops_refine_plain : forall k am ops f, ops_ok k f ops ->
  map observe (fst (run_ops (AdAligned (2 ^ k) am) [f] ops)) = fst (ref_run f ops) /\
  snd (run_ops (AdAligned (2 ^ k) am) [f] ops) = [snd (ref_run f ops)] /\
  Forall (trace_aligned k am) (fst (run_ops (AdAligned (2 ^ k) am) [f] ops)).
Proof. exact ops_refine_plain_l2. Qed.
Print Assumptions ops_refine_plain.

Example aligned_guard_nonvacuous : aligned_guard 9 1000 5000 /\ aligned_guard 2 1 2 /\ aligned_guard 0 0 1.
Proof. exact guard_ex. Qed.

Example ops_ok_nonvacuous :
  alloc_fails (2 ^ 3) true = false /\
  ops_ok 3 [1; 2; 3; 4; 5; 6; 7; 8; 9; 10]
    [OPwrite (mkSeg 4 [21; 22; 23]) 6; OPreadv [mkSeg 0 [0; 0]; mkSeg 1 [0; 0; 0]] 5; OFstat;
     OPwrite (mkSeg 0 [31; 32]) 13; OPread (mkSeg 0 [0; 0; 0; 0]) 15].
Proof. exact ops_ok_ex. Qed.

