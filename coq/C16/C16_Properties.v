(* C16_Properties.v — property theorems of C16 (file adaptors).  Statements only; every proof is
   `exact <lemma of the C16 proof files>`.  Vocabulary: C16_Model.v (al_pread, al_pwrite, al_preadv,
   al_pwritev, run_op, run_ops, f_pread, f_pwrite, scatter, gather, overwrite, event), C16_AlignedProofs.v
   (ev_aligned, is_io), C16_AlignedProofs2.v (aligned_guard), C16_Proofs.v (ref_op, ref_run, op_ok, ops_ok,
   op_guard, observe, trace_aligned). *)
From Coq Require Import ZArith List.
From PV Require Import Base.U64 C15.C15_Model C15.C15_Spec C16.C16_Model C16.C16_Lists C16.C16_AlignedProofs C16.C16_AlignedProofs2 C16.C16_Proofs.
From PV Require Import C16.C16_XGeneric C16.C16_XProofs C16.C16_XInst C16.C16_XOps.
From PV Require Import C16.C16_XPow2 C16.C16_XZero C16.C16_XZeroInst C16.C16_XVar C16.C16_XFinal C16.C16_XTrace.
Import ListNotations.
Local Open Scope Z_scope.

(* pread through the alignment adaptor = pread on the plain file: count, data, untouched rest of the
   caller's buffer, file unchanged — every alignment 2^k, every offset <= size, every length, every
   buffer mis-alignment, with or without align_memory *)
Theorem aligned_pread_refines : forall k am f b off,
  aligned_guard k off (zlen (sg_data b)) -> off <= zlen f ->
  let res := al_pread (2 ^ k) am f b off in
  let d := f_pread f (zlen (sg_data b)) off in
  rs_ret res = zlen d /\ rs_bufs res = [overwrite (sg_data b) 0 d] /\
  rs_files res = [f] /\ Forall (ev_aligned (2 ^ k) am) (rs_trace res).
Proof. exact al_pread_refines_l. Qed.
Print Assumptions aligned_pread_refines.

(* pwrite: count, resulting content AND size equal the plain file's — every offset >= 0 (inside, at
   and beyond EOF), un-aligned on either or both ends *)
Theorem aligned_pwrite_refines : forall k am f b off,
  aligned_guard k off (zlen (sg_data b)) ->
  let res := al_pwrite (2 ^ k) am f b off in
  rs_ret res = zlen (sg_data b) /\ rs_bufs res = [sg_data b] /\
  rs_files res = [f_pwrite f (sg_data b) off] /\ Forall (ev_aligned (2 ^ k) am) (rs_trace res).
Proof. exact al_pwrite_refines_l. Qed.
Print Assumptions aligned_pwrite_refines.

(* vectored variants, every iovec segmentation (zero-length elements included) *)
Theorem aligned_preadv_refines : forall k am f segs off,
  aligned_guard k off (sum_len segs) -> off <= zlen f ->
  let res := al_preadv (2 ^ k) am f segs off in
  let d := f_pread f (sum_len segs) off in
  rs_ret res = zlen d /\ rs_bufs res = scatter (map sg_data segs) d /\
  rs_files res = [f] /\ Forall (ev_aligned (2 ^ k) am) (rs_trace res).
Proof. exact al_preadv_refines_l. Qed.
Print Assumptions aligned_preadv_refines.

Theorem aligned_pwritev_refines : forall k am f segs off,
  aligned_guard k off (sum_len segs) ->
  let res := al_pwritev (2 ^ k) am f segs off in
  rs_ret res = sum_len segs /\ rs_bufs res = map sg_data segs /\
  rs_files res = [f_pwrite f (gather segs) off] /\ Forall (ev_aligned (2 ^ k) am) (rs_trace res).
Proof. exact al_pwritev_refines_l. Qed.
Print Assumptions aligned_pwritev_refines.

(* every pread/pwrite/preadv/pwritev the adaptor issues to the underlay has offset and length
   = 0 mod alignment and, with align_memory, aligned buffers — for EVERY request (also at/after EOF,
   also when the bounce buffer cannot be allocated) *)
Theorem aligned_calls_aligned : forall k am f o, op_guard k o ->
  trace_aligned k am (run_op (AdAligned (2 ^ k) am) [f] o).
Proof. exact run_op_calls_aligned. Qed.
Print Assumptions aligned_calls_aligned.

(* any sequence of pread/pwrite/preadv/pwritev/fstat/ftruncate: same observations (return values and
   buffers) and same final content and size as the same sequence on a plain file; all requests aligned *)
Theorem ops_refine_plain : forall k am ops f, ops_ok k f ops ->
  map observe (fst (run_ops (AdAligned (2 ^ k) am) [f] ops)) = fst (ref_run f ops) /\
  snd (run_ops (AdAligned (2 ^ k) am) [f] ops) = [snd (ref_run f ops)] /\
  Forall (trace_aligned k am) (fst (run_ops (AdAligned (2 ^ k) am) [f] ops)).
Proof. exact ops_refine_plain_l2. Qed.
Print Assumptions ops_refine_plain.

Example aligned_guard_nonvacuous : aligned_guard 9 1000 5000 /\ aligned_guard 2 1 2 /\ aligned_guard 0 0 1.
Proof. exact guard_ex. Qed.

Example ops_ok_nonvacuous :
  alloc_fails (2 ^ 3) true = false /\
  ops_ok 3 [1; 2; 3; 4; 5; 6; 7; 8; 9; 10]
    [OPwrite (mkSeg 4 [21; 22; 23]) 6; OPreadv [mkSeg 0 [0; 0]; mkSeg 1 [0; 0; 0]] 5; OFstat;
     OPwrite (mkSeg 0 [31; 32]) 13; OPread (mkSeg 0 [0; 0; 0; 0]) 15].
Proof. exact ops_ok_ex. Qed.


(* ------------------------------------------------------------------ composites *)
(* Vocabulary: C16_XGeneric (nth_file, Inv fs0 fs = same number of sub-files with the sizes of fs0), C16_XInst (stripe_x,
   stripe_content = block b is stripe b/n of sub-file b mod n), C16_XOps (equal_files, ref_op_fixed, ref_run_fixed),
   C16_XZero (op_ok_fixed_z / ops_ok_fixed_z: request starts inside the composite, EVERY length incl. 0, below 2^63),
   C16_XZeroInst (fixed_xf), C16_XVar (pos_files, total = zlen (concat _), var_x), C16_Proofs (linear_refines_stmt).
   The logical content of the linear composites is [concat files] literally. *)

(* the factories' popcount test (common/utility.h:130) means "power of two" *)
Theorem is_power_of_2_sound : forall u, 0 < u < W64 -> is_power_of_2 u = true -> is_pow2_64 u.
Proof. exact is_power_of_2_pow2. Qed.
Print Assumptions is_power_of_2_sound.

(* the block-wise definition of the fixed linear file's content used by the proofs is the concatenation of the sub-files *)
Theorem fixed_content_concat : forall u fs0 fs, equal_files u fs0 -> Inv fs0 fs -> fixed_content u fs0 fs = concat fs.
Proof. exact fixed_content_concat_l. Qed.
Print Assumptions fixed_content_concat.

(* FixedSizeLinearFile with either splitter (range_split for every unit size; range_split_power2 when the factory's own
   test is_power_of_2 accepts the unit) over sub-files of exactly one unit each: pread/pwrite of EVERY length (0 included)
   starting inside the composite return the plain file's count and data, clipped at the composite's end; a write changes
   the logical content [concat files] exactly like the (clipped) plain pwrite and no sub-file's size *)
Theorem linear_refines : forall u fs0 x fs buf off,
  0 < u -> equal_files u fs0 -> zlen fs0 * u < 2 ^ 63 -> fixed_xf u fs0 x ->
  Inv fs0 fs -> 0 <= off < zlen fs0 * u -> zlen buf < 2 ^ 63 ->
  let whole := concat fs in
  (let r := x_pio x true fs buf off in
   let d := f_pread whole (zlen buf) off in
   rs_ret r = zlen d /\ rs_bufs r = [overwrite buf 0 d] /\ rs_files r = fs) /\
  (let r := x_pio x false fs buf off in
   rs_ret r = Z.min (zlen buf) (zlen fs0 * u - off) /\ rs_bufs r = [buf] /\ Inv fs0 (rs_files r) /\
   concat (rs_files r) = f_pwrite whole (ztake (zlen fs0 * u - off) buf) off).
Proof. exact linear_refines_z. Qed.
Print Assumptions linear_refines.

(* VariableSizeLinearFile (range_split_vi over the key points 0, prefix sums of the sub-file sizes, UINT64_MAX) over
   sub-files of arbitrary positive sizes: same statement, every length *)
Theorem linear_vi_refines : forall fs0 fs buf off,
  pos_files fs0 -> total fs0 < 2 ^ 63 ->
  Inv fs0 fs -> 0 <= off < total fs0 -> zlen buf < 2 ^ 63 ->
  let whole := concat fs in
  (let r := x_pio (var_x fs0) true fs buf off in
   let d := f_pread whole (zlen buf) off in
   rs_ret r = zlen d /\ rs_bufs r = [overwrite buf 0 d] /\ rs_files r = fs) /\
  (let r := x_pio (var_x fs0) false fs buf off in
   rs_ret r = Z.min (zlen buf) (total fs0 - off) /\ rs_bufs r = [buf] /\ Inv fs0 (rs_files r) /\
   concat (rs_files r) = f_pwrite whole (ztake (total fs0 - off) buf) off).
Proof. exact linear_vi_refines_l. Qed.
Print Assumptions linear_vi_refines.

(* StripeFile over n equal sub-files of m stripes each; stripe size accepted by the factory's own test *)
Theorem stripe_refines : forall S m fs0 fs buf off,
  0 < S -> is_power_of_2 S = true -> 0 < m -> equal_files (m * S) fs0 -> m * zlen fs0 * S < 2 ^ 63 ->
  Inv fs0 fs -> 0 <= off < m * zlen fs0 * S -> zlen buf < 2 ^ 63 ->
  let whole := stripe_content S m fs0 fs in
  (let r := x_pio (stripe_x S m fs0) true fs buf off in
   let d := f_pread whole (zlen buf) off in
   rs_ret r = zlen d /\ rs_bufs r = [overwrite buf 0 d] /\ rs_files r = fs) /\
  (let r := x_pio (stripe_x S m fs0) false fs buf off in
   rs_ret r = Z.min (zlen buf) (m * zlen fs0 * S - off) /\ rs_bufs r = [buf] /\ Inv fs0 (rs_files r) /\
   stripe_content S m fs0 (rs_files r) = f_pwrite whole (ztake (m * zlen fs0 * S - off) buf) off).
Proof. exact stripe_refines_z. Qed.
Print Assumptions stripe_refines.

(* the factories build exactly the adaptors the theorems talk about *)
Theorem new_fixed_builds : forall u fs0, 0 < u -> 0 < zlen fs0 -> zlen fs0 * u < 2 ^ 63 ->
  exists x, fst (new_fixed u fs0) = Some x /\ fixed_xf u fs0 x.
Proof. exact new_fixed_xf. Qed.
Print Assumptions new_fixed_builds.
Theorem new_linear_builds : forall fs0, pos_files fs0 -> total fs0 < 2 ^ 63 -> fst (new_linear fs0) = Some (var_x fs0).
Proof. exact new_linear_var_x. Qed.
Print Assumptions new_linear_builds.
Theorem new_stripe_builds : forall S m (fs0 : list file), 0 < S -> is_power_of_2 S = true -> 0 < m -> 0 < zlen fs0 ->
  Forall (fun f => zlen f = m * S) fs0 -> m * zlen fs0 * S < 2 ^ 63 ->
  fst (new_stripe S fs0) = Some (stripe_x S m fs0).
Proof. exact new_stripe_is. Qed.
Print Assumptions new_stripe_builds.

(* factory level, both linear files (the statement C16_Proofs.linear_refines_stmt): whatever new_fixed_size_linear_file /
   new_linear_file return over sub-files that exactly fill their slots behaves like the plain file [concat files] *)
Theorem linear_refines_factories : linear_refines_stmt.
Proof. exact linear_refines_full. Qed.
Print Assumptions linear_refines_factories.

(* the same for operation sequences, at factory level (linear_factory x files = x is what new_fixed_size_linear_file /
   new_linear_file returned for sub-files that exactly fill their slots): observations and final content = the same
   sequence on the plain file [concat files]; no sub-file changes its size *)
Theorem ops_refine_plain_linear_factories : forall x files ops,
  linear_factory x files -> zlen (concat files) < 2 ^ 63 -> ops_ok_fixed_z (concat files) ops ->
  map observe (fst (run_ops (AdX x) files ops)) = fst (ref_run_fixed (concat files) ops) /\
  concat (snd (run_ops (AdX x) files ops)) = snd (ref_run_fixed (concat files) ops) /\
  map (@zlen byte) (snd (run_ops (AdX x) files ops)) = map (@zlen byte) files.
Proof. exact linear_ops_factories. Qed.
Print Assumptions ops_refine_plain_linear_factories.

(* sequences of pread/pwrite/preadv/pwritev (through VirtualFile::piov_copy: every segmentation, empty iovecs and
   zero-length elements included)/fstat on the composites = the same sequence on ONE plain file of fixed size *)
Theorem ops_refine_plain_linear : forall u fs0 x ops fs,
  0 < u -> equal_files u fs0 -> zlen fs0 * u < 2 ^ 63 -> fixed_xf u fs0 x ->
  Inv fs0 fs -> ops_ok_fixed_z (concat fs) ops ->
  map observe (fst (run_ops (AdX x) fs ops)) = fst (ref_run_fixed (concat fs) ops) /\
  Inv fs0 (snd (run_ops (AdX x) fs ops)) /\
  concat (snd (run_ops (AdX x) fs ops)) = snd (ref_run_fixed (concat fs) ops).
Proof. exact linear_ops_refine_z. Qed.
Print Assumptions ops_refine_plain_linear.

Theorem ops_refine_plain_linear_vi : forall fs0 ops fs,
  pos_files fs0 -> total fs0 < 2 ^ 63 ->
  Inv fs0 fs -> ops_ok_fixed_z (concat fs) ops ->
  map observe (fst (run_ops (AdX (var_x fs0)) fs ops)) = fst (ref_run_fixed (concat fs) ops) /\
  Inv fs0 (snd (run_ops (AdX (var_x fs0)) fs ops)) /\
  concat (snd (run_ops (AdX (var_x fs0)) fs ops)) = snd (ref_run_fixed (concat fs) ops).
Proof. exact linear_vi_ops_refine_l. Qed.
Print Assumptions ops_refine_plain_linear_vi.

Theorem ops_refine_plain_stripe : forall S m fs0 ops fs,
  0 < S -> is_power_of_2 S = true -> 0 < m -> equal_files (m * S) fs0 -> m * zlen fs0 * S < 2 ^ 63 ->
  Inv fs0 fs -> ops_ok_fixed_z (stripe_content S m fs0 fs) ops ->
  map observe (fst (run_ops (AdX (stripe_x S m fs0)) fs ops)) = fst (ref_run_fixed (stripe_content S m fs0 fs) ops) /\
  Inv fs0 (snd (run_ops (AdX (stripe_x S m fs0)) fs ops)) /\
  stripe_content S m fs0 (snd (run_ops (AdX (stripe_x S m fs0)) fs ops)) =
    snd (ref_run_fixed (stripe_content S m fs0 fs) ops).
Proof. exact stripe_ops_refine_z. Qed.
Print Assumptions ops_refine_plain_stripe.

(* ---- what the composites send to their sub-files (C16_XTrace: ev_of, C15_Spec.tiles) ---- *)
(* a request that starts at/after the end of a composite (or at a negative offset) is refused with EIO: nothing is
   forwarded, nothing changes (a plain file would return 0 / grow: such requests are outside the property) *)
Theorem composite_out_of_range : forall x isread fs buf off, off < 0 \/ x_size x <= off ->
  x_pio x isread fs buf off = mkRes (-1) EIO [buf] fs [].
Proof. exact x_pio_out_of_range. Qed.
Print Assumptions composite_out_of_range.

(* the trace of one pread/pwrite is exactly one pread/pwrite per part; the parts are consecutive blocks, each request
   lies inside its block, they are contiguous and cover exactly the clipped range [off, off + min(len, size - off)) *)
Theorem linear_trace : forall u fs0 x fs isread buf off,
  0 < u -> equal_files u fs0 -> zlen fs0 * u < 2 ^ 63 -> fixed_xf u fs0 x ->
  Inv fs0 fs -> 0 <= off < zlen fs0 * u -> 0 < zlen buf < 2 ^ 63 ->
  exists l i0,
    rs_trace (x_pio x isread fs buf off) =
      map (fun p => mkEv (s_i p) (if isread then KPread else KPwrite) (s_off p) (s_len p) true) l /\
    tiles (fun i => i * u) (fun _ => u) off (off + Z.min (zlen buf) (zlen fs0 * u - off)) i0 l /\
    0 <= i0 /\ i0 + zlen l <= zlen fs0.
Proof. exact linear_trace_l. Qed.
Print Assumptions linear_trace.

Theorem linear_vi_trace : forall fs0 fs isread buf off,
  pos_files fs0 -> total fs0 < 2 ^ 63 ->
  Inv fs0 fs -> 0 <= off < total fs0 -> 0 < zlen buf < 2 ^ 63 ->
  exists l i0,
    rs_trace (x_pio (var_x fs0) isread fs buf off) =
      map (fun p => mkEv (s_i p) (if isread then KPread else KPwrite) (s_off p) (s_len p) true) l /\
    tiles (fun i => psum fs0 (Z.to_nat i)) (fun i => zlen (nth_file fs0 i)) off (off + Z.min (zlen buf) (total fs0 - off)) i0 l /\
    0 <= i0 /\ i0 + zlen l <= zlen fs0.
Proof. exact linear_vi_trace_l. Qed.
Print Assumptions linear_vi_trace.

(* StripeFile: block b goes to sub-file b mod n, stripe b / n *)
Theorem stripe_trace : forall S m fs0 fs isread buf off,
  0 < S -> is_power_of_2 S = true -> 0 < m -> equal_files (m * S) fs0 -> m * zlen fs0 * S < 2 ^ 63 ->
  Inv fs0 fs -> 0 <= off < m * zlen fs0 * S -> 0 < zlen buf < 2 ^ 63 ->
  exists l i0,
    rs_trace (x_pio (stripe_x S m fs0) isread fs buf off) =
      map (fun p => mkEv (s_i p mod zlen fs0) (if isread then KPread else KPwrite)
                         (s_i p / zlen fs0 * S + s_off p) (s_len p) true) l /\
    tiles (fun i => i * S) (fun _ => S) off (off + Z.min (zlen buf) (m * zlen fs0 * S - off)) i0 l /\
    0 <= i0 /\ i0 + zlen l <= m * zlen fs0.
Proof. exact stripe_trace_l. Qed.
Print Assumptions stripe_trace.

(* a zero-length request forwards nothing, or ONE zero-length request to an existing sub-file *)
Theorem composite_trace_zero : forall x fs0 fs isread buf off,
  ((exists u, 0 < u /\ equal_files u fs0 /\ zlen fs0 * u < 2 ^ 63 /\ fixed_xf u fs0 x) \/
   (pos_files fs0 /\ total fs0 < 2 ^ 63 /\ x = var_x fs0) \/
   (exists S m, 0 < S /\ is_power_of_2 S = true /\ 0 < m /\ equal_files (m * S) fs0 /\ m * zlen fs0 * S < 2 ^ 63 /\
                x = stripe_x S m fs0)) ->
  Inv fs0 fs -> 0 <= off < x_size x -> zlen buf = 0 ->
  rs_trace (x_pio x isread fs buf off) = [] \/
  exists i p, 0 <= i < zlen fs0 /\ rs_trace (x_pio x isread fs buf off) = [ev_of isread (i, p, 0)].
Proof. exact composite_trace_zero_l. Qed.
Print Assumptions composite_trace_zero.

Example is_power_of_2_nonvacuous : is_power_of_2 4096 = true /\ is_power_of_2 12 = false /\ 0 < 4096 < W64.
Proof. exact is_power_of_2_ex. Qed.

Example composites_nonvacuous :
  let fs0 := [[1; 2; 3; 4]; [5; 6; 7; 8]; [9; 10; 11; 12]] in
  equal_files 4 fs0 /\ fixed_xf 4 fs0 (mkX (XFixedP2 4) 3 12) /\ fixed_xf 4 fs0 (mkX (XFixed 4) 3 12) /\
  fst (new_fixed 4 fs0) = Some (mkX (XFixedP2 4) 3 12) /\
  is_power_of_2 2 = true /\ equal_files (2 * 2) fs0 /\
  stripe_content 2 2 fs0 fs0 = [1; 2; 5; 6; 9; 10; 3; 4; 7; 8; 11; 12] /\
  fst (new_stripe 2 fs0) = Some (stripe_x 2 2 fs0) /\
  ops_ok_fixed_z (concat fs0) [OPwrite (mkSeg 0 [21; 22; 23]) 10; OPread (mkSeg 0 []) 11;
                               OPreadv [mkSeg 0 [0; 0]; mkSeg 0 []; mkSeg 0 [0; 0; 0]] 3; OPwritev [] 5; OFstat].
Proof. exact composites_ex_z. Qed.

Example linear_vi_nonvacuous :
  let fs0 := [[1; 2; 3]; [4]; [5; 6; 7; 8; 9]; [10; 11]] in
  pos_files fs0 /\ total fs0 = 11 /\ Inv fs0 fs0 /\
  var_x fs0 = mkX (XVar [0; 3; 4; 9; 11; MAX64]) 4 11 /\ fst (new_linear fs0) = Some (var_x fs0) /\
  ops_ok_fixed_z (concat fs0) [OPwrite (mkSeg 0 [21; 22; 23; 24]) 2; OPread (mkSeg 0 []) 10;
                               OPreadv [mkSeg 0 [0; 0]; mkSeg 0 []; mkSeg 0 [0; 0; 0]] 8; OPwritev [] 0; OFstat].
Proof. exact var_ex. Qed.

Example linear_factory_nonvacuous :
  linear_factory (mkX (XFixedP2 4) 2 8) [[1; 2; 3; 4]; [5; 6; 7; 8]] /\
  linear_factory (var_x [[1; 2; 3]; [4]; [5; 6; 7; 8; 9]]) [[1; 2; 3]; [4]; [5; 6; 7; 8; 9]] /\
  ops_ok_fixed_z (concat [[1; 2; 3]; [4]; [5; 6; 7; 8; 9]])
    [OPwrite (mkSeg 0 [21; 22; 23; 24]) 2; OPread (mkSeg 0 []) 8; OPreadv [mkSeg 0 [0; 0]; mkSeg 0 []; mkSeg 0 [0; 0; 0]] 6; OFstat].
Proof. exact linear_factory_ex. Qed.

Example linear_factories_nonvacuous :
  (exists x, fst (new_fixed 4 [[1; 2; 3; 4]; [5; 6; 7; 8]]) = Some x) /\
  (exists x, fst (new_linear [[1; 2; 3]; [4]; [5; 6; 7; 8; 9]]) = Some x) /\
  Forall (fun f : file => zlen f = 4) [[1; 2; 3; 4]; [5; 6; 7; 8]] /\
  Forall (fun f : file => 0 < zlen f) [[1; 2; 3]; [4]; [5; 6; 7; 8; 9]].
Proof. exact linear_refines_full_ex. Qed.
