(* C16_XProofs.v — XFile::pio / VirtualFile::piov_copy over an abstract block layout refine a
   fixed-size plain file; instances: FixedSizeLinearFile (both splitters), StripeFile. *)
From Coq Require Import ZArith List Bool Lia.
From PV Require Import Base.U64 C15.C15_Model C15.C15_Spec C15.C15_ProofsGeneric C15.C15_Proofs.
From PV Require Import C16.C16_Model C16.C16_Lists C16.C16_XGeneric.
Import ListNotations.
Local Open Scope Z_scope.

Lemma tiles_last_lt B L : forall l start stop i, tiles B L start stop i l -> l <> [] ->
  B (i + zlen l - 1) < stop.
Proof.
  induction l as [|p l IH]; intros start stop i H NE; [congruence|].
  cbn [tiles] in H. destruct H as (T1 & T2 & T3 & T4 & T5 & T6). rewrite zlen_cons.
  destruct l as [|q l].
  - cbn [tiles] in T6. rewrite zlen_nil. replace (i + (1 + 0) - 1) with i by lia. lia.
  - specialize (IH _ _ _ T6 ltac:(discriminate)).
    replace (i + (1 + zlen (q :: l)) - 1) with (i + 1 + zlen (q :: l) - 1) by lia. exact IH.
Qed.

Lemma f_pread_clip f c o : 0 <= o -> f_pread f c o = f_pread f (Z.min c (zlen f - o)) o.
Proof.
  intros Ho. apply list_ext.
  - rewrite !zlen_f_pread by lia. lia.
  - intros i Hi. rewrite zlen_f_pread in Hi by lia. rewrite !get_f_pread by lia. reflexivity.
Qed.

Lemma ztake_overwrite0 g d : zlen d <= zlen g -> ztake (zlen d) (overwrite g 0 d) = d.
Proof.
  intros H. pose proof (zlen_nonneg d). apply list_ext.
  - rewrite zlen_ztake, zlen_overwrite by lia. lia.
  - intros i Hi. rewrite zlen_ztake, zlen_overwrite in Hi by lia.
    rewrite get_ztake by lia. rewrite get_overwrite_in by lia. f_equal. lia.
Qed.

Ltac feed H := repeat match type of H with ?P -> _ =>
  let h := fresh in assert (h : P) by assumption; specialize (H h); clear h end.

Section Composite.
  Variables (B L fidx fbase : Z -> Z) (nb : Z) (fs0 : list file) (x : xfile).
  Hypothesis Hnb : 0 <= nb.
  Hypothesis HB0 : B 0 = 0.
  Hypothesis HBS : forall i, 0 <= i < nb -> B (i + 1) = B i + L i.
  Hypothesis HLpos : forall i, 0 <= i < nb -> 0 < L i.
  Hypothesis Hshape : forall i, 0 <= i < nb ->
    0 <= fidx i < zlen fs0 /\ 0 <= fbase i /\ fbase i + L i <= zlen (nth_file fs0 (fidx i)).
  Hypothesis Hinj : forall i j, 0 <= i < nb -> 0 <= j < nb -> i <> j -> fidx i = fidx j ->
    fbase i + L i <= fbase j \/ fbase j + L j <= fbase i.
  Hypothesis Hsize : x_size x = B nb.
  Hypothesis Hbig : B nb < 2 ^ 63.
  (* what C15's tiling theorem gives for this splitter *)
  Hypothesis Hparts : forall off count, 0 <= off -> 0 < count -> off + count <= B nb ->
    exists l i0, xparts x off count = Some (map (conv fidx fbase) l) /\
                 tiles B L off (off + count) i0 l /\ 0 <= i0 /\ i0 + zlen l <= nb.

  Local Notation Inv := (Inv fs0).
  Local Notation whole := (whole L fidx fbase nb).

  Lemma WL fs : Inv fs -> zlen (whole fs) = B nb.
  Proof. pose proof (whole_len B L fidx fbase nb fs0) as W. feed W. apply W. Qed.

  Lemma clip_count off n : 0 <= off < B nb -> 0 <= n < 2 ^ 63 ->
    (if wrap (off + n) >? B nb then wrap (B nb - off) else n) = Z.min n (B nb - off).
  Proof.
    intros Ho Hn. assert (W : W64 = 2 * 2 ^ 63) by reflexivity.
    rewrite wrap_small by lia. destruct (Z.gtb_spec (off + n) (B nb)).
    - rewrite wrap_small by lia. lia.
    - lia.
  Qed.

  Lemma x_pio_read fs buf off : Inv fs -> 0 <= off < B nb -> 0 < zlen buf < 2 ^ 63 ->
    let r := x_pio x true fs buf off in
    let d := f_pread (whole fs) (zlen buf) off in
    rs_ret r = zlen d /\ rs_bufs r = [overwrite buf 0 d] /\ rs_files r = fs.
  Proof.
    intros HI Ho Hb. cbv zeta. unfold x_pio.
    destruct (Z.ltb_spec off 0) as [C|_]; [lia|]. rewrite Hsize.
    destruct (Z.leb_spec (B nb) off) as [C|_]; [lia|]. cbn [orb].
    rewrite clip_count by lia. set (count := Z.min (zlen buf) (B nb - off)).
    destruct (Hparts off count ltac:(lia) ltac:(lia) ltac:(lia)) as (l & i0 & HP & HT & Hi0 & Hl).
    rewrite HP.
    pose proof (loop_read B L fidx fbase nb fs0) as LR. feed LR.
    specialize (LR fs HI l off (off + count) i0 buf 0 [] HT Hi0 Hl ltac:(lia) ltac:(lia) ltac:(lia)).
    cbv zeta in LR. destruct (pio_loop true fs buf 0 (map (conv fidx fbase) l) []) as [[[st fs'] b'] tr'].
    cbn [fst snd] in LR. destruct LR as (R1 & R2 & R3). subst st fs' b'.
    cbn [rs_ret rs_bufs rs_files Z.eqb].
    replace (off + count - off) with count by lia.
    rewrite (f_pread_clip (whole fs) (zlen buf) off) by lia. rewrite (WL _ HI). fold count.
    repeat split. rewrite zlen_f_pread by lia. rewrite (WL _ HI). unfold count. lia.
  Qed.

  Lemma x_pio_write fs buf off : Inv fs -> 0 <= off < B nb -> 0 < zlen buf < 2 ^ 63 ->
    let r := x_pio x false fs buf off in
    rs_ret r = Z.min (zlen buf) (B nb - off) /\ rs_bufs r = [buf] /\ Inv (rs_files r) /\
    whole (rs_files r) = f_pwrite (whole fs) (ztake (B nb - off) buf) off.
  Proof.
    intros HI Ho Hb. cbv zeta. unfold x_pio.
    destruct (Z.ltb_spec off 0) as [C|_]; [lia|]. rewrite Hsize.
    destruct (Z.leb_spec (B nb) off) as [C|_]; [lia|]. cbn [orb].
    rewrite clip_count by lia. set (count := Z.min (zlen buf) (B nb - off)).
    destruct (Hparts off count ltac:(lia) ltac:(lia) ltac:(lia)) as (l & i0 & HP & HT & Hi0 & Hl).
    rewrite HP.
    pose proof (loop_write B L fidx fbase nb fs0) as LW. feed LW.
    specialize (LW buf l fs off (off + count) i0 0 [] HI HT Hi0 Hl ltac:(lia) ltac:(lia) ltac:(lia)).
    cbv zeta in LW. destruct (pio_loop false fs buf 0 (map (conv fidx fbase) l) []) as [[[st fs'] b'] tr'].
    cbn [fst snd] in LW. destruct LW as (R1 & R2 & R3 & R4). subst st b'.
    cbn [rs_ret rs_bufs rs_files Z.eqb]. repeat split; try exact R2; try apply R2.
    pose proof (write_whole B L fidx fbase nb fs0) as WW. feed WW.
    rewrite (WW fs fs' buf off (off + count) HI R2 ltac:(lia) ltac:(lia) ltac:(lia) R4).
    replace (off + count - off) with count by lia. f_equal.
    unfold count, ztake. destruct (Z.min_spec (zlen buf) (B nb - off)) as [(M1 & M2)|(M1 & M2)]; rewrite M2.
    - unfold zlen. rewrite Nat2Z.id. rewrite firstn_all. symmetry. apply firstn_all2. unfold zlen in M1. lia.
    - reflexivity.
  Qed.
End Composite.
