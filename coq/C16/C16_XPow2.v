(* C16_XPow2.v — the popcount test of common/utility.h:130 (`is_power_of_2`: x == 0 || (x & (x-1)) == 0),
   which the factories new_fixed_size_linear_file / new_stripe_file / new_aligned_file_adaptor use, implies
   x = 2^k for every 0 < x < 2^64 (and conversely). *)
From Coq Require Import ZArith List Bool Lia.
From PV Require Import Base.U64 C15.C15_Model C15.C15_Spec C16.C16_Model.
Import ListNotations.
Local Open Scope Z_scope.

Lemma land_pred_zero_pow2 u : 0 < u -> Z.land u (u - 1) = 0 -> u = 2 ^ Z.log2 u.
Proof.
  intros Hu HL. set (k := Z.log2 u).
  assert (Hk : 0 <= k) by apply Z.log2_nonneg.
  destruct (Z.log2_spec u Hu) as (L1 & L2). fold k in L1, L2.
  destruct (Z.eq_dec u (2 ^ k)) as [E|E]; [exact E|exfalso].
  assert (B1 : Z.testbit u k = true) by (apply Z.bit_log2; exact Hu).
  assert (P : 0 < 2 ^ k) by (apply Z.pow_pos_nonneg; lia).
  assert (K1 : Z.log2 (u - 1) = k).
  { apply Z.log2_unique; [exact Hk|]. replace (Z.succ k) with (k + 1) in * by lia. lia. }
  assert (B2 : Z.testbit (u - 1) k = true) by (rewrite <- K1; apply Z.bit_log2; lia).
  assert (B3 : Z.testbit (Z.land u (u - 1)) k = true) by (rewrite Z.land_spec, B1, B2; reflexivity).
  rewrite HL in B3. rewrite Z.bits_0 in B3. discriminate B3.
Qed.

Lemma is_power_of_2_pow2 u : 0 < u < W64 -> is_power_of_2 u = true -> is_pow2_64 u.
Proof.
  intros (Hu & HW) H. unfold is_power_of_2 in H.
  destruct (Z.eqb_spec u 0) as [E|_]; [lia|]. cbn [orb] in H. apply Z.eqb_eq in H.
  pose proof (land_pred_zero_pow2 u Hu H) as E.
  exists (Z.log2 u). split; [|exact E].
  split; [apply Z.log2_nonneg|].
  destruct (Z_lt_dec (Z.log2 u) 64) as [Q|Q]; [exact Q|exfalso].
  assert (2 ^ 64 <= 2 ^ Z.log2 u) by (apply Z.pow_le_mono_r; lia).
  rewrite <- E in *. rewrite W64_eq in HW. lia.
Qed.

(* the converse: the test accepts every 2^k *)
Lemma pow2_is_power_of_2 u : is_pow2_64 u -> is_power_of_2 u = true.
Proof.
  intros (k & Hk & ->). unfold is_power_of_2.
  replace (2 ^ k - 1) with (Z.ones k) by (rewrite Z.ones_equiv; lia).
  assert (E : Z.land (2 ^ k) (Z.ones k) = 0).
  { rewrite Z.land_ones by lia. apply Z.mod_same. pose proof (Z.pow_pos_nonneg 2 k ltac:(lia) ltac:(lia)). lia. }
  rewrite E. apply orb_true_r.
Qed.

Lemma is_power_of_2_ex : is_power_of_2 4096 = true /\ is_power_of_2 12 = false /\ 0 < 4096 < W64.
Proof. repeat split. Qed.
