(* C16_XTrace.v — what the composites (fs/xfile.cpp) send to their sub-files: the trace of one pread/pwrite is
   exactly one pread/pwrite per part of the splitter, and the parts tile the (clipped) request block by block
   (C15's [tiles]): consecutive blocks, each request inside its block, contiguous, covering [off, off+count).
   Also: a request that starts at/after the end of a composite (or at a negative offset) is refused with EIO,
   nothing is forwarded and nothing changes. *)
From Coq Require Import ZArith List Bool Lia.
From PV Require Import Base.U64 C15.C15_Model C15.C15_Spec C15.C15_ProofsGeneric C15.C15_Proofs.
From PV Require Import C16.C16_Model C16.C16_Lists C16.C16_AlignedProofs2 C16.C16_Proofs.
From PV Require Import C16.C16_XGeneric C16.C16_XProofs C16.C16_XInst C16.C16_XOps C16.C16_XPow2 C16.C16_XZero
                       C16.C16_XZeroInst C16.C16_XVar.
Import ListNotations.
Local Open Scope Z_scope.

(* the sub-file request of one part (sub-file index, offset inside it, length) *)
Definition ev_of (isread : bool) (q : Z * Z * Z) : event :=
  mkEv (fst (fst q)) (if isread then KPread else KPwrite) (snd (fst q)) (snd q) true.

Lemma pio_loop_trace isread : forall parts fs buf pos tr,
  fst (fst (fst (pio_loop isread fs buf pos parts tr))) = 0 ->
  snd (pio_loop isread fs buf pos parts tr) = tr ++ map (ev_of isread) parts.
Proof.
  induction parts as [|[[i p] len] rest IH]; intros fs buf pos tr H.
  - cbn [pio_loop map snd]. rewrite app_nil_r. reflexivity.
  - cbn [pio_loop map] in *. destruct (get_file fs i) as [f|]; [|cbn in H; discriminate H].
    destruct isread.
    + destruct (zlen (f_pread f len p) <? len); [cbn in H; discriminate H|].
      rewrite (IH _ _ _ _ H). rewrite <- app_assoc. reflexivity.
    + rewrite (IH _ _ _ _ H). rewrite <- app_assoc. reflexivity.
Qed.

(* refused requests *)
Lemma x_pio_out_of_range x isread fs buf off : off < 0 \/ x_size x <= off ->
  x_pio x isread fs buf off = mkRes (-1) EIO [buf] fs [].
Proof.
  intros H. unfold x_pio.
  destruct (Z.ltb_spec off 0); destruct (Z.leb_spec (x_size x) off); cbn [orb]; try reflexivity. lia.
Qed.

Lemma tiles_ext B L B' L' : forall l start stop i,
  (forall k, i <= k < i + zlen l -> B k = B' k /\ L k = L' k) ->
  tiles B L start stop i l -> tiles B' L' start stop i l.
Proof.
  induction l as [|p l IH]; intros start stop i HE H; [exact H|].
  cbn [tiles] in *. destruct H as (T1 & T2 & T3 & T4 & T5 & T6). rewrite zlen_cons in HE. pose proof (zlen_nonneg l).
  destruct (HE i ltac:(lia)) as (E1 & E2). rewrite <- E1, <- E2.
  repeat split; try assumption. apply IH; [|exact T6]. intros k Hk. apply HE. lia.
Qed.

(* ------------------------------------------------------------------ *)
Section CompositeTrace.
  Variables (B L fidx fbase : Z -> Z) (nb : Z) (fs0 : list file) (x : xfile).
  Hypothesis Hnb : 0 <= nb.
  Hypothesis HB0 : B 0 = 0.
  Hypothesis HBS : forall i, 0 <= i < nb -> B (i + 1) = B i + L i.
  Hypothesis HLpos : forall i, 0 <= i < nb -> 0 < L i.
  Hypothesis Hshape : forall i, 0 <= i < nb ->
    0 <= fidx i < zlen fs0 /\ 0 <= fbase i /\ fbase i + L i <= zlen (nth_file fs0 (fidx i)).
  Hypothesis Hinj : forall i j, 0 <= i < nb -> 0 <= j < nb -> i <> j -> fidx i = fidx j ->
    fbase i + L i <= fbase j \/ fbase j + L j <= fbase i.
  Hypothesis Hsize : x_size x = B nb.
  Hypothesis Hbig : B nb < 2 ^ 63.
  Hypothesis Hparts : forall off count, 0 <= off -> 0 < count -> off + count <= B nb ->
    exists l i0, xparts x off count = Some (map (conv fidx fbase) l) /\
                 tiles B L off (off + count) i0 l /\ 0 <= i0 /\ i0 + zlen l <= nb.
  Hypothesis Hparts0 : forall off, 0 <= off < B nb ->
    exists ps, xparts x off 0 = Some ps /\
               (ps = [] \/ exists i p, ps = [(i, p, 0)] /\ 0 <= i < zlen fs0).

  Lemma x_pio_trace isread fs buf off : Inv fs0 fs -> 0 <= off < B nb -> 0 < zlen buf < 2 ^ 63 ->
    exists l i0,
      rs_trace (x_pio x isread fs buf off) = map (fun p => ev_of isread (conv fidx fbase p)) l /\
      tiles B L off (off + Z.min (zlen buf) (B nb - off)) i0 l /\ 0 <= i0 /\ i0 + zlen l <= nb.
  Proof.
    intros HI Ho Hb. unfold x_pio.
    destruct (Z.ltb_spec off 0) as [C|_]; [lia|]. rewrite Hsize.
    destruct (Z.leb_spec (B nb) off) as [C|_]; [lia|]. cbn [orb].
    rewrite (clip_count B nb) by lia. set (count := Z.min (zlen buf) (B nb - off)).
    destruct (Hparts off count ltac:(lia) ltac:(lia) ltac:(lia)) as (l & i0 & HP & HT & Hi0 & Hl).
    rewrite HP. exists l, i0. split; [|auto].
    pose proof (pio_loop_trace isread (map (conv fidx fbase) l) fs buf 0 []) as PT.
    assert (ST : fst (fst (fst (pio_loop isread fs buf 0 (map (conv fidx fbase) l) []))) = 0).
    { destruct isread.
      - pose proof (loop_read B L fidx fbase nb fs0) as LR. feed LR.
        specialize (LR fs HI l off (off + count) i0 buf 0 [] HT Hi0 Hl ltac:(lia) ltac:(lia) ltac:(lia)).
        cbv zeta in LR. apply LR.
      - pose proof (loop_write B L fidx fbase nb fs0) as LW. feed LW.
        specialize (LW buf l fs off (off + count) i0 0 [] HI HT Hi0 Hl ltac:(lia) ltac:(lia) ltac:(lia)).
        cbv zeta in LW. apply LW. }
    specialize (PT ST).
    destruct (pio_loop isread fs buf 0 (map (conv fidx fbase) l) []) as [[[st fs'] b'] tr'].
    cbn [fst snd] in *. cbn [rs_trace]. rewrite PT. cbn [app]. rewrite map_map. reflexivity.
  Qed.

  Lemma x_pio_trace_zero isread fs buf off : Inv fs0 fs -> 0 <= off < B nb -> zlen buf = 0 ->
    rs_trace (x_pio x isread fs buf off) = [] \/
    exists i p, 0 <= i < zlen fs0 /\ rs_trace (x_pio x isread fs buf off) = [ev_of isread (i, p, 0)].
  Proof.
    intros HI Ho Hb. unfold x_pio.
    destruct (Z.ltb_spec off 0) as [C|_]; [lia|]. rewrite Hsize.
    destruct (Z.leb_spec (B nb) off) as [C|_]; [lia|]. cbn [orb].
    rewrite Hb. assert (W : W64 = 2 * 2 ^ 63) by reflexivity.
    rewrite Z.add_0_r. rewrite (wrap_small off) by lia.
    destruct (Z.gtb_spec off (B nb)) as [C|_]; [lia|].
    destruct (Hparts0 off Ho) as (ps & HP & [->|(i & p & -> & Hi)]); rewrite HP.
    - left. reflexivity.
    - right. exists i, p. split; [exact Hi|]. destruct HI as (I1 & _). rewrite <- I1 in Hi.
      pose proof (pio_loop_zero isread fs buf i p Hi) as PZ. cbv zeta in PZ.
      pose proof (pio_loop_trace isread [(i, p, 0)] fs buf 0 []) as PT.
      destruct (pio_loop isread fs buf 0 [(i, p, 0)] []) as [[[st fs'] b'] tr'].
      cbn [fst snd] in *. destruct PZ as (-> & _). cbn [rs_trace]. rewrite (PT eq_refl). reflexivity.
  Qed.
End CompositeTrace.

(* ------------------------------------------------------------------ *)
(* closed statements *)

Ltac fl_side u fs0 :=
  first [ assumption | lia | reflexivity | apply (fl_BS u fs0) | (apply (fl_Lpos u fs0); assumption)
        | (apply (fl_shape u fs0); assumption) | apply (fl_inj u fs0)
        | (apply (fl_parts_fixed u fs0); assumption) | (apply (fl_parts_p2 u fs0); assumption)
        | (apply (fl_parts0_fixed u fs0); assumption) | (apply (fl_parts0_p2 u fs0); assumption) | idtac ].
Ltac st_side S m fs0 :=
  first [ assumption | lia | reflexivity | apply (st_BS S m fs0) | (apply (st_Lpos S m fs0); assumption)
        | (apply (st_shape S m fs0); assumption) | (apply (st_inj S m fs0); assumption)
        | (unfold stripe_x; cbn [x_size]; lia)
        | (apply (st_parts S m fs0); assumption) | (apply (st_parts0 S m fs0); assumption) | idtac ].

Ltac vl_side fs0 BN :=
  first [ assumption | lia | reflexivity | (apply vl_BS; assumption) | (apply vl_Lpos; assumption)
        | (apply vl_shape; assumption) | apply vl_inj
        | (unfold var_x; cbn [x_size]; symmetry; exact BN) | (rewrite BN; assumption)
        | (apply vl_parts; assumption) | (apply vl_parts0; assumption) | idtac ].

(* FixedSizeLinearFile: part of block i goes to sub-file i at its offset inside the block *)
Lemma linear_trace_l u fs0 x fs isread buf off :
  0 < u -> equal_files u fs0 -> zlen fs0 * u < 2 ^ 63 -> fixed_xf u fs0 x ->
  Inv fs0 fs -> 0 <= off < zlen fs0 * u -> 0 < zlen buf < 2 ^ 63 ->
  exists l i0,
    rs_trace (x_pio x isread fs buf off) =
      map (fun p => mkEv (s_i p) (if isread then KPread else KPwrite) (s_off p) (s_len p) true) l /\
    tiles (fun i => i * u) (fun _ => u) off (off + Z.min (zlen buf) (zlen fs0 * u - off)) i0 l /\
    0 <= i0 /\ i0 + zlen l <= zlen fs0.
Proof.
  intros Hu (Hn & Hlen) Hbig Hxf HI Ho Hb. pose proof (fixed_xf_x u fs0 x Hu Hn Hbig Hxf) as [->|(P2 & ->)].
  - apply (x_pio_trace (fun i => i * u) (getlen_fixed u) (fun i => i) (fun _ => 0) (zlen fs0) fs0); fl_side u fs0.
  - apply (x_pio_trace (fun i => i * u) (getlen_fixed u) (fun i => i) (fun _ => 0) (zlen fs0) fs0); fl_side u fs0.
Qed.

(* VariableSizeLinearFile: block i = sub-file i, starting at the sum of the sizes before it *)
Lemma linear_vi_trace_l fs0 fs isread buf off :
  pos_files fs0 -> total fs0 < 2 ^ 63 ->
  Inv fs0 fs -> 0 <= off < total fs0 -> 0 < zlen buf < 2 ^ 63 ->
  exists l i0,
    rs_trace (x_pio (var_x fs0) isread fs buf off) =
      map (fun p => mkEv (s_i p) (if isread then KPread else KPwrite) (s_off p) (s_len p) true) l /\
    tiles (fun i => psum fs0 (Z.to_nat i)) (fun i => zlen (nth_file fs0 i)) off (off + Z.min (zlen buf) (total fs0 - off)) i0 l /\
    0 <= i0 /\ i0 + zlen l <= zlen fs0.
Proof.
  intros (Hn & Hpos) Hbig HI Ho Hb.
  set (kp := 0 :: key_points fs0 0).
  assert (BN : kp_nth kp (zlen fs0) = total fs0) by (apply vl_Bn; assumption).
  assert (T : exists l i0,
    rs_trace (x_pio (var_x fs0) isread fs buf off) =
      map (fun p => ev_of isread (conv (fun i => i) (fun _ => 0) p)) l /\
    tiles (kp_nth kp) (getlen_vi kp) off (off + Z.min (zlen buf) (kp_nth kp (zlen fs0) - off)) i0 l /\
    0 <= i0 /\ i0 + zlen l <= zlen fs0).
  { apply (x_pio_trace (kp_nth kp) (getlen_vi kp) (fun i => i) (fun _ => 0) (zlen fs0) fs0); vl_side fs0 BN. }
  destruct T as (l & i0 & T1 & T2 & T3 & T4). rewrite BN in T2. exists l, i0.
  split; [exact T1|]. split; [|auto].
  apply (tiles_ext (kp_nth kp) (getlen_vi kp)); [|exact T2].
  intros k Hk. split.
  - apply vl_B; try assumption. lia.
  - apply vl_L; try assumption. lia.
Qed.

(* StripeFile: block b goes to sub-file b mod n at stripe b / n *)
Lemma stripe_trace_l S m fs0 fs isread buf off :
  0 < S -> is_power_of_2 S = true -> 0 < m -> equal_files (m * S) fs0 -> m * zlen fs0 * S < 2 ^ 63 ->
  Inv fs0 fs -> 0 <= off < m * zlen fs0 * S -> 0 < zlen buf < 2 ^ 63 ->
  exists l i0,
    rs_trace (x_pio (stripe_x S m fs0) isread fs buf off) =
      map (fun p => mkEv (s_i p mod zlen fs0) (if isread then KPread else KPwrite)
                         (s_i p / zlen fs0 * S + s_off p) (s_len p) true) l /\
    tiles (fun i => i * S) (fun _ => S) off (off + Z.min (zlen buf) (m * zlen fs0 * S - off)) i0 l /\
    0 <= i0 /\ i0 + zlen l <= m * zlen fs0.
Proof.
  intros HS0 P Hm (Hn & Hlen) Hbig HI Ho Hb. pose proof (stripe_pow2 S m fs0 HS0 P Hm Hn Hbig) as HS.
  apply (x_pio_trace (fun i => i * S) (getlen_fixed S) (fun b => b mod zlen fs0) (fun b => b / zlen fs0 * S)
                     (m * zlen fs0) fs0); st_side S m fs0.
Qed.

(* zero-length requests: nothing, or one zero-length request to an existing sub-file *)
Lemma composite_trace_zero_l x fs0 fs isread buf off :
  ((exists u, 0 < u /\ equal_files u fs0 /\ zlen fs0 * u < 2 ^ 63 /\ fixed_xf u fs0 x) \/
   (pos_files fs0 /\ total fs0 < 2 ^ 63 /\ x = var_x fs0) \/
   (exists S m, 0 < S /\ is_power_of_2 S = true /\ 0 < m /\ equal_files (m * S) fs0 /\ m * zlen fs0 * S < 2 ^ 63 /\
                x = stripe_x S m fs0)) ->
  Inv fs0 fs -> 0 <= off < x_size x -> zlen buf = 0 ->
  rs_trace (x_pio x isread fs buf off) = [] \/
  exists i p, 0 <= i < zlen fs0 /\ rs_trace (x_pio x isread fs buf off) = [ev_of isread (i, p, 0)].
Proof.
  intros [(u & Hu & (Hn & Hlen) & Hbig & Hxf)|[((Hn & Hpos) & Hbig & ->)|(S & m & HS0 & P & Hm & (Hn & Hlen) & Hbig & ->)]] HI Ho Hb.
  - pose proof (fixed_xf_x u fs0 x Hu Hn Hbig Hxf) as [->|(P2 & ->)]; cbn [x_size] in Ho.
    + apply (x_pio_trace_zero (fun i => i * u) (zlen fs0) fs0); fl_side u fs0.
    + apply (x_pio_trace_zero (fun i => i * u) (zlen fs0) fs0); fl_side u fs0.
  - cbn [var_x x_size] in Ho. set (kp := 0 :: key_points fs0 0).
    assert (BN : kp_nth kp (zlen fs0) = total fs0) by (apply vl_Bn; assumption).
    apply (x_pio_trace_zero (kp_nth kp) (zlen fs0) fs0); vl_side fs0 BN.
  - pose proof (stripe_pow2 S m fs0 HS0 P Hm Hn Hbig) as HS. cbn [stripe_x x_size] in Ho.
    apply (x_pio_trace_zero (fun i => i * S) (m * zlen fs0) fs0); st_side S m fs0.
Qed.
