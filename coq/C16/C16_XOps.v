(* C16_XOps.v — operations and operation sequences on a composite (XFile family + VirtualFile::piov_copy)
   refine a fixed-size plain file; instances for the fixed-size linear file and the stripe file. *)
From Coq Require Import ZArith List Bool Lia.
From PV Require Import Base.U64 C15.C15_Model C15.C15_Spec C15.C15_Proofs.
From PV Require Import C16.C16_Model C16.C16_Lists C16.C16_AlignedProofs2 C16.C16_Proofs C16.C16_XGeneric C16.C16_XProofs C16.C16_XInst.
Import ListNotations.
Local Open Scope Z_scope.

(* the same operation on ONE plain file of fixed size (requests are clipped at its end) *)
Definition ref_op_fixed (w : file) (o : op) : Z * list (list byte) * file :=
  match o with
  | OPread b off => let d := f_pread w (zlen (sg_data b)) off in (zlen d, [overwrite (sg_data b) 0 d], w)
  | OPwrite b off => (Z.min (zlen (sg_data b)) (zlen w - off), [sg_data b], ref_pwrite_fixed w (sg_data b) off)
  | OPreadv segs off => let d := f_pread w (C16_Model.sum_len segs) off in (zlen d, scatter (map sg_data segs) d, w)
  | OPwritev segs off => (Z.min (C16_Model.sum_len segs) (zlen w - off), map sg_data segs, ref_pwrite_fixed w (gather segs) off)
  | OFstat => (zlen w, [], w)
  | OFtruncate _ => (-1, [], w)
  end.
(* requests of the statement: start inside the composite, non-empty, below 2^63 *)
Definition op_ok_fixed (w : file) (o : op) : Prop :=
  match o with
  | OPread b off | OPwrite b off => 0 <= off < zlen w /\ 0 < zlen (sg_data b) < 2 ^ 63
  | OPreadv segs off | OPwritev segs off => 0 <= off < zlen w /\ 0 < C16_Model.sum_len segs < 2 ^ 63
  | OFstat => True
  | OFtruncate _ => True
  end.
Fixpoint ref_run_fixed (w : file) (ops : list op) : list (Z * list (list byte)) * file :=
  match ops with
  | [] => ([], w)
  | o :: rest => let '(res, w') := ref_op_fixed w o in
                 let '(rs, final) := ref_run_fixed w' rest in (res :: rs, final)
  end.
Fixpoint ops_ok_fixed (w : file) (ops : list op) : Prop :=
  match ops with
  | [] => True
  | o :: rest => op_ok_fixed w o /\ ops_ok_fixed (snd (ref_op_fixed w o)) rest
  end.

Lemma scatter_single b d : zlen d <= zlen b -> scatter [b] d = [overwrite b 0 d].
Proof.
  intros H. cbn [scatter]. f_equal. unfold overwrite, ztake, zdrop. cbn [Z.to_nat firstn app].
  rewrite firstn_all2 by (unfold zlen in H; lia). f_equal. f_equal. unfold zlen. lia.
Qed.

Section CompositeOps.
  Variables (x : xfile) (I : list file -> Prop) (C : list file -> file) (size : Z).
  Hypothesis Hsz : forall fs, I fs -> zlen (C fs) = size.
  Hypothesis Hxs : x_size x = size.
  Hypothesis Hrd : forall fs buf off, I fs -> 0 <= off < size -> 0 < zlen buf < 2 ^ 63 ->
    let r := x_pio x true fs buf off in
    let d := f_pread (C fs) (zlen buf) off in
    rs_ret r = zlen d /\ rs_bufs r = [overwrite buf 0 d] /\ rs_files r = fs.
  Hypothesis Hwr : forall fs buf off, I fs -> 0 <= off < size -> 0 < zlen buf < 2 ^ 63 ->
    let r := x_pio x false fs buf off in
    rs_ret r = Z.min (zlen buf) (size - off) /\ rs_bufs r = [buf] /\ I (rs_files r) /\
    C (rs_files r) = f_pwrite (C fs) (ztake (size - off) buf) off.

  Lemma x_run_op fs o : I fs -> op_ok_fixed (C fs) o ->
    let r := run_op (AdX x) fs o in
    observe r = fst (ref_op_fixed (C fs) o) /\ I (rs_files r) /\ C (rs_files r) = snd (ref_op_fixed (C fs) o).
  Proof.
    intros HI Hok. pose proof (Hsz fs HI) as SZ. cbv zeta. unfold observe, run_op.
    destruct o as [b off|b off|segs off|segs off| |len]; cbn [op_ok_fixed ref_op_fixed fst snd] in *.
    - destruct Hok as (Ho & Hb). rewrite SZ in Ho.
      destruct (Hrd fs (sg_data b) off HI Ho Hb) as (R1 & R2 & R3). rewrite R1, R2, R3. auto.
    - destruct Hok as (Ho & Hb). rewrite SZ in Ho.
      destruct (Hwr fs (sg_data b) off HI Ho Hb) as (R1 & R2 & R3 & R4). rewrite R1, R2, R4, SZ.
      unfold ref_pwrite_fixed. rewrite SZ. auto.
    - destruct Hok as (Ho & Hb). rewrite SZ in Ho. unfold x_piov.
      destruct segs as [|s [|s2 segs]].
      + cbn in Hb. lia.
      + assert (E : C16_Model.sum_len [s] = zlen (sg_data s)) by (cbn; lia). rewrite E in *.
        destruct (Hrd fs (sg_data s) off HI Ho Hb) as (R1 & R2 & R3). rewrite R1, R2, R3.
        cbn [map]. rewrite scatter_single; [auto|]. rewrite zlen_f_pread by lia. lia.
      + set (segs' := s :: s2 :: segs) in *. set (count := C16_Model.sum_len segs') in *.
        assert (LG : zlen (zrep GARBAGE count) = count) by (rewrite zlen_zrep; lia).
        destruct (Hrd fs (zrep GARBAGE count) off HI Ho ltac:(lia)) as (R1 & R2 & R3). rewrite LG in *.
        set (d := f_pread (C fs) count off) in *.
        assert (LD : 0 < zlen d <= count) by (unfold d; rewrite zlen_f_pread by lia; lia).
        rewrite R1. destruct (Z.leb_spec (zlen d) 0) as [Q|_]; [lia|].
        cbn [rs_ret rs_bufs rs_files]. rewrite R2, R3. cbn [hd]. rewrite ztake_overwrite0 by lia. auto.
    - destruct Hok as (Ho & Hb). rewrite SZ in Ho. unfold x_piov.
      destruct segs as [|s [|s2 segs]].
      + cbn in Hb. lia.
      + assert (E : C16_Model.sum_len [s] = zlen (sg_data s)) by (cbn; lia). rewrite E in *.
        assert (EG : gather [s] = sg_data s) by (unfold gather; cbn; apply app_nil_r). rewrite EG.
        destruct (Hwr fs (sg_data s) off HI Ho Hb) as (R1 & R2 & R3 & R4). rewrite R1, R2, R4, SZ.
        unfold ref_pwrite_fixed. rewrite SZ. auto.
      + set (segs' := s :: s2 :: segs) in *.
        pose proof (zlen_gather segs') as LG.
        destruct (Hwr fs (gather segs') off HI Ho ltac:(lia)) as (R1 & R2 & R3 & R4).
        cbn [rs_ret rs_bufs rs_files]. rewrite R1, R4, LG, SZ. unfold ref_pwrite_fixed. rewrite SZ. auto.
    - cbn [rs_ret rs_bufs rs_files]. rewrite Hxs, SZ. auto.
    - cbn [rs_ret rs_bufs rs_files]. auto.
  Qed.

  Lemma x_run_ops : forall ops fs, I fs -> ops_ok_fixed (C fs) ops ->
    map observe (fst (run_ops (AdX x) fs ops)) = fst (ref_run_fixed (C fs) ops) /\
    I (snd (run_ops (AdX x) fs ops)) /\ C (snd (run_ops (AdX x) fs ops)) = snd (ref_run_fixed (C fs) ops).
  Proof.
    induction ops as [|o rest IH]; intros fs HI Hok.
    - cbn. auto.
    - destruct Hok as (H1 & H2). destruct (x_run_op fs o HI H1) as (R1 & R2 & R3). cbv zeta in *.
      cbn [run_ops ref_run_fixed].
      destruct (ref_op_fixed (C fs) o) as [res w'] eqn:ER. cbn [fst snd] in *.
      rewrite <- R3 in H2. specialize (IH _ R2 H2). rewrite R3 in IH.
      destruct (run_ops (AdX x) (rs_files (run_op (AdX x) fs o)) rest) as [rs final].
      destruct (ref_run_fixed w' rest) as [rrs rfinal]. cbn [fst snd map] in *.
      destruct IH as (I1 & I2 & I3). rewrite R1, I1. auto.
  Qed.
End CompositeOps.

(* ---- instances ---- *)
Section FixedInst.
  Variables (u : Z) (fs0 : list file) (x : xfile).
  Hypothesis Hu : 0 < u.
  Hypothesis Hn : 0 < zlen fs0.
  Hypothesis Hlen : forall i, 0 <= i < zlen fs0 -> zlen (nth_file fs0 i) = u.
  Hypothesis Hbig : zlen fs0 * u < 2 ^ 63.
  Hypothesis Hx : fixed_x u fs0 x.

  Lemma fixed_content_len fs : Inv fs0 fs -> zlen (fixed_content u fs0 fs) = zlen fs0 * u.
  Proof.
    intros HI. unfold fixed_content.
    pose proof (whole_len (fun i => i * u) (getlen_fixed u) (fun i => i) (fun _ => 0) (zlen fs0) fs0) as W.
    apply W; try assumption; try lia; try reflexivity.
    - apply (fl_BS u fs0).
    - apply (fl_Lpos u fs0); assumption.
    - apply (fl_shape u fs0); assumption.
  Qed.

  Lemma linear_fixed_ops_l : forall ops fs, Inv fs0 fs -> ops_ok_fixed (fixed_content u fs0 fs) ops ->
    map observe (fst (run_ops (AdX x) fs ops)) = fst (ref_run_fixed (fixed_content u fs0 fs) ops) /\
    Inv fs0 (snd (run_ops (AdX x) fs ops)) /\
    fixed_content u fs0 (snd (run_ops (AdX x) fs ops)) = snd (ref_run_fixed (fixed_content u fs0 fs) ops).
  Proof.
    apply (x_run_ops x (Inv fs0) (fixed_content u fs0) (zlen fs0 * u)).
    - exact fixed_content_len.
    - destruct Hx as [->|(_ & ->)]; reflexivity.
    - intros fs buf off HI Ho Hb. apply (fixed_pio_read u fs0); assumption.
    - intros fs buf off HI Ho Hb. apply (fixed_pio_write u fs0); assumption.
  Qed.
End FixedInst.

Section StripeInst.
  Variables (S m : Z) (fs0 : list file).
  Hypothesis HS : is_pow2_64 S.
  Hypothesis Hm : 0 < m.
  Hypothesis Hn : 0 < zlen fs0.
  Hypothesis Hlen : forall i, 0 <= i < zlen fs0 -> zlen (nth_file fs0 i) = m * S.
  Hypothesis Hbig : m * zlen fs0 * S < 2 ^ 63.

  Lemma stripe_content_len fs : Inv fs0 fs -> zlen (stripe_content S m fs0 fs) = m * zlen fs0 * S.
  Proof.
    intros HI. unfold stripe_content.
    pose proof (whole_len (fun i => i * S) (getlen_fixed S) (fun b => b mod zlen fs0) (fun b => b / zlen fs0 * S) (m * zlen fs0) fs0) as W.
    apply W; try assumption; try lia; try reflexivity.
    - apply (st_BS S m fs0).
    - apply (st_Lpos S m fs0); assumption.
    - apply (st_shape S m fs0); assumption.
  Qed.

  Lemma stripe_ops_l : forall ops fs, Inv fs0 fs -> ops_ok_fixed (stripe_content S m fs0 fs) ops ->
    map observe (fst (run_ops (AdX (stripe_x S m fs0)) fs ops)) = fst (ref_run_fixed (stripe_content S m fs0 fs) ops) /\
    Inv fs0 (snd (run_ops (AdX (stripe_x S m fs0)) fs ops)) /\
    stripe_content S m fs0 (snd (run_ops (AdX (stripe_x S m fs0)) fs ops)) = snd (ref_run_fixed (stripe_content S m fs0 fs) ops).
  Proof.
    apply (x_run_ops (stripe_x S m fs0) (Inv fs0) (stripe_content S m fs0) (m * zlen fs0 * S)).
    - exact stripe_content_len.
    - unfold stripe_x. cbn [x_size]. lia.
    - intros fs buf off HI Ho Hb. apply (stripe_pio_read S m fs0); assumption.
    - intros fs buf off HI Ho Hb.
      apply (stripe_pio_write S m fs0); assumption.
  Qed.
End StripeInst.

(* ---- closed statements (used by C16_Properties.v) ---- *)
Definition equal_files (u : Z) (fs0 : list file) : Prop :=
  0 < zlen fs0 /\ forall i, 0 <= i < zlen fs0 -> zlen (nth_file fs0 i) = u.

Lemma linear_refines_l u fs0 x fs buf off :
  0 < u -> equal_files u fs0 -> zlen fs0 * u < 2 ^ 63 -> fixed_x u fs0 x ->
  Inv fs0 fs -> 0 <= off < zlen fs0 * u -> 0 < zlen buf < 2 ^ 63 ->
  let whole := fixed_content u fs0 fs in
  (let r := x_pio x true fs buf off in
   let d := f_pread whole (zlen buf) off in
   rs_ret r = zlen d /\ rs_bufs r = [overwrite buf 0 d] /\ rs_files r = fs) /\
  (let r := x_pio x false fs buf off in
   rs_ret r = Z.min (zlen buf) (zlen fs0 * u - off) /\ rs_bufs r = [buf] /\ Inv fs0 (rs_files r) /\
   fixed_content u fs0 (rs_files r) = f_pwrite whole (ztake (zlen fs0 * u - off) buf) off).
Proof.
  intros Hu (Hn & Hlen) Hbig Hx HI Ho Hb. split.
  - apply (fixed_pio_read u fs0); assumption.
  - apply (fixed_pio_write u fs0); assumption.
Qed.

Lemma stripe_refines_l S m fs0 fs buf off :
  is_pow2_64 S -> 0 < m -> equal_files (m * S) fs0 -> m * zlen fs0 * S < 2 ^ 63 ->
  Inv fs0 fs -> 0 <= off < m * zlen fs0 * S -> 0 < zlen buf < 2 ^ 63 ->
  let whole := stripe_content S m fs0 fs in
  (let r := x_pio (stripe_x S m fs0) true fs buf off in
   let d := f_pread whole (zlen buf) off in
   rs_ret r = zlen d /\ rs_bufs r = [overwrite buf 0 d] /\ rs_files r = fs) /\
  (let r := x_pio (stripe_x S m fs0) false fs buf off in
   rs_ret r = Z.min (zlen buf) (m * zlen fs0 * S - off) /\ rs_bufs r = [buf] /\ Inv fs0 (rs_files r) /\
   stripe_content S m fs0 (rs_files r) = f_pwrite whole (ztake (m * zlen fs0 * S - off) buf) off).
Proof.
  intros HS Hm (Hn & Hlen) Hbig HI Ho Hb. split.
  - apply (stripe_pio_read S m fs0); assumption.
  - apply (stripe_pio_write S m fs0); assumption.
Qed.

Lemma linear_ops_refine_l u fs0 x ops fs :
  0 < u -> equal_files u fs0 -> zlen fs0 * u < 2 ^ 63 -> fixed_x u fs0 x ->
  Inv fs0 fs -> ops_ok_fixed (fixed_content u fs0 fs) ops ->
  map observe (fst (run_ops (AdX x) fs ops)) = fst (ref_run_fixed (fixed_content u fs0 fs) ops) /\
  Inv fs0 (snd (run_ops (AdX x) fs ops)) /\
  fixed_content u fs0 (snd (run_ops (AdX x) fs ops)) = snd (ref_run_fixed (fixed_content u fs0 fs) ops).
Proof. intros Hu (Hn & Hlen) Hbig Hx HI Hok. apply (linear_fixed_ops_l u fs0 x); assumption. Qed.

Lemma stripe_ops_refine_l S m fs0 ops fs :
  is_pow2_64 S -> 0 < m -> equal_files (m * S) fs0 -> m * zlen fs0 * S < 2 ^ 63 ->
  Inv fs0 fs -> ops_ok_fixed (stripe_content S m fs0 fs) ops ->
  map observe (fst (run_ops (AdX (stripe_x S m fs0)) fs ops)) = fst (ref_run_fixed (stripe_content S m fs0 fs) ops) /\
  Inv fs0 (snd (run_ops (AdX (stripe_x S m fs0)) fs ops)) /\
  stripe_content S m fs0 (snd (run_ops (AdX (stripe_x S m fs0)) fs ops)) =
    snd (ref_run_fixed (stripe_content S m fs0 fs) ops).
Proof. intros HS Hm (Hn & Hlen) Hbig HI Hok. apply (stripe_ops_l S m fs0); assumption. Qed.

Lemma Inv_refl fs0 : Inv fs0 fs0.
Proof. split; reflexivity. Qed.

(* the factories produce exactly these adaptors *)
Lemma new_fixed_is u fs0 : 0 < u -> 0 < zlen fs0 -> zlen fs0 * u < 2 ^ 63 ->
  fst (new_fixed u fs0) = Some (mkX (if is_power_of_2 u then XFixedP2 u else XFixed u) (zlen fs0) (zlen fs0 * u)).
Proof.
  intros Hu Hn Hb. unfold new_fixed. destruct (Z.eqb_spec (zlen fs0) 0); [lia|]. destruct (Z.eqb_spec u 0); [lia|].
  cbn [orb fst]. assert (W : W64 = 2 * 2 ^ 63) by reflexivity. rewrite wrap_small by nia. reflexivity.
Qed.

(* hypotheses are satisfiable; a concrete composite computed through the theorems' vocabulary *)
Lemma composites_ex :
  let fs0 := [[1; 2; 3; 4]; [5; 6; 7; 8]; [9; 10; 11; 12]] in
  equal_files 4 fs0 /\ is_pow2_64 4 /\ fixed_x 4 fs0 (mkX (XFixedP2 4) 3 12) /\ fixed_x 4 fs0 (mkX (XFixed 4) 3 12) /\
  fixed_content 4 fs0 fs0 = [1; 2; 3; 4; 5; 6; 7; 8; 9; 10; 11; 12] /\
  stripe_content 2 2 fs0 fs0 = [1; 2; 5; 6; 9; 10; 3; 4; 7; 8; 11; 12] /\ equal_files (2 * 2) fs0 /\
  ops_ok_fixed (fixed_content 4 fs0 fs0) [OPwrite (mkSeg 0 [21; 22; 23]) 10; OPreadv [mkSeg 0 [0; 0]; mkSeg 0 [0; 0; 0]] 3; OFstat].
Proof.
  cbv zeta. assert (P4 : is_pow2_64 4) by (exists 2; split; [lia|reflexivity]).
  assert (E : forall u, u = 4 -> equal_files u [[1; 2; 3; 4]; [5; 6; 7; 8]; [9; 10; 11; 12]]).
  { intros u ->. split; [reflexivity|]. intros i Hi. change (zlen [[1; 2; 3; 4]; [5; 6; 7; 8]; [9; 10; 11; 12]]) with 3 in Hi.
    assert (i = 0 \/ i = 1 \/ i = 2) as [->|[->| ->]] by lia; reflexivity. }
  repeat split; try (apply E; reflexivity); try exact P4; try (left; reflexivity); try (right; split; [exact P4|reflexivity]);
    try reflexivity; cbn; lia.
Qed.
