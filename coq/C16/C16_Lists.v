(* C16_Lists.v — the list layer: byte-at-index view of the plain-file operations.
   [get l i] is the i-th byte, 0 outside the list: a hole of a file reads as zeros, so the
   zero-fill of f_pwrite / f_truncate needs no case of its own. *)
From Coq Require Import ZArith List Bool Lia.
From PV Require Import Base.U64 C15.C15_Model C16.C16_Model.
Import ListNotations.
Local Open Scope Z_scope.

Definition get (l : list byte) (i : Z) : byte := if i <? 0 then 0 else nth (Z.to_nat i) l 0.

Lemma zlen_nonneg {T} (l : list T) : 0 <= zlen l.
Proof. unfold zlen. lia. Qed.

Lemma zlen_app {T} (a b : list T) : zlen (a ++ b) = zlen a + zlen b.
Proof. unfold zlen. rewrite app_length. lia. Qed.

Lemma zlen_nil {T} : zlen (@nil T) = 0. Proof. reflexivity. Qed.
Lemma zlen_cons {T} (x : T) l : zlen (x :: l) = 1 + zlen l.
Proof. unfold zlen. cbn [length]. lia. Qed.

Lemma zlen_zrep {T} (x : T) n : zlen (zrep x n) = Z.max 0 n.
Proof. unfold zlen, zrep. rewrite repeat_length. lia. Qed.

Lemma zlen_ztake {T} n (l : list T) : zlen (ztake n l) = Z.max 0 (Z.min n (zlen l)).
Proof. unfold zlen, ztake. rewrite firstn_length. lia. Qed.

Lemma zlen_zdrop {T} n (l : list T) : zlen (zdrop n l) = Z.max 0 (zlen l - Z.max 0 n).
Proof. unfold zlen, zdrop. rewrite skipn_length. lia. Qed.

Lemma get_neg l i : i < 0 -> get l i = 0.
Proof. intros H. unfold get. destruct (Z.ltb_spec i 0); lia. Qed.

Lemma get_beyond l i : zlen l <= i -> get l i = 0.
Proof.
  intros H. unfold get. pose proof (zlen_nonneg l). destruct (Z.ltb_spec i 0); [lia|].
  apply nth_overflow. unfold zlen in H. lia.
Qed.

Lemma get_app_l a b i : i < zlen a -> get (a ++ b) i = get a i.
Proof.
  intros H. unfold get. destruct (Z.ltb_spec i 0); [reflexivity|].
  apply app_nth1. unfold zlen in H. lia.
Qed.

Lemma get_app_r a b i : zlen a <= i -> get (a ++ b) i = get b (i - zlen a).
Proof.
  intros H. unfold get. pose proof (zlen_nonneg a).
  destruct (Z.ltb_spec i 0); [lia|]. destruct (Z.ltb_spec (i - zlen a) 0); [lia|].
  rewrite app_nth2 by (unfold zlen in H; lia). f_equal. unfold zlen. lia.
Qed.

Lemma nth_repeat_in (x d : byte) : forall n k, (k < n)%nat -> nth k (repeat x n) d = x.
Proof. induction n as [|n IH]; intros [|k] H; cbn; try lia; try reflexivity. apply IH. lia. Qed.

Lemma get_zrep x n i : 0 <= i < n -> get (zrep x n) i = x.
Proof.
  intros H. unfold get, zrep. destruct (Z.ltb_spec i 0); [lia|].
  apply nth_repeat_in. lia.
Qed.

Lemma get_zrep0 n i : get (zrep 0 n) i = 0.
Proof.
  destruct (Z_lt_dec i 0) as [N|N]; [apply get_neg; exact N|].
  destruct (Z_lt_dec i n) as [M|M]; [apply get_zrep; lia|].
  apply get_beyond. rewrite zlen_zrep. lia.
Qed.

Lemma nth_firstn_lt (d : byte) : forall n (l : list byte) k, (k < n)%nat -> nth k (firstn n l) d = nth k l d.
Proof.
  induction n as [|n IH]; intros l k H; [lia|].
  destruct l as [|a l]; [reflexivity|]. destruct k as [|k]; [reflexivity|].
  cbn [firstn nth]. apply IH. lia.
Qed.

Lemma nth_skipn_add (d : byte) : forall n (l : list byte) k, nth k (skipn n l) d = nth (n + k) l d.
Proof.
  induction n as [|n IH]; intros l k; [reflexivity|].
  destruct l as [|a l]; [destruct k; reflexivity|]. cbn [skipn Nat.add nth]. apply IH.
Qed.

Lemma get_ztake n l i : i < n -> get (ztake n l) i = get l i.
Proof.
  intros H. destruct (Z_lt_dec i 0) as [N|N]; [rewrite !get_neg by lia; reflexivity|].
  unfold get, ztake. destruct (Z.ltb_spec i 0); [lia|].
  apply nth_firstn_lt. lia.
Qed.

Lemma get_ztake_out n l i : n <= i -> 0 <= i -> get (ztake n l) i = 0.
Proof. intros H H0. apply get_beyond. rewrite zlen_ztake. lia. Qed.

Lemma get_zdrop n l i : 0 <= n -> 0 <= i -> get (zdrop n l) i = get l (n + i).
Proof.
  intros Hn Hi. unfold get, zdrop.
  destruct (Z.ltb_spec i 0); [lia|]. destruct (Z.ltb_spec (n + i) 0); [lia|].
  rewrite nth_skipn_add. f_equal. lia.
Qed.

(* two lists are equal when they have the same length and the same bytes *)
Lemma list_ext : forall (l1 l2 : list byte),
  zlen l1 = zlen l2 -> (forall i, 0 <= i < zlen l1 -> get l1 i = get l2 i) -> l1 = l2.
Proof.
  induction l1 as [|a l1 IH]; intros [|b l2] HL HG; try reflexivity.
  { rewrite zlen_cons, zlen_nil in HL. pose proof (zlen_nonneg l2). lia. }
  { rewrite zlen_cons, zlen_nil in HL. pose proof (zlen_nonneg l1). lia. }
  rewrite !zlen_cons in HL. f_equal.
  - specialize (HG 0). rewrite zlen_cons in HG. pose proof (zlen_nonneg l1).
    specialize (HG ltac:(lia)). exact HG.
  - apply IH; [lia|]. intros i Hi. specialize (HG (i + 1)). rewrite zlen_cons in HG.
    specialize (HG ltac:(lia)). unfold get in *.
    destruct (Z.ltb_spec (i + 1) 0); [lia|]. destruct (Z.ltb_spec i 0); [lia|].
    replace (Z.to_nat (i + 1)) with (S (Z.to_nat i)) in HG by lia. exact HG.
Qed.

(* ---- overwrite ---- *)
Lemma zlen_overwrite l pos d : 0 <= pos -> pos + zlen d <= zlen l -> zlen (overwrite l pos d) = zlen l.
Proof.
  intros Hp H. unfold overwrite. rewrite !zlen_app, zlen_ztake, zlen_zdrop.
  pose proof (zlen_nonneg d). lia.
Qed.

Lemma get_overwrite_in l pos d i : 0 <= pos -> pos + zlen d <= zlen l ->
  pos <= i < pos + zlen d -> get (overwrite l pos d) i = get d (i - pos).
Proof.
  intros Hp H Hi. unfold overwrite. pose proof (zlen_nonneg d).
  rewrite get_app_r by (rewrite zlen_ztake; lia). rewrite zlen_ztake.
  replace (Z.max 0 (Z.min pos (zlen l))) with pos by lia.
  apply get_app_l. lia.
Qed.

Lemma get_overwrite_out l pos d i : 0 <= pos -> pos + zlen d <= zlen l ->
  i < pos \/ pos + zlen d <= i -> get (overwrite l pos d) i = get l i.
Proof.
  intros Hp H Hi. unfold overwrite. pose proof (zlen_nonneg d).
  destruct (Z_lt_dec i pos) as [A|A].
  - rewrite get_app_l by (rewrite zlen_ztake; lia). apply get_ztake. exact A.
  - rewrite get_app_r by (rewrite zlen_ztake; lia). rewrite zlen_ztake.
    replace (Z.max 0 (Z.min pos (zlen l))) with pos by lia.
    rewrite get_app_r by lia. rewrite get_zdrop by lia. f_equal. lia.
Qed.

(* ---- the plain file ---- *)
Lemma zlen_f_pread f count off : 0 <= off -> zlen (f_pread f count off) = Z.max 0 (Z.min count (zlen f - off)).
Proof. intros H. unfold f_pread. rewrite zlen_ztake, zlen_zdrop. lia. Qed.

Lemma get_f_pread f count off i : 0 <= off -> 0 <= i < count -> get (f_pread f count off) i = get f (off + i).
Proof. intros H Hi. unfold f_pread. rewrite get_ztake by lia. apply get_zdrop; lia. Qed.

Lemma zlen_f_pwrite f data off : 0 <= off -> data <> [] ->
  zlen (f_pwrite f data off) = Z.max (zlen f) (off + zlen data).
Proof.
  intros Ho Hd. unfold f_pwrite. destruct data as [|b data]; [congruence|].
  set (d := b :: data). pose proof (zlen_nonneg d). pose proof (zlen_nonneg f).
  rewrite !zlen_app, zlen_ztake, zlen_zdrop, zlen_app, zlen_zrep. lia.
Qed.

Lemma get_f_pwrite_in f data off i : 0 <= off -> off <= i < off + zlen data ->
  get (f_pwrite f data off) i = get data (i - off).
Proof.
  intros Ho Hi. unfold f_pwrite. destruct data as [|b data]; [rewrite zlen_nil in Hi; lia|].
  set (d := b :: data) in *. pose proof (zlen_nonneg f).
  rewrite get_app_r by (rewrite zlen_ztake, zlen_app, zlen_zrep; lia).
  rewrite zlen_ztake, zlen_app, zlen_zrep.
  replace (Z.max 0 (Z.min off (zlen f + Z.max 0 (off - zlen f)))) with off by lia.
  apply get_app_l. lia.
Qed.

Lemma get_f_pwrite_out f data off i : 0 <= off -> i < off \/ off + zlen data <= i ->
  get (f_pwrite f data off) i = get f i.
Proof.
  intros Ho Hi. unfold f_pwrite. destruct data as [|b data]; [reflexivity|].
  set (d := b :: data) in *. pose proof (zlen_nonneg f). pose proof (zlen_nonneg d).
  assert (G : forall j, get (f ++ zrep 0 (off - zlen f)) j = get f j).
  { intros j. destruct (Z_lt_dec j (zlen f)) as [A|A].
    - apply get_app_l. exact A.
    - rewrite get_app_r by lia. rewrite get_zrep0. symmetry. apply get_beyond. lia. }
  destruct (Z_lt_dec i 0) as [N|N]; [rewrite !get_neg by lia; reflexivity|].
  destruct (Z_lt_dec i off) as [A|A].
  - rewrite get_app_l by (rewrite zlen_ztake, zlen_app, zlen_zrep; lia).
    rewrite get_ztake by lia. apply G.
  - rewrite get_app_r by (rewrite zlen_ztake, zlen_app, zlen_zrep; lia).
    rewrite zlen_ztake, zlen_app, zlen_zrep.
    replace (Z.max 0 (Z.min off (zlen f + Z.max 0 (off - zlen f)))) with off by lia.
    rewrite get_app_r by lia. rewrite get_zdrop by lia.
    replace (off + zlen d + (i - off - zlen d)) with i by lia. apply G.
Qed.

Lemma zlen_f_truncate f len : 0 <= len -> zlen (f_truncate f len) = len.
Proof. intros H. unfold f_truncate. rewrite zlen_app, zlen_ztake, zlen_zrep. pose proof (zlen_nonneg f). lia. Qed.

Lemma get_f_truncate f len i : 0 <= len -> i < len -> get (f_truncate f len) i = get f i.
Proof.
  intros H Hi. unfold f_truncate. pose proof (zlen_nonneg f).
  destruct (Z_lt_dec i 0) as [N|N]; [rewrite !get_neg by lia; reflexivity|].
  destruct (Z_lt_dec i (zlen f)) as [A|A].
  - rewrite get_app_l by (rewrite zlen_ztake; lia). apply get_ztake. exact Hi.
  - rewrite get_app_r by (rewrite zlen_ztake; lia). rewrite get_zrep0. symmetry. apply get_beyond. lia.
Qed.

Lemma f_pwrite_nil f off : f_pwrite f [] off = f.
Proof. reflexivity. Qed.

Lemma zlen_0_nil {T} (l : list T) : zlen l = 0 -> l = [].
Proof. destruct l; [reflexivity|]. intros H. rewrite zlen_cons in H. pose proof (zlen_nonneg l). lia. Qed.

Lemma zlen_pos_nonnil {T} (l : list T) : 0 < zlen l -> l <> [].
Proof. intros H E. subst. unfold zlen in H. cbn in H. lia. Qed.
