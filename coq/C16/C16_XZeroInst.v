(* C16_XZeroInst.v — FixedSizeLinearFile (both splitters) and StripeFile for EVERY request length (zero included),
   with the logical content of the linear file stated as [concat files], and with the factories' own
   `is_power_of_2` test as the hypothesis of the power-of-two instances. *)
From Coq Require Import ZArith List Bool Lia.
From PV Require Import Base.U64 C15.C15_Model C15.C15_Spec C15.C15_ProofsGeneric C15.C15_Proofs.
From PV Require Import C16.C16_Model C16.C16_Lists C16.C16_AlignedProofs2 C16.C16_Proofs.
From PV Require Import C16.C16_XGeneric C16.C16_XProofs C16.C16_XInst C16.C16_XOps C16.C16_XPow2 C16.C16_XZero.
Import ListNotations.
Local Open Scope Z_scope.

(* ------------------------------------------------------------------ *)
Section FixedLinearZ.
  Variables (u : Z) (fs0 : list file).
  Hypothesis Hu : 0 < u.
  Hypothesis Hn : 0 < zlen fs0.
  Hypothesis Hlen : forall i, 0 <= i < zlen fs0 -> zlen (nth_file fs0 i) = u.
  Hypothesis Hbig : zlen fs0 * u < 2 ^ 63.

  Local Notation n := (zlen fs0).
  Local Notation B := (fun i : Z => i * u).
  Local Notation L := (getlen_fixed u).
  Local Notation fidx := (fun i : Z => i).
  Local Notation fbase := (fun _ : Z => 0).

  Lemma fl_parts0_fixed : forall off, 0 <= off < B n ->
    exists ps, xparts (mkX (XFixed u) n (n * u)) off 0 = Some ps /\
               (ps = [] \/ exists i p, ps = [(i, p, 0)] /\ 0 <= i < n).
  Proof.
    intros off Ho. cbv beta in Ho. assert (W : W64 = 2 * 2 ^ 63) by reflexivity.
    assert (U : u <= n * u) by (pose proof (Z.mul_le_mono_nonneg_r 1 (zlen fs0) u ltac:(lia) ltac:(lia)); lia).
    assert (G : fixed_guard off 0 u) by (unfold fixed_guard; lia).
    pose proof (parts0_generic _ _ _ _ _ _ (fixed_hyps _ _ _ G)) as P0. cbv zeta in P0.
    unfold xparts. cbn [x_kind]. rewrite P0.
    destruct (d_rem (divide_fixed u off) =? 0).
    - exists []. split; [reflexivity|]. left. reflexivity.
    - eexists. split; [reflexivity|]. right. cbn [map s_i s_off s_len]. eexists. eexists. split; [reflexivity|].
      cbn [divide_fixed d_down]. split; [apply Z.div_pos; lia|]. apply Z.div_lt_upper_bound; lia.
  Qed.

  Lemma fl_parts0_p2 : is_pow2_64 u -> forall off, 0 <= off < B n ->
    exists ps, xparts (mkX (XFixedP2 u) n (n * u)) off 0 = Some ps /\
               (ps = [] \/ exists i p, ps = [(i, p, 0)] /\ 0 <= i < n).
  Proof.
    intros P2 off Ho. destruct (fl_parts0_fixed off Ho) as (ps & HP & R).
    exists ps. split; [|exact R].
    unfold xparts in *. cbn [x_kind] in *. rewrite (init_p2_fixed _ _ _ P2). exact HP.
  Qed.

  Ltac side := first [ assumption | exact (fl_BS u fs0) | (apply (fl_Lpos u fs0); assumption) | (apply (fl_shape u fs0); assumption)
                     | exact (fl_inj u fs0) | reflexivity | lia | idtac ].

  Lemma fixed_pio_read_z x fs buf off : fixed_x u fs0 x -> Inv fs0 fs -> 0 <= off < n * u -> 0 <= zlen buf < 2 ^ 63 ->
    let r := x_pio x true fs buf off in
    let d := f_pread (fixed_content u fs0 fs) (zlen buf) off in
    rs_ret r = zlen d /\ rs_bufs r = [overwrite buf 0 d] /\ rs_files r = fs.
  Proof.
    intros [->|(P2 & ->)] HI Ho Hb.
    - apply (x_pio_read_z B L fidx fbase n fs0); side.
      + apply (fl_parts_fixed u fs0); assumption.
      + exact fl_parts0_fixed.
    - apply (x_pio_read_z B L fidx fbase n fs0); side.
      + apply (fl_parts_p2 u fs0); assumption.
      + exact (fl_parts0_p2 P2).
  Qed.

  Lemma fixed_pio_write_z x fs buf off : fixed_x u fs0 x -> Inv fs0 fs -> 0 <= off < n * u -> 0 <= zlen buf < 2 ^ 63 ->
    let r := x_pio x false fs buf off in
    rs_ret r = Z.min (zlen buf) (n * u - off) /\ rs_bufs r = [buf] /\ Inv fs0 (rs_files r) /\
    fixed_content u fs0 (rs_files r) = f_pwrite (fixed_content u fs0 fs) (ztake (n * u - off) buf) off.
  Proof.
    intros [->|(P2 & ->)] HI Ho Hb.
    - apply (x_pio_write_z B L fidx fbase n fs0); side.
      + apply (fl_parts_fixed u fs0); assumption.
      + exact fl_parts0_fixed.
    - apply (x_pio_write_z B L fidx fbase n fs0); side.
      + apply (fl_parts_p2 u fs0); assumption.
      + exact (fl_parts0_p2 P2).
  Qed.

  (* the logical content IS the concatenation of the sub-files *)
  Lemma fixed_content_concat_s fs : Inv fs0 fs -> fixed_content u fs0 fs = concat fs.
  Proof.
    intros (I1 & I2). unfold fixed_content. rewrite <- I1. apply whole_id_concat.
    intros j Hj. unfold getlen_fixed. rewrite I2. symmetry. apply Hlen. lia.
  Qed.
End FixedLinearZ.

(* ------------------------------------------------------------------ *)
Section StripeZ.
  Variables (S m : Z) (fs0 : list file).
  Hypothesis HS : is_pow2_64 S.
  Hypothesis Hm : 0 < m.
  Hypothesis Hn : 0 < zlen fs0.
  Hypothesis Hlen : forall i, 0 <= i < zlen fs0 -> zlen (nth_file fs0 i) = m * S.
  Hypothesis Hbig : m * zlen fs0 * S < 2 ^ 63.

  Local Notation n := (zlen fs0).
  Local Notation nb := (m * zlen fs0).
  Local Notation B := (fun i : Z => i * S).
  Local Notation L := (getlen_fixed S).
  Local Notation fidx := (fun b : Z => b mod zlen fs0).
  Local Notation fbase := (fun b : Z => b / zlen fs0 * S).

  Lemma st_parts0 : forall off, 0 <= off < B nb ->
    exists ps, xparts (mkX (XStripe S) n (m * S * n)) off 0 = Some ps /\
               (ps = [] \/ exists i p, ps = [(i, p, 0)] /\ 0 <= i < n).
  Proof.
    intros off Ho. cbv beta in Ho. assert (W : W64 = 2 * 2 ^ 63) by reflexivity.
    assert (SP : 0 < S) by (apply (st_Spos S m fs0); assumption).
    assert (U : S <= m * n * S) by (pose proof (Z.mul_le_mono_nonneg_r 1 (m * zlen fs0) S ltac:(lia) ltac:(nia)); lia).
    assert (G : fixed_guard off 0 S) by (unfold fixed_guard; lia).
    pose proof (parts0_generic _ _ _ _ _ _ (fixed_hyps _ _ _ G)) as P0. cbv zeta in P0.
    unfold xparts. cbn [x_kind x_n]. rewrite (init_p2_fixed _ _ _ HS). rewrite P0.
    destruct (d_rem (divide_fixed S off) =? 0).
    - exists []. split; [reflexivity|]. left. reflexivity.
    - eexists. split; [reflexivity|]. right. cbn [map s_i s_off s_len]. eexists. eexists. split; [reflexivity|].
      apply Z.mod_pos_bound. exact Hn.
  Qed.

  Ltac side := first [ assumption | exact (st_BS S m fs0) | (apply (st_Lpos S m fs0); assumption) | (apply (st_shape S m fs0); assumption)
                     | (apply (st_inj S m fs0); assumption) | reflexivity | lia | (unfold stripe_x; cbn [x_size]; lia) | nia | idtac ].

  Lemma stripe_pio_read_z fs buf off : Inv fs0 fs -> 0 <= off < m * n * S -> 0 <= zlen buf < 2 ^ 63 ->
    let r := x_pio (stripe_x S m fs0) true fs buf off in
    let d := f_pread (stripe_content S m fs0 fs) (zlen buf) off in
    rs_ret r = zlen d /\ rs_bufs r = [overwrite buf 0 d] /\ rs_files r = fs.
  Proof.
    intros HI Ho Hb. apply (x_pio_read_z B L fidx fbase nb fs0); side.
    - apply (st_parts S m fs0); assumption.
    - exact st_parts0.
  Qed.

  Lemma stripe_pio_write_z fs buf off : Inv fs0 fs -> 0 <= off < m * n * S -> 0 <= zlen buf < 2 ^ 63 ->
    let r := x_pio (stripe_x S m fs0) false fs buf off in
    rs_ret r = Z.min (zlen buf) (m * n * S - off) /\ rs_bufs r = [buf] /\ Inv fs0 (rs_files r) /\
    stripe_content S m fs0 (rs_files r) = f_pwrite (stripe_content S m fs0 fs) (ztake (m * n * S - off) buf) off.
  Proof.
    intros HI Ho Hb. apply (x_pio_write_z B L fidx fbase nb fs0); side.
    - apply (st_parts S m fs0); assumption.
    - exact st_parts0.
  Qed.
End StripeZ.

(* ------------------------------------------------------------------ *)
(* closed statements *)

(* the adaptor new_fixed_size_linear_file builds, judged by the factory's own test (or the general splitter for any u) *)
Definition fixed_xf (u : Z) (fs0 : list file) (x : xfile) : Prop :=
  x = mkX (XFixed u) (zlen fs0) (zlen fs0 * u) \/
  (is_power_of_2 u = true /\ x = mkX (XFixedP2 u) (zlen fs0) (zlen fs0 * u)).

Lemma fixed_xf_x u fs0 x : 0 < u -> 0 < zlen fs0 -> zlen fs0 * u < 2 ^ 63 -> fixed_xf u fs0 x -> fixed_x u fs0 x.
Proof.
  intros Hu Hn Hb [E|(P & E)]; [left; exact E|right]. split; [|exact E].
  apply is_power_of_2_pow2; [|exact P]. assert (W : W64 = 2 * 2 ^ 63) by reflexivity.
  pose proof (Z.mul_le_mono_nonneg_r 1 (zlen fs0) u ltac:(lia) ltac:(lia)). lia.
Qed.

Lemma new_fixed_xf u fs0 : 0 < u -> 0 < zlen fs0 -> zlen fs0 * u < 2 ^ 63 ->
  exists x, fst (new_fixed u fs0) = Some x /\ fixed_xf u fs0 x.
Proof.
  intros Hu Hn Hb. rewrite (new_fixed_is u fs0 Hu Hn Hb). eexists. split; [reflexivity|].
  unfold fixed_xf. destruct (is_power_of_2 u) eqn:E; [right; split; reflexivity|left; reflexivity].
Qed.

Lemma fixed_content_concat_l u fs0 fs : equal_files u fs0 -> Inv fs0 fs -> fixed_content u fs0 fs = concat fs.
Proof. intros (Hn & Hlen) HI. apply fixed_content_concat_s; assumption. Qed.

Lemma concat_len_fixed u fs0 fs : 0 < u -> equal_files u fs0 -> zlen fs0 * u < 2 ^ 63 -> Inv fs0 fs ->
  zlen (concat fs) = zlen fs0 * u.
Proof.
  intros Hu (Hn & Hlen) Hb HI. rewrite <- (fixed_content_concat_s u fs0 Hlen fs HI).
  apply fixed_content_len; assumption.
Qed.

Lemma linear_refines_z u fs0 x fs buf off :
  0 < u -> equal_files u fs0 -> zlen fs0 * u < 2 ^ 63 -> fixed_xf u fs0 x ->
  Inv fs0 fs -> 0 <= off < zlen fs0 * u -> zlen buf < 2 ^ 63 ->
  let whole := concat fs in
  (let r := x_pio x true fs buf off in
   let d := f_pread whole (zlen buf) off in
   rs_ret r = zlen d /\ rs_bufs r = [overwrite buf 0 d] /\ rs_files r = fs) /\
  (let r := x_pio x false fs buf off in
   rs_ret r = Z.min (zlen buf) (zlen fs0 * u - off) /\ rs_bufs r = [buf] /\ Inv fs0 (rs_files r) /\
   concat (rs_files r) = f_pwrite whole (ztake (zlen fs0 * u - off) buf) off).
Proof.
  intros Hu (Hn & Hlen) Hbig Hxf HI Ho Hb. pose proof (fixed_xf_x u fs0 x Hu Hn Hbig Hxf) as Hx.
  pose proof (zlen_nonneg buf) as Hb0. cbv zeta.
  rewrite <- (fixed_content_concat_s u fs0 Hlen fs HI). split.
  - apply (fixed_pio_read_z u fs0); try assumption. lia.
  - destruct (fixed_pio_write_z u fs0 Hu Hn Hlen Hbig x fs buf off Hx HI Ho ltac:(lia)) as (R1 & R2 & R3 & R4).
    cbv zeta in *. rewrite <- (fixed_content_concat_s u fs0 Hlen _ R3). auto.
Qed.

Lemma linear_ops_refine_z u fs0 x ops fs :
  0 < u -> equal_files u fs0 -> zlen fs0 * u < 2 ^ 63 -> fixed_xf u fs0 x ->
  Inv fs0 fs -> ops_ok_fixed_z (concat fs) ops ->
  map observe (fst (run_ops (AdX x) fs ops)) = fst (ref_run_fixed (concat fs) ops) /\
  Inv fs0 (snd (run_ops (AdX x) fs ops)) /\
  concat (snd (run_ops (AdX x) fs ops)) = snd (ref_run_fixed (concat fs) ops).
Proof.
  intros Hu HE Hbig Hxf HI Hok.
  apply (x_run_ops_z x (Inv fs0) (@concat byte) (zlen fs0 * u)); try assumption.
  - intros fs' HI'. apply (concat_len_fixed u fs0); assumption.
  - destruct Hxf as [->|(_ & ->)]; reflexivity.
  - intros fs' buf off HI' Ho Hb. apply (linear_refines_z u fs0 x fs' buf off); try assumption. lia.
  - intros fs' buf off HI' Ho Hb. apply (linear_refines_z u fs0 x fs' buf off); try assumption. lia.
Qed.

(* StripeFile: hypothesis = the factory's own test on the stripe size *)
Lemma stripe_pow2 S m (fs0 : list file) : 0 < S -> is_power_of_2 S = true -> 0 < m -> 0 < zlen fs0 -> m * zlen fs0 * S < 2 ^ 63 ->
  is_pow2_64 S.
Proof.
  intros HS P Hm Hn Hb. apply is_power_of_2_pow2; [|exact P]. assert (W : W64 = 2 * 2 ^ 63) by reflexivity.
  pose proof (Z.mul_le_mono_nonneg_r 1 (m * zlen fs0) S ltac:(lia) ltac:(nia)). lia.
Qed.

Lemma stripe_refines_z S m fs0 fs buf off :
  0 < S -> is_power_of_2 S = true -> 0 < m -> equal_files (m * S) fs0 -> m * zlen fs0 * S < 2 ^ 63 ->
  Inv fs0 fs -> 0 <= off < m * zlen fs0 * S -> zlen buf < 2 ^ 63 ->
  let whole := stripe_content S m fs0 fs in
  (let r := x_pio (stripe_x S m fs0) true fs buf off in
   let d := f_pread whole (zlen buf) off in
   rs_ret r = zlen d /\ rs_bufs r = [overwrite buf 0 d] /\ rs_files r = fs) /\
  (let r := x_pio (stripe_x S m fs0) false fs buf off in
   rs_ret r = Z.min (zlen buf) (m * zlen fs0 * S - off) /\ rs_bufs r = [buf] /\ Inv fs0 (rs_files r) /\
   stripe_content S m fs0 (rs_files r) = f_pwrite whole (ztake (m * zlen fs0 * S - off) buf) off).
Proof.
  intros HS0 P Hm (Hn & Hlen) Hbig HI Ho Hb. pose proof (stripe_pow2 S m fs0 HS0 P Hm Hn Hbig) as HS.
  pose proof (zlen_nonneg buf) as Hb0. split.
  - apply (stripe_pio_read_z S m fs0); try assumption. lia.
  - apply (stripe_pio_write_z S m fs0); try assumption. lia.
Qed.

Lemma stripe_ops_refine_z S m fs0 ops fs :
  0 < S -> is_power_of_2 S = true -> 0 < m -> equal_files (m * S) fs0 -> m * zlen fs0 * S < 2 ^ 63 ->
  Inv fs0 fs -> ops_ok_fixed_z (stripe_content S m fs0 fs) ops ->
  map observe (fst (run_ops (AdX (stripe_x S m fs0)) fs ops)) = fst (ref_run_fixed (stripe_content S m fs0 fs) ops) /\
  Inv fs0 (snd (run_ops (AdX (stripe_x S m fs0)) fs ops)) /\
  stripe_content S m fs0 (snd (run_ops (AdX (stripe_x S m fs0)) fs ops)) =
    snd (ref_run_fixed (stripe_content S m fs0 fs) ops).
Proof.
  intros HS0 P Hm HE Hbig HI Hok. pose proof HE as (Hn & Hlen).
  pose proof (stripe_pow2 S m fs0 HS0 P Hm Hn Hbig) as HS.
  apply (x_run_ops_z (stripe_x S m fs0) (Inv fs0) (stripe_content S m fs0) (m * zlen fs0 * S)); try assumption.
  - intros fs' HI'. apply stripe_content_len; assumption.
  - unfold stripe_x. cbn [x_size]. lia.
  - intros fs' buf off HI' Ho Hb. apply (stripe_refines_z S m fs0 fs' buf off); try assumption. lia.
  - intros fs' buf off HI' Ho Hb. apply (stripe_refines_z S m fs0 fs' buf off); try assumption. lia.
Qed.

(* the factory new_stripe_file builds exactly stripe_x *)
Lemma stripe_scan_ok S m : 0 < S -> 0 < m -> forall fs i ms tr,
  (ms = 0 \/ ms = m * S) -> Forall (fun f => zlen f = m * S) fs ->
  fst (stripe_scan S fs i ms tr) = Some (if fs then ms else m * S).
Proof.
  intros HS Hm. induction fs as [|f t IH]; intros i ms tr Hms HF; [reflexivity|].
  inversion HF as [|? ? Hf Ht]; subst. cbn [stripe_scan]. unfold f_size. rewrite Hf.
  destruct (Z.eqb_spec (m * S) 0) as [Q|_]; [nia|].
  rewrite Z_mod_mult. cbn [Z.eqb negb].
  destruct (Z.eqb_spec ms 0) as [Q|Q].
  - rewrite IH by (auto). destruct t; reflexivity.
  - destruct Hms as [Q'| ->]; [contradiction|]. rewrite Z.eqb_refl. cbn [negb].
    rewrite IH by auto. destruct t; reflexivity.
Qed.

Lemma new_stripe_is S m (fs0 : list file) : 0 < S -> is_power_of_2 S = true -> 0 < m -> 0 < zlen fs0 ->
  Forall (fun f => zlen f = m * S) fs0 -> m * zlen fs0 * S < 2 ^ 63 ->
  fst (new_stripe S fs0) = Some (stripe_x S m fs0).
Proof.
  intros HS P Hm Hn HF Hb. unfold new_stripe. destruct (Z.eqb_spec (zlen fs0) 0) as [Q|_]; [lia|].
  rewrite P. cbn [negb].
  pose proof (stripe_scan_ok S m HS Hm fs0 0 0 [] (or_introl eq_refl) HF) as SC.
  destruct (stripe_scan S fs0 0 0 []) as [[ms|] tr]; cbn [fst] in SC; [|discriminate].
  inversion SC as [E]. cbn [fst]. unfold stripe_x. f_equal. f_equal.
  destruct fs0; [cbn in Hn; lia|]. assert (W : W64 = 2 * 2 ^ 63) by reflexivity.
  apply wrap_small. nia.
Qed.
