(* C16_XInst.v — the concrete composites: FixedSizeLinearFile<range_split>,
   FixedSizeLinearFile<range_split_power2>, StripeFile as instances of C16_XProofs.Composite. *)
From Coq Require Import ZArith List Bool Lia.
From PV Require Import Base.U64 C15.C15_Model C15.C15_Spec C15.C15_ProofsGeneric C15.C15_Proofs.
From PV Require Import C16.C16_Model C16.C16_Lists C16.C16_XGeneric C16.C16_XProofs.
Import ListNotations.
Local Open Scope Z_scope.

Lemma fuel_ok B L divide lo hi off count : split_hyps B L divide lo hi off count ->
  let r := init divide L off count in
  (Z.to_nat (r_aend r - r_abegin r) <= S (Z.to_nat (wrap (r_aend r - r_abegin r))))%nat /\ 0 <= r_abegin r.
Proof.
  intros H r. unfold r. rewrite (init_abegin _ _ _ _ _ _ _ H), (init_aend _ _ _ _ _ _ _ H).
  destruct H as [Hoff Hlen Hend Hlo Hstep Hpos Hdb Hde Hbi Hei Hnw].
  split; [|lia].
  destruct (Z_lt_dec (d_up (divide (off + count)) - d_down (divide off)) 0) as [N|N].
  - rewrite (Z2Nat.inj_neg _ N) || (replace (Z.to_nat (d_up (divide (off + count)) - d_down (divide off))) with 0%nat by lia). lia.
  - rewrite wrap_small by lia. lia.
Qed.

Lemma tiles_parts B L : forall l start stop i, tiles B L start stop i l ->
  forall p, In p l -> i <= s_i p < i + zlen l /\ 0 <= s_off p /\ 0 < s_len p /\ s_off p + s_len p <= L (s_i p).
Proof.
  induction l as [|q l IH]; intros start stop i H p Hp; [destruct Hp|].
  cbn [tiles] in H. destruct H as (T1 & T2 & T3 & T4 & T5 & T6). rewrite zlen_cons. pose proof (zlen_nonneg l).
  destruct Hp as [->|Hp].
  - rewrite T1. repeat split; lia.
  - destruct (IH _ _ _ T6 p Hp) as (A & Bb & C & D). repeat split; lia.
Qed.

(* ------------------------------------------------------------------ *)
Section FixedLinear.
  Variables (u : Z) (fs0 : list file).
  Hypothesis Hu : 0 < u.
  Hypothesis Hn : 0 < zlen fs0.
  Hypothesis Hlen : forall i, 0 <= i < zlen fs0 -> zlen (nth_file fs0 i) = u.
  Hypothesis Hbig : zlen fs0 * u < 2 ^ 63.

  Local Notation n := (zlen fs0).
  Local Notation B := (fun i : Z => i * u).
  Local Notation L := (getlen_fixed u).
  Local Notation fidx := (fun i : Z => i).
  Local Notation fbase := (fun _ : Z => 0).

  Lemma fl_BS : forall i, 0 <= i < n -> B (i + 1) = B i + L i.
  Proof. intros i _. unfold getlen_fixed. lia. Qed.
  Lemma fl_Lpos : forall i, 0 <= i < n -> 0 < L i.
  Proof. intros i _. unfold getlen_fixed. exact Hu. Qed.
  Lemma fl_shape : forall i, 0 <= i < n -> 0 <= fidx i < n /\ 0 <= fbase i /\ fbase i + L i <= zlen (nth_file fs0 (fidx i)).
  Proof. intros i Hi. rewrite Hlen by exact Hi. unfold getlen_fixed. lia. Qed.
  Lemma fl_inj : forall i j, 0 <= i < n -> 0 <= j < n -> i <> j -> fidx i = fidx j ->
    fbase i + L i <= fbase j \/ fbase j + L j <= fbase i.
  Proof. intros i j _ _ N E. cbv beta in E. contradiction. Qed.

  Lemma fl_parts_fixed : forall off count, 0 <= off -> 0 < count -> off + count <= B n ->
    exists l i0, xparts (mkX (XFixed u) n (n * u)) off count = Some (map (conv fidx fbase) l) /\
                 tiles B L off (off + count) i0 l /\ 0 <= i0 /\ i0 + zlen l <= n.
  Proof.
    intros off count Ho Hc He. assert (W : W64 = 2 * 2 ^ 63) by reflexivity.
    cbv beta in He.
    assert (U : u <= n * u) by (pose proof (Z.mul_le_mono_nonneg_r 1 (zlen fs0) u ltac:(lia) ltac:(lia)); lia).
    assert (G : fixed_guard off count u) by (unfold fixed_guard; lia).
    pose proof (fixed_hyps _ _ _ G) as SH.
    destruct (fuel_ok _ _ _ _ _ _ _ SH) as (FU & AB0).
    destruct (parts_tile_fixed_l off count u G Hc _ FU) as (l & HA & NE & HT).
    exists l, (r_abegin (init (divide_fixed u) (getlen_fixed u) off count)).
    split; [|split; [exact HT|split; [exact AB0|]]].
    - unfold xparts. cbn [x_kind]. rewrite HA. f_equal.
    - pose proof (tiles_last_lt _ _ _ _ _ _ HT NE) as TL. cbv beta in TL. nia.
  Qed.

  Lemma fl_parts_p2 : is_pow2_64 u -> forall off count, 0 <= off -> 0 < count -> off + count <= B n ->
    exists l i0, xparts (mkX (XFixedP2 u) n (n * u)) off count = Some (map (conv fidx fbase) l) /\
                 tiles B L off (off + count) i0 l /\ 0 <= i0 /\ i0 + zlen l <= n.
  Proof.
    intros P2 off count Ho Hc He.
    destruct (fl_parts_fixed off count Ho Hc He) as (l & i0 & HP & R).
    exists l, i0. split; [|exact R].
    unfold xparts in *. cbn [x_kind] in *. rewrite (init_p2_fixed _ _ _ P2). exact HP.
  Qed.

  Definition fixed_x (x : xfile) : Prop :=
    x = mkX (XFixed u) n (n * u) \/ (is_pow2_64 u /\ x = mkX (XFixedP2 u) n (n * u)).
  Definition fixed_content (fs : list file) : file := whole L fidx fbase n fs.

  Ltac side := first [ assumption | exact fl_BS | exact fl_Lpos | exact fl_shape | exact fl_inj
                     | reflexivity | lia | idtac ].

  Lemma fixed_pio_read x fs buf off : fixed_x x -> Inv fs0 fs -> 0 <= off < n * u -> 0 < zlen buf < 2 ^ 63 ->
    let r := x_pio x true fs buf off in
    let d := f_pread (fixed_content fs) (zlen buf) off in
    rs_ret r = zlen d /\ rs_bufs r = [overwrite buf 0 d] /\ rs_files r = fs.
  Proof.
    intros [->|(P2 & ->)] HI Ho Hb.
    - apply (x_pio_read B L fidx fbase n fs0); side. exact fl_parts_fixed.
    - apply (x_pio_read B L fidx fbase n fs0); side. exact (fl_parts_p2 P2).
  Qed.

  Lemma fixed_pio_write x fs buf off : fixed_x x -> Inv fs0 fs -> 0 <= off < n * u -> 0 < zlen buf < 2 ^ 63 ->
    let r := x_pio x false fs buf off in
    rs_ret r = Z.min (zlen buf) (n * u - off) /\ rs_bufs r = [buf] /\ Inv fs0 (rs_files r) /\
    fixed_content (rs_files r) = f_pwrite (fixed_content fs) (ztake (n * u - off) buf) off.
  Proof.
    intros [->|(P2 & ->)] HI Ho Hb.
    - apply (x_pio_write B L fidx fbase n fs0); side. exact fl_parts_fixed.
    - apply (x_pio_write B L fidx fbase n fs0); side. exact (fl_parts_p2 P2).
  Qed.
End FixedLinear.

(* ------------------------------------------------------------------ *)
Section Stripe.
  Variables (S m : Z) (fs0 : list file).
  Hypothesis HS : is_pow2_64 S.
  Hypothesis Hm : 0 < m.
  Hypothesis Hn : 0 < zlen fs0.
  Hypothesis Hlen : forall i, 0 <= i < zlen fs0 -> zlen (nth_file fs0 i) = m * S.
  Hypothesis Hbig : m * zlen fs0 * S < 2 ^ 63.

  Local Notation n := (zlen fs0).
  Local Notation nb := (m * zlen fs0).
  Local Notation B := (fun i : Z => i * S).
  Local Notation L := (getlen_fixed S).
  Local Notation fidx := (fun b : Z => b mod zlen fs0).
  Local Notation fbase := (fun b : Z => b / zlen fs0 * S).

  Lemma st_Spos : 0 < S.
  Proof. destruct HS as (k & Hk & ->). apply pow2_lt_W64. exact Hk. Qed.

  Lemma st_BS : forall i, 0 <= i < nb -> B (i + 1) = B i + L i.
  Proof. intros i _. unfold getlen_fixed. lia. Qed.
  Lemma st_Lpos : forall i, 0 <= i < nb -> 0 < L i.
  Proof. intros i _. unfold getlen_fixed. exact st_Spos. Qed.
  Lemma st_div i : 0 <= i < nb -> 0 <= i / n < m.
  Proof.
    intros Hi. split; [apply Z.div_pos; lia|]. apply Z.div_lt_upper_bound; [lia|]. lia.
  Qed.
  Lemma st_shape : forall i, 0 <= i < nb -> 0 <= fidx i < n /\ 0 <= fbase i /\ fbase i + L i <= zlen (nth_file fs0 (fidx i)).
  Proof.
    intros i Hi. pose proof (Z.mod_pos_bound i n Hn) as MB. pose proof (st_div i Hi) as D. pose proof st_Spos.
    cbv beta. rewrite Hlen by exact MB. unfold getlen_fixed. split; [exact MB|]. nia.
  Qed.
  Lemma st_inj : forall i j, 0 <= i < nb -> 0 <= j < nb -> i <> j -> fidx i = fidx j ->
    fbase i + L i <= fbase j \/ fbase j + L j <= fbase i.
  Proof.
    intros i j Hi Hj N E. cbv beta in *. unfold getlen_fixed. pose proof st_Spos.
    pose proof (Z.div_mod i n ltac:(lia)). pose proof (Z.div_mod j n ltac:(lia)).
    assert (i / n <> j / n) by (intros Q; rewrite Q, E in *; lia).
    destruct (Z_lt_dec (i / n) (j / n)); [left|right]; nia.
  Qed.

  Lemma st_parts : forall off count, 0 <= off -> 0 < count -> off + count <= B nb ->
    exists l i0, xparts (mkX (XStripe S) n (m * S * n)) off count = Some (map (conv fidx fbase) l) /\
                 tiles B L off (off + count) i0 l /\ 0 <= i0 /\ i0 + zlen l <= nb.
  Proof.
    intros off count Ho Hc He. cbv beta in He. assert (W : W64 = 2 * 2 ^ 63) by reflexivity. pose proof st_Spos as SP.
    assert (U : S <= m * n * S) by (pose proof (Z.mul_le_mono_nonneg_r 1 (m * zlen fs0) S ltac:(lia) ltac:(nia)); lia).
    assert (G : fixed_guard off count S) by (unfold fixed_guard; lia).
    pose proof (fixed_hyps _ _ _ G) as SH.
    destruct (fuel_ok _ _ _ _ _ _ _ SH) as (FU & AB0).
    destruct (parts_tile_fixed_l off count S G Hc _ FU) as (l & HA & NE & HT).
    exists l, (r_abegin (init (divide_fixed S) (getlen_fixed S) off count)).
    pose proof (tiles_last_lt _ _ _ _ _ _ HT NE) as TL. cbv beta in TL.
    assert (IL : r_abegin (init (divide_fixed S) (getlen_fixed S) off count) + zlen l <= nb) by nia.
    split; [|split; [exact HT|split; [exact AB0|exact IL]]].
    unfold xparts. cbn [x_kind x_n]. rewrite (init_p2_fixed _ _ _ HS). rewrite HA. f_equal.
    apply map_ext_in. intros p Hp.
    destruct (tiles_parts _ _ _ _ _ _ HT p Hp) as (P1 & P2 & P3 & P4). unfold getlen_fixed in P4.
    unfold conv. f_equal. f_equal.
    assert (D : 0 <= s_i p / n < m) by (apply st_div; lia).
    destruct HS as (k & Hk & ES). rewrite ES at 1. rewrite mult_p2_fixed by exact Hk. rewrite <- ES.
    unfold mult_fixed. rewrite (wrap_small (s_i p / n * S)) by nia. apply wrap_small. nia.
  Qed.

  Definition stripe_x : xfile := mkX (XStripe S) n (m * S * n).
  Definition stripe_content (fs : list file) : file := whole L fidx fbase nb fs.

  Ltac side := first [ assumption | exact st_BS | exact st_Lpos | exact st_shape | exact st_inj
                     | reflexivity | lia | (unfold stripe_x; cbn [x_size]; lia) | nia | idtac ].

  Lemma stripe_pio_read fs buf off : Inv fs0 fs -> 0 <= off < m * n * S -> 0 < zlen buf < 2 ^ 63 ->
    let r := x_pio stripe_x true fs buf off in
    let d := f_pread (stripe_content fs) (zlen buf) off in
    rs_ret r = zlen d /\ rs_bufs r = [overwrite buf 0 d] /\ rs_files r = fs.
  Proof.
    intros HI Ho Hb. apply (x_pio_read B L fidx fbase nb fs0); side. exact st_parts.
  Qed.

  Lemma stripe_pio_write fs buf off : Inv fs0 fs -> 0 <= off < m * n * S -> 0 < zlen buf < 2 ^ 63 ->
    let r := x_pio stripe_x false fs buf off in
    rs_ret r = Z.min (zlen buf) (m * n * S - off) /\ rs_bufs r = [buf] /\ Inv fs0 (rs_files r) /\
    stripe_content (rs_files r) = f_pwrite (stripe_content fs) (ztake (m * n * S - off) buf) off.
  Proof.
    intros HI Ho Hb. apply (x_pio_write B L fidx fbase nb fs0); side. exact st_parts.
  Qed.
End Stripe.
