(* C16_Proofs.v — operation-level and sequence-level refinement of the aligned adaptor. *)
From Coq Require Import ZArith List Bool Lia.
From PV Require Import Base.U64 C15.C15_Model C16.C16_Model C16.C16_Lists C16.C16_AlignedProofs C16.C16_AlignedProofs2.
Import ListNotations.
Local Open Scope Z_scope.

(* the same operation on ONE plain file: (return value, caller's buffers afterwards, file afterwards) *)
Definition ref_op (f : file) (o : op) : Z * list (list byte) * file :=
  match o with
  | OPread b off => let d := f_pread f (zlen (sg_data b)) off in (zlen d, [overwrite (sg_data b) 0 d], f)
  | OPwrite b off => (zlen (sg_data b), [sg_data b], f_pwrite f (sg_data b) off)
  | OPreadv segs off => let d := f_pread f (sum_len segs) off in (zlen d, scatter (map sg_data segs) d, f)
  | OPwritev segs off => (sum_len segs, map sg_data segs, f_pwrite f (gather segs) off)
  | OFstat => (zlen f, [], f)
  | OFtruncate len => (0, [], f_truncate f len)
  end.

(* the requests the statement is about: reads start at or before EOF; 64-bit guard *)
Definition op_ok (k : Z) (f : file) (o : op) : Prop :=
  match o with
  | OPread b off => aligned_guard k off (zlen (sg_data b)) /\ off <= zlen f
  | OPwrite b off => aligned_guard k off (zlen (sg_data b))
  | OPreadv segs off => aligned_guard k off (sum_len segs) /\ off <= zlen f
  | OPwritev segs off => aligned_guard k off (sum_len segs)
  | OFstat => True
  | OFtruncate len => True
  end.

Definition observe (r : opres) : Z * list (list byte) := (rs_ret r, rs_bufs r).
Definition trace_aligned (k : Z) (am : bool) (r : opres) : Prop := Forall (ev_aligned (2 ^ k) am) (rs_trace r).

Lemma run_op_refines k am f o : alloc_fails (2 ^ k) am = false -> op_ok k f o ->
  let r := run_op (AdAligned (2 ^ k) am) [f] o in
  observe r = fst (ref_op f o) /\ rs_files r = [snd (ref_op f o)] /\ trace_aligned k am r.
Proof.
  intros Hal Hok. cbv zeta. unfold observe, trace_aligned, run_op, file0. cbn [hd].
  destruct o as [b off|b off|segs off|segs off| |len]; cbn [op_ok ref_op fst snd] in *.
  - destruct Hok as (G & He). destruct (al_pread_refines k am f b off G Hal He) as (R1 & R2 & R3 & R4).
    rewrite R1, R2, R3. auto.
  - destruct (al_pwrite_refines k am f b off Hok Hal) as (R1 & R2 & R3 & R4).
    rewrite R1, R2, R3. auto.
  - destruct Hok as (G & He). destruct (al_preadv_refines k am f segs off G Hal He) as (R1 & R2 & R3 & R4).
    rewrite R1, R2, R3. auto.
  - destruct (al_pwritev_refines k am f segs off Hok Hal) as (R1 & R2 & R3 & R4).
    rewrite R1, R2, R3. auto.
  - cbn [rs_ret rs_bufs rs_files rs_trace]. repeat split. apply Forall_meta. reflexivity.
  - cbn [rs_ret rs_bufs rs_files rs_trace]. repeat split. apply Forall_meta. reflexivity.
Qed.

(* every request of every operation is aligned, whatever the offset *)
Definition op_guard (k : Z) (o : op) : Prop :=
  match o with
  | OPread b off | OPwrite b off => aligned_guard k off (zlen (sg_data b))
  | OPreadv segs off | OPwritev segs off => aligned_guard k off (sum_len segs)
  | _ => True
  end.

Lemma run_op_calls_aligned k am f o : op_guard k o ->
  trace_aligned k am (run_op (AdAligned (2 ^ k) am) [f] o).
Proof.
  intros G. unfold trace_aligned, run_op, file0. cbn [hd].
  destruct o as [b off|b off|segs off|segs off| |len]; cbn [op_guard] in G.
  - apply al_pread_calls_aligned; exact G.
  - apply al_pwrite_calls_aligned; exact G.
  - apply al_preadv_calls_aligned; exact G.
  - apply al_pwritev_calls_aligned; exact G.
  - apply Forall_meta. reflexivity.
  - apply Forall_meta. reflexivity.
Qed.

(* sequences *)
Fixpoint ref_run (f : file) (ops : list op) : list (Z * list (list byte)) * file :=
  match ops with
  | [] => ([], f)
  | o :: rest => let '(res, f') := ref_op f o in
                 let '(rs, final) := ref_run f' rest in (res :: rs, final)
  end.
Fixpoint ops_ok (k : Z) (f : file) (ops : list op) : Prop :=
  match ops with
  | [] => True
  | o :: rest => op_ok k f o /\ ops_ok k (snd (ref_op f o)) rest
  end.

Lemma ops_refine_plain_l k am : alloc_fails (2 ^ k) am = false -> forall ops f, ops_ok k f ops ->
  map observe (fst (run_ops (AdAligned (2 ^ k) am) [f] ops)) = fst (ref_run f ops) /\
  snd (run_ops (AdAligned (2 ^ k) am) [f] ops) = [snd (ref_run f ops)] /\
  Forall (trace_aligned k am) (fst (run_ops (AdAligned (2 ^ k) am) [f] ops)).
Proof.
  intros Hal. induction ops as [|o rest IH]; intros f Hok.
  - cbn. repeat split. constructor.
  - destruct Hok as (H1 & H2).
    destruct (run_op_refines k am f o Hal H1) as (R1 & R2 & R3).
    cbn [run_ops ref_run]. rewrite R2.
    destruct (ref_op f o) as [res f'] eqn:ER. cbn [fst snd] in *.
    specialize (IH f' H2).
    destruct (run_ops (AdAligned (2 ^ k) am) [f'] rest) as [rs final].
    destruct (ref_run f' rest) as [rrs rfinal]. cbn [fst snd] in *.
    destruct IH as (I1 & I2 & I3). cbn [map]. rewrite R1, I1, I2. repeat split.
    constructor; assumption.
Qed.

(* hypotheses are satisfiable *)
Lemma ops_ok_ex :
  alloc_fails (2 ^ 3) true = false /\
  ops_ok 3 [1; 2; 3; 4; 5; 6; 7; 8; 9; 10]
    [OPwrite (mkSeg 4 [21; 22; 23]) 6; OPreadv [mkSeg 0 [0; 0]; mkSeg 1 [0; 0; 0]] 5; OFstat;
     OPwrite (mkSeg 0 [31; 32]) 13; OPread (mkSeg 0 [0; 0; 0; 0]) 15].
Proof.
  split; [reflexivity|]. cbn -[Z.pow]. unfold aligned_guard. cbn. repeat split; try lia; try discriminate.
Qed.

(* the bounce buffer can always be allocated (since the repair of finding F30) *)
Lemma alloc_ok A am : alloc_fails A am = false.
Proof.
  unfold alloc_fails, alloc_alignment. destruct am; [|reflexivity]. cbn [andb].
  destruct (Z.ltb_spec A 8); apply Z.ltb_ge; lia.
Qed.

Lemma al_pread_refines_l k am f b off :
  aligned_guard k off (zlen (sg_data b)) -> off <= zlen f ->
  let res := al_pread (2 ^ k) am f b off in
  let d := f_pread f (zlen (sg_data b)) off in
  rs_ret res = zlen d /\ rs_bufs res = [overwrite (sg_data b) 0 d] /\
  rs_files res = [f] /\ Forall (ev_aligned (2 ^ k) am) (rs_trace res).
Proof. intros G H. exact (al_pread_refines k am f b off G (alloc_ok _ _) H). Qed.
Lemma al_pwrite_refines_l k am f b off :
  aligned_guard k off (zlen (sg_data b)) ->
  let res := al_pwrite (2 ^ k) am f b off in
  rs_ret res = zlen (sg_data b) /\ rs_bufs res = [sg_data b] /\
  rs_files res = [f_pwrite f (sg_data b) off] /\ Forall (ev_aligned (2 ^ k) am) (rs_trace res).
Proof. intros G. exact (al_pwrite_refines k am f b off G (alloc_ok _ _)). Qed.
Lemma al_preadv_refines_l k am f segs off :
  aligned_guard k off (sum_len segs) -> off <= zlen f ->
  let res := al_preadv (2 ^ k) am f segs off in
  let d := f_pread f (sum_len segs) off in
  rs_ret res = zlen d /\ rs_bufs res = scatter (map sg_data segs) d /\
  rs_files res = [f] /\ Forall (ev_aligned (2 ^ k) am) (rs_trace res).
Proof. intros G H. exact (al_preadv_refines k am f segs off G (alloc_ok _ _) H). Qed.
Lemma al_pwritev_refines_l k am f segs off :
  aligned_guard k off (sum_len segs) ->
  let res := al_pwritev (2 ^ k) am f segs off in
  rs_ret res = sum_len segs /\ rs_bufs res = map sg_data segs /\
  rs_files res = [f_pwrite f (gather segs) off] /\ Forall (ev_aligned (2 ^ k) am) (rs_trace res).
Proof. intros G. exact (al_pwritev_refines k am f segs off G (alloc_ok _ _)). Qed.
Lemma ops_refine_plain_l2 k am ops f : ops_ok k f ops ->
  map observe (fst (run_ops (AdAligned (2 ^ k) am) [f] ops)) = fst (ref_run f ops) /\
  snd (run_ops (AdAligned (2 ^ k) am) [f] ops) = [snd (ref_run f ops)] /\
  Forall (trace_aligned k am) (fst (run_ops (AdAligned (2 ^ k) am) [f] ops)).
Proof. exact (ops_refine_plain_l k am (alloc_ok _ _) ops f). Qed.

Lemma guard_ex : aligned_guard 9 1000 5000 /\ aligned_guard 2 1 2 /\ aligned_guard 0 0 1.
Proof. unfold aligned_guard. repeat split; cbn; lia. Qed.

(* ---- the user-level statement about the linear composites (fs/xfile.cpp), at factory level.  It is PROVED:
   C16_XFinal.linear_refines_full (= theorem linear_refines_factories of C16_Properties.v), from the generic
   composite layer (C16_XGeneric / C16_XProofs / C16_XZero) and its instances C16_XInst / C16_XZeroInst
   (FixedSizeLinearFile, both splitters) and C16_XVar (VariableSizeLinearFile).  The definition stays here
   because this file precedes those in the dependency order.  Logical content of a linear composite: *)
Definition linear_content (files : list file) : file := concat files.
(* FixedSizeLinearFile / VariableSizeLinearFile over sub-files that exactly fill their slots behave like
   the plain file [concat files] of fixed size (requests starting inside it, clipped at its end) *)
Definition linear_refines_stmt : Prop :=
  forall (x : xfile) (files : list file) (buf : list byte) (off : Z),
    (exists u, 0 < u /\ fst (new_fixed u files) = Some x /\ Forall (fun f => zlen f = u) files) \/
    (fst (new_linear files) = Some x /\ Forall (fun f => 0 < zlen f) files) ->
    zlen (linear_content files) + zlen buf < 2 ^ 63 -> 0 <= off < zlen (linear_content files) ->
    let whole := linear_content files in
    (let r := x_pio x true files buf off in
     rs_ret r = zlen (f_pread whole (zlen buf) off) /\
     rs_bufs r = [overwrite buf 0 (f_pread whole (zlen buf) off)] /\ rs_files r = files) /\
    (let r := x_pio x false files buf off in
     rs_ret r = Z.min (zlen buf) (zlen whole - off) /\
     linear_content (rs_files r) = ref_pwrite_fixed whole buf off /\
     map (@zlen byte) (rs_files r) = map (@zlen byte) files).
