From Coq Require Import ZArith List.
From PV Require Import Base.U64 C15.C15_Model C16.C16_Model.
Lemma placeholder : True. Proof. exact I. Qed.
