(* C16_XFinal.v — the statement [C16_Proofs.linear_refines_stmt] (kept there as a Definition while it was open) is a
   theorem: whatever new_fixed_size_linear_file / new_linear_file return over sub-files that exactly fill their slots
   behaves like the ONE plain file [concat files] of fixed size, for every buffer length (zero included). *)
From Coq Require Import ZArith List Bool Lia.
From PV Require Import Base.U64 C15.C15_Model C15.C15_Spec.
From PV Require Import C16.C16_Model C16.C16_Lists C16.C16_Proofs.
From PV Require Import C16.C16_XGeneric C16.C16_XProofs C16.C16_XInst C16.C16_XOps C16.C16_XPow2 C16.C16_XZero
                       C16.C16_XZeroInst C16.C16_XVar.
Import ListNotations.
Local Open Scope Z_scope.

Lemma Forall_nth_file (P : file -> Prop) fs : Forall P fs -> forall i, 0 <= i < zlen fs -> P (nth_file fs i).
Proof.
  intros HF i Hi. destruct (nth_error fs (Z.to_nat i)) as [f|] eqn:E; [|apply nth_error_None in E; unfold zlen in Hi; lia].
  pose proof (nth_file_nat fs _ f E) as NF. rewrite Z2Nat.id in NF by lia. rewrite NF.
  rewrite Forall_forall in HF. apply HF. eapply nth_error_In. exact E.
Qed.

Lemma total_equal u fs : Forall (fun f : file => zlen f = u) fs -> total fs = zlen fs * u.
Proof.
  induction fs as [|f t IH]; intros HF; [reflexivity|].
  inversion HF as [|? ? Hf Ht]; subst. rewrite total_cons, zlen_cons, (IH Ht). lia.
Qed.

Lemma linear_refines_full : linear_refines_stmt.
Proof.
  unfold linear_refines_stmt, linear_content. intros x files buf off Hx Hbig Ho. fold (total files) in *.
  pose proof (zlen_nonneg buf) as Hb0.
  assert (Hn : 0 < zlen files).
  { destruct files; [unfold total in Ho; cbn in Ho; lia|]. rewrite zlen_cons. pose proof (zlen_nonneg files). lia. }
  cbv zeta. unfold ref_pwrite_fixed. fold (total files).
  destruct Hx as [(u & Hu & HX & HF)|(HX & HF)].
  - pose proof (total_equal u files HF) as TE.
    assert (HE : equal_files u files) by (split; [exact Hn|]; intros i Hi; exact (Forall_nth_file _ files HF i Hi)).
    destruct (new_fixed_xf u files Hu Hn ltac:(lia)) as (x' & HX' & Hxf). rewrite HX in HX'. inversion HX'; subst x'.
    destruct (linear_refines_z u files x files buf off Hu HE ltac:(lia) Hxf (Inv_refl files) ltac:(lia) ltac:(lia))
      as (RD & WR). cbv zeta in RD, WR. rewrite TE. split; [exact RD|].
    destruct WR as (W1 & W2 & W3 & W4). split; [exact W1|]. split; [exact W4|]. apply Inv_sizes. exact W3.
  - assert (HP : pos_files files) by (split; assumption).
    rewrite (new_linear_var_x files HP ltac:(lia)) in HX. inversion HX; subst x.
    destruct (linear_vi_refines_l files files buf off HP ltac:(lia) (Inv_refl files) Ho ltac:(lia)) as (RD & WR).
    cbv zeta in RD, WR. split; [exact RD|].
    destruct WR as (W1 & W2 & W3 & W4). split; [exact W1|]. split; [exact W4|]. apply Inv_sizes. exact W3.
Qed.

Lemma linear_refines_full_ex :
  (exists x, fst (new_fixed 4 [[1; 2; 3; 4]; [5; 6; 7; 8]]) = Some x) /\
  (exists x, fst (new_linear [[1; 2; 3]; [4]; [5; 6; 7; 8; 9]]) = Some x) /\
  Forall (fun f : file => zlen f = 4) [[1; 2; 3; 4]; [5; 6; 7; 8]] /\
  Forall (fun f : file => 0 < zlen f) [[1; 2; 3]; [4]; [5; 6; 7; 8; 9]].
Proof.
  split; [eexists; reflexivity|]. split; [eexists; reflexivity|]. split; repeat constructor.
Qed.

(* hypotheses of the composite theorems are satisfiable (zero-length buffers, empty iovecs included) *)
Lemma composites_ex_z :
  let fs0 := [[1; 2; 3; 4]; [5; 6; 7; 8]; [9; 10; 11; 12]] in
  equal_files 4 fs0 /\ fixed_xf 4 fs0 (mkX (XFixedP2 4) 3 12) /\ fixed_xf 4 fs0 (mkX (XFixed 4) 3 12) /\
  fst (new_fixed 4 fs0) = Some (mkX (XFixedP2 4) 3 12) /\
  is_power_of_2 2 = true /\ equal_files (2 * 2) fs0 /\
  stripe_content 2 2 fs0 fs0 = [1; 2; 5; 6; 9; 10; 3; 4; 7; 8; 11; 12] /\
  fst (new_stripe 2 fs0) = Some (stripe_x 2 2 fs0) /\
  ops_ok_fixed_z (concat fs0) [OPwrite (mkSeg 0 [21; 22; 23]) 10; OPread (mkSeg 0 []) 11;
                               OPreadv [mkSeg 0 [0; 0]; mkSeg 0 []; mkSeg 0 [0; 0; 0]] 3; OPwritev [] 5; OFstat].
Proof.
  pose proof composites_ex as CE. cbv zeta in *. destruct CE as (E1 & _ & _ & _ & _ & SC & E2 & _).
  split; [exact E1|]. split; [right; split; reflexivity|]. split; [left; reflexivity|]. split; [reflexivity|].
  split; [reflexivity|]. split; [exact E2|]. split; [exact SC|]. split; [reflexivity|].
  cbn. repeat split; lia.
Qed.

(* ---- sequences at factory level ---- *)
Definition linear_factory (x : xfile) (files : list file) : Prop :=
  (exists u, 0 < u /\ fst (new_fixed u files) = Some x /\ Forall (fun f => zlen f = u) files) \/
  (fst (new_linear files) = Some x /\ Forall (fun f => 0 < zlen f) files).

Lemma linear_factory_nonempty x files : linear_factory x files -> 0 < zlen files.
Proof.
  intros H. destruct files as [|f t]; [|rewrite zlen_cons; pose proof (zlen_nonneg t); lia].
  destruct H as [(u & _ & H & _)|(H & _)]; cbn in H; discriminate H.
Qed.

Lemma linear_ops_factories x files ops : linear_factory x files -> zlen (concat files) < 2 ^ 63 ->
  ops_ok_fixed_z (concat files) ops ->
  map observe (fst (run_ops (AdX x) files ops)) = fst (ref_run_fixed (concat files) ops) /\
  concat (snd (run_ops (AdX x) files ops)) = snd (ref_run_fixed (concat files) ops) /\
  map (@zlen byte) (snd (run_ops (AdX x) files ops)) = map (@zlen byte) files.
Proof.
  intros HF Hbig Hok. pose proof (linear_factory_nonempty x files HF) as Hn. fold (total files) in Hbig.
  destruct HF as [(u & Hu & HX & HF)|(HX & HF)].
  - pose proof (total_equal u files HF) as TE.
    assert (HE : equal_files u files) by (split; [exact Hn|]; intros i Hi; exact (Forall_nth_file _ files HF i Hi)).
    destruct (new_fixed_xf u files Hu Hn ltac:(lia)) as (x' & HX' & Hxf). rewrite HX in HX'. inversion HX'; subst x'.
    destruct (linear_ops_refine_z u files x ops files Hu HE ltac:(lia) Hxf (Inv_refl files) Hok) as (R1 & R2 & R3).
    split; [exact R1|]. split; [exact R3|]. apply Inv_sizes. exact R2.
  - assert (HP : pos_files files) by (split; assumption).
    rewrite (new_linear_var_x files HP Hbig) in HX. inversion HX; subst x.
    destruct (linear_vi_ops_refine_l files ops files HP Hbig (Inv_refl files) Hok) as (R1 & R2 & R3).
    split; [exact R1|]. split; [exact R3|]. apply Inv_sizes. exact R2.
Qed.

Lemma linear_factory_ex :
  linear_factory (mkX (XFixedP2 4) 2 8) [[1; 2; 3; 4]; [5; 6; 7; 8]] /\
  linear_factory (var_x [[1; 2; 3]; [4]; [5; 6; 7; 8; 9]]) [[1; 2; 3]; [4]; [5; 6; 7; 8; 9]] /\
  ops_ok_fixed_z (concat [[1; 2; 3]; [4]; [5; 6; 7; 8; 9]])
    [OPwrite (mkSeg 0 [21; 22; 23; 24]) 2; OPread (mkSeg 0 []) 8; OPreadv [mkSeg 0 [0; 0]; mkSeg 0 []; mkSeg 0 [0; 0; 0]] 6; OFstat].
Proof.
  split; [left; exists 4; split; [lia|]; split; [reflexivity|repeat constructor]|].
  split; [right; split; [reflexivity|repeat constructor]|].
  cbn. repeat split; lia.
Qed.
