(* Extraction of the C16 model: ExtrOcamlBasic only, no Extract Constant /
   Extract Inductive of our own; Z, positive, nat stay Coq's datatypes. *)
From Coq Require Import ZArith List.
From PV Require Import Base.U64 C15.C15_Model C16.C16_Model.
Require Extraction.
Require Import ExtrOcamlBasic.
Extraction "c16_model.ml" run_op run_ops new_fixed new_linear new_stripe is_power_of_2 PREFILL.
