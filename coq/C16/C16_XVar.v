(* C16_XVar.v — VariableSizeLinearFile (fs/xfile.cpp 124-167, the range_split_vi instance) as an instance of the
   generic composite layer: sub-files of arbitrary positive sizes, key points = 0, prefix sums, UINT64_MAX
   (`key_points` of the model = the loop of VariableSizeLinearFile::init), block i = the whole of sub-file i.
   The logical content is [concat files]. *)
From Coq Require Import ZArith List Bool Lia.
From PV Require Import Base.U64 C15.C15_Model C15.C15_Spec C15.C15_ProofsGeneric C15.C15_Proofs.
From PV Require Import C16.C16_Model C16.C16_Lists C16.C16_AlignedProofs2 C16.C16_Proofs.
From PV Require Import C16.C16_XGeneric C16.C16_XProofs C16.C16_XInst C16.C16_XOps C16.C16_XZero.
Import ListNotations.
Local Open Scope Z_scope.

Definition total (fs : list file) : Z := zlen (concat fs).
Definition psum (fs : list file) (k : nat) : Z := zlen (concat (firstn k fs)).

Lemma total_cons f t : total (f :: t) = zlen f + total t.
Proof. unfold total. cbn [concat]. apply zlen_app. Qed.
Lemma total_nonneg fs : 0 <= total fs.
Proof. apply zlen_nonneg. Qed.
Lemma psum_0 fs : psum fs 0 = 0.
Proof. reflexivity. Qed.
Lemma psum_cons f t k : psum (f :: t) (S k) = zlen f + psum t k.
Proof. unfold psum. cbn [firstn concat]. apply zlen_app. Qed.
Lemma psum_all fs : psum fs (length fs) = total fs.
Proof. unfold psum. rewrite firstn_all. reflexivity. Qed.
Lemma psum_S fs k f : nth_error fs k = Some f -> psum fs (S k) = psum fs k + zlen f.
Proof.
  intros H. unfold psum. rewrite (firstn_snoc fs k f H). rewrite concat_app, zlen_app. cbn [concat].
  rewrite app_nil_r. reflexivity.
Qed.

(* ---- the key points built by VariableSizeLinearFile::init ---- *)
Lemma length_key_points : forall fs acc, length (key_points fs acc) = S (length fs).
Proof. induction fs as [|f t IH]; intros acc; cbn [key_points length]; [reflexivity|]. rewrite IH. reflexivity. Qed.

Lemma nth_key_points : forall fs acc k, 0 <= acc -> acc + total fs < W64 -> (k <= length fs)%nat ->
  nth k (acc :: key_points fs acc) 0 = acc + psum fs k.
Proof.
  induction fs as [|f t IH]; intros acc k Ha Ht Hk.
  - cbn [length] in Hk. assert (k = 0%nat) by lia. subst k. cbn [nth]. rewrite psum_0. lia.
  - destruct k as [|k]; [cbn [nth]; rewrite psum_0; lia|].
    rewrite total_cons in Ht. pose proof (total_nonneg t). pose proof (zlen_nonneg f).
    change (nth (S k) (acc :: key_points (f :: t) acc) 0)
      with (nth k (wrap (acc + f_size f) :: key_points t (wrap (acc + f_size f))) 0).
    unfold f_size. rewrite wrap_small by lia. cbn [length] in Hk.
    rewrite IH by lia. rewrite psum_cons. lia.
Qed.

Lemma nth_key_points_last : forall fs acc, nth (S (length fs)) (acc :: key_points fs acc) 0 = MAX64.
Proof.
  induction fs as [|f t IH]; intros acc; [reflexivity|].
  change (nth (S (length (f :: t))) (acc :: key_points (f :: t) acc) 0)
    with (nth (S (length t)) (wrap (acc + f_size f) :: key_points t (wrap (acc + f_size f))) 0).
  apply IH.
Qed.

Lemma ascending_cons2 a b l : ascending (a :: b :: l) = (a < b /\ ascending (b :: l)).
Proof. reflexivity. Qed.

Lemma ascending_key_points : forall fs acc, Forall (fun f => 0 < zlen f) fs -> 0 <= acc -> acc + total fs < MAX64 ->
  ascending (acc :: key_points fs acc).
Proof.
  induction fs as [|f t IH]; intros acc HF Ha Ht.
  - cbn [key_points]. rewrite ascending_cons2. unfold total in Ht. cbn [concat] in Ht. rewrite zlen_nil in Ht.
    split; [lia|exact I].
  - inversion HF as [|? ? Hf Ht']; subst. rewrite total_cons in Ht. pose proof (total_nonneg t).
    rewrite MAX64_eq in Ht.
    cbn [key_points]. cbv zeta. unfold f_size. rewrite wrap_small by lia. rewrite ascending_cons2.
    split; [lia|]. apply IH; [exact Ht'|lia|rewrite MAX64_eq; lia].
Qed.

(* tiles: every touched block starts before the end of the range *)
Lemma tiles_idx_lt B L : forall l start stop i, tiles B L start stop i l ->
  forall k, i <= k < i + zlen l -> B k < stop.
Proof.
  induction l as [|p l IH]; intros start stop i H k Hk; [rewrite zlen_nil in Hk; lia|].
  cbn [tiles] in H. destruct H as (T1 & T2 & T3 & T4 & T5 & T6). rewrite zlen_cons in Hk.
  pose proof (tiles_le _ _ _ _ _ _ T6) as TS.
  destruct (Z.eq_dec k i) as [->|N]; [lia|].
  apply (IH _ _ _ T6). lia.
Qed.

(* ------------------------------------------------------------------ *)
Section VarLinear.
  Variable fs0 : list file.
  Hypothesis Hn : 0 < zlen fs0.
  Hypothesis Hpos : Forall (fun f => 0 < zlen f) fs0.
  Hypothesis Hbig : total fs0 < 2 ^ 63.

  Local Notation n := (zlen fs0).
  Local Notation kp := (0 :: key_points fs0 0).
  Local Notation B := (kp_nth kp).
  Local Notation L := (getlen_vi kp).
  Local Notation fidx := (fun i : Z => i).
  Local Notation fbase := (fun _ : Z => 0).

  Lemma vl_len : Z.of_nat (length kp) = n + 2.
  Proof. cbn [length]. rewrite length_key_points. unfold zlen. lia. Qed.

  (* key-points lemma 1: the key points satisfy range_split_vi's contract *)
  Lemma vl_kp_ok : kp_ok kp.
  Proof.
    assert (W : W64 = 2 * 2 ^ 63) by reflexivity.
    split; [|split].
    - apply ascending_key_points; [exact Hpos|lia|rewrite MAX64_eq; lia].
    - reflexivity.
    - unfold kp_nth. rewrite vl_len. replace (Z.to_nat (n + 2 - 1)) with (S (length fs0)) by (unfold zlen; lia).
      apply nth_key_points_last.
  Qed.

  (* key-points lemma 2: key point i = sum of the sizes of the sub-files before i *)
  Lemma vl_B i : 0 <= i <= n -> B i = psum fs0 (Z.to_nat i).
  Proof.
    intros Hi. assert (W : W64 = 2 * 2 ^ 63) by reflexivity. unfold kp_nth.
    rewrite nth_key_points; [lia|lia|fold (total fs0); lia|unfold zlen in Hi; lia].
  Qed.

  Lemma vl_Bn : B n = total fs0.
  Proof. rewrite vl_B by lia. unfold zlen. rewrite Nat2Z.id. apply psum_all. Qed.

  Lemma vl_L i : 0 <= i < n -> L i = zlen (nth_file fs0 i) /\ 0 < L i /\ B (i + 1) = B i + L i.
  Proof.
    intros Hi. destruct (getlen_vi_exact kp vl_kp_ok i ltac:(rewrite vl_len; lia)) as (E & P & _).
    split; [|split; [exact P|lia]].
    rewrite E. rewrite !vl_B by lia. replace (Z.to_nat (i + 1)) with (S (Z.to_nat i)) by lia.
    destruct (nth_error fs0 (Z.to_nat i)) as [f|] eqn:EN; [|apply nth_error_None in EN; unfold zlen in Hi; lia].
    rewrite (psum_S fs0 _ f EN). rewrite <- (nth_file_nat fs0 _ f EN). rewrite Z2Nat.id by lia. lia.
  Qed.

  Lemma vl_BS : forall i, 0 <= i < n -> B (i + 1) = B i + L i.
  Proof. intros i Hi. apply vl_L. exact Hi. Qed.
  Lemma vl_Lpos : forall i, 0 <= i < n -> 0 < L i.
  Proof. intros i Hi. apply vl_L. exact Hi. Qed.
  Lemma vl_shape : forall i, 0 <= i < n -> 0 <= fidx i < n /\ 0 <= fbase i /\ fbase i + L i <= zlen (nth_file fs0 (fidx i)).
  Proof. intros i Hi. destruct (vl_L i Hi) as (E & _). rewrite E. lia. Qed.
  Lemma vl_inj : forall i j, 0 <= i < n -> 0 <= j < n -> i <> j -> fidx i = fidx j ->
    fbase i + L i <= fbase j \/ fbase j + L j <= fbase i.
  Proof. intros i j _ _ N E. cbv beta in E. contradiction. Qed.

  Definition var_x : xfile := mkX (XVar kp) n (total fs0).
  Definition var_content (fs : list file) : file := whole L fidx fbase n fs.

  Lemma vl_guard off count : 0 <= off -> 0 <= count -> off + count <= B n -> vi_guard off count.
  Proof.
    intros Ho Hc He. rewrite vl_Bn in He. assert (W : W64 = 2 * 2 ^ 63) by reflexivity.
    unfold vi_guard. rewrite MAX64_eq. lia.
  Qed.

  (* index bound of the last part + C15's parts_tile_vi *)
  Lemma vl_parts : forall off count, 0 <= off -> 0 < count -> off + count <= B n ->
    exists l i0, xparts var_x off count = Some (map (conv fidx fbase) l) /\
                 tiles B L off (off + count) i0 l /\ 0 <= i0 /\ i0 + zlen l <= n.
  Proof.
    intros off count Ho Hc He.
    pose proof (vl_guard off count Ho ltac:(lia) He) as G.
    pose proof (vi_hyps kp vl_kp_ok off count G) as SH.
    destruct (fuel_ok _ _ _ _ _ _ _ SH) as (FU & AB0).
    destruct (parts_tile_vi_s kp vl_kp_ok off count G Hc _ FU) as (l & HA & NE & HT).
    exists l, (r_abegin (init (divide_vi kp) (getlen_vi kp) off count)).
    split; [|split; [exact HT|split; [exact AB0|]]].
    - unfold xparts, var_x. cbn [x_kind]. rewrite HA. reflexivity.
    - pose proof (tiles_idx_lt _ _ _ _ _ _ HT) as TI.
      pose proof (sh_bidx _ _ _ _ _ _ _ SH) as BI. rewrite vl_len in BI.
      rewrite (init_abegin _ _ _ _ _ _ _ SH) in *.
      set (i0 := d_down (divide_vi kp off)) in *.
      destruct (Z_le_dec (i0 + zlen l) n) as [Q|Q]; [exact Q|exfalso].
      specialize (TI n ltac:(lia)). lia.
  Qed.

  Lemma vl_parts0 : forall off, 0 <= off < B n ->
    exists ps, xparts var_x off 0 = Some ps /\
               (ps = [] \/ exists i p, ps = [(i, p, 0)] /\ 0 <= i < n).
  Proof.
    intros off Ho.
    pose proof (vl_guard off 0 ltac:(lia) ltac:(lia) ltac:(lia)) as G.
    pose proof (vi_hyps kp vl_kp_ok off 0 G) as SH.
    pose proof (parts0_generic _ _ _ _ _ _ SH) as P0. cbv zeta in P0.
    unfold xparts, var_x. cbn [x_kind]. rewrite P0.
    destruct (d_rem (divide_vi kp off) =? 0).
    - exists []. split; [reflexivity|]. left. reflexivity.
    - eexists. split; [reflexivity|]. right. cbn [map s_i s_off s_len]. eexists. eexists. split; [reflexivity|].
      pose proof (sh_bidx _ _ _ _ _ _ _ SH) as BI. rewrite vl_len in BI.
      destruct (sh_db _ _ _ _ _ _ _ SH) as (D1 & D2 & _).
      set (i0 := d_down (divide_vi kp off)) in *.
      destruct (Z.eq_dec i0 n) as [E|E]; [|lia]. rewrite E in D1. lia.
  Qed.

  Ltac side := first [ assumption | exact vl_BS | exact vl_Lpos | exact vl_shape | exact vl_inj
                     | exact vl_parts | exact vl_parts0 | exact vl_Bn | reflexivity
                     | (rewrite vl_Bn; lia) | (symmetry; exact vl_Bn) | lia | idtac ].

  Lemma var_pio_read fs buf off : Inv fs0 fs -> 0 <= off < total fs0 -> 0 <= zlen buf < 2 ^ 63 ->
    let r := x_pio var_x true fs buf off in
    let d := f_pread (var_content fs) (zlen buf) off in
    rs_ret r = zlen d /\ rs_bufs r = [overwrite buf 0 d] /\ rs_files r = fs.
  Proof.
    intros HI Ho Hb. rewrite <- vl_Bn in Ho.
    apply (x_pio_read_z B L fidx fbase n fs0); side.
  Qed.

  Lemma var_pio_write fs buf off : Inv fs0 fs -> 0 <= off < total fs0 -> 0 <= zlen buf < 2 ^ 63 ->
    let r := x_pio var_x false fs buf off in
    rs_ret r = Z.min (zlen buf) (total fs0 - off) /\ rs_bufs r = [buf] /\ Inv fs0 (rs_files r) /\
    var_content (rs_files r) = f_pwrite (var_content fs) (ztake (total fs0 - off) buf) off.
  Proof.
    intros HI Ho Hb. rewrite <- vl_Bn in *.
    apply (x_pio_write_z B L fidx fbase n fs0); side.
  Qed.

  Lemma var_content_concat fs : Inv fs0 fs -> var_content fs = concat fs.
  Proof.
    intros (I1 & I2). unfold var_content. rewrite <- I1. apply whole_id_concat.
    intros j Hj. rewrite I2. apply vl_L. lia.
  Qed.

  Lemma var_total fs : Inv fs0 fs -> total fs = total fs0.
  Proof.
    intros HI. unfold total at 1. rewrite <- (var_content_concat fs HI). unfold var_content.
    pose proof (whole_len B L fidx fbase n fs0) as W. rewrite <- vl_Bn. apply W; side.
  Qed.

  (* the factory new_linear_file builds exactly var_x *)
  Lemma fold_total : forall fs acc, 0 <= acc -> acc + total fs < W64 ->
    fold_left (fun a f => wrap (a + f_size f)) fs acc = acc + total fs.
  Proof.
    induction fs as [|f t IH]; intros acc Ha Ht.
    - unfold total. cbn. lia.
    - rewrite total_cons in Ht. pose proof (total_nonneg t). pose proof (zlen_nonneg f).
      cbn [fold_left]. unfold f_size. rewrite wrap_small by lia. rewrite IH by lia. rewrite total_cons. lia.
  Qed.

  Lemma new_linear_is : fst (new_linear fs0) = Some var_x.
  Proof.
    unfold new_linear. destruct (Z.eqb_spec n 0) as [Q|_]; [lia|]. cbn [fst]. unfold var_x. f_equal. f_equal.
    assert (W : W64 = 2 * 2 ^ 63) by reflexivity. rewrite fold_total by lia. lia.
  Qed.
End VarLinear.

(* ------------------------------------------------------------------ *)
(* closed statements *)
Definition pos_files (fs0 : list file) : Prop := 0 < zlen fs0 /\ Forall (fun f => 0 < zlen f) fs0.

Lemma linear_vi_refines_l fs0 fs buf off :
  pos_files fs0 -> total fs0 < 2 ^ 63 ->
  Inv fs0 fs -> 0 <= off < total fs0 -> zlen buf < 2 ^ 63 ->
  let whole := concat fs in
  (let r := x_pio (var_x fs0) true fs buf off in
   let d := f_pread whole (zlen buf) off in
   rs_ret r = zlen d /\ rs_bufs r = [overwrite buf 0 d] /\ rs_files r = fs) /\
  (let r := x_pio (var_x fs0) false fs buf off in
   rs_ret r = Z.min (zlen buf) (total fs0 - off) /\ rs_bufs r = [buf] /\ Inv fs0 (rs_files r) /\
   concat (rs_files r) = f_pwrite whole (ztake (total fs0 - off) buf) off).
Proof.
  intros (Hn & Hpos) Hbig HI Ho Hb. pose proof (zlen_nonneg buf) as Hb0. cbv zeta.
  assert (VC : forall fs', Inv fs0 fs' -> var_content fs0 fs' = concat fs') by (intros; apply var_content_concat; assumption).
  rewrite <- (VC fs HI). split.
  - apply (var_pio_read fs0); try assumption. lia.
  - assert (WR : let r := x_pio (var_x fs0) false fs buf off in
      rs_ret r = Z.min (zlen buf) (total fs0 - off) /\ rs_bufs r = [buf] /\ Inv fs0 (rs_files r) /\
      var_content fs0 (rs_files r) = f_pwrite (var_content fs0 fs) (ztake (total fs0 - off) buf) off)
      by (apply (var_pio_write fs0); try assumption; lia).
    cbv zeta in WR. destruct WR as (R1 & R2 & R3 & R4). rewrite <- (VC _ R3). auto.
Qed.

Lemma linear_vi_ops_refine_l fs0 ops fs :
  pos_files fs0 -> total fs0 < 2 ^ 63 ->
  Inv fs0 fs -> ops_ok_fixed_z (concat fs) ops ->
  map observe (fst (run_ops (AdX (var_x fs0)) fs ops)) = fst (ref_run_fixed (concat fs) ops) /\
  Inv fs0 (snd (run_ops (AdX (var_x fs0)) fs ops)) /\
  concat (snd (run_ops (AdX (var_x fs0)) fs ops)) = snd (ref_run_fixed (concat fs) ops).
Proof.
  intros HP Hbig HI Hok. pose proof HP as (Hn & Hpos).
  apply (x_run_ops_z (var_x fs0) (Inv fs0) (@concat byte) (total fs0)); try assumption.
  - intros fs' HI'. apply (var_total fs0); assumption.
  - reflexivity.
  - intros fs' buf off HI' Ho Hb. apply (linear_vi_refines_l fs0 fs' buf off); try assumption. lia.
  - intros fs' buf off HI' Ho Hb. apply (linear_vi_refines_l fs0 fs' buf off); try assumption. lia.
Qed.

Lemma new_linear_var_x fs0 : pos_files fs0 -> total fs0 < 2 ^ 63 -> fst (new_linear fs0) = Some (var_x fs0).
Proof. intros (Hn & Hpos) Hbig. apply new_linear_is; assumption. Qed.

(* hypotheses are satisfiable; a concrete variable-size composite *)
Lemma var_ex :
  let fs0 := [[1; 2; 3]; [4]; [5; 6; 7; 8; 9]; [10; 11]] in
  pos_files fs0 /\ total fs0 = 11 /\ Inv fs0 fs0 /\
  var_x fs0 = mkX (XVar [0; 3; 4; 9; 11; MAX64]) 4 11 /\ fst (new_linear fs0) = Some (var_x fs0) /\
  ops_ok_fixed_z (concat fs0) [OPwrite (mkSeg 0 [21; 22; 23; 24]) 2; OPread (mkSeg 0 []) 10;
                               OPreadv [mkSeg 0 [0; 0]; mkSeg 0 []; mkSeg 0 [0; 0; 0]] 8; OPwritev [] 0; OFstat].
Proof.
  cbv zeta. split; [split; [reflexivity|repeat constructor]|].
  split; [reflexivity|]. split; [apply Inv_refl|]. split; [reflexivity|]. split; [reflexivity|].
  cbn. repeat split; lia.
Qed.
