(* C16_XZero.v — zero-length requests on the composites (fs/xfile.cpp): with count = 0 the splitter yields no part
   (aligned offset) or ONE part of length 0 (C15's empty_range), which pio forwards as one zero-length
   pread/pwrite to the sub-file; nothing changes and 0 is returned.  With this the composite theorems hold for
   EVERY buffer length (0 <= zlen buf), and the operation / sequence theorems for every segmentation including
   empty iovecs and all-empty elements.
   Also: the logical content of a linear layout (block j = the whole of sub-file j) IS [concat files]. *)
From Coq Require Import ZArith List Bool Lia.
From PV Require Import Base.U64 C15.C15_Model C15.C15_Spec C15.C15_ProofsGeneric C15.C15_Proofs.
From PV Require Import C16.C16_Model C16.C16_Lists C16.C16_AlignedProofs2 C16.C16_Proofs.
From PV Require Import C16.C16_XGeneric C16.C16_XProofs C16.C16_XInst C16.C16_XOps.
Import ListNotations.
Local Open Scope Z_scope.

(* ---- small list facts ---- *)
Lemma set_nth_same {T} : forall (l : list T) n x, nth_error l n = Some x -> set_nth l n x = l.
Proof.
  induction l as [|h t IH]; intros [|n] x H; cbn in *; try discriminate.
  - inversion H. reflexivity.
  - f_equal. apply IH. exact H.
Qed.

Lemma set_file_same fs i f : get_file fs i = Some f -> set_file fs i f = fs.
Proof. unfold get_file, set_file. destruct (i <? 0); [discriminate|]. apply set_nth_same. Qed.

Lemma ztake_nil {T} n : ztake n (@nil T) = [].
Proof. unfold ztake. apply firstn_nil. Qed.

Lemma zlen0_nil {T} (l : list T) : zlen l = 0 -> l = [].
Proof. destruct l; [reflexivity|]. rewrite zlen_cons. pose proof (zlen_nonneg l). lia. Qed.

(* the loop over a single zero-length part changes nothing *)
Lemma pio_loop_zero isread fs buf i p : 0 <= i < zlen fs ->
  let R := pio_loop isread fs buf 0 [(i, p, 0)] [] in
  fst (fst (fst R)) = 0 /\ snd (fst (fst R)) = fs /\ snd (fst R) = buf.
Proof.
  intros Hi. cbv zeta. cbn [pio_loop]. rewrite (get_file_in fs i Hi).
  destruct isread.
  - change (f_pread (nth_file fs i) 0 p) with (@nil byte). rewrite overwrite_nil_at.
    change (zlen (@nil byte) <? 0) with false. cbn [fst snd]. auto.
  - change (ztake 0 (zdrop 0 buf)) with (@nil byte). rewrite f_pwrite_nil.
    rewrite set_file_same by (apply get_file_in; exact Hi). cbn [fst snd]. auto.
Qed.

(* ---- what the splitters yield for an empty range ---- *)
Lemma parts0_generic B L divide lo hi off : split_hyps B L divide lo hi off 0 ->
  let r := init divide L off 0 in
  all_parts L r (S (Z.to_nat (wrap (r_aend r - r_abegin r)))) =
    Some (if d_rem (divide off) =? 0 then [] else [mkSub (d_down (divide off)) (d_rem (divide off)) 0]).
Proof.
  intros H r. destruct (fuel_ok _ _ _ _ _ _ _ H) as (FU & _). fold r in FU.
  destruct (empty_generic_stmt _ _ _ _ _ _ H) as (E & _). cbv zeta in E. fold r in E.
  rewrite (E _ FU). unfold r. rewrite (init_abegin _ _ _ _ _ _ _ H). reflexivity.
Qed.

(* ------------------------------------------------------------------ *)
Section Composite0.
  Variables (B L fidx fbase : Z -> Z) (nb : Z) (fs0 : list file) (x : xfile).
  Hypothesis Hnb : 0 <= nb.
  Hypothesis HB0 : B 0 = 0.
  Hypothesis HBS : forall i, 0 <= i < nb -> B (i + 1) = B i + L i.
  Hypothesis HLpos : forall i, 0 <= i < nb -> 0 < L i.
  Hypothesis Hshape : forall i, 0 <= i < nb ->
    0 <= fidx i < zlen fs0 /\ 0 <= fbase i /\ fbase i + L i <= zlen (nth_file fs0 (fidx i)).
  Hypothesis Hinj : forall i j, 0 <= i < nb -> 0 <= j < nb -> i <> j -> fidx i = fidx j ->
    fbase i + L i <= fbase j \/ fbase j + L j <= fbase i.
  Hypothesis Hsize : x_size x = B nb.
  Hypothesis Hbig : B nb < 2 ^ 63.
  Hypothesis Hparts : forall off count, 0 <= off -> 0 < count -> off + count <= B nb ->
    exists l i0, xparts x off count = Some (map (conv fidx fbase) l) /\
                 tiles B L off (off + count) i0 l /\ 0 <= i0 /\ i0 + zlen l <= nb.
  (* the empty range: no part, or one zero-length part addressed to an existing sub-file *)
  Hypothesis Hparts0 : forall off, 0 <= off < B nb ->
    exists ps, xparts x off 0 = Some ps /\
               (ps = [] \/ exists i p, ps = [(i, p, 0)] /\ 0 <= i < zlen fs0).

  Local Notation Inv := (Inv fs0).
  Local Notation whole := (whole L fidx fbase nb).

  Lemma x_pio_zero isread fs buf off : Inv fs -> 0 <= off < B nb -> zlen buf = 0 ->
    let r := x_pio x isread fs buf off in
    rs_ret r = 0 /\ rs_bufs r = [buf] /\ rs_files r = fs.
  Proof.
    intros HI Ho Hb. cbv zeta. unfold x_pio.
    destruct (Z.ltb_spec off 0) as [C|_]; [lia|]. rewrite Hsize.
    destruct (Z.leb_spec (B nb) off) as [C|_]; [lia|]. cbn [orb].
    rewrite Hb. assert (W : W64 = 2 * 2 ^ 63) by reflexivity.
    rewrite Z.add_0_r. rewrite (wrap_small off) by lia.
    destruct (Z.gtb_spec off (B nb)) as [C|_]; [lia|].
    destruct (Hparts0 off Ho) as (ps & HP & [->|(i & p & -> & Hi)]); rewrite HP.
    - cbn [pio_loop rs_ret rs_bufs rs_files Z.eqb]. auto.
    - destruct HI as (I1 & _). rewrite <- I1 in Hi.
      pose proof (pio_loop_zero isread fs buf i p Hi) as PZ. cbv zeta in PZ.
      destruct (pio_loop isread fs buf 0 [(i, p, 0)] []) as [[[st fs'] b'] tr'].
      cbn [fst snd] in PZ. destruct PZ as (-> & -> & ->). cbn [rs_ret rs_bufs rs_files Z.eqb]. auto.
  Qed.

  Lemma x_pio_read_z fs buf off : Inv fs -> 0 <= off < B nb -> 0 <= zlen buf < 2 ^ 63 ->
    let r := x_pio x true fs buf off in
    let d := f_pread (whole fs) (zlen buf) off in
    rs_ret r = zlen d /\ rs_bufs r = [overwrite buf 0 d] /\ rs_files r = fs.
  Proof.
    intros HI Ho Hb. destruct (Z.eq_dec (zlen buf) 0) as [E|E].
    - cbv zeta. destruct (x_pio_zero true fs buf off HI Ho E) as (R1 & R2 & R3).
      rewrite R1, R2, R3, E. change (f_pread (whole fs) 0 off) with (@nil byte).
      rewrite overwrite_nil_at. auto.
    - apply (x_pio_read B L fidx fbase nb fs0); try assumption. lia.
  Qed.

  Lemma x_pio_write_z fs buf off : Inv fs -> 0 <= off < B nb -> 0 <= zlen buf < 2 ^ 63 ->
    let r := x_pio x false fs buf off in
    rs_ret r = Z.min (zlen buf) (B nb - off) /\ rs_bufs r = [buf] /\ Inv (rs_files r) /\
    whole (rs_files r) = f_pwrite (whole fs) (ztake (B nb - off) buf) off.
  Proof.
    intros HI Ho Hb. destruct (Z.eq_dec (zlen buf) 0) as [E|E].
    - cbv zeta. destruct (x_pio_zero false fs buf off HI Ho E) as (R1 & R2 & R3).
      rewrite R1, R2, R3, E. rewrite (zlen0_nil buf E). rewrite ztake_nil, f_pwrite_nil.
      repeat split; try apply HI. lia.
    - apply (x_pio_write B L fidx fbase nb fs0); try assumption. lia.
  Qed.
End Composite0.

(* ------------------------------------------------------------------ *)
(* operations and sequences, every length *)
Definition op_ok_fixed_z (w : file) (o : op) : Prop :=
  match o with
  | OPread b off | OPwrite b off => 0 <= off < zlen w /\ zlen (sg_data b) < 2 ^ 63
  | OPreadv segs off | OPwritev segs off => 0 <= off < zlen w /\ C16_Model.sum_len segs < 2 ^ 63
  | OFstat => True
  | OFtruncate _ => True
  end.
Fixpoint ops_ok_fixed_z (w : file) (ops : list op) : Prop :=
  match ops with
  | [] => True
  | o :: rest => op_ok_fixed_z w o /\ ops_ok_fixed_z (snd (ref_op_fixed w o)) rest
  end.

Lemma sum_len_nonneg segs : 0 <= C16_Model.sum_len segs.
Proof. rewrite <- zlen_gather. apply zlen_nonneg. Qed.

Section CompositeOpsZ.
  Variables (x : xfile) (I : list file -> Prop) (C : list file -> file) (size : Z).
  Hypothesis Hsz : forall fs, I fs -> zlen (C fs) = size.
  Hypothesis Hxs : x_size x = size.
  Hypothesis Hrd : forall fs buf off, I fs -> 0 <= off < size -> 0 <= zlen buf < 2 ^ 63 ->
    let r := x_pio x true fs buf off in
    let d := f_pread (C fs) (zlen buf) off in
    rs_ret r = zlen d /\ rs_bufs r = [overwrite buf 0 d] /\ rs_files r = fs.
  Hypothesis Hwr : forall fs buf off, I fs -> 0 <= off < size -> 0 <= zlen buf < 2 ^ 63 ->
    let r := x_pio x false fs buf off in
    rs_ret r = Z.min (zlen buf) (size - off) /\ rs_bufs r = [buf] /\ I (rs_files r) /\
    C (rs_files r) = f_pwrite (C fs) (ztake (size - off) buf) off.

  Lemma x_run_op_z fs o : I fs -> op_ok_fixed_z (C fs) o ->
    let r := run_op (AdX x) fs o in
    observe r = fst (ref_op_fixed (C fs) o) /\ I (rs_files r) /\ C (rs_files r) = snd (ref_op_fixed (C fs) o).
  Proof.
    intros HI Hok. pose proof (Hsz fs HI) as SZ. cbv zeta. unfold observe, run_op.
    destruct o as [b off|b off|segs off|segs off| |len]; cbn [op_ok_fixed_z ref_op_fixed fst snd] in *.
    - destruct Hok as (Ho & Hb). rewrite SZ in Ho. pose proof (zlen_nonneg (sg_data b)).
      destruct (Hrd fs (sg_data b) off HI Ho ltac:(lia)) as (R1 & R2 & R3). rewrite R1, R2, R3. auto.
    - destruct Hok as (Ho & Hb). rewrite SZ in Ho. pose proof (zlen_nonneg (sg_data b)).
      destruct (Hwr fs (sg_data b) off HI Ho ltac:(lia)) as (R1 & R2 & R3 & R4). rewrite R1, R2, R4, SZ.
      unfold ref_pwrite_fixed. rewrite SZ. auto.
    - destruct Hok as (Ho & Hb). rewrite SZ in Ho. unfold x_piov.
      destruct segs as [|s [|s2 segs]].
      + cbn [rs_ret rs_bufs rs_files map C16_Model.sum_len fold_right].
        change (f_pread (C fs) 0 off) with (@nil byte). cbn [scatter]. auto.
      + assert (E : C16_Model.sum_len [s] = zlen (sg_data s)) by (cbn; lia). rewrite E in *.
        pose proof (zlen_nonneg (sg_data s)).
        destruct (Hrd fs (sg_data s) off HI Ho ltac:(lia)) as (R1 & R2 & R3). rewrite R1, R2, R3.
        cbn [map]. rewrite scatter_single; [auto|]. rewrite zlen_f_pread by lia. lia.
      + set (segs' := s :: s2 :: segs) in *. set (count := C16_Model.sum_len segs') in *.
        pose proof (sum_len_nonneg segs') as CN. fold count in CN.
        assert (LG : zlen (zrep GARBAGE count) = count) by (rewrite zlen_zrep; lia).
        destruct (Hrd fs (zrep GARBAGE count) off HI Ho ltac:(lia)) as (R1 & R2 & R3). rewrite LG in *.
        set (d := f_pread (C fs) count off) in *.
        assert (LD : zlen d = Z.min count (size - off)) by (unfold d; rewrite zlen_f_pread by lia; lia).
        rewrite R1. destruct (Z.leb_spec (zlen d) 0) as [Q|Q].
        * assert (D0 : d = []) by (apply zlen0_nil; pose proof (zlen_nonneg d); lia).
          cbn [rs_ret rs_bufs rs_files]. rewrite R3, D0. rewrite scatter_nil. auto.
        * cbn [rs_ret rs_bufs rs_files]. rewrite R2, R3. cbn [hd]. rewrite ztake_overwrite0 by lia. auto.
    - destruct Hok as (Ho & Hb). rewrite SZ in Ho. unfold x_piov.
      destruct segs as [|s [|s2 segs]].
      + cbn [rs_ret rs_bufs rs_files map C16_Model.sum_len fold_right].
        unfold ref_pwrite_fixed. change (gather []) with (@nil byte). rewrite ztake_nil, f_pwrite_nil.
        rewrite SZ. rewrite Z.min_l by lia. auto.
      + assert (E : C16_Model.sum_len [s] = zlen (sg_data s)) by (cbn; lia). rewrite E in *.
        assert (EG : gather [s] = sg_data s) by (unfold gather; cbn; apply app_nil_r). rewrite EG.
        pose proof (zlen_nonneg (sg_data s)).
        destruct (Hwr fs (sg_data s) off HI Ho ltac:(lia)) as (R1 & R2 & R3 & R4). rewrite R1, R2, R4, SZ.
        unfold ref_pwrite_fixed. rewrite SZ. auto.
      + set (segs' := s :: s2 :: segs) in *.
        pose proof (zlen_gather segs') as LG. pose proof (sum_len_nonneg segs') as CN.
        destruct (Hwr fs (gather segs') off HI Ho ltac:(lia)) as (R1 & R2 & R3 & R4).
        cbn [rs_ret rs_bufs rs_files]. rewrite R1, R4, LG, SZ. unfold ref_pwrite_fixed. rewrite SZ. auto.
    - cbn [rs_ret rs_bufs rs_files]. rewrite Hxs, SZ. auto.
    - cbn [rs_ret rs_bufs rs_files]. auto.
  Qed.

  Lemma x_run_ops_z : forall ops fs, I fs -> ops_ok_fixed_z (C fs) ops ->
    map observe (fst (run_ops (AdX x) fs ops)) = fst (ref_run_fixed (C fs) ops) /\
    I (snd (run_ops (AdX x) fs ops)) /\ C (snd (run_ops (AdX x) fs ops)) = snd (ref_run_fixed (C fs) ops).
  Proof.
    induction ops as [|o rest IH]; intros fs HI Hok.
    - cbn. auto.
    - destruct Hok as (H1 & H2). destruct (x_run_op_z fs o HI H1) as (R1 & R2 & R3). cbv zeta in *.
      cbn [run_ops ref_run_fixed].
      destruct (ref_op_fixed (C fs) o) as [res w'] eqn:ER. cbn [fst snd] in *.
      rewrite <- R3 in H2. specialize (IH _ R2 H2). rewrite R3 in IH.
      destruct (run_ops (AdX x) (rs_files (run_op (AdX x) fs o)) rest) as [rs final].
      destruct (ref_run_fixed w' rest) as [rrs rfinal]. cbn [fst snd map] in *.
      destruct IH as (I1 & I2 & I3). rewrite R1, I1. auto.
  Qed.
End CompositeOpsZ.

(* ------------------------------------------------------------------ *)
(* a linear layout (block j = the whole of sub-file j): the logical content is concat files *)
Lemma firstn_snoc {T} : forall (l : list T) k x, nth_error l k = Some x -> firstn (S k) l = firstn k l ++ [x].
Proof.
  induction l as [|h t IH]; intros [|k] x H; cbn in *; try discriminate.
  - inversion H. reflexivity.
  - f_equal. apply IH. exact H.
Qed.

Lemma nth_file_nat fs k f : nth_error fs k = Some f -> nth_file fs (Z.of_nat k) = f.
Proof.
  intros H. unfold nth_file, get_file. destruct (Z.ltb_spec (Z.of_nat k) 0); [lia|].
  rewrite Nat2Z.id, H. reflexivity.
Qed.

Lemma f_pread_all f : f_pread f (zlen f) 0 = f.
Proof. unfold f_pread, ztake, zdrop, zlen. cbn [Z.to_nat skipn]. rewrite Nat2Z.id. apply firstn_all. Qed.

Lemma blocks_id L fs : (forall j, 0 <= j < zlen fs -> L j = zlen (nth_file fs j)) ->
  forall k, (k <= length fs)%nat -> blocks L (fun i => i) (fun _ => 0) fs k = firstn k fs.
Proof.
  intros HL. induction k as [|k IH]; intros Hk; [reflexivity|].
  cbn [blocks]. rewrite IH by lia.
  destruct (nth_error fs k) as [f|] eqn:E; [|apply nth_error_None in E; lia].
  rewrite (firstn_snoc fs k f E). f_equal. f_equal.
  unfold block. rewrite HL by (unfold zlen; lia). rewrite (nth_file_nat fs k f E). apply f_pread_all.
Qed.

Lemma whole_id_concat L fs : (forall j, 0 <= j < zlen fs -> L j = zlen (nth_file fs j)) ->
  whole L (fun i => i) (fun _ => 0) (zlen fs) fs = concat fs.
Proof.
  intros HL. unfold whole. rewrite (blocks_id L fs HL) by (unfold zlen; lia).
  unfold zlen. rewrite Nat2Z.id, firstn_all. reflexivity.
Qed.

(* Inv as a statement about the list of sizes *)
Lemma nth_file_nat_none fs k : nth_error fs k = None -> nth_file fs (Z.of_nat k) = [].
Proof.
  intros H. unfold nth_file, get_file. destruct (Z.ltb_spec (Z.of_nat k) 0); [reflexivity|].
  rewrite Nat2Z.id, H. reflexivity.
Qed.

Lemma nth_error_ext_l {T} : forall (l1 l2 : list T), (forall k, nth_error l1 k = nth_error l2 k) -> l1 = l2.
Proof.
  induction l1 as [|a l1 IH]; intros [|b l2] H.
  - reflexivity.
  - specialize (H 0%nat). discriminate H.
  - specialize (H 0%nat). discriminate H.
  - pose proof (H 0%nat) as H0. cbn in H0. inversion H0. f_equal. apply IH. intros k. exact (H (S k)).
Qed.

Lemma Inv_sizes fs0 fs : Inv fs0 fs -> map (@zlen byte) fs = map (@zlen byte) fs0.
Proof.
  intros (I1 & I2). assert (LE : length fs = length fs0) by (unfold zlen in I1; lia).
  apply nth_error_ext_l. intros k. rewrite !nth_error_map. unfold file, byte in *.
  specialize (I2 (Z.of_nat k)).
  destruct (nth_error fs k) as [f|] eqn:E; destruct (nth_error fs0 k) as [g|] eqn:E0; cbn [option_map].
  - rewrite (nth_file_nat _ _ _ E), (nth_file_nat _ _ _ E0) in I2. f_equal. exact I2.
  - apply nth_error_None in E0. assert (k < length fs)%nat by (apply nth_error_Some; congruence). lia.
  - apply nth_error_None in E. assert (k < length fs0)%nat by (apply nth_error_Some; congruence). lia.
  - reflexivity.
Qed.
