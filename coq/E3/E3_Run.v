(* E3/E3_Run.v — the schedule interpreter of engine E3 (lock-step atomic-step replay), shared by
   every property that uses E3.  Executable definitions only.

   A model supplies   step : St -> nat (participant) -> nat (flavor) -> St * obs
   with ONE logged transition per instrumentation point of the C++ (harness/E3/e3.h), and
   fin : St -> nat -> bool (participant has run its script to the end).
   e3_run replays a schedule exactly as e3::run does in C++:
     - schedule entry e = p + n*f : participant p = e mod n, flavor f = e / n;
     - an entry naming a finished participant is skipped;
     - when the schedule is exhausted: the first unfinished participant after the last one run,
       cyclically, flavor 0;
     - every scheduler decision (also a skipped entry) costs one unit of the bound; when the bound
       is exhausted with unfinished participants the run is reported as livelock.            *)
From Coq Require Import ZArith List Bool Arith.
Import ListNotations.

(* one logged instrumentation point: kind code, address class, address index (-1 = none), values *)
Record obs := mkObs { o_kind : Z; o_addr : Z; o_idx : Z; o_v1 : Z; o_v2 : Z; o_v3 : Z; o_v4 : Z }.

(* kind codes (printing is done by the runner; same spelling as e3.h) *)
Definition K_LD : Z := 0.    (* p.ld.addr.value                       *)
Definition K_ST : Z := 1.    (* p.st.addr.value                       *)
Definition K_XG : Z := 2.    (* p.xg.addr.new.old                     *)
Definition K_CAS : Z := 3.   (* p.cas.addr.expected.desired.observed.ok *)
Definition K_FA : Z := 4.    (* p.fa.addr.arg.old                     *)
Definition K_FS : Z := 5.    (* p.fs.addr.arg.old                     *)
Definition K_FO : Z := 6.    (* p.fo.addr.arg.old                     *)
Definition K_FN : Z := 7.    (* p.fn.addr.arg.old                     *)
Definition K_SP : Z := 8.    (* p.sp            (spin / pause / yield iteration) *)
Definition K_USER : Z := 9.  (* p.<name of o_addr>.<v1>.<v2>  user point of an instrumented primitive: o_idx = number of values *)
Definition K_NONE : Z := 10. (* not logged: step of a finished participant / silent step *)

Definition ob_ld (a i v : Z) := mkObs K_LD a i v 0 0 0.
Definition ob_st (a i v : Z) := mkObs K_ST a i v 0 0 0.
Definition ob_xg (a i nw old : Z) := mkObs K_XG a i nw old 0 0.
Definition ob_cas (a i e d o : Z) (ok : bool) := mkObs K_CAS a i e d o (if ok then 1 else 0).
Definition ob_fa (a i arg old : Z) := mkObs K_FA a i arg old 0 0.
Definition ob_fs (a i arg old : Z) := mkObs K_FS a i arg old 0 0.
Definition ob_sp := mkObs K_SP (-1) (-1) 0 0 0 0.
Definition ob_user (name nvals v1 v2 : Z) := mkObs K_USER name nvals v1 v2 0 0.
Definition ob_none := mkObs K_NONE (-1) (-1) 0 0 0 0.

Section E3Run.
  Context {St : Type}.
  Variable step : St -> nat -> nat -> St * obs.
  Variable fin : St -> nat -> bool.
  Variable n : nat.

  Definition all_fin (st : St) : bool := forallb (fin st) (seq 0 n).

  (* first unfinished participant among c, c+1, ... (mod n), trying k candidates *)
  Fixpoint rr (k c : nat) (st : St) : option nat :=
    match k with
    | O => None
    | S k' => let c' := Nat.modulo c n in if fin st c' then rr k' (S c') st else Some c'
    end.

  (* returns (final state, log in execution order, livelock?) *)
  Fixpoint e3_run (fuel : nat) (sched : list nat) (last : nat) (st : St) (acc : list (nat * obs))
    : St * list (nat * obs) * bool :=
    if all_fin st then (st, rev acc, false) else
    match fuel with
    | O => (st, rev acc, true)
    | S fuel' =>
      match sched with
      | e :: rest =>
          let p := Nat.modulo e n in
          let f := Nat.div e n in
          if fin st p then e3_run fuel' rest last st acc
          else let '(st', o) := step st p f in e3_run fuel' rest p st' ((p, o) :: acc)
      | [] =>
          match rr n (S last) st with
          | None => (st, rev acc, false)
          | Some p => let '(st', o) := step st p O in e3_run fuel' [] p st' ((p, o) :: acc)
          end
      end
    end.
End E3Run.
