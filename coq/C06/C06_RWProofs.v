(* C06_RWProofs.v — invariants of the fine-grained rwlock model over EVERY schedule. *)
From Coq Require Import ZArith Lia List Bool Arith.
From PV Require Import Base.U64 C06.C06_Model C06.C06_RWArith.
Import ListNotations.
Local Open Scope Z_scope.

(* ---- reachability ---------------------------------------------------------------------------- *)
Inductive reach : rw -> Prop :=
| reach0 : reach rw0
| reachS s l s' : reach s -> wf_label s l = true -> step s l = Some s' -> reach s'.

(* schedules in which no waiter leaves the queue while an unlock() is in its decision window *)
Inductive greach : rw -> Prop :=
| greach0 : greach rw0
| greachS s l s' : greach s -> wf_label s l = true -> guard_label s l = true -> step s l = Some s' -> greach s'.

Lemma greach_reach s : greach s -> reach s.
Proof. induction 1; [constructor|econstructor; eauto]. Qed.

Lemma run_reach ls : forall s s', reach s -> run s ls = Some s' -> reach s'.
Proof.
  induction ls as [|l r IH]; simpl; intros s s' Hr H.
  - inversion H; subst; exact Hr.
  - destruct (wf_label s l) eqn:Hwf; [|discriminate].
    destruct (step s l) as [s1|] eqn:Hs; [|discriminate].
    eapply IH; [|exact H]. econstructor; eauto.
Qed.

Lemma grun_greach ls : forall s s', greach s -> grun s ls = Some s' -> greach s'.
Proof.
  induction ls as [|l r IH]; simpl; intros s s' Hr H.
  - inversion H; subst; exact Hr.
  - destruct (wf_label s l && guard_label s l) eqn:Hwf; [|discriminate].
    apply andb_true_iff in Hwf. destruct Hwf.
    destruct (step s l) as [s1|] eqn:Hs; [|discriminate].
    eapply IH; [|exact H]. econstructor; eauto.
Qed.

(* ---- small list facts -------------------------------------------------------------------------- *)
Lemma mem_tid_In t l : mem_tid t l = true <-> In t l.
Proof.
  induction l as [|x r IH]; simpl; [split; [discriminate|tauto]|].
  rewrite orb_true_iff, IH. split; intros [H|H]; auto.
  - left. apply Nat.eqb_eq in H. exact H.
  - left. apply Nat.eqb_eq. exact H.
Qed.

Lemma remove_tid_In t u l : In u (remove_tid t l) -> In u l.
Proof.
  induction l as [|x r IH]; simpl; [tauto|].
  destruct (Nat.eqb_spec x t); simpl; intros H; [tauto|]. destruct H; auto.
Qed.

Lemma remove_tid_NoDup t l : NoDup l -> NoDup (remove_tid t l).
Proof.
  induction 1 as [|x r Hx Hr IH]; simpl; [constructor|].
  destruct (Nat.eqb_spec x t); [exact Hr|]. constructor; [|exact IH].
  intros Hin. apply Hx. eapply remove_tid_In; eauto.
Qed.

Lemma remove_tid_notin t l : ~ In t l -> remove_tid t l = l.
Proof.
  induction l as [|x r IH]; simpl; intros H; [reflexivity|].
  destruct (Nat.eqb_spec x t); [subst; tauto|]. f_equal. apply IH. tauto.
Qed.

Lemma remove_tid_other t u l : u <> t -> In u l -> In u (remove_tid t l).
Proof.
  intros Hne. induction l as [|x r IH]; simpl; [tauto|].
  destruct (Nat.eqb_spec x t); intros [H|H]; subst; simpl; auto; try tauto.
Qed.

Lemma remove_tid_app_self t l : ~ In t l -> remove_tid t (l ++ [t]) = l.
Proof.
  induction l as [|x r IH]; simpl; intros H.
  - rewrite Nat.eqb_refl. reflexivity.
  - destruct (Nat.eqb_spec x t); [subst; tauto|]. f_equal. apply IH. tauto.
Qed.

Lemma holds_In s t : holds s t = true <-> In t (map fst (holders s)).
Proof. unfold holds. apply mem_tid_In. Qed.

Lemma remove_holder_length t l : In t (map fst l) -> S (length (remove_holder t l)) = length l.
Proof.
  induction l as [|[x m] r IH]; simpl; [tauto|].
  destruct (Nat.eqb_spec x t); [reflexivity|]. intros [H|H]; [tauto|]. simpl. f_equal. apply IH. exact H.
Qed.

Lemma remove_holder_Forall P t l : Forall P l -> Forall P (remove_holder t l).
Proof.
  induction 1 as [|[x m] r Hx Hr IH]; simpl; [constructor|].
  destruct (Nat.eqb x t); [exact Hr|constructor; assumption].
Qed.

Lemma remove_holder_other t u l : u <> t -> In u (map fst l) -> In u (map fst (remove_holder t l)).
Proof.
  intros Hne. induction l as [|[x m] r IH]; simpl; [tauto|].
  destruct (Nat.eqb_spec x t); intros [H|H]; subst; simpl; auto; try tauto.
Qed.

(* ---- the update function ------------------------------------------------------------------------ *)
Lemma upd_same {A} (f : tid -> A) t v : upd f t v t = v.
Proof. unfold upd. rewrite Nat.eqb_refl. reflexivity. Qed.
Lemma upd_other {A} (f : tid -> A) t v u : u <> t -> upd f t v u = f u.
Proof. unfold upd. intros H. destruct (Nat.eqb_spec u t); [tauto|reflexivity]. Qed.

(* ---- step inversion tactic ------------------------------------------------------------------------ *)
Ltac inv_some :=
  repeat match goal with
  | H : Some _ = Some _ |- _ => inversion H; subst; clear H
  | H : None = Some _ |- _ => discriminate H
  | H : (_, _) = (_, _) |- _ => inversion H; subst; clear H
  end.

Ltac break_step H :=
  unfold th_step, acquire, ul_return, notify_one in H;
  repeat (match type of H with
          | context [match ?x with _ => _ end] =>
              match x with
              | context [match _ with _ => _ end] => fail 1
              | _ => let E := fresh "E" in destruct x eqn:E
              end
          end; simpl in H; try discriminate H).

(* all the ways a step can happen; each leaves the post-state explicit *)
Ltac step_cases Hstep :=
  match type of Hstep with
  | step ?s ?l = Some ?s' =>
      destruct l as [t m tm|t|t|t|t e]; simpl in Hstep;
      [ break_step Hstep; inv_some
      | break_step Hstep; inv_some
      | destruct (th_step s t) as [[s1 o]|] eqn:Hth; simpl in Hstep; [|discriminate Hstep];
        inv_some; break_step Hth; inv_some
      | break_step Hstep; inv_some
      | break_step Hstep; inv_some ]
  end.

Ltac thr_simp :=
  unfold goto, set_thr, set_q, set_mtx, set_st, set_holders, set_nlog, notify_one in *; simpl in *.

(* ---- the basic invariant ------------------------------------------------------------------------- *)
Definition mtx_pc (p : rpc) : bool :=
  match p with LkEnq | LkDefer | UlIf2 | UlNotW | UlWhile | UlNotR => true | _ => false end.

(* the ledger of holders against the state word *)
Definition excl_ (x : Z) (hs : list (tid * mode)) : Prop :=
  (Forall (fun h => snd h = RD) hs /\ x = Z.of_nat (length hs))
  \/ (exists w, hs = [(w, WR)] /\ x = -1).
Definition excl (s : rw) : Prop := excl_ (st s) (holders s).

Lemma excl_bounds x hs : excl_ x hs -> -1 <= x.
Proof. intros [[_ ->]|[w [_ ->]]]; lia. Qed.

Lemma excl_acq x hs t m :
  excl_ x hs -> x < I63 -> in_range x = true -> conflict m x = false ->
  excl_ (add_op m x) ((t, m) :: hs) /\ add_op m x < I63 /\ add_op m x <> 0.
Proof.
  intros He Hlt Hr Hc. apply in_range_spec in Hr.
  pose proof (excl_bounds _ _ He) as Hlo.
  assert (- I63 <= x < I63) as Hx by (unfold I63 in *; lia).
  destruct m.
  - rewrite conflict_RD in Hc by exact Hx. apply Z.ltb_ge in Hc.
    rewrite add_op_RD by lia.
    destruct He as [[Hall ->]|[w [_ ->]]]; [|lia].
    split; [|lia]. left. split; [constructor; [reflexivity|exact Hall]|].
    simpl length. lia.
  - rewrite conflict_WR in Hc by exact Hx. apply negb_false_iff, Z.eqb_eq in Hc. subst x.
    rewrite add_op_WR by (unfold I63; lia).
    destruct He as [[Hall Hlen]|[w [_ Hw]]]; [|lia].
    destruct hs; [|simpl in Hlen; lia].
    split; [|unfold I63; lia]. right. exists t. split; reflexivity.
Qed.

Lemma excl_rel x hs t :
  excl_ x hs -> In t (map fst hs) ->
  excl_ (dec_state x) (remove_holder t hs) /\ dec_state x <= Z.max x 0.
Proof.
  intros He Hin. unfold dec_state.
  destruct He as [[Hall ->]|[w [-> ->]]].
  - pose proof (remove_holder_length _ _ Hin) as Hl.
    destruct (Z.ltb_spec 0 (Z.of_nat (length hs))); [|lia].
    split; [|lia]. left. split; [apply remove_holder_Forall; exact Hall|lia].
  - simpl in Hin. destruct Hin as [->|[]]. simpl. rewrite Nat.eqb_refl.
    split; [|lia]. left. split; [constructor|reflexivity].
Qed.

Record Inv (s : rw) : Prop := mkInv {
  i_excl : excl s;
  i_rng : st s < I63;
  i_mtx1 : forall t, mtx_pc (pc (thr s t)) = true -> mtx s = Some t;
  i_mtx2 : forall t, mtx s = Some t -> mtx_pc (pc (thr s t)) = true;
  i_q : forall h, In h (q s) -> (pc (thr s h) = LkDefer \/ pc (thr s h) = LkSleep) /\ wake (thr s h) = None;
  i_nodup : NoDup (q s);
  i_wake : forall t w, wake (thr s t) = Some w -> pc (thr s t) = LkDefer \/ pc (thr s t) = LkSleep;
  i_win : forall t, in_window (pc (thr s t)) = true -> st s = 0;
  i_ul : forall t, pc (thr s t) = UlEnter -> holds s t = true
}.

Lemma Inv0 : Inv rw0.
Proof.
  constructor; simpl; try (intros; discriminate); try tauto.
  - left. split; [constructor|reflexivity].
  - reflexivity.
  - constructor.
Qed.

Ltac upd_cases :=
  repeat match goal with
  | |- context [upd _ ?t _ ?u] => unfold upd at 1; destruct (Nat.eqb_spec u t); subst; simpl
  | H : context [upd _ ?t _ ?u] |- _ => unfold upd in H at 1; destruct (Nat.eqb_spec u t); subst; simpl in H
  end.

Ltac pcfacts :=
  repeat match goal with
  | H1 : pc ?x = _, H2 : pc ?x = _ |- _ => rewrite H1 in H2; try discriminate H2
  | H1 : pc ?x = _, H2 : context [pc ?x] |- _ => rewrite H1 in H2; simpl in H2
  | H1 : pc ?x = _ |- context [pc ?x] => rewrite H1; simpl
  end.

Definition done_inst (x : tid) : Prop := True.

Ltac inst_all Hm1 Hm2 Hq Hwk Hwin Hul :=
  repeat match goal with
  | x : tid |- _ =>
      lazymatch goal with
      | _ : done_inst x |- _ => fail
      | _ => pose proof (Hm1 x); pose proof (Hm2 x); pose proof (Hq x); pose proof (Hwk x); pose proof (Hwin x); pose proof (Hul x);
             assert (done_inst x) by exact I
      end
  end.

Ltac wake_inst :=
  repeat match goal with
  | E : wake (thr ?s ?x) = Some ?w, H : forall w, wake (thr ?s ?x) = Some w -> _ |- _ => pose proof (H _ E); clear H
  end.

Lemma in_window_mtx_pc p : in_window p = true -> mtx_pc p = true.
Proof. destruct p; simpl; auto. Qed.

Lemma remove_tid_self_notin t l : NoDup l -> ~ In t (remove_tid t l).
Proof.
  induction 1 as [|x r Hx Hr IH]; simpl; [tauto|].
  destruct (Nat.eqb_spec x t); [subst; exact Hx|]. simpl. intros [H|H]; [tauto|]. apply IH. exact H.
Qed.

Lemma holds_cons s t m u x mt qq th nl :
  holds s u = true -> holds (mkRW x mt qq th ((t, m) :: holders s) nl) u = true.
Proof. unfold holds. simpl. intros ->. apply orb_true_r. Qed.

Lemma holds_remove s t u x mt qq th nl :
  u <> t -> holds s u = true -> holds (mkRW x mt qq th (remove_holder t (holders s)) nl) u = true.
Proof.
  unfold holds. simpl. intros Hne H. apply mem_tid_In. apply remove_holder_other; [exact Hne|].
  apply mem_tid_In. exact H.
Qed.

Lemma NoDup_app_iff_tail (l : list tid) t : NoDup l -> ~ In t l -> NoDup (l ++ [t]).
Proof.
  induction 1 as [|x r Hx Hr IH]; simpl; intros Hn; [constructor; [tauto|constructor]|].
  constructor; [|apply IH; tauto].
  intros Hin. apply in_app_or in Hin. destruct Hin as [Hin|[<-|[]]]; tauto.
Qed.

Ltac subst_q :=
  repeat match goal with
  | E : q ?s = _, H : context [q ?s] |- _ => lazymatch H with E => fail | _ => rewrite E in H end
  | E : q ?s = _ |- context [q ?s] => rewrite E
  end.

Lemma Inv_step s l s' : Inv s -> wf_label s l = true -> step s l = Some s' -> Inv s'.
Proof.
  intros HI Hwf Hstep.
  destruct HI as [Hexcl Hrng Hm1 Hm2 Hq Hnd Hwk Hwin Hul].
  step_cases Hstep; thr_simp.
  all: constructor; simpl.
  all: try solve [assumption].
  all: try solve [intros; subst_q; upd_cases; inst_all Hm1 Hm2 Hq Hwk Hwin Hul; wake_inst; pcfacts; simpl in *;
                  intuition (try congruence; try discriminate; eauto)].
  (* the ledger *)
  all: try match goal with
    | Hc : negb (is_nil _) || conflict _ _ = false |- _ => apply orb_false_iff in Hc; destruct Hc as [_ Hc]
    end.
  all: try match goal with
    | Hc : conflict ?m ?x = false, Hr : in_range ?x = true |- _ =>
        destruct (excl_acq x (holders s) t m Hexcl Hrng Hr Hc) as [Ha1 [Ha2 Ha3]]
    end.
  all: try match goal with
    | |- excl _ => unfold excl; simpl; first [exact Ha1 | apply excl_rel; [exact Hexcl | apply holds_In; apply Hul; assumption]]
    end.
  all: try solve [exact Ha2].
  all: try match goal with
    | |- dec_state (st _) < I63 =>
        let H := fresh in
        assert (In t (map fst (holders s))) as H by (apply holds_In; apply Hul; assumption);
        pose proof (proj2 (excl_rel _ _ _ Hexcl H)); unfold I63 in *; lia
    end.
  (* nobody is in the window while mtx is free *)
  all: try solve [intros u Hu; upd_cases; [discriminate Hu|
                  apply in_window_mtx_pc in Hu; apply Hm1 in Hu; congruence]].
  all: try solve [intros u Hu; upd_cases;
                  match goal with Hc : (_ =? 0) && _ = true |- _ => apply andb_true_iff in Hc; destruct Hc as [Hc _]; apply Z.eqb_eq in Hc; exact Hc end].
  (* unlockers still hold *)
  all: try solve [intros u Hu; upd_cases; [discriminate Hu| first [apply holds_cons | apply holds_remove; [assumption|]]; apply Hul; exact Hu]].
  (* the queue *)
  all: try solve [intros h Hin; apply in_app_or in Hin; destruct Hin as [Hin|[<-|[]]]; upd_cases; try tauto;
                  [destruct (Hq _ Hin) as [Hp _]; rewrite E in Hp; destruct Hp; discriminate | apply Hq; exact Hin]].
  all: try match goal with
    | |- NoDup (q _ ++ [_]) =>
        apply NoDup_app_iff_tail; [exact Hnd | intros Hin; destruct (Hq _ Hin) as [Hp _]; rewrite E in Hp; destruct Hp; discriminate]
    end.
  all: try solve [intros h Hin; apply in_app_or in Hin; destruct Hin as [Hin|[<-|[]]]; upd_cases; simpl; try tauto;
                  try (apply Hq; exact Hin);
                  try (exfalso; destruct (Hq _ Hin) as [Hp _]; rewrite E in Hp; destruct Hp; discriminate)].
  (* notify_one: the rest of the queue *)
  all: try solve [intros h Hin;
                  try (match goal with E0 : q _ = _ :: _ |- _ => rewrite E0 in Hnd, Hq end);
                  inversion Hnd; subst;
                  assert (In h (t0 :: l)) as Hin' by (right; exact Hin);
                  destruct (Hq _ Hin') as [Hp Hw];
                  upd_cases; simpl; try tauto; try (exfalso; congruence);
                  try (exfalso; rewrite E in Hp; destruct Hp; discriminate)].
  (* a waiter leaves the queue *)
  all: try match goal with
    | Hm : mem_tid _ _ && _ = true |- _ => apply andb_true_iff in Hm; destruct Hm as [Hm _]
    end.
  all: try match goal with
    | Hm : mem_tid _ _ = true |- _ => apply mem_tid_In in Hm
    end.
  all: try solve [intros h Hin; pose proof (remove_tid_self_notin t _ Hnd);
                  apply remove_tid_In in Hin as Hin';
                  upd_cases; try tauto; try (apply Hq; exact Hin')].
  all: try solve [intros u w Hw; upd_cases; try (apply Hq; assumption); try (eapply Hwk; eauto)].
  all: try solve [inversion Hnd; assumption].
  all: apply remove_tid_NoDup; exact Hnd.
Qed.

Lemma reach_Inv s : reach s -> Inv s.
Proof. induction 1; [exact Inv0|eapply Inv_step; eauto]. Qed.

