(* C06_QE3B.v — replay function of engine E3 for the BLOCKING path of qrwlock between OS-thread participants
   (harness/C06/qrw_e3b.cpp): lock(mode, timeout) / try_lock(mode) / unlock() with the class's two condition
   variables served by instrumented stand-ins of the three scheduler entry points it reaches
   (condition_variable::wait(spinlock*, Timeout), waitq::resume_one, waitq::resume_all) and a harness-controlled clock.
   EXECUTABLE DEFINITIONS ONLY.

   One harness point = one call of `bstep` = at most ONE transition of the proved step relation of C06_QModel.v:
     atomic op on lock_state / spin._lock        qth_step   (QTry QCas QSpinX QSpinL QRel QDefer QUlLoad QUlSub QUlStore)
     enq.cvu / enq.cvs                           qth_step   (QEnq: prepare_usleep)
     n1.cvu.k / na.cvs.k                         qth_step   (QWakeU / QWakeS: k = 1 + notified thread, 0 = queue empty)
     blk.0   sleeper scheduled, still asleep     no transition (stutter)
     blk.1   sleeper sees that it was notified   no transition (the model's QSleep step is the xchg that follows)
     blk.2   the timer fires                     qstep (QTimeout t): deadline <= clock and (flavor 1, or every unfinished
                                                 participant is asleep, i.e. time has to pass)
     blk.3   dismissed                           no transition: every unfinished participant is asleep and no deadline has
                                                 passed — nothing is enabled any more; t is reported as blocked
     tick                                        clock += 200 (script op A; not a lock operation)
   calls are entered with qstep (QCallLock / QCallTry / QCallUnlock) in the thread-local code after a point, exactly
   where the C++ enters them.  So every E3 run is a run of `qstep` (labels QTh, QTimeout, QCallLock, QCallTry, QCallUnlock), the relation
   qrw_excl / qrw_no_lost_wake / qrw_admission / qrw_failed_noop quantify over. *)
From Coq Require Import ZArith List Bool Arith.
From PV Require Import Base.U64 E3.E3_Run C06.C06_Model C06.C06_QModel C06.C06_QE3.
Import ListNotations.
Local Open Scope Z_scope.

Inductive bop : Type := BLock (m : mode) (tmo : Z) | BTry (m : mode) | BUnlock | BTick.

Record bres : Type := mkBRes { br_ret : Z; br_err : Z; br_k0 : Z; br_k1 : Z }.

Record qb : Type := mkQB {
  b_q : qrw;
  b_script : tid -> list bop;
  b_res : tid -> list bres;          (* completed ops, newest first; ret -2 = unlock skipped (not held) *)
  b_now : Z;                         (* the harness clock (photon::now) *)
  b_dl : tid -> Z;                   (* deadline of the blocking call in progress (meaningful when qtimed) *)
  b_seen : tid -> bool;              (* the woken sleeper has passed its "blk" point: next is spin.lock() *)
  b_tick : tid -> bool;              (* the op in progress is a tick *)
  b_dis : tid -> bool;               (* dismissed (blocked for ever) *)
  b_k : Z;                           (* number of logged points so far *)
  b_k0 : tid -> Z;                   (* log index at which the op in progress started *)
  b_n : nat
}.

Definition TICK_US : Z := 200.
Definition N_ENQU : Z := 0.
Definition N_ENQS : Z := 1.
Definition N_BLK : Z := 2.
Definition N_N1U : Z := 3.
Definition N_NAS : Z := 4.
Definition N_TICK : Z := 5.

Definition bset_q (st : qb) (s : qrw) : qb :=
  mkQB s (b_script st) (b_res st) (b_now st) (b_dl st) (b_seen st) (b_tick st) (b_dis st) (b_k st) (b_k0 st) (b_n st).
Definition bset_seen (st : qb) (t : tid) (v : bool) : qb :=
  mkQB (b_q st) (b_script st) (b_res st) (b_now st) (b_dl st) (upd (b_seen st) t v) (b_tick st) (b_dis st) (b_k st) (b_k0 st) (b_n st).
Definition bset_tick (st : qb) (t : tid) (v : bool) : qb :=
  mkQB (b_q st) (b_script st) (b_res st) (b_now st) (b_dl st) (b_seen st) (upd (b_tick st) t v) (b_dis st) (b_k st) (b_k0 st) (b_n st).
Definition bset_dis (st : qb) (t : tid) : qb :=
  mkQB (b_q st) (b_script st) (b_res st) (b_now st) (b_dl st) (b_seen st) (b_tick st) (upd (b_dis st) t true) (b_k st) (b_k0 st) (b_n st).
Definition bset_now (st : qb) (x : Z) : qb :=
  mkQB (b_q st) (b_script st) (b_res st) x (b_dl st) (b_seen st) (b_tick st) (b_dis st) (b_k st) (b_k0 st) (b_n st).
Definition bset_dl (st : qb) (t : tid) (x : Z) : qb :=
  mkQB (b_q st) (b_script st) (b_res st) (b_now st) (upd (b_dl st) t x) (b_seen st) (b_tick st) (b_dis st) (b_k st) (b_k0 st) (b_n st).
Definition bcount (st : qb) : qb :=
  mkQB (b_q st) (b_script st) (b_res st) (b_now st) (b_dl st) (b_seen st) (b_tick st) (b_dis st) (b_k st + 1) (b_k0 st) (b_n st).
(* op of t completed with (r, e): its log range is [b_k0 t, b_k) *)
Definition bpush (st : qb) (t : tid) (r e : Z) : qb :=
  mkQB (b_q st) (b_script st) (upd (b_res st) t (mkBRes r e (b_k0 st t) (b_k st) :: b_res st t)) (b_now st) (b_dl st)
       (b_seen st) (b_tick st) (b_dis st) (b_k st) (b_k0 st) (b_n st).
(* the next op of t starts here *)
Definition bpop (st : qb) (t : tid) : qb :=
  mkQB (b_q st) (upd (b_script st) t (tl (b_script st t))) (b_res st) (b_now st) (b_dl st) (b_seen st) (b_tick st) (b_dis st)
       (b_k st) (upd (b_k0 st) t (b_k st)) (b_n st).

(* the thread-local code of participant t up to its next point: completed calls return, the next op of the script is
   entered (a Timeout(tmo) is constructed from the clock as it is now) *)
Fixpoint bnorm (fuel : nat) (st : qb) (t : tid) : qb :=
  match fuel with
  | O => st
  | S f =>
      let s := b_q st in
      match qp (qthr s t) with
      | QIdle =>
          if b_tick st t then st else
          match b_script st t with
          | [] => st
          | o :: _ =>
              let st1 := bpop st t in
              match o with
              | BLock m tmo =>
                  match qstep s (QCallLock t m (0 <=? tmo)) with
                  | Some s1 => bset_dl (bset_q st1 s1) t (b_now st + tmo)
                  | None => st1
                  end
              | BTry m => match qstep s (QCallTry t m) with Some s1 => bset_q st1 s1 | None => st1 end
              | BUnlock =>
                  if qholds s t
                  then match qstep s (QCallUnlock t) with Some s1 => bset_q st1 s1 | None => st1 end
                  else bnorm f (bpush st1 t (-2) 0) t
              | BTick => bset_tick st1 t true
              end
          end
      | _ => st
      end
  end.

Definition BFUEL : nat := 64.

Definition bfin (st : qb) (t : tid) : bool :=
  b_dis st t ||
  match qp (qthr (b_q st) t), b_script st t with
  | QIdle, [] => negb (b_tick st t)
  | _, _ => false
  end.

Definition basleep (s : qrw) (t : tid) : bool :=
  match qp (qthr s t), qwake (qthr s t) with
  | QSleep, None => true
  | _, _ => false
  end.
Definition bexpired (st : qb) (t : tid) : bool := qtimed (qthr (b_q st) t) && (b_dl st t <=? b_now st).
(* every unfinished participant other than t is asleep *)
Definition bstuck (st : qb) (t : tid) : bool :=
  forallb (fun p => Nat.eqb p t || bfin st p || basleep (b_q st) p) (seq 0 (b_n st)).
Definition bsome_expired (st : qb) : bool :=
  existsb (fun p => negb (bfin st p) && basleep (b_q st) p && bexpired st p) (seq 0 (b_n st)).

Definition hd_code (l : list tid) : Z := match l with h :: _ => Z.of_nat h + 1 | [] => 0 end.

(* the observation of the point that `qth_step s t` is about to execute (pc not QIdle / QSleep) *)
Definition b_obs (s : qrw) (t : tid) : E3_Run.obs :=
  let th := qthr s t in
  match qp th with
  | QEnq => ob_user (match qmd th with WR => N_ENQU | RD => N_ENQS end) 0 0 0
  | QDefer => ob_st A_SPIN (-1) 0
  | QWakeU => ob_user N_N1U 1 (hd_code (qu s)) 0
  | QWakeS => ob_user N_NAS 1 (hd_code (qs s)) 0
  | _ => q_obs s t
  end.

Definition bth (st : qb) (t : tid) (o : E3_Run.obs) : qb * E3_Run.obs :=
  let st0 := bcount st in
  match qth_step (b_q st) t with
  | Some (s1, ORet r e) => (bnorm BFUEL (bpush (bset_q st0 s1) t r e) t, o)
  | Some (s1, _) => (bnorm BFUEL (bset_q st0 s1) t, o)
  | None => (st, ob_none)
  end.

Definition bstep (st : qb) (t : tid) (flavor : nat) : qb * E3_Run.obs :=
  let s := b_q st in
  let th := qthr s t in
  match qp th with
  | QIdle =>
      if b_tick st t
      then let st1 := bset_now (bset_tick (bcount st) t false) (b_now st + TICK_US) in
           (bnorm BFUEL (bpush st1 t 0 0) t, ob_user N_TICK 0 0 0)
      else (st, ob_none)
  | QSleep =>
      match qwake th with
      | Some _ =>
          if b_seen st t
          then bth (bset_seen st t false) t (ob_xg A_SPIN (-1) 1 (spin_val s))
          else (bset_seen (bcount st) t true, ob_user N_BLK 1 1 0)
      | None =>
          let sk := bstuck st t in
          if bexpired st t && (Nat.eqb flavor 1 || sk)
          then match qstep s (QTimeout t) with
               | Some s1 => (bset_seen (bset_q (bcount st) s1) t true, ob_user N_BLK 1 2 0)
               | None => (bcount st, ob_user N_BLK 1 0 0)
               end
          else if sk && negb (bsome_expired st)
          then (bset_dis (bcount st) t, ob_user N_BLK 1 3 0)
          else (bcount st, ob_user N_BLK 1 0 0)
      end
  | _ => bth st t (b_obs s t)
  end.

Fixpoint binit_all (st : qb) (k : nat) : qb :=
  match k with
  | O => st
  | S j => binit_all (bnorm BFUEL st j) j
  end.

Definition binit (scripts : list (list bop)) : qb :=
  let n := length scripts in
  binit_all (mkQB qrw0 (fun t => nth t scripts []) (fun _ => []) 0 (fun _ => 0) (fun _ => false) (fun _ => false)
                  (fun _ => false) 0 (fun _ => 0) n) n.

(* (final state, log, livelock) *)
Definition qb_run (scripts : list (list bop)) (bound : nat) (sched : list nat) :=
  let n := length scripts in
  e3_run bstep bfin n bound sched (pred n) (binit scripts) [].

Definition b_blocked (st : qb) : list tid := filter (fun t => negb (bfin st t) || b_dis st t) (seq 0 (b_n st)).
Definition b_holdcount (st : qb) (t : tid) : nat := length (filter (fun x => Nat.eqb (fst x) t) (qholders (b_q st))).
