(* C06_Model.v — FINE-GRAINED model of photon::rwlock (thread/thread.cpp 1945-1991, thread/thread.h 566-577).
   EXECUTABLE DEFINITIONS ONLY (no proofs).

   Any number of threads on any number of vCPUs.  One transition = one access to shared state
   that is NOT protected by `mtx`, together with the mtx-protected code around it (DESIGN §4.3):
   `state`, the waiters' `rwlock_mark` and the decision to wait are only ever touched while
   holding `mtx` (lemma footprint_protected in C06_RWProofs.v); what is NOT protected by `mtx`
   is the condition variable's wait queue `cvar.q`: a waiter leaves it under its own
   `thread.lock` + `q.lock` when its timeout fires (resume_threads 1284-1298) or when it is
   interrupted (thread_interrupt 1476-1492), at any moment, from any vCPU.  So every evaluation
   of `cvar.q.th` in lock()/unlock() is a step of its own, and so is every `cvar.notify_one()`
   (waitq::resume_one 1740-1751: ScopedLockHead + prelocked_thread_interrupt = atomically
   dequeue whoever is the head NOW and make it runnable with error_number = -1).

   Time is not a model variable here: a `Timeout t` step is enabled whenever t waits with a
   finite timeout, an `Intr t e` step whenever t sleeps, so every theorem over `step` holds for
   every timing.  (The cooperative single-vCPU run of C06_E2.v uses the virtual clock of
   Sched/Core.v and calls the SAME `th_step`.)  Sequential consistency.

   The acquisition of `mtx` (photon::mutex, property C01) is abstracted to "enabled when free". *)
From Coq Require Import ZArith List Bool Arith.
From PV Require Import Base.U64.
Import ListNotations.
Local Open Scope Z_scope.

Definition tid := nat.

Definition ETIMEDOUT : Z := 110.
Definition EINVAL : Z := 22.
Definition ENOLCK : Z := 37.

(* thread.h 566-567 *)
Definition RLOCK : Z := 4096.
Definition WLOCK : Z := 8192.
Inductive mode : Type := RD | WR.
Definition mode_eqb (a b : mode) : bool := match a, b with RD, RD | WR, WR => true | _, _ => false end.
Definition mode_code (m : mode) : Z := match m with RD => RLOCK | WR => WLOCK end.

(* how a sleeping waiter was made runnable (thread::error_number when it resumes):
   WNotify = cvar.notify_one (error_number -1: cvar.wait returns 0);
   WTimeout = deadline passed (error_number 0: returns -1/ETIMEDOUT);
   WIntr e = thread_interrupt(th, e) (returns -1/e) *)
Inductive wake_t : Type := WNotify | WTimeout | WIntr (e : Z).

(* ---- the `state` word, literally (1958-1971) -------------------------------------------------
   uint64_t op = (mode == RLOCK) ? (1ULL << 63) : -1ULL;   conflict test `op & state`;
   `rol $1, op` then `state += op`  (int64 += uint64: unsigned arithmetic, converted back). *)
Definition I63 : Z := 9223372036854775808.       (* 2^63 *)
Definition to_u64 (x : Z) : Z := wrap x.
Definition to_i64 (u : Z) : Z := if u <? I63 then u else u - W64.
Definition op_of (m : mode) : Z := match m with RD => I63 | WR => MAX64 end.
Definition rol1 (x : Z) : Z := wrap (x * 2) + x / I63.
Definition conflict (m : mode) (s : Z) : bool := negb (Z.land (op_of m) (to_u64 s) =? 0).
Definition add_op (m : mode) (s : Z) : Z := to_i64 (wrap (to_u64 s + rol1 (op_of m))).
(* unlock 1978-1981 *)
Definition dec_state (s : Z) : Z := if 0 <? s then s - 1 else s + 1.
(* the model leaves its domain if the int64 would overflow (2^63-1 simultaneous read holds) *)
Definition in_range (s : Z) : bool := (- I63 + 1 <? s) && (s <? I63 - 1).

(* ---- program counters -------------------------------------------------------------------- *)
Inductive rpc : Type :=
| Idle
| LkEnter     (* lock(mode,timeout) called, mode valid; at `scoped_lock lock(mtx)` (1950) *)
| LkEnq       (* holds mtx, decided to wait; at cvar.wait -> prepare_usleep (1961, 1359-1374) *)
| LkDefer     (* enqueued on cvar.q, SLEEPING; the deferred mutex_unlock(mtx) has not run yet (1397) *)
| LkSleep     (* mtx released; sleeping in cvar.q, or woken and about to re-lock mtx (1869-1871) *)
| UlEnter     (* unlock() called; at `scoped_lock lock(mtx)` (1977) *)
| UlIf2       (* holds mtx; `state == 0 && cvar.q.th` was true; at the inner `if` (1983) *)
| UlNotW      (* at cvar.notify_one() of the writer arm (1984) *)
| UlWhile     (* at the `while` condition (1986) *)
| UlNotR.     (* at cvar.notify_one() of the loop body (1987) *)

Definition rpc_eqb (a b : rpc) : bool :=
  match a, b with
  | Idle, Idle | LkEnter, LkEnter | LkEnq, LkEnq | LkDefer, LkDefer | LkSleep, LkSleep
  | UlEnter, UlEnter | UlIf2, UlIf2 | UlNotW, UlNotW | UlWhile, UlWhile | UlNotR, UlNotR => true
  | _, _ => false
  end.

Record rthread : Type := mkT {
  pc : rpc;
  md : mode;                 (* CURRENT->rwlock_mark & (RLOCK|WLOCK) while inside lock() *)
  timed : bool;              (* the current lock() has a finite timeout *)
  wake : option wake_t       (* set when the thread is taken out of cvar.q; consumed on resume *)
}.
Definition thread0 : rthread := mkT Idle RD false None.
Definition set_pc (x : rthread) (p : rpc) : rthread := mkT p (md x) (timed x) (wake x).
Definition set_wake (x : rthread) (w : option wake_t) : rthread := mkT (pc x) (md x) (timed x) w.

Record rw : Type := mkRW {
  st : Z;                        (* rwlock::state *)
  mtx : option tid;              (* owner of rwlock::mtx *)
  q : list tid;                  (* cvar.q, FIFO, head first *)
  thr : tid -> rthread;
  holders : list (tid * mode);   (* GHOST ledger: lock() calls that returned 0 and were not yet unlocked *)
  nlog : list tid                (* GHOST: threads notified by unlock(), newest first *)
}.
Definition rw0 : rw := mkRW 0 None [] (fun _ => thread0) [] [].

Definition upd {A : Type} (f : tid -> A) (t : tid) (v : A) : tid -> A :=
  fun x => if Nat.eqb x t then v else f x.

Definition set_st (s : rw) (x : Z) : rw := mkRW x (mtx s) (q s) (thr s) (holders s) (nlog s).
Definition set_mtx (s : rw) (x : option tid) : rw := mkRW (st s) x (q s) (thr s) (holders s) (nlog s).
Definition set_q (s : rw) (x : list tid) : rw := mkRW (st s) (mtx s) x (thr s) (holders s) (nlog s).
Definition set_thr (s : rw) (t : tid) (x : rthread) : rw := mkRW (st s) (mtx s) (q s) (upd (thr s) t x) (holders s) (nlog s).
Definition set_holders (s : rw) (x : list (tid * mode)) : rw := mkRW (st s) (mtx s) (q s) (thr s) x (nlog s).
Definition set_nlog (s : rw) (x : list tid) : rw := mkRW (st s) (mtx s) (q s) (thr s) (holders s) x.
Definition goto (s : rw) (t : tid) (p : rpc) : rw := set_thr s t (set_pc (thr s t) p).

Fixpoint remove_tid (t : tid) (l : list tid) : list tid :=
  match l with
  | [] => []
  | x :: r => if Nat.eqb x t then r else x :: remove_tid t r
  end.
Fixpoint remove_holder (t : tid) (l : list (tid * mode)) : list (tid * mode) :=
  match l with
  | [] => []
  | (x, m) :: r => if Nat.eqb x t then r else (x, m) :: remove_holder t r
  end.
Fixpoint mem_tid (t : tid) (l : list tid) : bool :=
  match l with [] => false | x :: r => Nat.eqb x t || mem_tid t r end.
Definition holds (s : rw) (t : tid) : bool := mem_tid t (map fst (holders s)).
Definition is_nil {A : Type} (l : list A) : bool := match l with [] => true | _ => false end.

(* what a step of a thread shows to its caller *)
Inductive obs : Type :=
| OStep                  (* the call goes on *)
| OSleep                 (* prepare_usleep done: the thread is now SLEEPING in cvar.q *)
| ORet (r e : Z).        (* the call returned r; errno = e when r < 0 *)

(* waitq::resume_one(-1) on cvar.q (1740-1751) *)
Definition notify_one (s : rw) : rw :=
  match q s with
  | [] => s
  | h :: r => set_nlog (set_thr (set_q s r) h (set_wake (thr s h) (Some WNotify))) (h :: nlog s)
  end.

(* `state += rol(op); return 0` (1966-1972), ~DEFER (mark restored), ~scoped_lock *)
Definition acquire (s : rw) (t : tid) : option (rw * obs) :=
  if in_range (st s) then
    let m := md (thr s t) in
    let s1 := set_holders (set_st s (add_op m (st s))) ((t, m) :: holders s) in
    Some (set_thr (set_mtx s1 None) t (set_wake (set_pc (thr s t) Idle) None), ORet 0 0)
  else None.

(* return from unlock(): ~scoped_lock, return 0 *)
Definition ul_return (s : rw) (t : tid) : rw * obs := (goto (set_mtx s None) t Idle, ORet 0 0).

(* ---- one step of thread t inside its current call ---------------------------------------- *)
Definition th_step (s : rw) (t : tid) : option (rw * obs) :=
  let th := thr s t in
  match pc th with
  | Idle => None
  | LkEnter =>
      (* 1950-1959: scoped_lock(mtx); mark := mode; `if (cvar.q.th || (op & state))` *)
      match mtx s with
      | Some _ => None
      | None =>
          if negb (is_nil (q s)) || conflict (md th) (st s)
          then Some (goto (set_mtx s (Some t)) t LkEnq, OStep)
          else acquire s t
      end
  | LkEnq =>
      (* cvar.wait(lock, timeout) -> cvar_do_wait -> thread_usleep_defer -> prepare_usleep:
         under q.lock + thread.lock: push_back(self), SLEEPING (1359-1374) *)
      Some (set_thr (set_q s (q s ++ [t])) t (set_wake (set_pc th LkDefer) None), OSleep)
  | LkDefer =>
      (* on the next thread's stack: mutex_unlock(&mtx) (1397, 1808-1814) *)
      Some (goto (set_mtx s None) t LkSleep, OStep)
  | LkSleep =>
      match wake th with
      | None => None                                  (* still sleeping *)
      | Some w =>
          match mtx s with
          | Some _ => None                            (* cvar_do_wait re-locks mtx (1869-1874) *)
          | None =>
              match w with
              | WNotify =>                            (* ret 0; `while (op & state)` (1964) *)
                  if conflict (md th) (st s)
                  then Some (set_thr (set_mtx s (Some t)) t (set_wake (set_pc th LkEnq) None), OStep)
                  else acquire s t
              | WTimeout =>                           (* 1962-1963: return -1 *)
                  Some (set_thr s t (set_wake (set_pc th Idle) None), ORet (-1) ETIMEDOUT)
              | WIntr e =>
                  Some (set_thr s t (set_wake (set_pc th Idle) None), ORet (-1) e)
              end
          end
      end
  | UlEnter =>
      (* 1977-1982: scoped_lock(mtx); state--/++; `if (state == 0 && cvar.q.th)` *)
      match mtx s with
      | Some _ => None
      | None =>
          let s1 := set_holders (set_st s (dec_state (st s))) (remove_holder t (holders s)) in
          if (st s1 =? 0) && negb (is_nil (q s1))
          then Some (goto (set_mtx s1 (Some t)) t UlIf2, OStep)
          else Some (goto s1 t Idle, ORet 0 0)
      end
  | UlIf2 =>
      (* 1983: `if (cvar.q.th && (cvar.q.th->rwlock_mark & WLOCK))` *)
      match q s with
      | h :: _ => match md (thr s h) with
                  | WR => Some (goto s t UlNotW, OStep)
                  | RD => Some (goto s t UlWhile, OStep)
                  end
      | [] => Some (goto s t UlWhile, OStep)
      end
  | UlNotW =>
      (* 1984: cvar.notify_one(); then return *)
      Some (ul_return (notify_one s) t)
  | UlWhile =>
      (* 1986: `while (cvar.q.th && (cvar.q.th->rwlock_mark & RLOCK))` *)
      match q s with
      | h :: _ => match md (thr s h) with
                  | RD => Some (goto s t UlNotR, OStep)
                  | WR => Some (ul_return s t)
                  end
      | [] => Some (ul_return s t)
      end
  | UlNotR =>
      (* 1987 *)
      Some (goto (notify_one s) t UlWhile, OStep)
  end.

(* ---- labels: calls, thread steps, and the environment ------------------------------------- *)
Inductive label : Type :=
| CallLock (t : tid) (m : mode) (tm : bool)   (* t calls lock(m, timeout); tm = timeout is finite *)
| CallUnlock (t : tid)                        (* t calls unlock() *)
| Th (t : tid)                                (* next step of t's current call *)
| Timeout (t : tid)                           (* t's deadline passed: resume_threads on t's vCPU *)
| Intr (t : tid) (e : Z).                     (* thread_interrupt(t, e) by any thread on any vCPU *)

Definition step (s : rw) (l : label) : option rw :=
  match l with
  | CallLock t m tm =>
      match pc (thr s t) with
      | Idle => Some (set_thr s t (mkT LkEnter m tm None))
      | _ => None
      end
  | CallUnlock t =>
      match pc (thr s t) with
      | Idle => Some (goto s t UlEnter)
      | _ => None
      end
  | Th t => option_map fst (th_step s t)
  | Timeout t =>
      if mem_tid t (q s) && timed (thr s t)
      then Some (set_thr (set_q s (remove_tid t (q s))) t (set_wake (thr s t) (Some WTimeout)))
      else None
  | Intr t e =>
      if 0 <? e then
        if mem_tid t (q s)
        then Some (set_thr (set_q s (remove_tid t (q s))) t (set_wake (thr s t) (Some (WIntr e))))
        else
          (* READY after a timeout wake-up, error_number == 0: the interrupt overwrites it (1483-1484) *)
          match wake (thr s t) with
          | Some WTimeout => Some (set_thr s t (set_wake (thr s t) (Some (WIntr e))))
          | _ => None
          end
      else None
  end.

(* the client is well-formed: unlock() is only called by a thread that holds the lock *)
Definition wf_label (s : rw) (l : label) : bool :=
  match l with
  | CallUnlock t => holds s t
  | _ => true
  end.

Fixpoint run (s : rw) (ls : list label) : option rw :=
  match ls with
  | [] => Some s
  | l :: r => if wf_label s l then match step s l with Some s' => run s' r | None => None end else None
  end.

(* "single-vCPU shaped" schedules: no waiter leaves the queue by timeout/interrupt while an
   unlock() is between its first look at the queue and its last notify (on one vCPU unlock()
   runs without a context switch, and resume_threads / thread_interrupt only run in between) *)
Definition in_window (p : rpc) : bool :=
  match p with UlIf2 | UlNotW | UlWhile | UlNotR => true | _ => false end.
Definition window_open (s : rw) : bool :=
  match mtx s with Some u => in_window (pc (thr s u)) | None => false end.
Definition guard_label (s : rw) (l : label) : bool :=
  match l with
  | Timeout _ | Intr _ _ => negb (window_open s)
  | _ => true
  end.
Fixpoint grun (s : rw) (ls : list label) : option rw :=
  match ls with
  | [] => Some s
  | l :: r => if wf_label s l && guard_label s l
              then match step s l with Some s' => grun s' r | None => None end else None
  end.
