(* C06_RWProofs3.v — rwlock: the no-stuck invariant over schedules in which no waiter leaves the
   queue inside an unlock()'s decision window (greach), and the concrete schedules showing what
   happens when one does. *)
From Coq Require Import ZArith Lia List Bool Arith.
From PV Require Import Base.U64 C06.C06_Model C06.C06_RWArith C06.C06_RWProofs C06.C06_RWProofs2.
Import ListNotations.
Local Open Scope Z_scope.

Definition notified (s : rw) : Prop := exists a, wake (thr s a) = Some WNotify.
Definition windowed (s : rw) : Prop := exists u, in_window (pc (thr s u)) = true.

Record NS (s : rw) : Prop := mkNS {
  ns_main : st s = 0 -> q s <> [] -> windowed s \/ notified s;
  ns_if2 : forall u, pc (thr s u) = UlIf2 -> q s <> [];
  ns_notw : forall u, pc (thr s u) = UlNotW -> q s <> [];
  ns_while : forall u, pc (thr s u) = UlWhile ->
             q s = [] \/ (exists h r, q s = h :: r /\ md (thr s h) = RD) \/ notified s;
  ns_notr : forall u, pc (thr s u) = UlNotR -> q s <> [];
  ns_enq : forall t, pc (thr s t) = LkEnq -> st s <> 0 \/ notified s
}.

Lemma NS0 : NS rw0.
Proof. constructor; simpl; intros; try discriminate; tauto. Qed.

(* a step that keeps every notified-and-not-yet-resumed thread as it is *)
Lemma notified_keep s s' :
  (forall a, wake (thr s a) = Some WNotify -> wake (thr s' a) = Some WNotify) -> notified s -> notified s'.
Proof. intros H [a Ha]. exists a. apply H. exact Ha. Qed.

Lemma windowed_keep s s' :
  (forall u, in_window (pc (thr s u)) = true -> in_window (pc (thr s' u)) = true) -> windowed s -> windowed s'.
Proof. intros H [a Ha]. exists a. apply H. exact Ha. Qed.

Lemma window_closed_no_window s : Inv s -> mtx s = None -> ~ windowed s.
Proof.
  intros HI Hm [u Hu]. apply in_window_mtx_pc in Hu. apply (i_mtx1 _ HI) in Hu. congruence.
Qed.

Lemma acquire_nonzero s t s' o : Inv s -> acquire s t = Some (s', o) -> conflict (md (thr s t)) (st s) = false -> st s' <> 0.
Proof.
  intros HI Ha Hc. unfold acquire in Ha. destruct (in_range (st s)) eqn:Hr; [|discriminate].
  inversion Ha; subst; clear Ha. simpl.
  destruct (excl_acq (st s) (holders s) t (md (thr s t)) (i_excl _ HI) (i_rng _ HI) Hr Hc) as [_ [_ H]]. exact H.
Qed.

Lemma conflict_nonzero s m : Inv s -> conflict m (st s) = true -> st s <> 0.
Proof.
  intros HI Hc Hz. rewrite Hz in Hc. destruct m; vm_compute in Hc; discriminate.
Qed.

Ltac keep_notified Hwk :=
  match goal with
  | Hn : notified ?s |- notified _ =>
      eapply notified_keep; [|exact Hn]; intros a Ha; simpl; upd_cases; simpl; try assumption; try congruence;
      try (exfalso; destruct (Hwk _ _ Ha) as [Hp|Hp]; congruence)
  end.

Lemma NS_step s l s' :
  Inv s -> NS s -> wf_label s l = true -> guard_label s l = true -> step s l = Some s' -> NS s'.
Proof.
  intros HI HN Hwf Hg Hstep.
  assert (Inv s') as HI' by (eapply Inv_step; eauto).
  destruct HN as [Nmain Nif2 Nnotw Nwhile Nnotr Nenq].
  pose proof (i_wake _ HI) as Hwk. pose proof (i_q _ HI) as Hq. pose proof (i_mtx1 _ HI) as Hm1.
  step_cases Hstep; thr_simp.
  all: constructor; simpl.
  all: try solve [intros u Hu; upd_cases; try discriminate; eauto].
  all: match goal with |- ?G => idtac "GOAL" G end.
Abort.
