(* C06_RWProofs3.v — rwlock: the no-stuck invariant over schedules in which no waiter leaves the
   queue inside an unlock()'s decision window (greach), and the concrete schedules showing what
   happens when one does. *)
From Coq Require Import ZArith Lia List Bool Arith.
From PV Require Import Base.U64 C06.C06_Model C06.C06_RWArith C06.C06_RWProofs C06.C06_RWProofs2.
Import ListNotations.
Local Open Scope Z_scope.

Definition notified (s : rw) : Prop := exists a, wake (thr s a) = Some WNotify.
Definition windowed (s : rw) : Prop := exists u, in_window (pc (thr s u)) = true.

Record NS (s : rw) : Prop := mkNS {
  ns_main : st s = 0 -> q s <> [] -> windowed s \/ notified s;
  ns_if2 : forall u, pc (thr s u) = UlIf2 -> q s <> [];
  ns_notw : forall u, pc (thr s u) = UlNotW -> q s <> [];
  ns_while : forall u, pc (thr s u) = UlWhile ->
             q s = [] \/ (exists h r, q s = h :: r /\ md (thr s h) = RD) \/ notified s;
  ns_notr : forall u, pc (thr s u) = UlNotR -> q s <> [];
  ns_enq : forall t, pc (thr s t) = LkEnq -> st s <> 0 \/ notified s
}.

Lemma NS0 : NS rw0.
Proof. constructor; simpl; intros; try discriminate; tauto. Qed.

(* a step that keeps every notified-and-not-yet-resumed thread as it is *)
Lemma notified_keep s s' :
  (forall a, wake (thr s a) = Some WNotify -> wake (thr s' a) = Some WNotify) -> notified s -> notified s'.
Proof. intros H [a Ha]. exists a. apply H. exact Ha. Qed.

Lemma windowed_keep s s' :
  (forall u, in_window (pc (thr s u)) = true -> in_window (pc (thr s' u)) = true) -> windowed s -> windowed s'.
Proof. intros H [a Ha]. exists a. apply H. exact Ha. Qed.

Lemma window_closed_no_window s : Inv s -> mtx s = None -> ~ windowed s.
Proof.
  intros HI Hm [u Hu]. apply in_window_mtx_pc in Hu. apply (i_mtx1 _ HI) in Hu. congruence.
Qed.

Lemma acquire_nonzero s t s' o : Inv s -> acquire s t = Some (s', o) -> conflict (md (thr s t)) (st s) = false -> st s' <> 0.
Proof.
  intros HI Ha Hc. unfold acquire in Ha. destruct (in_range (st s)) eqn:Hr; [|discriminate].
  inversion Ha; subst; clear Ha. simpl.
  destruct (excl_acq (st s) (holders s) t (md (thr s t)) (i_excl _ HI) (i_rng _ HI) Hr Hc) as [_ [_ H]]. exact H.
Qed.

Lemma conflict_nonzero s m : Inv s -> conflict m (st s) = true -> st s <> 0.
Proof.
  intros HI Hc Hz. rewrite Hz in Hc. destruct m; vm_compute in Hc; discriminate.
Qed.

Lemma notified_upd s t x a b c d e :
  notified s -> (wake (thr s t) = Some WNotify -> wake x = Some WNotify) ->
  notified (mkRW a b c (upd (thr s) t x) d e).
Proof.
  intros [u Hu] H. destruct (Nat.eq_dec u t) as [->|Hne].
  - exists t. simpl. rewrite upd_same. auto.
  - exists u. simpl. rewrite upd_other by exact Hne. exact Hu.
Qed.

Lemma windowed_upd s t x a b c d e :
  windowed s -> (in_window (pc (thr s t)) = true -> in_window (pc x) = true) ->
  windowed (mkRW a b c (upd (thr s) t x) d e).
Proof.
  intros [u Hu] H. destruct (Nat.eq_dec u t) as [->|Hne].
  - exists t. simpl. rewrite upd_same. auto.
  - exists u. simpl. rewrite upd_other by exact Hne. exact Hu.
Qed.

Ltac nk Hwk :=
  match goal with
  | Hn : notified _ |- notified _ =>
      apply notified_upd; [exact Hn|];
      let Ha := fresh in intros Ha;
      first [ exact Ha | simpl; exact Ha | exfalso; congruence
            | exfalso; destruct (Hwk _ _ Ha); congruence ]
  end.
Ltac wk :=
  match goal with
  | Hn : windowed _ |- windowed _ =>
      apply windowed_upd; [exact Hn|];
      let Ha := fresh in intros Ha;
      first [ reflexivity
            | exfalso; match goal with E : pc _ = _ |- _ => rewrite E in Ha; discriminate Ha end ]
  end.


(* what a step can do while ANOTHER thread owns mtx *)
Lemma step_under_foreign_mtx s l s' u :
  Inv s -> mtx s = Some u -> u <> actor l -> guard_label s l = true -> step s l = Some s' ->
  st s' = st s /\ mtx s' = mtx s /\ thr s' u = thr s u /\
  (forall h, In h (q s') -> In h (q s)) /\
  (in_window (pc (thr s u)) = true -> q s' = q s /\ forall h, In h (q s) -> md (thr s' h) = md (thr s h)) /\
  (notified s -> notified s') /\
  (forall x p, in_window p = true \/ p = LkEnq -> pc (thr s' x) = p -> pc (thr s x) = p).
Proof.
  intros HI Hm Hne Hg Hstep.
  pose proof (i_wake _ HI) as Hwk. pose proof (i_q _ HI) as Hq. pose proof (i_mtx1 _ HI) as Hm1.
  assert (forall x, mtx_pc (pc (thr s x)) = true -> x = u) as Hown.
  { intros x Hx. apply Hm1 in Hx. congruence. }
  step_cases Hstep; simpl in Hne; thr_simp; try congruence.
  all: try (exfalso; apply Hne; symmetry; apply Hown; rewrite E; reflexivity).
  all: try match goal with
    | Hm0 : mem_tid _ _ && _ = true |- _ => apply andb_true_iff in Hm0; destruct Hm0 as [Hm0 _]
    end.
  all: try match goal with
    | Hm0 : mem_tid _ _ = true |- _ => apply mem_tid_In in Hm0; destruct (Hq _ Hm0) as [Hpq Hwq]
    end.
  all: repeat split; auto; try (apply upd_other; exact Hne).
  all: try solve [intros; exfalso; unfold window_open in Hg; rewrite Hm in Hg;
                  match goal with H : in_window _ = true |- _ => rewrite H in Hg end; discriminate].
  all: try solve [intros Hn; nk Hwk].
  all: try solve [intros x p Hp; unfold upd; destruct (Nat.eqb_spec x t); simpl; intros Hx; try exact Hx; try (match goal with e : _ = _ |- _ => rewrite e; exact Hx end); subst p; simpl in Hp; destruct Hp; discriminate].
  all: try solve [intros h Hh; apply remove_tid_In in Hh; exact Hh].
  all: try solve [intros h Hh; upd_cases; try reflexivity; exfalso; destruct (Hq _ Hh) as [[Hp|Hp] _]; congruence].
Qed.

Lemma pc_upd_wake (f : tid -> rthread) t0 w t y x :
  x <> t -> pc (upd (upd f t0 (set_wake (f t0) w)) t y x) = pc (f x).
Proof.
  intros Hne. rewrite upd_other by exact Hne. unfold upd. destruct (Nat.eqb_spec x t0); [subst; reflexivity|reflexivity].
Qed.

Lemma owner_not_window s t : Inv s -> mtx s = Some t -> in_window (pc (thr s t)) = false -> ~ windowed s.
Proof.
  intros HI Hm Hp [w Hw]. pose proof Hw as Hw'. apply in_window_mtx_pc in Hw. apply (i_mtx1 _ HI) in Hw.
  assert (w = t) by congruence. subst w. congruence.
Qed.

Lemma subset_nil {A} (l l' : list A) : (forall h, In h l' -> In h l) -> l' <> [] -> l <> [].
Proof. intros H Hn ->. destruct l' as [|x r]; [tauto|]. apply (H x). left. reflexivity. Qed.

(* pointwise fields: split on whether the thread is the actor *)
Ltac pw x Hx t :=
  intros x; unfold upd; destruct (Nat.eqb_spec x t) as [->|?]; simpl; intros Hx; try discriminate Hx.

Lemma NS_step s l s' :
  Inv s -> NS s -> wf_label s l = true -> guard_label s l = true -> step s l = Some s' -> NS s'.
Proof.
  intros HI HN Hwf Hg Hstep.
  destruct HN as [Nmain Nif2 Nnotw Nwhile Nnotr Nenq].
  pose proof (i_wake _ HI) as Hwk. pose proof (i_q _ HI) as Hq.
  destruct (mtx s) as [u|] eqn:Hm;
    pose proof (i_mtx1 _ HI) as Hm1; pose proof (i_mtx2 _ HI) as Hm2.
  - destruct (Nat.eq_dec u (actor l)) as [Heq|Hne].
    + (* the actor owns mtx *)
      subst u.
      assert (forall x p, mtx_pc p = true -> pc (thr s x) = p -> x = actor l) as Hown.
      { intros x p Hp Hx. assert (mtx s = Some x) by (apply Hm1; rewrite Hx; exact Hp). congruence. }
      pose proof (Hm2 _ Hm) as Hmine.
      step_cases Hstep; simpl in Hm, Hown, Hmine; thr_simp; try congruence.
      all: try (rewrite E in Hmine; discriminate Hmine).
      all: constructor; simpl.
      all: try solve [pw x Hx t; exfalso; match goal with n : _ <> _ |- _ => apply n end; eapply Hown; [|exact Hx]; reflexivity].
      all: try match goal with
        | Hm0 : mem_tid _ _ && _ = true |- _ => apply andb_true_iff in Hm0; destruct Hm0 as [Hm0 _]
        end.
      all: try match goal with
        | Hm0 : mem_tid _ _ = true |- _ => apply mem_tid_In in Hm0; destruct (Hq _ Hm0) as [Hpq Hwq]
        end.
      all: try match goal with
        | Hw0 : wake (thr _ _) = Some WTimeout |- _ => pose proof (Hwk _ _ Hw0) as Hpq
        end.
      all: try (assert (pc (thr s t) = LkDefer) as Hpt
                  by (destruct Hpq as [Hpq|Hpq]; [exact Hpq|rewrite Hpq in Hmine; discriminate Hmine])).
      (* the environment acts on the owner, who sits at LkDefer *)
      all: try solve [intros x; unfold upd; destruct (Nat.eqb_spec x t) as [Hxt|Hxt]; simpl; intros Hx; exfalso;
                      [congruence | apply Hxt; eapply Hown; [|exact Hx]; reflexivity]].
      all: try solve [intros Hz Hn;
                      assert (q s <> []) as Hn' by (intros Hqe; rewrite Hqe in Hn; apply Hn; reflexivity);
                      destruct (Nmain Hz Hn') as [Hw|Hnf];
                      [exfalso; eapply owner_not_window; eauto; rewrite Hpt; reflexivity | right; nk Hwk]].
      (* moves inside the window *)
      all: try solve [intros Hz Hn; left; exists t; simpl; rewrite upd_same; reflexivity].
      all: try solve [pw x Hx t; [|exfalso; match goal with n : _ <> _ |- _ => apply n end; eapply Hown; [|exact Hx]; reflexivity];
                      match goal with Hq0 : q _ = _ :: _ |- _ => rewrite Hq0; discriminate end].
      all: try solve [intros Hz Hn; exfalso; match goal with Hq0 : q _ = [] |- _ => apply Hn; exact Hq0 end].
      all: try solve [pw x Hx t; [|exfalso; match goal with n : _ <> _ |- _ => apply n end; eapply Hown; [|exact Hx]; reflexivity];
                      left; assumption].
      (* notify_one: the woken head is not the actor *)
      all: try (assert (t0 <> t) as Ht0
                  by (intros ->; match goal with Hq0 : q _ = _ :: _ |- _ =>
                        assert (In t (q s)) as Hin by (rewrite Hq0; left; reflexivity);
                        destruct (i_q _ HI _ Hin) as [[Hp|Hp] _]; rewrite E in Hp; discriminate Hp end)).
      all: try solve [intros x Hx; exfalso; destruct (Nat.eq_dec x t) as [->|Hxt];
                      [rewrite upd_same in Hx; simpl in Hx; discriminate Hx
                      | rewrite pc_upd_wake in Hx by exact Hxt; apply Hxt; eapply Hown; [|exact Hx]; reflexivity]].
      all: try solve [intros Hz Hn; right; exists t0; simpl; rewrite upd_other by exact Ht0; rewrite upd_same; reflexivity].
      all: try solve [intros x Hx; destruct (Nat.eq_dec x t) as [->|Hxt];
                      [right; right; exists t0; simpl; rewrite upd_other by exact Ht0; rewrite upd_same; reflexivity
                      | exfalso; rewrite pc_upd_wake in Hx by exact Hxt; apply Hxt; eapply Hown; [|exact Hx]; reflexivity]].
      * (* enqueue *)
        intros Hz Hn. destruct (Nenq t E) as [H|Hnf]; [tauto|]. right. nk Hwk.
      * (* deferred unlock *)
        intros Hz Hn. destruct (Nmain Hz Hn) as [Hw|Hnf]; [|right; nk Hwk].
        exfalso. eapply owner_not_window; eauto. rewrite E. reflexivity.
      * (* inner if: a reader at the head *)
        pw x Hx t; [|exfalso; match goal with n : _ <> _ |- _ => apply n end; eapply Hown; [|exact Hx]; reflexivity].
        right. left. match goal with Hq0 : q s = ?h :: ?r |- _ => exists h, r end. split; [assumption|].
        destruct (Nat.eqb_spec t0 t) as [->|_]; [exfalso|assumption].
        assert (In t (q s)) as Hin by (rewrite E0; left; reflexivity).
        destruct (i_q _ HI _ Hin) as [[Hp|Hp] _]; rewrite E in Hp; discriminate Hp.
      * (* loop exit on a writer *)
        intros Hz Hn. destruct (Nwhile t E) as [H|[[h [r [H1 H2]]]|Hnf]].
        -- congruence.
        -- try rewrite E0 in H1. inversion H1; subst. congruence.
        -- right. nk Hwk.
    + (* another thread owns mtx *)
      destruct (step_under_foreign_mtx s l s' u HI Hm Hne Hg Hstep) as [Hst [Hmt [Hu [Hsub [Hwin [Hnot Hpcs]]]]]].
      assert (forall x p, in_window p = true \/ p = LkEnq -> pc (thr s' x) = p -> x = u /\ pc (thr s u) = p) as Hown.
      { intros x p Hp Hx. apply Hpcs in Hx; [|exact Hp].
        assert (mtx s = Some x) as Hmx.
        { apply Hm1. rewrite Hx. destruct Hp as [Hp| ->]; [apply in_window_mtx_pc; exact Hp|reflexivity]. }
        assert (x = u) by congruence. subst x. split; [reflexivity|exact Hx]. }
      constructor.
      * intros Hz Hn. rewrite Hst in Hz. destruct (Nmain Hz (subset_nil _ _ Hsub Hn)) as [[w Hw]|Hnf].
        -- left. exists w. assert (w = u).
           { apply in_window_mtx_pc in Hw. apply Hm1 in Hw. congruence. }
           subst w. rewrite Hu. exact Hw.
        -- right. apply Hnot. exact Hnf.
      * intros x Hx. destruct (Hown x UlIf2 (or_introl eq_refl) Hx) as [-> Hp].
        destruct Hwin as [Hqq _]; [rewrite Hp; reflexivity|]. rewrite Hqq. eapply Nif2; eauto.
      * intros x Hx. destruct (Hown x UlNotW (or_introl eq_refl) Hx) as [-> Hp].
        destruct Hwin as [Hqq _]; [rewrite Hp; reflexivity|]. rewrite Hqq. eapply Nnotw; eauto.
      * intros x Hx. destruct (Hown x UlWhile (or_introl eq_refl) Hx) as [-> Hp].
        destruct Hwin as [Hqq Hmd]; [rewrite Hp; reflexivity|]. rewrite Hqq.
        destruct (Nwhile u Hp) as [H|[[h [r [H1 H2]]]|Hnf]]; [left; exact H| |right; right; apply Hnot; exact Hnf].
        right. left. exists h, r. split; [exact H1|]. rewrite Hmd; [exact H2|]. rewrite H1. left. reflexivity.
      * intros x Hx. destruct (Hown x UlNotR (or_introl eq_refl) Hx) as [-> Hp].
        destruct Hwin as [Hqq _]; [rewrite Hp; reflexivity|]. rewrite Hqq. eapply Nnotr; eauto.
      * intros x Hx. destruct (Hown x LkEnq (or_intror eq_refl) Hx) as [-> Hp].
        rewrite Hst. destruct (Nenq u Hp) as [H|H]; [left; exact H|right; apply Hnot; exact H].
  - (* mtx is free: nobody is at a pc that owns it *)
    assert (forall x p, mtx_pc p = true -> pc (thr s x) = p -> False) as Hfree.
    { intros x p Hp Hx. assert (mtx s = Some x) by (apply Hm1; rewrite Hx; exact Hp). congruence. }
    assert (~ windowed s) as Hnw by (apply window_closed_no_window; assumption).
    step_cases Hstep; thr_simp.
    all: try (exfalso; eapply (Hfree t); [|exact E]; reflexivity).
    all: constructor; simpl.
    all: try solve [pw x Hx t; exfalso; eapply (Hfree x); [|exact Hx]; reflexivity].
    all: try match goal with
      | Hm0 : mem_tid _ _ && _ = true |- _ => apply andb_true_iff in Hm0; destruct Hm0 as [Hm0 _]
      end.
    all: try match goal with
      | Hm0 : mem_tid _ _ = true |- _ => apply mem_tid_In in Hm0; destruct (Hq _ Hm0) as [Hpq Hwq]
      end.
    (* st and q unchanged (or q shrinks) *)
    all: try solve [intros Hz Hn; destruct (Nmain Hz Hn) as [Hw|Hnf]; [tauto|right; nk Hwk]].
    all: try solve [intros Hz Hn; assert (q s <> []) as Hn' by (intros Hqe; rewrite Hqe in Hn; apply Hn; reflexivity);
                    destruct (Nmain Hz Hn') as [Hw|Hnf]; [tauto|right; nk Hwk]].
    (* tracked pcs: the actor's pc did not change and is not one of them *)
    all: try solve [intros x; unfold upd; destruct (Nat.eqb_spec x t) as [Hxt|Hxt]; simpl; intros Hx;
                    exfalso; [rewrite Hx in *; destruct Hpq; discriminate | eapply (Hfree x); [|exact Hx]; reflexivity]].
    (* acquisitions: st' <> 0 *)
    all: try match goal with
      | Hc : negb (is_nil _) || conflict _ _ = false |- _ => apply orb_false_iff in Hc; destruct Hc as [_ Hc]
      end.
    all: try solve [intros Hz Hn; exfalso;
                    match goal with
                    | Hc : conflict ?m ?x = false, Hr : in_range ?x = true |- _ =>
                        destruct (excl_acq x (holders s) t m (i_excl _ HI) (i_rng _ HI) Hr Hc) as [_ [_ Ha3]]; tauto
                    end].
    (* a notified waiter finds the lock taken *)
    all: try solve [intros Hz Hn; exfalso; eapply conflict_nonzero; eauto].
    all: try solve [pw x Hx t; [left; eapply conflict_nonzero; eauto | exfalso; eapply (Hfree x); [|exact Hx]; reflexivity]].
    (* unlock *)
    all: try solve [intros Hz Hn; left; exists t; simpl; rewrite upd_same; reflexivity].
    all: try solve [pw x Hx t; [|exfalso; eapply (Hfree x); [|exact Hx]; reflexivity];
                    match goal with Hc : (_ =? 0) && negb (is_nil (q ?s0)) = true |- _ =>
                      apply andb_true_iff in Hc; destruct Hc as [_ Hc]; destruct (q s0); [discriminate Hc|discriminate] end].
    all: try solve [intros Hz Hn; exfalso;
                    match goal with Hc : (_ =? 0) && negb (is_nil (q ?s0)) = false |- _ =>
                      simpl in Hc; rewrite Hz in Hc; simpl in Hc; destruct (q s0); [tauto|discriminate Hc] end].
    all: try solve [intros x; unfold upd; destruct (Nat.eqb_spec x t) as [Hxt|Hxt]; simpl; intros Hx;
                    exfalso; [eapply (Hfree t); [|exact Hx]; reflexivity | eapply (Hfree x); [|exact Hx]; reflexivity]].
    (* lock() decides to wait *)
    pw x Hx t; [|exfalso; eapply (Hfree x); [|exact Hx]; reflexivity].
    apply orb_true_iff in E1. destruct (Z.eq_dec (st s) 0) as [Hz|Hz]; [|left; exact Hz].
    destruct E1 as [Hc|Hc]; [|exfalso; eapply conflict_nonzero; eauto].
    right. destruct (Nmain Hz) as [Hw|Hnf]; [destruct (q s); [discriminate Hc|discriminate]|tauto|nk Hwk].
Qed.
