(* C06_QE3.v — replay function of engine E3 for qrwlock: OS-thread participants calling
   try_lock(mode) / unlock() (thread.h 692-720; no photon scheduler, so no blocking lock()).
   EXECUTABLE DEFINITIONS ONLY.  One LOGGED transition per atomic operation on `lock_state` (ls)
   and `spin._lock` (spin) = one `qth_step` of C06_QModel.v; the transitions without an atomic
   operation (try_wake on empty wait queues, returning, starting the next op of the script) are
   run silently right after it, so every E3 run is a run of the proved step relation. *)
From Coq Require Import ZArith List Bool Arith.
From PV Require Import Base.U64 E3.E3_Run C06.C06_Model C06.C06_QModel.
Import ListNotations.
Local Open Scope Z_scope.

Inductive qop : Type := OTryW | OTryR | OUnlock.

Record qe3 : Type := mkQE3 {
  e_q : qrw;
  e_script : tid -> list qop;
  e_res : tid -> list Z               (* results of completed ops, newest first; -2 = unlock skipped (not held) *)
}.

Definition A_LS : Z := 0.
Definition A_SPIN : Z := 1.
Definition u64 (x : Z) : Z := wrap x.
Definition b2z (b : bool) : Z := if b then 1 else 0.
Definition spin_val (s : qrw) : Z := match spin s with None => 0 | Some _ => 1 end.

(* the observation of the atomic operation that `qth_step s t` is about to execute *)
Definition q_obs (s : qrw) (t : tid) : E3_Run.obs :=
  let th := qthr s t in
  match qp th with
  | QTry _ =>
      match qmd th with
      | WR => ob_cas A_LS (-1) 0 (u64 (-1)) (u64 (ls s)) (ls s =? 0)
      | RD => ob_ld A_LS (-1) (u64 (ls s))
      end
  | QCas _ v => ob_cas A_LS (-1) (u64 v) (u64 (v + 1)) (u64 (ls s)) (ls s =? v)
  | QSpinX _ => ob_xg A_SPIN (-1) 1 (spin_val s)
  | QSpinL _ => ob_ld A_SPIN (-1) (spin_val s)
  | QRel _ _ => ob_st A_SPIN (-1) 0
  | QUlLoad => ob_ld A_LS (-1) (u64 (ls s))
  | QUlSub => ob_fs A_LS (-1) 1 (u64 (ls s))
  | QUlStore => ob_st A_LS (-1) 0
  | _ => ob_none
  end.

Definition silent_pc (p : qpc) : bool := match p with QWakeU | QWakeS => true | _ => false end.

Definition push_res (st : qe3) (t : tid) (r : Z) : qe3 :=
  mkQE3 (e_q st) (e_script st) (upd (e_res st) t (r :: e_res st t)).
Definition set_eq (st : qe3) (s : qrw) : qe3 := mkQE3 s (e_script st) (e_res st).
Definition pop_script (st : qe3) (t : tid) : qe3 :=
  mkQE3 (e_q st) (upd (e_script st) t (tl (e_script st t))) (e_res st).

(* run the thread-local code of participant t up to its next atomic operation *)
Fixpoint normalize (fuel : nat) (st : qe3) (t : tid) : qe3 :=
  match fuel with
  | O => st
  | S f =>
      let s := e_q st in
      match qp (qthr s t) with
      | QIdle =>
          match e_script st t with
          | [] => st
          | o :: _ =>
              let st1 := pop_script st t in
              match o with
              | OTryW => match qstep s (QCallTry t WR) with Some s1 => set_eq st1 s1 | None => st1 end
              | OTryR => match qstep s (QCallTry t RD) with Some s1 => set_eq st1 s1 | None => st1 end
              | OUnlock =>
                  if qholds s t
                  then match qstep s (QCallUnlock t) with Some s1 => set_eq st1 s1 | None => st1 end
                  else normalize f (push_res st1 t (-2)) t
              end
          end
      | p =>
          if silent_pc p
          then match qth_step s t with
               | Some (s1, ORet r _) => normalize f (push_res (set_eq st s1) t r) t
               | Some (s1, _) => normalize f (set_eq st s1) t
               | None => st
               end
          else st
      end
  end.

Definition NFUEL : nat := 64.

Definition e3step (st : qe3) (t : tid) (flavor : nat) : qe3 * E3_Run.obs :=
  let s := e_q st in
  let o := q_obs s t in
  match qth_step s t with
  | Some (s1, ORet r _) => (normalize NFUEL (push_res (set_eq st s1) t r) t, o)
  | Some (s1, _) => (normalize NFUEL (set_eq st s1) t, o)
  | None => (st, ob_none)
  end.

Definition e3fin (st : qe3) (t : tid) : bool :=
  match qp (qthr (e_q st) t), e_script st t with
  | QIdle, [] => true
  | _, _ => false
  end.

Fixpoint init_all (st : qe3) (k : nat) : qe3 :=
  match k with
  | O => st
  | S j => init_all (normalize NFUEL st j) j
  end.

Definition e3init (scripts : list (list qop)) : qe3 :=
  init_all (mkQE3 qrw0 (fun t => nth t scripts []) (fun _ => [])) (length scripts).

(* (final state, log, livelock) *)
Definition qe3_run (scripts : list (list qop)) (bound : nat) (sched : list nat) :=
  let n := length scripts in
  e3_run e3step e3fin n bound sched (pred n) (e3init scripts) [].
