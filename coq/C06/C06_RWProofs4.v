(* C06_RWProofs4.v — rwlock: the theorems in their final form, and the witnesses. *)
From Coq Require Import ZArith Lia List Bool Arith.
From PV Require Import Base.U64 C06.C06_Model C06.C06_RWArith C06.C06_RWProofs C06.C06_RWProofs2 C06.C06_RWProofs3 C06.C06_RWRun.
Import ListNotations.
Local Open Scope Z_scope.

Lemma greach_NS s : greach s -> NS s.
Proof.
  induction 1 as [|s l s' Hr IH Hwf Hg Hs]; [exact NS0|].
  eapply NS_step; eauto. apply reach_Inv. apply greach_reach. exact Hr.
Qed.

(* nobody is inside a call, except waiters sleeping un-notified in the queue *)
Definition quiescent (s : rw) : Prop :=
  forall t, pc (thr s t) = Idle \/ (pc (thr s t) = LkSleep /\ wake (thr s t) = None).

(* ---- rw_excl ------------------------------------------------------------------------------------ *)
Definition n_writers (hs : list (tid * mode)) : nat := length (filter (fun h => mode_eqb (snd h) WR) hs).
Definition n_readers (hs : list (tid * mode)) : nat := length (filter (fun h => mode_eqb (snd h) RD) hs).

Theorem rw_excl_thm s :
  reach s ->
  (* a writer among the holders => it is the only holder, and state = -1 *)
  (forall w, In (w, WR) (holders s) -> holders s = [(w, WR)] /\ st s = -1) /\
  (* no writer => state = number of (read) holds *)
  ((forall h, In h (holders s) -> snd h = RD) -> st s = Z.of_nat (length (holders s))) /\
  (* in all cases *)
  (st s = -1 \/ st s = Z.of_nat (length (holders s))) /\ -1 <= st s.
Proof.
  intros Hr. pose proof (i_excl _ (reach_Inv _ Hr)) as He. unfold excl, excl_ in He.
  destruct He as [[Hall Hst]|[w [Hh Hst]]].
  - rewrite Forall_forall in Hall.
    split; [|split; [|split]].
    + intros w' Hin. apply Hall in Hin. discriminate Hin.
    + intros _. exact Hst.
    + right. exact Hst.
    + lia.
  - rewrite Hh, Hst. split; [|split; [|split]].
    + intros w' [H|[]]. inversion H; subst. split; reflexivity.
    + intros Hall. specialize (Hall (w, WR) (or_introl eq_refl)). discriminate Hall.
    + left. reflexivity.
    + lia.
Qed.

(* ---- no-stuck ------------------------------------------------------------------------------------ *)
Theorem rw_no_stuck_thm s : greach s -> st s = 0 -> quiescent s -> q s = [].
Proof.
  intros Hg Hz Hq. destruct (q s) as [|h r] eqn:E; [reflexivity|exfalso].
  pose proof (greach_NS _ Hg) as HN. pose proof (reach_Inv _ (greach_reach _ Hg)) as HI.
  destruct (ns_main _ HN Hz) as [[u Hu]|[a Ha]]; [rewrite E; discriminate| |].
  - destruct (Hq u) as [Hp|[Hp _]]; rewrite Hp in Hu; discriminate Hu.
  - destruct (Hq a) as [Hp|[_ Hw]]; [|congruence].
    destruct (i_wake _ HI _ _ Ha) as [H|H]; congruence.
Qed.

(* the enabledness form: the lock is free and somebody waits => an unlock() is still running its
   wake-up code, or a waiter has been notified and has not resumed yet *)
Theorem rw_free_and_waiters_thm s :
  greach s -> st s = 0 -> q s <> [] ->
  (exists u, in_window (pc (thr s u)) = true) \/ (exists a, wake (thr s a) = Some WNotify).
Proof. intros Hg Hz Hq. exact (ns_main _ (greach_NS _ Hg) Hz Hq). Qed.

(* ================================================================================================
   Witnesses (all evaluated by vm_compute on the executable model)
   ================================================================================================ *)

(* W1 — F18 window, source-level reading of unlock(): the head reader times out between the inner
   `if` (1983) and the `while` condition (1986); the loop sees a writer at the head and wakes
   nobody.  Result: lock free, writer 2 asleep un-notified, every later locker queues behind it. *)
Local Open Scope nat_scope.
Definition w1_sched : list label :=
  [ CallLock 0 WR false; Th 0;                          (* T0 holds the lock in write mode *)
    CallLock 1 RD true; Th 1; Th 1; Th 1;               (* T1: timed read lock, waits *)
    CallLock 2 WR false; Th 2; Th 2; Th 2;              (* T2: untimed write lock, waits behind T1 *)
    CallUnlock 0; Th 0;                                 (* T0: state := 0, queue non-empty *)
    Th 0;                                               (* inner if: head T1 is a reader -> else arm *)
    Timeout 1;                                          (* T1's deadline passes on another vCPU *)
    Th 0;                                               (* while: head T2 is a writer -> no notify; return *)
    Th 1 ].
Local Close Scope nat_scope.                                             (* T1 returns -1/ETIMEDOUT *)

Lemma w1_result :
  option_map (fun r => (view 4 (fst r), snd r)) (run_obs rw0 w1_sched)
  = Some ((0, None, [2%nat], [], [(0, 0); (0, 0); (4, 0); (0, 0)]),
          [(0%nat, 0, 0); (0%nat, 0, 0); (1%nat, -1, ETIMEDOUT)]).
Proof. vm_compute. reflexivity. Qed.

Theorem rw_no_stuck_refuted_thm :
  exists ls s, run rw0 ls = Some s /\ st s = 0 /\ quiescent s /\ q s = [2%nat] /\
               timed (thr s 2%nat) = false /\ mtx s = None.
Proof.
  exists w1_sched. destruct (run rw0 w1_sched) as [s|] eqn:E; [|vm_compute in E; discriminate E].
  exists s. vm_compute in E. inversion E; subst; clear E.
  repeat split; try reflexivity.
  intros t. destruct t as [|[|[|t]]]; vm_compute; auto.
Qed.

(* ... and a reader arriving afterwards queues although the lock is free *)
Lemma w1_later_reader_queues :
  option_map (fun r => view 4 (fst r)) (run_obs rw0 (w1_sched ++ [CallLock 3%nat RD false; Th 3%nat; Th 3%nat; Th 3%nat]))
  = Some (0, None, [2%nat; 3%nat], [], [(0, 0); (0, 0); (4, 0); (4, 0)]).
Proof. vm_compute. reflexivity. Qed.

(* W2 — the window that is also present in the shipped x86-64 binary (head pointer loaded once):
   the head WRITER leaves between the mark test (1983) and cvar.notify_one() (1984); notify_one
   wakes the new head, a reader, and only that one: reader 3 stays queued un-notified. *)
Local Open Scope nat_scope.
Definition w2_sched : list label :=
  [ CallLock 0 WR false; Th 0;
    CallLock 1 WR true; Th 1; Th 1; Th 1;
    CallLock 2 RD false; Th 2; Th 2; Th 2;
    CallLock 3 RD false; Th 3; Th 3; Th 3;
    CallUnlock 0; Th 0; Th 0;                           (* head T1 is a writer -> writer arm *)
    Timeout 1;
    Th 0 ].
Local Close Scope nat_scope.                                             (* notify_one wakes T2 only; return *)

Lemma w2_result :
  option_map (fun r => view 4 (fst r)) (run_obs rw0 w2_sched)
  = Some (0, None, [3%nat], [], [(0, 0); (4, -2); (4, -1); (4, 0)]).
Proof. vm_compute. reflexivity. Qed.

(* "after the last holder unlocks ... all waiting readers are admitted" fails on this schedule:
   the unlock() has completed, the lock is free, no writer waits, reader 2 was notified and
   reader 3 was not *)
Theorem rw_admission_refuted_thm :
  exists ls s, run rw0 ls = Some s /\ st s = 0 /\ mtx s = None /\ pc (thr s 0%nat) = Idle /\
    q s = [3%nat] /\ md (thr s 3%nat) = RD /\ wake (thr s 3%nat) = None /\
    wake (thr s 2%nat) = Some WNotify /\ md (thr s 2%nat) = RD /\
    (forall x, In x (q s) -> md (thr s x) = RD).
Proof.
  exists w2_sched. destruct (run rw0 w2_sched) as [s|] eqn:E; [|vm_compute in E; discriminate E].
  exists s. vm_compute in E. inversion E; subst; clear E.
  repeat split; try reflexivity.
  intros x [<-|[]]. reflexivity.
Qed.

(* W3 — scenario (a): reader R2 (T2) queues behind waiting writer W (T1) while R1 (T0) holds;
   W times out; R2 stays queued; a later reader (T3) queues too.  The same schedule with W's
   call erased admits both at once.  So a failed lock() is NOT "exactly as if it had not been
   called" once the queue is counted as part of the lock state. *)
Local Open Scope nat_scope.
Definition w3_sched : list label :=
  [ CallLock 0 RD false; Th 0;
    CallLock 1 WR true; Th 1; Th 1; Th 1;
    CallLock 2 RD false; Th 2; Th 2; Th 2;
    Timeout 1; Th 1;
    CallLock 3 RD false; Th 3; Th 3; Th 3 ].
Local Close Scope nat_scope.
Definition erase_actor (t : tid) (ls : list label) : list label :=
  filter (fun l => negb (Nat.eqb (actor_of l) t)) ls.
(* in the erased run T2/T3 need a single step each; the surplus `Th` labels are not enabled *)
Local Open Scope nat_scope.
Definition w3_erased : list label :=
  [ CallLock 0 RD false; Th 0; CallLock 2 RD false; Th 2; CallLock 3 RD false; Th 3 ].
Local Close Scope nat_scope.

Lemma w3_with_failed_call :
  option_map (fun r => (view 4 (fst r), snd r)) (run_obs rw0 w3_sched)
  = Some ((1, None, [2%nat; 3%nat], [(0%nat, RD)], [(0, 0); (0, 0); (4, 0); (4, 0)]),
          [(0%nat, 0, 0); (1%nat, -1, ETIMEDOUT)]).
Proof. vm_compute. reflexivity. Qed.

Lemma w3_without_it :
  option_map (fun r => (view 4 (fst r), snd r)) (run_obs rw0 w3_erased)
  = Some ((3, None, [], [(3%nat, RD); (2%nat, RD); (0%nat, RD)], [(0, 0); (0, 0); (0, 0); (0, 0)]),
          [(0%nat, 0, 0); (2%nat, 0, 0); (3%nat, 0, 0)]).
Proof. vm_compute. reflexivity. Qed.

Theorem rw_failed_lock_as_if_not_called_refuted_thm :
  exists lsA lsB sA sB oA,
    run_obs rw0 lsA = Some (sA, oA) /\ run rw0 lsB = Some sB /\
    In (1%nat, -1, ETIMEDOUT) oA /\                       (* T1's lock() failed *)
    (forall l, In l lsB -> In l lsA /\ actor_of l <> 1%nat) /\  (* B = A without T1, minus steps that are not enabled *)
    st sA = 1 /\ q sA = [2%nat; 3%nat] /\ holds sA 2%nat = false /\ holds sA 3%nat = false /\
    st sB = 3 /\ q sB = [] /\ holds sB 2%nat = true /\ holds sB 3%nat = true.
Proof.
  exists w3_sched, w3_erased.
  destruct (run_obs rw0 w3_sched) as [[sA oA]|] eqn:EA; [|vm_compute in EA; discriminate EA].
  destruct (run rw0 w3_erased) as [sB|] eqn:EB; [|vm_compute in EB; discriminate EB].
  exists sA, sB, oA. vm_compute in EA. inversion EA; subst; clear EA.
  vm_compute in EB. inversion EB; subst; clear EB.
  repeat split; try reflexivity.
  - right. left. reflexivity.
  - simpl in H. simpl. repeat (destruct H as [<-|H]; [tauto|]). destruct H.
  - simpl in H. repeat (destruct H as [<-|H]; [simpl; discriminate|]). destruct H.
Qed.

(* ... but R2 and R3 are not blocked for ever: R1's unlock() notifies the whole run, and both get in *)
Lemma w3_then_unlock :
  option_map (fun r => (view 4 (fst r), snd r))
    (run_obs rw0 (w3_sched ++ CallUnlock 0%nat :: map Th [0; 0; 0; 0; 0; 0; 0; 2; 3]%nat))
  = Some ((2, None, [], [(3%nat, RD); (2%nat, RD)], [(0, 0); (0, 0); (0, 0); (0, 0)]),
          [(0%nat, 0, 0); (1%nat, -1, ETIMEDOUT); (0%nat, 0, 0); (2%nat, 0, 0); (3%nat, 0, 0)]).
Proof. vm_compute. reflexivity. Qed.

(* W4 — scenario (b): unlock() notifies a run of readers; a writer barges in before they run
   (queue empty, state 0); the readers re-check `op & state`, find the writer and wait again. *)
Local Open Scope nat_scope.
Definition w4_sched : list label :=
  [ CallLock 0 WR false; Th 0;
    CallLock 1 RD false; Th 1; Th 1; Th 1;
    CallLock 2 RD false; Th 2; Th 2; Th 2;
    CallUnlock 0; Th 0; Th 0; Th 0; Th 0; Th 0; Th 0; Th 0;     (* both readers notified, unlock returns *)
    CallLock 3 WR false; Th 3;                                   (* barging writer: admitted at once *)
    Th 1; Th 1; Th 1; Th 2; Th 2; Th 2 ].
Local Close Scope nat_scope.                        (* the readers wait again *)

Lemma w4_result :
  option_map (fun r => (view 4 (fst r), snd r)) (run_obs rw0 w4_sched)
  = Some ((-1, None, [1%nat; 2%nat], [(3%nat, WR)], [(0, 0); (4, 0); (4, 0); (0, 0)]),
          [(0%nat, 0, 0); (0%nat, 0, 0); (3%nat, 0, 0)]).
Proof. vm_compute. reflexivity. Qed.

(* hypotheses of the theorems are met by non-trivial states *)
Example w4_reachable : exists s, run rw0 w4_sched = Some s /\ reach s /\ st s = -1 /\ q s = [1%nat; 2%nat].
Proof.
  destruct (run rw0 w4_sched) as [s|] eqn:E; [|vm_compute in E; discriminate E].
  exists s. split; [reflexivity|]. split; [eapply run_reach; [constructor|exact E]|].
  vm_compute in E. inversion E; subst. split; reflexivity.
Qed.

Example w3_greachable : exists s, grun rw0 w3_sched = Some s /\ greach s /\ st s = 1 /\ q s = [2%nat; 3%nat].
Proof.
  destruct (grun rw0 w3_sched) as [s|] eqn:E; [|vm_compute in E; discriminate E].
  exists s. split; [reflexivity|]. split; [eapply grun_greach; [constructor|exact E]|].
  vm_compute in E. inversion E; subst. split; reflexivity.
Qed.

(* the frame / admission lemmas restated over `reach` *)
Lemma rw_failed_lock_noop_thm s l s' :
  reach s -> step s l = Some s' -> lock_label s l = true ->
  (exists t, l = Th t /\ th_step s t = Some (s', ORet 0 0) /\ holders s' = (t, md (thr s t)) :: holders s)
  \/ frame (C06_RWProofs2.actor l) s s'.
Proof. intros H. apply lock_step_frame. apply reach_Inv. exact H. Qed.

Lemma rw_failed_return_noop_thm s t s' r e :
  reach s -> lock_pc (pc (thr s t)) = true -> th_step s t = Some (s', ORet r e) -> r <> 0 -> frame t s s'.
Proof. intros H. apply failed_lock_frame. apply reach_Inv. exact H. Qed.

Lemma rw_admission_thm s t :
  reach s -> pc (thr s t) = UlEnter -> mtx s = None -> dec_state (st s) = 0 ->
  exists n s', run_thread n s t = Some s' /\ st s' = 0 /\ mtx s' = None /\ pc (thr s' t) = Idle /\
    match q s with
    | [] => q s' = []
    | h :: r =>
        match md (thr s h) with
        | WR => q s' = r /\ wake (thr s' h) = Some WNotify /\ (forall x, x <> h -> x <> t -> thr s' x = thr s x)
        | RD => q s' = snd (rd_split (fun x => md (thr s x)) (q s)) /\
                (forall x, In x (fst (rd_split (fun x => md (thr s x)) (q s))) -> wake (thr s' x) = Some WNotify) /\
                (forall x, ~ In x (fst (rd_split (fun x => md (thr s x)) (q s))) -> x <> t -> thr s' x = thr s x)
        end
    end.
Proof. intros H. apply admission_atomic. apply reach_Inv. exact H. Qed.
