(* C06_QProofs6.v — qrwlock, the BLOCKING path on the seeded scenario C06_1 (notes/C06.md, "Blocking path of qrwlock"):
   W0 holds WRITE; W1 waits lock(WLOCK, timed) on cv_unique, R2 waits lock(RLOCK) on cv_shared; W0 downgrades
   (unlock(); lock(RLOCK) with no other thread running in between): try_wake() prefers the writer, so only W1 is
   notified; W1 finds the lock read-held, waits again and times out.
   (1) the literal clause "a failed lock leaves the lock state exactly as if it had not been called" is refuted for
       qrwlock as well (the reader convoy of scenario (a), here through a barging reader): with W1's failed call R2 is
       still parked while the lock is read-held, without it R2 holds;
   (2) R2 is not lost: the last reader's unlock() runs try_wake(), finds cv_unique empty and notifies cv_shared —
       this is the step the seeded change (`cv_unique.notify_one()` only) removes; the same programs run on the real
       scheduler (E2 corpus of checks/C06.py) with the same result. *)
From Coq Require Import ZArith List Bool Arith Lia.
From PV Require Import Base.U64 C06.C06_Model C06.C06_QModel.
Import ListNotations.
Local Open Scope Z_scope.

Definition qactor_of (l : qlabel) : tid :=
  match l with
  | QCallLock t _ _ | QCallTry t _ | QCallUnlock t | QTh t | QTimeout t | QIntr t _ => t
  end.

(* schedule runner that also collects the return values (thread, ret, errno), oldest first *)
Fixpoint qrun_obs (s : qrw) (lbls : list qlabel) : option (qrw * list (tid * Z * Z)) :=
  match lbls with
  | [] => Some (s, [])
  | l :: r =>
      if qwf_label s l then
        match qstep s l with
        | Some s' =>
            let o := match l with
                     | QTh t => match qth_step s t with Some (_, ORet a e) => [(t, a, e)] | _ => [] end
                     | _ => []
                     end in
            match qrun_obs s' r with
            | Some (s2, os) => Some (s2, o ++ os)
            | None => None
            end
        | None => None
        end
      else None
  end.

Definition ths (t n : nat) : list qlabel := repeat (QTh t) n.
Arguments ths (t n)%nat_scope.

(* A: with the timed writer W1 *)
Definition qd_sched : list qlabel :=
  QCallLock 0%nat WR false :: ths 0 1 ++            (* W0 takes the write lock (fast path) *)
  QCallLock 1%nat WR true :: ths 1 5 ++             (* W1: fast path fails, spin, retry fails, enqueue on cv_unique, deferred spin.unlock *)
  QCallLock 2%nat RD false :: ths 2 5 ++            (* R2: the same on cv_shared *)
  QCallUnlock 0%nat :: ths 0 5 ++                   (* W0 unlock: load, spin, store 0, try_wake -> notify W1 only, release *)
  QCallLock 0%nat RD false :: ths 0 2 ++            (* ... and immediately lock(RLOCK): load, CAS 0 -> 1 *)
  ths 1 4 ++                                        (* W1 wakes up: spin, __trylock fails (read-held), waits again *)
  QTimeout 1%nat :: ths 1 2.                        (* W1 times out: spin, return -1/ETIMEDOUT *)

(* B: the same schedule without W1 (the unlock then runs cv_shared.notify_all(), and R2 retries) *)
Definition qd_erased : list qlabel :=
  QCallLock 0%nat WR false :: ths 0 1 ++
  QCallLock 2%nat RD false :: ths 2 5 ++
  QCallUnlock 0%nat :: ths 0 7 ++
  QCallLock 0%nat RD false :: ths 0 2 ++
  ths 2 4.

Lemma qd_A :
  option_map (fun r => (ls (fst r), spin (fst r), qu (fst r), qs (fst r), qholders (fst r), snd r)) (qrun_obs qrw0 qd_sched)
  = Some (1, None, [], [2%nat], [(0%nat, RD)], [(0%nat, 0, 0); (0%nat, 0, 0); (0%nat, 0, 0); (1%nat, -1, ETIMEDOUT)]).
Proof. vm_compute. reflexivity. Qed.

Lemma qd_B :
  option_map (fun r => (ls (fst r), spin (fst r), qu (fst r), qs (fst r), qholders (fst r), snd r)) (qrun_obs qrw0 qd_erased)
  = Some (2, None, [], [], [(2%nat, RD); (0%nat, RD)], [(0%nat, 0, 0); (0%nat, 0, 0); (0%nat, 0, 0); (2%nat, 0, 0)]).
Proof. vm_compute. reflexivity. Qed.

Theorem qrw_failed_lock_as_if_not_called_refuted_thm :
  exists lsA lsB sA sB oA,
    qrun_obs qrw0 lsA = Some (sA, oA) /\ qrun qrw0 lsB = Some sB /\
    In (1%nat, -1, ETIMEDOUT) oA /\                                  (* W1's lock() failed *)
    (forall l, In l lsB -> In l lsA /\ qactor_of l <> 1%nat) /\      (* B = A without W1 (plus nothing: every label of B occurs in A) *)
    ls sA = 1 /\ qu sA = [] /\ qs sA = [2%nat] /\ qholds sA 2%nat = false /\
    ls sB = 2 /\ qu sB = [] /\ qs sB = [] /\ qholds sB 2%nat = true.
Proof.
  exists qd_sched, qd_erased.
  destruct (qrun_obs qrw0 qd_sched) as [[sA oA]|] eqn:EA; [|vm_compute in EA; discriminate EA].
  destruct (qrun qrw0 qd_erased) as [sB|] eqn:EB; [|vm_compute in EB; discriminate EB].
  exists sA, sB, oA. vm_compute in EA. inversion EA; subst; clear EA.
  vm_compute in EB. inversion EB; subst; clear EB.
  repeat split; try reflexivity.
  - right. right. right. left. reflexivity.
  - simpl in H. simpl. repeat (destruct H as [<-|H]; [tauto|]). destruct H.
  - simpl in H. repeat (destruct H as [<-|H]; [simpl; discriminate|]). destruct H.
Qed.

(* ... but R2 is not lost: the LAST READER's unlock() (load, fetch_sub 1 -> 0, spin, try_wake: cv_unique empty, so
   cv_shared.notify_all()) notifies R2, which then takes the lock.  This is the wake-up the seeded change drops. *)
Lemma qd_then_unlock :
  option_map (fun r => (ls (fst r), spin (fst r), qu (fst r), qs (fst r), qholders (fst r), snd r))
    (qrun_obs qrw0 (qd_sched ++ QCallUnlock 0%nat :: ths 0 7 ++ ths 2 4))
  = Some (1, None, [], [], [(2%nat, RD)],
          [(0%nat, 0, 0); (0%nat, 0, 0); (0%nat, 0, 0); (1%nat, -1, ETIMEDOUT); (0%nat, 0, 0); (2%nat, 0, 0)]).
Proof. vm_compute. reflexivity. Qed.
