(* C06_QProofs4.v — qrwlock: the failed-lock frame and the theorems in their final form. *)
From Coq Require Import ZArith Lia List Bool Arith.
From PV Require Import Base.U64 C06.C06_Model C06.C06_RWProofs C06.C06_QModel C06.C06_QProofs C06.C06_QProofs2 C06.C06_QProofs3.
Import ListNotations.
Local Open Scope Z_scope.

Definition others (t : tid) (l : list tid) : list tid := filter (fun x => negb (Nat.eqb x t)) l.

Lemma others_remove t l : others t (remove_tid t l) = others t l.
Proof.
  induction l as [|x r IH]; simpl; [reflexivity|].
  destruct (Nat.eqb_spec x t); simpl; [reflexivity|].
  destruct (Nat.eqb_spec x t); [contradiction|]. simpl. f_equal. exact IH.
Qed.

Lemma others_app_self t l : others t (l ++ [t]) = others t l.
Proof.
  unfold others. rewrite filter_app. simpl. rewrite Nat.eqb_refl. simpl. apply app_nil_r.
Qed.

Definition qlock_pc (p : qpc) : bool :=
  match p with
  | QTry _ | QCas _ _ | QSpinX NFast | QSpinL NFast | QSpinX NWake | QSpinL NWake
  | QRel _ _ | QEnq | QDefer | QSleep => true
  | _ => false
  end.
Definition qactor (l : qlabel) : tid :=
  match l with QCallLock t _ _ | QCallTry t _ | QCallUnlock t | QTh t | QTimeout t | QIntr t _ => t end.
Definition qlock_label (s : qrw) (l : qlabel) : bool :=
  match l with
  | QCallUnlock _ => false
  | QTh t => qlock_pc (qp (qthr s t))
  | _ => true
  end.

Definition qframe (t : tid) (s s' : qrw) : Prop :=
  ls s' = ls s /\ qholders s' = qholders s /\ qnlog s' = qnlog s /\
  others t (qu s') = others t (qu s) /\ others t (qs s') = others t (qs s) /\
  (forall u, u <> t -> qthr s' u = qthr s u).

(* every step of a lock()/try_lock() call other than the successful try leaves lock_state, the
   ledger, the other threads and the order of the other waiters alone; the successful try is
   followed only by the release of `spin` and `return 0` *)
Lemma qlock_step_frame s l s' :
  qstep s l = Some s' -> qlock_label s l = true ->
  (exists t, l = QTh t /\ qholders s' = (t, qmd (qthr s t)) :: qholders s /\
             (qp (qthr s' t) = QRel 0 0 \/ qth_step s t = Some (s', ORet 0 0)))
  \/ qframe (qactor l) s s'.
Proof.
  intros Hstep Hl.
  destruct l as [t m tm|t m|t|t|t|t e]; simpl in Hstep, Hl; try discriminate Hl.
  - right. qbreak Hstep; inv_some. unfold qframe; qthr_simp. repeat split; auto. intros u Hu. apply upd_other. exact Hu.
  - right. qbreak Hstep; inv_some. unfold qframe; qthr_simp. repeat split; auto. intros u Hu. apply upd_other. exact Hu.
  - destruct (qth_step s t) as [[s1 o]|] eqn:Hth; simpl in Hstep; [|discriminate Hstep].
    inv_some. pose proof Hth as Hth0.
    qbreak Hth; inv_some; simpl in Hl; try discriminate Hl.
    all: try solve [left; exists t; split; [reflexivity|]; split; [try (match goal with Em : qmd _ = _ |- _ => rewrite Em end); reflexivity|];
                    first [left; qthr_simp; rewrite upd_same; reflexivity | right; exact Hth0]].
    all: right; unfold qframe; qthr_simp; repeat split; auto;
         try (intros u Hu; apply upd_other; exact Hu);
         try (symmetry; apply others_app_self).
    all: try (apply others_app_self).
  - right. qbreak Hstep; inv_some. unfold qframe; qthr_simp.
    repeat split; auto; try apply others_remove. intros u Hu. apply upd_other. exact Hu.
  - right. qbreak Hstep; inv_some; unfold qframe; qthr_simp;
    repeat split; auto; try apply others_remove; intros u Hu; apply upd_other; exact Hu.
Qed.

(* ---- qrw_excl ---------------------------------------------------------------------------------- *)
Theorem qrw_excl_thm s :
  qreach s ->
  (forall w, In (w, WR) (qholders s) -> qholders s = [(w, WR)] /\ ls s = -1) /\
  ((forall h, In h (qholders s) -> snd h = RD) -> ls s = Z.of_nat (length (qholders s))) /\
  (ls s = -1 \/ ls s = Z.of_nat (length (qholders s))) /\ -1 <= ls s.
Proof.
  intros Hr. pose proof (qa_excl _ (qreach_QA _ Hr)) as He. unfold excl_ in He.
  destruct He as [[Hall Hst]|[w [Hh Hst]]].
  - rewrite Forall_forall in Hall.
    split; [|split; [|split]].
    + intros w' Hin. apply Hall in Hin. discriminate Hin.
    + intros _. exact Hst.
    + right. exact Hst.
    + lia.
  - rewrite Hh, Hst. split; [|split; [|split]].
    + intros w' [H|[]]. inversion H; subst. split; reflexivity.
    + intros Hall. specialize (Hall (w, WR) (or_introl eq_refl)). discriminate Hall.
    + left. reflexivity.
    + lia.
Qed.

(* ---- qrw_no_lost_wake --------------------------------------------------------------------------- *)
Theorem qrw_no_lost_wake_thm s :
  qreach s -> ls s = 0 -> ~ qwaker s -> ~ qretrier s -> qu s = [] /\ qs s = [].
Proof.
  intros Hr Hz Hw Hre. pose proof (nl_main _ (qreach_NL _ Hr)) as Hm.
  destruct (qu s) as [|a r] eqn:Eu; destruct (qs s) as [|b r'] eqn:Es; try (split; reflexivity); exfalso.
  - destruct Hm as [H|[H|H]]; [right; discriminate|tauto|tauto|tauto].
  - destruct Hm as [H|[H|H]]; [left; discriminate|tauto|tauto|tauto].
  - destruct Hm as [H|[H|H]]; [left; discriminate|tauto|tauto|tauto].
Qed.

Definition qquiescent (s : qrw) : Prop :=
  forall t, qp (qthr s t) = QIdle \/ (qp (qthr s t) = QSleep /\ qwake (qthr s t) = None).

Corollary qrw_no_stuck_thm s : qreach s -> ls s = 0 -> qquiescent s -> qu s = [] /\ qs s = [].
Proof.
  intros Hr Hz Hq. apply qrw_no_lost_wake_thm; auto.
  - intros [u Hu]. destruct (Hq u) as [Hp|[Hp _]]; rewrite Hp in Hu; discriminate Hu.
  - intros [a [Ha|Ha]].
    + destruct (Hq a) as [Hp|[_ Hw]]; [|congruence].
      pose proof (qb_wk _ (qreach_QB _ Hr) _ _ Ha) as Hk. rewrite Hp in Hk. discriminate Hk.
    + destruct (Hq a) as [Hp|[Hp _]]; rewrite Hp in Ha; discriminate Ha.
Qed.

(* a concrete non-trivial reachable state: writer 0 holds, writer 1 and reader 2 wait, both timed *)
Local Open Scope nat_scope.
Definition q_ex_sched : list qlabel :=
  [ QCallLock 0 WR false; QTh 0;
    QCallLock 1 WR true; QTh 1; QTh 1; QTh 1; QTh 1; QTh 1;
    QCallLock 2 RD true; QTh 2; QTh 2; QTh 2; QTh 2; QTh 2 ].
Local Close Scope nat_scope.

Example q_ex_reachable : exists s, qrun qrw0 q_ex_sched = Some s /\ qreach s /\ ls s = -1 /\ qu s = [1%nat] /\ qs s = [2%nat].
Proof.
  destruct (qrun qrw0 q_ex_sched) as [s|] eqn:E; [|vm_compute in E; discriminate E].
  exists s. split; [reflexivity|]. split; [eapply qrun_qreach; [constructor|exact E]|].
  vm_compute in E. inversion E; subst. repeat split; reflexivity.
Qed.
