(* C06_QProofs2.v — qrwlock: spin ownership, wake bookkeeping, and the no-lost-wake invariant,
   over EVERY schedule. *)
From Coq Require Import ZArith Lia List Bool Arith.
From PV Require Import Base.U64 C06.C06_Model C06.C06_RWProofs C06.C06_QModel C06.C06_QProofs.
Import ListNotations.
Local Open Scope Z_scope.

Record QB (s : qrw) : Prop := mkQB {
  qb_s1 : forall t, spin_pc (qp (qthr s t)) = true -> spin s = Some t;
  qb_s2 : forall t, spin s = Some t -> spin_pc (qp (qthr s t)) = true;
  qb_wk : forall t w, qwake (qthr s t) = Some w -> wake_pc (qp (qthr s t)) = true;
  qb_qu : forall h, In h (qu s) -> (qp (qthr s h) = QDefer \/ qp (qthr s h) = QSleep) /\ qwake (qthr s h) = None;
  qb_qs : forall h, In h (qs s) -> (qp (qthr s h) = QDefer \/ qp (qthr s h) = QSleep) /\ qwake (qthr s h) = None
}.

Lemma QB0 : QB qrw0.
Proof. constructor; simpl; try (intros; discriminate); tauto. Qed.

Lemma QB_step s l s' : QB s -> qstep s l = Some s' -> QB s'.
Proof.
  intros [H1 H2 Hwk Hqu Hqs] Hstep.
  qstep_cases Hstep; qthr_simp.
  all: constructor; simpl.
  all: try solve [assumption].
  all: try solve [pw_intro x Hx t; [simpl in Hx; try discriminate Hx | apply H1; exact Hx]].
  all: match goal with |- ?G => idtac "GOAL" G end.
Abort.
